/- helper lemmas for SMD/Properties/C06.lean -/
import SMD.Spec.History
import SMD.Proofs.OwnershipShape
import SMD.Proofs.HistoryInvariants
import SMD.Proofs.MergeNodes
import SMD.Proofs.NodeFieldSet
import SMD.Properties.C15
import SMD.Properties.C13Total
namespace SMD
open SetTrie

/-! ### the manager loop with the identity converter and no ignore filter: every other manager is
compared by the one comparison of the two objects -/

theorem cacheGet_cons (v : String) (c : Comparison) (vs : List (String × Comparison)) (v' : String) :
    cacheGet ((v, c) :: vs) v' = if v == v' then some c else cacheGet vs v' := by
  simp only [cacheGet, List.find?_cons]
  split <;> simp_all

theorem updateLoop_identity (u : Updater) (sc : Schema) (o n : TV) (w : String) (cmp0 : Comparison)
    (hconv : u.converter = Converter.identity) (hig : ∀ v, u.ignore v = none)
    (hc : compareTV sc o n = .ok cmp0) :
    ∀ (iter : List (String × VersionedSet)) (ms : Managed) (versions : List (String × Comparison))
      (conflicts removed : List (String × VersionedSet)) (ms' : Managed) (cs rs : List (String × VersionedSet)),
      (∀ v c, cacheGet versions v = some c → c = cmp0) →
      updateLoop u sc o n w iter ms versions conflicts removed = .ok (ms', cs, rs) →
        ms' = ms ∧ (∀ x ∈ removed, x ∈ rs) ∧
        (∀ y ∈ iter, y.1 ≠ w → cmp0.removed.isEmpty = false → ∃ x ∈ rs, x.1 = y.1 ∧ x.2.set = cmp0.removed) := by
  intro iter
  induction iter with
  | nil =>
    intro ms versions conflicts removed ms' cs rs _ h
    simp only [updateLoop, Outcome.ok.injEq, Prod.mk.injEq] at h
    obtain ⟨rfl, rfl, rfl⟩ := h
    exact ⟨rfl, fun x hx => List.mem_reverse.2 hx, by simp⟩
  | cons hd rest ih =>
    intro ms versions conflicts removed ms' cs rs hv h
    obtain ⟨manager, vs⟩ := hd
    rw [updateLoop] at h
    split at h
    · rename_i heq
      have heq : manager = w := by simpa using heq
      obtain ⟨a, b, c⟩ := ih _ _ _ _ _ _ _ hv h
      refine ⟨a, b, fun y hy hne hre => ?_⟩
      rcases List.mem_cons.1 hy with rfl | hy
      · exact absurd heq hne
      · exact c y hy hne hre
    · -- the way the loop goes on, with the comparison `cmp0`
      have cont : ∀ (versions' : List (String × Comparison)),
          (∀ v c, cacheGet versions' v = some c → c = cmp0) →
          updateLoop u sc o n w rest ms versions'
            (if (!(vs.set.inter (cmp0.modified.union cmp0.added)).isEmpty) = true then
              (manager, ⟨vs.set.inter (cmp0.modified.union cmp0.added), vs.version, false⟩) :: conflicts else conflicts)
            (if (!cmp0.removed.isEmpty) = true then (manager, ⟨cmp0.removed, vs.version, false⟩) :: removed else removed)
            = .ok (ms', cs, rs) →
          ms' = ms ∧ (∀ x ∈ removed, x ∈ rs) ∧
          (∀ y ∈ (manager, vs) :: rest, y.1 ≠ w → cmp0.removed.isEmpty = false →
            ∃ x ∈ rs, x.1 = y.1 ∧ x.2.set = cmp0.removed) := by
        intro versions' hv' h
        obtain ⟨a, b, c⟩ := ih _ _ _ _ _ _ _ hv' h
        refine ⟨a, fun x hx => b x ?_, fun y hy hne hre => ?_⟩
        · split
          · exact List.mem_cons_of_mem _ hx
          · exact hx
        · rcases List.mem_cons.1 hy with rfl | hy
          · refine ⟨(manager, ⟨cmp0.removed, vs.version, false⟩), b _ ?_, rfl, rfl⟩
            simp [hre]
          · exact c y hy hne hre
      simp only [] at h
      split at h
      · rename_i cmp hget
        have := hv _ _ hget
        subst this
        exact cont _ hv h
      · simp only [hconv, Converter.identity, hc, hig, filterCmp] at h
        refine cont _ ?_ h
        intro v c hg
        rw [cacheGet_cons] at hg
        split at hg
        · simpa using hg.symm
        · exact hv v c hg

/-! ### the subtraction loop on managed fields in key order -/

theorem mem_entriesOf {m : Managed} {k : String} {x : String × VersionedSet} (hx : x ∈ m) (hk : x.1 = k) :
    x ∈ entriesOf m k := by
  simp [entriesOf, hx, hk]

/-- every entry after the subtraction descends from an entry of its key, has a well-formed smaller set,
and contains no member of any set subtracted under its key -/
theorem subSets_removed : ∀ (xs : List (String × VersionedSet)) (ms : Managed),
    SortedManaged ms → (∀ x ∈ ms, x.2.set.wf = true) →
      ∀ z ∈ subSets ms xs, z.2.set.wf = true ∧
        (∃ y ∈ ms, z.1 = y.1 ∧ ∀ q, z.2.set.has q = true → y.2.set.has q = true) ∧
        ∀ x ∈ xs, x.1 = z.1 → ∀ q, z.2.set.has q = true → x.2.set.has q = false := by
  intro xs
  induction xs with
  | nil =>
    intro ms _ hw z hz
    exact ⟨hw z hz, ⟨z, hz, rfl, fun _ h => h⟩, by simp⟩
  | cons x xs ih =>
    intro ms hs hw z hz
    simp only [subSets, List.foldl_cons] at hz
    cases hg : mfGet ms x.1 with
    | none =>
      rw [hg] at hz
      obtain ⟨w1, ⟨y, hy, hzy, hsub⟩, hno⟩ := ih ms hs hw z hz
      refine ⟨w1, ⟨y, hy, hzy, hsub⟩, fun x' hx' hk => ?_⟩
      rcases List.mem_cons.1 hx' with rfl | hx'
      · exact absurd (hk.trans hzy).symm (mfGet_eq_none_iff.1 hg y hy)
      · exact hno x' hx' hk
    | some cur =>
      rw [hg] at hz
      have hcur : (x.1, cur) ∈ ms := mem_of_mfGet hg
      have hwcur := hw _ hcur
      have hs1 : SortedManaged (mfSet ms x.1 ⟨cur.set.diff x.2.set, cur.version, cur.applied⟩) :=
        sortedManaged_mfSet _ _ hs
      have hw1 : ∀ y ∈ mfSet ms x.1 ⟨cur.set.diff x.2.set, cur.version, cur.applied⟩, y.2.set.wf = true := by
        intro y hy
        rcases mem_mfSet hy with rfl | hy
        · exact wf_diff_left _ _ hwcur
        · exact hw y hy
      obtain ⟨w1, ⟨y, hy, hzy, hsub⟩, hno⟩ := ih _ hs1 hw1 z hz
      refine ⟨w1, ?_, fun x' hx' hk => ?_⟩
      · rcases mem_mfSet hy with rfl | hy
        · refine ⟨(x.1, cur), hcur, hzy, fun q hq => ?_⟩
          have := hsub q hq
          simp only [has_diff_left q _ _ hwcur, Bool.and_eq_true] at this
          exact this.1
        · exact ⟨y, hy, hzy, hsub⟩
      · rcases List.mem_cons.1 hx' with rfl | hx'
        · intro q hq
          have hmem := mem_entriesOf hy (hk.trans hzy).symm
          rw [entriesOf_mfSet_self_sorted _ _ hs, List.mem_singleton] at hmem
          subst hmem
          have := hsub q hq
          simp only [has_diff_left q _ _ hwcur, Bool.and_eq_true, Bool.not_eq_true'] at this
          exact this.2
        · exact hno x' hx' hk

theorem subSets_wf (xs : List (String × VersionedSet)) (ms : Managed)
    (hs : SortedManaged ms) (hw : ∀ x ∈ ms, x.2.set.wf = true) : ∀ z ∈ subSets ms xs, z.2.set.wf = true :=
  fun z hz => (subSets_removed xs ms hs hw z hz).1

/-! ### `updateCore` with the identity converter and no ignore filter: no other manager keeps a path
the comparison reports removed -/

theorem updateCore_removed {u : Updater} {sc : Schema} {o n : TV} {ver : String} {ms : Managed} {w : String}
    {force : Bool} {out : Managed} {cmp : Comparison}
    (hconv : u.converter = Converter.identity) (hig : ∀ v, u.ignore v = none)
    (hs : SortedManaged ms) (hw : ∀ x ∈ ms, x.2.set.wf = true)
    (h : updateCore u sc o n ver ms w force = .ok (out, cmp)) :
    compareTV sc o n = .ok cmp ∧
    ∀ x ∈ out, x.2.set.wf = true ∧
      (∃ y ∈ ms, x.1 = y.1 ∧ ∀ q, x.2.set.has q = true → y.2.set.has q = true) ∧
      (x.1 ≠ w → ∀ q, x.2.set.has q = true → cmp.removed.has q = false) := by
  simp only [updateCore] at h
  split at h
  · cases h
  · cases h
  · rename_i cmp0 hc
    simp only [hig, filterCmp] at h
    split at h
    · rename_i ms2 conflicts removed hl
      obtain ⟨rfl, _, hrs⟩ := updateLoop_identity u sc o n w cmp0 hconv hig hc _ _ _ _ _ _ _ _
        (by
          intro v c hg
          rw [cacheGet_cons] at hg
          split at hg
          · simpa using hg.symm
          · simp [cacheGet] at hg) hl
      split at h
      · cases h
      · simp only [Outcome.ok.injEq, Prod.mk.injEq] at h
        obtain ⟨rfl, rfl⟩ := h
        refine ⟨hc, fun x hx => ?_⟩
        have hx' : x ∈ (subSets (subSets ms2 conflicts) removed).filter (fun m => !m.2.set.isEmpty) := hx
        rw [List.mem_filter] at hx'
        have hs1 := sortedManaged_subSets conflicts ms2 hs
        have hw1 := subSets_wf conflicts ms2 hs hw
        obtain ⟨wx, ⟨y, hy, hxy, hsub⟩, hno⟩ := subSets_removed removed _ hs1 hw1 x hx'.1
        obtain ⟨_, ⟨y0, hy0, hyy0, hsub0⟩, _⟩ := subSets_removed conflicts _ hs hw y hy
        refine ⟨wx, ⟨y0, hy0, hxy.trans hyy0, fun q hq => hsub0 q (hsub q hq)⟩, fun hne q hq => ?_⟩
        by_cases hre : cmp0.removed.isEmpty = true
        · exact has_of_isEmpty q _ hre
        · obtain ⟨r, hr, hr1, hr2⟩ := hrs y0 hy0 (by rw [← hyy0, ← hxy]; exact hne) (by simpa using hre)
          rw [← hr2]
          exact hno r hr (by rw [hr1, hxy, hyy0]) q hq
    · cases h
    · cases h
    · cases h

/-! ### ownership against an abstract notion of presence

`P tr v p`: "the path `p` designates something present in the object `v` of type `tr`".  The bookkeeping
argument of C06 needs three facts about the comparison (`CompareFacts`) and, for the schema-reconcile
step, that presence is inherited by the prefixes of a path (`PrefixClosed`). -/

abbrev Presence := TypeRef → Value → Path → Prop

/-- every owned path is present in the object -/
def OwnedIn (P : Presence) (tr : TypeRef) (live : Value) (m : Managed) : Prop :=
  ∀ x ∈ m, ∀ p, x.2.set.has p = true → P tr live p

/-- a non-empty prefix of a present path is present -/
def PrefixClosed (P : Presence) : Prop := ∀ tr v (p q : Path), p ≠ [] → P tr v (p ++ q) → P tr v p

/-- what the bookkeeping needs from Compare, for the notion of presence `P` -/
structure CompareFacts (sc : Schema) (P : Presence) : Prop where
  added : ∀ (l r : TV) (c : Comparison),
    validateV sc false l.type l.value = .ok () → validateV sc false r.type r.value = .ok () →
    compareTV sc l r = .ok c → ∀ p, c.added.has p = true → P r.type r.value p
  modified : ∀ (l r : TV) (c : Comparison),
    validateV sc false l.type l.value = .ok () → validateV sc false r.type r.value = .ok () →
    compareTV sc l r = .ok c → ∀ p, c.modified.has p = true → P r.type r.value p
  removed : ∀ (l r : TV) (c : Comparison),
    validateV sc false l.type l.value = .ok () → validateV sc false r.type r.value = .ok () →
    compareTV sc l r = .ok c → ∀ p, P l.type l.value p → ¬ P r.type r.value p → c.removed.has p = true

/-- the schema-reconcile step only adds prefixes of owned paths -/
theorem reconcileManaged_ownedIn {u : Updater} {sc : Schema} {live : TV} {m m0 : Managed} {P : Presence}
    (hP : PrefixClosed P) (h : reconcileManaged u sc live m = .ok m0) (hw : ∀ x ∈ m, x.2.set.wf = true)
    (hinv : OwnedIn P live.type live.value m) : OwnedIn P live.type live.value m0 := by
  intro x hx p hp
  obtain ⟨y, hy, r, hr⟩ := reconcileManaged_covered h hw hx hp
  exact hP _ _ p r (has_true_ne_nil hp) (hinv y hy _ hr)

/-- what `updateCore` leaves to the other managers is present in the new object -/
theorem updateCore_ownedIn {u : Updater} {sc : Schema} {o n : TV} {ver : String} {ms : Managed} {w : String}
    {force : Bool} {out : Managed} {cmp : Comparison} {P : Presence} (hc : CompareFacts sc P)
    (hconv : u.converter = Converter.identity) (hig : ∀ v, u.ignore v = none)
    (hs : SortedManaged ms) (hw : ∀ x ∈ ms, x.2.set.wf = true)
    (ho : validateV sc false o.type o.value = .ok ()) (hn : validateV sc false n.type n.value = .ok ())
    (hinv : ∀ y ∈ ms, y.1 ≠ w → ∀ p, y.2.set.has p = true → P o.type o.value p)
    (h : updateCore u sc o n ver ms w force = .ok (out, cmp)) :
    ∀ x ∈ out, x.1 ≠ w → ∀ p, x.2.set.has p = true → P n.type n.value p := by
  obtain ⟨hcmp, hout⟩ := updateCore_removed hconv hig hs hw h
  intro x hx hne p hp
  obtain ⟨_, ⟨y, hy, hxy, hsub⟩, hno⟩ := hout x hx
  have h1 : P o.type o.value p := hinv y hy (by rw [← hxy]; exact hne) p (hsub p hp)
  have h2 := hno hne p hp
  apply Classical.byContradiction
  intro hnot
  rw [hc.removed o n cmp ho hn hcmp p h1 hnot] at h2
  cases h2

/-- one Update keeps "every owned path is present" -/
theorem update_ownedIn {u : Updater} {sc : Schema} {tr : TypeRef} {live newObj : Value} {ver : String}
    {m : Managed} {mgr : String} {mf : Managed} {P : Presence} (hP : PrefixClosed P) (hc : CompareFacts sc P)
    (hconv : u.converter = Converter.identity) (hig : ∀ v, u.ignore v = none)
    (hs : SortedManaged m) (hw : ∀ x ∈ m, x.2.set.wf = true)
    (hlive : validateV sc false tr live = .ok ()) (hnew : validateV sc false tr newObj = .ok ())
    (hinv : OwnedIn P tr live m)
    (hup : update u sc ⟨live, tr⟩ ⟨newObj, tr⟩ ver m mgr = .ok mf) : OwnedIn P tr newObj mf := by
  obtain ⟨m0, ms, cmp, hrec, hcore, hmf⟩ := update_ok_inv hup
  have hs0 := reconcileManaged_sorted hrec hs
  have hw0 := reconcileManaged_wf hrec hw
  have hinv0 : OwnedIn P tr live m0 := reconcileManaged_ownedIn (live := ⟨live, tr⟩) hP hrec hw hinv
  obtain ⟨hcmp, hout⟩ := updateCore_removed hconv hig hs0 hw0 hcore
  have hsms := updateCore_sorted hcore hs0
  have hothers := updateCore_ownedIn (o := ⟨live, tr⟩) (n := ⟨newObj, tr⟩) hc hconv hig hs0 hw0 hlive hnew
    (fun y hy _ => hinv0 y hy) hcore
  obtain ⟨wr, wm, wa⟩ := compareTV_wf hcmp
  -- the record the acting manager starts from
  have hcur : ((mfGet ms mgr).getD ⟨SetTrie.empty, ver, false⟩).set.wf = true ∧
      ∀ q, ((mfGet ms mgr).getD ⟨SetTrie.empty, ver, false⟩).set.has q = true → P tr live q := by
    cases hg : mfGet ms mgr with
    | none => exact ⟨wf_empty, fun q hq => by simp [has_empty] at hq⟩
    | some v =>
      obtain ⟨wv, ⟨y, hy, _, hsub⟩, _⟩ := hout _ (mem_of_mfGet hg)
      exact ⟨wv, fun q hq => hinv0 y hy q (hsub q hq)⟩
  have hactor : ∀ p, (updateSet u ver ms mgr cmp).has p = true → P tr newObj p := by
    intro p hp
    simp only [updateSet, applyIgnore, hig] at hp
    rw [has_union p _ _ (wf_union _ _ (wf_diff_left _ _ hcur.1) wm) wa,
      has_union p _ _ (wf_diff_left _ _ hcur.1) wm, has_diff_left p _ _ hcur.1] at hp
    simp only [Bool.or_eq_true, Bool.and_eq_true, Bool.not_eq_true'] at hp
    rcases hp with (⟨h1, h2⟩ | h) | h
    · apply Classical.byContradiction
      intro hnot
      rw [hc.removed ⟨live, tr⟩ ⟨newObj, tr⟩ cmp hlive hnew hcmp p (hcur.2 p h1) hnot] at h2
      cases h2
    · exact hc.modified ⟨live, tr⟩ ⟨newObj, tr⟩ cmp hlive hnew hcmp p h
    · exact hc.added ⟨live, tr⟩ ⟨newObj, tr⟩ cmp hlive hnew hcmp p h
  intro x hx p hp
  rw [hmf] at hx
  split at hx
  · obtain ⟨hx1, hx2⟩ := mem_mfDelete hx
    exact hothers x hx1 hx2 p hp
  · by_cases hk : x.1 = mgr
    · have hmem := mem_entriesOf hx hk
      rw [entriesOf_mfSet_self_sorted _ _ hsms, List.mem_singleton] at hmem
      subst hmem
      exact hactor p hp
    · rcases mem_mfSet hx with rfl | hx
      · exact absurd rfl hk
      · exact hothers x hx hk p hp

/-! ### a manager's first Apply -/

theorem reconcileManaged_mfGet_none {u : Updater} {sc : Schema} {live : TV} {m m0 : Managed} {k : String}
    (h : reconcileManaged u sc live m = .ok m0) (hk : mfGet m k = none) : mfGet m0 k = none := by
  rw [mfGet_eq_none_iff] at hk ⊢
  intro x hx
  obtain ⟨y, hy, hxy, _⟩ := reconcileManaged_mem h x hx
  rw [hxy]
  exact hk y hy

/-- a first Apply does not prune: the object handed to `updateCore` is the merge -/
theorem first_apply_inv {u : Updater} {sc : Schema} {live cfg : TV} {ver : String} {m : Managed} {mgr : String}
    {force : Bool} {obj : Option TV} {mf : Managed} (hfirst : mfGet m mgr = none)
    (h : apply u sc live cfg ver m mgr force = .ok (obj, mf)) :
    ∃ m0 fs merged cmp, reconcileManaged u sc live m = .ok m0 ∧ toFieldSet sc cfg = .ok fs ∧
      mergeTV sc live cfg = .ok merged ∧
      updateCore u sc live merged ver (mfSet m0 mgr ⟨applyIgnore u ver fs, ver, true⟩) mgr force = .ok (mf, cmp) ∧
      (obj = some merged ∨ (obj = none ∧ Value.equals live.value merged.value = true)) := by
  rw [apply_eq] at h
  unfold applyPre at h
  cases hrec : reconcileManaged u sc live m with
  | ok m0 =>
    rw [hrec] at h
    simp only at h
    have hnone := reconcileManaged_mfGet_none hrec hfirst
    cases hm : mergeTV sc live cfg with
    | ok merged =>
      rw [hm] at h
      simp only [liftRes] at h
      cases hfs : toFieldSet sc cfg with
      | ok fs =>
        rw [hfs] at h
        simp only [hnone, prune_none] at h
        obtain ⟨ms, cmp, hcore, hr⟩ := applyFinish_eq_ok h
        have h1 := congrArg Prod.fst hr
        have h2 := congrArg Prod.snd hr
        simp only at h1 h2
        subst h2
        refine ⟨m0, fs, merged, cmp, rfl, rfl, rfl, hcore, ?_⟩
        by_cases hc : (!u.returnInputOnNoop && Value.equals live.value merged.value) = true
        · rw [if_pos hc] at h1
          right
          simp only [Bool.and_eq_true] at hc
          exact ⟨h1, hc.2⟩
        · rw [if_neg hc] at h1
          left; exact h1
      | err => rw [hfs] at h; simp at h
      | panic => rw [hfs] at h; simp at h
    | err => rw [hm] at h; simp [liftRes] at h
    | panic => rw [hm] at h; simp [liftRes] at h
  | conflict c => rw [hrec] at h; simp at h
  | err => rw [hrec] at h; simp at h
  | panic => rw [hrec] at h; simp at h

/-- a manager's first Apply keeps "every owned path is present", provided the merged object is valid,
the paths of the configuration are present in it, and presence does not distinguish equal values -/
theorem first_apply_ownedIn {u : Updater} {sc : Schema} {tr : TypeRef} {live cfg : Value} {ver : String}
    {m : Managed} {mgr : String} {force : Bool} {obj : Option TV} {mf : Managed} {P : Presence}
    (hP : PrefixClosed P) (hc : CompareFacts sc P)
    (hconv : u.converter = Converter.identity) (hig : ∀ v, u.ignore v = none)
    (hs : SortedManaged m) (hw : ∀ x ∈ m, x.2.set.wf = true)
    (hlive : validateV sc false tr live = .ok ())
    (hvalid : ∀ merged, mergeTV sc ⟨live, tr⟩ ⟨cfg, tr⟩ = .ok merged → validateV sc false tr merged.value = .ok ())
    (hcfg : ∀ merged fs, mergeTV sc ⟨live, tr⟩ ⟨cfg, tr⟩ = .ok merged → toFieldSet sc ⟨cfg, tr⟩ = .ok fs →
      ∀ p, fs.has p = true → P tr merged.value p)
    (hcongr : ∀ (v w : Value) (p : Path), Value.equals v w = true → P tr w p → P tr v p)
    (hinv : OwnedIn P tr live m) (hfirst : mfGet m mgr = none)
    (hap : apply u sc ⟨live, tr⟩ ⟨cfg, tr⟩ ver m mgr force = .ok (obj, mf)) :
    OwnedIn P tr (match (generalizing := false) obj with | some o => o.value | none => live) mf := by
  obtain ⟨m0, fs, merged, cmp, hrec, hfs, hmerge, hcore, hobj⟩ := first_apply_inv hfirst hap
  have hty : merged.type = tr := by
    simp only [mergeTV] at hmerge
    split at hmerge
    · cases hmerge
    · split at hmerge
      · simp only [Res.ok.injEq] at hmerge
        rw [← hmerge]
      · cases hmerge
      · cases hmerge
  have hs0 := reconcileManaged_sorted hrec hs
  have hw0 := reconcileManaged_wf hrec hw
  have hinv0 : OwnedIn P tr live m0 := reconcileManaged_ownedIn (live := ⟨live, tr⟩) hP hrec hw hinv
  have hig' : applyIgnore u ver fs = fs := by simp [applyIgnore, hig]
  rw [hig'] at hcore
  have hs1 : SortedManaged (mfSet m0 mgr ⟨fs, ver, true⟩) := sortedManaged_mfSet _ _ hs0
  have hw1 : ∀ x ∈ mfSet m0 mgr ⟨fs, ver, true⟩, x.2.set.wf = true := by
    intro x hx
    rcases mem_mfSet hx with rfl | hx
    · exact toFieldSet_wf hfs
    · exact hw0 x hx
  have hmv := hvalid merged hmerge
  obtain ⟨merged_v, merged_t⟩ := merged
  simp only at hty hmv
  subst hty
  have hothers := updateCore_ownedIn (o := ⟨live, merged_t⟩) (n := ⟨merged_v, merged_t⟩) hc hconv hig hs1 hw1
    hlive hmv
    (by
      intro y hy hne p hp
      rcases mem_mfSet hy with rfl | hy
      · exact absurd rfl hne
      · exact hinv0 y hy p hp) hcore
  obtain ⟨_, hout⟩ := updateCore_removed hconv hig hs1 hw1 hcore
  have key : OwnedIn P merged_t merged_v mf := by
    intro x hx p hp
    by_cases hk : x.1 = mgr
    · obtain ⟨_, ⟨y, hy, hxy, hsub⟩, _⟩ := hout x hx
      have hmem := mem_entriesOf hy (hxy.symm.trans hk)
      rw [entriesOf_mfSet_self_sorted _ _ hs0, List.mem_singleton] at hmem
      subst hmem
      exact hcfg _ fs hmerge hfs p (hsub p hp)
    · exact hothers x hx hk p hp
  rcases hobj with rfl | ⟨rfl, heq⟩
  · exact key
  · intro x hx p hp
    exact hcongr _ _ p heq (key x hx p hp)

/-! ### a prefix-closed notion of presence: visible nodes

The path designates a node of the object (`Nodes.childAt`, the independent resolver) and every node
strictly above it is a list or map that is not atomic — the nodes the comparing walker descends into.
(On sample objects of a schema with sets, keyed lists, atomic and granular maps and the deduced
untyped type, Compare satisfies `CompareFacts` for this notion; that is a statement about Compare and
is not proved here.) -/

def visibleNode (sc : Schema) : TypeRef → Value → Path → Bool
  | _, _, [] => true
  | tr, v, pe :: rest =>
    (match resolveKind sc tr (some v) with
     | some (.list t) => t.rel != "atomic"
     | some (.map t) => t.rel != "atomic"
     | _ => false) &&
    (match Nodes.childAt sc tr v pe with
     | some (tr', v') => visibleNode sc tr' v' rest
     | none => false)

def VisibleNode (sc : Schema) : Presence := fun tr v p => visibleNode sc tr v p = true

theorem visibleNode_prefix (sc : Schema) : ∀ (p q : Path) (tr : TypeRef) (v : Value), p ≠ [] →
    visibleNode sc tr v (p ++ q) = true → visibleNode sc tr v p = true := by
  intro p
  induction p with
  | nil => intro q tr v h; exact absurd rfl h
  | cons pe rest ih =>
    intro q tr v _ h
    simp only [List.cons_append, visibleNode, Bool.and_eq_true] at h ⊢
    refine ⟨h.1, ?_⟩
    cases hc : Nodes.childAt sc tr v pe with
    | none => rw [hc] at h; exact absurd h.2 (by simp)
    | some c =>
      obtain ⟨tr', v'⟩ := c
      rw [hc] at h
      simp only at h ⊢
      by_cases hr : rest = []
      · subst hr; simp [visibleNode]
      · exact ih q tr' v' hr h.2

theorem visibleNode_prefixClosed (sc : Schema) : PrefixClosed (VisibleNode sc) :=
  fun tr v p q hp h => visibleNode_prefix sc p q tr v hp h

/-- a visible node is a node -/
theorem present_of_visibleNode (sc : Schema) : ∀ (p : Path) (tr : TypeRef) (v : Value),
    visibleNode sc tr v p = true → Nodes.present sc tr v p = true := by
  intro p
  induction p with
  | nil => intro tr v _; simp [Nodes.present, Nodes.valueAt]
  | cons pe rest ih =>
    intro tr v h
    simp only [visibleNode, Bool.and_eq_true] at h
    cases hc : Nodes.childAt sc tr v pe with
    | none => rw [hc] at h; exact absurd h.2 (by simp)
    | some c =>
      obtain ⟨tr', v'⟩ := c
      rw [hc] at h
      have := ih tr' v' h.2
      simpa [Nodes.present, Nodes.valueAt, hc] using this

end SMD
