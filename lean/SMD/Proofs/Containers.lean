import SMD.Spec.SetWF
import SMD.Proofs.ValueOrder
set_option linter.unusedSimpArgs false
namespace SMD

/-! ### order facts about three path elements, packaged for case analysis -/

theorem PE.less_eq (a b : PE) : PE.less a b = (PE.compare a b == .lt) := rfl
theorem PE.equals_eq (a b : PE) : PE.equals a b = (PE.compare a b == .eq) := by
  rw [Bool.eq_iff_iff]; simp [PE.compare_eq_iff]

/-- all transitivity facts relating `x y z`, expressed through `a = cmp x y`, `b = cmp y z`,
`c = cmp x z` only -/
def Consist (a b c : Ordering) : Prop :=
  TrPack a b c ∧ TrPack c b.swap a ∧ TrPack a.swap c b ∧
  TrPack b c.swap a.swap ∧ TrPack c.swap a b.swap ∧ TrPack b.swap a.swap c.swap

theorem PE.consist (x y z : PE) :
    Consist (PE.compare x y) (PE.compare y z) (PE.compare x z) := by
  refine ⟨PE.compare_tr x y z, ?_, ?_, ?_, ?_, ?_⟩
  · have := PE.compare_tr x z y; rwa [PE.compare_swap y z] at this
  · have := PE.compare_tr y x z; rwa [PE.compare_swap x y] at this
  · have := PE.compare_tr y z x; rwa [PE.compare_swap x z, PE.compare_swap x y] at this
  · have := PE.compare_tr z x y; rwa [PE.compare_swap x z, PE.compare_swap y z] at this
  · have := PE.compare_tr z y x
    rwa [PE.compare_swap y z, PE.compare_swap x y, PE.compare_swap x z] at this

/-! ### `PathElementSet` -/

theorem peHas_peInsert (pe q : PE) :
    ∀ l : List PE, peHas q (peInsert pe l) = (PE.equals pe q || peHas q l)
  | [] => by
    simp only [peInsert, peHas, PE.less_eq, PE.equals_eq]
    cases PE.compare pe q <;> simp
  | x :: xs => by
    have ih := peHas_peInsert pe q xs
    have h := PE.consist x pe q
    cases h1 : PE.compare x pe <;> cases h2 : PE.compare pe q <;> cases h3 : PE.compare x q <;>
      simp_all [Consist, TrPack, peHas, peInsert, PE.less_eq, PE.equals_eq]

theorem sortedPEs_cons_peInsert (pe y : PE) :
    ∀ l : List PE, PE.less y pe = true → sortedPEs (y :: l) = true →
      sortedPEs (y :: peInsert pe l) = true
  | [], hy, _ => by simp [peInsert, sortedPEs, hy]
  | x :: xs, hy, hs => by
    have hsw := PE.compare_swap x pe
    simp only [sortedPEs, Bool.and_eq_true] at hs
    have ih := sortedPEs_cons_peInsert pe x xs
    cases h1 : PE.compare x pe <;>
      simp_all [peInsert, sortedPEs, PE.less_eq, PE.equals_eq]

theorem sortedPEs_peInsert (pe : PE) : ∀ l : List PE, sortedPEs l = true → sortedPEs (peInsert pe l) = true
  | [], _ => by simp [peInsert, sortedPEs]
  | x :: xs, hs => by
    have hsw := PE.compare_swap x pe
    have ih := sortedPEs_cons_peInsert pe x xs
    cases h1 : PE.compare x pe <;>
      simp_all [peInsert, sortedPEs, PE.less_eq, PE.equals_eq]

theorem sortedPEs_foldl_peInsert (xs : List PE) :
    ∀ s : List PE, sortedPEs s = true → sortedPEs (xs.foldl (fun s pe => peInsert pe s) s) = true := by
  induction xs with
  | nil => intro s hs; simpa using hs
  | cons x xs ih => intro s hs; exact ih _ (sortedPEs_peInsert x s hs)

theorem peHas_foldl_peInsert (q : PE) (xs : List PE) :
    ∀ s : List PE, peHas q (xs.foldl (fun s pe => peInsert pe s) s)
      = (xs.any (fun x => PE.equals x q) || peHas q s) := by
  induction xs with
  | nil => intro s; simp
  | cons x xs ih =>
    intro s
    simp only [List.foldl_cons, List.any_cons, ih, peHas_peInsert]
    cases PE.equals x q <;> cases xs.any (fun x => PE.equals x q) <;> simp

/-! ### `PathElementMap` -/

theorem pemGet_pemInsert {β : Type} (pe q : PE) (v : β) :
    ∀ m : List (PE × β), pemGet q (pemInsert pe v m) = if PE.equals pe q then some v else pemGet q m
  | [] => by
    simp only [pemInsert, pemGet, PE.less_eq, PE.equals_eq]
    cases PE.compare pe q <;> simp
  | (x, w) :: xs => by
    have ih := pemGet_pemInsert pe q v xs
    have h := PE.consist x pe q
    cases h1 : PE.compare x pe <;> cases h2 : PE.compare pe q <;> cases h3 : PE.compare x q <;>
      simp_all [Consist, TrPack, pemGet, pemInsert, PE.less_eq, PE.equals_eq]

theorem pemGet_foldl_pemInsert {β : Type} (q : PE) (xs : List (PE × β)) :
    ∀ m : List (PE × β), pemGet q (xs.foldl (fun m x => pemInsert x.1 x.2 m) m)
      = ((xs.reverse.find? (fun x => PE.equals x.1 q)).map (·.2)).or (pemGet q m) := by
  induction xs with
  | nil => intro m; simp
  | cons x xs ih =>
    intro m
    simp only [List.foldl_cons, ih, pemGet_pemInsert, List.reverse_cons, List.find?_append]
    cases h : List.find? (fun x => PE.equals x.1 q) xs.reverse <;>
      cases hx : PE.equals x.1 q <;> simp [hx, List.find?]

/-! ### `sort.Search` -/

theorem sortSearch_go_spec (n : Nat) (f : Nat → Bool)
    (hmono : ∀ i j, i ≤ j → j < n → f i = true → f j = true) (i j : Nat) :
    i ≤ j → j ≤ n → (∀ k, k < i → f k = false) → (∀ k, j ≤ k → k < n → f k = true) →
      i ≤ sortSearch.go f i j ∧ sortSearch.go f i j ≤ j ∧
      (∀ k, k < sortSearch.go f i j → f k = false) ∧
      (sortSearch.go f i j < n → f (sortSearch.go f i j) = true) := by
  fun_induction sortSearch.go f i j with
  | case1 i j hlt m hf ih =>
    intro hij hjn hlo hhi
    have hfm : f m = false := by simpa using hf
    have hm : i ≤ m ∧ m < j := by simp only [m]; omega
    obtain ⟨h1, h2, h3, h4⟩ := ih (by omega) hjn (by
      intro k hk
      cases hfk : f k with
      | false => rfl
      | true =>
        have := hmono k m (by omega) (by omega) hfk
        simp [hfm] at this) hhi
    exact ⟨by omega, h2, h3, h4⟩
  | case2 i j hlt m hf ih =>
    intro hij hjn hlo hhi
    have hfm : f m = true := by simpa using hf
    have hm : i ≤ m ∧ m < j := by simp only [m]; omega
    obtain ⟨h1, h2, h3, h4⟩ := ih (by omega) (by omega) hlo (by
      intro k hk hkn
      exact hmono m k hk hkn hfm)
    exact ⟨h1, by omega, h3, h4⟩
  | case3 i j hge =>
    intro hij hjn hlo hhi
    have : i = j := by omega
    subst this
    exact ⟨Nat.le_refl _, Nat.le_refl _, hlo, fun h => hhi i (Nat.le_refl _) h⟩


theorem any_perm {α : Type} {xs ys : List α} (h : xs.Perm ys) (p : α → Bool) : xs.any p = ys.any p := by
  rw [Bool.eq_iff_iff]
  simp only [List.any_eq_true]
  exact ⟨fun ⟨x, hx, hp⟩ => ⟨x, h.mem_iff.1 hx, hp⟩, fun ⟨x, hx, hp⟩ => ⟨x, h.mem_iff.2 hx, hp⟩⟩

theorem sortSearch_spec (n : Nat) (f : Nat → Bool)
    (hmono : ∀ i j, i ≤ j → j < n → f i = true → f j = true) :
    sortSearch n f ≤ n ∧ (∀ i, i < sortSearch n f → f i = false) ∧
      (sortSearch n f < n → f (sortSearch n f) = true) := by
  obtain ⟨_, h2, h3, h4⟩ := sortSearch_go_spec n f hmono 0 n (Nat.zero_le _) (Nat.le_refl _)
    (fun k hk => absurd hk (Nat.not_lt_zero k)) (fun k h1 h2 => absurd h2 (by omega))
  exact ⟨h2, h3, h4⟩

end SMD
