import SMD.Spec.SetWF
import SMD.Proofs.ValueOrder
namespace SMD
end SMD
