/-
`Set.EnsureNamedFieldsAreMembers` (`SetTrie.ensureNamed`): closure of the representation invariant,
exact membership (the members of the set, plus every declared-field path that has a member strictly
beneath it) and monotonicity.
-/
import SMD.Model.Filter
import SMD.Proofs.SetAlgebra
import SMD.Proofs.FilterAlgebra
namespace SMD
open SetTrie SMD.PEOrd
namespace SetTrie

/-- the type `ensureNamedChildren` hands to the sub-set stored below `pe` (`atom` = the resolved parent type) -/
def enStep (atom : Atom) (pe : PE) : TypeRef :=
  match pe, atom.map, atom.list with
  | .field name, some mt, _ =>
    (match mt.findField name with
     | some sf => sf.type
     | none => mt.elementType)
  | .key _, none, some lt => lt.elementType
  | .key _, some _, some lt => lt.elementType
  | _, _, _ => TypeRef.zero

/-- the type `ensureNamed` is called with at the end of `pre`, starting from `tr` -/
def enWalk (sc : Schema) : TypeRef → Path → TypeRef
  | tr, [] => tr
  | tr, pe :: rest => enWalk sc (enStep ((sc.resolve tr).getD Atom.none) pe) rest

/-- `name` is a declared (named) field of the map type `tr` resolves to -/
def enDeclared (sc : Schema) (tr : TypeRef) (name : String) : Bool :=
  match ((sc.resolve tr).getD Atom.none).map with
  | some mt => (mt.findField name).isSome
  | none => false

/-! ### the two loops in closed form -/

/-- the child key is a declared field of the (resolved) parent map type -/
def isNamed (atom : Atom) (pe : PE) : Bool :=
  match pe, atom.map with
  | .field name, some mt => (mt.findField name).isSome
  | _, _ => false

/-- the member loop: insert the keys of the children that are declared fields -/
abbrev namedMembers (atom : Atom) (c : Children) (acc : List PE) : List PE :=
  c.foldl (fun acc x => if isNamed atom x.1 then peInsert x.1 acc else acc) acc

theorem ensureNamedChildren_eq (sc : Schema) (atom : Atom) (c : Children) :
    ensureNamedChildren sc atom c = c.map (fun x => (x.1, ensureNamed sc (enStep atom x.1) x.2)) := by
  induction c with
  | nil => simp [ensureNamedChildren]
  | cons p c ih =>
    obtain ⟨pe, t⟩ := p
    rw [ensureNamedChildren.eq_def]
    simp only [ih, List.map_cons]
    rfl

theorem ensureNamed_node (sc : Schema) (tr : TypeRef) (m : List PE) (c : Children) :
    ensureNamed sc tr (node m c) =
      node (namedMembers ((sc.resolve tr).getD Atom.none) c m)
        (c.map (fun x => (x.1, ensureNamed sc (enStep ((sc.resolve tr).getD Atom.none) x.1) x.2))) := by
  rw [ensureNamed, ensureNamedChildren_eq]
  simp only [namedMembers]
  congr 2
  funext acc x
  simp only [isNamed]
  split <;> simp_all

theorem enDeclared_eq (sc : Schema) (tr : TypeRef) (name : String) :
    enDeclared sc tr name = isNamed ((sc.resolve tr).getD Atom.none) (.field name) := by
  simp only [enDeclared, isNamed]
  split <;> simp_all

theorem isNamed_field {atom : Atom} {pe : PE} (h : isNamed atom pe = true) : ∃ name, pe = .field name := by
  cases pe with
  | field name => exact ⟨name, rfl⟩
  | _ => simp [isNamed] at h

/-! ### `Equals` elements are treated alike -/

theorem isNamed_congr (atom : Atom) {a b : PE} (h : PE.equals a b = true) : isNamed atom a = isNamed atom b := by
  cases a <;> cases b <;> simp [PE.equals] at h <;> simp [isNamed]
  subst h; rfl

theorem enStep_congr (atom : Atom) {a b : PE} (h : PE.equals a b = true) : enStep atom a = enStep atom b := by
  cases a <;> cases b <;> simp [PE.equals] at h <;> simp only [enStep]
  · subst h; rfl
  · cases atom.map <;> cases atom.list <;> rfl

/-! ### the member loop -/

theorem sorted_namedMembers (atom : Atom) (c : Children) :
    ∀ acc, SortedPE acc → SortedPE (namedMembers atom c acc) := by
  induction c with
  | nil => intro acc h; exact h
  | cons x c ih =>
    intro acc h
    simp only [namedMembers, List.foldl_cons]
    split
    · exact ih _ (sorted_peInsert x.1 h)
    · exact ih _ h

theorem peHas_namedMembers (atom : Atom) (q : PE) (c : Children) : ∀ acc,
    peHas q (namedMembers atom c acc) =
      (peHas q acc || c.any (fun x => isNamed atom x.1 && PE.equals x.1 q)) := by
  induction c with
  | nil => intro acc; simp
  | cons x c ih =>
    intro acc
    simp only [namedMembers, List.foldl_cons, List.any_cons]
    split
    · rename_i h
      have := ih (peInsert x.1 acc)
      simp only [namedMembers] at this
      rw [this, peHas_peInsert, h]
      cases PE.equals x.1 q <;> cases peHas q acc <;> simp
    · rename_i h
      have := ih acc
      simp only [namedMembers] at this
      rw [this]
      simp [h]

/-! ### the child loop -/

theorem sortedKeys_mapKeyed (g : PE → SetTrie → SetTrie) {c : Children} (hc : SortedKeys c) :
    SortedKeys (c.map (fun x => (x.1, g x.1 x.2))) := by
  simpa [SortedKeys, List.pairwise_map] using hc

theorem getChild_mapKeyed (g : PE → SetTrie → SetTrie)
    (hg : ∀ a b, PE.equals a b = true → g a = g b) (q : PE) (c : Children) :
    getChild q (c.map (fun x => (x.1, g x.1 x.2))) = (getChild q c).map (g q) := by
  induction c with
  | nil => rfl
  | cons p c ih =>
    obtain ⟨x, t⟩ := p
    simp only [List.map_cons, getChild, ih]
    by_cases h1 : PE.less x q = true
    · simp [h1]
    · by_cases h2 : PE.equals x q = true
      · simp [h1, h2, hg x q h2]
      · simp [h1, h2]

/-! ### membership -/

theorem path_eq_append_single {pe f : PE} {rest pre : Path} (hrest : rest ≠ [])
    (h : pe :: rest = pre ++ [f]) : ∃ pre', pre = pe :: pre' ∧ rest = pre' ++ [f] := by
  cases pre with
  | nil =>
    simp only [List.nil_append, List.cons.injEq] at h
    exact absurd h.2 hrest
  | cons a pre' =>
    simp only [List.cons_append, List.cons.injEq] at h
    exact ⟨pre', by rw [h.1], h.2⟩

/-- members of `ensureNamed`: the members of `S`, and the declared-field paths that have a member of `S` strictly beneath them -/
theorem has_ensureNamed (sc : Schema) (tr : TypeRef) (S : SetTrie) (q : Path) (hS : S.wf = true) :
    (S.ensureNamed sc tr).has q = true ↔
      (S.has q = true ∨
        ∃ pre name, q = pre ++ [PE.field name] ∧ enDeclared sc (enWalk sc tr pre) name = true ∧
          ∃ r, r ≠ [] ∧ S.has (q ++ r) = true) := by
  induction q generalizing S tr with
  | nil =>
    simp only [has_nil, Bool.false_eq_true, false_or, false_iff, not_exists, not_and]
    intro pre name h
    simp at h
  | cons pe rest ih =>
    obtain ⟨m, c⟩ := S
    have hw := wf_node.1 hS
    rw [ensureNamed_node]
    by_cases hrest : rest = []
    · subst hrest
      rw [has_single, has_single, peHas_namedMembers, Bool.or_eq_true, List.any_eq_true]
      refine or_congr Iff.rfl ?_
      constructor
      · rintro ⟨x, hx, hx'⟩
        simp only [Bool.and_eq_true] at hx'
        have hn : isNamed ((sc.resolve tr).getD Atom.none) pe = true := by
          rw [← isNamed_congr _ hx'.2]; exact hx'.1
        obtain ⟨name, rfl⟩ := isNamed_field hn
        refine ⟨[], name, rfl, ?_, ?_⟩
        · rw [enWalk, enDeclared_eq]; exact hn
        · have hxw := hw.2.2 x hx
          obtain ⟨r, hr⟩ := exists_has_of_not_isEmpty x.2 hxw.1 hxw.2
          refine ⟨r, has_true_ne_nil hr, ?_⟩
          rw [List.singleton_append, has_cons (has_true_ne_nil hr),
            getChild_of_mem hw.2.1 (x := x.1) (t := x.2) hx hx'.2]
          exact hr
      · rintro ⟨pre, name, hq, hd, r, hr, hh⟩
        cases pre with
        | cons a pre' =>
          simp only [List.cons_append, List.cons.injEq] at hq
          have := hq.2
          simp at this
        | nil =>
          simp only [List.nil_append, List.cons.injEq, and_true] at hq
          subst hq
          rw [enWalk, enDeclared_eq] at hd
          rw [List.singleton_append, has_cons hr] at hh
          cases hg : getChild (PE.field name) c with
          | none => rw [hg] at hh; simp [hasOpt] at hh
          | some t =>
            obtain ⟨x, hx, he⟩ := mem_of_getChild hg
            refine ⟨(x, t), hx, ?_⟩
            simp only [Bool.and_eq_true]
            exact ⟨by rw [isNamed_congr _ he]; exact hd, he⟩
    · rw [has_cons hrest, has_cons hrest,
        getChild_mapKeyed (fun k => ensureNamed sc (enStep ((sc.resolve tr).getD Atom.none) k))
          (fun a b h => by simp only [enStep_congr _ h])]
      cases hg : getChild pe c with
      | none =>
        simp only [Option.map_none, hasOpt, Bool.false_eq_true, false_or, false_iff, not_exists,
          not_and]
        intro pre name hq hd r hr
        rw [List.cons_append, has_cons (by simp [hrest]), hg]
        simp [hasOpt]
      | some t =>
        have ht := (wf_of_getChild hS hg).1
        simp only [Option.map_some, hasOpt]
        rw [ih (enStep ((sc.resolve tr).getD Atom.none) pe) t ht]
        refine or_congr Iff.rfl ?_
        constructor
        · rintro ⟨pre', name, hq, hd, r, hr, hh⟩
          refine ⟨pe :: pre', name, by rw [hq, List.cons_append], by rw [enWalk]; exact hd, r, hr, ?_⟩
          rw [List.cons_append, has_cons (by simp [hrest]), hg]
          exact hh
        · rintro ⟨pre, name, hq, hd, r, hr, hh⟩
          obtain ⟨pre', rfl, hq'⟩ := path_eq_append_single hrest hq
          rw [enWalk] at hd
          refine ⟨pre', name, hq', hd, r, hr, ?_⟩
          rw [List.cons_append, has_cons (by simp [hrest]), hg] at hh
          exact hh

/-- corollaries -/
theorem has_ensureNamed_of_has (sc : Schema) (tr : TypeRef) (S : SetTrie) (q : Path) (hS : S.wf = true)
    (h : S.has q = true) : (S.ensureNamed sc tr).has q = true := (has_ensureNamed sc tr S q hS).2 (Or.inl h)

theorem not_isEmpty_ensureNamed (sc : Schema) (tr : TypeRef) (S : SetTrie) (hS : S.wf = true)
    (he : S.isEmpty = false) : (S.ensureNamed sc tr).isEmpty = false := by
  obtain ⟨q, hq⟩ := exists_has_of_not_isEmpty S hS he
  exact not_isEmpty_of_has (has_ensureNamed_of_has sc tr S q hS hq)

theorem wf_ensureNamed (sc : Schema) (tr : TypeRef) (S : SetTrie) (h : S.wf = true) :
    (S.ensureNamed sc tr).wf = true := by
  induction S using SetTrie.ind generalizing tr with
  | h m c ih =>
    have hw := wf_node.1 h
    rw [ensureNamed_node, wf_node]
    refine ⟨sorted_namedMembers _ c m hw.1, sortedKeys_mapKeyed (fun k => ensureNamed sc (enStep ((sc.resolve tr).getD Atom.none) k)) hw.2.1, ?_⟩
    intro p hp
    obtain ⟨x, hx, rfl⟩ := List.mem_map.1 hp
    have hxw := hw.2.2 x hx
    exact ⟨ih x hx _ hxw.1, not_isEmpty_ensureNamed sc _ x.2 hxw.1 hxw.2⟩

/-- `ensureNamed` is monotone: if every member of `A` is a member of `B` then every member of `ensureNamed A` is one of `ensureNamed B` -/
theorem has_ensureNamed_mono (sc : Schema) (tr : TypeRef) (A B : SetTrie) (hA : A.wf = true) (hB : B.wf = true)
    (hsub : ∀ q, A.has q = true → B.has q = true) (q : Path) (h : (A.ensureNamed sc tr).has q = true) :
    (B.ensureNamed sc tr).has q = true := by
  rw [has_ensureNamed sc tr B q hB]
  rcases (has_ensureNamed sc tr A q hA).1 h with h | ⟨pre, name, hq, hd, r, hr, hh⟩
  · exact .inl (hsub q h)
  · exact .inr ⟨pre, name, hq, hd, r, hr, hsub _ hh⟩

end SetTrie
end SMD
