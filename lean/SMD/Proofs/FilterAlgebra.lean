/-
Additions to the set algebra of `SMD.Proofs.SetAlgebra` needed by the ownership proofs (C05, C19):
* the difference only needs its LEFT operand to be well formed (the two-cursor loop never relies on the
  right slice being sorted to stay inside the left one);
* `filterInclude` (`Set.FilterIncludeMatches`): closure of the invariant and membership.
-/
import SMD.Model.Filter
import SMD.Proofs.SetAlgebra
namespace SMD
open SetTrie SMD.PEOrd

attribute [local grind =] less_eq_lt equals_eq_le

namespace SetTrie

/-! ### `diff` with an arbitrary right operand -/

theorem has_diff_left (q : Path) : ∀ a b : SetTrie, wf a = true →
    has q (diff a b) = (has q a && !has q b) := by
  induction q with
  | nil => intro a b _; simp [has_nil]
  | cons qe r ih =>
    intro a b ha
    obtain ⟨m1, c1⟩ := a
    obtain ⟨m2, c2⟩ := b
    rw [diff]
    by_cases hr : r = []
    · subst hr; simp [has_single, peHas_peDiff _ _ (wf_node.1 ha).1]
    · rw [has_cons hr, has_cons hr, has_cons hr, getChild_diffChildren qe _ (wf_node.1 ha).2.1]
      cases h1 : getChild qe c1 <;> cases h2 : getChild qe c2 <;> simp [diffOpt, hasOpt]
      rename_i s t
      have e := ih s t (wf_of_getChild ha h1).1
      by_cases he : isEmpty (diff s t) = true
      · rw [has_of_isEmpty r _ he] at e; simp [he, ← e]
      · simp [he, e]

theorem wf_diff_left : ∀ a b : SetTrie, wf a = true → wf (diff a b) = true := by
  intro a
  induction a using SetTrie.ind with
  | h m1 c1 ih =>
    intro b ha
    obtain ⟨m2, c2⟩ := b
    rw [diff]
    rw [wf_node] at ha ⊢
    refine ⟨sorted_peDiff _ ha.1, sorted_diffChildren _ ha.2.1, ?_⟩
    intro p hp
    rcases mem_diffChildren hp with h | ⟨s, y, t, h1, h2, h3, h4⟩
    · exact ha.2.2 p h
    · refine ⟨?_, h4⟩
      rw [h3]
      exact ih _ h1 t (ha.2.2 _ h1).1

/-! ### emptiness and size -/

theorem size_pos_iff (t : SetTrie) : 0 < size t ↔ isEmpty t = false := by
  rw [size_eq_length_paths, List.length_pos_iff, ne_eq, ← isEmpty_iff_paths]
  simp

/-! ### `filterInclude` -/

/-- does a (non-wildcard) pattern member list accept the element? -/
abbrev peMatches (ms : List (PEMatcher × SetMatcher)) (pe : PE) : Bool :=
  ms.any (fun pm => pm.1.wildcard || PE.equals pm.1.pe pe)

/-- the first pattern member matching the element -/
abbrev peFind (ms : List (PEMatcher × SetMatcher)) (pe : PE) : Option (PEMatcher × SetMatcher) :=
  ms.find? (fun pm => pm.1.wildcard || PE.equals pm.1.pe pe)

theorem peMatches_congr (ms : List (PEMatcher × SetMatcher)) {a b : PE} (h : PE.equals a b = true) :
    peMatches ms a = peMatches ms b := by
  simp only [peMatches]
  congr 1; funext pm
  rw [PE.equals_congr_right h]

theorem peFind_congr (ms : List (PEMatcher × SetMatcher)) {a b : PE} (h : PE.equals a b = true) :
    peFind ms a = peFind ms b := by
  simp only [peFind]
  congr 1; funext pm
  rw [PE.equals_congr_right h]

/-- the member loop: insert the accepted members one by one -/
abbrev keepMembers (p : PE → Bool) (m acc : List PE) : List PE :=
  m.foldl (fun acc pe => if p pe then peInsert pe acc else acc) acc

theorem sorted_keepMembers (p : PE → Bool) (m : List PE) : ∀ acc, SortedPE acc → SortedPE (keepMembers p m acc) := by
  induction m with
  | nil => intro acc h; exact h
  | cons x m ih =>
    intro acc h
    simp only [keepMembers, List.foldl_cons]
    split
    · exact ih _ (sorted_peInsert x h)
    · exact ih _ h

theorem peHas_keepMembers (p : PE → Bool) (q : PE) (m : List PE) : ∀ acc,
    peHas q (keepMembers p m acc) = (peHas q acc || m.any (fun x => p x && PE.equals x q)) := by
  induction m with
  | nil => intro acc; simp
  | cons x m ih =>
    intro acc
    simp only [keepMembers, List.foldl_cons, List.any_cons]
    split
    · rename_i h
      have := ih (peInsert x acc)
      simp only [keepMembers] at this
      rw [this, peHas_peInsert, h]
      cases PE.equals x q <;> cases peHas q acc <;> simp
    · rename_i h
      have := ih acc
      simp only [keepMembers] at this
      rw [this]
      simp [h]

/-- with a sorted member slice and an acceptance test that respects `Equals` -/
theorem peHas_keepMembers_sorted {p : PE → Bool} (hp : ∀ a b, PE.equals a b = true → p a = p b)
    (q : PE) {m : List PE} (hm : SortedPE m) :
    peHas q (keepMembers p m []) = (peHas q m && p q) := by
  rw [peHas_keepMembers, peHas_eq_any hm]
  simp only [peHas, Bool.false_or]
  induction m with
  | nil => simp
  | cons x m ih =>
    have hm' := sortedPE_cons.1 hm
    rw [List.any_cons, List.any_cons, ih hm'.2]
    by_cases he : PE.equals x q = true
    · rw [hp x q he]; simp [he]
    · simp [he]

theorem filterInclude_wild (m : List PE) (c : Children) (ms : List (PEMatcher × SetMatcher)) :
    filterInclude (node m c) (.mk true ms) = node m c := by
  simp [filterInclude, SetMatcher.wildcard]

/-- the child loop for a non-wildcard pattern, one child at a time -/
def keepChild (ms : List (PEMatcher × SetMatcher)) (pe : PE) (t : SetTrie) : Option SetTrie :=
  match peFind ms pe with
  | some pm => if (filterInclude t pm.2).size > 0 then some (filterInclude t pm.2) else none
  | none => none

theorem keepChild_congr (ms : List (PEMatcher × SetMatcher)) {a b : PE} (h : PE.equals a b = true)
    (t : SetTrie) : keepChild ms a t = keepChild ms b t := by
  simp only [keepChild, peFind_congr ms h]

theorem filterIncludeChildren_eq (ms : List (PEMatcher × SetMatcher)) (c : Children) :
    filterIncludeChildren c (.mk false ms) =
      c.filterMap (fun p => (keepChild ms p.1 p.2).map (fun t' => (p.1, t'))) := by
  induction c with
  | nil => simp [filterIncludeChildren]
  | cons p c ih =>
    obtain ⟨pe, t⟩ := p
    rw [filterIncludeChildren]
    simp only [SetMatcher.wildcard, Bool.false_eq_true, if_false, SetMatcher.members, ih,
      List.filterMap_cons, keepChild, peFind]
    cases ms.find? (fun pm => pm.1.wildcard || PE.equals pm.1.pe pe) with
    | none => simp
    | some pm =>
      simp only []
      split <;> simp

theorem filterInclude_node (m : List PE) (c : Children) (ms : List (PEMatcher × SetMatcher)) :
    filterInclude (node m c) (.mk false ms) =
      node (keepMembers (peMatches ms) m [])
        (c.filterMap (fun p => (keepChild ms p.1 p.2).map (fun t' => (p.1, t')))) := by
  rw [filterInclude]
  simp only [SetMatcher.wildcard, Bool.false_eq_true, if_false, SetMatcher.members,
    filterIncludeChildren_eq]
  rfl

/-- a per-child edit that may drop the child keeps the keys sorted -/
theorem sortedKeys_filterMap (g : PE → SetTrie → Option SetTrie) {c : Children} (hc : SortedKeys c) :
    SortedKeys (c.filterMap (fun p => (g p.1 p.2).map (fun t' => (p.1, t')))) := by
  apply sortedKeys_of_keys_sublist _ hc
  induction c with
  | nil => simp
  | cons p c ih =>
    have hc' := sortedKeys_cons.1 hc
    rw [List.filterMap_cons]
    cases g p.1 p.2 with
    | none => simpa using (ih hc'.2).cons _
    | some t' => simpa using ih hc'.2

theorem getChild_filterMap (g : PE → SetTrie → Option SetTrie)
    (hg : ∀ a b t, PE.equals a b = true → g a t = g b t) (q : PE) {c : Children} (hc : SortedKeys c) :
    getChild q (c.filterMap (fun p => (g p.1 p.2).map (fun t' => (p.1, t')))) =
      (getChild q c).bind (g q) := by
  induction c with
  | nil => simp [getChild]
  | cons p c ih =>
    obtain ⟨x, s⟩ := p
    have hc' := sortedKeys_cons.1 hc
    have hnone : ¬ PE.less x q = true → getChild q c = none := by
      intro hlt
      apply getChild_eq_none_of_lt
      intro p hp
      have := hc'.1 p hp
      grind
    rw [List.filterMap_cons]
    by_cases h1 : PE.less x q = true
    · cases hgx : g x s with
      | none => simp only [Option.map_none, getChild, h1, if_true, ih hc'.2]
      | some t' => simp only [Option.map_some, getChild, h1, if_true, ih hc'.2]
    · by_cases h2 : PE.equals x q = true
      · have e2 := hg x q s h2
        cases hgx : g x s with
        | none =>
          simp only [Option.map_none, getChild, h1, h2, if_true, if_false, ih hc'.2, hnone h1,
            Option.bind_none, Option.bind_some, ← e2, hgx, Bool.false_eq_true]
        | some t' =>
          simp only [Option.map_some, getChild, h1, h2, if_true, if_false,
            Option.bind_some, ← e2, hgx, Bool.false_eq_true]
      · cases hgx : g x s with
        | none =>
          simp only [Option.map_none, getChild, h1, h2, if_false, ih hc'.2, hnone h1,
            Option.bind_none, Bool.false_eq_true]
        | some t' =>
          simp only [Option.map_some, getChild, h1, h2, if_false, Option.bind_none, Bool.false_eq_true]

theorem wf_filterInclude : ∀ (s : SetTrie) (pat : SetMatcher), wf s = true → wf (filterInclude s pat) = true := by
  intro s
  induction s using SetTrie.ind with
  | h m c ih =>
    intro pat hs
    obtain ⟨w, ms⟩ := pat
    cases w with
    | true => rw [filterInclude_wild]; exact hs
    | false =>
      rw [filterInclude_node]
      have hw := wf_node.1 hs
      rw [wf_node]
      refine ⟨sorted_keepMembers _ _ _ List.Pairwise.nil, sortedKeys_filterMap _ hw.2.1, ?_⟩
      intro p hp
      simp only [List.mem_filterMap, Option.map_eq_some_iff] at hp
      obtain ⟨p0, hp0, t', ht', rfl⟩ := hp
      simp only [keepChild] at ht'
      split at ht'
      · rename_i pm _
        split at ht'
        · rename_i hsz
          simp only [Option.some.injEq] at ht'
          subst ht'
          exact ⟨ih p0 hp0 pm.2 (hw.2.2 p0 hp0).1, (size_pos_iff _).1 hsz⟩
        · cases ht'
      · cases ht'

/-- compatibility of a path with a matcher (same definition as `SMD.C19.compatible`) -/
def isCompatible : SetMatcher → Path → Bool
  | _, [] => true
  | .mk true _, _ :: _ => true
  | .mk false ms, [pe] => ms.any (fun pm => pm.1.wildcard || PE.equals pm.1.pe pe)
  | .mk false ms, pe :: q :: rest =>
    match ms.find? (fun pm => pm.1.wildcard || PE.equals pm.1.pe pe) with
    | some pm => isCompatible pm.2 (q :: rest)
    | none => false

theorem isCompatible_cons {r : Path} (hr : r ≠ []) (ms : List (PEMatcher × SetMatcher)) (pe : PE) :
    isCompatible (.mk false ms) (pe :: r) =
      match peFind ms pe with
      | some pm => isCompatible pm.2 r
      | none => false := by
  cases r with
  | nil => exact absurd rfl hr
  | cons q rest => simp [isCompatible, peFind]

theorem has_filterInclude : ∀ (s : SetTrie) (pat : SetMatcher) (q : Path), wf s = true → q ≠ [] →
    has q (filterInclude s pat) = (has q s && isCompatible pat q) := by
  intro s
  induction s using SetTrie.ind with
  | h m c ih =>
    intro pat q hs hq
    obtain ⟨w, ms⟩ := pat
    cases q with
    | nil => exact absurd rfl hq
    | cons qe r =>
      cases w with
      | true => rw [filterInclude_wild]; simp [isCompatible]
      | false =>
        rw [filterInclude_node]
        have hw := wf_node.1 hs
        by_cases hr : r = []
        · subst hr
          rw [has_single, has_single,
            peHas_keepMembers_sorted (fun a b h => peMatches_congr ms h) qe hw.1]
          simp [isCompatible, peMatches]
        · rw [has_cons hr, has_cons hr,
            getChild_filterMap (keepChild ms) (fun a b t h => keepChild_congr ms h t) qe hw.2.1,
            isCompatible_cons hr]
          cases hg : getChild qe c with
          | none => simp [hasOpt]
          | some t =>
            obtain ⟨x, hx, _⟩ := mem_of_getChild hg
            have wt := (hw.2.2 _ hx).1
            simp only [Option.bind_some, keepChild, hasOpt]
            cases peFind ms qe with
            | none => simp
            | some pm =>
              have e := ih (x, t) hx pm.2 r wt hr
              simp only [] at e ⊢
              by_cases hsz : (filterInclude t pm.2).size > 0
              · rw [if_pos hsz]; exact e
              · rw [if_neg hsz]
                have he : isEmpty (filterInclude t pm.2) = true := by
                  cases h : isEmpty (filterInclude t pm.2)
                  · exact absurd ((size_pos_iff _).2 h) hsz
                  · rfl
                rw [has_of_isEmpty r _ he] at e
                exact e

end SetTrie
end SMD
