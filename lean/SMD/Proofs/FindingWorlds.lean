/-
The concrete world of the kernel-checked witnesses of findings D8, D10 and D11
(`SMD/Properties/FindingWitnesses.lean`): one schema, the configurations and objects of the three
histories, the path elements and field sets they give rise to.

Schema (as given to the Go parser):

  types:
  - name: root
    map:
      fields:
      - name: f1
        type: {namedType: pt}
      - name: l
        type:
          list:
            elementRelationship: associative
            keys: ["name"]
            elementType: {namedType: item}
  - name: pt
    map:
      fields:
      - name: "x"
        type: {scalar: numeric}
      - name: "y"
        type: {scalar: numeric}
  - name: item
    map:
      fields:
      - name: name
        type: {scalar: string}
      - name: sub
        type:
          list:
            elementRelationship: associative
            elementType: {scalar: numeric}

Only integer scalars and strings occur in the values (no float: `scale` = 2^1074 is never evaluated).
-/
import SMD.Model.UpdaterOrd
namespace SMD.FW

/-! ### schema -/

def refTo (n : String) : TypeRef := .mk (some n) Atom.none none
def numericTR : TypeRef := .mk none (.mk (some "numeric") none none) none
def stringTR : TypeRef := .mk none (.mk (some "string") none none) none
/-- `sub`: a set (associative list without keys) of numerics -/
def subTR : TypeRef := .mk none (.mk none (some (.mk numericTR "associative" [])) none) none
/-- `l`: a list of `item` keyed by `name` -/
def lTR : TypeRef := .mk none (.mk none (some (.mk (refTo "item") "associative" ["name"])) none) none

def rootAtom : Atom :=
  .mk none none (some (.mk [.mk "f1" (refTo "pt") none, .mk "l" lTR none] [] TypeRef.zero ""))
def ptAtom : Atom :=
  .mk none none (some (.mk [.mk "x" numericTR none, .mk "y" numericTR none] [] TypeRef.zero ""))
def itemAtom : Atom :=
  .mk none none (some (.mk [.mk "name" stringTR none, .mk "sub" subTR none] [] TypeRef.zero ""))

def sc : Schema := ⟨[⟨"root", rootAtom⟩, ⟨"pt", ptAtom⟩, ⟨"item", itemAtom⟩]⟩
/-- the type of the objects: the named reference `root` -/
def rootTR : TypeRef := refTo "root"

def tv (v : Value) : TV := ⟨v, rootTR⟩
/-- the live object before the first operation -/
def live0 : TV := tv .null

/-! ### updaters (identity converter: versions are labels) -/

/-- nothing ignored -/
def plain : Updater := { converter := Converter.identity, ignore := fun _ => none }

/-- the exclusion set `{.f1.y}` -/
def ignoreSet : SetTrie := SetTrie.ofPaths [[.field "f1", .field "y"]]

/-- `.f1.y` is ignored at version "v1" -/
def ignoring : Updater :=
  { converter := Converter.identity,
    ignore := fun v => if v == "v1" then some (.exclude ignoreSet) else none,
    returnInputOnNoop := false }

/-! ### D8: values -/

/-- `{f1: {x: 1, y: 1}}` -/
def d8cfg1 : Value := .map [("f1", .map [("x", .int 1), ("y", .int 1)])]
/-- `{f1: {y: 2}}` -/
def d8cfg2 : Value := .map [("f1", .map [("y", .int 2)])]
/-- a1's record after the first apply: `{.f1.x}` -/
def d8set1 : SetTrie := .node [] [(.field "f1", .node [.field "x"] [])]
def d8mf1 : Managed := [("a1", ⟨d8set1, "v1", true⟩)]

/-! ### D10 / D11: values -/

/-- the key of the item `{name: c}` of `.l` -/
def keyC : PE := .key [("name", .str "c")]
/-- `{l: [{name: c, sub: [0]}]}` -/
def cfgSub0 : Value := .map [("l", .list [.map [("name", .str "c"), ("sub", .list [.int 0])]])]
/-- `{l: [{name: c, sub: [0, 1]}]}` -/
def objSub01 : Value := .map [("l", .list [.map [("name", .str "c"), ("sub", .list [.int 0, .int 1])]])]
/-- `{l: [{name: c}]}` -/
def cfgBare : Value := .map [("l", .list [.map [("name", .str "c")]])]
/-- `{l: [{name: c, sub: [1]}]}` -/
def objSub1 : Value := .map [("l", .list [.map [("name", .str "c"), ("sub", .list [.int 1])]])]

/-- the path `.l[name=c].sub[=1]` -/
def pathSub1 : Path := [.field "l", keyC, .field "sub", .value (.int 1)]

/-- `{.l[name=c], .l[name=c].name, .l[name=c].sub[=0]}`: the field set of `cfgSub0` -/
def setSub0 : SetTrie :=
  .node [] [(.field "l", .node [keyC] [(keyC, .node [.field "name"] [(.field "sub", .node [.value (.int 0)] [])])])]
/-- `{.l[name=c].sub[=1]}`: what the updater u1 comes to own -/
def setSub1 : SetTrie :=
  .node [] [(.field "l", .node [] [(keyC, .node [] [(.field "sub", .node [.value (.int 1)] [])])])]
/-- `{.l[name=c], .l[name=c].name}`: the field set of `cfgBare` -/
def setBare : SetTrie :=
  .node [] [(.field "l", .node [keyC] [(keyC, .node [.field "name"] [])])]

/-- reversal of the visiting order of the versions other than the pruned one -/
def swapOrd (l : List (String × SetTrie)) : List (String × SetTrie) := l.reverse

end SMD.FW
