/-
The concrete world of the kernel-checked witness of finding D17
(`SMD/Properties/FindingWitnesses2.lean`): one schema, the configurations and objects of the two
histories (an empty set `sibl: []` owned by an updater, against an empty map `sibm: {}`), the field sets
they give rise to.

Schema (as given to the Go parser):

  types:
  - name: root
    map:
      fields:
      - name: spec
        type: {namedType: spec}
      - name: other
        type: {scalar: numeric}
  - name: spec
    map:
      fields:
      - name: f
        type: {scalar: numeric}
      - name: sibl
        type:
          list:
            elementRelationship: associative
            elementType: {scalar: numeric}
      - name: sibm
        type:
          map:
            elementType: {scalar: numeric}

Only integer scalars occur in the values (no float: `scale` = 2^1074 is never evaluated).
The updater is `SMD.FW.plain` (identity converter, nothing ignored, `returnInputOnNoop = false`).
-/
import SMD.Proofs.FindingWorlds
namespace SMD.FW2
open SMD.FW (refTo numericTR plain)

/-! ### schema -/

/-- `sibl`: a set (associative list without keys) of numerics -/
def siblTR : TypeRef := .mk none (.mk none (some (.mk numericTR "associative" [])) none) none
/-- `sibm`: a map of numerics -/
def sibmTR : TypeRef := .mk none (.mk none none (some (.mk [] [] numericTR ""))) none

def rootAtom : Atom :=
  .mk none none (some (.mk [.mk "spec" (refTo "spec") none, .mk "other" numericTR none] [] TypeRef.zero ""))
def specAtom : Atom :=
  .mk none none (some (.mk [.mk "f" numericTR none, .mk "sibl" siblTR none, .mk "sibm" sibmTR none] []
    TypeRef.zero ""))

def sc : Schema := ⟨[⟨"root", rootAtom⟩, ⟨"spec", specAtom⟩]⟩
/-- the type of the objects: the named reference `root` -/
def rootTR : TypeRef := refTo "root"

def tv (v : Value) : TV := ⟨v, rootTR⟩
/-- the live object before the first operation -/
def live0 : TV := tv .null

/-! ### values (maps in canonical form: sorted by key) -/

/-- `{spec: {f: 1}, other: 1}`: the first configuration of a -/
def cfgFull : Value := .map [("other", .int 1), ("spec", .map [("f", .int 1)])]
/-- `{other: 1}`: the second configuration of a -/
def cfgOther : Value := .map [("other", .int 1)]
/-- `{spec: {f: 1, sibl: []}, other: 1}`: the object u updates to in history A -/
def objSibl : Value := .map [("other", .int 1), ("spec", .map [("f", .int 1), ("sibl", .list [])])]
/-- `{spec: {f: 1, sibm: {}}, other: 1}`: the object u updates to in history B -/
def objSibm : Value := .map [("other", .int 1), ("spec", .map [("f", .int 1), ("sibm", .map [])])]

/-- the paths `.spec.sibl` and `.spec.sibm` -/
def pathSibl : Path := [.field "spec", .field "sibl"]
def pathSibm : Path := [.field "spec", .field "sibm"]

/-! ### field sets and managed fields -/

/-- `{.other, .spec.f}`: the field set of `cfgFull` -/
def setFull : SetTrie := .node [.field "other"] [(.field "spec", .node [.field "f"] [])]
/-- `{.other}`: the field set of `cfgOther` -/
def setOther : SetTrie := .node [.field "other"] []
/-- `{.spec.sibl}`: what the updater u comes to own in history A -/
def setSibl : SetTrie := .node [] [(.field "spec", .node [.field "sibl"] [])]
/-- `{.spec.sibm}`: what the updater u comes to own in history B -/
def setSibm : SetTrie := .node [] [(.field "spec", .node [.field "sibm"] [])]

/-- the records after a's first apply -/
def mfA : Managed := [("a", ⟨setFull, "v1", true⟩)]
/-- the records after u's update in history A / B -/
def mfAUl : Managed := [("a", ⟨setFull, "v1", true⟩), ("u", ⟨setSibl, "v1", false⟩)]
def mfAUm : Managed := [("a", ⟨setFull, "v1", true⟩), ("u", ⟨setSibm, "v1", false⟩)]
/-- the records after a's second apply in history A: u's record is gone -/
def mfA3 : Managed := [("a", ⟨setOther, "v1", true⟩)]
/-- the records after a's second apply in history B: u's record is kept -/
def mfB3 : Managed := [("a", ⟨setOther, "v1", true⟩), ("u", ⟨setSibm, "v1", false⟩)]

/-- `{other: 1, spec: {sibm: {}}}`: the object a's second apply returns in history B -/
def objB3 : Value := .map [("other", .int 1), ("spec", .map [("sibm", .map [])])]

end SMD.FW2
