/-
Helper lemmas for C03: when `prune` is the identity for the applier's previous record (no record, or
an empty one), `apply` returns the plain merge.
-/
import SMD.Proofs.UpdaterShape
namespace SMD

theorem prune_none (u : Updater) (sc : Schema) (merged : TV) (m : Managed) (mgr : String) :
    prune u sc merged m mgr none = .ok merged := by
  unfold prune; rfl

theorem prune_empty (u : Updater) (sc : Schema) (merged : TV) (m : Managed) (mgr : String)
    (last : VersionedSet) (h : last.set.isEmpty = true) :
    prune u sc merged m mgr (some last) = .ok merged := by
  unfold prune; simp only [h, if_true]

/-- if pruning with the applier's previous record is the identity, `apply` returns the merge -/
theorem apply_of_prune_id (u : Updater) (sc : Schema) (live cfg : TV) (ver : String) (m m0 : Managed)
    (mgr : String) (force : Bool) (obj : Option TV) (mf : Managed)
    (hrec : reconcileManaged u sc live m = .ok m0)
    (hp : ∀ merged ms, prune u sc merged ms mgr (mfGet m0 mgr) = .ok merged) :
    apply u sc live cfg ver m mgr force = .ok (obj, mf) →
      ∃ merged, mergeTV sc live cfg = .ok merged ∧
        (obj = some merged ∨ (obj = none ∧ Value.equals live.value merged.value = true)) := by
  rw [apply_eq]
  unfold applyPre
  rw [hrec]
  simp only
  cases hm : mergeTV sc live cfg with
  | ok merged =>
    simp only [liftRes]
    cases toFieldSet sc cfg with
    | ok set =>
      simp only [hp]
      intro h
      obtain ⟨ms, cmp, _, hr⟩ := applyFinish_eq_ok h
      refine ⟨merged, rfl, ?_⟩
      have h1 := congrArg Prod.fst hr
      simp only at h1
      by_cases hc : (!u.returnInputOnNoop && Value.equals live.value merged.value) = true
      · rw [if_pos hc] at h1
        right
        refine ⟨h1, ?_⟩
        simp only [Bool.and_eq_true] at hc
        exact hc.2
      · rw [if_neg hc] at h1
        left; exact h1
    | err => simp
    | panic => simp
  | err => simp [liftRes]
  | panic => simp [liftRes]

end SMD
