/- helper lemmas for SMD/Properties/C19Include.lean: under an include pattern in force at every version,
"every owned path is compatible with the pattern" is preserved by apply and update (the include-filter
twin of `NoIgnored` in `SMD/Proofs/HistoryInvariants.lean`). -/
import SMD.Proofs.HistoryInvariants
import SMD.Properties.C19
import SMD.Properties.C19History
namespace SMD
open SetTrie

/-- a prefix of a path compatible with an include pattern is compatible (a pattern has to match the
path only as far as the pattern goes, and the first matching member decides at every position) -/
theorem compatible_prefix : ∀ (pat : SetMatcher) (p r : Path),
    C19.compatible pat (p ++ r) = true → C19.compatible pat p = true
  | _, [], _, _ => by simp [C19.compatible]
  | .mk true _, _ :: _, _, _ => by simp [C19.compatible]
  | .mk false ms, [pe], [], h => h
  | .mk false ms, [pe], q :: rest, h => by
    simp only [List.cons_append, List.nil_append, C19.compatible] at h
    simp only [C19.compatible]
    split at h
    · rename_i pm hf
      exact List.any_eq_true.2 ⟨pm, List.mem_of_find?_eq_some hf, by simpa using List.find?_some hf⟩
    · cases h
  | .mk false ms, pe :: q :: rest, r, h => by
    simp only [List.cons_append, C19.compatible] at h
    simp only [C19.compatible]
    split at h
    · rename_i pm hf
      exact compatible_prefix pm.2 (q :: rest) r h
    · cases h

/-- every path of every record is compatible with the include pattern -/
def OnlyIncluded (pat : SetMatcher) (m : Managed) : Prop :=
  ∀ x, x ∈ m → ∀ q, x.2.set.has q = true → C19.compatible pat q = true

theorem compatible_of_covered {pat : SetMatcher} {m : Managed} (hn : OnlyIncluded pat m)
    {y : String × VersionedSet} (hy : y ∈ m) {q : Path} (hc : Covered y.2.set q) :
    C19.compatible pat q = true := by
  obtain ⟨r, hr⟩ := hc
  exact compatible_prefix pat q r (hn y hy _ hr)

theorem reconcileManaged_onlyIncluded {u : Updater} {sc : Schema} {live : TV} {m m0 : Managed} {pat : SetMatcher}
    (h : reconcileManaged u sc live m = .ok m0) (hw : ∀ x ∈ m, x.2.set.wf = true) (hn : OnlyIncluded pat m) :
    OnlyIncluded pat m0 := by
  intro x hx q hq
  obtain ⟨y, hy, hc⟩ := reconcileManaged_covered h hw hx hq
  exact compatible_of_covered hn hy hc

/-- an include-only ignore configuration has no exclusion set to be ill formed -/
theorem ignoreWF_of_include {u : Updater} {pat : SetMatcher} (hig : ∀ v, u.ignore v = some (.include pat)) :
    IgnoreWF u := by
  intro v ex e
  rw [hig v] at e
  cases e

/-- the members of a set filtered by an include pattern are compatible with it -/
theorem compatible_of_has_include {pat : SetMatcher} {s : SetTrie} (hs : s.wf = true) {q : Path}
    (hq : (Filter.apply (.include pat) s).has q = true) : C19.compatible pat q = true := by
  cases q with
  | nil => simp [C19.compatible]
  | cons pe rest =>
    rw [C19.include_filter_spec pat s _ hs (by simp), Bool.and_eq_true] at hq
    exact hq.2

theorem apply_onlyIncluded {u : Updater} {sc : Schema} {live cfg : TV} {ver : String} {m : Managed} {mgr : String}
    {force : Bool} {obj : Option TV} {mf : Managed} {pat : SetMatcher}
    (hig : ∀ v, u.ignore v = some (.include pat))
    (h : apply u sc live cfg ver m mgr force = .ok (obj, mf)) (hm : ManagedInv m) (hn : OnlyIncluded pat m) :
    OnlyIncluded pat mf := by
  obtain ⟨m0, fs, newObj, cmp, hrec, hfs, hcore⟩ := apply_ok_inv h
  have hw0 := reconcileManaged_wf hrec hm.2.1
  have hn0 := reconcileManaged_onlyIncluded hrec hm.2.1 hn
  obtain ⟨_, _, mm⟩ := updateCore_ok hcore
  intro x hx q hq
  obtain ⟨y, hy, hxy⟩ := (mm x hx).2
  rcases mem_mfSet hy with rfl | hy
  · have hwy : (applyIgnore u ver fs).wf = true :=
      applyIgnore_wf (ignoreWF_of_include hig) ver (toFieldSet_wf hfs)
    have hq' := (hxy.2.2.2 hwy).2 q hq
    simp only [applyIgnore, hig] at hq'
    exact compatible_of_has_include (toFieldSet_wf hfs) hq'
  · exact hn0 y hy q ((hxy.2.2.2 (hw0 y hy)).2 q hq)

theorem update_onlyIncluded {u : Updater} {sc : Schema} {live newObj : TV} {ver : String} {m : Managed} {mgr : String}
    {mf : Managed} {pat : SetMatcher}
    (hig : ∀ v, u.ignore v = some (.include pat))
    (h : update u sc live newObj ver m mgr = .ok mf) (hm : ManagedInv m) (hn : OnlyIncluded pat m) :
    OnlyIncluded pat mf := by
  have higw : IgnoreWF u := ignoreWF_of_include hig
  obtain ⟨m0, ms, cmp, hrec, hcore, hmf⟩ := update_ok_inv h
  have hw0 := reconcileManaged_wf hrec hm.2.1
  have hn0 := reconcileManaged_onlyIncluded hrec hm.2.1 hn
  obtain ⟨⟨cmp0, hc, rfl⟩, _, mm⟩ := updateCore_ok hcore
  have hnms : ∀ x ∈ ms, ∀ q, x.2.set.has q = true → C19.compatible pat q = true := by
    intro x hx q hq
    obtain ⟨y, hy, hxy⟩ := (mm x hx).2
    exact hn0 y hy q ((hxy.2.2.2 (hw0 y hy)).2 q hq)
  intro x hx q hq
  rw [hmf] at hx
  split at hx
  · exact hnms x (mem_mfDelete hx).1 q hq
  · rcases mem_mfSet hx with rfl | hx
    · have hin := updateInner_wf (cur_wf (mgr := mgr) (ver := ver) hw0 mm)
        (filterCmp_wf higw ver (compareTV_wf hc))
      simp only [updateSet, applyIgnore] at hq
      rw [hig ver] at hq hin
      exact compatible_of_has_include hin hq
    · exact hnms x hx q hq

open History in
theorem reachable_onlyIncluded {u : Updater} {sc : Schema} {tr : TypeRef} {st : State} {pat : SetMatcher}
    (hig : ∀ v, u.ignore v = some (.include pat))
    (h : Reachable u sc tr st) : OnlyIncluded pat st.managed := by
  have higw : IgnoreWF u := ignoreWF_of_include hig
  induction h with
  | init => intro x hx; simp at hx
  | step a b ha hstep ih =>
    have hinv := reachable_managedInv higw ha
    cases hstep with
    | apply cfg ver mgr force obj mf h => exact apply_onlyIncluded hig h hinv ih
    | update newObj ver mgr mf h => exact update_onlyIncluded hig h hinv ih

end SMD
