/-
Invariants of the managed fields over all histories (`SMD/Spec/History.lean`): one-step preservation
lemmas for `apply` and `update` of
* the structural invariant (keys strictly ascending, every record a well-formed non-empty set), and
* "no record contains an ignored path" under an exclusion set,
and the inductions over `Reachable`.
-/
import SMD.Spec.History
import SMD.Proofs.OwnershipShape
import SMD.Properties.C19
namespace SMD
open SetTrie

/-! ### key order through the association-list operations -/

theorem mem_mfSet_ins_key {k : String} {v : VersionedSet} {m : Managed} {x : String × VersionedSet}
    (h : x ∈ mfSet.ins k v m) : x.1 = k ∨ x ∈ m := by
  rcases mem_mfSet_ins h with rfl | h
  · exact .inl rfl
  · exact .inr h

theorem sortedManaged_mfSet {m : Managed} (k : String) (v : VersionedSet) (hm : SortedManaged m) :
    SortedManaged (mfSet m k v) := by
  simp only [mfSet]
  induction m with
  | nil => simp [mfSet.ins]
  | cons y m ih =>
    obtain ⟨k0, v0⟩ := y
    have hm' := List.pairwise_cons.1 hm
    simp only [mfSet.ins]
    split
    · rename_i h
      simp only [beq_iff_eq] at h
      subst h
      exact List.pairwise_cons.2 ⟨hm'.1, hm'.2⟩
    · split
      · rename_i h1 h2
        refine List.pairwise_cons.2 ⟨?_, hm⟩
        intro a ha
        rcases List.mem_cons.1 ha with rfl | ha
        · exact h2
        · exact String.lt_trans h2 (hm'.1 a ha)
      · rename_i h1 h2
        refine List.pairwise_cons.2 ⟨?_, ih hm'.2⟩
        intro a ha
        rcases mem_mfSet_ins_key ha with h | h
        · rw [h]
          simp only [beq_iff_eq] at h1
          grind
        · exact hm'.1 a h

theorem sortedManaged_sublist {m m' : Managed} (h : m'.Sublist m) (hm : SortedManaged m) : SortedManaged m' :=
  List.Pairwise.sublist h hm

theorem sortedManaged_mfDelete {m : Managed} (k : String) (hm : SortedManaged m) : SortedManaged (mfDelete m k) :=
  sortedManaged_sublist List.filter_sublist hm

/-! ### key order through `updateLoop`, the subtraction loop and `updateCore` -/

theorem updateLoop_sublist (u : Updater) (sc : Schema) (o n : TV) (w : String) :
    ∀ (iter : List (String × VersionedSet)) (ms : Managed) (versions : List (String × Comparison))
      (conflicts removed : List (String × VersionedSet)) (ms' : Managed) (cs rs : List (String × VersionedSet)),
      updateLoop u sc o n w iter ms versions conflicts removed = .ok (ms', cs, rs) → ms'.Sublist ms := by
  intro iter
  induction iter with
  | nil =>
    intro ms versions conflicts removed ms' cs rs h
    simp only [updateLoop, Outcome.ok.injEq, Prod.mk.injEq] at h
    obtain ⟨rfl, _, _⟩ := h
    exact List.Sublist.refl _
  | cons hd rest ih =>
    intro ms versions conflicts removed ms' cs rs h
    obtain ⟨manager, vs⟩ := hd
    rw [updateLoop] at h
    split at h
    · exact ih _ _ _ _ _ _ _ h
    · have del : updateLoop u sc o n w rest (mfDelete ms manager) versions conflicts removed = .ok (ms', cs, rs) →
          ms'.Sublist ms := fun h => (ih _ _ _ _ _ _ _ h).trans List.filter_sublist
      simp only [] at h
      split at h
      · exact ih _ _ _ _ _ _ _ h
      · split at h
        · exact del h
        · cases h
        · split at h
          · exact del h
          · cases h
          · split at h
            · cases h
            · cases h
            · exact ih _ _ _ _ _ _ _ h

theorem sortedManaged_subSets : ∀ (xs : List (String × VersionedSet)) (ms : Managed),
    SortedManaged ms → SortedManaged (subSets ms xs) := by
  intro xs
  induction xs with
  | nil => intro ms h; exact h
  | cons x xs ih =>
    intro ms h
    simp only [subSets, List.foldl_cons]
    cases hg : mfGet ms x.1 with
    | none => exact ih ms h
    | some cur => exact ih _ (sortedManaged_mfSet _ _ h)

theorem updateCore_sorted {u : Updater} {sc : Schema} {o n : TV} {ver : String} {ms : Managed} {w : String}
    {force : Bool} {out : Managed} {cmp : Comparison}
    (h : updateCore u sc o n ver ms w force = .ok (out, cmp)) (hs : SortedManaged ms) : SortedManaged out := by
  simp only [updateCore] at h
  split at h
  · cases h
  · cases h
  · split at h
    · rename_i ms2 conflicts removed hl
      have hsub := updateLoop_sublist u sc o n w _ _ _ _ _ _ _ _ hl
      split at h
      · cases h
      · simp only [Outcome.ok.injEq, Prod.mk.injEq] at h
        obtain ⟨rfl, _⟩ := h
        have h2 : SortedManaged (subSets (subSets ms2 conflicts) removed) :=
          sortedManaged_subSets _ _ (sortedManaged_subSets _ _ (sortedManaged_sublist hsub hs))
        exact sortedManaged_sublist List.filter_sublist h2
    · cases h
    · cases h
    · cases h

/-! ### `reconcileNode`: every emitted path is the current node or lies on the way to a member -/

/-- `r` is a (possibly improper) prefix of a member of `fs` -/
def Covered (fs : SetTrie) (r : Path) : Prop := ∃ q, fs.has (r ++ q) = true

theorem has_cons_of_getChild {fs t : SetTrie} {pe : PE} {q : Path}
    (hg : getChild pe fs.children = some t) (hq : t.has q = true) : fs.has (pe :: q) = true := by
  obtain ⟨m, c⟩ := fs
  rw [has_cons (has_true_ne_nil hq)]
  simp only [SetTrie.children] at hg
  rw [hg]; exact hq

/-- the fold of a step that either fails or appends paths satisfying `Q` -/
theorem foldl_added {α : Type} (Q : Path → Prop) (f : Res (List Path × List Path) → α → Res (List Path × List Path)) :
    ∀ (l : List α) (acc : Res (List Path × List Path)) (rm2 ad2 : List Path),
      (∀ x ∈ l, ∀ acc rm2 ad2, f acc x = .ok (rm2, ad2) →
        ∃ rm ad, acc = .ok (rm, ad) ∧ ∀ p ∈ ad2, p ∈ ad ∨ Q p) →
      l.foldl f acc = .ok (rm2, ad2) →
        ∃ rm ad, acc = .ok (rm, ad) ∧ ∀ p ∈ ad2, p ∈ ad ∨ Q p := by
  intro l
  induction l with
  | nil => intro acc rm2 ad2 _ h; exact ⟨rm2, ad2, h, fun p hp => .inl hp⟩
  | cons x l ih =>
    intro acc rm2 ad2 hf h
    rw [List.foldl_cons] at h
    obtain ⟨rm1, ad1, h1, hp1⟩ := ih (f acc x) rm2 ad2 (fun y hy => hf y (by simp [hy])) h
    obtain ⟨rm, ad, h0, hp0⟩ := hf x (by simp) acc rm1 ad1 h1
    refine ⟨rm, ad, h0, fun p hp => ?_⟩
    rcases hp1 p hp with h | h
    · exact hp0 p h
    · exact .inr h

/-- what one recursive call contributes -/
def AddedOK (sc : Schema) (fuel : Nat) : Prop :=
  ∀ (fso : Option SetTrie) (tr : TypeRef) (isAtomic : Bool) (path : Path) (rm ad : List Path),
    reconcileNode sc fuel fso tr isAtomic path = .ok (rm, ad) → (∀ fs, fso = some fs → fs.wf = true) →
    ∀ p ∈ ad, (p = path ∧ isAtomic = false) ∨
      ∃ fs r, fso = some fs ∧ r ≠ [] ∧ p = path ++ r ∧ Covered fs r

theorem call_added {sc : Schema} {fuel : Nat} (ih : AddedOK sc fuel) {fs : SetTrie} (hw : fs.wf = true)
    {pe : PE} {isMember : Bool} (hsub : isMember = false → ∃ t, getChild pe fs.children = some t)
    {tr' : TypeRef} {path : Path} {rm' ad' : List Path}
    (h : reconcileNode sc fuel (getChild pe fs.children) tr' (isMember && (getChild pe fs.children).isNone)
      (path ++ [pe]) = .ok (rm', ad')) :
    ∀ p ∈ ad', ∃ r, r ≠ [] ∧ p = path ++ r ∧ Covered fs r := by
  have hwc : ∀ t, getChild pe fs.children = some t → t.wf = true ∧ t.isEmpty = false := by
    intro t ht
    obtain ⟨m, c⟩ := fs
    exact wf_of_getChild hw ht
  intro p hp
  rcases ih _ _ _ _ _ _ h (fun t ht => (hwc t ht).1) p hp with ⟨rfl, hat⟩ | ⟨t, r, ht, hr, rfl, q, hq⟩
  · have : ∃ t, getChild pe fs.children = some t := by
      cases hm : isMember with
      | false => exact hsub hm
      | true =>
        rw [hm] at hat
        cases hg : getChild pe fs.children with
        | none => simp [hg] at hat
        | some t => exact ⟨t, rfl⟩
    obtain ⟨t, ht⟩ := this
    obtain ⟨q, hq⟩ := exists_has_of_not_isEmpty t (hwc t ht).1 (hwc t ht).2
    exact ⟨[pe], by simp, rfl, q, has_cons_of_getChild ht hq⟩
  · exact ⟨pe :: r, by simp, by simp, q, has_cons_of_getChild ht hq⟩

/-- one step of the member loops of `reconcileNode` -/
theorem handle_added {sc : Schema} {fuel : Nat} (ih : AddedOK sc fuel) {fs : SetTrie} (hw : fs.wf = true)
    (typeOf : PE → Option TypeRef) (path : Path) (pe : PE) (isMember : Bool)
    (hsub : isMember = false → ∃ t, getChild pe fs.children = some t)
    (acc : Res (List Path × List Path)) (rm2 ad2 : List Path)
    (h : (match acc with
          | .ok (rm, ad) =>
            (match typeOf pe with
             | none => Res.ok (rm, ad)
             | some tr' =>
               match reconcileNode sc fuel (getChild pe fs.children) tr'
                  (isMember && (getChild pe fs.children).isNone) (path ++ [pe]) with
               | .ok (rm', ad') => .ok (rm ++ rm', ad ++ ad')
               | .err => .err
               | .panic => .panic)
          | e => e) = .ok (rm2, ad2)) :
    ∃ rm ad, acc = .ok (rm, ad) ∧ ∀ p ∈ ad2, p ∈ ad ∨ ∃ r, r ≠ [] ∧ p = path ++ r ∧ Covered fs r := by
  split at h
  · rename_i rm ad
    refine ⟨rm, ad, rfl, ?_⟩
    split at h
    · simp only [Res.ok.injEq, Prod.mk.injEq] at h
      obtain ⟨_, rfl⟩ := h
      exact fun p hp => .inl hp
    · split at h
      · rename_i rm' ad' hc
        simp only [Res.ok.injEq, Prod.mk.injEq] at h
        obtain ⟨_, rfl⟩ := h
        intro p hp
        rcases List.mem_append.1 hp with hp | hp
        · exact .inl hp
        · exact .inr (call_added ih hw hsub hc p hp)
      · cases h
      · cases h
  · rename_i hne
    exact absurd h (by intro h; exact hne _ _ h)

theorem visit_added {sc : Schema} {fuel : Nat} (ih : AddedOK sc fuel) {fs : SetTrie} (hw : fs.wf = true)
    (typeOf : PE → Option TypeRef) (path : Path) (rm2 ad2 : List Path)
    (h : List.foldl
          (fun (acc : Res (List Path × List Path)) (pe : PE) =>
            match acc with
            | .ok (rm, ad) =>
              (match typeOf pe with
               | none => Res.ok (rm, ad)
               | some tr' =>
                 match reconcileNode sc fuel (getChild pe fs.children) tr'
                    (true && (getChild pe fs.children).isNone) (path ++ [pe]) with
                 | .ok (rm', ad') => .ok (rm ++ rm', ad ++ ad')
                 | .err => .err
                 | .panic => .panic)
            | e => e)
          (List.foldl
            (fun (acc : Res (List Path × List Path)) (x : PE × SetTrie) =>
              if peHas x.1 fs.members = true then acc
              else
                match acc with
                | .ok (rm, ad) =>
                  (match typeOf x.1 with
                   | none => Res.ok (rm, ad)
                   | some tr' =>
                     match reconcileNode sc fuel (getChild x.1 fs.children) tr'
                        (false && (getChild x.1 fs.children).isNone) (path ++ [x.1]) with
                     | .ok (rm', ad') => .ok (rm ++ rm', ad ++ ad')
                     | .err => .err
                     | .panic => .panic)
                | e => e)
            (Res.ok ([], [])) fs.children)
          fs.members = .ok (rm2, ad2)) :
    ∀ p ∈ ad2, ∃ r, r ≠ [] ∧ p = path ++ r ∧ Covered fs r := by
  obtain ⟨rm1, ad1, h1, hp1⟩ := foldl_added (fun p => ∃ r, r ≠ [] ∧ p = path ++ r ∧ Covered fs r) _ _ _ _ _
    (fun pe _ acc rm2 ad2 hh => handle_added ih hw typeOf path pe true (by simp) acc rm2 ad2 hh) h
  have hsorted : SortedKeys fs.children := by
    obtain ⟨m, c⟩ := fs
    exact (wf_node.1 hw).2.1
  obtain ⟨rm0, ad0, h0, hp0⟩ := foldl_added (fun p => ∃ r, r ≠ [] ∧ p = path ++ r ∧ Covered fs r) _ _ _ _ _
    (fun x hx acc rm2 ad2 hh => by
      split at hh
      · exact ⟨rm2, ad2, hh, fun p hp => .inl hp⟩
      · exact handle_added ih hw typeOf path x.1 false
          (fun _ => ⟨x.2, getChild_of_mem hsorted hx (PE.equals_refl _)⟩) acc rm2 ad2 hh) h1
  simp only [Res.ok.injEq, Prod.mk.injEq] at h0
  obtain ⟨_, rfl⟩ := h0
  intro p hp
  rcases hp1 p hp with h | h
  · rcases hp0 p h with h | h
    · simp at h
    · exact h
  · exact h

theorem reconcileNode_added (sc : Schema) : ∀ fuel, AddedOK sc fuel := by
  intro fuel
  induction fuel with
  | zero => intro fso tr isAtomic path rm ad h; simp [reconcileNode] at h
  | succ fuel ih =>
    intro fso tr isAtomic path rm ad h hw p hp
    have here : ad = [path] → isAtomic = false → (p = path ∧ isAtomic = false) ∨
        ∃ fs r, fso = some fs ∧ r ≠ [] ∧ p = path ++ r ∧ Covered fs r := by
      intro e hat
      subst e
      exact .inl ⟨by simpa using hp, hat⟩
    have below : ∀ fs, fso = some fs → (∀ p ∈ ad, ∃ r, r ≠ [] ∧ p = path ++ r ∧ Covered fs r) →
        (p = path ∧ isAtomic = false) ∨
        ∃ fs r, fso = some fs ∧ r ≠ [] ∧ p = path ++ r ∧ Covered fs r := by
      intro fs hfs hall
      obtain ⟨r, h1, h2, h3⟩ := hall p hp
      exact .inr ⟨fs, r, hfs, h1, h2, h3⟩
    simp only [reconcileNode] at h
    split at h
    · cases h
    · split at h
      · cases h
      · simp only [Res.ok.injEq, Prod.mk.injEq] at h
        obtain ⟨_, rfl⟩ := h
        simp at hp
      · rename_i t _
        split at h
        · rename_i hc
          simp only [Res.ok.injEq, Prod.mk.injEq] at h
          obtain ⟨_, rfl⟩ := h
          simp only [Bool.and_eq_true, Bool.not_eq_true'] at hc
          exact here rfl hc.1
        · split at h
          · rename_i fs
            exact below fs rfl (visit_added ih (hw fs rfl) (fun _ => some t.elementType) path rm ad h)
          · simp only [Res.ok.injEq, Prod.mk.injEq] at h
            obtain ⟨_, rfl⟩ := h
            simp at hp
      · rename_i t _
        split at h
        · simp only [Res.ok.injEq, Prod.mk.injEq] at h
          obtain ⟨_, rfl⟩ := h
          simp at hp
        · split at h
          · rename_i hc
            simp only [Bool.and_eq_true, Bool.not_eq_true'] at hc
            split at h
            · split at h
              · simp only [Res.ok.injEq, Prod.mk.injEq] at h
                obtain ⟨_, rfl⟩ := h
                exact here rfl hc.1
              · simp only [Res.ok.injEq, Prod.mk.injEq] at h
                obtain ⟨_, rfl⟩ := h
                simp at hp
            · simp only [Res.ok.injEq, Prod.mk.injEq] at h
              obtain ⟨_, rfl⟩ := h
              simp at hp
          · split at h
            · rename_i fs
              exact below fs rfl (visit_added ih (hw fs rfl) (typeRefAtPath t) path rm ad h)
            · simp only [Res.ok.injEq, Prod.mk.injEq] at h
              obtain ⟨_, rfl⟩ := h
              simp at hp

/-! ### `reconcileFieldSet` and `reconcileManaged` -/

theorem has_congr_path : ∀ {a b : Path} (_ : Path.equals a b = true) (S : SetTrie), has a S = has b S
  | [], [], _, _ => rfl
  | [], _ :: _, h, _ => by simp [Path.equals] at h
  | _ :: _, [], h, _ => by simp [Path.equals] at h
  | x :: as, y :: bs, h, S => by
    simp only [Path.equals, Bool.and_eq_true] at h
    obtain ⟨m, c⟩ := S
    by_cases ha : as = []
    · subst ha
      have hb : bs = [] := by
        cases bs with
        | nil => rfl
        | cons _ _ => simp [Path.equals] at h
      subst hb
      rw [has_single, has_single]; exact peHas_congr h.1 m
    · have hb : bs ≠ [] := by
        rintro rfl
        cases as with
        | nil => exact ha rfl
        | cons _ _ => simp [Path.equals] at h
      rw [has_cons ha, has_cons hb, getChild_congr h.1]
      cases getChild y c with
      | none => rfl
      | some t => exact has_congr_path h.2 t

theorem path_equals_append : ∀ {a b : Path} (c : Path), Path.equals a b = true → Path.equals (a ++ c) (b ++ c) = true
  | [], [], c, _ => path_equals_refl c
  | [], _ :: _, _, h => by simp [Path.equals] at h
  | _ :: _, [], _, h => by simp [Path.equals] at h
  | x :: as, y :: bs, c, h => by
    simp only [Path.equals, Bool.and_eq_true, List.cons_append] at h ⊢
    exact ⟨h.1, path_equals_append c h.2⟩

theorem Covered.congr {fs : SetTrie} {p q : Path} (h : Path.equals p q = true) (hc : Covered fs p) : Covered fs q := by
  obtain ⟨r, hr⟩ := hc
  exact ⟨r, by rw [← has_congr_path (path_equals_append r h)]; exact hr⟩

theorem Covered.of_has {fs : SetTrie} {q : Path} (h : fs.has q = true) : Covered fs q := ⟨[], by simpa using h⟩

theorem reconcileFieldSet_some {sc : Schema} {fs s : SetTrie} {tr : TypeRef}
    (h : reconcileFieldSet sc fs tr = .ok (some s)) :
    ∃ rm ad, reconcileNode sc (fs.depth + 1) (some fs) tr false [] = .ok (rm, ad) ∧
      s = (fs.rdiff (SetTrie.ofPaths rm)).union (SetTrie.ofPaths ad) := by
  simp only [reconcileFieldSet] at h
  split at h
  · cases h
  · rename_i rm ad _ hr
    simp only [Res.ok.injEq, Option.some.injEq] at h
    exact ⟨rm, ad, hr, h.symm⟩
  · cases h
  · cases h

theorem reconcileFieldSet_wf {sc : Schema} {fs s : SetTrie} {tr : TypeRef}
    (h : reconcileFieldSet sc fs tr = .ok (some s)) (hw : fs.wf = true) : s.wf = true := by
  obtain ⟨rm, ad, _, rfl⟩ := reconcileFieldSet_some h
  exact wf_union _ _ (wf_rdiff _ _ hw (wf_ofPaths _)) (wf_ofPaths _)

/-- every member of a reconciled record is a member of the record or lies on the way to one -/
theorem reconcileFieldSet_covered {sc : Schema} {fs s : SetTrie} {tr : TypeRef}
    (h : reconcileFieldSet sc fs tr = .ok (some s)) (hw : fs.wf = true) {q : Path} (hq : s.has q = true) :
    Covered fs q := by
  obtain ⟨rm, ad, hr, rfl⟩ := reconcileFieldSet_some h
  rw [has_union q _ _ (wf_rdiff _ _ hw (wf_ofPaths _)) (wf_ofPaths _), Bool.or_eq_true] at hq
  rcases hq with hq | hq
  · rw [has_rdiff q _ _ hw (wf_ofPaths _), Bool.and_eq_true] at hq
    exact Covered.of_has hq.1
  · rw [has_ofPaths, List.any_eq_true] at hq
    obtain ⟨p, hp, hpq⟩ := hq
    simp only [Bool.and_eq_true, Bool.not_eq_true', List.isEmpty_eq_false_iff] at hpq
    rcases reconcileNode_added sc _ _ _ _ _ _ _ hr (fun t ht => by cases ht; exact hw) p hp with
      ⟨rfl, _⟩ | ⟨t, r, ht, _, rfl, hc⟩
    · exact absurd rfl hpq.1
    · cases ht
      exact Covered.congr (by simpa using hpq.2) (by simpa using hc)

/-- an entry after the reconcile step is an entry before, possibly with its set reconciled -/
theorem reconcileManaged_mem {u : Updater} {sc : Schema} {live : TV} : ∀ {m m0 : Managed},
    reconcileManaged u sc live m = .ok m0 → ∀ x ∈ m0, ∃ y ∈ m, x.1 = y.1 ∧
      (x.2 = y.2 ∨ ∃ tr s, reconcileFieldSet sc y.2.set tr = .ok (some s) ∧ x.2.set = s) := by
  intro m
  induction m with
  | nil => intro m0 h; simp only [reconcileManaged, Outcome.ok.injEq] at h; subst h; simp
  | cons y m ih =>
    intro m0 h
    obtain ⟨k, vs⟩ := y
    simp only [reconcileManaged] at h
    have tl : ∀ {m0}, reconcileManaged u sc live m = .ok m0 → ∀ x ∈ m0, ∃ y ∈ (k, vs) :: m, x.1 = y.1 ∧
        (x.2 = y.2 ∨ ∃ tr s, reconcileFieldSet sc y.2.set tr = .ok (some s) ∧ x.2.set = s) := by
      intro m0 h x hx
      obtain ⟨y, hy, h1⟩ := ih h x hx
      exact ⟨y, by simp [hy], h1⟩
    split at h
    · exact tl h
    · cases h
    · split at h
      · cases h
      · cases h
      · rename_i tv _ _ r hr
        split at h
        · rename_i tail ht
          simp only [Outcome.ok.injEq] at h
          subst h
          intro x hx
          rcases List.mem_cons.1 hx with rfl | hx
          · refine ⟨(k, vs), by simp, rfl, ?_⟩
            cases r with
            | none => exact .inl rfl
            | some s => exact .inr ⟨tv.type, s, hr, rfl⟩
          · exact tl ht x hx
        · rename_i e he
          exact absurd h (he m0)

theorem reconcileManaged_wf {u : Updater} {sc : Schema} {live : TV} {m m0 : Managed}
    (h : reconcileManaged u sc live m = .ok m0) (hw : ∀ x ∈ m, x.2.set.wf = true) :
    ∀ x ∈ m0, x.2.set.wf = true := by
  intro x hx
  obtain ⟨y, hy, _, h2 | ⟨tr, s, hs, e⟩⟩ := reconcileManaged_mem h x hx
  · rw [h2]; exact hw y hy
  · rw [e]; exact reconcileFieldSet_wf hs (hw y hy)

/-- a property of paths inherited by prefixes (of members) survives the reconcile step -/
theorem reconcileManaged_covered {u : Updater} {sc : Schema} {live : TV} {m m0 : Managed}
    (h : reconcileManaged u sc live m = .ok m0) (hw : ∀ x ∈ m, x.2.set.wf = true)
    {x : String × VersionedSet} (hx : x ∈ m0) {q : Path} (hq : x.2.set.has q = true) :
    ∃ y ∈ m, Covered y.2.set q := by
  obtain ⟨y, hy, _, h2 | ⟨tr, s, hs, e⟩⟩ := reconcileManaged_mem h x hx
  · exact ⟨y, hy, Covered.of_has (by rw [← h2]; exact hq)⟩
  · exact ⟨y, hy, reconcileFieldSet_covered hs (hw y hy) (by rw [← e]; exact hq)⟩

/-! ### the structural invariant, one step -/

/-- keys strictly ascending, every record a well-formed non-empty set -/
def ManagedInv (m : Managed) : Prop :=
  SortedManaged m ∧ (∀ x, x ∈ m → x.2.set.wf = true) ∧ (∀ x, x ∈ m → x.2.set.isEmpty = false)

/-- every exclusion set of the ignore configuration is a well-formed set -/
def IgnoreWF (u : Updater) : Prop := ∀ v ex, u.ignore v = some (.exclude ex) → ex.wf = true

theorem filter_apply_wf {f : Filter} (hf : ∀ ex, f = .exclude ex → ex.wf = true) {s : SetTrie}
    (hs : s.wf = true) : (f.apply s).wf = true := by
  cases f with
  | exclude ex => exact wf_rdiff _ _ hs (hf ex rfl)
  | «include» pat => exact wf_filterInclude s pat hs

theorem applyIgnore_wf {u : Updater} (hig : IgnoreWF u) (ver : String) {s : SetTrie} (hs : s.wf = true) :
    (applyIgnore u ver s).wf = true := by
  simp only [applyIgnore]
  split
  · rename_i f hf
    exact filter_apply_wf (fun ex e => hig ver ex (by rw [hf, e])) hs
  · exact hs

theorem filterCmp_wf {u : Updater} (hig : IgnoreWF u) (ver : String) {c : Comparison}
    (hc : c.removed.wf = true ∧ c.modified.wf = true ∧ c.added.wf = true) :
    (filterCmp (u.ignore ver) c).removed.wf = true ∧ (filterCmp (u.ignore ver) c).modified.wf = true ∧
      (filterCmp (u.ignore ver) c).added.wf = true := by
  simp only [filterCmp]
  split
  · exact hc
  · rename_i f hf
    have := fun ex (e : f = .exclude ex) => hig ver ex (by rw [hf, e])
    exact ⟨filter_apply_wf this hc.1, filter_apply_wf this hc.2.1, filter_apply_wf this hc.2.2⟩

/-- the set `Update` builds before filtering is well formed -/
theorem updateInner_wf {cur : SetTrie} {c : Comparison} (hcur : cur.wf = true)
    (hc : c.removed.wf = true ∧ c.modified.wf = true ∧ c.added.wf = true) :
    (((cur.diff c.removed).union c.modified).union c.added).wf = true :=
  wf_union _ _ (wf_union _ _ (wf_diff_left _ _ hcur) hc.2.1) hc.2.2

theorem cur_wf {ms m0 : Managed} {mgr ver : String} (hwf : ∀ x ∈ m0, x.2.set.wf = true)
    (mm : ∀ x ∈ ms, x.2.set.isEmpty = false ∧ ∃ y ∈ m0, Shrinks x y) :
    ((mfGet ms mgr).getD ⟨SetTrie.empty, ver, false⟩).set.wf = true := by
  cases hgm : mfGet ms mgr with
  | none => exact wf_empty
  | some v =>
    obtain ⟨y, hy, hs⟩ := (mm _ (mem_of_mfGet hgm)).2
    exact (hs.2.2.2 (hwf y hy)).1

theorem apply_managedInv {u : Updater} {sc : Schema} {live cfg : TV} {ver : String} {m : Managed} {mgr : String}
    {force : Bool} {obj : Option TV} {mf : Managed} (hig : IgnoreWF u)
    (h : apply u sc live cfg ver m mgr force = .ok (obj, mf)) (hm : ManagedInv m) : ManagedInv mf := by
  obtain ⟨m0, fs, newObj, cmp, hrec, hfs, hcore⟩ := apply_ok_inv h
  have hs0 := reconcileManaged_sorted hrec hm.1
  have hw0 := reconcileManaged_wf hrec hm.2.1
  obtain ⟨_, _, mm⟩ := updateCore_ok hcore
  refine ⟨updateCore_sorted hcore (sortedManaged_mfSet _ _ hs0), fun x hx => ?_, fun x hx => (mm x hx).1⟩
  obtain ⟨y, hy, hxy⟩ := (mm x hx).2
  refine (hxy.2.2.2 ?_).1
  rcases mem_mfSet hy with rfl | hy
  · exact applyIgnore_wf hig ver (toFieldSet_wf hfs)
  · exact hw0 y hy

theorem update_managedInv {u : Updater} {sc : Schema} {live newObj : TV} {ver : String} {m : Managed} {mgr : String}
    {mf : Managed} (hig : IgnoreWF u)
    (h : update u sc live newObj ver m mgr = .ok mf) (hm : ManagedInv m) : ManagedInv mf := by
  obtain ⟨m0, ms, cmp, hrec, hcore, hmf⟩ := update_ok_inv h
  have hs0 := reconcileManaged_sorted hrec hm.1
  have hw0 := reconcileManaged_wf hrec hm.2.1
  obtain ⟨⟨cmp0, hc, rfl⟩, _, mm⟩ := updateCore_ok hcore
  have hsms := updateCore_sorted hcore hs0
  have hwms : ∀ x ∈ ms, x.2.set.wf = true := by
    intro x hx
    obtain ⟨y, hy, hxy⟩ := (mm x hx).2
    exact (hxy.2.2.2 (hw0 y hy)).1
  refine ⟨?_, ?_, update_no_empty h⟩
  · rw [hmf]
    split
    · exact sortedManaged_mfDelete _ hsms
    · exact sortedManaged_mfSet _ _ hsms
  · intro x hx
    rw [hmf] at hx
    split at hx
    · exact hwms x (mem_mfDelete hx).1
    · rcases mem_mfSet hx with rfl | hx
      · exact applyIgnore_wf hig ver
          (updateInner_wf (cur_wf hw0 mm) (filterCmp_wf hig ver (compareTV_wf hc)))
      · exact hwms x hx

/-! ### ignored paths, one step -/

theorem prefixes_eq_prefixesOf (q : Path) : C15.prefixes q = prefixesOf q := by
  induction q with
  | nil => rfl
  | cons pe rest ih => simp [C15.prefixes, prefixesOf, ih]

theorem ignoredBy_eq_any (ex : SetTrie) (q : Path) :
    C19.ignoredBy ex q = (prefixesOf q).any (fun r => ex.has r) := by
  rw [C19.ignoredBy, prefixes_eq_prefixesOf]

theorem mem_prefixes_append (r : Path) : ∀ (q p : Path), p ∈ C15.prefixes q → p ∈ C15.prefixes (q ++ r) := by
  intro q
  induction q with
  | nil => intro p hp; simp [C15.prefixes] at hp
  | cons pe rest ih =>
    intro p hp
    simp only [C15.prefixes, List.mem_cons, List.mem_map, List.cons_append] at hp ⊢
    rcases hp with hp | ⟨a, ha, rfl⟩
    · exact .inl hp
    · exact .inr ⟨a, ih a ha, rfl⟩

/-- a prefix of a path that is not ignored is not ignored -/
theorem ignoredBy_prefix {ex : SetTrie} {q r : Path} (h : C19.ignoredBy ex (q ++ r) = false) :
    C19.ignoredBy ex q = false := by
  simp only [C19.ignoredBy, List.any_eq_false] at h ⊢
  exact fun p hp => h p (mem_prefixes_append r q p hp)

/-- no record contains an ignored path or anything beneath one -/
def NoIgnored (ex : SetTrie) (m : Managed) : Prop :=
  ∀ x, x ∈ m → ∀ q, x.2.set.has q = true → C19.ignoredBy ex q = false

theorem notIgnored_of_covered {ex : SetTrie} {m : Managed} (hn : NoIgnored ex m) {y : String × VersionedSet}
    (hy : y ∈ m) {q : Path} (hc : Covered y.2.set q) : C19.ignoredBy ex q = false := by
  obtain ⟨r, hr⟩ := hc
  exact ignoredBy_prefix (hn y hy _ hr)

theorem reconcileManaged_noIgnored {u : Updater} {sc : Schema} {live : TV} {m m0 : Managed} {ex : SetTrie}
    (h : reconcileManaged u sc live m = .ok m0) (hw : ∀ x ∈ m, x.2.set.wf = true) (hn : NoIgnored ex m) :
    NoIgnored ex m0 := by
  intro x hx q hq
  obtain ⟨y, hy, hc⟩ := reconcileManaged_covered h hw hx hq
  exact notIgnored_of_covered hn hy hc

theorem apply_noIgnored {u : Updater} {sc : Schema} {live cfg : TV} {ver : String} {m : Managed} {mgr : String}
    {force : Bool} {obj : Option TV} {mf : Managed} {ex : SetTrie}
    (hig : ∀ v, u.ignore v = some (.exclude ex)) (hex : ex.wf = true)
    (h : apply u sc live cfg ver m mgr force = .ok (obj, mf)) (hm : ManagedInv m) (hn : NoIgnored ex m) :
    NoIgnored ex mf := by
  obtain ⟨m0, fs, newObj, cmp, hrec, hfs, hcore⟩ := apply_ok_inv h
  have hw0 := reconcileManaged_wf hrec hm.2.1
  have hn0 := reconcileManaged_noIgnored hrec hm.2.1 hn
  obtain ⟨_, _, mm⟩ := updateCore_ok hcore
  intro x hx q hq
  obtain ⟨y, hy, hxy⟩ := (mm x hx).2
  rcases mem_mfSet hy with rfl | hy
  · have hwy : (applyIgnore u ver fs).wf = true := by
      simp only [applyIgnore, hig, Filter.apply]
      exact wf_rdiff _ _ (toFieldSet_wf hfs) hex
    have hq' := (hxy.2.2.2 hwy).2 q hq
    simp only [applyIgnore, hig, Filter.apply] at hq'
    rw [ignoredBy_eq_any]
    exact not_ignored_of_has_rdiff (toFieldSet_wf hfs) hex hq'
  · exact hn0 y hy q ((hxy.2.2.2 (hw0 y hy)).2 q hq)

theorem update_noIgnored {u : Updater} {sc : Schema} {live newObj : TV} {ver : String} {m : Managed} {mgr : String}
    {mf : Managed} {ex : SetTrie}
    (hig : ∀ v, u.ignore v = some (.exclude ex)) (hex : ex.wf = true)
    (h : update u sc live newObj ver m mgr = .ok mf) (hm : ManagedInv m) (hn : NoIgnored ex m) :
    NoIgnored ex mf := by
  have higw : IgnoreWF u := by
    intro v ex' e
    rw [hig v] at e
    cases e
    exact hex
  obtain ⟨m0, ms, cmp, hrec, hcore, hmf⟩ := update_ok_inv h
  have hw0 := reconcileManaged_wf hrec hm.2.1
  have hn0 := reconcileManaged_noIgnored hrec hm.2.1 hn
  obtain ⟨⟨cmp0, hc, rfl⟩, _, mm⟩ := updateCore_ok hcore
  have hnms : ∀ x ∈ ms, ∀ q, x.2.set.has q = true → C19.ignoredBy ex q = false := by
    intro x hx q hq
    obtain ⟨y, hy, hxy⟩ := (mm x hx).2
    exact hn0 y hy q ((hxy.2.2.2 (hw0 y hy)).2 q hq)
  intro x hx q hq
  rw [hmf] at hx
  split at hx
  · exact hnms x (mem_mfDelete hx).1 q hq
  · rcases mem_mfSet hx with rfl | hx
    · have hin := updateInner_wf (cur_wf (mgr := mgr) (ver := ver) hw0 mm)
        (filterCmp_wf higw ver (compareTV_wf hc))
      simp only [updateSet, applyIgnore] at hq
      rw [hig ver] at hq hin
      rw [ignoredBy_eq_any]
      exact not_ignored_of_has_rdiff hin hex hq
    · exact hnms x hx q hq

/-! ### all histories -/

open History in
theorem reachable_managedInv {u : Updater} {sc : Schema} {tr : TypeRef} {st : State} (hig : IgnoreWF u)
    (h : Reachable u sc tr st) : ManagedInv st.managed := by
  induction h with
  | init => exact ⟨List.Pairwise.nil, by simp, by simp⟩
  | step a b _ hstep ih =>
    cases hstep with
    | apply cfg ver mgr force obj mf h => exact apply_managedInv hig h ih
    | update newObj ver mgr mf h => exact update_managedInv hig h ih

open History in
theorem reachable_noIgnored {u : Updater} {sc : Schema} {tr : TypeRef} {st : State} {ex : SetTrie}
    (hig : ∀ v, u.ignore v = some (.exclude ex)) (hex : ex.wf = true)
    (h : Reachable u sc tr st) : NoIgnored ex st.managed := by
  have higw : IgnoreWF u := by
    intro v ex' e
    rw [hig v] at e
    cases e
    exact hex
  induction h with
  | init => intro x hx; simp at hx
  | step a b ha hstep ih =>
    have hinv := reachable_managedInv higw ha
    cases hstep with
    | apply cfg ver mgr force obj mf h => exact apply_noIgnored hig hex h hinv ih
    | update newObj ver mgr mf h => exact update_noIgnored hig hex h hinv ih

end SMD
