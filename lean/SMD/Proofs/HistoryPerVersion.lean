/- helper lemmas for SMD/Properties/C19PerVersion.lean: the ignore configuration is a map from API version
to filter; "every record contains only paths the filter of ITS OWN version lets through" is preserved by
apply and update, for any mix of exclusion sets, include patterns and versions without an entry.

What makes the per-version statement go through (`SMD/Model/Updater.lean`):
* the acting manager's new record is written at the version of the operation and filtered with the filter
  of that version (`applyIgnore u ver`), whatever version its previous record was at;
* every other record keeps its version and only loses paths (`Shrinks`) or is dropped (missing version,
  empty record);
* the reconcile step keeps each record's version and only adds prefixes of members (`Covered`), and both
  "not ignored by an exclusion set" and "compatible with an include pattern" are inherited by prefixes. -/
import SMD.Proofs.HistoryInclude
namespace SMD
open SetTrie

namespace C19

/-- what the filter of a version (`none`: the version has no entry, nothing is ignored) lets through -/
def RespectsFilter : Option Filter → Path → Prop
  | none, _ => True
  | some (.exclude ex), q => ignoredBy ex q = false
  | some (.include pat), q => compatible pat q = true

end C19

/-- a prefix of a path the filter lets through is let through -/
theorem respectsFilter_prefix {f : Option Filter} {q r : Path} (h : C19.RespectsFilter f (q ++ r)) :
    C19.RespectsFilter f q := by
  match f, h with
  | none, _ => trivial
  | some (.exclude ex), h => exact ignoredBy_prefix h
  | some (.include pat), h => exact compatible_prefix pat q r h

/-- every path of every record is let through by the filter of the record's own version -/
def RespectsVersions (u : Updater) (m : Managed) : Prop :=
  ∀ x, x ∈ m → ∀ q, x.2.set.has q = true → C19.RespectsFilter (u.ignore x.2.version) q

/-! ### the reconcile step keeps versions -/

/-- `reconcileManaged_mem` with the version: an entry after the reconcile step is an entry before, at the
same version, possibly with its set reconciled -/
theorem reconcileManaged_mem_version {u : Updater} {sc : Schema} {live : TV} : ∀ {m m0 : Managed},
    reconcileManaged u sc live m = .ok m0 → ∀ x ∈ m0, ∃ y ∈ m, x.2.version = y.2.version ∧
      (x.2 = y.2 ∨ ∃ tr s, reconcileFieldSet sc y.2.set tr = .ok (some s) ∧ x.2.set = s) := by
  intro m
  induction m with
  | nil => intro m0 h; simp only [reconcileManaged, Outcome.ok.injEq] at h; subst h; simp
  | cons y m ih =>
    intro m0 h
    obtain ⟨k, vs⟩ := y
    simp only [reconcileManaged] at h
    have tl : ∀ {m0}, reconcileManaged u sc live m = .ok m0 → ∀ x ∈ m0, ∃ y ∈ (k, vs) :: m,
        x.2.version = y.2.version ∧
        (x.2 = y.2 ∨ ∃ tr s, reconcileFieldSet sc y.2.set tr = .ok (some s) ∧ x.2.set = s) := by
      intro m0 h x hx
      obtain ⟨y, hy, h1⟩ := ih h x hx
      exact ⟨y, by simp [hy], h1⟩
    split at h
    · exact tl h
    · cases h
    · split at h
      · cases h
      · cases h
      · rename_i tv _ _ r hr
        split at h
        · rename_i tail ht
          simp only [Outcome.ok.injEq] at h
          subst h
          intro x hx
          rcases List.mem_cons.1 hx with rfl | hx
          · refine ⟨(k, vs), by simp, ?_⟩
            cases r with
            | none => exact ⟨rfl, .inl rfl⟩
            | some s => exact ⟨rfl, .inr ⟨tv.type, s, hr, rfl⟩⟩
          · exact tl ht x hx
        · rename_i e he
          exact absurd h (he m0)

/-- every member of a record after the reconcile step is a prefix of a member of a record before it at the
same version -/
theorem reconcileManaged_covered_version {u : Updater} {sc : Schema} {live : TV} {m m0 : Managed}
    (h : reconcileManaged u sc live m = .ok m0) (hw : ∀ x ∈ m, x.2.set.wf = true)
    {x : String × VersionedSet} (hx : x ∈ m0) {q : Path} (hq : x.2.set.has q = true) :
    ∃ y ∈ m, x.2.version = y.2.version ∧ Covered y.2.set q := by
  obtain ⟨y, hy, hv, h2 | ⟨tr, s, hs, e⟩⟩ := reconcileManaged_mem_version h x hx
  · exact ⟨y, hy, hv, Covered.of_has (by rw [← h2]; exact hq)⟩
  · exact ⟨y, hy, hv, reconcileFieldSet_covered hs (hw y hy) (by rw [← e]; exact hq)⟩

theorem reconcileManaged_respectsVersions {u : Updater} {sc : Schema} {live : TV} {m m0 : Managed}
    (h : reconcileManaged u sc live m = .ok m0) (hw : ∀ x ∈ m, x.2.set.wf = true)
    (hn : RespectsVersions u m) : RespectsVersions u m0 := by
  intro x hx q hq
  obtain ⟨y, hy, hv, r, hr⟩ := reconcileManaged_covered_version h hw hx hq
  rw [hv]
  exact respectsFilter_prefix (hn y hy _ hr)

/-! ### the acting manager's record: filtered with the filter of the acting version -/

theorem applyIgnore_respects {u : Updater} (hig : IgnoreWF u) (ver : String) {s : SetTrie} (hs : s.wf = true)
    {q : Path} (hq : (applyIgnore u ver s).has q = true) : C19.RespectsFilter (u.ignore ver) q := by
  simp only [applyIgnore] at hq
  cases hf : u.ignore ver with
  | none => trivial
  | some f =>
    simp only [hf] at hq
    cases f with
    | exclude ex =>
      show C19.ignoredBy ex q = false
      rw [ignoredBy_eq_any]
      exact not_ignored_of_has_rdiff hs (hig ver ex hf) hq
    | «include» pat => exact compatible_of_has_include hs hq

/-! ### one step -/

theorem apply_respectsVersions {u : Updater} {sc : Schema} {live cfg : TV} {ver : String} {m : Managed}
    {mgr : String} {force : Bool} {obj : Option TV} {mf : Managed} (hig : IgnoreWF u)
    (h : apply u sc live cfg ver m mgr force = .ok (obj, mf)) (hm : ManagedInv m)
    (hn : RespectsVersions u m) : RespectsVersions u mf := by
  obtain ⟨m0, fs, newObj, cmp, hrec, hfs, hcore⟩ := apply_ok_inv h
  have hw0 := reconcileManaged_wf hrec hm.2.1
  have hn0 := reconcileManaged_respectsVersions hrec hm.2.1 hn
  obtain ⟨_, _, mm⟩ := updateCore_ok hcore
  intro x hx q hq
  obtain ⟨y, hy, hxy⟩ := (mm x hx).2
  rw [hxy.2.1]
  rcases mem_mfSet hy with rfl | hy
  · have hwy : (applyIgnore u ver fs).wf = true := applyIgnore_wf hig ver (toFieldSet_wf hfs)
    exact applyIgnore_respects hig ver (toFieldSet_wf hfs) ((hxy.2.2.2 hwy).2 q hq)
  · exact hn0 y hy q ((hxy.2.2.2 (hw0 y hy)).2 q hq)

theorem update_respectsVersions {u : Updater} {sc : Schema} {live newObj : TV} {ver : String} {m : Managed}
    {mgr : String} {mf : Managed} (hig : IgnoreWF u)
    (h : update u sc live newObj ver m mgr = .ok mf) (hm : ManagedInv m)
    (hn : RespectsVersions u m) : RespectsVersions u mf := by
  obtain ⟨m0, ms, cmp, hrec, hcore, hmf⟩ := update_ok_inv h
  have hw0 := reconcileManaged_wf hrec hm.2.1
  have hn0 := reconcileManaged_respectsVersions hrec hm.2.1 hn
  obtain ⟨⟨cmp0, hc, rfl⟩, _, mm⟩ := updateCore_ok hcore
  have hnms : ∀ x ∈ ms, ∀ q, x.2.set.has q = true → C19.RespectsFilter (u.ignore x.2.version) q := by
    intro x hx q hq
    obtain ⟨y, hy, hxy⟩ := (mm x hx).2
    rw [hxy.2.1]
    exact hn0 y hy q ((hxy.2.2.2 (hw0 y hy)).2 q hq)
  intro x hx q hq
  rw [hmf] at hx
  split at hx
  · exact hnms x (mem_mfDelete hx).1 q hq
  · rcases mem_mfSet hx with rfl | hx
    · have hin := updateInner_wf (cur_wf (mgr := mgr) (ver := ver) hw0 mm)
        (filterCmp_wf hig ver (compareTV_wf hc))
      exact applyIgnore_respects hig ver hin hq
    · exact hnms x hx q hq

/-! ### all histories -/

open History in
theorem reachable_respectsVersions {u : Updater} {sc : Schema} {tr : TypeRef} {st : State} (hig : IgnoreWF u)
    (h : Reachable u sc tr st) : RespectsVersions u st.managed := by
  induction h with
  | init => intro x hx; simp at hx
  | step a b ha hstep ih =>
    have hinv := reachable_managedInv hig ha
    cases hstep with
    | apply cfg ver mgr force obj mf h => exact apply_respectsVersions hig h hinv ih
    | update newObj ver mgr mf h => exact update_respectsVersions hig h hinv ih

end SMD
