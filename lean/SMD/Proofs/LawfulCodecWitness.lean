/-
A key codec that satisfies the hypothesis `SMD.C16.Lawful` of SMD/Properties/C16.lean (`read_emit`): the
concrete codec `Ser.stdCodec` does not (it cannot print the zero path element nor every float, and it
re-sorts key fields), so without a witness `read_emit` could be vacuous.  The codec prints a path element
as an injective, self-delimiting sequence of natural numbers written in unary after a `#`; it reads a key
back by choice (a reader need not be computable for the law to hold).
-/
import SMD.Proofs.ValueOrder
import SMD.Properties.C16
namespace SMD.LawfulWitness
open Ser

/-! ### self-delimiting codes -/

def codeInt : Int → List Nat
  | .ofNat n => [0, n]
  | .negSucc n => [1, n]

theorem codeInt_inj {i j : Int} {r s : List Nat} (h : codeInt i ++ r = codeInt j ++ s) : i = j ∧ r = s := by
  cases i <;> cases j <;> simp_all [codeInt]

def codeStr (s : String) : List Nat := s.toList.length :: s.toList.map Char.toNat

theorem codeStr_inj {a b : String} {r s : List Nat} (h : codeStr a ++ r = codeStr b ++ s) : a = b ∧ r = s := by
  simp only [codeStr, List.cons_append, List.cons.injEq] at h
  obtain ⟨hl, h⟩ := h
  obtain ⟨h1, h2⟩ := List.append_inj h (by simp [hl])
  have h3 : a.toList = b.toList := (List.map_inj_right (fun x y hxy => Char.toNat_inj.1 hxy)).1 h1
  exact ⟨String.toList_inj.1 h3, h2⟩

def codeBool (b : Bool) : Nat := if b then 1 else 0
theorem codeBool_inj {a b : Bool} (h : codeBool a = codeBool b) : a = b := by
  cases a <;> cases b <;> simp_all [codeBool]

mutual
def code : Value → List Nat
  | .null => [0]
  | .bool b => [1, codeBool b]
  | .int i => 2 :: codeInt i
  | .float u z => 3 :: codeBool z :: codeInt u
  | .str s => 4 :: codeStr s
  | .list l => 5 :: l.length :: codeL l
  | .map m => 6 :: m.length :: codeF m
def codeL : List Value → List Nat
  | [] => []
  | v :: vs => code v ++ codeL vs
def codeF : List (String × Value) → List Nat
  | [] => []
  | (k, v) :: rest => codeStr k ++ (code v ++ codeF rest)
end

mutual
theorem code_inj : ∀ (v w : Value) (r s : List Nat), code v ++ r = code w ++ s → v = w ∧ r = s
  | .null, w, r, s, h => by cases w <;> simp_all [code]
  | .bool b, w, r, s, h => by
    cases w <;> simp_all [code]
    exact codeBool_inj h.1
  | .int i, w, r, s, h => by
    cases w <;> simp only [code, List.cons_append, List.cons.injEq] at h <;> try (exact absurd h.1 (by decide))
    obtain ⟨h1, h2⟩ := codeInt_inj h.2
    exact ⟨by rw [h1], h2⟩
  | .float u z, w, r, s, h => by
    cases w <;> simp only [code, List.cons_append, List.cons.injEq] at h <;> try (exact absurd h.1 (by decide))
    obtain ⟨h1, h2⟩ := codeInt_inj h.2.2
    rw [h1, codeBool_inj h.2.1]
    exact ⟨rfl, h2⟩
  | .str a, w, r, s, h => by
    cases w <;> simp only [code, List.cons_append, List.cons.injEq] at h <;> try (exact absurd h.1 (by decide))
    obtain ⟨h1, h2⟩ := codeStr_inj h.2
    exact ⟨by rw [h1], h2⟩
  | .list l, w, r, s, h => by
    cases w <;> simp only [code, List.cons_append, List.cons.injEq] at h <;> try (exact absurd h.1 (by decide))
    obtain ⟨h1, h2⟩ := codeL_inj l _ r s h.2.1 h.2.2
    exact ⟨by rw [h1], h2⟩
  | .map m, w, r, s, h => by
    cases w <;> simp only [code, List.cons_append, List.cons.injEq] at h <;> try (exact absurd h.1 (by decide))
    obtain ⟨h1, h2⟩ := codeF_inj m _ r s h.2.1 h.2.2
    exact ⟨by rw [h1], h2⟩
theorem codeL_inj : ∀ (l l' : List Value) (r s : List Nat), l.length = l'.length →
    codeL l ++ r = codeL l' ++ s → l = l' ∧ r = s
  | [], [], r, s, _, h => ⟨rfl, by simpa [codeL] using h⟩
  | [], _ :: _, _, _, hl, _ => by simp at hl
  | _ :: _, [], _, _, hl, _ => by simp at hl
  | v :: vs, w :: ws, r, s, hl, h => by
    simp only [codeL, List.append_assoc] at h
    obtain ⟨h1, h2⟩ := code_inj v w _ _ h
    obtain ⟨h3, h4⟩ := codeL_inj vs ws r s (by simpa using hl) h2
    exact ⟨by rw [h1, h3], h4⟩
theorem codeF_inj : ∀ (m m' : List (String × Value)) (r s : List Nat), m.length = m'.length →
    codeF m ++ r = codeF m' ++ s → m = m' ∧ r = s
  | [], [], r, s, _, h => ⟨rfl, by simpa [codeF] using h⟩
  | [], _ :: _, _, _, hl, _ => by simp at hl
  | _ :: _, [], _, _, hl, _ => by simp at hl
  | (k, v) :: vs, (k', w) :: ws, r, s, hl, h => by
    simp only [codeF, List.append_assoc] at h
    obtain ⟨h0, h0'⟩ := codeStr_inj h
    obtain ⟨h1, h2⟩ := code_inj v w _ _ h0'
    obtain ⟨h3, h4⟩ := codeF_inj vs ws r s (by simpa using hl) h2
    exact ⟨by rw [h0, h1, h3], h4⟩
end

def codePE : PE → List Nat
  | .field n => 0 :: codeStr n
  | .key k => 1 :: k.length :: codeF k
  | .value v => 2 :: code v
  | .index i => 3 :: codeInt i
  | .invalid => [4]

theorem codePE_inj (a b : PE) (h : codePE a = codePE b) : a = b := by
  cases a <;> cases b <;> simp only [codePE, List.cons.injEq] at h <;> try (exact absurd h.1 (by decide))
  · obtain ⟨h1, _⟩ := codeStr_inj (r := []) (s := []) (by simpa using h.2)
    rw [h1]
  · obtain ⟨h1, _⟩ := codeF_inj _ _ [] [] h.2.1 (by simpa using h.2.2)
    rw [h1]
  · obtain ⟨h1, _⟩ := code_inj _ _ [] [] (by simpa using h.2)
    rw [h1]
  · obtain ⟨h1, _⟩ := codeInt_inj (r := []) (s := []) (by simpa using h.2)
    rw [h1]
  · rfl

/-! ### numbers in unary -/

def unary : List Nat → List Char
  | [] => []
  | n :: ns => List.replicate n 'a' ++ 'b' :: unary ns

theorem block_inj : ∀ (n m : Nat) (r s : List Char),
    List.replicate n 'a' ++ 'b' :: r = List.replicate m 'a' ++ 'b' :: s → n = m ∧ r = s
  | 0, 0, _, _, h => by simpa using h
  | 0, m + 1, _, _, h => by simp [List.replicate_succ] at h
  | n + 1, 0, _, _, h => by simp [List.replicate_succ] at h
  | n + 1, m + 1, r, s, h => by
    simp only [List.replicate_succ, List.cons_append, List.cons.injEq, true_and] at h
    obtain ⟨h1, h2⟩ := block_inj n m r s h
    exact ⟨by rw [h1], h2⟩

theorem unary_inj : ∀ (xs ys : List Nat), unary xs = unary ys → xs = ys
  | [], [], _ => rfl
  | [], m :: ys, h => by
    cases m <;> simp [unary, List.replicate_succ] at h
  | n :: xs, [], h => by
    cases n <;> simp [unary, List.replicate_succ] at h
  | n :: xs, m :: ys, h => by
    simp only [unary] at h
    obtain ⟨h1, h2⟩ := block_inj n m _ _ h
    rw [h1, unary_inj xs ys h2]

/-! ### the codec -/

def encStr (pe : PE) : String := String.ofList ('#' :: unary (codePE pe))

theorem encStr_inj (a b : PE) (h : encStr a = encStr b) : a = b := by
  have h1 := String.ofList_injective h
  simp only [List.cons.injEq, true_and] at h1
  exact codePE_inj a b (unary_inj _ _ h1)

open Classical in
/-- printer: `#` and the code in unary; reader: the element printed as the key, if any -/
noncomputable def codec : KeyCodec :=
  ⟨fun pe => some (encStr pe),
   fun s => if h : ∃ pe, encStr pe = s then .ok (Classical.choose h) else .error .bad⟩

theorem codec_lawful : C16.Lawful codec where
  total := fun pe => ⟨encStr pe, rfl⟩
  roundtrip := by
    intro pe s h
    simp only [codec, Option.some.injEq] at h
    have hex : ∃ pe', encStr pe' = s := ⟨pe, h⟩
    refine ⟨Classical.choose hex, ?_, ?_⟩
    · simp only [codec, dif_pos hex]
    · have h2 := Classical.choose_spec hex
      rw [encStr_inj _ _ (h2.trans h.symm)]
      exact PE.equals_refl pe
  notDot := by
    intro pe h
    simp only [codec, Option.some.injEq] at h
    have h1 : (encStr pe).toList = ".".toList := by rw [h]
    simp [encStr] at h1

end SMD.LawfulWitness
