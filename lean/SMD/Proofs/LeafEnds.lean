/-
Paths that end at a LEAF of the field set other than a scalar: a node whose type has only atomic list /
map members (an atomic list, an atomic map, a scalar-typed node that holds null).  The field set of such a
node is the node itself whatever it holds; nothing lies beneath it in the field set of a canonical object;
removal along a path to it (helper lemmas for `SMD/Proofs/ReapplyNoop.lean`, generalising the scalar-ended
lemmas of `AlongPath.lean`, `AlongFieldSet.lean` and `PruneLaws.lean`).
-/
import SMD.Proofs.PruneLaws
import SMD.Proofs.CompareFieldSet
set_option linter.unusedSimpArgs false
set_option linter.unusedVariables false
set_option linter.unnecessarySimpa false
namespace SMD
open SetTrie NodeLaws CmpX

/-- every list / map member of the type is atomic: each accepted value of the type is a leaf of the
field set -/
def leafType (s : Schema) (tr : TypeRef) : Bool :=
  match s.resolve tr with
  | some a =>
    (match a.list with | some lt => lt.rel == "atomic" | none => true) &&
    (match a.map with | some mt => mt.rel == "atomic" | none => true)
  | none => false

theorem fsV_leafType {s : Schema} {d : Bool} {tr : TypeRef} {v : Value}
    (hv : validateV s d tr v = .ok ()) (h : leafType s tr = true) : fsV s tr v = .ok [[]] := by
  unfold leafType at h
  cases hres : s.resolve tr with
  | none => rw [hres] at h; cases h
  | some a =>
    rw [hres] at h
    simp only [Bool.and_eq_true] at h
    have hk : resolveKind s tr (some v) = some (atomKind (deduceAtom a (some v))) := by
      simp [resolveKind, hres]
    have hl : ∀ t, atomKind (deduceAtom a (some v)) = .list t → (t.rel == "atomic") = true := by
      intro t ht
      have := atomKind_deduce_list_inv a _ t ht
      rw [this] at h; exact h.1
    have hm : ∀ t, atomKind (deduceAtom a (some v)) = .map t → (t.rel == "atomic") = true := by
      intro t ht
      have := atomKind_deduce_map_inv a _ t ht
      rw [this] at h; exact h.2
    cases hK : atomKind (deduceAtom a (some v)) with
    | invalid =>
      rw [hK] at hk
      cases v <;> simp [validateV, hk] at hv
    | scalar t =>
      rw [hK] at hk
      cases v <;> simp [fsV, hk]
    | list t =>
      have := hl t hK
      rw [hK] at hk
      cases v <;> simp [fsV, hk, this]
    | map t =>
      have := hm t hK
      rw [hK] at hk
      cases v <;> simp [fsV, hk, this]


/-! ### nothing lies beneath a leaf in the field set of a canonical object -/

theorem fsFields_pmem_key (s : Schema) (mt : MapT) (k : String) (q : Path) :
    ∀ (m : List (String × Value)) (ps : List Path), fsFields s mt m = .ok ps →
      pmem (PE.field k :: q) ps = true → k ∈ m.map (·.1)
  | [], ps, hfs, hp => by
    simp only [fsFields, Res.ok.injEq] at hfs
    subst hfs; simp at hp
  | (k', v') :: rest, ps, hfs, hp => by
    rw [fsFields_cons] at hfs
    cases h1 : fsV s (fieldType mt k') v' with
    | ok sub1 =>
      cases h2 : fsFields s mt rest with
      | ok tail =>
        simp only [h1, h2, Res.ok.injEq] at hfs
        subst hfs
        simp only [pmem_append, Bool.or_eq_true] at hp
        rcases hp with (hp | hp) | hp
        · simp only [pmem_map_cons_cons, Bool.and_eq_true, PE.equals, beq_iff_eq] at hp
          simp [hp.1]
        · obtain ⟨p', hp', he⟩ := pmem_iff.1 hp
          have := mem_selfPaths hp'
          subst this
          simp only [Path.equals, Bool.and_eq_true, PE.equals, beq_iff_eq] at he
          simp [he.1]
        · have := fsFields_pmem_key s mt k q rest tail h2 hp
          simp only [List.map_cons, List.mem_cons]
          exact .inr this
      | err => simp [h1, h2] at hfs
      | panic => simp [h1, h2] at hfs
    | err => cases h2 : fsFields s mt rest <;> simp [h1, h2] at hfs
    | panic => cases h2 : fsFields s mt rest <;> simp [h1, h2] at hfs

/-- in a map with ascending keys, a member of the field set strictly beneath the entry `k` comes from the
field set of that entry -/
theorem fsFields_pmem_inv (s : Schema) (mt : MapT) (k : String) (c : Value) (q : Path) (hq : q ≠ []) :
    ∀ (m : List (String × Value)) (ps : List Path), m.Pairwise (fun a b => a.1 < b.1) →
      fsFields s mt m = .ok ps → lookupField k m = some c → pmem (PE.field k :: q) ps = true →
      ∃ sub, fsV s (fieldType mt k) c = .ok sub ∧ pmem q sub = true
  | [], ps, _, _, hl, _ => by simp [lookupField] at hl
  | (k', v') :: rest, ps, hasc, hfs, hl, hp => by
    have hasc' := List.pairwise_cons.1 hasc
    rw [fsFields_cons] at hfs
    cases h1 : fsV s (fieldType mt k') v' with
    | ok sub1 =>
      cases h2 : fsFields s mt rest with
      | ok tail =>
        simp only [h1, h2, Res.ok.injEq] at hfs
        subst hfs
        simp only [pmem_append, Bool.or_eq_true] at hp
        simp only [lookupField] at hl
        by_cases hk : k = k'
        · subst hk
          simp only [beq_self_eq_true, if_true, Option.some.injEq] at hl
          subst hl
          rcases hp with (hp | hp) | hp
          · simp only [pmem_map_cons_cons, Bool.and_eq_true] at hp
            exact ⟨sub1, h1, hp.2⟩
          · obtain ⟨p', hp', he⟩ := pmem_iff.1 hp
            have := mem_selfPaths hp'
            subst this
            cases q with
            | nil => exact absurd rfl hq
            | cons a b => simp [Path.equals] at he
          · exfalso
            have := fsFields_pmem_key s mt k q rest tail h2 hp
            obtain ⟨x, hx, he⟩ := List.mem_map.1 this
            have hlt := hasc'.1 x hx
            simp only [] at hlt
            rw [he] at hlt
            exact absurd hlt (by grind)
        · have hne : (k == k') = false := by simpa using hk
          simp only [hne, Bool.false_eq_true, if_false] at hl
          rcases hp with (hp | hp) | hp
          · simp only [pmem_map_cons_cons, Bool.and_eq_true, PE.equals, beq_iff_eq] at hp
            exact absurd hp.1.symm hk
          · obtain ⟨p', hp', he⟩ := pmem_iff.1 hp
            have := mem_selfPaths hp'
            subst this
            simp only [Path.equals, Bool.and_eq_true, PE.equals, beq_iff_eq] at he
            exact absurd he.1.symm hk
          · exact fsFields_pmem_inv s mt k c q hq rest tail hasc'.2 h2 hl hp
      | err => simp [h1, h2] at hfs
      | panic => simp [h1, h2] at hfs
    | err => cases h2 : fsFields s mt rest <;> simp [h1, h2] at hfs
    | panic => cases h2 : fsFields s mt rest <;> simp [h1, h2] at hfs

/-- a member of the field set strictly beneath an item of a list comes from the field set of an item with
that element -/
theorem fsItems_pmem_inv (s : Schema) (t : ListT) (dups : List PE) (pe : PE) (q : Path) (hq : q ≠ []) :
    ∀ (l : List Value) (ps : List Path), fsItems s t dups l = .ok ps → pmem (pe :: q) ps = true →
      ∃ y ∈ l, PE.equals (peOf s t y) pe = true ∧ ∃ sub, fsV s t.elementType y = .ok sub ∧ pmem q sub = true
  | [], ps, hfs, hp => by
    simp only [fsItems, Res.ok.injEq] at hfs
    subst hfs; simp at hp
  | c :: rest, ps, hfs, hp => by
    rw [fsItems_cons] at hfs
    split at hfs
    · obtain ⟨y, hy, h⟩ := fsItems_pmem_inv s t dups pe q hq rest ps hfs hp
      exact ⟨y, List.mem_cons_of_mem _ hy, h⟩
    · cases h1 : fsV s t.elementType c with
      | ok sub1 =>
        cases h2 : fsItems s t dups rest with
        | ok tail =>
          simp only [h1, h2, Res.ok.injEq] at hfs
          subst hfs
          simp only [pmem_append, Bool.or_eq_true] at hp
          rcases hp with (hp | hp) | hp
          · simp only [pmem_map_cons_cons, Bool.and_eq_true] at hp
            exact ⟨c, List.mem_cons_self, hp.1, sub1, h1, hp.2⟩
          · exfalso
            cases q with
            | nil => exact absurd rfl hq
            | cons a b => simp [Path.equals] at hp
          · obtain ⟨y, hy, h⟩ := fsItems_pmem_inv s t dups pe q hq rest tail h2 hp
            exact ⟨y, List.mem_cons_of_mem _ hy, h⟩
        | err => simp [h1, h2] at hfs
        | panic => simp [h1, h2] at hfs
      | err => cases h2 : fsItems s t dups rest <;> simp [h1, h2] at hfs
      | panic => cases h2 : fsItems s t dups rest <;> simp [h1, h2] at hfs


namespace NodeLaws

/-- the field set of a canonical object holds nothing strictly beneath a path that ends at a leaf -/
theorem Along.fs_none_beneath {s : Schema} {tr : TypeRef} {w : Value} {p : Path} {trx : TypeRef} {x : Value}
    (h : Along s tr w p trx x) : canon w = true → fsV s trx x = .ok [[]] →
    ∀ ps, fsV s tr w = .ok ps → ∀ r, r ≠ [] → pmem (p ++ r) ps = false := by
  induction h with
  | nil tr v =>
    intro _ hleaf ps hps r hr
    rw [hleaf] at hps
    cases hps
    cases r with
    | nil => exact absurd rfl hr
    | cons a b => simp [Path.equals]
  | @field tr a mt m k c rest tr' x hres ha hat hl _ ih =>
    intro hc hleaf ps hps r hr
    rw [fsV_map_nonatomic m hres ha hat] at hps
    simp only [canon, Bool.and_eq_true] at hc
    have hcc : canon c = true := canonFields_mem m hc.2 (k, c) (mem_of_lookupField hl)
    cases hp : pmem ((PE.field k :: rest) ++ r) ps with
    | false => rfl
    | true =>
      exfalso
      have hq : rest ++ r ≠ [] := by simp [hr]
      obtain ⟨sub, hsub, hmem⟩ := fsFields_pmem_inv s mt k c (rest ++ r) hq m ps (keysAsc_pairwise m hc.1) hps hl
        (by simpa using hp)
      rw [ih hcc hleaf sub hsub r hr] at hmem
      cases hmem
  | @item tr a lt l1 c l2 pe rest tr' x hres ha hrel hnd hhit h1 h2 _ ih =>
    intro hc hleaf ps hps r hr
    have hat : lt.rel ≠ "atomic" := by rw [hrel]; decide
    rw [fsV_list_nonatomic _ hres ha hat] at hps
    simp only [canon] at hc
    have hcc : canon c = true := canonList_mem _ hc c (by simp)
    cases hfi : fsItems s lt (dupMarks s lt [] [] (l1 ++ c :: l2)) (l1 ++ c :: l2) with
    | ok items =>
      simp only [hfi, Res.ok.injEq] at hps
      subst hps
      cases hp : pmem ((pe :: rest) ++ r) ((dupMarks s lt [] [] (l1 ++ c :: l2)).map (fun pe => [pe]) ++ items) with
      | false => rfl
      | true =>
        exfalso
        have hq : rest ++ r ≠ [] := by simp [hr]
        simp only [List.cons_append, pmem_append, Bool.or_eq_true] at hp
        rcases hp with hp | hp
        · obtain ⟨p', hp', he⟩ := pmem_iff.1 hp
          obtain ⟨d, _, rfl⟩ := List.mem_map.1 hp'
          cases hrr : rest ++ r with
          | nil => exact hq hrr
          | cons a b => rw [hrr] at he; simp [Path.equals] at he
        · obtain ⟨y, hy, hye, sub, hsub, hmem⟩ := fsItems_pmem_inv s lt _ pe (rest ++ r) hq _ items hfi hp
          have hyc : PE.equals (peOf s lt y) (peOf s lt c) = true :=
            PE.equals_trans hye (PE.equals_symm_of (peOf_equals_of_hit hhit))
          have hy' : y = c := by
            rcases List.mem_append.1 hy with hy | hy
            · rw [peOf_not_equals_of_nohit hhit (h1 y hy)] at hyc; cases hyc
            · rcases List.mem_cons.1 hy with hy | hy
              · exact hy
              · rw [peOf_not_equals_of_nohit hhit (h2 y hy)] at hyc; cases hyc
          subst hy'
          rw [ih hcc hleaf sub hsub r hr] at hmem
          cases hmem
    | err => simp [hfi] at hps
    | panic => simp [hfi] at hps

/-! ### removal along a path to a leaf -/

/-- removing a set that contains no prefix of the path and no key field of an item on the way keeps
the path, when the node at its end is a scalar or the set has no member beneath it -/
theorem removeV_along' {s : Schema} {tr : TypeRef} {v : Value} {p : Path} {trx : TypeRef} {x : Value}
    (hal : Along s tr v p trx x) : ∀ (S : SetTrie), validateV s true tr v = .ok () →
    keysScalar s tr v = true → S.wf = true → p ≠ [] →
    (x.isScalar = true ∨ ∀ r, r ≠ [] → S.has (p ++ r) = false) →
    (∀ r ∈ C15.prefixes p, S.has r = false) → (∀ r ∈ keyPaths p, S.has r = false) →
    ∃ v', removeV s false tr S v = some v' ∧ Along s tr v' p trx x := by
  induction hal with
  | nil tr v => intro S _ _ _ hne; exact absurd rfl hne
  | @field tr a mt m k c rest tr' x hres ha hat hl hal' ih =>
    intro S hv hks hw _ hxs hpre hkey
    obtain ⟨a', mt', hres', ha', hvf⟩ := validateV_map_inv hv
    rw [hres] at hres'; cases hres'
    rw [ha] at ha'; cases ha'
    have hS1 : S.has [PE.field k] = false := hpre _ (by simp [C15.prefixes])
    have hv1 := validateFields_mem s true mt m hvf (k, c) (mem_of_lookupField hl)
    have hks1 := keysScalar_map_child s tr a mt m hres ha hat hks k c hl
    have hlook : ∃ c', lookupField k (removeFields s false mt S m) = some c' ∧
        Along s (fieldType mt k) c' rest tr' x := by
      rw [lookupField_removeFields, if_neg (by simp [hS1])]
      by_cases h2 : (S.withPrefix (PE.field k)).isEmpty = false
      · rw [if_pos h2, hl]
        by_cases hr : rest = []
        · subst hr
          cases hal'
          rcases hxs with hxs | hnb
          · refine ⟨c, ?_, Along.nil _ _⟩
            simp [removeV_scalar hv1 hxs, outToValue]
          · exfalso
            obtain ⟨q, hq⟩ := exists_has_of_not_isEmpty _ (wf_withPrefix _ S hw) h2
            have hqn := has_true_ne_nil hq
            rw [has_withPrefix_cons _ S _ hqn] at hq
            have := hnb q hqn
            simp only [List.cons_append, List.nil_append] at this
            rw [this] at hq; cases hq
        · obtain ⟨c', hr1, hr2⟩ := ih (S.withPrefix (PE.field k)) hv1 hks1 (wf_withPrefix _ S hw) hr
            (hxs.imp id (fun hnb r hr' => by
              rw [has_withPrefix_cons _ S _ (by simp [hr'])]
              exact hnb r hr'))
            (fun r hr' => by
              rw [has_withPrefix_cons _ S _ (prefixes_ne_nil hr')]
              exact hpre _ (prefixes_cons_mem hr'))
            (fun r hr' => by
              rw [has_withPrefix_cons _ S _ (keyPaths_ne_nil _ r hr')]
              exact hkey _ (keyPaths_cons_mem hr'))
          exact ⟨c', by simp [hr1, outToValue], hr2⟩
      · rw [if_neg h2]; exact ⟨c, hl, hal'⟩
    obtain ⟨c', hl', hal''⟩ := hlook
    have hfs : removeFields s false mt S m ≠ [] := by
      intro h; rw [h] at hl'; simp [lookupField] at hl'
    have hmne : m ≠ [] := by rintro rfl; simp [lookupField] at hl
    exact ⟨_, removeV_map_some S m hres ha hat hfs hmne, Along.field hres ha hat hl' hal''⟩
  | @item tr a lt l1 c l2 pe rest tr' x hres ha hrel hnd hhit h1 h2 hal' ih =>
    intro S hv hks hw _ hxs hpre hkey
    obtain ⟨a', lt', hres', ha', hitems⟩ := validateV_list_inv hv
    rw [hres] at hres'; cases hres'
    rw [ha] at ha'; cases ha'
    have hat : lt.rel ≠ "atomic" := by rw [hrel]; decide
    have hall := validateItems_assoc s true lt hrel _ [] 0 hitems
    have hksl := keysScalar_list_items s tr a lt _ hres ha hat hks
    obtain ⟨hpe, _, id, hid, heq⟩ := hitOf_inv hhit
    have hcl : c ∈ l1 ++ c :: l2 := by simp
    obtain ⟨_, hvc⟩ := hall c hcl
    obtain ⟨hksc, hks1⟩ := hksl c hcl
    have hpeq : peOf s lt c = id := peOf_of_identity hrel hid
    have hS1 : S.has [pe] = false := hpre _ (by simp [C15.prefixes])
    have hnot : S.has [id] = false := by rw [has_congr_head heq [] S]; exact hS1
    -- no key field of the item is removed
    have hkf : ∀ k ∈ lt.keys, (S.withPrefix id).has [PE.field k] = false := by
      intro k hk
      obtain ⟨fl, rfl, hmem⟩ := identity_keys_mem hid k hk
      obtain ⟨fl', rfl, hnames⟩ := key_of_equals heq
      rw [has_withPrefix_cons _ S _ (by simp), has_congr_head heq _ S]
      apply hkey
      simp only [keyPaths, List.mem_append, List.mem_map]
      left
      rw [hnames] at hmem
      obtain ⟨kv, hkv, rfl⟩ := List.mem_map.1 hmem
      exact ⟨kv, hkv, rfl⟩
    have himg : ∃ c', remItem s lt S c = [c'] ∧ hitOf s lt pe c' = true ∧
        Along s lt.elementType c' rest tr' x := by
      unfold remItem
      rw [hpeq, if_neg (by simp [hnot])]
      by_cases h2' : (S.withPrefix id).isEmpty = false
      · rw [if_pos h2']
        by_cases hr : rest = []
        · subst hr
          cases hal'
          rcases hxs with hxs | hnb
          · refine ⟨c, ?_, hhit, Along.nil _ _⟩
            simp [removeV_scalar hvc hxs, outToValue]
          · exfalso
            obtain ⟨q, hq⟩ := exists_has_of_not_isEmpty _ (wf_withPrefix _ S hw) h2'
            have hqn := has_true_ne_nil hq
            rw [has_withPrefix_cons _ S _ hqn, has_congr_head heq q S] at hq
            have := hnb q hqn
            simp only [List.cons_append, List.nil_append] at this
            rw [this] at hq; cases hq
        · obtain ⟨c', hr1, hr2⟩ := ih (S.withPrefix id) hvc hks1 (wf_withPrefix _ S hw) hr
            (hxs.imp _root_.id (fun hnb r hr' => by
              rw [has_withPrefix_cons _ S _ (by simp [hr']), has_congr_head heq _ S]
              exact hnb r hr'))
            (fun r hr' => by
              rw [has_withPrefix_cons _ S _ (prefixes_ne_nil hr'), has_congr_head heq r S]
              exact hpre _ (prefixes_cons_mem hr'))
            (fun r hr' => by
              rw [has_withPrefix_cons _ S _ (keyPaths_ne_nil _ r hr'), has_congr_head heq r S]
              exact hkey _ (keyPaths_cons_mem hr'))
          refine ⟨c', by simp [hr1, outToValue], ?_, hr2⟩
          rw [hitOf_of_identity hpe hrel (identity_removeV_kept hid hvc hksc hkf hr1)]
          exact heq
      · rw [if_neg h2']; exact ⟨c, rfl, hhit, hal'⟩
    obtain ⟨c', hc1, hc2, hc3⟩ := himg
    have hres' : removeItems s false lt S (l1 ++ c :: l2) =
        removeItems s false lt S l1 ++ c' :: removeItems s false lt S l2 := by
      rw [removeItems_eq_flatMap, removeItems_eq_flatMap, removeItems_eq_flatMap,
        List.flatMap_append, List.flatMap_cons, hc1]
      rfl
    have hsib : ∀ (l0 : List Value), (∀ y ∈ l0, y ∈ l1 ++ c :: l2) → (∀ y ∈ l0, hitOf s lt pe y = false) →
        ∀ y' ∈ removeItems s false lt S l0, hitOf s lt pe y' = false := by
      intro l0 hsub hno y' hy'
      rw [removeItems_eq_flatMap] at hy'
      obtain ⟨y, hy, hy''⟩ := List.mem_flatMap.1 hy'
      cases hh : hitOf s lt pe y' with
      | false => rfl
      | true =>
        have := hit_of_mem_remItem_nodefault hrel hnd (hall y (hsub y hy)).2 (hksl y (hsub y hy)).1 hy'' hh
        rw [hno y hy] at this; cases this
    have hfs : removeItems s false lt S (l1 ++ c :: l2) ≠ [] := by rw [hres']; simp
    refine ⟨_, removeV_list_some S _ hres ha hat hfs (by simp), ?_⟩
    rw [hres']
    exact Along.item hres ha hrel hnd hc2
      (hsib l1 (fun y hy => List.mem_append_left _ hy) h1)
      (hsib l2 (fun y hy => List.mem_append_right _ (List.mem_cons_of_mem _ hy)) h2) hc3

/-! ### the key fields on the way -/

/-- the last element of the path is a field name -/
def endsWithField : Path → Bool
  | [] => false
  | [.field _] => true
  | [_] => false
  | _ :: b :: rest => endsWithField (b :: rest)

/-- the key fields of the keyed items on the way to a scalar, or to a node addressed by a field name, are
scalar nodes of the object -/
theorem Along.keyPath' {s : Schema} {tr : TypeRef} {v : Value} {p : Path} {trx : TypeRef} {x : Value}
    (h : Along s tr v p trx x) : (x.isScalar = true ∨ endsWithField p = true) → validateV s true tr v = .ok () →
    keysScalar s tr v = true →
    ∀ q ∈ keyPaths p, ∃ trq y, Along s tr v q trq y ∧ y.isScalar = true := by
  induction h with
  | nil tr v => intro _ _ _ q hq; cases hq
  | @field tr a mt m k c rest tr' x hres ha hat hl hal ih =>
    intro hxs hv hks q hq
    obtain ⟨a', mt', hres', ha', hvf⟩ := validateV_map_inv hv
    rw [hres] at hres'; cases hres'
    rw [ha] at ha'; cases ha'
    simp only [keyPaths, List.nil_append, List.mem_map] at hq
    obtain ⟨q', hq', rfl⟩ := hq
    have hxs' : x.isScalar = true ∨ endsWithField rest = true := by
      rcases hxs with h | h
      · exact .inl h
      · cases rest with
        | nil => cases hq'
        | cons b r => exact .inr (by simpa [endsWithField] using h)
    obtain ⟨trq, y, h1, h2⟩ := ih hxs' (validateFields_mem s true mt m hvf (k, c) (mem_of_lookupField hl))
      (keysScalar_map_child s tr a mt m hres ha hat hks k c hl) q' hq'
    exact ⟨trq, y, Along.field hres ha hat hl h1, h2⟩
  | @item tr a lt l1 c l2 pe rest tr' x hres ha hrel hnd hhit h1 h2 hal ih =>
    intro hxs hv hks q hq
    obtain ⟨a', lt', hres', ha', hitems⟩ := validateV_list_inv hv
    rw [hres] at hres'; cases hres'
    rw [ha] at ha'; cases ha'
    have hat : lt.rel ≠ "atomic" := by rw [hrel]; decide
    have hall := validateItems_assoc s true lt hrel _ [] 0 hitems
    have hksl := keysScalar_list_items s tr a lt _ hres ha hat hks
    have hcl : c ∈ l1 ++ c :: l2 := by simp
    obtain ⟨_, hvc⟩ := hall c hcl
    obtain ⟨hksc, hks1⟩ := hksl c hcl
    simp only [keyPaths, List.mem_append, List.mem_map] at hq
    rcases hq with hq | ⟨q', hq', rfl⟩
    · obtain ⟨_, _, id, hid, heq⟩ := hitOf_inv hhit
      cases pe with
      | key fl =>
        simp only [List.mem_map] at hq
        obtain ⟨kv, hkv, rfl⟩ := hq
        -- the identity of the item is a key with the same names
        have hidk : ∃ fl0, id = PE.key fl0 := by
          cases id <;> simp [PE.equals] at heq
          exact ⟨_, rfl⟩
        obtain ⟨fl0, rfl⟩ := hidk
        obtain ⟨fl1, h1', hnames⟩ := key_of_equals heq
        cases h1'
        have hke : lt.keys.isEmpty = false := by
          cases hke : lt.keys.isEmpty with
          | false => rfl
          | true => have := (identity_set s lt hke c _ hid).2; cases this
        obtain ⟨m, rfl⟩ := identity_not_map s lt hke c _ hid
        obtain ⟨hkeys, v1, hl1⟩ := identity_key_lookup hnd hid kv.1 (by rw [hnames]; exact List.mem_map_of_mem hkv)
        have hv1s : v1.isScalar = true := itemKeysScalar_lookup _ _ _ _ hksc hkeys hl1
        -- the item is a non-atomic map: the path goes on below it
        cases hal with
        | nil => simp [Value.isScalar, endsWithField] at hxs
        | @field _ a2 mt2 _ k2 c2 rest2 _ _ hres2 ha2 hat2 hl2 hal2 =>
          exact ⟨_, v1, Along.item hres ha hrel hnd hhit h1 h2 (Along.field hres2 ha2 hat2 hl1 (Along.nil _ _)), hv1s⟩
      | _ => simp at hq
    · have hxs' : x.isScalar = true ∨ endsWithField rest = true := by
        rcases hxs with h | h
        · exact .inl h
        · cases rest with
          | nil => cases hq'
          | cons b r => exact .inr (by simpa [endsWithField] using h)
      obtain ⟨trq, y, h3, h4⟩ := ih hxs' hvc hks1 q' hq'
      exact ⟨trq, y, Along.item hres ha hrel hnd hhit h1 h2 h3, h4⟩

/-- removing from a validated object a set that avoids the prefixes of a path to a leaf, the key fields of
the items on the way and everything beneath the leaf keeps the leaf -/
theorem removeItemsTV_keeps_leaf' {s : Schema} {tv : TV} {p : Path} {trx : TypeRef} {x : Value} {S : SetTrie}
    (hal : Along s tv.type tv.value p trx x) (hv : validateV s true tv.type tv.value = .ok ())
    (hks : keysScalar s tv.type tv.value = true) (hw : S.wf = true) (hp : p ≠ [])
    (hend : x.isScalar = true ∨ ∀ r, r ≠ [] → S.has (p ++ r) = false)
    (hpre : ∀ r ∈ C15.prefixes p, S.has r = false) (hkey : ∀ r ∈ keyPaths p, S.has r = false) :
    Along s tv.type (removeItemsTV s tv S).value p trx x := by
  obtain ⟨val, typ⟩ := tv
  simp only at hal hv hks ⊢
  obtain ⟨v', h1, h2⟩ := removeV_along' hal S hv hks hw hp hend hpre hkey
  simp only [removeItemsTV, h1]
  exact h2

end NodeLaws

open NodeLaws SetTrie in
/-- the closed field set of a validated object contains every prefix of a path to a leaf and every key
field of an item on the way -/
theorem closed_fieldset_has' {sc : Schema} {tv : TV} {p : Path} {trx : TypeRef} {x : Value} {fs : SetTrie}
    (hal : Along sc tv.type tv.value p trx x) (hv : validateV sc true tv.type tv.value = .ok ())
    (hks : keysScalar sc tv.type tv.value = true) (hleaf : fsV sc trx x = .ok [[]])
    (hend : x.isScalar = true ∨ endsWithField p = true)
    (hfs : toFieldSet sc tv = .ok fs) :
    (∀ q ∈ C15.prefixes p, (fs.ensureNamed sc tv.type).has q = true) ∧
    (∀ q ∈ keyPaths p, (fs.ensureNamed sc tv.type).has q = true) := by
  obtain ⟨ps, hps, rfl⟩ := toFieldSet_inv hfs
  constructor
  · exact hal.closed_has hps hleaf
  · intro q hq
    obtain ⟨trq, y, halq, hys⟩ := hal.keyPath' hend hv hks q hq
    exact halq.closed_has hps (fsV_scalar (halq.valid hv) hys) q
      (self_mem_prefixes q (keyPaths_ne_nil p q hq))

open NodeLaws SetTrie in
/-- the closed field set of what is left after a removal that avoids the path, the key fields on the way
and everything beneath the leaf contains every prefix of the path and every key field on the way -/
theorem closed_fieldset_after_removal' {sc : Schema} {tv : TV} {p : Path} {trx : TypeRef} {x : Value}
    {S fs : SetTrie}
    (hal : Along sc tv.type tv.value p trx x) (hv : validateV sc true tv.type tv.value = .ok ())
    (hks : keysScalar sc tv.type tv.value = true) (hw : S.wf = true) (hp : p ≠ [])
    (hleaf : fsV sc trx x = .ok [[]])
    (hend1 : x.isScalar = true ∨ ∀ r, r ≠ [] → S.has (p ++ r) = false)
    (hend2 : x.isScalar = true ∨ endsWithField p = true)
    (hpre : ∀ r ∈ C15.prefixes p, S.has r = false) (hkey : ∀ r ∈ keyPaths p, S.has r = false)
    (hfs : toFieldSet sc (removeItemsTV sc tv S) = .ok fs) :
    (∀ q ∈ C15.prefixes p, (fs.ensureNamed sc tv.type).has q = true) ∧
    (∀ q ∈ keyPaths p, (fs.ensureNamed sc tv.type).has q = true) := by
  obtain ⟨ps, hps, rfl⟩ := toFieldSet_inv hfs
  have hty : (removeItemsTV sc tv S).type = tv.type := rfl
  rw [hty] at hps
  constructor
  · have hal2 := removeItemsTV_keeps_leaf' hal hv hks hw hp hend1 hpre hkey
    exact hal2.closed_has hps hleaf
  · intro q hq
    obtain ⟨trq, y, halq, hys⟩ := hal.keyPath' hend2 hv hks q hq
    obtain ⟨hr1, hr2⟩ := req_of_keyPath p q hq
    have hal2 := removeItemsTV_keeps_leaf halq hv hks hw hys
      (fun r hr => by rcases hr1 r hr with h | h; exact hpre r h; exact hkey r h)
      (fun r hr => hkey r (hr2 r hr))
    exact hal2.closed_has hps (fsV_scalar (halq.valid hv) hys) q
      (self_mem_prefixes q (keyPaths_ne_nil p q hq))


/-! ### the type at the end of a path -/

/-- the type of the node the path designates is a leaf type -/
def leafTypeAt (s : Schema) : TypeRef → Value → Path → Bool
  | tr, _, [] => leafType s tr
  | tr, v, pe :: rest =>
    match Nodes.childAt s tr v pe with
    | some (tr', v') => leafTypeAt s tr' v' rest
    | none => false

namespace NodeLaws

theorem Along.leafTypeAt_eq {s : Schema} {tr : TypeRef} {v : Value} {p : Path} {tr' : TypeRef} {x : Value}
    (h : Along s tr v p tr' x) : leafTypeAt s tr v p = leafType s tr' := by
  induction h with
  | nil tr v => rfl
  | field hres ha hat hl _ ih =>
    rw [leafTypeAt, childAt_map _ _ hres ha, hl]; exact ih
  | item hres ha hrel hnd hhit h1 h2 _ ih =>
    obtain ⟨hpe, _, _, _, _⟩ := hitOf_inv hhit
    rw [leafTypeAt, childAt_list _ _ hres ha hpe, itemAt_append_first s _ _ _ _ _ h1 hhit]
    exact ih

/-- the type at the end of a path depends on the schema and the path only -/
theorem Along.type_unique {s : Schema} {tr : TypeRef} {v : Value} {p : Path} {t1 : TypeRef} {x1 : Value}
    (h : Along s tr v p t1 x1) : ∀ {v' : Value} {t2 : TypeRef} {x2 : Value}, Along s tr v' p t2 x2 → t1 = t2 := by
  induction h with
  | nil tr v => intro v' t2 x2 h2; cases h2; rfl
  | @field tr a mt m k c rest tr' x hres ha hat hl _ ih =>
    intro v' t2 x2 h2
    cases h2 with
    | field hres' ha' _ _ hrest =>
      rw [hres] at hres'; cases hres'
      rw [ha] at ha'; cases ha'
      exact ih hrest
    | item hres' ha' hrel' _ hhit' _ _ _ =>
      exfalso
      obtain ⟨_, _, id, hid, he⟩ := hitOf_inv hhit'
      rw [identity_not_field _ _ _ id _ hid] at he
      cases he
  | @item tr a lt l1 c l2 pe rest tr' x hres ha hrel hnd hhit h1 h2 _ ih =>
    intro v' t2 x2 h2'
    cases h2' with
    | field hres' ha' _ _ hrest =>
      exfalso
      obtain ⟨_, _, id, hid, he⟩ := hitOf_inv hhit
      rw [identity_not_field _ _ _ id _ hid] at he
      cases he
    | item hres' ha' hrel' _ hhit' _ _ hrest =>
      rw [hres] at hres'; cases hres'
      rw [ha] at ha'; cases ha'
      exact ih hrest

end NodeLaws


open NodeLaws SetTrie in
/-- the closed field set of a canonical object holds nothing strictly beneath a path that ends at a leaf -/
theorem en_none_beneath {sc : Schema} {tv : TV} {p : Path} {trx : TypeRef} {x : Value} {ms : SetTrie}
    (hal : Along sc tv.type tv.value p trx x) (hc : canon tv.value = true) (hleaf : fsV sc trx x = .ok [[]])
    (hms : toFieldSet sc tv = .ok ms) :
    ∀ r, r ≠ [] → (ms.ensureNamed sc tv.type).has (p ++ r) = false := by
  intro r hr
  obtain ⟨ps, hps, rfl⟩ := toFieldSet_inv hms
  have hnb := hal.fs_none_beneath hc hleaf ps hps
  cases h : ((SetTrie.ofPaths ps).ensureNamed sc tv.type).has (p ++ r) with
  | false => rfl
  | true =>
    exfalso
    rcases (has_ensureNamed sc tv.type _ _ (wf_ofPaths ps)).1 h with h1 | ⟨_, _, _, _, r', hr', h1⟩
    · rw [has_ofPaths_pmem, hnb r hr] at h1
      simp at h1
    · rw [List.append_assoc, has_ofPaths_pmem, hnb (r ++ r') (by simp [hr])] at h1
      simp at h1

end SMD
