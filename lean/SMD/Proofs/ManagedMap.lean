/-
The association-list operations on `Managed` (`mfGet`, `mfSet`, `mfDelete`, `filter`): lookup,
membership and "entries of one key" lemmas.  The first entry of a key is the record `mfGet` returns;
no lemma here needs the list to be sorted unless it says so.
-/
import SMD.Model.Updater
namespace SMD

/-- the entries of `m` stored under key `k`, in order -/
abbrev entriesOf (m : Managed) (k : String) : Managed := m.filter (·.1 == k)

/-- strictly ascending keys: the representation invariant of `Managed` -/
abbrev SortedManaged (m : Managed) : Prop := m.Pairwise (fun a b => a.1 < b.1)

theorem mfGet_eq_head (m : Managed) (k : String) : mfGet m k = ((entriesOf m k).head?).map (·.2) := by
  simp [mfGet, entriesOf, List.head?_filter]

theorem mem_of_mfGet {m : Managed} {k : String} {v : VersionedSet} (h : mfGet m k = some v) :
    (k, v) ∈ m := by
  simp only [mfGet, Option.map_eq_some_iff] at h
  obtain ⟨x, hx, rfl⟩ := h
  have h1 := List.mem_of_find?_eq_some hx
  have h2 := List.find?_some hx
  simp only [beq_iff_eq] at h2
  subst h2
  exact h1

theorem mfGet_eq_none_iff {m : Managed} {k : String} : mfGet m k = none ↔ ∀ x ∈ m, x.1 ≠ k := by
  simp [mfGet, List.find?_eq_none]

/-- with pairwise distinct keys the record of a key is its only entry -/
theorem mfGet_of_mem_nodup {m : Managed} (hn : (m.map (·.1)).Nodup) {k : String} {v : VersionedSet}
    (h : (k, v) ∈ m) : mfGet m k = some v := by
  induction m with
  | nil => simp at h
  | cons x m ih =>
    simp only [List.map_cons, List.nodup_cons, List.mem_map, not_exists, not_and] at hn
    rcases List.mem_cons.1 h with h | h
    · subst h; simp [mfGet]
    · have hne : x.1 ≠ k := fun e => hn.1 (k, v) h (by simp [e])
      have := ih hn.2 h
      simp only [mfGet] at this ⊢
      rw [List.find?_cons_of_neg (by simpa using hne)]
      exact this

theorem sortedManaged_nodup {m : Managed} (h : SortedManaged m) : (m.map (·.1)).Nodup := by
  rw [List.nodup_iff_pairwise_ne, List.pairwise_map]
  exact h.imp (fun {a b} hab => by grind)

/-! ### `mfSet` -/

theorem mem_mfSet_ins {k : String} {v : VersionedSet} {m : Managed} {x : String × VersionedSet}
    (h : x ∈ mfSet.ins k v m) : x = (k, v) ∨ x ∈ m := by
  induction m with
  | nil => simp [mfSet.ins] at h; simp [h]
  | cons y m ih =>
    obtain ⟨k', v'⟩ := y
    simp only [mfSet.ins] at h
    split at h
    · rcases List.mem_cons.1 h with h | h <;> simp [h]
    · split at h
      · rcases List.mem_cons.1 h with h | h
        · simp [h]
        · exact .inr h
      · rcases List.mem_cons.1 h with h | h
        · simp [h]
        · rcases ih h with h | h <;> simp [h]

theorem mem_mfSet {m : Managed} {k : String} {v : VersionedSet} {x : String × VersionedSet}
    (h : x ∈ mfSet m k v) : x = (k, v) ∨ x ∈ m := mem_mfSet_ins h

/-- entries of other keys are untouched by `mfSet` -/
theorem entriesOf_mfSet_ne {k k' : String} (hk : k' ≠ k) (v : VersionedSet) (m : Managed) :
    entriesOf (mfSet m k v) k' = entriesOf m k' := by
  simp only [entriesOf, mfSet]
  induction m with
  | nil => simp [mfSet.ins, Ne.symm hk]
  | cons y m ih =>
    obtain ⟨k0, v0⟩ := y
    simp only [mfSet.ins]
    split
    · rename_i h
      simp only [beq_iff_eq] at h
      subst h
      simp [Ne.symm hk]
    · split
      · simp [List.filter_cons (x := (k, v)), Ne.symm hk]
      · simp only [List.filter_cons, ih]

/-- the entry written by `mfSet` is the first one of its key -/
theorem entriesOf_mfSet_self (k : String) (v : VersionedSet) (m : Managed) :
    ∃ rest, entriesOf (mfSet m k v) k = (k, v) :: rest := by
  simp only [entriesOf, mfSet]
  induction m with
  | nil => exact ⟨[], by simp [mfSet.ins]⟩
  | cons y m ih =>
    obtain ⟨k0, v0⟩ := y
    simp only [mfSet.ins]
    split
    · exact ⟨_, by simp; rfl⟩
    · split
      · exact ⟨_, by simp [List.filter_cons (x := (k, v))]; rfl⟩
      · rename_i h1 h2
        obtain ⟨rest, hr⟩ := ih
        refine ⟨rest, ?_⟩
        have : (k0 == k) = false := by
          simp only [beq_iff_eq] at h1
          simpa using fun e => h1 e.symm
        simp [this, hr]

/-- …and the only one when the list is sorted -/
theorem entriesOf_mfSet_self_sorted (k : String) (v : VersionedSet) {m : Managed} (hm : SortedManaged m) :
    entriesOf (mfSet m k v) k = [(k, v)] := by
  simp only [entriesOf, mfSet]
  induction m with
  | nil => simp [mfSet.ins]
  | cons y m ih =>
    obtain ⟨k0, v0⟩ := y
    have hm' := List.pairwise_cons.1 hm
    simp only [mfSet.ins]
    split
    · rename_i h
      simp only [beq_iff_eq] at h
      subst h
      simp only [List.filter_cons, beq_self_eq_true, if_true, List.cons.injEq, true_and,
        List.filter_eq_nil_iff, beq_iff_eq]
      intro a ha
      have := hm'.1 a ha
      grind
    · split
      · rename_i h1 h2
        simp only [List.filter_cons (x := (k, v)), beq_self_eq_true, if_true, List.cons.injEq, true_and,
          List.filter_eq_nil_iff, beq_iff_eq]
        intro a ha
        rcases List.mem_cons.1 ha with rfl | ha
        · grind
        · have := hm'.1 a ha
          grind
      · rename_i h1 h2
        have : (k0 == k) = false := by
          simp only [beq_iff_eq] at h1
          simpa using fun e => h1 e.symm
        simp only [List.filter_cons, this]
        exact ih hm'.2

theorem mfGet_mfSet_self (m : Managed) (k : String) (v : VersionedSet) : mfGet (mfSet m k v) k = some v := by
  obtain ⟨rest, h⟩ := entriesOf_mfSet_self k v m
  rw [mfGet_eq_head, h]; rfl

theorem mfGet_mfSet_ne {k k' : String} (hk : k' ≠ k) (m : Managed) (v : VersionedSet) :
    mfGet (mfSet m k v) k' = mfGet m k' := by
  rw [mfGet_eq_head, mfGet_eq_head, entriesOf_mfSet_ne hk]

/-! ### `mfDelete` -/

theorem mem_mfDelete {m : Managed} {k : String} {x : String × VersionedSet} (h : x ∈ mfDelete m k) :
    x ∈ m ∧ x.1 ≠ k := by
  simpa [mfDelete] using h

theorem entriesOf_mfDelete_ne {k k' : String} (hk : k' ≠ k) (m : Managed) :
    entriesOf (mfDelete m k) k' = entriesOf m k' := by
  simp only [entriesOf, mfDelete, List.filter_filter]
  apply List.filter_congr
  intro x _
  by_cases h : x.1 = k' <;> simp [h, hk]

theorem mfGet_mfDelete_self (m : Managed) (k : String) : mfGet (mfDelete m k) k = none := by
  rw [mfGet_eq_none_iff]
  intro x hx
  exact (mem_mfDelete hx).2

theorem mfGet_mfDelete_ne {k k' : String} (hk : k' ≠ k) (m : Managed) :
    mfGet (mfDelete m k) k' = mfGet m k' := by
  rw [mfGet_eq_head, mfGet_eq_head, entriesOf_mfDelete_ne hk]

/-! ### dropping the empty records -/

theorem entriesOf_filter (p : String × VersionedSet → Bool) (m : Managed) (k : String) :
    entriesOf (m.filter p) k = (entriesOf m k).filter p := by
  simp only [entriesOf, List.filter_filter]
  apply List.filter_congr
  intro x _
  exact Bool.and_comm _ _

/-- with pairwise distinct keys a key has at most one entry -/
theorem entriesOf_of_nodup {m : Managed} (hn : (m.map (·.1)).Nodup) (k : String) :
    entriesOf m k = match mfGet m k with | some v => [(k, v)] | none => [] := by
  cases hg : mfGet m k with
  | none =>
    simp only [entriesOf, List.filter_eq_nil_iff, beq_iff_eq]
    exact fun x hx => mfGet_eq_none_iff.1 hg x hx
  | some v =>
    simp only []
    induction m with
    | nil => simp [mfGet] at hg
    | cons x m ih =>
      simp only [List.map_cons, List.nodup_cons, List.mem_map, not_exists, not_and] at hn
      by_cases hx : x.1 = k
      · have hv : x = (k, v) := by
          simp only [mfGet, List.find?_cons, hx, beq_self_eq_true, Option.map_some, Option.some.injEq] at hg
          rw [← hg, ← hx]
        subst hv
        simp only [entriesOf, List.filter_cons, beq_self_eq_true, if_true, List.cons.injEq, true_and,
          List.filter_eq_nil_iff, beq_iff_eq]
        intro y hy e
        exact hn.1 y hy e
      · have hx' : (x.1 == k) = false := by simpa using hx
        have hg' : mfGet m k = some v := by
          simpa only [mfGet, List.find?_cons, hx'] using hg
        simp only [entriesOf, List.filter_cons, hx']
        exact ih hn.2 hg'

end SMD
