/-
Correctness of `SetMatcher.Merge` (`SetMatcher.merge` / `mergeAll` / `new`, `SMD/Model/Filter.lean`), helper
lemmas for `SMD/Properties/C19Merge.lean`:

* `SetMatcher.WF`: the invariant of matcher trees built by `NewSetMatcher` from members with pairwise
  different paths (every non-wildcard node has its members strictly ascending for `PathElementMatcher.Less`);
* `wf_ofPrefix`, `wf_new`, `wf_merge`, `wf_mergeAll`: `PrefixMatcher` and `NewSetMatcher` (on members with
  pairwise different paths) satisfy it, `Merge` preserves it when given fuel `≥ sizeM` of its second
  argument, which is what `mergeAll` passes;
* `merged_eq`, `sel_merged`: the member slice built by the loop of `Merge`, in closed form;
* `treesCompat`: the reference semantics of a LIST of matcher trees (no merging involved);
  `treesCompat_single` (one well-formed tree: it is `isCompatible`), `treesCompat_merge` (merging the first
  two trees of the list does not change it), `isCompatible_mergeAll`;
* `patsCompat`: the reference semantics of a list of prefix patterns; `treesCompat_ofPrefix`.
-/
import SMD.Model.Filter
import SMD.Proofs.PEOrder
import SMD.Proofs.FilterAlgebra
namespace SMD

/-! ### `PEMatcher` as a linear preorder (for `grind`) -/
namespace PEMOrd

scoped instance instLEPEM : LE PEMatcher := ⟨fun a b => PEMatcher.less b a = false⟩
scoped instance instLTPEM : LT PEMatcher := ⟨fun a b => PEMatcher.less a b = true⟩

theorem le_def (a b : PEMatcher) : (a ≤ b) = (PEMatcher.less b a = false) := rfl
theorem lt_def (a b : PEMatcher) : (a < b) = (PEMatcher.less a b = true) := rfl

/-- trichotomy of the matcher order -/
theorem tri (a b : PEMatcher) :
    (PEMatcher.less a b = true ∧ PEMatcher.compare a b = .lt ∧ PEMatcher.less b a = false) ∨
    (PEMatcher.less a b = false ∧ PEMatcher.compare a b = .eq ∧ PEMatcher.less b a = false) ∨
    (PEMatcher.less a b = false ∧ PEMatcher.compare a b = .gt ∧ PEMatcher.less b a = true) := by
  have h1 := PEMatcher.less_iff a b
  have h2 := PEMatcher.less_iff b a
  have h3 := PEMatcher.compare_swap a b
  cases h : PEMatcher.compare a b <;> simp_all

theorem le_iff_ne_gt (a b : PEMatcher) : a ≤ b ↔ PEMatcher.compare a b ≠ .gt := by
  rw [le_def]; rcases tri a b with h | h | h <;> simp [h]

scoped instance : Std.IsLinearPreorder PEMatcher where
  le_refl a := by
    rw [le_def]
    rcases tri a a with ⟨h1, _, h2⟩ | ⟨h1, _, _⟩ | ⟨h1, _, h2⟩
    · exact h2
    · exact h1
    · exact h1
  le_trans a b c h1 h2 := by
    rw [le_iff_ne_gt] at *
    exact PEMatcher.compare_le_trans h1 h2
  le_total a b := by
    simp only [le_def]
    rcases tri a b with h | h | h <;> simp [h]

scoped instance : Std.LawfulOrderLT PEMatcher where
  lt_iff a b := by
    simp only [le_def, lt_def]
    rcases tri a b with h | h | h <;> simp [h]

theorem less_eq_lt (a b : PEMatcher) : (PEMatcher.less a b = true) = (a < b) := rfl

theorem compare_eq_eq (a b : PEMatcher) : (PEMatcher.compare a b = .eq) = (a ≤ b ∧ b ≤ a) := by
  simp only [le_def]
  rcases tri a b with h | h | h <;> simp [h]

theorem compare_beq_eq (a b : PEMatcher) : ((PEMatcher.compare a b == .eq) = true) = (a ≤ b ∧ b ≤ a) := by
  rw [← compare_eq_eq]; simp

end PEMOrd

open PEMOrd

namespace SetMatcher

attribute [local grind =] less_eq_lt compare_eq_eq compare_beq_eq

abbrev Members := List (PEMatcher × SetMatcher)

theorem members_mk (w : Bool) (ms : Members) : (mk w ms).members = ms := rfl
theorem wildcard_mk (w : Bool) (ms : Members) : (mk w ms).wildcard = w := rfl

/-- strictly ascending paths (`PathElementMatcher.Less`) -/
abbrev SortedM (ms : Members) : Prop := ms.Pairwise (fun a b => a.1 < b.1)

/-- pairwise different paths (`PathElementMatcher.Compare ≠ 0`) -/
abbrev DistinctM (ms : Members) : Prop := ms.Pairwise (fun a b => PEMatcher.compare a.1 b.1 ≠ .eq)

theorem distinct_of_sorted {ms : Members} (h : SortedM ms) : DistinctM ms :=
  h.imp (by intro a b hab; grind)

theorem distinct_iff_keys (l : Members) :
    DistinctM l ↔ (l.map (fun x => x.1)).Pairwise (fun a b => PEMatcher.compare a b ≠ .eq) := by
  rw [List.pairwise_map]

/-! ### `sortMembers` -/

theorem mem_sortInsert {x z : PEMatcher × SetMatcher} {l : Members} :
    z ∈ sortInsert x l ↔ z = x ∨ z ∈ l := by
  induction l with
  | nil => simp [sortInsert]
  | cons y ys ih =>
    simp only [sortInsert]
    split
    · simp only [List.mem_cons, ih]; grind
    · simp only [List.mem_cons]

theorem perm_sortInsert (x : PEMatcher × SetMatcher) (l : Members) : (sortInsert x l).Perm (x :: l) := by
  induction l with
  | nil => simp [sortInsert]
  | cons y ys ih =>
    simp only [sortInsert]
    split
    · exact (List.Perm.cons y ih).trans (List.Perm.swap x y ys)
    · exact List.Perm.refl _

theorem sortMembers_cons (x : PEMatcher × SetMatcher) (l : Members) :
    sortMembers (x :: l) = sortInsert x (sortMembers l) := rfl

theorem perm_sortMembers (l : Members) : (sortMembers l).Perm l := by
  induction l with
  | nil => exact List.Perm.refl _
  | cons x l ih =>
    rw [sortMembers_cons]
    exact (perm_sortInsert x _).trans (List.Perm.cons x ih)

theorem sorted_sortInsert {x : PEMatcher × SetMatcher} {l : Members} (hl : SortedM l)
    (hx : ∀ y ∈ l, PEMatcher.compare x.1 y.1 ≠ .eq) : SortedM (sortInsert x l) := by
  induction l with
  | nil => simp [sortInsert]
  | cons y ys ih =>
    have hl' := List.pairwise_cons.1 hl
    simp only [sortInsert]
    split
    · rename_i hlt
      refine List.pairwise_cons.2 ⟨?_, ih hl'.2 (fun z hz => hx z (List.mem_cons_of_mem _ hz))⟩
      intro z hz
      rcases mem_sortInsert.1 hz with rfl | hz
      · exact hlt
      · exact hl'.1 z hz
    · rename_i hlt
      refine List.pairwise_cons.2 ⟨?_, hl⟩
      intro z hz
      have hy := hx y (by simp)
      rcases List.mem_cons.1 hz with rfl | hz
      · grind
      · have := hl'.1 z hz; grind

theorem sorted_sortMembers {l : Members} (hl : DistinctM l) : SortedM (sortMembers l) := by
  induction l with
  | nil => exact List.Pairwise.nil
  | cons x l ih =>
    have hl' := List.pairwise_cons.1 hl
    rw [sortMembers_cons]
    apply sorted_sortInsert (ih hl'.2)
    intro y hy
    exact hl'.1 y ((perm_sortMembers l).mem_iff.1 hy)

/-! ### the lookup and the loop of `Merge` -/

/-- the path of the member compares equal to `p` -/
abbrev eqKey (p : PEMatcher) (x : PEMatcher × SetMatcher) : Bool := PEMatcher.compare x.1 p == .eq

theorem findIdx_add (p : PEMatcher) : ∀ (l : Members) (i k : Nat),
    findIdx p l (i + k) = (findIdx p l i).map (· + k) := by
  intro l
  induction l with
  | nil => intro i k; rfl
  | cons y l ih =>
    intro i k
    obtain ⟨q, c⟩ := y
    simp only [findIdx]
    split
    · rfl
    · rw [show i + k + 1 = (i + 1) + k by omega, ih]

theorem findIdx_cons (p q : PEMatcher) (c : SetMatcher) (rest : Members) :
    findIdx p ((q, c) :: rest) 0 =
      if PEMatcher.compare q p == .eq then some 0 else (findIdx p rest 0).map (· + 1) := by
  rw [findIdx]
  have := findIdx_add p rest 0 1
  simp only [Nat.zero_add] at this
  rw [this]

/-- one iteration of the loop of `Merge` over the members of the right operand: `m1` is the member
slice of the left operand (used for the lookup only), `acc` the slice being built -/
def mergeStep (fuel : Nat) (m1 acc : Members) (m : PEMatcher × SetMatcher) : Members :=
  match findIdx m.1 m1 0 with
  | some i =>
    (match acc[i]? with
     | some (p, child) => acc.set i (p, merge fuel child m.2)
     | none => acc)
  | none => acc ++ [m]

theorem merge_succ (fuel : Nat) (w1 w2 : Bool) (m1 m2 : Members) :
    merge (fuel + 1) (mk w1 m1) (mk w2 m2) =
      if w1 || w2 then new true [] else new false (m2.foldl (mergeStep fuel m1) m1) := by
  rw [merge]; rfl

/-- what the loop does to one member of the left operand when it meets the member `m` of the right one -/
def mergeInto (fuel : Nat) (m x : PEMatcher × SetMatcher) : PEMatcher × SetMatcher :=
  if eqKey m.1 x then (x.1, merge fuel x.2 m.2) else x

theorem mergeInto_fst (fuel : Nat) (m x : PEMatcher × SetMatcher) : (mergeInto fuel m x).1 = x.1 := by
  unfold mergeInto; split <;> rfl

theorem mergeStep_cons_eq (fuel : Nat) {q : PEMatcher} (c : SetMatcher) (m1 acc : Members)
    (a m : PEMatcher × SetMatcher) (h : (PEMatcher.compare q m.1 == .eq) = true) :
    mergeStep fuel ((q, c) :: m1) (a :: acc) m = (a.1, merge fuel a.2 m.2) :: acc := by
  simp [mergeStep, findIdx_cons, h]

theorem mergeStep_cons_ne (fuel : Nat) {q : PEMatcher} (c : SetMatcher) (m1 acc : Members)
    (a m : PEMatcher × SetMatcher) (h : ¬ (PEMatcher.compare q m.1 == .eq) = true) :
    mergeStep fuel ((q, c) :: m1) (a :: acc) m = a :: mergeStep fuel m1 acc m := by
  simp only [mergeStep, findIdx_cons, h]
  cases findIdx m.1 m1 0 with
  | none => simp
  | some i =>
    simp only [Option.map_some, Bool.false_eq_true, if_false, List.getElem?_cons_succ]
    cases hacc : acc[i]? with
    | none => rfl
    | some pc => simp

theorem mergeStep_eq (fuel : Nat) (m : PEMatcher × SetMatcher) : ∀ (m1 A B : Members),
    A.map (·.1) = m1.map (·.1) → DistinctM m1 →
    mergeStep fuel m1 (A ++ B) m =
      if m1.any (eqKey m.1) then A.map (mergeInto fuel m) ++ B else A ++ B ++ [m] := by
  intro m1
  induction m1 with
  | nil =>
    intro A B hk _
    have : A = [] := by simpa using hk
    subst this
    simp [mergeStep, findIdx]
  | cons y m1 ih =>
    intro A B hk hd
    obtain ⟨q, c⟩ := y
    cases A with
    | nil => simp at hk
    | cons a A =>
      simp only [List.map_cons, List.cons.injEq] at hk
      have hd' := List.pairwise_cons.1 hd
      rw [List.cons_append]
      by_cases h : (PEMatcher.compare q m.1 == .eq) = true
      · rw [mergeStep_cons_eq fuel c m1 _ a m h]
        have hany : ((q, c) :: m1).any (eqKey m.1) = true := by simp [eqKey, h]
        have ha : mergeInto fuel m a = (a.1, merge fuel a.2 m.2) := by
          simp only [mergeInto, eqKey, hk.1, h, if_true]
        have hA : A.map (mergeInto fuel m) = A := by
          conv => rhs; rw [← List.map_id A]
          apply List.map_congr_left
          intro x hx
          have : x.1 ∈ m1.map (·.1) := by rw [← hk.2]; exact List.mem_map_of_mem hx
          obtain ⟨z, hz, hzx⟩ := List.mem_map.1 this
          have := hd'.1 z hz
          simp only [mergeInto, eqKey, id]
          rw [if_neg]
          grind
        rw [hany, if_pos rfl, List.map_cons, ha, hA, List.cons_append]
      · rw [mergeStep_cons_ne fuel c m1 _ a m h, ih A B hk.2 hd'.2]
        have ha : mergeInto fuel m a = a := by
          simp [mergeInto, eqKey, hk.1, h]
        simp only [List.any_cons, eqKey, h, Bool.false_or, List.map_cons, ha]
        split <;> simp

theorem foldl_mergeStep (fuel : Nat) {m1 : Members} (hd : DistinctM m1) : ∀ (m2 A B : Members),
    A.map (·.1) = m1.map (·.1) →
    m2.foldl (mergeStep fuel m1) (A ++ B) =
      A.map (fun x => m2.foldl (fun x m => mergeInto fuel m x) x) ++
        (B ++ m2.filter (fun m => !m1.any (eqKey m.1))) := by
  intro m2
  induction m2 with
  | nil => intro A B _; simp
  | cons m m2 ih =>
    intro A B hk
    rw [List.foldl_cons, mergeStep_eq fuel m m1 A B hk hd]
    by_cases hany : m1.any (eqKey m.1) = true
    · rw [if_pos hany, ih _ B (by rw [← hk, List.map_map]; apply List.map_congr_left; intro x _; exact mergeInto_fst fuel m x)]
      simp [hany, List.map_map, Function.comp_def]
    · rw [if_neg hany, List.append_assoc, ih A (B ++ [m]) hk]
      have hA : ∀ x ∈ A, mergeInto fuel m x = x := by
        intro x hx
        have : x.1 ∈ m1.map (·.1) := by rw [← hk]; exact List.mem_map_of_mem hx
        obtain ⟨z, hz, hzx⟩ := List.mem_map.1 this
        have hz' : eqKey m.1 z = false := by
          have h0 : m1.any (eqKey m.1) = false := (Bool.not_eq_true _).mp hany
          have := List.any_eq_false.1 h0 z hz
          simpa using this
        simp only [mergeInto, eqKey, ← hzx] at hz' ⊢
        rw [hz']; rfl
      have hmap : A.map (fun x => (m :: m2).foldl (fun x m => mergeInto fuel m x) x) =
          A.map (fun x => m2.foldl (fun x m => mergeInto fuel m x) x) := by
        apply List.map_congr_left
        intro x hx
        rw [List.foldl_cons, hA x hx]
      rw [hmap]
      simp [hany]

theorem foldl_mergeInto_fst (fuel : Nat) : ∀ (m2 : Members) (x : PEMatcher × SetMatcher),
    (m2.foldl (fun x m => mergeInto fuel m x) x).1 = x.1 := by
  intro m2
  induction m2 with
  | nil => intro x; rfl
  | cons m m2 ih => intro x; rw [List.foldl_cons, ih, mergeInto_fst]

theorem foldl_mergeInto (fuel : Nat) : ∀ (m2 : Members), DistinctM m2 → ∀ (x : PEMatcher × SetMatcher),
    m2.foldl (fun x m => mergeInto fuel m x) x =
      match m2.find? (fun m => PEMatcher.compare x.1 m.1 == .eq) with
      | some m => (x.1, merge fuel x.2 m.2)
      | none => x := by
  intro m2
  induction m2 with
  | nil => intro _ x; rfl
  | cons m m2 ih =>
    intro hd x
    have hd' := List.pairwise_cons.1 hd
    rw [List.foldl_cons, ih hd'.2]
    by_cases h : (PEMatcher.compare x.1 m.1 == .eq) = true
    · have hx : mergeInto fuel m x = (x.1, merge fuel x.2 m.2) := by simp only [mergeInto, eqKey, h, if_true]
      have hnone : m2.find? (fun m' => PEMatcher.compare x.1 m'.1 == .eq) = none := by
        rw [List.find?_eq_none]
        intro z hz
        have := hd'.1 z hz
        grind
      rw [hx, List.find?_cons_of_pos (by exact h)]
      simp only [hnone]
    · have hx : mergeInto fuel m x = x := by simp [mergeInto, eqKey, h]
      rw [hx, List.find?_cons_of_neg (by exact h)]

theorem merged_eq (fuel : Nat) {m1 : Members} (hd : DistinctM m1) (m2 : Members) :
    m2.foldl (mergeStep fuel m1) m1 =
      m1.map (fun x => m2.foldl (fun x m => mergeInto fuel m x) x) ++
        m2.filter (fun m => !m1.any (eqKey m.1)) := by
  have := foldl_mergeStep fuel hd m2 m1 [] rfl
  simpa using this

/-! ### selecting the members whose path lies in one class of the matcher order -/

/-- a test on matcher paths that is true on exactly one class of `PathElementMatcher.Compare = 0`
(or on none): "is a wildcard", "is specific and its element equals `pe`" -/
structure ClassPred (f : PEMatcher → Bool) : Prop where
  congr : ∀ a b, PEMatcher.compare a b = .eq → f a = f b
  uniq : ∀ a b, f a = true → f b = true → PEMatcher.compare a b = .eq

/-- the children of the members whose path passes the test -/
def sel (f : PEMatcher → Bool) (ms : Members) : List SetMatcher :=
  (ms.filter (fun pm => f pm.1)).map (·.2)

theorem sel_append (f : PEMatcher → Bool) (a b : Members) : sel f (a ++ b) = sel f a ++ sel f b := by
  simp [sel]

theorem filter_of_find {f : PEMatcher → Bool} (hf : ClassPred f) {ms : Members} (hd : DistinctM ms) :
    ms.filter (fun pm => f pm.1) = (ms.find? (fun pm => f pm.1)).toList := by
  induction ms with
  | nil => rfl
  | cons x ms ih =>
    have hd' := List.pairwise_cons.1 hd
    by_cases h : f x.1 = true
    · rw [List.filter_cons_of_pos (by exact h), List.find?_cons_of_pos (by exact h)]
      have : ms.filter (fun pm => f pm.1) = [] := by
        rw [List.filter_eq_nil_iff]
        intro y hy hfy
        exact hd'.1 y hy (hf.uniq _ _ h hfy)
      rw [this]; rfl
    · rw [List.filter_cons_of_neg (by exact h), List.find?_cons_of_neg (by exact h), ih hd'.2]

theorem sel_of_find {f : PEMatcher → Bool} (hf : ClassPred f) {ms : Members} (hd : DistinctM ms) :
    sel f ms = ((ms.find? (fun pm => f pm.1)).toList).map (·.2) := by
  rw [sel, filter_of_find hf hd]

/-- the merged member slice, seen through one class of paths -/
theorem sel_merged (fuel : Nat) {f : PEMatcher → Bool} (hf : ClassPred f) {m1 m2 : Members}
    (h1 : DistinctM m1) (h2 : DistinctM m2) :
    sel f (m2.foldl (mergeStep fuel m1) m1) =
      match m1.find? (fun pm => f pm.1), m2.find? (fun pm => f pm.1) with
      | some x, some y => [merge fuel x.2 y.2]
      | some x, none => [x.2]
      | none, some y => [y.2]
      | none, none => [] := by
  rw [merged_eq fuel h1, sel_append]
  have e1 : sel f (m1.map (fun x => m2.foldl (fun x m => mergeInto fuel m x) x)) =
      ((m1.filter (fun pm => f pm.1)).map (fun x => m2.foldl (fun x m => mergeInto fuel m x) x)).map (·.2) := by
    rw [sel, List.filter_map]
    congr 2
    apply List.filter_congr
    intro x _
    simp only [Function.comp_def, foldl_mergeInto_fst]
  have e2 : sel f (m2.filter (fun m => !m1.any (eqKey m.1))) =
      ((m2.filter (fun pm => f pm.1)).filter (fun m => !m1.any (eqKey m.1))).map (·.2) := by
    rw [sel, List.filter_filter, List.filter_filter]
    congr 2
    funext x
    rw [Bool.and_comm]
  rw [e1, e2, filter_of_find hf h1, filter_of_find hf h2]
  cases hx : m1.find? (fun pm => f pm.1) with
  | none =>
    cases hy : m2.find? (fun pm => f pm.1) with
    | none => rfl
    | some y =>
      have hfy : f y.1 = true := by simpa using List.find?_some hy
      have : (!m1.any (eqKey y.1)) = true := by
        rw [Bool.not_eq_true', List.any_eq_false]
        intro z hz hzy
        have hfz : f z.1 = false := by
          have := List.find?_eq_none.1 hx z hz
          simpa using this
        have := hf.congr z.1 y.1 (by simpa [eqKey] using hzy)
        rw [hfz, hfy] at this
        cases this
      simp [this]
  | some x =>
    have hfx : f x.1 = true := by simpa using List.find?_some hx
    have hxm : x ∈ m1 := List.mem_of_find?_eq_some hx
    have hfind : m2.find? (fun m => PEMatcher.compare x.1 m.1 == .eq) = m2.find? (fun pm => f pm.1) := by
      congr 1
      funext m
      rw [Bool.eq_iff_iff]
      constructor
      · intro h
        rw [← hf.congr x.1 m.1 (by simpa using h)]; exact hfx
      · intro h
        simpa using hf.uniq _ _ hfx h
    simp only [Option.toList, List.map_cons, List.map_nil, foldl_mergeInto fuel m2 h2 x, hfind]
    cases hy : m2.find? (fun pm => f pm.1) with
    | none => rfl
    | some y =>
      have hfy : f y.1 = true := by simpa using List.find?_some hy
      have : (!m1.any (eqKey y.1)) = false := by
        rw [Bool.not_eq_false', List.any_eq_true]
        exact ⟨x, hxm, by simpa [eqKey] using hf.uniq _ _ hfx hfy⟩
      simp [this]

theorem sel_perm {f : PEMatcher → Bool} {l l' : Members} (h : l.Perm l') : (sel f l).Perm (sel f l') :=
  (h.filter _).map _

theorem sel_sortMembers_of_le_one {f : PEMatcher → Bool} {l : Members} (h : (sel f l).length ≤ 1) :
    sel f (sortMembers l) = sel f l := by
  have hp := sel_perm (f := f) (perm_sortMembers l)
  match hs : sel f l, h with
  | [], _ => rw [hs] at hp; exact List.perm_nil.1 hp
  | [c], _ => rw [hs] at hp; exact List.perm_singleton.1 hp

/-! ### well-formed matcher trees -/

/-- the invariant of matcher trees: every node that is not a wildcard set has its members strictly
ascending for `PathElementMatcher.Less` (so: pairwise different paths, the wildcard member first), and
their children are well formed. This is what `NewSetMatcher` builds from members with pairwise
different paths. -/
inductive WF : SetMatcher → Prop
  | wild (ms : Members) : WF (mk true ms)
  | node (ms : Members) : SortedM ms → (∀ pm ∈ ms, WF pm.2) → WF (mk false ms)

theorem wf_any : WF any := WF.wild []

theorem wf_ofPrefix : ∀ parts : List PEMatcher, WF (ofPrefix parts)
  | [] => wf_any
  | p :: rest => by
    rw [ofPrefix]
    refine WF.node _ (List.pairwise_singleton _ _) ?_
    intro pm hpm
    rw [List.mem_singleton.1 hpm]
    exact wf_ofPrefix rest

theorem wf_node_iff (ms : Members) : WF (mk false ms) ↔ SortedM ms ∧ ∀ pm ∈ ms, WF pm.2 := by
  constructor
  · intro h; cases h with | node _ h1 h2 => exact ⟨h1, h2⟩
  · intro h; exact WF.node _ h.1 h.2

/-- `NewSetMatcher` on members with pairwise different paths and well-formed children -/
theorem wf_new (w : Bool) {ms : Members} (hd : DistinctM ms) (hc : ∀ pm ∈ ms, WF pm.2) : WF (new w ms) := by
  cases w with
  | true => exact WF.wild _
  | false =>
    rw [new, wf_node_iff]
    exact ⟨sorted_sortMembers hd, fun pm hpm => hc pm ((perm_sortMembers ms).mem_iff.1 hpm)⟩

theorem sizeM_pos (m : SetMatcher) : 0 < sizeM m := by
  cases m; rw [sizeM]; omega

theorem sizeM_le_sizeL {pm : PEMatcher × SetMatcher} {ms : Members} (h : pm ∈ ms) :
    sizeM pm.2 ≤ sizeM.sizeL ms := by
  induction ms with
  | nil => cases h
  | cons y ms ih =>
    obtain ⟨q, c⟩ := y
    rw [sizeM.sizeL]
    rcases List.mem_cons.1 h with rfl | h
    · simp only; omega
    · have := ih h; omega

theorem sizeM_child_lt {pm : PEMatcher × SetMatcher} {w : Bool} {ms : Members} (h : pm ∈ ms) :
    sizeM pm.2 < sizeM (mk w ms) := by
  have := sizeM_le_sizeL h
  rw [sizeM]; omega

/-- `Merge` keeps matcher trees well formed (given fuel for the right operand) -/
theorem wf_merge : ∀ (fuel : Nat) (a b : SetMatcher), WF a → WF b → sizeM b ≤ fuel → WF (merge fuel a b) := by
  intro fuel
  induction fuel with
  | zero => intro a b _ _ h; have := sizeM_pos b; omega
  | succ fuel ih =>
    intro a b ha hb hsz
    obtain ⟨w1, m1⟩ := a
    obtain ⟨w2, m2⟩ := b
    rw [merge_succ]
    split
    · exact WF.wild []
    · rename_i hw
      simp only [Bool.or_eq_true, not_or, Bool.not_eq_true] at hw
      obtain ⟨rfl, rfl⟩ := hw
      rw [wf_node_iff] at ha hb
      have hd1 := distinct_of_sorted ha.1
      have hd2 := distinct_of_sorted hb.1
      have hmem : ∀ pm ∈ m2.foldl (mergeStep fuel m1) m1, WF pm.2 := by
        rw [merged_eq fuel hd1]
        intro pm hpm
        rcases List.mem_append.1 hpm with h | h
        · obtain ⟨x, hx, rfl⟩ := List.mem_map.1 h
          rw [foldl_mergeInto fuel m2 hd2 x]
          split
          · rename_i y hy
            have hym := List.mem_of_find?_eq_some hy
            have := sizeM_child_lt (w := false) hym
            exact ih _ _ (ha.2 x hx) (hb.2 y hym) (by omega)
          · exact ha.2 x hx
        · exact hb.2 pm (List.mem_filter.1 h).1
      have hdist : DistinctM (m2.foldl (mergeStep fuel m1) m1) := by
        rw [merged_eq fuel hd1]
        refine List.pairwise_append.2 ⟨?_, hd2.sublist List.filter_sublist, ?_⟩
        · refine (distinct_iff_keys _).2 ?_
          rw [List.map_map]
          have : ((fun x : PEMatcher × SetMatcher => x.1) ∘
              fun x => m2.foldl (fun x m => mergeInto fuel m x) x) = fun x => x.1 := by
            funext x; exact foldl_mergeInto_fst fuel m2 x
          rw [this]
          exact (distinct_iff_keys _).1 hd1
        · intro x hx y hy
          obtain ⟨x0, hx0, rfl⟩ := List.mem_map.1 hx
          rw [foldl_mergeInto_fst]
          have hy' := (List.mem_filter.1 hy).2
          rw [Bool.not_eq_true', List.any_eq_false] at hy'
          have := hy' x0 hx0
          simpa [eqKey] using this
      rw [new, wf_node_iff]
      refine ⟨sorted_sortMembers hdist, ?_⟩
      intro pm hpm
      exact hmem pm ((perm_sortMembers _).mem_iff.1 hpm)

theorem wf_mergeAll_fold : ∀ (rest : List SetMatcher) (m : SetMatcher), WF m → (∀ x ∈ rest, WF x) →
    WF (rest.foldl (fun acc x => merge (sizeM acc + sizeM x) acc x) m) := by
  intro rest
  induction rest with
  | nil => intro m hm _; exact hm
  | cons x rest ih =>
    intro m hm hr
    rw [List.foldl_cons]
    exact ih _ (wf_merge _ _ _ hm (hr x (by simp)) (by omega)) (fun y hy => hr y (List.mem_cons_of_mem _ hy))

theorem wf_mergeAll (ms : List SetMatcher) (h : ∀ m ∈ ms, WF m) : WF (mergeAll ms) := by
  cases ms with
  | nil => exact wf_any
  | cons m rest =>
    exact wf_mergeAll_fold rest m (h m (by simp)) (fun y hy => h y (List.mem_cons_of_mem _ hy))

/-! ### the reference semantics of a list of matcher trees -/

/-- the path of the member is a wildcard -/
def isW (p : PEMatcher) : Bool := p.wildcard
/-- the path of the member is specific and its element equals `pe` -/
def isS (pe : PE) (p : PEMatcher) : Bool := !p.wildcard && PE.equals p.pe pe

theorem classPred_isW : ClassPred isW where
  congr a b h := by
    rcases a with ⟨wa, pa⟩; rcases b with ⟨wb, pb⟩
    cases wa <;> cases wb <;> simp_all [PEMatcher.compare, isW]
  uniq a b ha hb := by
    simp only [isW] at ha hb
    simp [PEMatcher.compare, ha, hb]

theorem classPred_isS (pe : PE) : ClassPred (isS pe) where
  congr a b h := by
    rcases a with ⟨wa, pa⟩; rcases b with ⟨wb, pb⟩
    cases wa <;> cases wb <;> simp_all [PEMatcher.compare, isS]
    exact PE.equals_congr_left ((PE.compare_eq_iff _ _).1 h) pe
  uniq a b ha hb := by
    rcases a with ⟨wa, pa⟩; rcases b with ⟨wb, pb⟩
    simp only [isS, Bool.and_eq_true, Bool.not_eq_true'] at ha hb
    obtain ⟨rfl, ha⟩ := ha
    obtain ⟨rfl, hb⟩ := hb
    simp only [PEMatcher.compare, Bool.and_self, Bool.false_eq_true, if_false, Bool.not_false]
    exact (PE.compare_eq_iff _ _).2 (PE.equals_trans ha (PE.equals_symm_of hb))

/-- compatibility of a path with a LIST of matcher trees, no merging involved: a wildcard set matches
everything beneath it; otherwise the children of the members with a wildcard path decide if there are
any (wildcards shadow specific members), else the children of the members whose element equals the
head of the path; the path has to match only as far as the trees go. The empty list of trees is
`MatchAnySet` (what `mergeAll []` is). -/
def treesCompat : List SetMatcher → Path → Bool
  | [], _ => true
  | _, [] => true
  | ts, pe :: rest =>
    if ts.any wildcard then true
    else if !(ts.flatMap (fun t => sel isW t.members)).isEmpty then
      treesCompat (ts.flatMap (fun t => sel isW t.members)) rest
    else if !(ts.flatMap (fun t => sel (isS pe) t.members)).isEmpty then
      treesCompat (ts.flatMap (fun t => sel (isS pe) t.members)) rest
    else false

theorem treesCompat_nil_right (ts : List SetMatcher) : treesCompat ts [] = true := by
  cases ts <;> rfl

theorem treesCompat_cons (t : SetMatcher) (ts : List SetMatcher) (pe : PE) (rest : Path) :
    treesCompat (t :: ts) (pe :: rest) =
      if (t :: ts).any wildcard then true
      else if !((t :: ts).flatMap (fun t => sel isW t.members)).isEmpty then
        treesCompat ((t :: ts).flatMap (fun t => sel isW t.members)) rest
      else if !((t :: ts).flatMap (fun t => sel (isS pe) t.members)).isEmpty then
        treesCompat ((t :: ts).flatMap (fun t => sel (isS pe) t.members)) rest
      else false := by
  rw [treesCompat]
  simp

/-- the two lists of children that `treesCompat` descends into, before and after merging the first
two trees, are either the same or differ by the merge of their first two trees -/
theorem sel_merge_rel (fuel : Nat) {f : PEMatcher → Bool} (hf : ClassPred f) {m1 m2 : Members}
    (h1 : WF (mk false m1)) (h2 : WF (mk false m2)) (hsz : sizeM (mk false m2) ≤ fuel + 1)
    (T : List SetMatcher) :
    sel f m1 ++ (sel f m2 ++ T) = sel f (sortMembers (m2.foldl (mergeStep fuel m1) m1)) ++ T ∨
    ∃ c1 c2, sel f m1 ++ (sel f m2 ++ T) = c1 :: c2 :: T ∧
      sel f (sortMembers (m2.foldl (mergeStep fuel m1) m1)) ++ T = merge fuel c1 c2 :: T ∧
      WF c1 ∧ WF c2 ∧ sizeM c2 ≤ fuel := by
  rw [wf_node_iff] at h1 h2
  have hd1 := distinct_of_sorted h1.1
  have hd2 := distinct_of_sorted h2.1
  have hm := sel_merged fuel hf hd1 hd2
  have hle : (sel f (m2.foldl (mergeStep fuel m1) m1)).length ≤ 1 := by
    rw [hm]; split <;> simp
  rw [sel_sortMembers_of_le_one hle, hm, sel_of_find hf hd1, sel_of_find hf hd2]
  cases hx : m1.find? (fun pm => f pm.1) with
  | none => cases hy : m2.find? (fun pm => f pm.1) <;> simp
  | some x =>
    cases hy : m2.find? (fun pm => f pm.1) with
    | none => simp
    | some y =>
      right
      have hym := List.mem_of_find?_eq_some hy
      have := sizeM_child_lt (w := false) hym
      exact ⟨x.2, y.2, by simp, by simp, h1.2 x (List.mem_of_find?_eq_some hx), h2.2 y hym, by omega⟩

/-- merging the first two trees of a list does not change what the list is compatible with -/
theorem treesCompat_merge : ∀ (q : Path) (fuel : Nat) (a b : SetMatcher) (rest : List SetMatcher),
    WF a → WF b → sizeM b ≤ fuel →
    treesCompat (a :: b :: rest) q = treesCompat (merge fuel a b :: rest) q := by
  intro q
  induction q with
  | nil => intro fuel a b rest _ _ _; rfl
  | cons pe r ih =>
    intro fuel a b rest ha hb hsz
    cases fuel with
    | zero => have := sizeM_pos b; omega
    | succ fuel =>
      obtain ⟨w1, m1⟩ := a
      obtain ⟨w2, m2⟩ := b
      rw [merge_succ]
      by_cases hw : (w1 || w2) = true
      · rw [if_pos hw, treesCompat_cons, treesCompat_cons]
        have e1 : (mk w1 m1 :: mk w2 m2 :: rest).any wildcard = true := by
          simp only [List.any_cons, wildcard]
          rw [← Bool.or_assoc, hw]; rfl
        have e2 : (new true [] :: rest).any wildcard = true := by simp [new, wildcard]
        rw [if_pos e1, if_pos e2]
      · rw [if_neg hw]
        simp only [Bool.or_eq_true, not_or, Bool.not_eq_true] at hw
        obtain ⟨rfl, rfl⟩ := hw
        rw [treesCompat_cons, treesCompat_cons]
        simp only [new, List.any_cons, wildcard_mk, Bool.false_or, List.flatMap_cons, members_mk]
        split
        · rfl
        · -- the equalities of the branches follow from `sel_merge_rel` and the induction hypothesis
          have key : ∀ (f : PEMatcher → Bool), ClassPred f → ∀ T : List SetMatcher,
              (sel f m1 ++ (sel f m2 ++ T)).isEmpty =
                (sel f (sortMembers (m2.foldl (mergeStep fuel m1) m1)) ++ T).isEmpty ∧
              treesCompat (sel f m1 ++ (sel f m2 ++ T)) r =
                treesCompat (sel f (sortMembers (m2.foldl (mergeStep fuel m1) m1)) ++ T) r := by
            intro f hf T
            rcases sel_merge_rel fuel hf ha hb hsz T with h | ⟨c1, c2, e1, e2, w1, w2, hs⟩
            · rw [h]; exact ⟨rfl, rfl⟩
            · rw [e1, e2]; exact ⟨rfl, ih fuel c1 c2 T w1 w2 hs⟩
          have kw := key isW classPred_isW (rest.flatMap (fun t => sel isW t.members))
          have ks := key (isS pe) (classPred_isS pe) (rest.flatMap (fun t => sel (isS pe) t.members))
          rw [kw.1, kw.2, ks.1, ks.2]

/-! ### one well-formed tree -/

theorem find?_congr' {α : Type} {p q : α → Bool} {l : List α} (h : ∀ x ∈ l, p x = q x) :
    l.find? p = l.find? q := by
  induction l with
  | nil => rfl
  | cons x l ih =>
    simp only [List.find?_cons, h x (by simp)]
    rw [ih (fun y hy => h y (List.mem_cons_of_mem _ hy))]

theorem isCompatible_cons' (ms : Members) (pe : PE) (r : Path) :
    SetTrie.isCompatible (mk false ms) (pe :: r) =
      match SetTrie.peFind ms pe with
      | some pm => SetTrie.isCompatible pm.2 r
      | none => false := by
  cases r with
  | cons q rest => exact SetTrie.isCompatible_cons (by simp) ms pe
  | nil =>
    simp only [SetTrie.isCompatible, SetTrie.peFind]
    cases h : ms.find? (fun pm => pm.1.wildcard || PE.equals pm.1.pe pe) with
    | none =>
      rw [List.find?_eq_none] at h
      rw [List.any_eq_false]
      exact h
    | some pm =>
      rw [List.any_eq_true]
      exact ⟨pm, List.mem_of_find?_eq_some h, by have := List.find?_some h; simpa using this⟩

/-- in a sorted member slice only the first member can be a wildcard -/
theorem not_wildcard_of_lt {a b : PEMatcher} (h : a < b) : b.wildcard = false := by
  rcases a with ⟨wa, pa⟩; rcases b with ⟨wb, pb⟩
  have : PEMatcher.less ⟨wa, pa⟩ ⟨wb, pb⟩ = true := h
  cases wa <;> cases wb <;> simp_all [PEMatcher.less]

/-- the first matching member of a sorted slice: the wildcard member if there is one, else the
member whose element equals `pe` -/
theorem peFind_sorted {ms : Members} (hs : SortedM ms) (pe : PE) :
    SetTrie.peFind ms pe =
      match ms.find? (fun pm => isW pm.1) with
      | some pm => some pm
      | none => ms.find? (fun pm => isS pe pm.1) := by
  cases ms with
  | nil => rfl
  | cons x rest =>
    have hs' := List.pairwise_cons.1 hs
    have hrest : ∀ y ∈ rest, y.1.wildcard = false := fun y hy => not_wildcard_of_lt (hs'.1 y hy)
    by_cases hx : x.1.wildcard = true
    · simp [SetTrie.peFind, isW, hx]
    · have hnone : (x :: rest).find? (fun pm => isW pm.1) = none := by
        rw [List.find?_eq_none]
        intro y hy
        rcases List.mem_cons.1 hy with rfl | hy
        · simpa [isW] using hx
        · simp [isW, hrest y hy]
      rw [hnone]
      apply find?_congr'
      intro y hy
      have : y.1.wildcard = false := by
        rcases List.mem_cons.1 hy with rfl | hy
        · simpa using hx
        · exact hrest y hy
      simp [isS, this]

/-- on one well-formed tree the reference semantics is the walk of `FilterIncludeMatches` -/
theorem treesCompat_single : ∀ (q : Path) (m : SetMatcher), WF m →
    treesCompat [m] q = SetTrie.isCompatible m q := by
  intro q
  induction q with
  | nil => intro m _; simp [treesCompat, SetTrie.isCompatible]
  | cons pe r ih =>
    intro m hm
    obtain ⟨w, ms⟩ := m
    cases w with
    | true => simp [treesCompat, SetTrie.isCompatible, wildcard]
    | false =>
      rw [wf_node_iff] at hm
      have hd := distinct_of_sorted hm.1
      rw [treesCompat_cons, isCompatible_cons', peFind_sorted hm.1]
      simp only [List.any_cons, List.any_nil, wildcard_mk, Bool.or_false, Bool.false_eq_true, if_false,
        List.flatMap_cons, List.flatMap_nil, List.append_nil, members_mk,
        sel_of_find classPred_isW hd, sel_of_find (classPred_isS pe) hd]
      cases hx : ms.find? (fun pm => isW pm.1) with
      | some pm =>
        simpa using ih pm.2 (hm.2 pm (List.mem_of_find?_eq_some hx))
      | none =>
        cases hy : ms.find? (fun pm => isS pe pm.1) with
        | some pm => simpa using ih pm.2 (hm.2 pm (List.mem_of_find?_eq_some hy))
        | none => simp

/-- `mergeAll` of well-formed trees is compatible with exactly the paths the list of trees is -/
theorem isCompatible_mergeAll_fold : ∀ (rest : List SetMatcher) (m : SetMatcher) (q : Path), WF m →
    (∀ x ∈ rest, WF x) →
    SetTrie.isCompatible (rest.foldl (fun acc x => merge (sizeM acc + sizeM x) acc x) m) q =
      treesCompat (m :: rest) q := by
  intro rest
  induction rest with
  | nil => intro m q hm _; exact (treesCompat_single q m hm).symm
  | cons x rest ih =>
    intro m q hm hr
    have hx := hr x (by simp)
    rw [List.foldl_cons, ih _ q (wf_merge _ _ _ hm hx (by omega)) (fun y hy => hr y (List.mem_cons_of_mem _ hy)),
      treesCompat_merge q (sizeM m + sizeM x) m x rest hm hx (by omega)]

theorem isCompatible_mergeAll (ms : List SetMatcher) (q : Path) (h : ∀ m ∈ ms, WF m) :
    SetTrie.isCompatible (mergeAll ms) q = treesCompat ms q := by
  cases ms with
  | nil => cases q <;> simp [mergeAll, any, treesCompat, SetTrie.isCompatible]
  | cons m rest =>
    exact isCompatible_mergeAll_fold rest m q (h m (by simp)) (fun y hy => h y (List.mem_cons_of_mem _ hy))

/-! ### lists of prefix patterns -/

/-- the tails of the patterns whose first element passes the test -/
def selP (f : PEMatcher → Bool) (pats : List (List PEMatcher)) : List (List PEMatcher) :=
  pats.filterMap (fun p => match p with
    | m :: t => if f m then some t else none
    | [] => none)

/-- compatibility of a path with a list of prefix patterns (copy of `SMD.C19.patsCompatible`) -/
def patsCompat : List (List PEMatcher) → Path → Bool
  | [], _ => true
  | _, [] => true
  | pats, pe :: rest =>
    if pats.any List.isEmpty then true
    else if !(selP isW pats).isEmpty then patsCompat (selP isW pats) rest
    else if !(selP (isS pe) pats).isEmpty then patsCompat (selP (isS pe) pats) rest
    else false

theorem patsCompat_cons (p : List PEMatcher) (ps : List (List PEMatcher)) (pe : PE) (rest : Path) :
    patsCompat (p :: ps) (pe :: rest) =
      if (p :: ps).any List.isEmpty then true
      else if !(selP isW (p :: ps)).isEmpty then patsCompat (selP isW (p :: ps)) rest
      else if !(selP (isS pe) (p :: ps)).isEmpty then patsCompat (selP (isS pe) (p :: ps)) rest
      else false := by
  rw [patsCompat]
  simp

theorem wildcard_ofPrefix (p : List PEMatcher) : (ofPrefix p).wildcard = p.isEmpty := by
  cases p <;> rfl

theorem flatMap_sel_ofPrefix (f : PEMatcher → Bool) (pats : List (List PEMatcher)) :
    (pats.map ofPrefix).flatMap (fun t => sel f t.members) = (selP f pats).map ofPrefix := by
  induction pats with
  | nil => rfl
  | cons p ps ih =>
    rw [List.map_cons, List.flatMap_cons, ih]
    cases p with
    | nil => simp [ofPrefix, any, members, sel, selP]
    | cons m t =>
      by_cases h : f m = true <;> simp [ofPrefix, members, sel, selP, h]

theorem treesCompat_ofPrefix : ∀ (q : Path) (pats : List (List PEMatcher)),
    treesCompat (pats.map ofPrefix) q = patsCompat pats q := by
  intro q
  induction q with
  | nil => intro pats; cases pats <;> rfl
  | cons pe r ih =>
    intro pats
    cases pats with
    | nil => rfl
    | cons p ps =>
      rw [List.map_cons, treesCompat_cons, patsCompat_cons, ← List.map_cons,
        flatMap_sel_ofPrefix, flatMap_sel_ofPrefix, List.isEmpty_map, List.isEmpty_map, ih, ih,
        List.any_map]
      have : (wildcard ∘ ofPrefix) = List.isEmpty := by funext p; exact wildcard_ofPrefix p
      rw [this]

end SetMatcher
end SMD
