/- helper lemmas for SMD/Properties/C12Order.lean: associativity of the merge on values without lists -/
import SMD.Proofs.MergeValid
import SMD.Proofs.MergeIdem
import SMD.Proofs.CanonicalKeys
import SMD.Properties.C12Valid
import SMD.Proofs.PartitionMaps
set_option linter.unusedSimpArgs false
set_option linter.unusedVariables false
namespace SMD
namespace MA
open MV Part

/-! ### the result of a merge of values without lists does not depend on the fuel -/

def noListsOpt : Option Value → Prop
  | none => True
  | some v => noLists v = true

theorem noListsOpt_lookup (x : Option Value) (h : noListsOpt x) (k : String) :
    noListsOpt (lookupField k ((asMap x).getD [])) := by
  cases hl : lookupField k ((asMap x).getD []) with
  | none => trivial
  | some w =>
    have hxe := asMap_getD_lookup x k w hl
    generalize (asMap x).getD [] = m at hl hxe
    subst hxe
    simp only [noListsOpt, noLists] at h ⊢
    exact noListsFields_mem _ h (k, w) (mn_lookupField_mem k w _ hl)

theorem foldl_mergeMapStep_det (rec1 rec2 : MergeRec) (t : MapT) (lf rf : List (String × Value)) :
    ∀ (ks : List String) (acc o1 o2 : List (String × Value)),
      (∀ k ∈ ks, ∀ x y, rec1 (lookupField k lf) (lookupField k rf) (fieldType t k) = .ok x →
        rec2 (lookupField k lf) (lookupField k rf) (fieldType t k) = .ok y → x = y) →
      List.foldl (mergeMapStep rec1 t lf rf) (.ok acc) ks = .ok o1 →
      List.foldl (mergeMapStep rec2 t lf rf) (.ok acc) ks = .ok o2 → o1 = o2
  | [], acc, o1, o2, _, h1, h2 => by
    simp only [List.foldl_nil, Res.ok.injEq] at h1 h2
    rw [← h1, ← h2]
  | k :: ks, acc, o1, o2, hk, h1, h2 => by
    simp only [List.foldl_cons] at h1 h2
    cases hr1 : rec1 (lookupField k lf) (lookupField k rf) (fieldType t k) with
    | err => simp only [mergeMapStep, hr1, foldl_mergeMapStep_err] at h1; cases h1
    | panic => simp only [mergeMapStep, hr1, foldl_mergeMapStep_panic] at h1; cases h1
    | ok x =>
      cases hr2 : rec2 (lookupField k lf) (lookupField k rf) (fieldType t k) with
      | err => simp only [mergeMapStep, hr2, foldl_mergeMapStep_err] at h2; cases h2
      | panic => simp only [mergeMapStep, hr2, foldl_mergeMapStep_panic] at h2; cases h2
      | ok y =>
        have := hk k List.mem_cons_self x y hr1 hr2
        subst this
        have hk' : ∀ k' ∈ ks, ∀ x y, rec1 (lookupField k' lf) (lookupField k' rf) (fieldType t k') = .ok x →
            rec2 (lookupField k' lf) (lookupField k' rf) (fieldType t k') = .ok y → x = y :=
          fun k' hk'' => hk k' (List.mem_cons_of_mem _ hk'')
        cases x with
        | none =>
          simp only [mergeMapStep, hr1] at h1
          simp only [mergeMapStep, hr2] at h2
          exact foldl_mergeMapStep_det rec1 rec2 t lf rf ks acc o1 o2 hk' h1 h2
        | some v =>
          simp only [mergeMapStep, hr1] at h1
          simp only [mergeMapStep, hr2] at h2
          exact foldl_mergeMapStep_det rec1 rec2 t lf rf ks _ o1 o2 hk' h1 h2

theorem asList_none_of_noListsOpt (x : Option Value) (h : noListsOpt x) : asList x = none := by
  cases x with
  | none => rfl
  | some v => cases v <;> simp_all [asList, noListsOpt, noLists]

/-- two successful runs on the same operands (no lists) give the same result, whatever the fuel -/
theorem merge_det (s : Schema) : ∀ (f f' : Nat) (lo ro : Option Value) (tr : TypeRef) (o o' : Option Value),
    noListsOpt lo → noListsOpt ro → mergeNode s f lo ro tr = .ok o → mergeNode s f' lo ro tr = .ok o' → o = o' := by
  intro f
  induction f with
  | zero => intro f' lo ro tr o o' _ _ h; cases h
  | succ n ih =>
    intro f' lo ro tr o o' hlo hro h h'
    obtain ⟨n1, a, hf, hres, hh⟩ := mergeNode_handle s _ lo ro tr _ h
    cases hf
    obtain ⟨n2, a2, hf2, hres2, hh2⟩ := mergeNode_handle s f' lo ro tr _ h'
    rw [hres] at hres2
    cases hres2
    cases hk : atomKind (deduceAtom a (keepRHS lo ro)) with
    | invalid => unfold mergeHandle at hh; rw [hk] at hh; cases hh
    | scalar t =>
      rw [mergeHandle_scalar s _ lo ro _ t hk _ hh, mergeHandle_scalar s _ lo ro _ t hk _ hh2]
    | map t =>
      rcases mergeHandle_map_cases s _ lo ro _ t hk _ hh with ⟨hC, h1⟩ | ⟨hC, outm, hf, hcase⟩
      · rcases mergeHandle_map_cases s _ lo ro _ t hk _ hh2 with ⟨_, h2⟩ | ⟨hC2, _⟩
        · rw [h1, h2]
        · rw [hC] at hC2; cases hC2
      · rcases mergeHandle_map_cases s _ lo ro _ t hk _ hh2 with ⟨hC2, _⟩ | ⟨_, outm2, hf2, hcase2⟩
        · rw [hC] at hC2; cases hC2
        · have : outm = outm2 := by
            refine foldl_mergeMapStep_det _ _ t _ _ _ _ _ _ ?_ hf hf2
            intro k _ x y hx hy
            exact ih _ _ _ _ _ _ (noListsOpt_lookup lo hlo k) (noListsOpt_lookup ro hro k) hx hy
          subst this
          rcases hcase with ⟨e1, rfl⟩ | ⟨e1, rfl⟩ <;> rcases hcase2 with ⟨e2, rfl⟩ | ⟨e2, rfl⟩
          · rfl
          · exact absurd e1 e2
          · exact absurd e2 e1
          · rfl
    | list t =>
      have hC : (t.rel == "atomic" || (emptyOrAbsent (asList lo) && emptyOrAbsent (asList ro))) = true := by
        rw [asList_none_of_noListsOpt lo hlo, asList_none_of_noListsOpt ro hro]
        simp [emptyOrAbsent]
      rw [mergeHandle_list_keep s _ lo ro _ t hk hC] at hh hh2
      cases hh; cases hh2; rfl

/-! ### the merge of two optional nodes, whatever the fuel -/

/-- the entries of a map (none for any other value) -/
def E (v : Value) : List (String × Value) := (asMap (some v)).getD []

/-- `res` is the merge of the optional canonical nodes `lo` and `ro` -/
def MR (s : Schema) (tr : TypeRef) : Option Value → Option Value → Option Value → Prop
  | none, none, res => res = none
  | some x, none, res => res = some x
  | none, some y, res => res = some y
  | some x, some y, res => ∃ f v, mergeNode s f (some x) (some y) tr = .ok (some v) ∧ res = some v

/-- what the fold over the keys of two canonical entry lists builds -/
theorem fold_facts (s : Schema) (n : Nat) (t : MapT) (lf rf outm : List (String × Value))
    (hal : keysAsc lf = true) (hcl : canonFields lf = true) (har : keysAsc rf = true) (hcr : canonFields rf = true)
    (hf : (zipKeys lf rf).foldl (mergeMapStep (mergeNode s n) t lf rf) (.ok []) = .ok outm) :
    outm.Pairwise (fun a b => a.1 < b.1) ∧ canonFields outm = true ∧
      ∀ k, MR s (fieldType t k) (lookupField k lf) (lookupField k rf) (lookupField k outm) := by
  have hrec : ∀ k v, mergeNode s n (lookupField k lf) (lookupField k rf) (fieldType t k) = .ok (some v) →
      canon v = true := by
    intro k v hv
    exact CanonKeys.merge_canon s n _ _ _ v
      (fun l hl => CanonKeys.canon_lookupField lf hcl k l hl) (fun r hr => CanonKeys.canon_lookupField rf hcr k r hr) hv
  obtain ⟨hp, hc⟩ := CanonKeys.foldl_mergeMapStep_canon _ t lf rf hrec _ [] outm
    (CanonKeys.zipKeys_nodup _ _ (keysAsc_pairwise lf hal) (keysAsc_pairwise rf har)) (by simp) List.Pairwise.nil (by simp) hf
  refine ⟨hp, CanonKeys.canonFields_of_mem outm hc, ?_⟩
  intro k
  obtain ⟨g1, g2⟩ := mergedMap_lookup _ t lf rf outm hf k
  have hsome : ∀ o, mergeNode s n (lookupField k lf) (lookupField k rf) (fieldType t k) = .ok o → o.isSome = true :=
    fun o ho => mergeNode_isSome s n _ _ _ o ho
  cases hl : lookupField k lf with
  | none =>
    cases hr : lookupField k rf with
    | none =>
      simp only [MR]
      cases ho : lookupField k outm with
      | none => rfl
      | some v =>
        have := g1 v ho
        rw [hl, hr] at this
        exact absurd this (mergeNode_none_none s n _ _)
    | some y =>
      simp only [MR]
      cases ho : lookupField k outm with
      | none =>
        rcases g2 ho with ⟨_, e2⟩ | hnone
        · rw [hr] at e2; cases e2
        · have := hsome _ hnone; cases this
      | some v =>
        have := g1 v ho
        rw [hl, hr] at this
        have := merge_canon_right s n y _ _ (CanonKeys.canon_lookupField rf hcr k y hr) this
        exact this
  | some x =>
    cases hr : lookupField k rf with
    | none =>
      simp only [MR]
      cases ho : lookupField k outm with
      | none =>
        rcases g2 ho with ⟨e1, _⟩ | hnone
        · rw [hl] at e1; cases e1
        · have := hsome _ hnone; cases this
      | some v =>
        have := g1 v ho
        rw [hl, hr] at this
        exact merge_canon_left s n x _ _ (CanonKeys.canon_lookupField lf hcl k x hl) this
    | some y =>
      simp only [MR]
      cases ho : lookupField k outm with
      | none =>
        rcases g2 ho with ⟨e1, _⟩ | hnone
        · rw [hl] at e1; cases e1
        · have := hsome _ hnone; cases this
      | some v =>
        have := g1 v ho
        rw [hl, hr] at this
        exact ⟨n, v, this, rfl⟩

theorem E_nil_of_emptyOrAbsent (l : Value) (h : emptyOrAbsent (asMap (some l)) = true) : E l = [] := by
  cases l <;> simp_all [E, asMap, emptyOrAbsent]

theorem emptyOrAbsent_of_E_nil (l : Value) (h : E l = []) : emptyOrAbsent (asMap (some l)) = true := by
  cases l <;> simp_all [E, asMap, emptyOrAbsent]

theorem canon_E (l : Value) (h : canon l = true) : keysAsc (E l) = true ∧ canonFields (E l) = true :=
  canon_asMap l h

theorem map_of_E_ne_nil (l : Value) (h : E l ≠ []) : l = .map (E l) := by
  cases l <;> simp_all [E, asMap]

/-- a map on the right (of a map type that is not atomic): the result is the key-wise merge -/
theorem merge_map_right (s : Schema) (f : Nat) (l : Value) (rf : List (String × Value)) (tr : TypeRef) (a : Atom)
    (t : MapT) (o : Value) (hres : s.resolve tr = some a) (hmap : a.map = some t)
    (hcl : canon l = true) (hcr : canon (.map rf) = true)
    (h : mergeNode s f (some l) (some (.map rf)) tr = .ok (some o)) :
    (t.rel = "atomic" → o = .map rf) ∧
    (t.rel ≠ "atomic" → ∃ outm, o = .map outm ∧ outm.Pairwise (fun a b => a.1 < b.1) ∧
      ∀ k, MR s (fieldType t k) (lookupField k (E l)) (lookupField k rf) (lookupField k outm)) := by
  obtain ⟨n, a', hf, hres', hh⟩ := mergeNode_some_right s f _ _ tr _ h
  rw [hres] at hres'
  cases hres'
  rw [deduceAtom_map a rf t hmap] at hh
  rcases mergeHandle_map_cases s _ _ _ _ t (atomKind_map t) _ hh with ⟨hC, h1⟩ | ⟨hC, outm, hfold, hcase⟩
  · simp only [keepRHS, Option.some.injEq] at h1
    subst h1
    refine ⟨fun _ => rfl, fun hna => ?_⟩
    have hat : (t.rel == "atomic") = false := by simpa using hna
    simp only [hat, Bool.false_or, Bool.and_eq_true] at hC
    have e1 := E_nil_of_emptyOrAbsent l hC.1
    have e2 : rf = [] := by
      have := hC.2
      simpa [asMap, emptyOrAbsent] using this
    subst e2
    refine ⟨[], rfl, List.Pairwise.nil, fun k => ?_⟩
    rw [e1]
    simp [lookupField, MR]
  · simp only [Bool.or_eq_false_iff] at hC
    have hna : t.rel ≠ "atomic" := by simpa using hC.1
    refine ⟨fun ha => absurd ha hna, fun _ => ?_⟩
    rcases hcase with ⟨_, ho⟩ | ⟨_, ho⟩
    · cases ho
    · cases ho
      obtain ⟨hal, hcl'⟩ := canon_E l hcl
      obtain ⟨har, hcr'⟩ := canon_asMap _ hcr
      obtain ⟨hp, _, hmr⟩ := fold_facts s n t (E l) rf outm hal hcl' har hcr' hfold
      exact ⟨outm, rfl, hp, hmr⟩

theorem lookups_none_nil : ∀ (m : List (String × Value)), (∀ k, lookupField k m = none) → m = []
  | [], _ => rfl
  | (k, v) :: _, h => by have := h k; simp [lookupField] at this

/-- the node descends into maps: its type has a map member that is not atomic -/
def Desc (a : Atom) : Prop := ∃ t, a.map = some t ∧ t.rel ≠ "atomic"

/-- a null on the right: a non-empty map on the left (of a map type that is not atomic) stays, anything else
gives way to the null -/
theorem merge_null_right (s : Schema) (f : Nat) (l : Value) (tr : TypeRef) (a : Atom) (o : Value)
    (hres : s.resolve tr = some a) (hcl : canon l = true) (hnl : noLists l = true)
    (h : mergeNode s f (some l) (some .null) tr = .ok (some o)) :
    (Desc a ∧ E l ≠ [] → o = l) ∧ (¬ (Desc a ∧ E l ≠ []) → o = .null) := by
  obtain ⟨n, a', hf, hres', hh⟩ := mergeNode_some_right s f _ _ tr _ h
  rw [hres] at hres'
  cases hres'
  have hda : deduceAtom a (some .null) = a := by
    simp [deduceAtom, Value.isScalar, Value.isList, Value.isMap]
  rw [hda] at hh
  have hnull : ∀ o' : Option Value, some o = o' → o' = keepRHS (some l) (some Value.null) → o = .null := by
    intro o' h1 h2
    subst h1
    simp only [keepRHS, Option.some.injEq] at h2
    exact h2
  cases hk : atomKind a with
  | invalid => unfold mergeHandle at hh; rw [hk] at hh; cases hh
  | scalar t =>
    have hm : a.map = none := by
      obtain ⟨sc, li, mp⟩ := a
      cases sc <;> cases li <;> cases mp <;> simp_all [atomKind, Atom.map, Atom.scalar, Atom.list]
    have ho := hnull _ rfl (mergeHandle_scalar s _ _ _ _ t hk _ hh)
    refine ⟨?_, fun _ => ho⟩
    rintro ⟨⟨t', ht', _⟩, _⟩
    rw [hm] at ht'; cases ht'
  | list t =>
    have hm : a.map = none := by
      obtain ⟨sc, li, mp⟩ := a
      cases sc <;> cases li <;> cases mp <;> simp_all [atomKind, Atom.map, Atom.scalar, Atom.list]
    have hC : (t.rel == "atomic" || (emptyOrAbsent (asList (some l)) && emptyOrAbsent (asList (some Value.null)))) = true := by
      rw [asList_none_of_noListsOpt (some l) hnl]
      simp [emptyOrAbsent, asList]
    rw [mergeHandle_list_keep s _ _ _ _ t hk hC] at hh
    have ho := hnull _ rfl (by cases hh; rfl)
    refine ⟨?_, fun _ => ho⟩
    rintro ⟨⟨t', ht', _⟩, _⟩
    rw [hm] at ht'; cases ht'
  | map t =>
    have hm : a.map = some t := by
      obtain ⟨sc, li, mp⟩ := a
      cases sc <;> cases li <;> cases mp <;> simp_all [atomKind, Atom.map, Atom.scalar, Atom.list]
    rcases mergeHandle_map_cases s _ _ _ _ t hk _ hh with ⟨hC, h1⟩ | ⟨hC, outm, hfold, hcase⟩
    · have ho := hnull _ rfl h1
      refine ⟨?_, fun _ => ho⟩
      rintro ⟨⟨t', ht', hna⟩, hne⟩
      rw [hm] at ht'; cases ht'
      have hat : (t.rel == "atomic") = false := by simpa using hna
      simp only [hat, Bool.false_or, Bool.and_eq_true] at hC
      exact absurd (E_nil_of_emptyOrAbsent l hC.1) hne
    · simp only [Bool.or_eq_false_iff] at hC
      have hna : t.rel ≠ "atomic" := by simpa using hC.1
      have hne : E l ≠ [] := by
        intro he
        have := emptyOrAbsent_of_E_nil l he
        rw [this] at hC
        simp [asMap, emptyOrAbsent] at hC
      refine ⟨fun _ => ?_, fun hn => absurd ⟨⟨t, hm, hna⟩, hne⟩ hn⟩
      rcases hcase with ⟨_, ho⟩ | ⟨_, ho⟩
      · cases ho
      · cases ho
        obtain ⟨hal, hcl'⟩ := canon_E l hcl
        have hfold' : (zipKeys (E l) []).foldl (mergeMapStep (mergeNode s n) t (E l) []) (.ok []) = .ok outm := hfold
        obtain ⟨hp, _, hmr⟩ := fold_facts s n t (E l) [] outm hal hcl' rfl rfl hfold'
        have : outm = E l := by
          apply entries_ext outm (E l) hp (keysAsc_pairwise _ hal)
          intro k
          have := hmr k
          cases hlk : lookupField k (E l) <;> simp only [hlk, lookupField, MR] at this <;> exact this
        rw [this]
        exact (map_of_E_ne_nil l hne).symm

/-! ### no kind change from the first operand to the second -/

mutual
/-- wherever the first value holds a non-empty map, the second does not hold a scalar -/
def kindsKept : Value → Value → Bool
  | .map m, b => (if b.isScalar then m.isEmpty else true) && kindsKeptFields m (E b)
  | _, _ => true
def kindsKeptFields : List (String × Value) → List (String × Value) → Bool
  | [], _ => true
  | (k, v) :: rest, mb =>
    (match lookupField k mb with | some w => kindsKept v w | none => true) && kindsKeptFields rest mb
end

theorem kindsKeptFields_mem : ∀ (m mb : List (String × Value)), kindsKeptFields m mb = true →
    ∀ x ∈ m, ∀ w, lookupField x.1 mb = some w → kindsKept x.2 w = true
  | [], _, _, x, hx, _, _ => by cases hx
  | (k, v) :: rest, mb, h, x, hx, w, hw => by
    simp only [kindsKeptFields, Bool.and_eq_true] at h
    rcases List.mem_cons.1 hx with rfl | hx
    · have := h.1
      simp only [hw] at this
      exact this
    · exact kindsKeptFields_mem rest mb h.2 x hx w hw

theorem kindsKept_child (a b : Value) (h : kindsKept a b = true) (k : String) (x y : Value)
    (hx : lookupField k (E a) = some x) (hy : lookupField k (E b) = some y) : kindsKept x y = true := by
  cases a with
  | map m =>
    simp only [kindsKept, Bool.and_eq_true] at h
    exact kindsKeptFields_mem m (E b) h.2 (k, x) (mn_lookupField_mem k x m hx) y hy
  | _ => simp [E, asMap, lookupField] at hx

theorem kindsKept_scalar (a b : Value) (h : kindsKept a b = true) (hb : b.isScalar = true) : E a = [] := by
  cases a with
  | map m =>
    simp only [kindsKept, hb, if_true, Bool.and_eq_true, List.isEmpty_iff] at h
    simp [E, asMap, h.1]
  | _ => simp [E, asMap]

theorem E_of_isScalar (b : Value) (hb : b.isScalar = true) : E b = [] := by
  cases b <;> simp_all [E, asMap, Value.isScalar]

theorem MR_none_right (s : Schema) (ty : TypeRef) (x r : Option Value) (h : MR s ty x none r) : r = x := by
  cases x <;> simpa [MR] using h

theorem MR_none_left (s : Schema) (ty : TypeRef) (y r : Option Value) (h : MR s ty none y r) : r = y := by
  cases y <;> simpa [MR] using h

theorem MR_refl_right (s : Schema) (ty : TypeRef) (x : Option Value) : MR s ty x none x := by
  cases x <;> simp [MR]

/-- under a node that descends, the entries of the merge are the key-wise merges of the entries -/
theorem E_merge (s : Schema) (f : Nat) (a b ab : Value) (tr : TypeRef) (A : Atom) (t : MapT)
    (hres : s.resolve tr = some A) (hmap : A.map = some t) (hna : t.rel ≠ "atomic")
    (hvb : validateV s false tr b = .ok ()) (hca : canon a = true) (hcb : canon b = true)
    (hnla : noLists a = true) (hnlb : noLists b = true) (hk : kindsKept a b = true)
    (h1 : mergeNode s f (some a) (some b) tr = .ok (some ab)) :
    ∀ k, MR s (fieldType t k) (lookupField k (E a)) (lookupField k (E b)) (lookupField k (E ab)) := by
  have scalar : b.isScalar = true →
      ∀ k, MR s (fieldType t k) (lookupField k (E a)) (lookupField k (E b)) (lookupField k (E ab)) := by
    intro hs k
    have := merge_scalar_right s f (some a) b tr _ hvb hs h1
    cases this
    rw [kindsKept_scalar a b hk hs, E_of_isScalar b hs]
    simp [lookupField, MR]
  cases b with
  | bool _ => exact scalar rfl
  | int _ => exact scalar rfl
  | float _ _ => exact scalar rfl
  | str _ => exact scalar rfl
  | list _ => simp [noLists] at hnlb
  | null =>
    intro k
    obtain ⟨g1, g2⟩ := merge_null_right s f a tr A ab hres hca hnla h1
    have eb : E Value.null = [] := rfl
    rw [eb]
    by_cases hd : E a ≠ []
    · rw [g1 ⟨⟨t, hmap, hna⟩, hd⟩]
      exact MR_refl_right s _ _
    · have hd' : E a = [] := by simpa using hd
      rw [g2 (fun h => hd h.2), hd', eb]
      simp [lookupField, MR]
  | map bf =>
    obtain ⟨outm, rfl, _, hmr⟩ := (merge_map_right s f a bf tr A t ab hres hmap hca hcb h1).2 hna
    exact hmr

/-! ### associativity -/

/-- associativity at the values of depth at most `n` -/
def Assoc (s : Schema) (n : Nat) : Prop :=
  ∀ (tr : TypeRef) (a b c ab abc bc abc' : Value) (f1 f2 f3 f4 : Nat),
    a.depth ≤ n → b.depth ≤ n → c.depth ≤ n →
    validateV s false tr b = .ok () → validateV s false tr c = .ok () →
    canon a = true → canon b = true → canon c = true →
    noLists a = true → noLists b = true → noLists c = true → kindsKept a b = true →
    mergeNode s f1 (some a) (some b) tr = .ok (some ab) → mergeNode s f2 (some ab) (some c) tr = .ok (some abc) →
    mergeNode s f3 (some b) (some c) tr = .ok (some bc) → mergeNode s f4 (some a) (some bc) tr = .ok (some abc') →
    abc = abc'

/-- associativity of the merge of optional nodes -/
theorem assoc_opt (s : Schema) (n : Nat) (hA : Assoc s n) (ty : TypeRef) (ao bo co abo abco bco abco' : Option Value)
    (ha : ∀ x, ao = some x → x.depth ≤ n ∧ canon x = true ∧ noLists x = true)
    (hb : ∀ x, bo = some x → x.depth ≤ n ∧ validateV s false ty x = .ok () ∧ canon x = true ∧ noLists x = true)
    (hc : ∀ x, co = some x → x.depth ≤ n ∧ validateV s false ty x = .ok () ∧ canon x = true ∧ noLists x = true)
    (hk : ∀ x y, ao = some x → bo = some y → kindsKept x y = true)
    (m1 : MR s ty ao bo abo) (m2 : MR s ty abo co abco) (m3 : MR s ty bo co bco) (m4 : MR s ty ao bco abco') :
    abco = abco' := by
  cases ao with
  | none =>
    have e1 := (MR_none_left s ty _ _ m1).symm
    subst e1
    have e4 := (MR_none_left s ty _ _ m4).symm
    subst e4
    cases bo with
    | none => rw [MR_none_left s ty _ _ m2, MR_none_left s ty _ _ m3]
    | some b =>
      cases co with
      | none => rw [MR_none_right s ty _ _ m2, MR_none_right s ty _ _ m3]
      | some c =>
        obtain ⟨f, v, hv, rfl⟩ := m2
        obtain ⟨f', v', hv', rfl⟩ := m3
        exact merge_det s f f' (some b) (some c) ty _ _ (hb b rfl).2.2.2 (hc c rfl).2.2.2 hv hv'
  | some a =>
    cases bo with
    | none =>
      have e1 := (MR_none_right s ty _ _ m1).symm
      subst e1
      have e3 := (MR_none_left s ty _ _ m3).symm
      subst e3
      cases co with
      | none => rw [MR_none_right s ty _ _ m2, MR_none_right s ty _ _ m4]
      | some c =>
        obtain ⟨f, v, hv, rfl⟩ := m2
        obtain ⟨f', v', hv', rfl⟩ := m4
        exact merge_det s f f' (some a) (some c) ty _ _ (ha a rfl).2.2 (hc c rfl).2.2.2 hv hv'
    | some b =>
      obtain ⟨f1, ab, h1, rfl⟩ := m1
      cases co with
      | none =>
        have e2 := (MR_none_right s ty _ _ m2).symm
        subst e2
        have e3 := (MR_none_right s ty _ _ m3).symm
        subst e3
        obtain ⟨f', v', hv', rfl⟩ := m4
        exact merge_det s f1 f' (some a) (some b) ty _ _ (ha a rfl).2.2 (hb b rfl).2.2.2 h1 hv'
      | some c =>
        obtain ⟨f2, abc, h2, rfl⟩ := m2
        obtain ⟨f3, bc, h3, rfl⟩ := m3
        obtain ⟨f4, abc', h4, rfl⟩ := m4
        obtain ⟨da, ca, na⟩ := ha a rfl
        obtain ⟨db, vb, cb, nb⟩ := hb b rfl
        obtain ⟨dc, vc, cc, nc⟩ := hc c rfl
        rw [hA ty a b c ab abc bc abc' f1 f2 f3 f4 da db dc vb vc ca cb cc na nb nc (hk a b rfl rfl) h1 h2 h3 h4]

/-! ### what the entries of an operand inherit -/

theorem noListsFields_of_mem : ∀ (m : List (String × Value)), (∀ x ∈ m, noLists x.2 = true) → noListsFields m = true
  | [], _ => rfl
  | (k, v) :: rest, h => by
    simp only [noListsFields, Bool.and_eq_true]
    exact ⟨h (k, v) List.mem_cons_self, noListsFields_of_mem rest (fun x hx => h x (List.mem_cons_of_mem _ hx))⟩

/-- the merge of values without lists is without lists -/
theorem merge_noLists (s : Schema) : ∀ (f : Nat) (lo ro : Option Value) (tr : TypeRef) (o : Value),
    noListsOpt lo → noListsOpt ro → mergeNode s f lo ro tr = .ok (some o) → noLists o = true := by
  intro f
  induction f with
  | zero => intro lo ro tr o _ _ h; cases h
  | succ n ih =>
    intro lo ro tr o hlo hro h
    obtain ⟨n1, a, hf, hres, hh⟩ := mergeNode_handle s _ lo ro tr _ h
    cases hf
    have hkeep : some o = keepRHS lo ro → noLists o = true := by
      intro hv
      rcases keepRHS_cases lo ro o hv with hr | ⟨_, hl⟩
      · subst hr; exact hro
      · subst hl; exact hlo
    cases hk : atomKind (deduceAtom a (keepRHS lo ro)) with
    | invalid => unfold mergeHandle at hh; rw [hk] at hh; cases hh
    | scalar t => exact hkeep (mergeHandle_scalar s _ lo ro _ t hk _ hh)
    | map t =>
      rcases mergeHandle_map_cases s _ lo ro _ t hk _ hh with ⟨_, h1⟩ | ⟨_, outm, hf, hcase⟩
      · exact hkeep h1
      · rcases hcase with ⟨_, ho⟩ | ⟨_, ho⟩
        · cases ho
        · cases ho
          simp only [noLists]
          apply noListsFields_of_mem
          intro x hx
          obtain ⟨s1, _, _⟩ := foldl_mergeMapStep_spec _ t _ _ _ _ _ hf
          rcases s1 x hx with h0 | ⟨_, hrec⟩
          · cases h0
          · exact ih _ _ _ _ (noListsOpt_lookup lo hlo x.1) (noListsOpt_lookup ro hro x.1) hrec
    | list t =>
      have hC : (t.rel == "atomic" || (emptyOrAbsent (asList lo) && emptyOrAbsent (asList ro))) = true := by
        rw [asList_none_of_noListsOpt lo hlo, asList_none_of_noListsOpt ro hro]
        simp [emptyOrAbsent]
      rw [mergeHandle_list_keep s _ lo ro _ t hk hC] at hh
      simp only [Res.ok.injEq] at hh
      exact hkeep hh.symm

theorem child_facts (v : Value) (n : Nat) (hd : v.depth ≤ n + 1) (hc : canon v = true) (hn : noLists v = true)
    (k : String) (x : Value) (hx : lookupField k (E v) = some x) :
    x.depth ≤ n ∧ canon x = true ∧ noLists x = true := by
  cases v with
  | map m =>
    have hmem := mn_lookupField_mem k x m hx
    simp only [Value.depth] at hd
    have := depthFields_mem m (k, x) hmem
    simp only [canon, Bool.and_eq_true] at hc
    simp only [noLists] at hn
    exact ⟨by simp only [] at this; omega, canonFields_mem m hc.2 (k, x) hmem, noListsFields_mem m hn (k, x) hmem⟩
  | _ => simp [E, asMap, lookupField] at hx

theorem child_valid (s : Schema) (v : Value) (tr : TypeRef) (A : Atom) (t : MapT) (hres : s.resolve tr = some A)
    (hmap : A.map = some t) (hv : validateV s false tr v = .ok ())
    (k : String) (x : Value) (hx : lookupField k (E v) = some x) : validateV s false (fieldType t k) x = .ok () := by
  cases v with
  | map m =>
    obtain ⟨A', t', hres', hmap', hf⟩ := NodeLaws.validateV_map_inv hv
    rw [hres] at hres'; cases hres'
    rw [hmap] at hmap'; cases hmap'
    exact validateFields_mem s false t m hf (k, x) (mn_lookupField_mem k x m hx)
  | _ => simp [E, asMap, lookupField] at hx

theorem MR_some_right_isSome (s : Schema) (ty : TypeRef) (x r : Option Value) (y : Value) (h : MR s ty x (some y) r) :
    r.isSome = true := by
  cases x with
  | none => simp only [MR] at h; rw [h]; rfl
  | some x => obtain ⟨_, v, _, rfl⟩ := h; rfl

theorem E_ne_nil_of_lookup (v : Value) (k : String) (h : (lookupField k (E v)).isSome = true) : E v ≠ [] := by
  intro he
  rw [he] at h
  simp [lookupField] at h

/-- associativity of the merge on values without lists, when no non-empty map of the first operand faces a
scalar of the second -/
theorem assoc_all (s : Schema) : ∀ n, Assoc s n := by
  intro n
  induction n with
  | zero =>
    intro tr a b c ab abc bc abc' f1 f2 f3 f4 da
    have := depth_pos a
    omega
  | succ n hA =>
    intro tr a b c ab abc bc abc' f1 f2 f3 f4 da db dc vb vc ca cb cc na nb nc hk h1 h2 h3 h4
    obtain ⟨_, A, _, hres, _⟩ := mergeNode_some_right s f2 _ _ tr _ h2
    have cab : canon ab = true := CanonKeys.merge_canon s f1 (some a) (some b) tr ab
      (fun l hl => by cases hl; exact ca) (fun r hr => by cases hr; exact cb) h1
    have cbc : canon bc = true := CanonKeys.merge_canon s f3 (some b) (some c) tr bc
      (fun l hl => by cases hl; exact cb) (fun r hr => by cases hr; exact cc) h3
    have nab : noLists ab = true := merge_noLists s f1 (some a) (some b) tr ab na nb h1
    have scalar : c.isScalar = true → abc = abc' := by
      intro hs
      have e1 := merge_scalar_right s f2 (some ab) c tr _ vc hs h2
      have e2 := merge_scalar_right s f4 (some a) bc tr _ (by
        have := merge_scalar_right s f3 (some b) c tr _ vc hs h3
        cases this; exact vc) (by
        have := merge_scalar_right s f3 (some b) c tr _ vc hs h3
        cases this; exact hs) h4
      have e3 := merge_scalar_right s f3 (some b) c tr _ vc hs h3
      cases e1; cases e3; cases e2; rfl
    cases c with
    | bool _ => exact scalar rfl
    | int _ => exact scalar rfl
    | float _ _ => exact scalar rfl
    | str _ => exact scalar rfl
    | list _ => simp [noLists] at nc
    | null =>
      obtain ⟨g2a, g2b⟩ := merge_null_right s f2 ab tr A abc hres cab nab h2
      obtain ⟨g3a, g3b⟩ := merge_null_right s f3 b tr A bc hres cb nb h3
      by_cases hd : Desc A
      · obtain ⟨t, hmap, hna⟩ := hd
        have hE := E_merge s f1 a b ab tr A t hres hmap hna vb ca cb na nb hk h1
        by_cases hb : E b = []
        · have ebc : bc = .null := g3b (fun h => h.2 hb)
          subst ebc
          obtain ⟨g4a, g4b⟩ := merge_null_right s f4 a tr A abc' hres ca na h4
          have hlook : ∀ k, lookupField k (E ab) = lookupField k (E a) := by
            intro k
            have := hE k
            rw [hb] at this
            exact MR_none_right s _ _ _ this
          by_cases ha : E a = []
          · have hab : E ab = [] := by
              apply lookups_none_nil
              intro k
              rw [hlook k, ha]; rfl
            rw [g2b (fun h => h.2 hab), g4b (fun h => h.2 ha)]
          · have hab : E ab ≠ [] := by
              intro he
              apply ha
              apply lookups_none_nil
              intro k
              rw [← hlook k, he]; rfl
            rw [g2a ⟨⟨t, hmap, hna⟩, hab⟩, g4a ⟨⟨t, hmap, hna⟩, ha⟩]
            rw [map_of_E_ne_nil ab hab, map_of_E_ne_nil a ha]
            congr 1
            exact entries_ext _ _ (keysAsc_pairwise _ (canon_E ab cab).1) (keysAsc_pairwise _ (canon_E a ca).1) hlook
        · have ebc : bc = b := g3a ⟨⟨t, hmap, hna⟩, hb⟩
          subst ebc
          have e4 := merge_det s f1 f4 (some a) (some bc) tr _ _ na nb h1 h4
          cases e4
          have hab : E ab ≠ [] := by
            cases hbm : E bc with
            | nil => exact absurd hbm hb
            | cons e rest =>
              obtain ⟨k0, y⟩ := e
              have hl : lookupField k0 (E bc) = some y := by rw [hbm]; simp [lookupField]
              have := hE k0
              rw [hl] at this
              exact E_ne_nil_of_lookup ab k0 (MR_some_right_isSome s _ _ _ y this)
          exact g2a ⟨⟨t, hmap, hna⟩, hab⟩
      · have ebc : bc = .null := g3b (fun h => hd h.1)
        subst ebc
        obtain ⟨_, g4b⟩ := merge_null_right s f4 a tr A abc' hres ca na h4
        rw [g2b (fun h => hd h.1), g4b (fun h => hd h.1)]
    | map cf =>
      obtain ⟨A', t, hres', hmap, _⟩ := NodeLaws.validateV_map_inv vc
      rw [hres] at hres'; cases hres'
      obtain ⟨g2a, g2b⟩ := merge_map_right s f2 ab cf tr A t abc hres hmap cab cc h2
      obtain ⟨g3a, g3b⟩ := merge_map_right s f3 b cf tr A t bc hres hmap cb cc h3
      by_cases hat : t.rel = "atomic"
      · have ebc := g3a hat
        subst ebc
        obtain ⟨g4a, _⟩ := merge_map_right s f4 a cf tr A t abc' hres hmap ca cc h4
        rw [g2a hat, g4a hat]
      · obtain ⟨o1, rfl, p1, r1⟩ := g2b hat
        obtain ⟨o3, rfl, p3, r3⟩ := g3b hat
        obtain ⟨o4, rfl, p4, r4⟩ := (merge_map_right s f4 a o3 tr A t abc' hres hmap ca cbc h4).2 hat
        have hE := E_merge s f1 a b ab tr A t hres hmap hat vb ca cb na nb hk h1
        congr 1
        apply entries_ext o1 o4 p1 p4
        intro k
        refine assoc_opt s n hA (fieldType t k) (lookupField k (E a)) (lookupField k (E b)) (lookupField k cf)
          (lookupField k (E ab)) _ (lookupField k o3) _ ?_ ?_ ?_ ?_ (hE k) (r1 k) (r3 k) (r4 k)
        · intro x hx; exact child_facts a n da ca na k x hx
        · intro x hx
          obtain ⟨d1, d2, d3⟩ := child_facts b n db cb nb k x hx
          exact ⟨d1, child_valid s b tr A t hres hmap vb k x hx, d2, d3⟩
        · intro x hx
          obtain ⟨d1, d2, d3⟩ := child_facts (.map cf) n dc cc nc k x hx
          exact ⟨d1, child_valid s (.map cf) tr A t hres hmap vc k x hx, d2, d3⟩
        · intro x y hx hy; exact kindsKept_child a b hk k x y hx hy

/-- associativity of the merge on values without lists, when no non-empty map of the first operand faces a
scalar of the second: the two results are the same value -/
theorem merge_assoc (s : Schema) (tr : TypeRef) (a b c ab abc bc abc' : Value) (f1 f2 f3 f4 : Nat)
    (hb : validateV s false tr b = .ok ()) (hc : validateV s false tr c = .ok ())
    (hca : canon a = true) (hcb : canon b = true) (hcc : canon c = true)
    (hna : noLists a = true) (hnb : noLists b = true) (hnc : noLists c = true) (hk : kindsKept a b = true)
    (h1 : mergeNode s f1 (some a) (some b) tr = .ok (some ab)) (h2 : mergeNode s f2 (some ab) (some c) tr = .ok (some abc))
    (h3 : mergeNode s f3 (some b) (some c) tr = .ok (some bc)) (h4 : mergeNode s f4 (some a) (some bc) tr = .ok (some abc')) :
    abc = abc' :=
  assoc_all s (a.depth + b.depth + c.depth) tr a b c ab abc bc abc' f1 f2 f3 f4 (by omega) (by omega) (by omega)
    hb hc hca hcb hcc hna hnb hnc hk h1 h2 h3 h4

/-! ### a kind change in the middle breaks associativity -/

/-- an inline untyped scalar -/
def cxScalarTR : TypeRef := .mk none (.mk (some "untyped") none none) none
/-- an inline untyped scalar or map of untyped scalars -/
def cxTR : TypeRef := .mk none (.mk (some "untyped") none (some (.mk [] [] cxScalarTR ""))) none
def cxA : Value := .map [("x", .int 1)]
def cxB : Value := .int 5
def cxC : Value := .map [("y", .int 2)]
def cxAC : Value := .map [("x", .int 1), ("y", .int 2)]

theorem cx_valid_a : validateV ⟨[]⟩ false cxTR cxA = .ok () := by with_unfolding_all rfl
theorem cx_valid_b : validateV ⟨[]⟩ false cxTR cxB = .ok () := by with_unfolding_all rfl
theorem cx_valid_c : validateV ⟨[]⟩ false cxTR cxC = .ok () := by with_unfolding_all rfl
theorem cx_canon_a : C12.canonical cxA = true := by with_unfolding_all rfl
theorem cx_canon_b : C12.canonical cxB = true := by with_unfolding_all rfl
theorem cx_canon_c : C12.canonical cxC = true := by with_unfolding_all rfl
theorem cx_nl_a : noLists cxA = true := by with_unfolding_all rfl
theorem cx_nl_b : noLists cxB = true := by with_unfolding_all rfl
theorem cx_nl_c : noLists cxC = true := by with_unfolding_all rfl
theorem cx_ab : mergeNode ⟨[]⟩ 3 (some cxA) (some cxB) cxTR = .ok (some cxB) := by with_unfolding_all rfl
theorem cx_ab_c : mergeNode ⟨[]⟩ 3 (some cxB) (some cxC) cxTR = .ok (some cxC) := by with_unfolding_all rfl
theorem cx_a_bc : mergeNode ⟨[]⟩ 3 (some cxA) (some cxC) cxTR = .ok (some cxAC) := by with_unfolding_all rfl
theorem cx_differ : Value.equals cxC cxAC = false := by with_unfolding_all rfl
theorem cx_kinds : kindsKept cxA cxB = false := by with_unfolding_all rfl

end MA
end SMD
