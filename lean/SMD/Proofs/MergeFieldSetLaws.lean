/-
C12, the field set of the result of a merge (accepted repeat-free operands whose keyed lists carry
canonical key fields, `keysCanon`: implied by `keysScalar` and by `canon`): every member of the result's field set is a member of the left or of the right
operand's field set; every member of the right operand's field set is a member of the result's when
the right operand has no repeated map key and no null / empty-map entry under a declared field.
-/
import SMD.Proofs.MergeValidCore
import SMD.Proofs.CompareFieldSet
set_option linter.unusedSimpArgs false
set_option linter.unusedVariables false
namespace SMD
namespace MV
open NodeLaws CmpX

/-! ### the field-set walkers, one level -/

theorem pmem_map_cons_iff (pe : PE) (p : Path) (ps : List Path) :
    pmem p (ps.map (pe :: ·)) = true ↔ ∃ pe' rest, p = pe' :: rest ∧ PE.equals pe pe' = true ∧ pmem rest ps = true := by
  cases p with
  | nil => simp
  | cons pe' rest =>
    simp only [pmem_map_cons_cons, Bool.and_eq_true, List.cons.injEq]
    constructor
    · rintro ⟨h1, h2⟩; exact ⟨pe', rest, ⟨rfl, rfl⟩, h1, h2⟩
    · rintro ⟨_, _, ⟨rfl, rfl⟩, h1, h2⟩; exact ⟨h1, h2⟩

theorem pmem_single_iff (pe : PE) (p : Path) :
    pmem p [[pe]] = true ↔ ∃ pe', p = [pe'] ∧ PE.equals pe pe' = true := by
  cases p with
  | nil => simp [Path.equals]
  | cons pe' rest => cases rest <;> simp [Path.equals]

theorem fsFields_ok (s : Schema) (t : MapT) : ∀ (m : List (String × Value)) (ps : List Path),
    fsFields s t m = .ok ps → ∀ x ∈ m, ∃ sub, fsV s (fieldType t x.1) x.2 = .ok sub
  | [], _, _, x, hx => by cases hx
  | (k, v) :: rest, ps, h, x, hx => by
    rw [fsFields_cons] at h
    cases hsub : fsV s (fieldType t k) v with
    | err => cases hr : fsFields s t rest <;> simp [hsub, hr] at h
    | panic => cases hr : fsFields s t rest <;> simp [hsub, hr] at h
    | ok sub =>
      cases hr : fsFields s t rest with
      | err => simp [hsub, hr] at h
      | panic => simp [hsub, hr] at h
      | ok tail =>
        rcases List.mem_cons.1 hx with rfl | hx
        · exact ⟨sub, hsub⟩
        · exact fsFields_ok s t rest tail hr x hx

theorem fsFields_mem (s : Schema) (t : MapT) : ∀ (m : List (String × Value)) (ps : List Path),
    fsFields s t m = .ok ps → ∀ p, pmem p ps = true ↔
      ∃ x ∈ m, ∃ sub, fsV s (fieldType t x.1) x.2 = .ok sub ∧
        (pmem p (sub.map (PE.field x.1 :: ·)) = true ∨ pmem p (selfPaths t x.1 x.2) = true)
  | [], ps, h, p => by
    simp only [fsFields, Res.ok.injEq] at h
    subst h
    simp
  | (k, v) :: rest, ps, h, p => by
    rw [fsFields_cons] at h
    cases hsub : fsV s (fieldType t k) v with
    | err => cases hr : fsFields s t rest <;> simp [hsub, hr] at h
    | panic => cases hr : fsFields s t rest <;> simp [hsub, hr] at h
    | ok sub =>
      cases hr : fsFields s t rest with
      | err => simp [hsub, hr] at h
      | panic => simp [hsub, hr] at h
      | ok tail =>
        simp only [hsub, hr, Res.ok.injEq] at h
        subst h
        have ih := fsFields_mem s t rest tail hr p
        simp only [pmem_append, Bool.or_eq_true, ih, List.mem_cons, exists_eq_or_imp, hsub, Res.ok.injEq,
          exists_eq_left']

theorem fsItems_ok (s : Schema) (t : ListT) : ∀ (l : List Value) (ps : List Path),
    fsItems s t [] l = .ok ps → ∀ c ∈ l, ∃ sub, fsV s t.elementType c = .ok sub
  | [], _, _, x, hx => by cases hx
  | c :: rest, ps, h, x, hx => by
    rw [fsItems_cons] at h
    simp only [List.any_nil, Bool.false_eq_true, if_false] at h
    cases hsub : fsV s t.elementType c with
    | err => cases hr : fsItems s t [] rest <;> simp [hsub, hr] at h
    | panic => cases hr : fsItems s t [] rest <;> simp [hsub, hr] at h
    | ok sub =>
      cases hr : fsItems s t [] rest with
      | err => simp [hsub, hr] at h
      | panic => simp [hsub, hr] at h
      | ok tail =>
        rcases List.mem_cons.1 hx with rfl | hx
        · exact ⟨sub, hsub⟩
        · exact fsItems_ok s t rest tail hr x hx

theorem fsItems_mem (s : Schema) (t : ListT) : ∀ (l : List Value) (ps : List Path),
    fsItems s t [] l = .ok ps → ∀ p, pmem p ps = true ↔
      ∃ c ∈ l, ∃ sub, fsV s t.elementType c = .ok sub ∧
        (pmem p (sub.map (peOf s t c :: ·)) = true ∨ pmem p [[peOf s t c]] = true)
  | [], ps, h, p => by
    simp only [fsItems, Res.ok.injEq] at h
    subst h
    simp
  | c :: rest, ps, h, p => by
    rw [fsItems_cons] at h
    simp only [List.any_nil, Bool.false_eq_true, if_false] at h
    cases hsub : fsV s t.elementType c with
    | err => cases hr : fsItems s t [] rest <;> simp [hsub, hr] at h
    | panic => cases hr : fsItems s t [] rest <;> simp [hsub, hr] at h
    | ok sub =>
      cases hr : fsItems s t [] rest with
      | err => simp [hsub, hr] at h
      | panic => simp [hsub, hr] at h
      | ok tail =>
        simp only [hsub, hr, Res.ok.injEq] at h
        subst h
        have ih := fsItems_mem s t rest tail hr p
        simp only [pmem_append, Bool.or_eq_true, ih, List.mem_cons, exists_eq_or_imp, hsub, Res.ok.injEq,
          exists_eq_left', or_assoc]

theorem fsV_map_eq (s : Schema) (tr : TypeRef) (t : MapT) (m : List (String × Value))
    (hk : resolveKind s tr (some (.map m)) = some (.map t)) (hna : t.rel ≠ "atomic") :
    fsV s tr (.map m) = fsFields s t m := by
  rw [fsV, hk]
  simp [hna]

theorem fsV_list_eq (s : Schema) (tr : TypeRef) (t : ListT) (l : List Value)
    (hk : resolveKind s tr (some (.list l)) = some (.list t)) (hna : t.rel ≠ "atomic")
    (hd : dupMarks s t [] [] l = []) :
    fsV s tr (.list l) = fsItems s t [] l := by
  rw [fsV, hk]
  simp only [hd, List.map_nil, List.nil_append]
  have : (t.rel == "atomic") = false := by simpa using hna
  simp only [this, Bool.false_eq_true, if_false]
  cases fsItems s t [] l <;> rfl

/-- a value that is not a map has no member under a (non-atomic) map type -/
theorem fsV_map_kind_other (s : Schema) (tr : TypeRef) (t : MapT) (v : Value)
    (hk : resolveKind s tr (some v) = some (.map t)) (hna : t.rel ≠ "atomic") (hv : v.isMap = false) :
    fsV s tr v = .ok [] := by
  cases v <;> simp [Value.isMap] at hv <;> simp [fsV, hk, hna]

/-- a value that is not a list has no member under a (non-atomic) list type -/
theorem fsV_list_kind_other (s : Schema) (tr : TypeRef) (t : ListT) (v : Value)
    (hk : resolveKind s tr (some v) = some (.list t)) (hna : t.rel ≠ "atomic") (hv : v.isList = false) :
    fsV s tr v = .ok [] := by
  cases v <;> simp [Value.isList] at hv <;> simp [fsV, hk, hna]

/-- a value that is neither a list nor a map has no member but the root -/
theorem fsV_leaf_pmem (s : Schema) (tr : TypeRef) (v : Value) (ps : List Path) (hl : v.isList = false)
    (hm : v.isMap = false) (h : fsV s tr v = .ok ps) (p : Path) (hp : pmem p ps = true) : p = [] := by
  rw [fsV_char_leaf s tr v ps hl hm h] at hp
  cases p with
  | nil => rfl
  | cons pe rest => rw [inFS_leaf_cons s tr v pe rest hl hm] at hp; cases hp

/-! ### membership in the field set of an operand -/

/-- membership of a path in the field set of an operand that is present -/
def FSO (s : Schema) (tr : TypeRef) (x : Option Value) (p : Path) : Prop :=
  ∃ v ps, x = some v ∧ fsV s tr v = .ok ps ∧ pmem p ps = true

theorem fso_none (s : Schema) (tr : TypeRef) (p : Path) : ¬ FSO s tr none p := by
  rintro ⟨v, ps, h, _⟩; cases h

theorem fsV_ok_of_conforms (s : Schema) (d : Bool) (tr : TypeRef) (v : Value)
    (h : Conf.conforms s d tr v = true) : ∃ ps, fsV s tr v = .ok ps := by
  apply fsV_total s v tr
  rw [validateV_iff]
  cases d with
  | true => exact h
  | false => exact conforms_dup_mono s v tr h

theorem fso_lift_field (s : Schema) (ks : Bool) (tr : TypeRef) (a : Atom) (t : MapT) (x : Option Value)
    (k : String) (w : Value) (p : Path)
    (hres : s.resolve tr = some a) (hamap : a.map = some t) (hna : t.rel ≠ "atomic")
    (hx : OptOK s ks false tr x) (hl : lookupField k ((asMap x).getD []) = some w)
    (h : (∃ sub, fsV s (fieldType t k) w = .ok sub ∧ pmem p (sub.map (PE.field k :: ·)) = true) ∨
      pmem p (selfPaths t k w) = true) : FSO s tr x p := by
  have hxe := asMap_getD_lookup x k w hl
  obtain ⟨ps, hps⟩ := fsV_ok_of_conforms s false tr _ (hx _ hxe).1
  refine ⟨_, ps, hxe, hps, ?_⟩
  rw [fsV_map_eq s tr t _ (resolveKind_map s tr a t _ hres hamap) hna] at hps
  rw [fsFields_mem s t _ ps hps p]
  have hmem := mn_lookupField_mem k w _ hl
  obtain ⟨sub0, hsub0⟩ := fsFields_ok s t _ ps hps (k, w) hmem
  rcases h with ⟨sub, hsub, hp⟩ | hp
  · exact ⟨(k, w), hmem, sub, hsub, .inl hp⟩
  · exact ⟨(k, w), hmem, sub0, hsub0, .inr hp⟩

theorem dupMarks_nil_of_ok (s : Schema) (ks : Bool) (tr : TypeRef) (a : Atom) (t : ListT) (l : List Value)
    (hres : s.resolve tr = some a) (halist : a.list = some t) (hrel : t.rel = "associative")
    (h : Conf.conforms s false tr (.list l) = true) : dupMarks s t [] [] l = [] := by
  rw [← validateV_iff, validateV_list, hres] at h
  simp only [halist] at h
  exact dupMarks_nil s t hrel l [] 0 h

theorem fso_lift_item (s : Schema) (ks : Bool) (tr : TypeRef) (a : Atom) (t : ListT) (x : Option Value)
    (c : Value) (p : Path)
    (hres : s.resolve tr = some a) (halist : a.list = some t) (hna : t.rel ≠ "atomic")
    (hrel : t.rel = "associative")
    (hx : OptOK s ks false tr x) (hc : c ∈ (asList x).getD [])
    (h : (∃ sub, fsV s t.elementType c = .ok sub ∧ pmem p (sub.map (peOf s t c :: ·)) = true) ∨
      pmem p [[peOf s t c]] = true) : FSO s tr x p := by
  have hxe := asList_getD_mem x c hc
  obtain ⟨ps, hps⟩ := fsV_ok_of_conforms s false tr _ (hx _ hxe).1
  refine ⟨_, ps, hxe, hps, ?_⟩
  rw [fsV_list_eq s tr t _ (resolveKind_list s tr a t _ hres halist) hna
    (dupMarks_nil_of_ok s ks tr a t _ hres halist hrel (hx _ hxe).1)] at hps
  rw [fsItems_mem s t _ ps hps p]
  obtain ⟨sub0, hsub0⟩ := fsItems_ok s t _ ps hps c hc
  rcases h with ⟨sub, hsub, hp⟩ | hp
  · exact ⟨c, hc, sub, hsub, .inl hp⟩
  · exact ⟨c, hc, sub0, hsub0, .inr hp⟩

/-- a null or an empty map comes out of a merge only as the surviving operand itself -/
theorem merge_hollow (s : Schema) (fuel : Nat) (lo ro : Option Value) (tr : TypeRef) (v : Value)
    (h : mergeNode s fuel lo ro tr = .ok (some v)) (hv : (v.isNull || emptyMapLit v) = true) :
    some v = keepRHS lo ro := by
  obtain ⟨n, a, _, hres, hh⟩ := mergeNode_handle s _ lo ro tr _ h
  cases hk : atomKind (deduceAtom a (keepRHS lo ro)) with
  | invalid => unfold mergeHandle at hh; rw [hk] at hh; cases hh
  | scalar t => exact mergeHandle_scalar s _ lo ro _ t hk _ hh
  | map t =>
    rcases mergeHandle_map s _ lo ro _ t hk _ hh with h1 | ⟨outm, _, _, _, h2⟩
    · exact h1
    · rcases h2 with ⟨_, ho⟩ | ⟨hne, ho⟩
      · cases ho
      · cases ho
        cases outm with
        | nil => exact absurd rfl hne
        | cons y ys => simp [Value.isNull, emptyMapLit] at hv
  | list t =>
    rcases mergeHandle_list s _ lo ro _ t hk _ hh with h1 | ⟨_, _, _, _, res, _, _, _, _, _, h2⟩
    · exact h1
    · rcases h2 with ⟨_, ho⟩ | ⟨_, ho⟩
      · cases ho
      · cases ho; simp [Value.isNull, emptyMapLit] at hv

theorem selfPaths_undeclared (t : MapT) (k : String) (v : Value) (h : (t.findField k).isNone = true) :
    selfPaths t k v = [[.field k]] := by
  unfold selfPaths
  split
  · rfl
  · simp [h]

theorem selfPaths_cases (t : MapT) (k : String) (v : Value) (p : Path) (h : pmem p (selfPaths t k v) = true) :
    pmem p [[PE.field k]] = true ∧ ((v.isNull || emptyMapLit v) = true ∨ (t.findField k).isNone = true) := by
  unfold selfPaths at h
  split at h
  · next h1 => exact ⟨h, .inl h1⟩
  · split at h
    · next h2 => exact ⟨h, .inr h2⟩
    · simp at h

theorem selfPaths_hollow (t : MapT) (k : String) (v : Value) (h : (v.isNull || emptyMapLit v) = true) :
    selfPaths t k v = [[.field k]] := by
  unfold selfPaths; rw [if_pos h]

end MV

/-! ### the hypothesis on the right operand for the converse inclusion -/

mutual
/-- in every map visited by the typed walkers (atomic nodes are leaves): no key is repeated, and a null
or an empty map is only found under a key that is not a declared field (such an entry is a member of
the field set in its own right, and ceases to be one when the merge fills it from the other operand) -/
def entriesPlain (s : Schema) (tr : TypeRef) : Value → Bool
  | .list l =>
    match resolveKind s tr (some (.list l)) with
    | some (.list t) => t.rel == "atomic" || entriesPlainItems s t l
    | _ => true
  | .map m =>
    match resolveKind s tr (some (.map m)) with
    | some (.map t) => t.rel == "atomic" || entriesPlainFields s t m
    | _ => true
  | _ => true
def entriesPlainItems (s : Schema) (t : ListT) : List Value → Bool
  | [] => true
  | v :: vs => entriesPlain s t.elementType v && entriesPlainItems s t vs
def entriesPlainFields (s : Schema) (t : MapT) : List (String × Value) → Bool
  | [] => true
  | (k, v) :: rest =>
    ((t.findField k).isNone || !(v.isNull || NodeLaws.emptyMapLit v)) && (lookupField k rest).isNone &&
      entriesPlain s (fieldType t k) v && entriesPlainFields s t rest
end

namespace MV
open NodeLaws CmpX

theorem entriesPlainItems_mem (s : Schema) (t : ListT) :
    ∀ (l : List Value), entriesPlainItems s t l = true → ∀ c ∈ l, entriesPlain s t.elementType c = true
  | [], _, c, hc => by cases hc
  | v :: vs, h, c, hc => by
    simp only [entriesPlainItems, Bool.and_eq_true] at h
    rcases List.mem_cons.1 hc with rfl | hc
    · exact h.1
    · exact entriesPlainItems_mem s t vs h.2 c hc

theorem entriesPlainFields_mem (s : Schema) (t : MapT) :
    ∀ (m : List (String × Value)), entriesPlainFields s t m = true → ∀ x ∈ m,
      lookupField x.1 m = some x.2 ∧
      ((x.2.isNull || emptyMapLit x.2) = true → (t.findField x.1).isNone = true) ∧
      entriesPlain s (fieldType t x.1) x.2 = true
  | [], _, c, hc => by cases hc
  | (k, v) :: rest, h, x, hx => by
    simp only [entriesPlainFields, Bool.and_eq_true] at h
    obtain ⟨⟨⟨h1, h2⟩, h3⟩, h4⟩ := h
    rcases List.mem_cons.1 hx with rfl | hx
    · refine ⟨by simp [lookupField], ?_, h3⟩
      intro hh
      simpa [hh] using h1
    · obtain ⟨i1, i2, i3⟩ := entriesPlainFields_mem s t rest h4 x hx
      refine ⟨?_, i2, i3⟩
      have hne : (x.1 == k) = false := by
        cases he : x.1 == k with
        | false => rfl
        | true =>
          have : x.1 = k := by simpa using he
          rw [← this, i1] at h2
          cases h2
      simp only [lookupField, hne, Bool.false_eq_true, if_false]
      exact i1

theorem resolveKind_of_kind (s : Schema) (tr : TypeRef) (a : Atom) (v : Value) (K : AtomKind)
    (hres : s.resolve tr = some a) (hk : atomKind (deduceAtom a (some v)) = K) :
    resolveKind s tr (some v) = some K := by
  simp [resolveKind, hres, hk]

/-! ### every member of the result's field set is a member of an operand's field set -/

theorem merge_fs_sub (s : Schema) : ∀ (fuel : Nat) (lo ro : Option Value) (tr : TypeRef) (out : Value),
    OptOK s true false tr lo → OptOK s true false tr ro →
    mergeNode s fuel lo ro tr = .ok (some out) →
    ∀ fo p, fsV s tr out = .ok fo → pmem p fo = true → FSO s tr lo p ∨ FSO s tr ro p := by
  intro fuel
  induction fuel with
  | zero => intro lo ro tr out _ _ h; cases h
  | succ n ih =>
    intro lo ro tr out hlo hro h fo p hfo hp
    have hconf : Conf.conforms s false tr out = true := merge_conforms s false _ lo ro tr out hlo hro h
    obtain ⟨n', a, hf, hres, hh⟩ := mergeNode_handle s _ lo ro tr _ h
    cases hf
    have hkeep : some out = keepRHS lo ro → FSO s tr lo p ∨ FSO s tr ro p := by
      intro hv
      rcases keepRHS_cases lo ro out hv with hr | ⟨_, hl⟩
      · exact .inr ⟨out, fo, hr, hfo, hp⟩
      · exact .inl ⟨out, fo, hl, hfo, hp⟩
    cases hk : atomKind (deduceAtom a (keepRHS lo ro)) with
    | invalid => unfold mergeHandle at hh; rw [hk] at hh; cases hh
    | scalar t => exact hkeep (mergeHandle_scalar s _ lo ro _ t hk _ hh)
    | map t =>
      have hamap := atomKind_deduce_map_inv a _ t hk
      rcases mergeHandle_map s _ lo ro _ t hk _ hh with h1 | ⟨outm, hf, hc, hna, h2⟩
      · exact hkeep h1
      · rcases h2 with ⟨_, ho⟩ | ⟨_, ho⟩
        · cases ho
        · cases ho
          rw [fsV_map_eq s tr t outm (resolveKind_map s tr a t outm hres hamap) hna] at hfo
          obtain ⟨x, hx, sub, hsub, hcase⟩ := (fsFields_mem s t outm fo hfo p).1 hp
          obtain ⟨s1, _, _⟩ := foldl_mergeMapStep_spec _ t _ _ _ _ _ hf
          rcases s1 x hx with hx0 | ⟨hxk, hrec⟩
          · cases hx0
          · have hL := optOK_fields s true false tr a t lo hres hamap hna hlo x.1
            have hR := optOK_fields s true false tr a t ro hres hamap hna hro x.1
            rcases hcase with hA | hB
            · obtain ⟨pe', rest, rfl, hpe, hrest⟩ := (pmem_map_cons_iff _ _ _).1 hA
              rcases ih _ _ _ _ (fun w hw => (hL w hw).2 w rfl) (fun w hw => (hR w hw).2 w rfl) hrec sub rest hsub hrest
                with ⟨w, ps, hw, hps, hm⟩ | ⟨w, ps, hw, hps, hm⟩
              · exact .inl (fso_lift_field s true tr a t lo x.1 w _ hres hamap hna hlo hw
                  (.inl ⟨ps, hps, (pmem_map_cons_iff _ _ _).2 ⟨pe', rest, rfl, hpe, hm⟩⟩))
              · exact .inr (fso_lift_field s true tr a t ro x.1 w _ hres hamap hna hro hw
                  (.inl ⟨ps, hps, (pmem_map_cons_iff _ _ _).2 ⟨pe', rest, rfl, hpe, hm⟩⟩))
            · obtain ⟨hp1, hcond⟩ := selfPaths_cases t x.1 x.2 p hB
              rcases hcond with hhol | hund
              · have hkr := merge_hollow s n _ _ _ x.2 hrec hhol
                rcases keepRHS_cases _ _ _ hkr with hr | ⟨_, hl⟩
                · exact .inr (fso_lift_field s true tr a t ro x.1 x.2 p hres hamap hna hro hr
                    (.inr (by rw [selfPaths_hollow t _ _ hhol]; exact hp1)))
                · exact .inl (fso_lift_field s true tr a t lo x.1 x.2 p hres hamap hna hlo hl
                    (.inr (by rw [selfPaths_hollow t _ _ hhol]; exact hp1)))
              · rw [mem_zipKeys] at hxk
                rcases hxk with hs | hs
                · obtain ⟨w, hw⟩ := Option.isSome_iff_exists.1 hs
                  exact .inl (fso_lift_field s true tr a t lo x.1 w p hres hamap hna hlo hw
                    (.inr (by rw [selfPaths_undeclared t _ w hund]; exact hp1)))
                · obtain ⟨w, hw⟩ := Option.isSome_iff_exists.1 hs
                  exact .inr (fso_lift_field s true tr a t ro x.1 w p hres hamap hna hro hw
                    (.inr (by rw [selfPaths_undeclared t _ w hund]; exact hp1)))
    | list t =>
      have halist := atomKind_deduce_list_inv a _ t hk
      rcases mergeHandle_list s _ lo ro _ t hk _ hh with h1 | ⟨rpes, obsR, lpes, obsL, res, hir, hil, hloop, hc, hna, h2⟩
      · exact hkeep h1
      · rcases h2 with ⟨_, ho⟩ | ⟨_, ho⟩
        · cases ho
        · cases ho
          have F := listFacts s tr a t lo ro lpes obsL rpes obsR hres halist hna hlo hro hir hil hc
          have hd := dupMarks_nil_of_ok s true tr a t res hres halist F.hrel hconf
          rw [fsV_list_eq s tr t res (resolveKind_list s tr a t res hres halist) hna hd] at hfo
          obtain ⟨c, hc', sub, hsub, hcase⟩ := (fsItems_mem s t res fo hfo p).1 hp
          obtain ⟨m1, _, _, _⟩ := mergeLoop_spec _ _ _ _ _ _ _ _ _ _ hloop
          rcases m1 c hc' with h0 | ⟨pe, x, hm, hn, hi⟩ | ⟨pe, rpe, hm, he, hi⟩
          · cases h0
          · have hid := F.id_left n hm hi
            have hpc : peOf s t c = pe := peOf_of_identity F.hrel hid
            have hpx : peOf s t x = pe := peOf_of_identity F.hrel (F.lid _ hm)
            have hxm := F.lmem hm
            left
            rcases hcase with hA | hB
            · obtain ⟨pe', rest, rfl, hpe, hrest⟩ := (pmem_map_cons_iff _ _ _).1 hA
              rcases ih _ _ _ _ (F.litem x hxm).1 (optOK_none s _ _ _) hi sub rest hsub hrest
                with ⟨w, ps, hw, hps, hm'⟩ | hnone
              · cases hw
                exact fso_lift_item s true tr a t lo x _ hres halist hna F.hrel hlo hxm
                  (.inl ⟨ps, hps, (pmem_map_cons_iff _ _ _).2 ⟨pe', rest, rfl, by rw [hpx, ← hpc]; exact hpe, hm'⟩⟩)
              · exact absurd hnone (fso_none s _ _)
            · exact fso_lift_item s true tr a t lo x _ hres halist hna F.hrel hlo hxm
                (.inr (by rw [hpx, ← hpc]; exact hB))
          · obtain ⟨p0, hp0, rfl, hget⟩ := F.right_of hm he
            rw [hget] at hi
            obtain ⟨po, hpo, hpe0⟩ := F.id_right n hp0 he hi
            have hpc : peOf s t c = po := peOf_of_identity F.hrel hpo
            have hpr : peOf s t p0.2 = p0.1 := peOf_of_identity F.hrel (F.rid _ hp0)
            have hrm := F.rmem hp0
            rw [hpc] at hcase
            rcases hcase with hA | hB
            · obtain ⟨pe', rest, rfl, hpe, hrest⟩ := (pmem_map_cons_iff _ _ _).1 hA
              have hr0 : PE.equals p0.1 pe' = true := PE.equals_trans (PE.equals_symm_of hpe0) hpe
              rcases ih _ _ _ _ (F.obsL_ok p0.2 ((F.ritem _ hrm).1 _ rfl).1 pe) (F.ritem _ hrm).1 hi sub rest hsub hrest
                with ⟨w, ps, hw, hps, hm'⟩ | ⟨w, ps, hw, hps, hm'⟩
              · rcases F.lobs pe w hw with rfl | ⟨p', hp', hpe', rfl⟩
                · have := fsV_leaf_pmem s _ .null ps rfl rfl hps rest hm'
                  subst this
                  right
                  exact fso_lift_item s true tr a t ro p0.2 _ hres halist hna F.hrel hro hrm
                    (.inr ((pmem_single_iff _ _).2 ⟨pe', rfl, by rw [hpr]; exact hr0⟩))
                · left
                  have hpl : peOf s t p'.2 = p'.1 := peOf_of_identity F.hrel (F.lid _ hp')
                  exact fso_lift_item s true tr a t lo p'.2 _ hres halist hna F.hrel hlo (F.lmem hp')
                    (.inl ⟨ps, hps, (pmem_map_cons_iff _ _ _).2 ⟨pe', rest, rfl,
                      by rw [hpl]; exact PE.equals_trans hpe' (PE.equals_trans he hr0), hm'⟩⟩)
              · cases hw
                right
                exact fso_lift_item s true tr a t ro p0.2 _ hres halist hna F.hrel hro hrm
                  (.inl ⟨ps, hps, (pmem_map_cons_iff _ _ _).2 ⟨pe', rest, rfl, by rw [hpr]; exact hr0, hm'⟩⟩)
            · right
              obtain ⟨pe', rfl, hpe⟩ := (pmem_single_iff _ _).1 hB
              exact fso_lift_item s true tr a t ro p0.2 _ hres halist hna F.hrel hro hrm
                (.inr ((pmem_single_iff _ _).2 ⟨pe', rfl,
                  by rw [hpr]; exact PE.equals_trans (PE.equals_symm_of hpe0) hpe⟩))

/-! ### every member of the right operand's field set is a member of the result's -/

theorem merge_fs_right (s : Schema) : ∀ (fuel : Nat) (lo : Option Value) (r : Value) (tr : TypeRef) (out : Value),
    OptOK s true false tr lo → OptOK s true false tr (some r) → entriesPlain s tr r = true →
    mergeNode s fuel lo (some r) tr = .ok (some out) →
    ∀ fr p, fsV s tr r = .ok fr → pmem p fr = true → ∃ fo, fsV s tr out = .ok fo ∧ pmem p fo = true := by
  intro fuel
  induction fuel with
  | zero => intro lo r tr out _ _ _ h; cases h
  | succ n ih =>
    intro lo r tr out hlo hro hplain h fr p hfr hp
    have hconf : Conf.conforms s false tr out = true := merge_conforms s false _ lo (some r) tr out hlo hro h
    obtain ⟨fo, hfo⟩ := fsV_ok_of_conforms s false tr out hconf
    obtain ⟨n', a, hf, hres, hh⟩ := mergeNode_handle s _ lo (some r) tr _ h
    cases hf
    simp only [keepRHS] at hh
    have hkeep : some out = keepRHS lo (some r) → ∃ fo, fsV s tr out = .ok fo ∧ pmem p fo = true := by
      intro hv
      simp only [keepRHS] at hv
      cases hv
      exact ⟨fr, hfr, hp⟩
    cases hk : atomKind (deduceAtom a (some r)) with
    | invalid => unfold mergeHandle at hh; rw [hk] at hh; cases hh
    | scalar t => exact hkeep (mergeHandle_scalar s _ lo _ _ t hk _ hh)
    | map t =>
      have hamap := atomKind_deduce_map_inv a _ t hk
      have hkr := resolveKind_of_kind s tr a r _ hres hk
      rcases mergeHandle_map s _ lo _ _ t hk _ hh with h1 | ⟨outm, hf, hc, hna, h2⟩
      · exact hkeep h1
      · rcases h2 with ⟨_, ho⟩ | ⟨_, ho⟩
        · cases ho
        · cases ho
          cases r with
          | map rf =>
            rw [fsV_map_eq s tr t rf hkr hna] at hfr
            obtain ⟨x, hx, sub, hsub, hcase⟩ := (fsFields_mem s t rf fr hfr p).1 hp
            rw [entriesPlain, hkr] at hplain
            simp only [Bool.or_eq_true, beq_iff_eq, hna, false_or] at hplain
            obtain ⟨hlook, hund, hpl⟩ := entriesPlainFields_mem s t rf hplain x hx
            have hrf : (asMap (some (Value.map rf))).getD [] = rf := rfl
            rw [hrf] at hf
            obtain ⟨_, _, s3⟩ := foldl_mergeMapStep_spec _ t _ _ _ _ _ hf
            have hz : x.1 ∈ zipKeys ((asMap lo).getD []) rf := by
              rw [mem_zipKeys]; right; rw [hlook]; rfl
            obtain ⟨o, hrec, hmem⟩ := s3 x.1 hz
            have hsome := mergeNode_isSome s _ _ _ _ _ hrec
            cases o with
            | none => cases hsome
            | some v' =>
              rw [hlook] at hrec
              have hvm := hmem v' rfl
              have hfo' := hfo
              rw [fsV_map_eq s tr t outm (resolveKind_map s tr a t outm hres hamap) hna] at hfo'
              refine ⟨fo, hfo, (fsFields_mem s t outm fo hfo' p).2 ?_⟩
              have hL := optOK_fields s true false tr a t lo hres hamap hna hlo x.1
              have hR := optOK_fields s true false tr a t (some (.map rf)) hres hamap hna hro x.1 x.2 hlook
              rcases hcase with hA | hB
              · obtain ⟨pe', rest, rfl, hpe, hrest⟩ := (pmem_map_cons_iff _ _ _).1 hA
                obtain ⟨fo1, hfo1, hm1⟩ := ih _ _ _ _ (fun w hw => (hL w hw).2 w rfl) hR.2 hpl hrec sub rest hsub hrest
                exact ⟨(x.1, v'), hvm, fo1, hfo1, .inl ((pmem_map_cons_iff _ _ _).2 ⟨pe', rest, rfl, hpe, hm1⟩)⟩
              · obtain ⟨hp1, hcond⟩ := selfPaths_cases t x.1 x.2 p hB
                have hu : (t.findField x.1).isNone = true := by
                  rcases hcond with hhol | hu
                  · exact hund hhol
                  · exact hu
                obtain ⟨sub1, hsub1⟩ := fsFields_ok s t outm fo hfo' (x.1, v') hvm
                exact ⟨(x.1, v'), hvm, sub1, hsub1, .inr (by rw [selfPaths_undeclared t _ v' hu]; exact hp1)⟩
          | null => rw [fsV_map_kind_other s tr t _ hkr hna rfl] at hfr; cases hfr; simp at hp
          | bool b => rw [fsV_map_kind_other s tr t _ hkr hna rfl] at hfr; cases hfr; simp at hp
          | int i => rw [fsV_map_kind_other s tr t _ hkr hna rfl] at hfr; cases hfr; simp at hp
          | float u z => rw [fsV_map_kind_other s tr t _ hkr hna rfl] at hfr; cases hfr; simp at hp
          | str b => rw [fsV_map_kind_other s tr t _ hkr hna rfl] at hfr; cases hfr; simp at hp
          | list l => rw [fsV_map_kind_other s tr t _ hkr hna rfl] at hfr; cases hfr; simp at hp
    | list t =>
      have halist := atomKind_deduce_list_inv a _ t hk
      have hkr := resolveKind_of_kind s tr a r _ hres hk
      rcases mergeHandle_list s _ lo _ _ t hk _ hh with h1 | ⟨rpes, obsR, lpes, obsL, res, hir, hil, hloop, hc, hna, h2⟩
      · exact hkeep h1
      · rcases h2 with ⟨_, ho⟩ | ⟨_, ho⟩
        · cases ho
        · cases ho
          have F := listFacts s tr a t lo _ lpes obsL rpes obsR hres halist hna hlo hro hir hil hc
          cases r with
          | list rl =>
            have hdr := dupMarks_nil_of_ok s true tr a t rl hres halist F.hrel (hro _ rfl).1
            rw [fsV_list_eq s tr t rl hkr hna hdr] at hfr
            obtain ⟨c, hc', sub, hsub, hcase⟩ := (fsItems_mem s t rl fr hfr p).1 hp
            rw [entriesPlain, hkr] at hplain
            simp only [Bool.or_eq_true, beq_iff_eq, hna, false_or] at hplain
            have hpl := entriesPlainItems_mem s t rl hplain c hc'
            have hrl : (asList (some (Value.list rl))).getD [] = rl := rfl
            have hcm : c ∈ rpes.map (·.2) := by rw [F.rsnd, hrl]; exact hc'
            obtain ⟨p0, hp0, rfl⟩ := List.mem_map.1 hcm
            obtain ⟨_, _, m3, _⟩ := mergeLoop_spec _ _ _ _ _ _ _ _ _ _ hloop
            obtain ⟨pe, o, he, hi, hmem⟩ := m3 p0.1 (List.mem_map_of_mem hp0)
            have hsome := mergeNode_isSome s _ _ _ _ _ hi
            cases o with
            | none => cases hsome
            | some v1 =>
              have hget : pemGet pe obsR = some p0.2 := by rw [pemGet_congr he]; exact F.rget p0 hp0
              rw [hget] at hi
              obtain ⟨po, hpo, hpe0⟩ := F.id_right n hp0 he hi
              have hpc : peOf s t v1 = po := peOf_of_identity F.hrel hpo
              have hpr : peOf s t p0.2 = p0.1 := peOf_of_identity F.hrel (F.rid _ hp0)
              have hrm := F.rmem hp0
              have hd := dupMarks_nil_of_ok s true tr a t res hres halist F.hrel hconf
              have hfo' := hfo
              rw [fsV_list_eq s tr t res (resolveKind_list s tr a t res hres halist) hna hd] at hfo'
              refine ⟨fo, hfo, (fsItems_mem s t res fo hfo' p).2 ?_⟩
              rw [hpr] at hcase
              rcases hcase with hA | hB
              · obtain ⟨pe', rest, rfl, hpe, hrest⟩ := (pmem_map_cons_iff _ _ _).1 hA
                obtain ⟨fo1, hfo1, hm1⟩ := ih _ _ _ _ (F.obsL_ok p0.2 ((F.ritem _ hrm).1 _ rfl).1 pe) (F.ritem _ hrm).1
                  hpl hi sub rest hsub hrest
                exact ⟨v1, hmem v1 rfl, fo1, hfo1, .inl ((pmem_map_cons_iff _ _ _).2
                  ⟨pe', rest, rfl, by rw [hpc]; exact PE.equals_trans hpe0 hpe, hm1⟩)⟩
              · obtain ⟨pe', rfl, hpe⟩ := (pmem_single_iff _ _).1 hB
                obtain ⟨sub1, hsub1⟩ := fsItems_ok s t res fo hfo' v1 (hmem v1 rfl)
                exact ⟨v1, hmem v1 rfl, sub1, hsub1, .inr ((pmem_single_iff _ _).2
                  ⟨pe', rfl, by rw [hpc]; exact PE.equals_trans hpe0 hpe⟩)⟩
          | null => rw [fsV_list_kind_other s tr t _ hkr hna rfl] at hfr; cases hfr; simp at hp
          | bool b => rw [fsV_list_kind_other s tr t _ hkr hna rfl] at hfr; cases hfr; simp at hp
          | int i => rw [fsV_list_kind_other s tr t _ hkr hna rfl] at hfr; cases hfr; simp at hp
          | float u z => rw [fsV_list_kind_other s tr t _ hkr hna rfl] at hfr; cases hfr; simp at hp
          | str b => rw [fsV_list_kind_other s tr t _ hkr hna rfl] at hfr; cases hfr; simp at hp
          | map m => rw [fsV_list_kind_other s tr t _ hkr hna rfl] at hfr; cases hfr; simp at hp

/-! ### from path lists to sets -/

theorem has_ofPaths_pmem (ps : List Path) (q : Path) :
    (SetTrie.ofPaths ps).has q = (!q.isEmpty && pmem q ps) := by
  rw [SetTrie.has_ofPaths]
  cases q with
  | nil =>
    simp only [List.isEmpty_nil, Bool.not_true, Bool.false_and, List.any_eq_false]
    intro p _
    cases p <;> simp [Path.equals]
  | cons pe rest =>
    simp only [List.isEmpty_cons, Bool.not_false, Bool.true_and, pmem]
    congr 1
    funext p
    cases p <;> simp [Path.equals]

end MV
end SMD
