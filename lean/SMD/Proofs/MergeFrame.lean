/-
Helper lemmas for SMD/Properties/C02.lean (the frame law of the merge): what the merging walker does to
the nodes only its left operand has, against the independent path resolver `Nodes.valueAt`.
-/
import SMD.Proofs.MergeNodes
import SMD.Proofs.FirstApply
import SMD.Proofs.NodeRemove
import SMD.Spec.Nodes
set_option linter.unusedSimpArgs false
set_option linter.unusedVariables false
namespace SMD

/-! ### the hypotheses of the frame law -/

/-- the right operand says nothing at or above `p` (the body of `SMD.C02.RSilent`) -/
def silentAbove (s : Schema) (tr : TypeRef) (r : Value) (p : Path) : Prop :=
  Nodes.valueAt s tr r p = none ∧
  ∀ q, q <+: p → q ≠ p → ∀ x, Nodes.valueAt s tr r q = some x → x.isScalar = false ∧ x ≠ .null

/-- both maps or both lists -/
def sameKind : Value → Value → Bool
  | .map _, .map _ => true
  | .list _, .list _ => true
  | _, _ => false

/-- all the items of a list a path element designates (`Nodes.itemAt` is the first of them) -/
def itemsAt (s : Schema) (lt : ListT) (pe : PE) : List Value → List Value
  | [] => []
  | item :: rest =>
    let hit :=
      match pe with
      | .index _ => false
      | _ => lt.rel == "associative" &&
             (match Conf.identity s lt item with
              | some id => PE.equals id pe
              | none => false)
    if hit then item :: itemsAt s lt pe rest else itemsAt s lt pe rest

/-- the path element designates more than one item of the list `v` -/
def repeatedAt (s : Schema) (tr : TypeRef) (v : Value) (pe : PE) : Bool :=
  match s.resolve tr, v with
  | some a, .list l =>
    (match a.list with
     | some lt => decide (2 ≤ (itemsAt s lt pe l).length)
     | none => false)
  | _, _ => false

/-- the merge of `l` and `r` descends along `p`: at every node strictly above `p` that BOTH operands
have, (1) they are two maps or two lists (no kind change in a type allowing both), (2) the node is not
atomic (an atomic right value replaces the left one whole), (3) if the node is a list and the next
element of `p` designates an item in both lists, it designates a single item of the left list (the
merging walker indexes a repeated left item as an explicit null, which the right item then replaces) -/
def mergeDescends (s : Schema) : TypeRef → Value → Value → Path → Bool
  | _, _, _, [] => true
  | tr, l, r, pe :: rest =>
    sameKind l r && !NodeLaws.atomicNode s tr r &&
      (match Nodes.childAt s tr l pe, Nodes.childAt s tr r pe with
       | some (tr', l'), some (_, r') => !repeatedAt s tr l pe && mergeDescends s tr' l' r' rest
       | _, _ => true)

theorem itemsAt_cons (s : Schema) (lt : ListT) (pe : PE) (item : Value) (rest : List Value) :
    itemsAt s lt pe (item :: rest) =
      if mn_hitOf s lt pe item then item :: itemsAt s lt pe rest else itemsAt s lt pe rest := by
  cases pe <;> rfl

theorem itemsAt_eq_filter (s : Schema) (lt : ListT) (pe : PE) :
    ∀ l, itemsAt s lt pe l = l.filter (mn_hitOf s lt pe)
  | [] => rfl
  | item :: rest => by
    rw [itemsAt_cons, List.filter_cons, itemsAt_eq_filter s lt pe rest]

theorem silentAbove_cons (s : Schema) (tr : TypeRef) (r : Value) (pe : PE) (rest : Path)
    (h : silentAbove s tr r (pe :: rest)) :
    (r.isScalar = false ∧ r ≠ .null) ∧
    ∀ tr' r', Nodes.childAt s tr r pe = some (tr', r') → rest ≠ [] ∧ silentAbove s tr' r' rest := by
  obtain ⟨h1, h2⟩ := h
  refine ⟨h2 [] (List.nil_prefix) (by simp) r rfl, ?_⟩
  intro tr' r' hc
  have hv : ∀ q, Nodes.valueAt s tr r (pe :: q) = Nodes.valueAt s tr' r' q := by
    intro q; rw [Nodes.valueAt, hc]
  refine ⟨?_, ?_, ?_⟩
  · intro he; subst he
    rw [hv] at h1
    simp [Nodes.valueAt] at h1
  · rw [← hv]; exact h1
  · intro q hq hne x hx
    refine h2 (pe :: q) ?_ ?_ x (by rw [hv]; exact hx)
    · obtain ⟨t, ht⟩ := hq
      exact ⟨t, by simp [ht]⟩
    · intro he; apply hne; simpa using he

/-! ### `mergeHandle` when the merge descends -/

theorem mergeHandle_map_desc (s : Schema) (rec : MergeRec) (l r : Option Value) (atom : Atom) (t : MapT)
    (hk : atomKind atom = .map t) (o : Option Value) (h : mergeHandle s rec l r atom = .ok o)
    (hna : t.rel ≠ "atomic") (hne : (emptyOrAbsent (asMap l) && emptyOrAbsent (asMap r)) = false) :
    ∃ outm, (zipKeys ((asMap l).getD []) ((asMap r).getD [])).foldl
        (mergeMapStep rec t ((asMap l).getD []) ((asMap r).getD [])) (.ok []) = .ok outm ∧
      ((outm = [] ∧ o = none) ∨ (outm ≠ [] ∧ o = some (.map outm))) := by
  unfold mergeHandle at h
  rw [hk] at h
  simp only [] at h
  rw [if_neg (by simp [hna, hne])] at h
  split at h
  · next hf => cases h; exact ⟨[], hf, .inl ⟨rfl, rfl⟩⟩
  · next outm hne' hf =>
    cases h
    refine ⟨outm, hf, .inr ⟨?_, rfl⟩⟩
    intro he; subst he; exact hne' rfl
  · cases h
  · cases h

theorem mergeHandle_list_desc (s : Schema) (rec : MergeRec) (l r : Option Value) (atom : Atom) (t : ListT)
    (hk : atomKind atom = .list t) (o : Option Value) (h : mergeHandle s rec l r atom = .ok o)
    (hna : t.rel ≠ "atomic") (hne : (emptyOrAbsent (asList l) && emptyOrAbsent (asList r)) = false) :
    ∃ rpes obsR lpes obsL res,
      indexPEs s t false ((asList r).getD []) [] [] = .ok (rpes, obsR) ∧
      indexPEs s t true ((asList l).getD []) [] [] = .ok (lpes, obsL) ∧
      mergeLoop (fun _ lc rc => rec lc rc t.elementType) obsL obsR (lpes.length + (rpes.map (·.1)).length) lpes
        (rpes.map (·.1)) ((rpes.map (·.1)).filter (fun pe => (pemGet pe obsL).isSome)) [] [] = .ok res ∧
      ((res = [] ∧ o = none) ∨ (res ≠ [] ∧ o = some (.list res))) := by
  unfold mergeHandle at h
  rw [hk] at h
  simp only [] at h
  rw [if_neg (by simp [hna, hne])] at h
  split at h
  · cases h
  · cases h
  · next rpes obsR hr =>
    split at h
    · cases h
    · cases h
    · next lpes obsL hl =>
      split at h
      · next hf => cases h; exact ⟨rpes, obsR, lpes, obsL, [], hr, hl, hf, .inl ⟨rfl, rfl⟩⟩
      · next res hne' hf =>
        cases h
        refine ⟨rpes, obsR, lpes, obsL, res, hr, hl, hf, .inr ⟨?_, rfl⟩⟩
        intro he; subst he; exact hne' rfl
      · cases h
      · cases h

/-! ### the interleaving loop with nothing on the right: the left items in order -/

/-- two lists related element by element -/
inductive All2 {α β : Type} (R : α → β → Prop) : List α → List β → Prop where
  | nil : All2 R [] []
  | cons {a : α} {b : β} {as : List α} {bs : List β} (h : R a b) (t : All2 R as bs) : All2 R (a :: as) (b :: bs)

theorem mergeLoop_left_alone (item : PE → Option Value → Option Value → Res (Option Value))
    (obsL : List (PE × Value)) :
    ∀ (ls : List (PE × Value)) (steps : Nat) (shared merged : List PE) (out res : List Value),
      mergeLoop item obsL [] steps ls [] shared merged out = .ok res →
      ∃ os : List (Option Value), All2 (fun p o => item p.1 (some p.2) none = .ok o) ls os ∧
        res = out.reverse ++ os.filterMap id := by
  intro ls
  induction ls with
  | nil =>
    intro steps shared merged out res h
    rw [mergeLoop_nil] at h
    cases h
    exact ⟨[], .nil, by simp⟩
  | cons p ls ih =>
    intro steps shared merged out res h
    obtain ⟨pe, x⟩ := p
    cases steps with
    | zero =>
      rw [mergeLoop] at h
      · cases h
      · simp
    | succ k =>
      rw [mergeLoop] at h
      · simp only [pemGet, Option.isNone_none, if_true] at h
        split at h
        · next o ho =>
          obtain ⟨os, h1, h2⟩ := ih k _ _ _ _ h
          refine ⟨o :: os, .cons ho h1, ?_⟩
          rw [h2]
          cases o <;> simp
        · cases h
        · cases h
      · simp

/-! ### the interleaving loop: the left-only items in order -/

/-- one iteration of the interleaving loop; a left element is dropped only if the right operand has it -/
inductive LoopStep2 (item : PE → Option Value → Option Value → Res (Option Value)) (obsL obsR : List (PE × Value))
    (ls : List (PE × Value)) (rs : List PE) (out : List Value) :
    List (PE × Value) → List PE → List Value → Prop where
  | skip (pe : PE) (x : Value) (ls2 : List (PE × Value)) (h : ls = (pe, x) :: ls2)
      (hs : (pemGet pe obsR).isSome = true) : LoopStep2 item obsL obsR ls rs out ls2 rs out
  | left (pe : PE) (x : Value) (ls2 : List (PE × Value)) (o : Option Value) (h : ls = (pe, x) :: ls2)
      (hn : pemGet pe obsR = none) (hi : item pe (some x) none = .ok o) :
      LoopStep2 item obsL obsR ls rs out ls2 rs (pushOpt o out)
  | right (pe rpe : PE) (rs2 : List PE) (ls2 : List (PE × Value)) (o : Option Value) (h : rs = rpe :: rs2)
      (he : PE.equals pe rpe = true) (hi : item pe (pemGet pe obsL) (pemGet pe obsR) = .ok o)
      (hl : ls2 = ls ∨ ∃ y, ls = y :: ls2 ∧
        ((pemGet y.1 obsR).isSome = true ∨ PE.equals y.1 rpe = true)) :
      LoopStep2 item obsL obsR ls rs out ls2 rs2 (pushOpt o out)
  | idle : LoopStep2 item obsL obsR ls rs out ls rs out

theorem mergeLoop_step2 (item : PE → Option Value → Option Value → Res (Option Value))
    (obsL obsR : List (PE × Value)) (steps : Nat) (ls : List (PE × Value)) (rs shared merged : List PE)
    (out res : List Value) (hne : ¬ (ls = [] ∧ rs = []))
    (h : mergeLoop item obsL obsR (steps + 1) ls rs shared merged out = .ok res) :
    ∃ ls2 rs2 shared2 merged2 out2,
      mergeLoop item obsL obsR steps ls2 rs2 shared2 merged2 out2 = .ok res ∧
      LoopStep2 item obsL obsR ls rs out ls2 rs2 out2 := by
  cases ls with
  | nil =>
    cases rs with
    | nil => exact absurd ⟨rfl, rfl⟩ hne
    | cons rpe rs' =>
      rw [mergeLoop] at h
      · simp only [] at h
        split at h
        · next o ho =>
          exact ⟨_, _, _, _, _, h, .right rpe rpe rs' [] o rfl (PE.equals_refl _) ho (.inl rfl)⟩
        · cases h
        · cases h
      · simp
  | cons p ls' =>
    obtain ⟨pe, x⟩ := p
    cases rs with
    | nil =>
      rw [mergeLoop] at h
      · simp only [] at h
        split at h
        · next hn =>
          split at h
          · next o ho =>
            exact ⟨_, _, _, _, _, h, .left pe x ls' o rfl (by simpa using hn) ho⟩
          · cases h
          · cases h
        · next hn =>
          split at h
          · exact ⟨_, _, _, _, _, h, .skip pe x ls' rfl (by cases hg : pemGet pe obsR <;> simp_all)⟩
          · exact ⟨_, _, _, _, _, h, .idle⟩
      · simp
    | cons rpe rs' =>
      rw [mergeLoop] at h
      simp only [] at h
      split at h
      · next he =>
        split at h
        · next o ho => exact ⟨_, _, _, _, _, h, .right pe rpe rs' ls' o rfl he ho (.inr ⟨_, rfl, .inr he⟩)⟩
        · cases h
        · cases h
      · split at h
        · next hc =>
          simp only [Bool.and_eq_true] at hc
          exact ⟨_, _, _, _, _, h, .skip pe x ls' rfl hc.1.1⟩
        · split at h
          · next hn =>
            split at h
            · next o ho =>
              exact ⟨_, _, _, _, _, h, .left pe x ls' o rfl (by simpa using hn) ho⟩
            · cases h
            · cases h
          · next hn =>
            have hsome : (pemGet pe obsR).isSome = true := by cases hg : pemGet pe obsR <;> simp_all
            split at h
            · split at h
              · next o ho =>
                exact ⟨_, _, _, _, _, h, .right rpe rpe rs' ls' o rfl (PE.equals_refl _) ho (.inr ⟨_, rfl, .inl hsome⟩)⟩
              · cases h
              · cases h
            · split at h
              · next o ho =>
                exact ⟨_, _, _, _, _, h, .right rpe rpe rs' _ o rfl (PE.equals_refl _) ho (.inl rfl)⟩
              · cases h
              · cases h

/-- the results of the left items the right operand does not have appear in order; seen through a
filter that rejects every result emitted at a right element, the merged list is their sequence -/
theorem mergeLoop_filter (item : PE → Option Value → Option Value → Res (Option Value))
    (obsL obsR : List (PE × Value)) (Q : Value → Bool) :
    ∀ (steps : Nat) (ls : List (PE × Value)) (rs shared merged : List PE) (out res : List Value),
      (∀ rpe ∈ rs, (pemGet rpe obsR).isSome = true) →
      (∀ rpe ∈ rs, ∀ pe v, PE.equals pe rpe = true →
        item pe (pemGet pe obsL) (pemGet pe obsR) = .ok (some v) → Q v = false) →
      mergeLoop item obsL obsR steps ls rs shared merged out = .ok res →
      ∃ os : List (Option Value),
        All2 (fun p o => item p.1 (some p.2) none = .ok o) (ls.filter (fun p => (pemGet p.1 obsR).isNone)) os ∧
        res.filter Q = out.reverse.filter Q ++ (os.filterMap id).filter Q := by
  intro steps
  induction steps with
  | zero =>
    intro ls rs shared merged out res _ _ h
    by_cases hne : ls = [] ∧ rs = []
    · obtain ⟨rfl, rfl⟩ := hne
      rw [mergeLoop_nil] at h
      cases h
      exact ⟨[], .nil, by simp⟩
    · rw [mergeLoop] at h
      · cases h
      · intro h1 h2; exact hne ⟨h1, h2⟩
  | succ n ih =>
    intro ls rs shared merged out res hrs hQ h
    by_cases hne : ls = [] ∧ rs = []
    · obtain ⟨rfl, rfl⟩ := hne
      rw [mergeLoop_nil] at h
      cases h
      exact ⟨[], .nil, by simp⟩
    · obtain ⟨ls2, rs2, shared2, merged2, out2, h2, hstep⟩ :=
        mergeLoop_step2 item obsL obsR n ls rs shared merged out res hne h
      cases hstep with
      | skip pe x _ hls hs =>
        subst hls
        obtain ⟨os, a1, a2⟩ := ih _ _ _ _ _ _ hrs hQ h2
        refine ⟨os, ?_, a2⟩
        rw [List.filter_cons]
        cases hg : pemGet pe obsR with
        | none => rw [hg] at hs; cases hs
        | some w => simpa [hg] using a1
      | left pe x _ o hls hn hi =>
        subst hls
        obtain ⟨os, a1, a2⟩ := ih _ _ _ _ _ _ hrs hQ h2
        refine ⟨o :: os, ?_, ?_⟩
        · rw [List.filter_cons]
          simp only [hn, Option.isNone_none, if_true]
          exact .cons hi a1
        · rw [a2]
          cases o with
          | none => simp [pushOpt]
          | some v => by_cases hq : Q v = true <;> simp [pushOpt, List.filter_cons, hq]
      | right pe' rpe _ _ o hrs' he' hi' hl =>
        subst hrs'
        have hrs2 : ∀ r ∈ rs2, (pemGet r obsR).isSome = true := fun r hr => hrs r (List.mem_cons_of_mem _ hr)
        have hQ2 : ∀ r ∈ rs2, ∀ pe v, PE.equals pe r = true →
            item pe (pemGet pe obsL) (pemGet pe obsR) = .ok (some v) → Q v = false :=
          fun r hr => hQ r (List.mem_cons_of_mem _ hr)
        obtain ⟨os, a1, a2⟩ := ih _ _ _ _ _ _ hrs2 hQ2 h2
        have hout : (pushOpt o out).reverse.filter Q = out.reverse.filter Q := by
          cases o with
          | none => rfl
          | some v =>
            have := hQ rpe List.mem_cons_self pe' v he' hi'
            simp [pushOpt, List.filter_append, this]
        rw [hout] at a2
        refine ⟨os, ?_, a2⟩
        rcases hl with rfl | ⟨y, rfl, hy⟩
        · exact a1
        · have hys : (pemGet y.1 obsR).isSome = true := by
            rcases hy with hy | hy
            · exact hy
            · rw [pemGet_congr hy]; exact hrs rpe List.mem_cons_self
          rw [List.filter_cons]
          cases hg : pemGet y.1 obsR with
          | none => rw [hg] at hys; cases hys
          | some w => simpa [hg] using a1
      | idle => exact ih _ _ _ _ _ _ hrs hQ h2

/-- the first designated item is the head of the designated items -/
theorem itemAt_eq_head_filter (s : Schema) (lt : ListT) (pe : PE) :
    ∀ l : List Value, Nodes.itemAt s lt pe l = (l.filter (mn_hitOf s lt pe)).head?
  | [] => rfl
  | c :: l => by
    rw [mn_itemAt_cons, List.filter_cons]
    split
    · rfl
    · exact itemAt_eq_head_filter s lt pe l

/-- dropping items the element does not designate does not change the item it designates -/
theorem itemAt_filter_map (s : Schema) (lt : ListT) (pe : PE) (F : PE × Value → Bool) :
    ∀ lpes : List (PE × Value), (∀ p ∈ lpes, mn_hitOf s lt pe p.2 = true → F p = true) →
      Nodes.itemAt s lt pe ((lpes.filter F).map (·.2)) = Nodes.itemAt s lt pe (lpes.map (·.2))
  | [], _ => rfl
  | p :: ps, h => by
    have ih := itemAt_filter_map s lt pe F ps (fun q hq => h q (List.mem_cons_of_mem _ hq))
    rw [List.filter_cons]
    cases hF : F p with
    | true =>
      simp only [if_true, List.map_cons]
      rw [mn_itemAt_cons, mn_itemAt_cons, ih]
    | false =>
      simp only [Bool.false_eq_true, if_false, List.map_cons]
      rw [mn_itemAt_cons, ih]
      have : mn_hitOf s lt pe p.2 = false := by
        cases hh : mn_hitOf s lt pe p.2 with
        | false => rfl
        | true => rw [h p List.mem_cons_self hh] at hF; cases hF
      rw [this]
      rfl

/-! ### indexing the items: which elements are observed, and what a single item is observed as -/

theorem indexPEs_isSome (s : Schema) (t : ListT) (d : Bool) :
    ∀ (l : List Value) (pes obs res obs' : List (PE × Value)), indexPEs s t d l pes obs = .ok (res, obs') →
      ∀ q, (pemGet q obs').isSome = true → (pemGet q obs).isSome = true ∨
        ∃ c ∈ l, ∃ pe, listItemToPE s t c = .ok pe ∧ PE.equals pe q = true
  | [], pes, obs, res, obs' => by
    intro h q hq
    simp only [indexPEs, Res.ok.injEq, Prod.mk.injEq] at h
    obtain ⟨_, rfl⟩ := h
    exact .inl hq
  | child :: rest, pes, obs, res, obs' => by
    intro h q hq
    rw [indexPEs] at h
    split at h
    · next pe hpe =>
      have key : ∀ w, (pemGet q (pemInsert pe w obs)).isSome = true →
          (pemGet q obs).isSome = true ∨ ∃ c ∈ child :: rest, ∃ pe, listItemToPE s t c = .ok pe ∧ PE.equals pe q = true := by
        intro w hw
        rw [pemGet_pemInsert] at hw
        split at hw
        · next he => exact .inr ⟨child, List.mem_cons_self, pe, hpe, he⟩
        · exact .inl hw
      split at h
      · split at h
        · cases h
        · rcases indexPEs_isSome s t d rest _ _ _ _ h q hq with h' | ⟨c, hc, h'⟩
          · exact key _ h'
          · exact .inr ⟨c, List.mem_cons_of_mem _ hc, h'⟩
      · rcases indexPEs_isSome s t d rest _ _ _ _ h q hq with h' | ⟨c, hc, h'⟩
        · exact key _ h'
        · exact .inr ⟨c, List.mem_cons_of_mem _ hc, h'⟩
    · cases h
    · cases h

theorem mn_hitOf_of_pe (s : Schema) (t : ListT) (q : PE) (c : Value) (pe : PE) (hrel : t.rel = "associative")
    (hq : PE.isIndex q = false) (h : listItemToPE s t c = .ok pe) : mn_hitOf s t q c = PE.equals pe q := by
  have := identity_of_listItemToPE s t c pe hrel h
  cases q <;> simp_all [mn_hitOf, PE.isIndex]

theorem mn_hitOf_congr (s : Schema) (t : ListT) (q : PE) (c1 c2 : Value)
    (h : Conf.identity s t c1 = Conf.identity s t c2) : mn_hitOf s t q c1 = mn_hitOf s t q c2 := by
  unfold mn_hitOf; rw [h]

/-- the left index (repeats allowed): an element designating a single item is observed as that item -/
theorem indexPEs_true_get (s : Schema) (t : ListT) (q : PE) (hrel : t.rel = "associative")
    (hq : PE.isIndex q = false) :
    ∀ (l : List Value) (pes obs res obs' : List (PE × Value)), indexPEs s t true l pes obs = .ok (res, obs') →
      (∀ c, itemsAt s t q l = [c] → pemGet q obs = none → pemGet q obs' = some c) ∧
      (∀ w, itemsAt s t q l = [] → pemGet q obs = some w → pemGet q obs' = some w)
  | [], pes, obs, res, obs' => by
    intro h
    simp only [indexPEs, Res.ok.injEq, Prod.mk.injEq] at h
    obtain ⟨_, rfl⟩ := h
    exact ⟨fun c hc => by simp [itemsAt] at hc, fun w _ hw => hw⟩
  | child :: rest, pes, obs, res, obs' => by
    intro h
    rw [indexPEs] at h
    split at h
    · next pe hpe =>
      have hhit := mn_hitOf_of_pe s t q child pe hrel hq hpe
      cases he : PE.equals pe q with
      | true =>
        rw [he] at hhit
        refine ⟨fun c hc hn => ?_, fun w hc => ?_⟩
        · rw [itemsAt_cons, hhit] at hc
          simp only [if_true, List.cons.injEq] at hc
          obtain ⟨rfl, hc⟩ := hc
          have hn' : pemGet pe obs = none := by rw [pemGet_congr he]; exact hn
          rw [hn'] at h
          simp only [] at h
          refine (indexPEs_true_get s t q hrel hq rest _ _ _ _ h).2 child hc ?_
          rw [pemGet_pemInsert, he]; rfl
        · rw [itemsAt_cons, hhit] at hc
          simp at hc
      | false =>
        rw [he] at hhit
        have hitems : itemsAt s t q (child :: rest) = itemsAt s t q rest := by
          rw [itemsAt_cons, hhit]; rfl
        rw [hitems]
        have hget : ∀ w, pemGet q (pemInsert pe w obs) = pemGet q obs := by
          intro w; rw [pemGet_pemInsert, he]; rfl
        split at h
        · simp only [Bool.not_true, Bool.false_eq_true, if_false] at h
          obtain ⟨i1, i2⟩ := indexPEs_true_get s t q hrel hq rest _ _ _ _ h
          rw [hget] at i1 i2
          exact ⟨i1, i2⟩
        · obtain ⟨i1, i2⟩ := indexPEs_true_get s t q hrel hq rest _ _ _ _ h
          rw [hget] at i1 i2
          exact ⟨i1, i2⟩
    · cases h
    · cases h

/-! ### the frame law with nothing on the right -/

/-- the items of a list merged with nothing, in order: the first item an element designates among the
results is the merge of the first item it designates in the list -/
theorem itemAt_All2 (s : Schema) (lt : ListT) (n : Nat) (pe : PE) (l' : Value) (hrel : lt.rel = "associative") :
    ∀ (lpes : List (PE × Value)) (os : List (Option Value)),
      All2 (fun p o => mergeNode s n (some p.2) none lt.elementType = .ok o) lpes os →
      (∀ p ∈ lpes, listItemToPE s lt p.2 = .ok p.1 ∧ itemKeysScalar lt.keys p.2 = true) →
      Nodes.itemAt s lt pe (lpes.map (·.2)) = some l' →
      ∃ o', Nodes.itemAt s lt pe (os.filterMap id) = some o' ∧
        mergeNode s n (some l') none lt.elementType = .ok (some o') := by
  intro lpes os hall
  induction hall with
  | nil => intro _ h; simp [Nodes.itemAt] at h
  | @cons p o ps os' hm _ ih =>
    intro hp hitem
    have hsome := mergeNode_isSome s _ _ _ _ _ hm
    cases o with
    | none => cases hsome
    | some v =>
      obtain ⟨hpe, hks⟩ := hp p List.mem_cons_self
      have hid := identity_of_listItemToPE s lt _ _ hrel hpe
      have hidv := merge_identity_left s lt n p.2 v p.1 hid hks hm
      have hh : mn_hitOf s lt pe v = mn_hitOf s lt pe p.2 := mn_hitOf_congr s lt pe _ _ (by rw [hid, hidv])
      simp only [List.map_cons, List.filterMap_cons, id] at hitem ⊢
      rw [mn_itemAt_cons] at hitem ⊢
      rw [hh]
      split at hitem
      · next hit =>
        cases hitem
        rw [if_pos hit]
        exact ⟨v, rfl, hm⟩
      · next hit =>
        rw [if_neg hit]
        exact ih (fun p' hp' => hp p' (List.mem_cons_of_mem _ hp')) hitem

theorem left_alone_aux (s : Schema) : ∀ (p : Path) (tr : TypeRef) (l out : Value) (fuel : Nat) (x : Value),
    (∀ pe ∈ p, PE.isIndex pe = false) → keysScalar s tr l = true →
    mergeNode s fuel (some l) none tr = .ok (some out) →
    Nodes.valueAt s tr l p = some x →
    (Nodes.valueAt s tr out p).isSome = true ∧ (x.isScalar = true → Nodes.valueAt s tr out p = some x)
  | [], tr, l, out, fuel, x => by
    intro _ _ hm hx
    simp only [Nodes.valueAt, Option.some.injEq] at hx ⊢
    subst hx
    refine ⟨rfl, fun hs => ?_⟩
    have := merge_scalar_left s fuel l tr _ hs hm
    cases this; rfl
  | pe :: rest, tr, l, out, fuel, x => by
    intro hni hks hm hx
    have ih := left_alone_aux s rest
    have hni0 : PE.isIndex pe = false := hni pe List.mem_cons_self
    have hni' : ∀ pe' ∈ rest, PE.isIndex pe' = false := fun pe' h' => hni pe' (List.mem_cons_of_mem _ h')
    have hx0 := hx
    rw [Nodes.valueAt] at hx
    split at hx
    · next tr' l' hc =>
      obtain ⟨a, hres, hcase⟩ := childAt_some s tr l pe tr' l' hni0 hc
      obtain ⟨n, a', _, hres', hh⟩ := mergeNode_none_right s fuel _ _ _ hm
      rw [hres] at hres'; cases hres'
      rcases hcase with ⟨mt, lf, k, hmap, rfl, rfl, hlook, rfl⟩ | ⟨lt, ll, hlist, rfl, hitem, rfl⟩
      · -- maps
        rw [deduceAtom_map a lf mt hmap] at hh
        rcases mergeHandle_map s _ _ _ _ mt rfl _ hh with h1 | ⟨outm, hf, _, hna, h2⟩
        · simp only [keepRHS] at h1; cases h1
          rw [hx0]; exact ⟨rfl, fun _ => rfl⟩
        · rcases h2 with ⟨_, ho⟩ | ⟨_, ho⟩
          · cases ho
          · cases ho
            have hlf : (asMap (some (Value.map lf))).getD [] = lf := rfl
            have hrf : (asMap (none : Option Value)).getD [] = [] := rfl
            rw [hlf, hrf] at hf
            obtain ⟨l1, l2⟩ := mergedMap_lookup _ mt lf [] outm hf k
            rw [hlook] at l1 l2
            simp only [lookupField] at l1 l2
            cases ho : lookupField k outm with
            | none =>
              rcases l2 ho with ⟨h', _⟩ | h'
              · cases h'
              · have := mergeNode_isSome s _ _ _ _ _ h'; cases this
            | some o' =>
              have hc' : Nodes.childAt s tr (.map outm) (.field k) = some (fieldType mt k, o') := by
                rw [childAt_map_field s tr a mt outm k hres hmap, ho]; rfl
              rw [Nodes.valueAt, hc']
              simp only []
              exact ih (fieldType mt k) l' o' n x hni'
                (keysScalar_map_child s tr a mt lf hres hmap hna hks k l' hlook) (l1 o' ho) hx
      · -- lists
        rw [deduceAtom_list a ll lt hlist] at hh
        rcases mergeHandle_list s _ _ _ _ lt rfl _ hh with h1 |
          ⟨rpes, obsR, lpes, obsL, res, hir, hil, hloop, _, hna, h2⟩
        · simp only [keepRHS] at h1; cases h1
          rw [hx0]; exact ⟨rfl, fun _ => rfl⟩
        · rcases h2 with ⟨_, ho⟩ | ⟨_, ho⟩
          · cases ho
          · cases ho
            have hll : (asList (some (Value.list ll))).getD [] = ll := rfl
            have hrl : (asList (none : Option Value)).getD [] = [] := rfl
            rw [hll] at hil
            rw [hrl] at hir
            simp only [indexPEs, List.reverse_nil, Res.ok.injEq, Prod.mk.injEq] at hir
            obtain ⟨rfl, rfl⟩ := hir
            obtain ⟨newl, el, hl2, hl3, _, _⟩ := mn_indexPEs_spec s lt true ll [] [] lpes obsL hil
            simp only [List.reverse_nil, List.nil_append] at el
            subst el
            obtain ⟨_, hrel, _, _⟩ := itemAt_some s lt pe ll l' hitem
            have hkl := keysScalar_list_items s tr a lt ll hres hlist hna hks
            have hlmem : ∀ p ∈ lpes, p.2 ∈ ll := fun p hp => by rw [← hl2]; exact List.mem_map_of_mem hp
            simp only [List.map_nil, List.filter_nil] at hloop
            obtain ⟨os, hall, hres'⟩ := mergeLoop_left_alone _ obsL lpes _ _ _ _ _ hloop
            simp only [List.reverse_nil, List.nil_append] at hres'
            rw [← hl2] at hitem
            obtain ⟨o', hio, hmo⟩ := itemAt_All2 s lt n pe l' hrel lpes os hall
              (fun p hp => ⟨hl3 p hp, (hkl _ (hlmem p hp)).1⟩) hitem
            rw [← hres'] at hio
            have hc' : Nodes.childAt s tr (.list res) pe = some (lt.elementType, o') := by
              rw [mn_childAt_list s tr a lt res pe hres hlist hni0, hio]; rfl
            rw [Nodes.valueAt, hc']
            simp only []
            have hl'mem : l' ∈ ll := by
              have := (itemAt_some s lt pe _ l' hitem).1
              rw [hl2] at this; exact this
            exact ih lt.elementType l' o' n x hni' (hkl _ hl'mem).2 hmo hx
    · cases hx

/-! ### the frame law -/

theorem mergeDescends_cons (s : Schema) (tr : TypeRef) (l r : Value) (pe : PE) (rest : Path)
    (h : mergeDescends s tr l r (pe :: rest) = true) :
    sameKind l r = true ∧ NodeLaws.atomicNode s tr r = false ∧
    ∀ tr' l' tr'' r', Nodes.childAt s tr l pe = some (tr', l') → Nodes.childAt s tr r pe = some (tr'', r') →
      repeatedAt s tr l pe = false ∧ mergeDescends s tr' l' r' rest = true := by
  rw [mergeDescends] at h
  simp only [Bool.and_eq_true, Bool.not_eq_true'] at h
  obtain ⟨⟨h1, h2⟩, h4⟩ := h
  refine ⟨h1, h2, fun tr' l' tr'' r' hc1 hc2 => ?_⟩
  rw [hc1, hc2] at h4
  simpa using h4

theorem itemAt_none_hit (s : Schema) (lt : ListT) (pe : PE) (l : List Value)
    (h : Nodes.itemAt s lt pe l = none) (c : Value) (hc : c ∈ l) : mn_hitOf s lt pe c = false := by
  cases hh : mn_hitOf s lt pe c with
  | false => rfl
  | true =>
    obtain ⟨hrel, hni, id, hid, he⟩ := (hitOf_iff s lt pe c).1 hh
    obtain ⟨it, hit⟩ := itemAt_exists s lt pe hrel hni l ⟨c, hc, id, hid, he⟩
    rw [h] at hit; cases hit

/-- an element designating an item of a list and no other designates exactly that item -/
theorem itemsAt_single (s : Schema) (lt : ListT) (pe : PE) (l : List Value) (l' : Value)
    (hitem : Nodes.itemAt s lt pe l = some l') (hlen : ¬ 2 ≤ (itemsAt s lt pe l).length) :
    itemsAt s lt pe l = [l'] := by
  obtain ⟨hmem, hrest⟩ := itemAt_some s lt pe l l' hitem
  have hin : l' ∈ itemsAt s lt pe l := by
    rw [itemsAt_eq_filter]
    exact List.mem_filter.2 ⟨hmem, (hitOf_iff s lt pe l').2 hrest⟩
  cases hi : itemsAt s lt pe l with
  | nil => rw [hi] at hin; cases hin
  | cons c cs =>
    cases cs with
    | nil =>
      rw [hi] at hin
      simp only [List.mem_singleton] at hin
      rw [hin]
    | cons c2 cs' => rw [hi] at hlen; simp at hlen

/-- frame law of the merge against the independent resolver: along a path without positional elements,
when the key fields carried by the items of the keyed lists of both operands are scalars, the right
operand says nothing at or above the path and the merge descends along it, what the left operand
holds at the path is kept -/
theorem frame_aux (s : Schema) : ∀ (p : Path) (tr : TypeRef) (l r out : Value) (fuel : Nat) (x : Value),
    validateV s false tr r = .ok () →
    (∀ pe ∈ p, PE.isIndex pe = false) → keysScalar s tr l = true → keysScalar s tr r = true →
    mergeNode s fuel (some l) (some r) tr = .ok (some out) →
    Nodes.valueAt s tr l p = some x → silentAbove s tr r p → mergeDescends s tr l r p = true →
    (Nodes.valueAt s tr out p).isSome = true ∧ (x.isScalar = true → Nodes.valueAt s tr out p = some x)
  | [], tr, l, r, out, fuel, x => by
    intro _ _ _ _ _ _ hsil _
    have := hsil.1
    simp [Nodes.valueAt] at this
  | pe :: rest, tr, l, r, out, fuel, x => by
    intro hr hni hkl hkr hm hx hsil hdesc
    have ih := frame_aux s rest
    have hni0 : PE.isIndex pe = false := hni pe List.mem_cons_self
    have hni' : ∀ pe' ∈ rest, PE.isIndex pe' = false := fun pe' h' => hni pe' (List.mem_cons_of_mem _ h')
    obtain ⟨_, hsilc⟩ := silentAbove_cons s tr r pe rest hsil
    obtain ⟨hsk, hat, hdc⟩ := mergeDescends_cons s tr l r pe rest hdesc
    rw [Nodes.valueAt] at hx
    split at hx
    · next tr' l' hc =>
      obtain ⟨a, hres, hcase⟩ := childAt_some s tr l pe tr' l' hni0 hc
      obtain ⟨n, a', _, hres', hh⟩ := mergeNode_some_right s fuel _ _ _ _ hm
      rw [hres] at hres'; cases hres'
      rcases hcase with ⟨mt, lf, k, hmap, rfl, rfl, hlook, rfl⟩ | ⟨lt, ll, hlist, rfl, hitem, rfl⟩
      · -- maps
        obtain ⟨rf, rfl⟩ : ∃ rf, r = .map rf := by cases r <;> simp [sameKind] at hsk; exact ⟨_, rfl⟩
        have hna : mt.rel ≠ "atomic" := by
          intro ha; simp [NodeLaws.atomicNode, hres, hmap, ha] at hat
        rw [validateV_map, hres] at hr
        simp only [hmap] at hr
        rw [deduceAtom_map a rf mt hmap] at hh
        have hne : (emptyOrAbsent (asMap (some (Value.map lf))) && emptyOrAbsent (asMap (some (Value.map rf)))) = false := by
          cases lf with
          | nil => simp [lookupField] at hlook
          | cons e es => simp [asMap, emptyOrAbsent]
        obtain ⟨outm, hf, h2⟩ := mergeHandle_map_desc s _ _ _ _ mt rfl _ hh hna hne
        rcases h2 with ⟨_, ho⟩ | ⟨_, ho⟩
        · cases ho
        · cases ho
          have hlf : (asMap (some (Value.map lf))).getD [] = lf := rfl
          have hrf : (asMap (some (Value.map rf))).getD [] = rf := rfl
          rw [hlf, hrf] at hf
          obtain ⟨l1, l2⟩ := mergedMap_lookup _ mt lf rf outm hf k
          rw [hlook] at l1 l2
          cases ho : lookupField k outm with
          | none =>
            rcases l2 ho with ⟨h', _⟩ | h'
            · cases h'
            · have := mergeNode_isSome s _ _ _ _ _ h'; cases this
          | some o' =>
            have hm' := l1 o' ho
            have hc' : Nodes.childAt s tr (.map outm) (.field k) = some (fieldType mt k, o') := by
              rw [childAt_map_field s tr a mt outm k hres hmap, ho]; rfl
            rw [Nodes.valueAt, hc']
            simp only []
            have hkl' := keysScalar_map_child s tr a mt lf hres hmap hna hkl k l' hlook
            cases hrk : lookupField k rf with
            | none =>
              rw [hrk] at hm'
              exact left_alone_aux s rest (fieldType mt k) l' o' n x hni' hkl' hm' hx
            | some r' =>
              rw [hrk] at hm'
              have hcr : Nodes.childAt s tr (.map rf) (.field k) = some (fieldType mt k, r') := by
                rw [childAt_map_field s tr a mt rf k hres hmap, hrk]; rfl
              obtain ⟨_, hsil'⟩ := hsilc _ _ hcr
              have hvv := validateFields_mem s false mt rf hr (k, r') (mn_lookupField_mem k r' rf hrk)
              exact ih (fieldType mt k) l' r' o' n x hvv hni' hkl'
                (keysScalar_map_child s tr a mt rf hres hmap hna hkr k r' hrk) hm' hx hsil'
                (hdc _ _ _ _ hc hcr).2
      · -- lists
        obtain ⟨rl, rfl⟩ : ∃ rl, r = .list rl := by cases r <;> simp [sameKind] at hsk; exact ⟨_, rfl⟩
        have hna : lt.rel ≠ "atomic" := by
          intro ha; simp [NodeLaws.atomicNode, hres, hlist, ha] at hat
        rw [validateV_list, hres] at hr
        simp only [hlist] at hr
        rw [deduceAtom_list a rl lt hlist] at hh
        obtain ⟨hl'mem, hrel, _, id0, hid0, he0⟩ := itemAt_some s lt pe ll l' hitem
        have hne : (emptyOrAbsent (asList (some (Value.list ll))) && emptyOrAbsent (asList (some (Value.list rl)))) = false := by
          cases ll with
          | nil => cases hl'mem
          | cons e es => simp [asList, emptyOrAbsent]
        obtain ⟨rpes, obsR, lpes, obsL, res, hir, hil, hloop, h2⟩ :=
          mergeHandle_list_desc s _ _ _ _ lt rfl _ hh hna hne
        rcases h2 with ⟨_, ho⟩ | ⟨_, ho⟩
        · cases ho
        · cases ho
          have hrl : (asList (some (Value.list rl))).getD [] = rl := rfl
          have hll : (asList (some (Value.list ll))).getD [] = ll := rfl
          rw [hrl] at hir
          rw [hll] at hil
          obtain ⟨newr, er, hr2, hr3, hr4, _⟩ := mn_indexPEs_spec s lt false rl [] [] rpes obsR hir
          simp only [List.reverse_nil, List.nil_append] at er
          subst er
          obtain ⟨hr4a, _⟩ := hr4 rfl
          obtain ⟨newl, el, hl2, hl3, _, hl5⟩ := mn_indexPEs_spec s lt true ll [] [] lpes obsL hil
          simp only [List.reverse_nil, List.nil_append] at el
          subst el
          have hvalid := validateItems_assoc s false lt hrel rl [] 0 hr
          have hkr' := keysScalar_list_items s tr a lt rl hres hlist hna hkr
          have hkl' := keysScalar_list_items s tr a lt ll hres hlist hna hkl
          have hrmem : ∀ p ∈ rpes, p.2 ∈ rl := fun p hp => by rw [← hr2]; exact List.mem_map_of_mem hp
          have hlmem : ∀ p ∈ lpes, p.2 ∈ ll := fun p hp => by rw [← hl2]; exact List.mem_map_of_mem hp
          -- the merge at a right element keeps the right item's identity
          have hR : ∀ (pe1 : PE) (p1 : PE × Value) (o1 : Value), p1 ∈ rpes → PE.equals pe1 p1.1 = true →
              mergeNode s n (pemGet pe1 obsL) (pemGet pe1 obsR) lt.elementType = .ok (some o1) →
              pemGet pe1 obsR = some p1.2 ∧ ∃ po, Conf.identity s lt o1 = some po ∧ PE.equals po p1.1 = true := by
            intro pe1 p1 o1 hp1 he1 hmerge
            have hget : pemGet pe1 obsR = some p1.2 := by rw [pemGet_congr he1]; exact hr4a p1 hp1
            refine ⟨hget, ?_⟩
            rw [hget] at hmerge
            refine merge_identity_right s lt n (pemGet pe1 obsL) p1.2 o1 p1.1
              (identity_of_listItemToPE s lt _ _ hrel (hr3 p1 hp1)) (hvalid _ (hrmem p1 hp1)).2
              (hkr' _ (hrmem p1 hp1)).1 ?_ hmerge
            intro w hw
            rcases hl5 pe1 w hw with h | h | ⟨p, hp, hpe, hpw⟩
            · exact .inl h
            · simp [pemGet] at h
            · right
              subst hpw
              exact ⟨p.1, identity_of_listItemToPE s lt _ _ hrel (hl3 p hp), PE.equals_trans hpe he1,
                (hkl' _ (hlmem p hp)).1⟩
          -- a left item merged with nothing keeps its identity
          have hL : ∀ (p2 : PE × Value) (v : Value), p2 ∈ lpes →
              mergeNode s n (some p2.2) none lt.elementType = .ok (some v) → Conf.identity s lt v = some p2.1 :=
            fun p2 v hp2 hmv => merge_identity_left s lt n p2.2 v p2.1
              (identity_of_listItemToPE s lt _ _ hrel (hl3 p2 hp2)) (hkl' _ (hlmem p2 hp2)).1 hmv
          have hrsome : ∀ rpe ∈ rpes.map (·.1), (pemGet rpe obsR).isSome = true := by
            intro rpe hrpe
            obtain ⟨p, hp, rfl⟩ := List.mem_map.1 hrpe
            rw [hr4a p hp]; rfl
          obtain ⟨m1, _, m3, _⟩ := mergeLoop_spec _ _ _ _ _ _ _ _ _ _ hloop
          cases hri : Nodes.itemAt s lt pe rl with
          | none =>
            -- the right list has no such item: the left item is merged with nothing
            have hnR : ∀ c ∈ rl, ∀ pe', listItemToPE s lt c = .ok pe' → PE.equals pe' pe = false := by
              intro c hcm pe' hpe'
              have := itemAt_none_hit s lt pe rl hri c hcm
              rw [mn_hitOf_of_pe s lt pe c pe' hrel hni0 hpe'] at this
              exact this
            have hn0 : pemGet pe obsR = none := by
              cases hg : pemGet pe obsR with
              | none => rfl
              | some w =>
                exfalso
                rcases indexPEs_isSome s lt false rl [] [] rpes obsR hir pe (by rw [hg]; rfl) with h | ⟨c, hcm, pe', hpe', hee⟩
                · simp [pemGet] at h
                · have := hnR c hcm pe' hpe'
                  rw [hee] at this
                  cases this
            -- no result emitted at a right element is designated by `pe`
            have hQ : ∀ rpe ∈ rpes.map (·.1), ∀ pe1 v, PE.equals pe1 rpe = true →
                mergeNode s n (pemGet pe1 obsL) (pemGet pe1 obsR) lt.elementType = .ok (some v) →
                mn_hitOf s lt pe v = false := by
              intro rpe hrpe pe1 v he1 hmv
              obtain ⟨p1, hp1, rfl⟩ := List.mem_map.1 hrpe
              obtain ⟨_, po, hpo, hpe1⟩ := hR pe1 p1 v hp1 he1 hmv
              cases hh : mn_hitOf s lt pe v with
              | false => rfl
              | true =>
                exfalso
                obtain ⟨_, _, id, hid, hide⟩ := (hitOf_iff s lt pe v).1 hh
                rw [hpo] at hid
                cases hid
                have := hnR p1.2 (hrmem p1 hp1) p1.1 (hr3 p1 hp1)
                rw [PE.equals_trans (PE.equals_symm_of hpe1) hide] at this
                cases this
            obtain ⟨os, hall, hfil⟩ := mergeLoop_filter _ obsL obsR (mn_hitOf s lt pe) _ _ _ _ _ _ _ hrsome hQ hloop
            simp only [List.reverse_nil, List.filter_nil, List.nil_append] at hfil
            -- every left item `pe` designates is a left-only item
            have hLO : ∀ p ∈ lpes, mn_hitOf s lt pe p.2 = true → (pemGet p.1 obsR).isNone = true := by
              intro p hp hh
              rw [mn_hitOf_of_pe s lt pe p.2 p.1 hrel hni0 (hl3 p hp)] at hh
              rw [pemGet_congr hh, hn0]; rfl
            have hitemF : Nodes.itemAt s lt pe ((lpes.filter (fun p => (pemGet p.1 obsR).isNone)).map (·.2)) = some l' := by
              rw [itemAt_filter_map s lt pe _ lpes hLO, hl2]; exact hitem
            obtain ⟨o', hio, hmo⟩ := itemAt_All2 s lt n pe l' hrel _ os hall
              (fun p hp => by
                have hp' := (List.mem_filter.1 hp).1
                exact ⟨hl3 p hp', (hkl' _ (hlmem p hp')).1⟩) hitemF
            have hitem' : Nodes.itemAt s lt pe res = some o' := by
              rw [itemAt_eq_head_filter, hfil, ← itemAt_eq_head_filter]; exact hio
            have hc' : Nodes.childAt s tr (.list res) pe = some (lt.elementType, o') := by
              rw [mn_childAt_list s tr a lt res pe hres hlist hni0, hitem']; rfl
            rw [Nodes.valueAt, hc']
            simp only []
            exact left_alone_aux s rest lt.elementType l' o' n x hni' (hkl' l' hl'mem).2 hmo hx
          | some r' =>
            -- the right list has the item: the two items are merged
            obtain ⟨hr'mem, _, _, idr, hidr, her⟩ := itemAt_some s lt pe rl r' hri
            obtain ⟨q0, hq0, hq0v⟩ : ∃ q0 ∈ rpes, q0.2 = r' := by
              rw [← hr2] at hr'mem
              obtain ⟨q0, hq0, h⟩ := List.mem_map.1 hr'mem
              exact ⟨q0, hq0, h⟩
            have hq0id : q0.1 = idr := by
              have := identity_of_listItemToPE s lt _ _ hrel (hr3 q0 hq0)
              rw [hq0v, hidr] at this
              cases this; rfl
            obtain ⟨pe1, o1, he1, hi1, hmem1⟩ := m3 q0.1 (List.mem_map_of_mem hq0)
            have hsome1 := mergeNode_isSome s _ _ _ _ _ hi1
            cases o1 with
            | none => cases hsome1
            | some v1 =>
              obtain ⟨_, po1, hpo1, hpe1⟩ := hR pe1 q0 v1 hq0 he1 hi1
              rw [hq0id] at hpe1
              obtain ⟨o', hitem'⟩ := itemAt_exists s lt pe hrel hni0 res
                ⟨v1, hmem1 v1 rfl, po1, hpo1, PE.equals_trans hpe1 her⟩
              obtain ⟨ho'mem, _, _, ido, hido, heo⟩ := itemAt_some s lt pe res o' hitem'
              have hc' : Nodes.childAt s tr (.list res) pe = some (lt.elementType, o') := by
                rw [mn_childAt_list s tr a lt res pe hres hlist hni0, hitem']; rfl
              rw [Nodes.valueAt, hc']
              simp only []
              have hgetR : pemGet idr obsR = some r' := by rw [← hq0id, ← hq0v]; exact hr4a q0 hq0
              rcases m1 o' ho'mem with h | ⟨pe2, x2, hm2, hn2, hi2⟩ | ⟨pe3, rpe3, hm3, he3, hi3⟩
              · cases h
              · exfalso
                have hid2 := hL (pe2, x2) o' hm2 hi2
                rw [hido] at hid2
                have hpe2 : ido = pe2 := Option.some.inj hid2
                subst hpe2
                have : PE.equals ido idr = true := PE.equals_trans heo (PE.equals_symm_of her)
                rw [pemGet_congr this, hgetR] at hn2
                cases hn2
              · obtain ⟨p3, hp3, rfl⟩ := List.mem_map.1 hm3
                obtain ⟨hget3, po3, hpo3, hpe3⟩ := hR pe3 p3 o' hp3 he3 hi3
                rw [hido] at hpo3
                cases hpo3
                have h3r : PE.equals p3.1 idr = true :=
                  PE.equals_trans (PE.equals_symm_of hpe3) (PE.equals_trans heo (PE.equals_symm_of her))
                have hv3 : p3.2 = r' := by
                  have := hr4a p3 hp3
                  rw [pemGet_congr h3r, hgetR] at this
                  cases this; rfl
                have h3pe : PE.equals pe3 pe = true := PE.equals_trans he3 (PE.equals_trans h3r her)
                have hcr : Nodes.childAt s tr (.list rl) pe = some (lt.elementType, r') := by
                  rw [mn_childAt_list s tr a lt rl pe hres hlist hni0, hri]; rfl
                obtain ⟨hrep, hdesc'⟩ := hdc _ _ _ _ hc hcr
                -- the element designates a single left item
                have hitems : itemsAt s lt pe ll = [l'] := by
                  apply itemsAt_single s lt pe ll l' hitem
                  simpa [repeatedAt, hres, hlist] using hrep
                have hgetL : pemGet pe3 obsL = some l' := by
                  rw [pemGet_congr h3pe]
                  exact (indexPEs_true_get s lt pe hrel hni0 ll [] [] lpes obsL hil).1 l' hitems rfl
                rw [hget3, hv3, hgetL] at hi3
                obtain ⟨_, hsil'⟩ := hsilc _ _ hcr
                exact ih lt.elementType l' r' o' n x (hvalid r' hr'mem).2 hni' (hkl' l' hl'mem).2
                  (hkr' r' hr'mem).2 hi3 hx hsil' hdesc'
    · cases hx

end SMD
