/-
Concrete runs of the model showing that the C02 frame law of the merge, as first written, fails:

* (A) an ATOMIC map on the way: the right value replaces the left one whole;
* (B) a kind change in a type that allows both a map and a list: the right list replaces the left map;
* (C) an item repeated in the left list (repeats are tolerated in the left operand): the merging
  walker indexes a repeated element as an explicit null, so the right item replaces all its repeats.

In all three the right operand has nothing at `p` and a non-scalar, non-null value at every strict
prefix of `p` where it has something.  World: the empty schema with inlined types.
-/
import SMD.Proofs.MergeNodes
namespace SMD.Counter02

/-- an inline untyped scalar -/
def elemTR : TypeRef := .mk none (.mk (some "untyped") none none) none

/-- the strict prefixes of a path of two elements -/
theorem strict_prefix_two {a b : PE} {q : Path} (h : q <+: [a, b]) (hne : q ≠ [a, b]) : q = [] ∨ q = [a] := by
  rcases q with _ | ⟨e, _ | ⟨e2, _ | ⟨e3, q'⟩⟩⟩
  · exact .inl rfl
  · right
    obtain ⟨t, ht⟩ := h
    simp only [List.cons_append, List.nil_append, List.cons.injEq] at ht
    rw [ht.1]
  · exfalso
    obtain ⟨t, ht⟩ := h
    simp only [List.cons_append, List.nil_append, List.cons.injEq] at ht
    apply hne
    rw [ht.1, ht.2.1]
  · exfalso
    obtain ⟨t, ht⟩ := h
    simp at ht

/-! #### (A) an atomic map on the way -/

/-- an atomic map of untyped scalars -/
def atomicTR : TypeRef := .mk none (.mk none none (some (.mk [] [] elemTR "atomic"))) none
/-- a granular map of atomic maps -/
def outerATR : TypeRef := .mk none (.mk none none (some (.mk [] [] atomicTR ""))) none
def aL : Value := .map [("a", .map [("b", .int 1)])]
def aR : Value := .map [("a", .map [("c", .int 2)])]
def aOut : Value := .map [("a", .map [("c", .int 2)])]
def aPath : Path := [.field "a", .field "b"]

theorem a_valid_left : validateV ⟨[]⟩ true outerATR aL = .ok () := rfl
theorem a_valid_right : validateV ⟨[]⟩ false outerATR aR = .ok () := rfl
theorem a_assoc_left : listsAssociative ⟨[]⟩ outerATR aL = true := rfl
theorem a_assoc_right : listsAssociative ⟨[]⟩ outerATR aR = true := rfl
theorem a_keys_left : keysScalar ⟨[]⟩ outerATR aL = true := rfl
theorem a_keys_right : keysScalar ⟨[]⟩ outerATR aR = true := rfl
theorem a_merge : mergeNode ⟨[]⟩ 4 (some aL) (some aR) outerATR = .ok (some aOut) := by with_unfolding_all rfl
theorem a_at_left : Nodes.valueAt ⟨[]⟩ outerATR aL aPath = some (.int 1) := rfl
theorem a_at_right : Nodes.valueAt ⟨[]⟩ outerATR aR aPath = none := rfl
theorem a_at_out : Nodes.valueAt ⟨[]⟩ outerATR aOut aPath = none := rfl
theorem a_no_index : ∀ pe ∈ aPath, PE.isIndex pe = false := by
  intro pe h; simp [aPath] at h; rcases h with rfl | rfl <;> rfl
theorem a_above : ∀ q, q <+: aPath → q ≠ aPath → ∀ x, Nodes.valueAt ⟨[]⟩ outerATR aR q = some x →
    x.isScalar = false ∧ x ≠ .null := by
  intro q h hne x hx
  rcases strict_prefix_two h hne with rfl | rfl
  · cases hx; exact ⟨rfl, by intro h; cases h⟩
  · cases hx; exact ⟨rfl, by intro h; cases h⟩

/-! #### (B) a kind change: the type allows a map of scalars or a set of scalars -/

def setLT : ListT := .mk elemTR "associative" []
/-- a map of untyped scalars or a set of untyped scalars -/
def unionTR : TypeRef := .mk none (.mk none (some setLT) (some (.mk [] [] elemTR ""))) none
def outerBTR : TypeRef := .mk none (.mk none none (some (.mk [] [] unionTR ""))) none
def bL : Value := .map [("a", .map [("b", .int 1)])]
def bR : Value := .map [("a", .list [.int 1])]
def bOut : Value := .map [("a", .list [.int 1])]
def bPath : Path := [.field "a", .field "b"]

theorem b_valid_left : validateV ⟨[]⟩ true outerBTR bL = .ok () := rfl
theorem b_valid_right : validateV ⟨[]⟩ false outerBTR bR = .ok () := rfl
theorem b_assoc_left : listsAssociative ⟨[]⟩ outerBTR bL = true := rfl
theorem b_assoc_right : listsAssociative ⟨[]⟩ outerBTR bR = true := rfl
theorem b_keys_left : keysScalar ⟨[]⟩ outerBTR bL = true := rfl
theorem b_keys_right : keysScalar ⟨[]⟩ outerBTR bR = true := rfl
theorem b_merge : mergeNode ⟨[]⟩ 4 (some bL) (some bR) outerBTR = .ok (some bOut) := by with_unfolding_all rfl
theorem b_at_left : Nodes.valueAt ⟨[]⟩ outerBTR bL bPath = some (.int 1) := rfl
theorem b_at_right : Nodes.valueAt ⟨[]⟩ outerBTR bR bPath = none := rfl
theorem b_at_out : Nodes.valueAt ⟨[]⟩ outerBTR bOut bPath = none := rfl
theorem b_no_index : ∀ pe ∈ bPath, PE.isIndex pe = false := by
  intro pe h; simp [bPath] at h; rcases h with rfl | rfl <;> rfl
theorem b_above : ∀ q, q <+: bPath → q ≠ bPath → ∀ x, Nodes.valueAt ⟨[]⟩ outerBTR bR q = some x →
    x.isScalar = false ∧ x ≠ .null := by
  intro q h hne x hx
  rcases strict_prefix_two h hne with rfl | rfl
  · cases hx; exact ⟨rfl, by intro h; cases h⟩
  · cases hx; exact ⟨rfl, by intro h; cases h⟩

/-! #### (C) an item repeated in the left list -/

/-- the item type: scalar fields `k`, `v`, `z` -/
def itemTR : TypeRef :=
  .mk none (.mk none none (some (.mk [.mk "k" elemTR none, .mk "v" elemTR none, .mk "z" elemTR none] [] .zero ""))) none
/-- a list keyed by `k` -/
def keyedTR : TypeRef := .mk none (.mk none (some (.mk itemTR "associative" ["k"])) none) none
def cL : Value := .list [.map [("k", .int 1), ("v", .int 2)], .map [("k", .int 1), ("v", .int 3)]]
def cR : Value := .list [.map [("k", .int 1), ("z", .int 4)]]
def cOut : Value := .list [.map [("k", .int 1), ("z", .int 4)]]
def cPath : Path := [.key [("k", .int 1)], .field "v"]

theorem c_valid_left : validateV ⟨[]⟩ true keyedTR cL = .ok () := rfl
theorem c_valid_right : validateV ⟨[]⟩ false keyedTR cR = .ok () := rfl
theorem c_assoc_left : listsAssociative ⟨[]⟩ keyedTR cL = true := rfl
theorem c_assoc_right : listsAssociative ⟨[]⟩ keyedTR cR = true := rfl
theorem c_keys_left : keysScalar ⟨[]⟩ keyedTR cL = true := rfl
theorem c_keys_right : keysScalar ⟨[]⟩ keyedTR cR = true := rfl
theorem c_merge : mergeNode ⟨[]⟩ 4 (some cL) (some cR) keyedTR = .ok (some cOut) := by with_unfolding_all rfl
theorem c_at_left : Nodes.valueAt ⟨[]⟩ keyedTR cL cPath = some (.int 2) := rfl
theorem c_at_right : Nodes.valueAt ⟨[]⟩ keyedTR cR cPath = none := rfl
theorem c_at_out : Nodes.valueAt ⟨[]⟩ keyedTR cOut cPath = none := rfl
theorem c_no_index : ∀ pe ∈ cPath, PE.isIndex pe = false := by
  intro pe h; simp [cPath] at h; rcases h with rfl | rfl <;> rfl
theorem c_above : ∀ q, q <+: cPath → q ≠ cPath → ∀ x, Nodes.valueAt ⟨[]⟩ keyedTR cR q = some x →
    x.isScalar = false ∧ x ≠ .null := by
  intro q h hne x hx
  rcases strict_prefix_two h hne with rfl | rfl
  · cases hx; exact ⟨rfl, by intro h; cases h⟩
  · cases hx; exact ⟨rfl, by intro h; cases h⟩

/-! #### the same through `apply`: a manager's first apply -/

def upd : Updater := { converter := Converter.identity, ignore := fun _ => none }

def aLive : TV := ⟨aL, outerATR⟩
def aCfg : TV := ⟨aR, outerATR⟩
/-- the managed fields the first apply of `aCfg` over `aLive` records -/
def aManagedAfter : Managed :=
  match apply upd ⟨[]⟩ aLive aCfg "v" [] "m" true with
  | .ok (_, mf) => mf
  | _ => []
theorem a_apply : apply upd ⟨[]⟩ aLive aCfg "v" [] "m" true = .ok (some ⟨aOut, outerATR⟩, aManagedAfter) := by
  with_unfolding_all rfl
theorem a_reconcile : reconcileManaged upd ⟨[]⟩ aLive [] = .ok [] := rfl

def bLive : TV := ⟨bL, outerBTR⟩
def bCfg : TV := ⟨bR, outerBTR⟩
def bManagedAfter : Managed :=
  match apply upd ⟨[]⟩ bLive bCfg "v" [] "m" true with
  | .ok (_, mf) => mf
  | _ => []
theorem b_apply : apply upd ⟨[]⟩ bLive bCfg "v" [] "m" true = .ok (some ⟨bOut, outerBTR⟩, bManagedAfter) := by
  with_unfolding_all rfl
theorem b_reconcile : reconcileManaged upd ⟨[]⟩ bLive [] = .ok [] := rfl

def cLive : TV := ⟨cL, keyedTR⟩
def cCfg : TV := ⟨cR, keyedTR⟩
def cManagedAfter : Managed :=
  match apply upd ⟨[]⟩ cLive cCfg "v" [] "m" true with
  | .ok (_, mf) => mf
  | _ => []
theorem c_apply : apply upd ⟨[]⟩ cLive cCfg "v" [] "m" true = .ok (some ⟨cOut, keyedTR⟩, cManagedAfter) := by
  with_unfolding_all rfl
theorem c_reconcile : reconcileManaged upd ⟨[]⟩ cLive [] = .ok [] := rfl

/-! #### non-vacuity of the re-proved statements: a keyed list inside a map; the left operand has an item
the right operand lacks, and a shared item with a field the right item lacks -/

def nvItemTR : TypeRef :=
  .mk none (.mk none none (some (.mk [.mk "name" elemTR none, .mk "x" elemTR none, .mk "y" elemTR none] [] .zero ""))) none
def nvTR : TypeRef :=
  .mk none (.mk none none (some (.mk [.mk "items" (.mk none (.mk none (some (.mk nvItemTR "associative" ["name"])) none) none) none]
    [] .zero ""))) none
def nvL : Value :=
  .map [("items", .list [.map [("name", .int 7), ("x", .int 1)], .map [("name", .int 8), ("x", .int 1), ("y", .int 5)]])]
def nvR : Value :=
  .map [("items", .list [.map [("name", .int 8), ("x", .int 2)], .map [("name", .int 9)]])]
def nvOut : Value :=
  .map [("items", .list [.map [("name", .int 7), ("x", .int 1)], .map [("name", .int 8), ("x", .int 2), ("y", .int 5)],
    .map [("name", .int 9)]])]
/-- a field of a shared item only the left item has -/
def nvPath : Path := [.field "items", .key [("name", .int 8)], .field "y"]
/-- a field of an item only the left operand has -/
def nvPath2 : Path := [.field "items", .key [("name", .int 7)], .field "x"]

theorem strict_prefix_three {a b c : PE} {q : Path} (h : q <+: [a, b, c]) (hne : q ≠ [a, b, c]) :
    q = [] ∨ q = [a] ∨ q = [a, b] := by
  rcases q with _ | ⟨e, _ | ⟨e2, _ | ⟨e3, _ | ⟨e4, q'⟩⟩⟩⟩
  · exact .inl rfl
  · obtain ⟨t, ht⟩ := h
    simp only [List.cons_append, List.nil_append, List.cons.injEq] at ht
    rw [ht.1]; exact .inr (.inl rfl)
  · obtain ⟨t, ht⟩ := h
    simp only [List.cons_append, List.nil_append, List.cons.injEq] at ht
    rw [ht.1, ht.2.1]; exact .inr (.inr rfl)
  · exfalso
    obtain ⟨t, ht⟩ := h
    simp only [List.cons_append, List.nil_append, List.cons.injEq] at ht
    apply hne
    rw [ht.1, ht.2.1, ht.2.2.1]
  · exfalso
    obtain ⟨t, ht⟩ := h
    simp at ht

theorem nv_valid_left : validateV ⟨[]⟩ true nvTR nvL = .ok () := rfl
theorem nv_valid_right : validateV ⟨[]⟩ false nvTR nvR = .ok () := rfl
theorem nv_assoc_left : listsAssociative ⟨[]⟩ nvTR nvL = true := rfl
theorem nv_assoc_right : listsAssociative ⟨[]⟩ nvTR nvR = true := rfl
theorem nv_keys_left : keysScalar ⟨[]⟩ nvTR nvL = true := rfl
theorem nv_keys_right : keysScalar ⟨[]⟩ nvTR nvR = true := rfl
theorem nv_merge : mergeNode ⟨[]⟩ 5 (some nvL) (some nvR) nvTR = .ok (some nvOut) := by with_unfolding_all rfl
theorem nv_at_left : Nodes.valueAt ⟨[]⟩ nvTR nvL nvPath = some (.int 5) := rfl
theorem nv_at_right : Nodes.valueAt ⟨[]⟩ nvTR nvR nvPath = none := rfl
theorem nv_no_index : ∀ pe ∈ nvPath, PE.isIndex pe = false := by
  intro pe h; simp [nvPath] at h; rcases h with rfl | rfl | rfl <;> rfl
theorem nv_above : ∀ q, q <+: nvPath → q ≠ nvPath → ∀ x, Nodes.valueAt ⟨[]⟩ nvTR nvR q = some x →
    x.isScalar = false ∧ x ≠ .null := by
  intro q h hne x hx
  rcases strict_prefix_three h hne with rfl | rfl | rfl
  · cases hx; exact ⟨rfl, by intro h; cases h⟩
  · cases hx; exact ⟨rfl, by intro h; cases h⟩
  · cases hx; exact ⟨rfl, by intro h; cases h⟩
theorem nv_at_left2 : Nodes.valueAt ⟨[]⟩ nvTR nvL nvPath2 = some (.int 1) := rfl
theorem nv_at_right2 : Nodes.valueAt ⟨[]⟩ nvTR nvR nvPath2 = none := rfl
theorem nv_no_index2 : ∀ pe ∈ nvPath2, PE.isIndex pe = false := by
  intro pe h; simp [nvPath2] at h; rcases h with rfl | rfl | rfl <;> rfl
theorem nv_above2 : ∀ q, q <+: nvPath2 → q ≠ nvPath2 → ∀ x, Nodes.valueAt ⟨[]⟩ nvTR nvR q = some x →
    x.isScalar = false ∧ x ≠ .null := by
  intro q h hne x hx
  rcases strict_prefix_three h hne with rfl | rfl | rfl
  · cases hx; exact ⟨rfl, by intro h; cases h⟩
  · cases hx; exact ⟨rfl, by intro h; cases h⟩
  · cases hx

/-! #### non-vacuity: an item repeated in the left list is harmless where the right list has no such item -/

def dL : Value := .list [.map [("k", .int 1), ("v", .int 2)], .map [("k", .int 1), ("v", .int 3)]]
def dR : Value := .list [.map [("k", .int 2), ("z", .int 4)]]
def dOut : Value :=
  .list [.map [("k", .int 1), ("v", .int 2)], .map [("k", .int 1), ("v", .int 3)], .map [("k", .int 2), ("z", .int 4)]]

theorem d_valid_left : validateV ⟨[]⟩ true keyedTR dL = .ok () := rfl
theorem d_valid_right : validateV ⟨[]⟩ false keyedTR dR = .ok () := rfl
theorem d_assoc_left : listsAssociative ⟨[]⟩ keyedTR dL = true := rfl
theorem d_assoc_right : listsAssociative ⟨[]⟩ keyedTR dR = true := rfl
theorem d_keys_left : keysScalar ⟨[]⟩ keyedTR dL = true := rfl
theorem d_keys_right : keysScalar ⟨[]⟩ keyedTR dR = true := rfl
theorem d_merge : mergeNode ⟨[]⟩ 4 (some dL) (some dR) keyedTR = .ok (some dOut) := by with_unfolding_all rfl
theorem d_at_left : Nodes.valueAt ⟨[]⟩ keyedTR dL cPath = some (.int 2) := rfl
theorem d_at_right : Nodes.valueAt ⟨[]⟩ keyedTR dR cPath = none := rfl
theorem d_above : ∀ q, q <+: cPath → q ≠ cPath → ∀ x, Nodes.valueAt ⟨[]⟩ keyedTR dR q = some x →
    x.isScalar = false ∧ x ≠ .null := by
  intro q h hne x hx
  rcases strict_prefix_two h hne with rfl | rfl
  · cases hx; exact ⟨rfl, by intro h; cases h⟩
  · cases hx

end SMD.Counter02
