/-
C12, idempotence: merging the right operand again into the result of a merge changes nothing
(accepted repeat-free operands whose keyed lists carry canonical key fields: `keysCanon`, implied by
`keysScalar` and by `canon`).
-/
import SMD.Proofs.MergeFieldSetLaws
set_option linter.unusedSimpArgs false
set_option linter.unusedVariables false
namespace SMD
namespace MV
open NodeLaws CmpX

/-! ### entry lists in key order -/

/-- keys in non-descending order (what `insertField` maintains) -/
def KeysLE (m : List (String × Value)) : Prop := m.Pairwise (fun a b => ¬ b.1 < a.1)

theorem insertField_sorted (e : String × Value) : ∀ m : List (String × Value), KeysLE m → KeysLE (insertField e m)
  | [], _ => by simp [insertField, KeysLE]
  | x :: xs, h => by
    unfold KeysLE at h ⊢
    obtain ⟨h1, h2⟩ := List.pairwise_cons.1 h
    simp only [insertField]
    split
    · next hlt =>
      refine List.pairwise_cons.2 ⟨?_, h⟩
      intro y hy
      rcases List.mem_cons.1 hy with rfl | hy
      · exact String.lt_asymm hlt
      · intro hye; exact h1 y hy (String.lt_trans hye hlt)
    · next hnlt =>
      refine List.pairwise_cons.2 ⟨?_, insertField_sorted e xs h2⟩
      intro y hy
      rcases (mem_insertField e y xs).1 hy with rfl | hy
      · exact hnlt
      · exact h1 y hy

theorem insertField_append_of_le (e : String × Value) : ∀ m : List (String × Value),
    (∀ x ∈ m, ¬ e.1 < x.1) → insertField e m = m ++ [e]
  | [], _ => rfl
  | x :: xs, h => by
    simp only [insertField, if_neg (h x List.mem_cons_self), List.cons_append]
    rw [insertField_append_of_le e xs (fun y hy => h y (List.mem_cons_of_mem _ hy))]

theorem foldl_mergeMapStep_sorted (rec : MergeRec) (t : MapT) (lf rf : List (String × Value)) :
    ∀ (ks : List String) (acc res : List (String × Value)),
      List.foldl (mergeMapStep rec t lf rf) (.ok acc) ks = .ok res → KeysLE acc → KeysLE res
  | [], acc, res, h, hs => by simp only [List.foldl_nil, Res.ok.injEq] at h; subst h; exact hs
  | k :: ks, acc, res, h, hs => by
    simp only [List.foldl_cons] at h
    cases hr : rec (lookupField k lf) (lookupField k rf) (fieldType t k) with
    | err => simp only [mergeMapStep, hr, foldl_mergeMapStep_err] at h; cases h
    | panic => simp only [mergeMapStep, hr, foldl_mergeMapStep_panic] at h; cases h
    | ok o =>
      cases o with
      | none =>
        simp only [mergeMapStep, hr] at h
        exact foldl_mergeMapStep_sorted rec t lf rf ks acc res h hs
      | some v =>
        simp only [mergeMapStep, hr] at h
        exact foldl_mergeMapStep_sorted rec t lf rf ks _ res h (insertField_sorted _ _ hs)

/-- the entries built by a run of the fold over the keys of `m`, in order -/
def RelM (rec : MergeRec) (t : MapT) (lf rf : List (String × Value)) :
    List (String × Value) → List (String × Value) → Prop
  | [], [] => True
  | x :: xs, y :: ys =>
    y.1 = x.1 ∧ rec (lookupField x.1 lf) (lookupField x.1 rf) (fieldType t x.1) = .ok (some y.2) ∧ RelM rec t lf rf xs ys
  | _, _ => False

/-- folding over keys that come in order (and not below what is there already) appends the results in order -/
theorem foldl_mergeMapStep_ordered (rec : MergeRec) (t : MapT) (lf rf : List (String × Value))
    (hsome : ∀ lc rc tr o, rec lc rc tr = .ok o → o.isSome = true) :
    ∀ (m acc res : List (String × Value)),
      List.foldl (mergeMapStep rec t lf rf) (.ok acc) (m.map (·.1)) = .ok res →
      (∀ x ∈ m, ∀ y ∈ acc, ¬ x.1 < y.1) → KeysLE m → ∃ new, res = acc ++ new ∧ RelM rec t lf rf m new
  | [], acc, res, h, _, _ => by
    simp only [List.map_nil, List.foldl_nil, Res.ok.injEq] at h
    subst h
    exact ⟨[], by simp, trivial⟩
  | x :: xs, acc, res, h, hacc, hs => by
    simp only [List.map_cons, List.foldl_cons] at h
    obtain ⟨h1, h2⟩ := List.pairwise_cons.1 hs
    cases hr : rec (lookupField x.1 lf) (lookupField x.1 rf) (fieldType t x.1) with
    | err => simp only [mergeMapStep, hr, foldl_mergeMapStep_err] at h; cases h
    | panic => simp only [mergeMapStep, hr, foldl_mergeMapStep_panic] at h; cases h
    | ok o =>
      have := hsome _ _ _ _ hr
      cases o with
      | none => cases this
      | some v =>
        simp only [mergeMapStep, hr] at h
        rw [insertField_append_of_le (x.1, v) acc (fun y hy => hacc x List.mem_cons_self y hy)] at h
        obtain ⟨new, e1, e2⟩ := foldl_mergeMapStep_ordered rec t lf rf hsome xs _ res h (by
          intro x' hx' y hy
          rcases List.mem_append.1 hy with hy | hy
          · exact hacc x' (List.mem_cons_of_mem _ hx') y hy
          · simp only [List.mem_singleton] at hy
            subst hy
            exact h1 x' hx') h2
        exact ⟨(x.1, v) :: new, by rw [e1]; simp, rfl, hr, e2⟩

theorem equalsFields_of_relM (rec : MergeRec) (t : MapT) (lf rf : List (String × Value)) :
    ∀ (m new : List (String × Value)), RelM rec t lf rf m new →
      (∀ x ∈ m, ∀ v, rec (lookupField x.1 lf) (lookupField x.1 rf) (fieldType t x.1) = .ok (some v) →
        Value.equals v x.2 = true) →
      Value.equalsFields new m = true
  | [], [], _, _ => rfl
  | [], _ :: _, h, _ => by cases h
  | _ :: _, [], h, _ => by cases h
  | x :: xs, y :: ys, h, hv => by
    obtain ⟨h1, h2, h3⟩ := h
    obtain ⟨yk, yv⟩ := y
    obtain ⟨xk, xv⟩ := x
    simp only [] at h1 h2
    subst h1
    simp only [Value.equalsFields, beq_self_eq_true, Bool.true_and, Bool.and_eq_true]
    exact ⟨hv _ List.mem_cons_self yv h2, equalsFields_of_relM rec t lf rf xs ys h3
      (fun x' hx' => hv x' (List.mem_cons_of_mem _ hx'))⟩

theorem zipKeys_covered (outm rf : List (String × Value))
    (h : ∀ kv ∈ rf, (lookupField kv.1 outm).isSome = true) : zipKeys outm rf = outm.map (·.1) := by
  unfold zipKeys
  have : rf.filter (fun kv => (lookupField kv.1 outm).isNone) = [] := by
    rw [List.filter_eq_nil_iff]
    intro kv hkv
    have := h kv hkv
    cases hl : lookupField kv.1 outm <;> simp_all
  rw [this]
  simp

/-! ### the handlers, by whether the node is a leaf of the walk -/

theorem mergeHandle_map_keep (s : Schema) (rec : MergeRec) (l r : Option Value) (atom : Atom) (t : MapT)
    (hk : atomKind atom = .map t)
    (hC : (t.rel == "atomic" || (emptyOrAbsent (asMap l) && emptyOrAbsent (asMap r))) = true) :
    mergeHandle s rec l r atom = .ok (keepRHS l r) := by
  unfold mergeHandle
  rw [hk]
  simp only []
  rw [if_pos hC]

theorem mergeHandle_list_keep (s : Schema) (rec : MergeRec) (l r : Option Value) (atom : Atom) (t : ListT)
    (hk : atomKind atom = .list t)
    (hC : (t.rel == "atomic" || (emptyOrAbsent (asList l) && emptyOrAbsent (asList r))) = true) :
    mergeHandle s rec l r atom = .ok (keepRHS l r) := by
  unfold mergeHandle
  rw [hk]
  simp only []
  rw [if_pos hC]

/-- the map handler: a leaf of the walk (the surviving operand is the result) or the fold over the keys -/
theorem mergeHandle_map_cases (s : Schema) (rec : MergeRec) (l r : Option Value) (atom : Atom) (t : MapT)
    (hk : atomKind atom = .map t) (o : Option Value) (h : mergeHandle s rec l r atom = .ok o) :
    ((t.rel == "atomic" || (emptyOrAbsent (asMap l) && emptyOrAbsent (asMap r))) = true ∧ o = keepRHS l r) ∨
    ((t.rel == "atomic" || (emptyOrAbsent (asMap l) && emptyOrAbsent (asMap r))) = false ∧
      ∃ outm, (zipKeys ((asMap l).getD []) ((asMap r).getD [])).foldl
        (mergeMapStep rec t ((asMap l).getD []) ((asMap r).getD [])) (.ok []) = .ok outm ∧
        ((outm = [] ∧ o = none) ∨ (outm ≠ [] ∧ o = some (.map outm)))) := by
  cases hC : (t.rel == "atomic" || (emptyOrAbsent (asMap l) && emptyOrAbsent (asMap r))) with
  | true =>
    rw [mergeHandle_map_keep s rec l r atom t hk hC] at h
    cases h
    exact .inl ⟨rfl, rfl⟩
  | false =>
    right
    refine ⟨rfl, ?_⟩
    unfold mergeHandle at h
    rw [hk] at h
    simp only [hC, Bool.false_eq_true, if_false] at h
    split at h
    · next hf => cases h; exact ⟨[], hf, .inl ⟨rfl, rfl⟩⟩
    · next outm hne hf => cases h; exact ⟨outm, hf, .inr ⟨fun he => by subst he; exact hne rfl, rfl⟩⟩
    · cases h
    · cases h

/-- the list handler: a leaf of the walk or the interleaving loop over the two indexes -/
theorem mergeHandle_list_cases (s : Schema) (rec : MergeRec) (l r : Option Value) (atom : Atom) (t : ListT)
    (hk : atomKind atom = .list t) (o : Option Value) (h : mergeHandle s rec l r atom = .ok o) :
    ((t.rel == "atomic" || (emptyOrAbsent (asList l) && emptyOrAbsent (asList r))) = true ∧ o = keepRHS l r) ∨
    ((t.rel == "atomic" || (emptyOrAbsent (asList l) && emptyOrAbsent (asList r))) = false ∧
      ∃ rpes obsR lpes obsL res,
        indexPEs s t false ((asList r).getD []) [] [] = .ok (rpes, obsR) ∧
        indexPEs s t true ((asList l).getD []) [] [] = .ok (lpes, obsL) ∧
        mergeLoop (fun _ lc rc => rec lc rc t.elementType) obsL obsR (lpes.length + (rpes.map (·.1)).length) lpes
          (rpes.map (·.1)) ((rpes.map (·.1)).filter (fun pe => (pemGet pe obsL).isSome)) [] [] = .ok res ∧
        ((res = [] ∧ o = none) ∨ (res ≠ [] ∧ o = some (.list res)))) := by
  cases hC : (t.rel == "atomic" || (emptyOrAbsent (asList l) && emptyOrAbsent (asList r))) with
  | true =>
    rw [mergeHandle_list_keep s rec l r atom t hk hC] at h
    cases h
    exact .inl ⟨rfl, rfl⟩
  | false =>
    right
    refine ⟨rfl, ?_⟩
    unfold mergeHandle at h
    rw [hk] at h
    simp only [hC, Bool.false_eq_true, if_false] at h
    split at h
    · cases h
    · cases h
    · next rpes obsR hr =>
      split at h
      · cases h
      · cases h
      · next lpes obsL hl =>
        split at h
        · next hf => cases h; exact ⟨rpes, obsR, lpes, obsL, [], hr, hl, hf, .inl ⟨rfl, rfl⟩⟩
        · next res hne hf =>
          cases h
          exact ⟨rpes, obsR, lpes, obsL, res, hr, hl, hf, .inr ⟨fun he => by subst he; exact hne rfl, rfl⟩⟩
        · cases h
        · cases h

/-! ### the first loop emits the items of the right elements in the order of the right operand -/

/-- indexed on the right -/
def inR (obsR : List (PE × Value)) (q : PE) : Bool := (pemGet q obsR).isSome

theorem Path.equals_append : ∀ {a b c d : Path}, Path.equals a b = true → Path.equals c d = true →
    Path.equals (a ++ c) (b ++ d) = true
  | [], [], _, _, _, h => h
  | [], _ :: _, _, _, h, _ => by simp [Path.equals] at h
  | _ :: _, [], _, _, h, _ => by simp [Path.equals] at h
  | x :: xs, y :: ys, c, d, h1, h2 => by
    simp only [Path.equals, Bool.and_eq_true, List.cons_append] at h1 ⊢
    exact ⟨h1.1, Path.equals_append h1.2 h2⟩

theorem mergeLoop_aligned_out (s : Schema) (t : ListT)
    (item : PE → Option Value → Option Value → Res (Option Value)) (obsL obsR : List (PE × Value))
    (hsome : ∀ pe a b o, item pe a b = .ok o → o.isSome = true) :
    ∀ (steps : Nat) (ls : List (PE × Value)) (rs shared merged : List PE) (out res : List Value) (done : List PE),
      mergeLoop item obsL obsR steps ls rs shared merged out = .ok res →
      (∀ pe x v, (pe, x) ∈ ls → pemGet pe obsR = none → item pe (some x) none = .ok (some v) →
        PE.equals (idOf s t v) pe = true) →
      (∀ pe rpe v, rpe ∈ rs → PE.equals pe rpe = true → item pe (pemGet pe obsL) (pemGet pe obsR) = .ok (some v) →
        PE.equals (idOf s t v) rpe = true) →
      (∀ r ∈ rs, inR obsR r = true) →
      Path.equals ((out.reverse.map (idOf s t)).filter (inR obsR)) done = true →
      Path.equals ((res.map (idOf s t)).filter (inR obsR)) (done ++ rs) = true := by
  intro steps
  induction steps with
  | zero =>
    intro ls rs shared merged out res done h HL HR hrs hal
    by_cases hne : ls = [] ∧ rs = []
    · obtain ⟨rfl, rfl⟩ := hne
      rw [mergeLoop_nil] at h
      cases h
      simpa using hal
    · rw [mergeLoop] at h
      · cases h
      · intro h1 h2; exact hne ⟨h1, h2⟩
  | succ n ih =>
    intro ls rs shared merged out res done h HL HR hrs hal
    by_cases hne : ls = [] ∧ rs = []
    · obtain ⟨rfl, rfl⟩ := hne
      rw [mergeLoop_nil] at h
      cases h
      simpa using hal
    · obtain ⟨ls2, rs2, shared2, merged2, out2, h2, hstep⟩ := mergeLoop_step item obsL obsR n ls rs shared merged out res hne h
      cases hstep with
      | skip pe x _ hls hs =>
        subst hls
        exact ih _ _ _ _ _ _ _ h2 (fun pe' x' v hm => HL pe' x' v (List.mem_cons_of_mem _ hm)) HR hrs hal
      | left pe x _ o hls hn hi =>
        subst hls
        refine ih _ _ _ _ _ _ _ h2 (fun pe' x' v hm => HL pe' x' v (List.mem_cons_of_mem _ hm)) HR hrs ?_
        cases o with
        | none => exact hal
        | some v =>
          have hpo := HL pe x v List.mem_cons_self hn hi
          have : inR obsR (idOf s t v) = false := by
            unfold inR; rw [pemGet_congr hpo, hn]; rfl
          simp only [pushOpt, List.reverse_cons, List.map_append, List.map_cons, List.map_nil, List.filter_append,
            List.filter_cons, this, Bool.false_eq_true, if_false, List.filter_nil, List.append_nil]
          exact hal
      | right pe rpe _ _ o hrs' he hi hl =>
        subst hrs'
        have hsub : ∀ p ∈ ls2, p ∈ ls := by
          rcases hl with rfl | ⟨y, rfl⟩
          · exact fun p hp => hp
          · exact fun p hp => List.mem_cons_of_mem _ hp
        have := hsome _ _ _ _ hi
        cases o with
        | none => cases this
        | some v =>
          have hpo := HR pe rpe v List.mem_cons_self he hi
          have hin : inR obsR (idOf s t v) = true := by
            unfold inR; rw [pemGet_congr hpo]; exact hrs rpe List.mem_cons_self
          have := ih _ _ _ _ _ _ (done ++ [rpe]) h2 (fun pe' x' v hm => HL pe' x' v (hsub _ hm))
            (fun pe' r' v hm => HR pe' r' v (List.mem_cons_of_mem _ hm))
            (fun r hr => hrs r (List.mem_cons_of_mem _ hr)) (by
              simp only [pushOpt, List.reverse_cons, List.map_append, List.map_cons, List.map_nil, List.filter_append,
                List.filter_cons, hin, if_true, List.filter_nil]
              exact Path.equals_append hal (by simp [Path.equals, hpo]))
          simpa using this
      | idle => exact ih _ _ _ _ _ _ _ h2 HL HR hrs hal

/-! ### the second loop: the left elements hold the right elements in order -/

/-- the results of a run over the left items, in order -/
def RelL (item : PE → Option Value → Option Value → Res (Option Value)) (obsR : List (PE × Value)) :
    List (PE × Value) → List Value → Prop
  | [], [] => True
  | p :: ps, v :: vs => item p.1 (some p.2) (pemGet p.1 obsR) = .ok (some v) ∧ RelL item obsR ps vs
  | _, _ => False

theorem mergeLoop_aligned (item : PE → Option Value → Option Value → Res (Option Value))
    (obsL obsR : List (PE × Value)) (hsome : ∀ pe a b o, item pe a b = .ok o → o.isSome = true) :
    ∀ (steps : Nat) (ls : List (PE × Value)) (rs merged : List PE) (out res : List Value),
      mergeLoop item obsL obsR steps ls rs rs merged out = .ok res →
      (∀ p ∈ ls, pemGet p.1 obsL = some p.2) → (∀ r ∈ rs, inR obsR r = true) →
      Path.equals ((ls.map (·.1)).filter (inR obsR)) rs = true →
      ∃ outs, res = out.reverse ++ outs ∧ RelL item obsR ls outs := by
  intro steps
  induction steps with
  | zero =>
    intro ls rs merged out res h hL hrs hal
    cases ls with
    | nil =>
      cases rs with
      | nil => rw [mergeLoop_nil] at h; cases h; exact ⟨[], by simp, trivial⟩
      | cons rpe rs' => simp [Path.equals] at hal
    | cons p ls' => cases rs <;> simp [mergeLoop] at h
  | succ k ih =>
    intro ls rs merged out res h hL hrs hal
    cases ls with
    | nil =>
      cases rs with
      | nil => rw [mergeLoop_nil] at h; cases h; exact ⟨[], by simp, trivial⟩
      | cons rpe rs' => simp [Path.equals] at hal
    | cons p ls' =>
      obtain ⟨pe, x⟩ := p
      have hL' : ∀ p ∈ ls', pemGet p.1 obsL = some p.2 := fun p hp => hL p (List.mem_cons_of_mem _ hp)
      have hx : pemGet pe obsL = some x := hL (pe, x) List.mem_cons_self
      -- the common left-only step
      have left : inR obsR pe = false → ∀ (rs0 : List PE),
          Path.equals (((((pe, x) :: ls').map (·.1))).filter (inR obsR)) rs0 = true →
          (∀ r ∈ rs0, inR obsR r = true) →
          (match item pe (some x) none with
            | .ok o => mergeLoop item obsL obsR k ls' rs0 rs0 merged (pushOut o out)
            | .err => .err
            | .panic => .panic) = .ok res →
          ∃ outs, res = out.reverse ++ outs ∧ RelL item obsR ((pe, x) :: ls') outs := by
        intro hin rs0 hal0 hrs0 h0
        have hnone : pemGet pe obsR = none := by
          unfold inR at hin
          cases hg : pemGet pe obsR <;> simp_all
        cases hi : item pe (some x) none with
        | err => rw [hi] at h0; cases h0
        | panic => rw [hi] at h0; cases h0
        | ok o =>
          have := hsome _ _ _ _ hi
          cases o with
          | none => cases this
          | some v =>
            rw [hi] at h0
            simp only [pushOut] at h0
            simp only [List.map_cons, List.filter_cons, hin, Bool.false_eq_true, if_false] at hal0
            obtain ⟨outs, e1, e2⟩ := ih ls' rs0 merged (v :: out) res h0 hL' hrs0 hal0
            refine ⟨v :: outs, by rw [e1]; simp, ?_, e2⟩
            simp only [hnone]
            exact hi
      cases rs with
      | nil =>
        rw [mergeLoop_cons_nil] at h
        have hin : inR obsR pe = false := by
          cases hin : inR obsR pe with
          | false => rfl
          | true => simp [hin, Path.equals] at hal
        have hnone : (pemGet pe obsR).isNone = true := by
          unfold inR at hin
          cases hg : pemGet pe obsR <;> simp_all
        rw [if_pos hnone] at h
        exact left hin [] hal hrs h
      | cons rpe rs' =>
        rw [mergeLoop_cons_cons] at h
        by_cases he : PE.equals pe rpe = true
        · rw [if_pos he] at h
          have hin : inR obsR pe = true := by
            unfold inR; rw [pemGet_congr he]; exact hrs rpe List.mem_cons_self
          rw [hx] at h
          cases hi : item pe (some x) (pemGet pe obsR) with
          | err => rw [hi] at h; cases h
          | panic => rw [hi] at h; cases h
          | ok o =>
            have := hsome _ _ _ _ hi
            cases o with
            | none => cases this
            | some v =>
              rw [hi] at h
              simp only [pushOut, List.tail_cons] at h
              simp only [List.map_cons, List.filter_cons, hin, if_true, Path.equals, Bool.and_eq_true] at hal
              obtain ⟨outs, e1, e2⟩ := ih ls' rs' _ (v :: out) res h hL'
                (fun r hr => hrs r (List.mem_cons_of_mem _ hr)) hal.2
              exact ⟨v :: outs, by rw [e1]; simp, hi, e2⟩
        · rw [if_neg he] at h
          have hin : inR obsR pe = false := by
            cases hin : inR obsR pe with
            | false => rfl
            | true =>
              simp only [List.map_cons, List.filter_cons, hin, if_true, Path.equals, Bool.and_eq_true] at hal
              exact absurd hal.1 he
          have hsomeF : (pemGet pe obsR).isSome = false := hin
          have hnone : (pemGet pe obsR).isNone = true := by
            cases hg : pemGet pe obsR <;> simp_all
          simp only [hsomeF, Bool.false_and, Bool.false_eq_true, if_false, hnone, if_true] at h
          exact left hin (rpe :: rs') hal hrs h

/-! ### the left index of a repeat-free list -/

theorem indexPEs_true_of_false (s : Schema) (t : ListT) :
    ∀ (l : List Value) (pes obs : List (PE × Value)) (x : List (PE × Value) × List (PE × Value)),
      indexPEs s t false l pes obs = .ok x → indexPEs s t true l pes obs = .ok x
  | [], pes, obs, x, h => by simpa [indexPEs] using h
  | child :: rest, pes, obs, x, h => by
    rw [indexPEs] at h ⊢
    split at h
    · next pe hpe =>
      split at h
      · simp at h
      · next hnone =>
        exact indexPEs_true_of_false s t rest _ _ x h
    · cases h
    · cases h

/-! ### idempotence -/

theorem keepRHS_idem (lo ro : Option Value) (out : Value) (h : some out = keepRHS lo ro) :
    keepRHS (some out) ro = keepRHS lo ro := by
  cases ro with
  | some r => rfl
  | none => simp only [keepRHS] at h ⊢; exact h

theorem emptyOrAbsent_keep_map (lo ro : Option Value) (out : Value) (h : some out = keepRHS lo ro)
    (hb : (emptyOrAbsent (asMap lo) && emptyOrAbsent (asMap ro)) = true) :
    emptyOrAbsent (asMap (some out)) = true := by
  simp only [Bool.and_eq_true] at hb
  cases ro with
  | some r => simp only [keepRHS] at h; cases h; exact hb.2
  | none => simp only [keepRHS] at h; rw [h]; exact hb.1

theorem emptyOrAbsent_keep_list (lo ro : Option Value) (out : Value) (h : some out = keepRHS lo ro)
    (hb : (emptyOrAbsent (asList lo) && emptyOrAbsent (asList ro)) = true) :
    emptyOrAbsent (asList (some out)) = true := by
  simp only [Bool.and_eq_true] at hb
  cases ro with
  | some r => simp only [keepRHS] at h; cases h; exact hb.2
  | none => simp only [keepRHS] at h; rw [h]; exact hb.1

theorem equalsList_of_relL (item : PE → Option Value → Option Value → Res (Option Value))
    (obsR : List (PE × Value)) :
    ∀ (ls : List (PE × Value)) (outs : List Value), RelL item obsR ls outs →
      (∀ p ∈ ls, ∀ v, item p.1 (some p.2) (pemGet p.1 obsR) = .ok (some v) → Value.equals v p.2 = true) →
      Value.equalsList outs (ls.map (·.2)) = true
  | [], [], _, _ => rfl
  | [], _ :: _, h, _ => by cases h
  | _ :: _, [], h, _ => by cases h
  | p :: ps, v :: vs, h, hv => by
    obtain ⟨h1, h2⟩ := h
    simp only [List.map_cons, Value.equalsList, Bool.and_eq_true]
    exact ⟨hv p List.mem_cons_self v h1, equalsList_of_relL item obsR ps vs h2
      (fun p' hp' => hv p' (List.mem_cons_of_mem _ hp'))⟩

theorem merge_idem (s : Schema) : ∀ (fuel : Nat) (lo ro : Option Value) (tr : TypeRef) (out out2 : Value) (fuel2 : Nat),
    OptOK s true false tr lo → OptOK s true false tr ro →
    mergeNode s fuel lo ro tr = .ok (some out) → mergeNode s fuel2 (some out) ro tr = .ok (some out2) →
    Value.equals out2 out = true := by
  intro fuel
  induction fuel with
  | zero => intro lo ro tr out out2 fuel2 _ _ h; cases h
  | succ n ih =>
    intro lo ro tr out out2 fuel2 hlo hro h h2'
    have hconf : Conf.conforms s false tr out = true := merge_conforms s false _ lo ro tr out hlo hro h
    obtain ⟨n', a, hf, hres, hh⟩ := mergeNode_handle s _ lo ro tr _ h
    cases hf
    obtain ⟨n2, a2, hf2, hres2, hh2⟩ := mergeNode_handle s fuel2 (some out) ro tr _ h2'
    rw [hres] at hres2
    cases hres2
    -- a leaf of the walk: the surviving operand is the result, the first time and the second time
    have hleaf : some out = keepRHS lo ro →
        mergeHandle s (mergeNode s n2) (some out) ro (deduceAtom a (keepRHS (some out) ro)) =
          .ok (keepRHS (some out) ro) → Value.equals out2 out = true := by
      intro h1 h3
      rw [h3, keepRHS_idem lo ro out h1, ← h1] at hh2
      cases hh2
      exact Value.equals_refl _
    cases hk : atomKind (deduceAtom a (keepRHS lo ro)) with
    | invalid => unfold mergeHandle at hh; rw [hk] at hh; cases hh
    | scalar t =>
      have h1 := mergeHandle_scalar s _ lo ro _ t hk _ hh
      have hk2 : atomKind (deduceAtom a (keepRHS (some out) ro)) = .scalar t := by
        rw [keepRHS_idem lo ro out h1]; exact hk
      have h3 := mergeHandle_scalar s _ (some out) ro _ t hk2 _ hh2
      rw [keepRHS_idem lo ro out h1, ← h1] at h3
      cases h3
      exact Value.equals_refl _
    | map t =>
      have hamap := atomKind_deduce_map_inv a _ t hk
      rcases mergeHandle_map_cases s _ lo ro _ t hk _ hh with ⟨hC, h1⟩ | ⟨hC, outm, hf, hcase⟩
      · apply hleaf h1
        have hk2 : atomKind (deduceAtom a (keepRHS (some out) ro)) = .map t := by
          rw [keepRHS_idem lo ro out h1]; exact hk
        apply mergeHandle_map_keep s _ _ _ _ t hk2
        simp only [Bool.or_eq_true] at hC ⊢
        rcases hC with hC | hC
        · exact .inl hC
        · right
          simp only [Bool.and_eq_true]
          exact ⟨emptyOrAbsent_keep_map lo ro out h1 hC, (Bool.and_eq_true _ _ ▸ hC).2⟩
      · rcases hcase with ⟨_, ho⟩ | ⟨hne, ho⟩
        · cases ho
        · cases ho
          simp only [Bool.or_eq_false_iff] at hC
          have hk2 : atomKind (deduceAtom a (keepRHS (some (Value.map outm)) ro)) = .map t := by
            cases ro with
            | some r => exact hk
            | none => exact atomKind_deduce_map a outm t hamap
          rcases mergeHandle_map_cases s _ _ ro _ t hk2 _ hh2 with ⟨hC2, _⟩ | ⟨_, outm2, hf2, hcase2⟩
          · exfalso
            simp only [Bool.or_eq_true, hC.1, Bool.false_eq_true, false_or, Bool.and_eq_true] at hC2
            cases outm with
            | nil => exact hne rfl
            | cons y ys => simp [asMap, emptyOrAbsent] at hC2
          · rcases hcase2 with ⟨_, ho2⟩ | ⟨_, ho2⟩
            · cases ho2
            · cases ho2
              have hna : t.rel ≠ "atomic" := by simpa using hC.1
              have hlf2 : (asMap (some (Value.map outm))).getD [] = outm := rfl
              rw [hlf2] at hf2
              obtain ⟨s1, _, s3⟩ := foldl_mergeMapStep_spec _ t _ _ _ _ _ hf
              have hrec1 : ∀ x ∈ outm, mergeNode s n (lookupField x.1 ((asMap lo).getD []))
                  (lookupField x.1 ((asMap ro).getD [])) (fieldType t x.1) = .ok (some x.2) := by
                intro x hx
                rcases s1 x hx with h0 | ⟨_, hr⟩
                · cases h0
                · exact hr
              have hlook : ∀ x ∈ outm, lookupField x.1 outm = some x.2 := by
                intro x hx
                cases hl : lookupField x.1 outm with
                | none =>
                  have := mn_lookupField_isSome_of_mem x.1 x.2 outm hx
                  rw [hl] at this; cases this
                | some v1 =>
                  have h1 := hrec1 (x.1, v1) (mn_lookupField_mem x.1 v1 outm hl)
                  have h2 := hrec1 x hx
                  simp only [] at h1
                  rw [h1] at h2
                  cases h2; rfl
              have hcov : ∀ kv ∈ (asMap ro).getD [], (lookupField kv.1 outm).isSome = true := by
                intro kv hkv
                have hz : kv.1 ∈ zipKeys ((asMap lo).getD []) ((asMap ro).getD []) := by
                  rw [mem_zipKeys]; right
                  exact mn_lookupField_isSome_of_mem kv.1 kv.2 _ hkv
                obtain ⟨o, ho, hmem⟩ := s3 kv.1 hz
                have := mergeNode_isSome s _ _ _ _ _ ho
                cases o with
                | none => cases this
                | some v => exact mn_lookupField_isSome_of_mem kv.1 v outm (hmem v rfl)
              rw [zipKeys_covered outm _ hcov] at hf2
              have hsorted : KeysLE outm :=
                foldl_mergeMapStep_sorted _ t _ _ _ _ _ hf (by simp [KeysLE])
              obtain ⟨new, e1, e2⟩ := foldl_mergeMapStep_ordered (mergeNode s n2) t outm _
                (fun lc rc tr o ho => mergeNode_isSome s n2 lc rc tr o ho) outm [] outm2 hf2 (by simp) hsorted
              simp only [List.nil_append] at e1
              subst e1
              have hL := optOK_fields s true false tr a t lo hres hamap hna hlo
              have hR := optOK_fields s true false tr a t ro hres hamap hna hro
              show Value.equalsFields outm2 outm = true
              apply equalsFields_of_relM _ t outm _ outm outm2 e2
              intro x hx v hv
              rw [hlook x hx] at hv
              exact ih _ _ _ _ _ _ (fun w hw => (hL x.1 w hw).2 w rfl) (fun w hw => (hR x.1 w hw).2 w rfl)
                (hrec1 x hx) hv
    | list t =>
      have halist := atomKind_deduce_list_inv a _ t hk
      rcases mergeHandle_list_cases s _ lo ro _ t hk _ hh with
        ⟨hC, h1⟩ | ⟨hC, rpes, obsR, lpes, obsL, res, hir, hil, hloop, hcase⟩
      · apply hleaf h1
        have hk2 : atomKind (deduceAtom a (keepRHS (some out) ro)) = .list t := by
          rw [keepRHS_idem lo ro out h1]; exact hk
        apply mergeHandle_list_keep s _ _ _ _ t hk2
        simp only [Bool.or_eq_true] at hC ⊢
        rcases hC with hC | hC
        · exact .inl hC
        · right
          simp only [Bool.and_eq_true]
          exact ⟨emptyOrAbsent_keep_list lo ro out h1 hC, (Bool.and_eq_true _ _ ▸ hC).2⟩
      · rcases hcase with ⟨_, ho⟩ | ⟨hne, ho⟩
        · cases ho
        · cases ho
          simp only [Bool.or_eq_false_iff] at hC
          have hna : t.rel ≠ "atomic" := by simpa using hC.1
          have hk2 : atomKind (deduceAtom a (keepRHS (some (Value.list res)) ro)) = .list t := by
            cases ro with
            | some r => exact hk
            | none => exact atomKind_deduce_list a res t halist
          rcases mergeHandle_list_cases s _ _ ro _ t hk2 _ hh2 with
            ⟨hC2, _⟩ | ⟨_, rpes2, obsR2, lpes2, obsL2, res2, hir2, hil2, hloop2, hcase2⟩
          · exfalso
            simp only [Bool.or_eq_true, hC.1, Bool.false_eq_true, false_or, Bool.and_eq_true] at hC2
            cases res with
            | nil => exact hne rfl
            | cons y ys => simp [asList, emptyOrAbsent] at hC2
          · rcases hcase2 with ⟨_, ho2⟩ | ⟨_, ho2⟩
            · cases ho2
            · cases ho2
              rw [hir] at hir2
              cases hir2
              have hres2l : (asList (some (Value.list res))).getD [] = res := rfl
              rw [hres2l] at hil2
              have F := listFacts s tr a t lo ro lpes obsL rpes obsR hres halist hna hlo hro hir hil hC.2
              -- the second left index is that of a repeat-free list
              have hval : validateItems s false t [] 0 res = .ok () := by
                have := hconf
                rw [← validateV_iff, validateV_list, hres] at this
                simpa [halist] using this
              obtain ⟨lp, ob, hidx, hsnd2, hget2, _⟩ := indexPEs_nodup_ok s t F.hrel res [] 0 [] [] (by intro q; rfl) hval
              have hidx' := indexPEs_true_of_false s t res [] [] _ hidx
              rw [hil2] at hidx'
              simp only [List.reverse_nil, List.nil_append, Res.ok.injEq, Prod.mk.injEq] at hidx'
              obtain ⟨rfl, rfl⟩ := hidx'
              obtain ⟨newl, el, _, hl3, _, _⟩ := mn_indexPEs_spec s t true _ [] [] lpes2 obsL2 hil2
              simp only [List.reverse_nil, List.nil_append] at el
              subst el
              have hid2 : ∀ p ∈ lpes2, p.1 = idOf s t p.2 := by
                intro p hp
                have := identity_of_listItemToPE s t _ _ F.hrel (hl3 p hp)
                simp [idOf, this]
              have hfst2 : lpes2.map (·.1) = res.map (idOf s t) := by
                rw [← hsnd2, List.map_map]
                exact List.map_congr_left (fun p hp => hid2 p hp)
              obtain ⟨m1, _, m3, _⟩ := mergeLoop_spec _ _ _ _ _ _ _ _ _ _ hloop
              have hrsR : ∀ r ∈ rpes.map (·.1), inR obsR r = true := by
                intro r hr
                obtain ⟨p, hp, rfl⟩ := List.mem_map.1 hr
                unfold inR; rw [F.rget p hp]; rfl
              -- the right items come out in the order of the right operand
              have hal := mergeLoop_aligned_out s t _ obsL obsR
                (fun pe a b o ho => mergeNode_isSome s n a b _ o ho) _ lpes (rpes.map (·.1)) _ [] [] res [] hloop
                (by
                  intro pe x v hm hn hi
                  have := F.id_left n hm hi
                  simp only [idOf, this, Option.getD_some]
                  exact PE.equals_refl _)
                (by
                  intro pe rpe v hm he hi
                  obtain ⟨p, hp, rfl, hget⟩ := F.right_of hm he
                  rw [hget] at hi
                  obtain ⟨po, hpo, hpe⟩ := F.id_right n hp he hi
                  simp only [idOf, hpo, Option.getD_some]
                  exact hpe)
                hrsR (by simp [Path.equals])
              simp only [List.nil_append] at hal
              -- every right element is indexed on the left the second time
              have hshared : (rpes.map (·.1)).filter (fun pe => (pemGet pe obsL2).isSome) = rpes.map (·.1) := by
                rw [List.filter_eq_self]
                intro r hr
                obtain ⟨pe, o, he, hi, hmem⟩ := m3 r hr
                have := mergeNode_isSome s _ _ _ _ _ hi
                cases o with
                | none => cases this
                | some v =>
                  obtain ⟨p0, hp0, rfl, hget⟩ := F.right_of hr he
                  rw [hget] at hi
                  obtain ⟨po, hpo, hpe⟩ := F.id_right n hp0 he hi
                  have hv := hmem v rfl
                  rw [← hsnd2] at hv
                  obtain ⟨p, hp, rfl⟩ := List.mem_map.1 hv
                  have hp1 : p.1 = po := by rw [hid2 p hp]; simp [idOf, hpo]
                  rw [← pemGet_congr hpe, ← hp1, hget2 p hp]
                  rfl
              rw [hshared] at hloop2
              obtain ⟨outs, e1, e2⟩ := mergeLoop_aligned _ obsL2 obsR
                (fun pe a b o ho => mergeNode_isSome s n2 a b _ o ho) _ lpes2 (rpes.map (·.1)) [] [] res2 hloop2
                hget2 hrsR (by rw [hfst2]; exact hal)
              simp only [List.reverse_nil, List.nil_append] at e1
              subst e1
              show Value.equalsList res2 res = true
              rw [← hsnd2]
              apply equalsList_of_relL _ obsR lpes2 res2 e2
              intro p hp v hv
              have hpm : p.2 ∈ res := by rw [← hsnd2]; exact List.mem_map_of_mem hp
              rcases m1 p.2 hpm with h0 | ⟨pe, x, hm, hn, hi⟩ | ⟨pe, rpe, hm, he, hi⟩
              · cases h0
              · have hidp := F.id_left n hm hi
                have hp1 : p.1 = pe := by rw [hid2 p hp]; simp [idOf, hidp]
                rw [hp1, hn] at hv
                exact ih _ _ _ _ _ _ (F.litem x (F.lmem hm)).1 (optOK_none s _ _ _) hi hv
              · obtain ⟨p0, hp0, rfl, hget⟩ := F.right_of hm he
                rw [hget] at hi
                obtain ⟨po, hpo, hpe⟩ := F.id_right n hp0 he hi
                have hp1 : p.1 = po := by rw [hid2 p hp]; simp [idOf, hpo]
                rw [hp1, pemGet_congr hpe, F.rget p0 hp0] at hv
                have hrm := F.rmem hp0
                exact ih _ _ _ _ _ _ (F.obsL_ok p0.2 ((F.ritem _ hrm).1 _ rfl).1 pe) (F.ritem _ hrm).1 hi hv

end MV
end SMD
