import SMD.Model.Compare
import SMD.Proofs.Containers
import SMD.Proofs.PEOrder
set_option linter.unusedSimpArgs false
namespace SMD

/-! ### `mergeNode`, one level, with the recursive call abstracted -/

abbrev MergeRec := Option Value → Option Value → TypeRef → Res (Option Value)

def keepRHS (l r : Option Value) : Option Value := match r with | some v => some v | none => l

def mergeMapStep (rec : MergeRec) (t : MapT) (lf rf : List (String × Value))
    (acc : Res (List (String × Value))) (k : String) : Res (List (String × Value)) :=
  match acc with
  | .ok out =>
    (match rec (lookupField k lf) (lookupField k rf) (fieldType t k) with
     | .ok (some v) => .ok (insertField (k, v) out)
     | .ok none => .ok out
     | .err => .err
     | .panic => .panic)
  | e => e

def mergeHandle (s : Schema) (rec : MergeRec) (l r : Option Value) (atom : Atom) : Res (Option Value) :=
  match atomKind atom with
  | .invalid => .err
  | .scalar t =>
    if !validateScalar t l && !validateScalar t r then .err else .ok (keepRHS l r)
  | .list t =>
    let ll := asList l
    let rl := asList r
    if t.rel == "atomic" || (emptyOrAbsent ll && emptyOrAbsent rl) then .ok (keepRHS l r)
    else
      match indexPEs s t false (rl.getD []) [] [] with
      | .err => .err
      | .panic => .panic
      | .ok (rpes, obsR) =>
        match indexPEs s t true (ll.getD []) [] [] with
        | .err => .err
        | .panic => .panic
        | .ok (lpes, obsL) =>
          let rs := rpes.map (·.1)
          let shared := rs.filter (fun pe => (pemGet pe obsL).isSome)
          match mergeLoop (fun _ lc rc => rec lc rc t.elementType) obsL obsR
              (lpes.length + rs.length) lpes rs shared [] [] with
          | .ok [] => .ok none
          | .ok out => .ok (some (.list out))
          | .err => .err
          | .panic => .panic
  | .map t =>
    let lm := asMap l
    let rm := asMap r
    if t.rel == "atomic" || (emptyOrAbsent lm && emptyOrAbsent rm) then .ok (keepRHS l r)
    else
      let lf := lm.getD []
      let rf := rm.getD []
      match (zipKeys lf rf).foldl (mergeMapStep rec t lf rf) (.ok []) with
      | .ok [] => .ok none
      | .ok out => .ok (some (.map out))
      | .err => .err
      | .panic => .panic

theorem mergeNode_succ (s : Schema) (fuel : Nat) (l r : Option Value) (tr : TypeRef) :
    mergeNode s (fuel + 1) l r tr =
      if l.isNone && r.isNone then .err
      else
        match s.resolve tr with
        | none => if tr.named.isNone then .panic else .err
        | some a =>
          if r.isNone then mergeHandle s (mergeNode s fuel) l r (deduceAtom a l)
          else if l.isNone || Atom.equals (deduceAtom a l) (deduceAtom a r) then
            mergeHandle s (mergeNode s fuel) l r (deduceAtom a r)
          else
            match mergeHandle s (mergeNode s fuel) l r (deduceAtom a l) with
            | .ok _ => mergeHandle s (mergeNode s fuel) l r (deduceAtom a r)
            | e => e := by
  rfl

/-! ### panics -/

theorem mergeLoop_panic (item : PE → Option Value → Option Value → Res (Option Value))
    (obsL obsR : List (PE × Value)) (P : Prop) (hitem : ∀ pe lc rc, item pe lc rc = .panic → P) :
    ∀ steps ls rs shared merged out, mergeLoop item obsL obsR steps ls rs shared merged out = .panic → P := by
  intro steps ls rs shared merged out
  fun_induction mergeLoop item obsL obsR steps ls rs shared merged out
  case case1 => intro h; cases h
  case case2 => intro h; cases h
  case case3 => assumption
  case case4 => intro h; cases h
  case case5 => intro _; exact hitem _ _ _ ‹_›
  case case6 => assumption
  case case7 =>
    rename_i takeRight x second ih3 ih2 ih1
    intro h
    simp only [second, takeRight] at h
    repeat' (split at h)
    all_goals first
      | exact ih1 _ _ h
      | exact ih2 _ _ _ _ h
      | exact ih3 _ h
      | exact hitem _ _ _ ‹_›
      | cases h
  case case8 =>
    rename_i takeRight second x ih3 ih2 ih1
    intro h
    simp only [second, takeRight] at h
    repeat' (split at h)
    all_goals first
      | exact ih1 _ _ h
      | exact ih2 _ _ _ _ h
      | exact ih3 _ h
      | exact hitem _ _ _ ‹_›
      | cases h

theorem b3_keyDefault_ne_panic (s : Schema) (t : ListT) (k : String) : keyDefault s t k ≠ .panic := by
  unfold keyDefault
  split
  · intro h; cases h
  · split <;> (intro h; cases h)

theorem b3_keyFieldsOf_ne_panic (s : Schema) (t : ListT) (m : List (String × Value)) :
    ∀ ks, keyFieldsOf s t m ks ≠ .panic
  | [] => by intro h; cases h
  | k :: ks => by
    have ih := b3_keyFieldsOf_ne_panic s t m ks
    rw [keyFieldsOf]
    have hk := b3_keyDefault_ne_panic s t k
    intro h
    split at h
    · cases h' : keyFieldsOf s t m ks <;> simp_all [bind, Res.bind, pure]
    · split at h
      · cases h' : keyFieldsOf s t m ks <;> simp_all [bind, Res.bind, pure]
      · cases h
      · cases h
      · exact hk ‹_›

theorem b3_listItemToPE_ne_panic (s : Schema) (t : ListT) (child : Value) : listItemToPE s t child ≠ .panic := by
  unfold listItemToPE
  intro h
  split at h
  · cases h
  · split at h
    · split at h
      · next m =>
        have := b3_keyFieldsOf_ne_panic s t m t.keys
        cases h' : keyFieldsOf s t m t.keys <;> simp_all [bind, Res.bind, pure]
      · cases h
    · split at h <;> cases h

theorem indexPEs_ne_panic (s : Schema) (t : ListT) (allowDup : Bool) :
    ∀ l pes obs, indexPEs s t allowDup l pes obs ≠ .panic
  | [], pes, obs => by intro h; cases h
  | child :: rest, pes, obs => by
    rw [indexPEs]
    intro h
    split at h
    · split at h
      · split at h
        · cases h
        · exact indexPEs_ne_panic s t allowDup rest _ _ h
      · exact indexPEs_ne_panic s t allowDup rest _ _ h
    · cases h
    · exact b3_listItemToPE_ne_panic s t child ‹_›

theorem mergeMapStep_foldl_panic (rec : MergeRec) (t : MapT) (lf rf : List (String × Value)) (P : Prop)
    (hrec : ∀ lc rc tr, rec lc rc tr = .panic → P) :
    ∀ ks acc, (acc = .panic → P) → List.foldl (mergeMapStep rec t lf rf) acc ks = .panic → P := by
  intro ks
  induction ks with
  | nil => intro acc hacc h; exact hacc h
  | cons k ks ih =>
    intro acc hacc
    apply ih
    unfold mergeMapStep
    intro h
    split at h
    · split at h
      · cases h
      · cases h
      · cases h
      · exact hrec _ _ _ ‹_›
    · next hne => exact hacc h

theorem mergeHandle_panic (s : Schema) (rec : MergeRec) (P : Prop)
    (hrec : ∀ lc rc tr, rec lc rc tr = .panic → P) (l r : Option Value) (atom : Atom) :
    mergeHandle s rec l r atom = .panic → P := by
  unfold mergeHandle
  intro h
  split at h
  · cases h
  · split at h <;> cases h
  · simp only [] at h
    split at h
    · cases h
    · split at h
      · cases h
      · exact absurd ‹_› (indexPEs_ne_panic _ _ _ _ _ _)
      · split at h
        · cases h
        · exact absurd ‹_› (indexPEs_ne_panic _ _ _ _ _ _)
        · split at h
          · cases h
          · cases h
          · cases h
          · exact mergeLoop_panic _ _ _ P (fun _ lc rc => hrec lc rc _) _ _ _ _ _ _ ‹_›
  · simp only [] at h
    split at h
    · cases h
    · split at h
      · cases h
      · cases h
      · cases h
      · next hf => exact mergeMapStep_foldl_panic rec _ _ _ P hrec _ (.ok []) (by intro h; cases h) hf

/-- a merge panics only when some inline (unnamed) type reference fails to resolve -/
theorem mergeNode_panic (s : Schema) : ∀ (fuel : Nat) (l r : Option Value) (tr : TypeRef),
    mergeNode s fuel l r tr = .panic → ∃ tr', s.resolve tr' = none ∧ tr'.named = none := by
  intro fuel
  induction fuel with
  | zero => intro l r tr h; cases h
  | succ n ih =>
    intro l r tr
    rw [mergeNode_succ]
    intro h
    have hh := mergeHandle_panic s (mergeNode s n) _ ih l r
    split at h
    · cases h
    · split at h
      · next hres =>
        split at h
        · next hn => exact ⟨tr, hres, by simpa using hn⟩
        · cases h
      · split at h
        · exact hh _ h
        · split at h
          · exact hh _ h
          · split at h
            · exact hh _ h
            · next hne =>
              rw [h] at hne
              exact hh _ h

/-! ### leaves -/

theorem merge_scalar (s : Schema) (fuel : Nat) (l r : Value) (tr : TypeRef) (a : Atom) (t : String)
    (hres : s.resolve tr = some a) (hl : l.isScalar = true) (hr : r.isScalar = true)
    (ha : a.scalar = some t) (hv : validateScalar t (some r) = true) :
    mergeNode s (fuel + 1) (some l) (some r) tr = .ok (some r) := by
  rw [mergeNode_succ]
  obtain ⟨sc, li, ma⟩ := a
  simp only [Atom.scalar] at ha
  subst ha
  simp [hres, deduceAtom, hl, hr, Atom.scalar, Atom.equals, mergeHandle, atomKind, Atom.map, Atom.list, hv, keepRHS]

/-! ### merging with nothing: list and map machinery -/

theorem mergeLoop_left_only (item : PE → Option Value → Option Value → Res (Option Value))
    (obsL : List (PE × Value)) :
    ∀ (ls : List (PE × Value)) (steps : Nat) (merged : List PE) (out : List Value),
      (∀ p ∈ ls, item p.1 (some p.2) none = .ok (some p.2)) → ls.length ≤ steps →
      mergeLoop item obsL [] steps ls [] [] merged out = .ok (out.reverse ++ ls.map (·.2)) := by
  intro ls
  induction ls with
  | nil => intro steps merged out _ _; simp [mergeLoop]
  | cons p ls ih =>
    intro steps merged out hitem hsteps
    obtain ⟨pe, x⟩ := p
    cases steps with
    | zero => simp at hsteps
    | succ k =>
      rw [mergeLoop]
      · simp only [pemGet, Option.isNone_none, if_true]
        rw [hitem (pe, x) List.mem_cons_self]
        simp only []
        rw [ih k merged (x :: out) (fun p hp => hitem p (List.mem_cons_of_mem _ hp)) (by simpa using hsteps)]
        simp
      · simp


theorem mergeLoop_right_only (item : PE → Option Value → Option Value → Res (Option Value))
    (obsR : List (PE × Value)) :
    ∀ (rpes : List (PE × Value)) (steps : Nat) (merged : List PE) (out : List Value),
      (∀ p ∈ rpes, item p.1 none (pemGet p.1 obsR) = .ok (some p.2)) → rpes.length ≤ steps →
      mergeLoop item [] obsR steps [] (rpes.map (·.1)) [] merged out = .ok (out.reverse ++ rpes.map (·.2)) := by
  intro rpes
  induction rpes with
  | nil => intro steps merged out _ _; simp [mergeLoop]
  | cons p rpes ih =>
    intro steps merged out hitem hsteps
    obtain ⟨pe, x⟩ := p
    cases steps with
    | zero => simp at hsteps
    | succ k =>
      rw [List.map_cons, mergeLoop]
      · simp only [pemGet]
        rw [hitem (pe, x) List.mem_cons_self]
        simp only [dropHeadIf]
        rw [ih k _ (x :: out) (fun p hp => hitem p (List.mem_cons_of_mem _ hp)) (by simpa using hsteps)]
        simp
      · simp


theorem validateItems_assoc (s : Schema) (allowDup : Bool) (t : ListT) (hrel : t.rel = "associative") :
    ∀ (l : List Value) (seen : List PE) (i : Nat), validateItems s allowDup t seen i l = .ok () →
      ∀ c ∈ l, (∃ pe, listItemToPE s t c = .ok pe) ∧ validateV s allowDup t.elementType c = .ok ()
  | [], _, _ => by intro _ c hc; cases hc
  | child :: rest, seen, i => by
    rw [validateItems]
    simp only [hrel, bne_self_eq_false, Bool.false_eq_true, if_false]
    intro h c hc
    split at h
    · next pe hpe =>
      split at h
      · cases h
      · split at h
        · next hv =>
          rcases List.mem_cons.1 hc with rfl | hc
          · exact ⟨⟨pe, hpe⟩, hv⟩
          · exact validateItems_assoc s allowDup t hrel rest _ _ h c hc
        · next hne => exact absurd h (by intro h'; exact hne _ h')
    · cases h
    · cases h

theorem indexPEs_dup_ok (s : Schema) (t : ListT) :
    ∀ (l : List Value) (pes obs : List (PE × Value)), (∀ c ∈ l, ∃ pe, listItemToPE s t c = .ok pe) →
      ∃ lpes obs', indexPEs s t true l pes obs = .ok (pes.reverse ++ lpes, obs') ∧ lpes.map (·.2) = l
  | [], pes, obs => by intro _; exact ⟨[], obs, by simp [indexPEs], rfl⟩
  | child :: rest, pes, obs => by
    intro h
    obtain ⟨pe, hpe⟩ := h child List.mem_cons_self
    have hrest : ∀ c ∈ rest, ∃ pe, listItemToPE s t c = .ok pe := fun c hc => h c (List.mem_cons_of_mem _ hc)
    rw [indexPEs, hpe]
    simp only [Bool.not_true, Bool.false_eq_true, if_false]
    split
    · obtain ⟨lpes, obs', h1, h2⟩ := indexPEs_dup_ok s t rest ((pe, child) :: pes) (pemInsert pe .null obs) hrest
      exact ⟨(pe, child) :: lpes, obs', by simp [h1], by simp [h2]⟩
    · obtain ⟨lpes, obs', h1, h2⟩ := indexPEs_dup_ok s t rest ((pe, child) :: pes) (pemInsert pe child obs) hrest
      exact ⟨(pe, child) :: lpes, obs', by simp [h1], by simp [h2]⟩


theorem pemGet_congr {β : Type} {a b : PE} (h : PE.equals a b = true) :
    ∀ m : List (PE × β), pemGet a m = pemGet b m
  | [] => rfl
  | (x, w) :: xs => by
    simp only [pemGet, PE.less_congr_right h x, PE.equals_congr_right h x, pemGet_congr h xs]

theorem indexPEs_nodup_ok (s : Schema) (t : ListT) (hrel : t.rel = "associative") :
    ∀ (l : List Value) (seen : List PE) (i : Nat) (pes obs : List (PE × Value)),
      (∀ q, (pemGet q obs).isSome = peHas q seen) → validateItems s false t seen i l = .ok () →
      ∃ rpes obs', indexPEs s t false l pes obs = .ok (pes.reverse ++ rpes, obs') ∧ rpes.map (·.2) = l ∧
        (∀ p ∈ rpes, pemGet p.1 obs' = some p.2) ∧ (∀ q w, pemGet q obs = some w → pemGet q obs' = some w)
  | [], seen, i, pes, obs => by
    intro _ _
    exact ⟨[], obs, by simp [indexPEs], rfl, by simp, fun _ _ h => h⟩
  | child :: rest, seen, i, pes, obs => by
    intro hinv
    rw [validateItems]
    simp only [hrel, bne_self_eq_false, Bool.false_eq_true, if_false]
    intro h
    split at h
    · next pe hpe =>
      split at h
      · cases h
      · next hseen =>
        simp only [Bool.not_false, Bool.and_true, Bool.not_eq_true] at hseen
        split at h
        · next hv =>
          have hnone : pemGet pe obs = none := by
            have := hinv pe
            rw [hseen] at this
            simpa using this
          have hinv' : ∀ q, (pemGet q (pemInsert pe child obs)).isSome = peHas q (peInsert pe seen) := by
            intro q
            rw [pemGet_pemInsert, peHas_peInsert, ← hinv q]
            cases PE.equals pe q <;> simp
          obtain ⟨rpes, obs', h1, h2, h3, h4⟩ :=
            indexPEs_nodup_ok s t hrel rest _ _ ((pe, child) :: pes) (pemInsert pe child obs) hinv' h
          refine ⟨(pe, child) :: rpes, obs', ?_, by simp [h2], ?_, ?_⟩
          · rw [indexPEs, hpe]
            simp only [hnone, h1]
            simp
          · intro p hp
            rcases List.mem_cons.1 hp with rfl | hp
            · exact h4 pe child (by rw [pemGet_pemInsert]; simp [PE.equals_refl])
            · exact h3 p hp
          · intro q w hq
            apply h4
            rw [pemGet_pemInsert]
            have : PE.equals pe q = false := by
              cases he : PE.equals pe q with
              | false => rfl
              | true => rw [pemGet_congr he, hq] at hnone; cases hnone
            simp [this, hq]
        · next hne => exact absurd h (by intro h'; exact hne _ h')
    · cases h
    · cases h


def keysAsc : List (String × Value) → Bool
  | [] => true
  | [_] => true
  | (k, _) :: (k', v') :: rest => decide (k < k') && keysAsc ((k', v') :: rest)

theorem keysAsc_pairwise : ∀ m : List (String × Value), keysAsc m = true → m.Pairwise (fun a b => a.1 < b.1)
  | [], _ => List.Pairwise.nil
  | [_], _ => by simp
  | (k, v) :: (k', v') :: rest, h => by
    simp only [keysAsc, Bool.and_eq_true, decide_eq_true_eq] at h
    have ih := keysAsc_pairwise ((k', v') :: rest) h.2
    refine List.pairwise_cons.2 ⟨?_, ih⟩
    intro b hb
    rcases List.mem_cons.1 hb with rfl | hb
    · exact h.1
    · exact String.lt_trans h.1 ((List.pairwise_cons.1 ih).1 b hb)

theorem lookupField_append_of_lt (k : String) (v : Value) (rest : List (String × Value)) :
    ∀ p : List (String × Value), (∀ x ∈ p, x.1 < k) → lookupField k (p ++ (k, v) :: rest) = some v
  | [], _ => by simp [lookupField]
  | (k', v') :: p, h => by
    have hk : k' < k := h (k', v') List.mem_cons_self
    have hne : (k == k') = false := by
      rw [beq_eq_false_iff_ne]; intro he; subst he; exact String.lt_irrefl _ hk
    simp only [List.cons_append, lookupField, hne, Bool.false_eq_true, if_false]
    exact lookupField_append_of_lt k v rest p (fun x hx => h x (List.mem_cons_of_mem _ hx))

theorem insertField_append_of_lt (k : String) (v : Value) :
    ∀ p : List (String × Value), (∀ x ∈ p, x.1 < k) → insertField (k, v) p = p ++ [(k, v)]
  | [], _ => rfl
  | (k', v') :: p, h => by
    have hk : k' < k := h (k', v') List.mem_cons_self
    have : ¬ k < k' := String.lt_asymm hk
    simp only [insertField, this, if_false, List.cons_append]
    rw [insertField_append_of_lt k v p (fun x hx => h x (List.mem_cons_of_mem _ hx))]

/-- folding over the ascending keys of `m` with the other side absent copies `m` -/
theorem mergeMapStep_foldl_copy (rec : MergeRec) (t : MapT) (m : List (String × Value))
    (lf rf : List (String × Value))
    (hlook : ∀ p k v rest, m = p ++ (k, v) :: rest →
      rec (lookupField k lf) (lookupField k rf) (fieldType t k) = .ok (some v))
    (hasc : m.Pairwise (fun a b => a.1 < b.1)) :
    ∀ (sfx p : List (String × Value)), m = p ++ sfx →
      List.foldl (mergeMapStep rec t lf rf) (.ok p) (sfx.map (·.1)) = .ok m
  | [], p, h => by simp [h]
  | (k, v) :: rest, p, h => by
    have hp : ∀ x ∈ p, x.1 < k := by
      intro x hx
      rw [h, List.pairwise_append] at hasc
      exact hasc.2.2 x hx (k, v) List.mem_cons_self
    simp only [List.map_cons, List.foldl_cons]
    have : mergeMapStep rec t lf rf (.ok p) k = .ok (p ++ [(k, v)]) := by
      simp only [mergeMapStep, hlook p k v rest h, insertField_append_of_lt k v p hp]
    rw [this]
    exact mergeMapStep_foldl_copy rec t m lf rf hlook hasc rest (p ++ [(k, v)]) (by simp [h])


/-! ### merging with nothing: predicates and views -/

mutual
/-- copy of `SMD.C12.canonical` (the property file proves they coincide) -/
def canon : Value → Bool
  | .list l => canonList l
  | .map m => keysAsc m && canonFields m
  | _ => true
def canonList : List Value → Bool
  | [] => true
  | v :: vs => canon v && canonList vs
def canonFields : List (String × Value) → Bool
  | [] => true
  | (_, v) :: rest => canon v && canonFields rest
end

mutual
/-- every non-empty, non-atomic list node visited by the typed walkers is declared "associative"
(the only lists the merging walker can index) -/
def listsAssociative (s : Schema) (tr : TypeRef) : Value → Bool
  | .list l =>
    match resolveKind s tr (some (.list l)) with
    | some (.list t) =>
      t.rel == "atomic" || l.isEmpty || (t.rel == "associative" && listsAssociativeItems s t.elementType l)
    | _ => true
  | .map m =>
    match resolveKind s tr (some (.map m)) with
    | some (.map t) => t.rel == "atomic" || listsAssociativeFields s t m
    | _ => true
  | _ => true
def listsAssociativeItems (s : Schema) (et : TypeRef) : List Value → Bool
  | [] => true
  | v :: vs => listsAssociative s et v && listsAssociativeItems s et vs
def listsAssociativeFields (s : Schema) (t : MapT) : List (String × Value) → Bool
  | [] => true
  | (k, v) :: rest => listsAssociative s (fieldType t k) v && listsAssociativeFields s t rest
end

theorem canonList_mem : ∀ (l : List Value), canonList l = true → ∀ c ∈ l, canon c = true
  | [], _, c, hc => by cases hc
  | v :: vs, h, c, hc => by
    simp only [canonList, Bool.and_eq_true] at h
    rcases List.mem_cons.1 hc with rfl | hc
    · exact h.1
    · exact canonList_mem vs h.2 c hc

theorem canonFields_mem : ∀ (m : List (String × Value)), canonFields m = true → ∀ x ∈ m, canon x.2 = true
  | [], _, c, hc => by cases hc
  | (k, v) :: vs, h, c, hc => by
    simp only [canonFields, Bool.and_eq_true] at h
    rcases List.mem_cons.1 hc with rfl | hc
    · exact h.1
    · exact canonFields_mem vs h.2 c hc

theorem listsAssociativeItems_mem (s : Schema) (et : TypeRef) :
    ∀ (l : List Value), listsAssociativeItems s et l = true → ∀ c ∈ l, listsAssociative s et c = true
  | [], _, c, hc => by cases hc
  | v :: vs, h, c, hc => by
    simp only [listsAssociativeItems, Bool.and_eq_true] at h
    rcases List.mem_cons.1 hc with rfl | hc
    · exact h.1
    · exact listsAssociativeItems_mem s et vs h.2 c hc

theorem listsAssociativeFields_mem (s : Schema) (t : MapT) :
    ∀ (m : List (String × Value)), listsAssociativeFields s t m = true →
      ∀ x ∈ m, listsAssociative s (fieldType t x.1) x.2 = true
  | [], _, c, hc => by cases hc
  | (k, v) :: vs, h, c, hc => by
    simp only [listsAssociativeFields, Bool.and_eq_true] at h
    rcases List.mem_cons.1 hc with rfl | hc
    · exact h.1
    · exact listsAssociativeFields_mem s t vs h.2 c hc

theorem depthList_mem : ∀ (l : List Value), ∀ c ∈ l, c.depth ≤ Value.depthList l
  | [], c, hc => by cases hc
  | v :: vs, c, hc => by
    simp only [Value.depthList]
    rcases List.mem_cons.1 hc with rfl | hc
    · omega
    · have := depthList_mem vs c hc; omega

theorem depthFields_mem : ∀ (m : List (String × Value)), ∀ x ∈ m, x.2.depth ≤ Value.depthFields m
  | [], c, hc => by cases hc
  | (k, v) :: vs, c, hc => by
    simp only [Value.depthFields]
    rcases List.mem_cons.1 hc with rfl | hc
    · simp only []; omega
    · have := depthFields_mem vs c hc; omega

theorem validateFields_mem (s : Schema) (allowDup : Bool) (t : MapT) :
    ∀ (m : List (String × Value)), validateFields s allowDup t m = .ok () →
      ∀ x ∈ m, validateV s allowDup (fieldType t x.1) x.2 = .ok ()
  | [], _, c, hc => by cases hc
  | (k, v) :: rest, h, c, hc => by
    rw [validateFields] at h
    have ih := validateFields_mem s allowDup t rest
    split at h
    · next sf hsf =>
      split at h
      · next hv =>
        rcases List.mem_cons.1 hc with rfl | hc
        · simpa [fieldType, hsf] using hv
        · exact ih h c hc
      · next hne => exact absurd h (by intro h'; exact hne _ h')
    · next hsf =>
      split at h
      · cases h
      · split at h
        · next hv =>
          rcases List.mem_cons.1 hc with rfl | hc
          · simpa [fieldType, hsf] using hv
          · exact ih h c hc
        · next hne => exact absurd h (by intro h'; exact hne _ h')

/-- what a successful validation says, by kind -/
def ValidView (s : Schema) (d : Bool) (v : Value) : AtomKind → Prop
  | .invalid => False
  | .scalar _ => True
  | .list t => ∀ l, v = .list l → validateItems s d t [] 0 l = .ok ()
  | .map t => ∀ m, v = .map m → validateFields s d t m = .ok ()

theorem validateV_view (s : Schema) (d : Bool) (tr : TypeRef) (v : Value) (h : validateV s d tr v = .ok ()) :
    ∃ a, s.resolve tr = some a ∧ ValidView s d v (atomKind (deduceAtom a (some v))) := by
  cases hres : s.resolve tr with
  | none => cases v <;> simp [validateV, resolveKind, hres] at h
  | some a =>
    refine ⟨a, rfl, ?_⟩
    cases v <;> simp only [validateV, resolveKind, hres, Option.map_some] at h <;>
      split at h <;> simp_all [ValidView]


/-! ### merging with nothing: the identity laws -/

theorem filter_const_false {α : Type} (l : List α) : l.filter (fun _ => false) = [] := by
  induction l <;> simp_all
theorem filter_const_true {α : Type} (l : List α) : l.filter (fun _ => true) = l := by
  induction l <;> simp_all

theorem listsAssociative_list (s : Schema) (tr : TypeRef) (a : Atom) (l : List Value) (t : ListT)
    (hres : s.resolve tr = some a) (hk : atomKind (deduceAtom a (some (.list l))) = .list t)
    (h : listsAssociative s tr (.list l) = true) :
    t.rel = "atomic" ∨ l = [] ∨ (t.rel = "associative" ∧ listsAssociativeItems s t.elementType l = true) := by
  rw [listsAssociative] at h
  simp only [resolveKind, hres, Option.map_some, hk] at h
  simpa [or_assoc] using h

theorem listsAssociative_map (s : Schema) (tr : TypeRef) (a : Atom) (m : List (String × Value)) (t : MapT)
    (hres : s.resolve tr = some a) (hk : atomKind (deduceAtom a (some (.map m))) = .map t)
    (h : listsAssociative s tr (.map m) = true) :
    t.rel = "atomic" ∨ listsAssociativeFields s t m = true := by
  rw [listsAssociative] at h
  simp only [resolveKind, hres, Option.map_some, hk] at h
  simpa using h

theorem mergeHandle_right_none (s : Schema) (rec : MergeRec) (n : Nat)
    (hrec : ∀ v tr, validateV s true tr v = .ok () → canon v = true → listsAssociative s tr v = true →
      v.depth < n → rec (some v) none tr = .ok (some v))
    (v : Value) (tr : TypeRef) (a : Atom) (hres : s.resolve tr = some a)
    (hview : ValidView s true v (atomKind (deduceAtom a (some v))))
    (hc : canon v = true) (ha : listsAssociative s tr v = true) (hd : v.depth < n + 1) :
    mergeHandle s rec (some v) none (deduceAtom a (some v)) = .ok (some v) := by
  unfold mergeHandle
  split
  · next hk => rw [hk] at hview; exact hview.elim
  · simp [validateScalar, keepRHS]
  · next t hk =>
    rw [hk] at hview
    simp only []
    split
    · rfl
    · next hcond =>
      cases v with
      | list l =>
        simp only [asList, emptyOrAbsent, Bool.and_true, Bool.or_eq_true, beq_iff_eq, not_or] at hcond
        have hl : l ≠ [] := by intro h; apply hcond.2; simp [h]
        have hitems := hview l rfl
        rcases listsAssociative_list s tr a l t hres hk ha with h | h | ⟨hrel, hassoc⟩
        · exact absurd h hcond.1
        · exact absurd h hl
        · have hmem := validateItems_assoc s true t hrel l [] 0 hitems
          obtain ⟨lpes, obsL, hidx, hmap⟩ := indexPEs_dup_ok s t l [] [] (fun c hc => (hmem c hc).1)
          simp only [asList, Option.getD_some, Option.getD_none, indexPEs, List.reverse_nil, List.nil_append] at hidx ⊢
          rw [hidx]
          simp only [List.map_nil, List.filter_nil, List.length_nil, Nat.add_zero]
          rw [mergeLoop_left_only _ obsL lpes lpes.length [] [] ?_ (Nat.le_refl _)]
          · simp only [List.reverse_nil, List.nil_append, hmap]
          · intro p hp
            have hpl : p.2 ∈ l := by rw [← hmap]; exact List.mem_map_of_mem hp
            simp only [Value.depth] at hd
            exact hrec p.2 _ (hmem _ hpl).2 (canonList_mem l (by simpa [canon] using hc) _ hpl)
              (listsAssociativeItems_mem s _ l hassoc _ hpl)
              (by have := depthList_mem l _ hpl; omega)
      | _ => simp [asList, emptyOrAbsent] at hcond
  · next t hk =>
    rw [hk] at hview
    simp only []
    split
    · rfl
    · next hcond =>
      cases v with
      | map m =>
        simp only [asMap, emptyOrAbsent, Bool.and_true, Bool.or_eq_true, beq_iff_eq, not_or] at hcond
        have hl : m ≠ [] := by intro h; apply hcond.2; simp [h]
        have hfields := hview m rfl
        rcases listsAssociative_map s tr a m t hres hk ha with h | hassoc
        · exact absurd h hcond.1
        · simp only [canon, Bool.and_eq_true] at hc
          have hpw := keysAsc_pairwise m hc.1
          have hcopy := mergeMapStep_foldl_copy rec t m m [] (by
            intro p k w rest hm
            have hp : ∀ x ∈ p, x.1 < k := by
              intro x hx
              rw [hm, List.pairwise_append] at hpw
              exact hpw.2.2 x hx (k, w) List.mem_cons_self
            have hmem : (k, w) ∈ m := by rw [hm]; simp
            rw [hm, lookupField_append_of_lt k w rest p hp]
            simp only [lookupField]
            simp only [Value.depth] at hd
            exact hrec w _ (validateFields_mem s true t m hfields _ hmem) (canonFields_mem m hc.2 _ hmem)
              (listsAssociativeFields_mem s t m hassoc _ hmem)
              (by have := depthFields_mem m _ hmem; simp only [] at this; omega)) hpw m [] rfl
          simp only [asMap, Option.getD_some, Option.getD_none, zipKeys, List.filter_nil, List.map_nil, List.append_nil]
          rw [hcopy]
          cases m with
          | nil => exact absurd rfl hl
          | cons x xs => rfl
      | _ => simp [asMap, emptyOrAbsent] at hcond

theorem mergeHandle_left_none (s : Schema) (rec : MergeRec) (n : Nat)
    (hrec : ∀ v tr, validateV s false tr v = .ok () → canon v = true → listsAssociative s tr v = true →
      v.depth < n → rec none (some v) tr = .ok (some v))
    (v : Value) (tr : TypeRef) (a : Atom) (hres : s.resolve tr = some a)
    (hview : ValidView s false v (atomKind (deduceAtom a (some v))))
    (hc : canon v = true) (ha : listsAssociative s tr v = true) (hd : v.depth < n + 1) :
    mergeHandle s rec none (some v) (deduceAtom a (some v)) = .ok (some v) := by
  unfold mergeHandle
  split
  · next hk => rw [hk] at hview; exact hview.elim
  · simp [validateScalar, keepRHS]
  · next t hk =>
    rw [hk] at hview
    simp only []
    split
    · rfl
    · next hcond =>
      cases v with
      | list l =>
        simp only [asList, emptyOrAbsent, Bool.true_and, Bool.or_eq_true, beq_iff_eq, not_or] at hcond
        have hl : l ≠ [] := by intro h; apply hcond.2; simp [h]
        have hitems := hview l rfl
        rcases listsAssociative_list s tr a l t hres hk ha with h | h | ⟨hrel, hassoc⟩
        · exact absurd h hcond.1
        · exact absurd h hl
        · have hmem := validateItems_assoc s false t hrel l [] 0 hitems
          obtain ⟨rpes, obsR, hidx, hmap, hget, _⟩ :=
            indexPEs_nodup_ok s t hrel l [] 0 [] [] (by intro q; rfl) hitems
          simp only [asList, Option.getD_some, Option.getD_none, indexPEs, List.reverse_nil, List.nil_append] at hidx ⊢
          rw [hidx]
          simp only [pemGet, Option.isSome_none, filter_const_false, List.length_nil, Nat.zero_add,
            List.length_map, Bool.false_eq_true]
          rw [mergeLoop_right_only _ obsR rpes rpes.length [] [] ?_ (Nat.le_refl _)]
          · simp only [List.reverse_nil, List.nil_append, hmap]
          · intro p hp
            have hpl : p.2 ∈ l := by rw [← hmap]; exact List.mem_map_of_mem hp
            simp only [Value.depth] at hd
            rw [hget p hp]
            exact hrec p.2 _ (hmem _ hpl).2 (canonList_mem l (by simpa [canon] using hc) _ hpl)
              (listsAssociativeItems_mem s _ l hassoc _ hpl)
              (by have := depthList_mem l _ hpl; omega)
      | _ => simp [asList, emptyOrAbsent] at hcond
  · next t hk =>
    rw [hk] at hview
    simp only []
    split
    · rfl
    · next hcond =>
      cases v with
      | map m =>
        simp only [asMap, emptyOrAbsent, Bool.true_and, Bool.or_eq_true, beq_iff_eq, not_or] at hcond
        have hl : m ≠ [] := by intro h; apply hcond.2; simp [h]
        have hfields := hview m rfl
        rcases listsAssociative_map s tr a m t hres hk ha with h | hassoc
        · exact absurd h hcond.1
        · simp only [canon, Bool.and_eq_true] at hc
          have hpw := keysAsc_pairwise m hc.1
          have hcopy := mergeMapStep_foldl_copy rec t m [] m (by
            intro p k w rest hm
            have hp : ∀ x ∈ p, x.1 < k := by
              intro x hx
              rw [hm, List.pairwise_append] at hpw
              exact hpw.2.2 x hx (k, w) List.mem_cons_self
            have hmem : (k, w) ∈ m := by rw [hm]; simp
            rw [hm, lookupField_append_of_lt k w rest p hp]
            simp only [lookupField]
            simp only [Value.depth] at hd
            exact hrec w _ (validateFields_mem s false t m hfields _ hmem) (canonFields_mem m hc.2 _ hmem)
              (listsAssociativeFields_mem s t m hassoc _ hmem)
              (by have := depthFields_mem m _ hmem; simp only [] at this; omega)) hpw m [] rfl
          simp only [asMap, Option.getD_some, Option.getD_none, zipKeys, lookupField, Option.isNone_none,
            filter_const_true, List.map_nil, List.nil_append]
          rw [hcopy]
          cases m with
          | nil => exact absurd rfl hl
          | cons x xs => rfl
      | _ => simp [asMap, emptyOrAbsent] at hcond

/-- merging with nothing on the right is the identity on valid canonical values whose lists can be indexed -/
theorem mergeNode_right_none (s : Schema) : ∀ (fuel : Nat) (v : Value) (tr : TypeRef),
    validateV s true tr v = .ok () → canon v = true → listsAssociative s tr v = true → v.depth < fuel →
      mergeNode s fuel (some v) none tr = .ok (some v) := by
  intro fuel
  induction fuel with
  | zero => intro v tr _ _ _ h; cases h
  | succ n ih =>
    intro v tr hv hc ha hd
    obtain ⟨a, hres, hview⟩ := validateV_view s true tr v hv
    rw [mergeNode_succ]
    simp only [Option.isNone_some, Option.isNone_none, Bool.false_and, Bool.false_eq_true, if_false, hres, if_true]
    exact mergeHandle_right_none s (mergeNode s n) n ih v tr a hres hview hc ha hd

theorem mergeNode_left_none (s : Schema) : ∀ (fuel : Nat) (v : Value) (tr : TypeRef),
    validateV s false tr v = .ok () → canon v = true → listsAssociative s tr v = true → v.depth < fuel →
      mergeNode s fuel none (some v) tr = .ok (some v) := by
  intro fuel
  induction fuel with
  | zero => intro v tr _ _ _ h; cases h
  | succ n ih =>
    intro v tr hv hc ha hd
    obtain ⟨a, hres, hview⟩ := validateV_view s false tr v hv
    rw [mergeNode_succ]
    simp only [Option.isNone_some, Option.isNone_none, Bool.and_false, Bool.false_eq_true, if_false, hres,
      Bool.true_or, if_true]
    exact mergeHandle_left_none s (mergeNode s n) n ih v tr a hres hview hc ha hd


end SMD
