/-
Helper lemmas for C01 (`merge_right_wins`): what the merging walker does to the nodes of its right
operand, against the independent path resolver `Nodes.valueAt`.
-/
import SMD.Spec.Nodes
import SMD.Proofs.ValidateExact
import SMD.Proofs.MergeLaws
import SMD.Proofs.FirstApply
set_option linter.unusedSimpArgs false
set_option linter.unusedVariables false
namespace SMD

/-! ### one level of `mergeNode` with a present right operand / an absent right operand -/

theorem mergeNode_some_right (s : Schema) (fuel : Nat) (lo : Option Value) (r : Value) (tr : TypeRef)
    (o : Option Value) (h : mergeNode s fuel lo (some r) tr = .ok o) :
    ∃ n a, fuel = n + 1 ∧ s.resolve tr = some a ∧
      mergeHandle s (mergeNode s n) lo (some r) (deduceAtom a (some r)) = .ok o := by
  cases fuel with
  | zero => cases h
  | succ n =>
    rw [mergeNode_succ] at h
    simp only [Option.isNone_some, Bool.and_false, Bool.false_eq_true, if_false] at h
    split at h
    · split at h <;> cases h
    · next a hres =>
      refine ⟨n, a, rfl, hres, ?_⟩
      split at h
      · exact h
      · split at h
        · exact h
        · next hne => exact absurd h (by intro h'; exact hne _ h')

theorem mergeNode_none_right (s : Schema) (fuel : Nat) (l : Value) (tr : TypeRef)
    (o : Option Value) (h : mergeNode s fuel (some l) none tr = .ok o) :
    ∃ n a, fuel = n + 1 ∧ s.resolve tr = some a ∧
      mergeHandle s (mergeNode s n) (some l) none (deduceAtom a (some l)) = .ok o := by
  cases fuel with
  | zero => cases h
  | succ n =>
    rw [mergeNode_succ] at h
    simp only [Option.isNone_some, Option.isNone_none, Bool.false_and, Bool.false_eq_true, if_false, if_true] at h
    split at h
    · split at h <;> cases h
    · next a hres => exact ⟨n, a, rfl, hres, h⟩

/-! ### `mergeHandle` by kind -/

theorem mergeHandle_scalar (s : Schema) (rec : MergeRec) (l r : Option Value) (atom : Atom) (t : String)
    (hk : atomKind atom = .scalar t) (o : Option Value) (h : mergeHandle s rec l r atom = .ok o) :
    o = keepRHS l r := by
  unfold mergeHandle at h
  rw [hk] at h
  simp only [] at h
  split at h
  · cases h
  · cases h; rfl

theorem mergeHandle_map (s : Schema) (rec : MergeRec) (l r : Option Value) (atom : Atom) (t : MapT)
    (hk : atomKind atom = .map t) (o : Option Value) (h : mergeHandle s rec l r atom = .ok o) :
    o = keepRHS l r ∨
    ∃ outm, (zipKeys ((asMap l).getD []) ((asMap r).getD [])).foldl
        (mergeMapStep rec t ((asMap l).getD []) ((asMap r).getD [])) (.ok []) = .ok outm ∧
      (emptyOrAbsent (asMap l) && emptyOrAbsent (asMap r)) = false ∧ t.rel ≠ "atomic" ∧
      ((outm = [] ∧ o = none) ∨ (outm ≠ [] ∧ o = some (.map outm))) := by
  unfold mergeHandle at h
  rw [hk] at h
  simp only [] at h
  split at h
  · cases h; exact .inl rfl
  · next hcond =>
    have hc : (emptyOrAbsent (asMap l) && emptyOrAbsent (asMap r)) = false := by
      cases hb : (emptyOrAbsent (asMap l) && emptyOrAbsent (asMap r))
      · rfl
      · exfalso; apply hcond; simp [hb]
    have hna : t.rel ≠ "atomic" := by intro ha; apply hcond; simp [ha]
    split at h
    · next hf => cases h; exact .inr ⟨[], hf, hc, hna, .inl ⟨rfl, rfl⟩⟩
    · next outm hne hf =>
      cases h
      refine .inr ⟨outm, hf, hc, hna, .inr ⟨?_, rfl⟩⟩
      intro he; subst he; exact hne rfl
    · cases h
    · cases h

theorem mergeHandle_list (s : Schema) (rec : MergeRec) (l r : Option Value) (atom : Atom) (t : ListT)
    (hk : atomKind atom = .list t) (o : Option Value) (h : mergeHandle s rec l r atom = .ok o) :
    o = keepRHS l r ∨
    ∃ rpes obsR lpes obsL res,
      indexPEs s t false ((asList r).getD []) [] [] = .ok (rpes, obsR) ∧
      indexPEs s t true ((asList l).getD []) [] [] = .ok (lpes, obsL) ∧
      mergeLoop (fun _ lc rc => rec lc rc t.elementType) obsL obsR (lpes.length + (rpes.map (·.1)).length) lpes
        (rpes.map (·.1)) ((rpes.map (·.1)).filter (fun pe => (pemGet pe obsL).isSome)) [] [] = .ok res ∧
      (emptyOrAbsent (asList l) && emptyOrAbsent (asList r)) = false ∧ t.rel ≠ "atomic" ∧
      ((res = [] ∧ o = none) ∨ (res ≠ [] ∧ o = some (.list res))) := by
  unfold mergeHandle at h
  rw [hk] at h
  simp only [] at h
  split at h
  · cases h; exact .inl rfl
  · next hcond =>
    have hc : (emptyOrAbsent (asList l) && emptyOrAbsent (asList r)) = false := by
      cases hb : (emptyOrAbsent (asList l) && emptyOrAbsent (asList r))
      · rfl
      · exfalso; apply hcond; simp [hb]
    have hna : t.rel ≠ "atomic" := by intro ha; apply hcond; simp [ha]
    split at h
    · cases h
    · cases h
    · next rpes obsR hr =>
      split at h
      · cases h
      · cases h
      · next lpes obsL hl =>
        split at h
        · next hf => cases h; exact .inr ⟨rpes, obsR, lpes, obsL, [], hr, hl, hf, hc, hna, .inl ⟨rfl, rfl⟩⟩
        · next res hne hf =>
          cases h
          refine .inr ⟨rpes, obsR, lpes, obsL, res, hr, hl, hf, hc, hna, .inr ⟨?_, rfl⟩⟩
          intro he; subst he; exact hne rfl
        · cases h
        · cases h

/-! ### deduced atoms of valid values -/

theorem deduceAtom_map (a : Atom) (m : List (String × Value)) (mt : MapT) (h : a.map = some mt) :
    deduceAtom a (some (.map m)) = Atom.mk none none (some mt) := by
  simp [deduceAtom, Value.isScalar, Value.isList, Value.isMap, h]

theorem deduceAtom_list (a : Atom) (l : List Value) (lt : ListT) (h : a.list = some lt) :
    deduceAtom a (some (.list l)) = Atom.mk none (some lt) none := by
  simp [deduceAtom, Value.isScalar, Value.isList, h]

theorem deduceAtom_scalar (a : Atom) (v : Value) (t : String) (hv : v.isScalar = true) (h : a.scalar = some t) :
    deduceAtom a (some v) = Atom.mk (some t) none none := by
  simp [deduceAtom, hv, h]

theorem atomKind_map (mt : MapT) : atomKind (Atom.mk none none (some mt)) = .map mt := rfl
theorem atomKind_list (lt : ListT) : atomKind (Atom.mk none (some lt) none) = .list lt := rfl
theorem atomKind_scalar (t : String) : atomKind (Atom.mk (some t) none none) = .scalar t := rfl

/-! ### scalars -/

/-- a valid scalar on the right is the result, whatever is on the left -/
theorem merge_scalar_right (s : Schema) (fuel : Nat) (lo : Option Value) (v : Value) (tr : TypeRef)
    (o : Option Value) (hv : validateV s false tr v = .ok ()) (hs : v.isScalar = true)
    (h : mergeNode s fuel lo (some v) tr = .ok o) : o = some v := by
  obtain ⟨n, a, _, hres, hh⟩ := mergeNode_some_right s fuel lo v tr o h
  rw [validateV_scalar s false tr v hs, hres] at hv
  simp only [] at hv
  cases hsc : a.scalar with
  | none => rw [hsc] at hv; cases hv
  | some t =>
    rw [deduceAtom_scalar a v t hs hsc] at hh
    exact mergeHandle_scalar s _ lo (some v) _ t rfl o hh

/-- a scalar on the left with nothing on the right is the result -/
theorem merge_scalar_left (s : Schema) (fuel : Nat) (w : Value) (tr : TypeRef)
    (o : Option Value) (hs : w.isScalar = true)
    (h : mergeNode s fuel (some w) none tr = .ok o) : o = some w := by
  obtain ⟨n, a, _, hres, hh⟩ := mergeNode_none_right s fuel w tr o h
  have hl : asList (some w) = none := by cases w <;> simp_all [Value.isScalar, asList]
  have hm : asMap (some w) = none := by cases w <;> simp_all [Value.isScalar, asMap]
  cases hk : atomKind (deduceAtom a (some w)) with
  | invalid => unfold mergeHandle at hh; rw [hk] at hh; cases hh
  | scalar t => exact mergeHandle_scalar s _ _ _ _ t hk o hh
  | list t =>
    rcases mergeHandle_list s _ _ _ _ t hk o hh with h1 | ⟨_, _, _, _, _, _, _, _, hc, _, _⟩
    · exact h1
    · rw [hl] at hc; simp [asList, emptyOrAbsent] at hc
  | map t =>
    unfold mergeHandle at hh
    rw [hk] at hh
    simp only [] at hh
    rw [hm] at hh
    simp only [asMap, emptyOrAbsent, Bool.and_self, Bool.or_true, if_true] at hh
    cases hh; rfl

/-! ### entry lists -/

theorem mem_insertField (e x : String × Value) : ∀ m : List (String × Value), x ∈ insertField e m ↔ x = e ∨ x ∈ m
  | [] => by simp [insertField]
  | y :: ys => by
    simp only [insertField]
    split
    · simp
    · simp only [List.mem_cons, mem_insertField e x ys]
      constructor
      · rintro (h | h | h) <;> simp [h]
      · rintro (h | h | h) <;> simp [h]

theorem mn_lookupField_mem (k : String) (v : Value) : ∀ m : List (String × Value), lookupField k m = some v → (k, v) ∈ m
  | [] => by simp [lookupField]
  | (k', v') :: rest => by
    simp only [lookupField]
    split
    · next h =>
      intro hv
      simp only [beq_iff_eq] at h
      cases hv; subst h; exact List.mem_cons_self
    · intro hv; exact List.mem_cons_of_mem _ (mn_lookupField_mem k v rest hv)

theorem mn_lookupField_isSome_of_mem (k : String) (v : Value) :
    ∀ m : List (String × Value), (k, v) ∈ m → (lookupField k m).isSome = true
  | [] => by simp
  | (k', v') :: rest => by
    intro h
    simp only [lookupField]
    split
    · rfl
    · next hne =>
      rcases List.mem_cons.1 h with h | h
      · cases h; simp at hne
      · exact mn_lookupField_isSome_of_mem k v rest h

theorem lookupField_isSome_iff (k : String) (m : List (String × Value)) :
    (lookupField k m).isSome = true ↔ k ∈ m.map (·.1) := by
  constructor
  · intro h
    cases hv : lookupField k m with
    | none => rw [hv] at h; cases h
    | some v => exact List.mem_map.2 ⟨(k, v), mn_lookupField_mem k v m hv, rfl⟩
  · intro h
    obtain ⟨⟨k', v⟩, hm, rfl⟩ := List.mem_map.1 h
    exact mn_lookupField_isSome_of_mem _ v m hm

/-! ### the map fold -/

theorem foldl_mergeMapStep_err (rec : MergeRec) (t : MapT) (lf rf : List (String × Value)) :
    ∀ ks, List.foldl (mergeMapStep rec t lf rf) .err ks = .err
  | [] => rfl
  | k :: ks => by simp only [List.foldl_cons, mergeMapStep]; exact foldl_mergeMapStep_err rec t lf rf ks

theorem foldl_mergeMapStep_panic (rec : MergeRec) (t : MapT) (lf rf : List (String × Value)) :
    ∀ ks, List.foldl (mergeMapStep rec t lf rf) .panic ks = .panic
  | [] => rfl
  | k :: ks => by simp only [List.foldl_cons, mergeMapStep]; exact foldl_mergeMapStep_panic rec t lf rf ks

/-- what the fold over the keys builds: every entry of the result is an old entry or the merge result
of one of the keys; old entries stay; every key's merge succeeded and its result (if any) is an entry -/
theorem foldl_mergeMapStep_spec (rec : MergeRec) (t : MapT) (lf rf : List (String × Value)) :
    ∀ (ks : List String) (acc outm : List (String × Value)),
      List.foldl (mergeMapStep rec t lf rf) (.ok acc) ks = .ok outm →
      (∀ x ∈ outm, x ∈ acc ∨
        (x.1 ∈ ks ∧ rec (lookupField x.1 lf) (lookupField x.1 rf) (fieldType t x.1) = .ok (some x.2))) ∧
      (∀ x ∈ acc, x ∈ outm) ∧
      (∀ k ∈ ks, ∃ o, rec (lookupField k lf) (lookupField k rf) (fieldType t k) = .ok o ∧
        ∀ v, o = some v → (k, v) ∈ outm)
  | [], acc, outm => by
    intro h
    simp only [List.foldl_nil] at h
    cases h
    exact ⟨fun x hx => .inl hx, fun x hx => hx, fun k hk => by cases hk⟩
  | k :: ks, acc, outm => by
    intro h
    simp only [List.foldl_cons] at h
    cases hr : rec (lookupField k lf) (lookupField k rf) (fieldType t k) with
    | err => simp only [mergeMapStep, hr, foldl_mergeMapStep_err] at h; cases h
    | panic => simp only [mergeMapStep, hr, foldl_mergeMapStep_panic] at h; cases h
    | ok o =>
      cases o with
      | none =>
        simp only [mergeMapStep, hr] at h
        obtain ⟨h1, h2, h3⟩ := foldl_mergeMapStep_spec rec t lf rf ks acc outm h
        refine ⟨fun x hx => ?_, h2, fun k' hk' => ?_⟩
        · rcases h1 x hx with h | ⟨h, h'⟩
          · exact .inl h
          · exact .inr ⟨List.mem_cons_of_mem _ h, h'⟩
        · rcases List.mem_cons.1 hk' with rfl | hk'
          · exact ⟨none, hr, by intro v hv; cases hv⟩
          · exact h3 k' hk'
      | some v =>
        simp only [mergeMapStep, hr] at h
        obtain ⟨h1, h2, h3⟩ := foldl_mergeMapStep_spec rec t lf rf ks _ outm h
        refine ⟨fun x hx => ?_, fun x hx => h2 x ((mem_insertField _ _ _).2 (.inr hx)), fun k' hk' => ?_⟩
        · rcases h1 x hx with h | ⟨h, h'⟩
          · rcases (mem_insertField _ _ _).1 h with rfl | h
            · exact .inr ⟨List.mem_cons_self, hr⟩
            · exact .inl h
          · exact .inr ⟨List.mem_cons_of_mem _ h, h'⟩
        · rcases List.mem_cons.1 hk' with rfl | hk'
          · exact ⟨some v, hr, by intro v' hv; cases hv; exact h2 _ ((mem_insertField _ _ _).2 (.inl rfl))⟩
          · exact h3 k' hk'

theorem mem_zipKeys (k : String) (lf rf : List (String × Value)) :
    k ∈ zipKeys lf rf ↔ ((lookupField k lf).isSome = true ∨ (lookupField k rf).isSome = true) := by
  unfold zipKeys
  rw [List.mem_append, lookupField_isSome_iff, lookupField_isSome_iff]
  constructor
  · rintro (h | h)
    · exact .inl h
    · obtain ⟨x, hx, rfl⟩ := List.mem_map.1 h
      exact .inr (List.mem_map.2 ⟨x, (List.mem_filter.1 hx).1, rfl⟩)
  · rintro (h | h)
    · exact .inl h
    · by_cases hl : k ∈ lf.map (·.1)
      · exact .inl hl
      · right
        obtain ⟨x, hx, rfl⟩ := List.mem_map.1 h
        refine List.mem_map.2 ⟨x, List.mem_filter.2 ⟨hx, ?_⟩, rfl⟩
        rw [← lookupField_isSome_iff] at hl
        simpa using hl

/-- lookups in the merged map: the result for a key is the merge of the two entries of that key -/
theorem mergedMap_lookup (rec : MergeRec) (t : MapT) (lf rf outm : List (String × Value))
    (h : List.foldl (mergeMapStep rec t lf rf) (.ok []) (zipKeys lf rf) = .ok outm) (k : String) :
    (∀ v, lookupField k outm = some v →
      rec (lookupField k lf) (lookupField k rf) (fieldType t k) = .ok (some v)) ∧
    (lookupField k outm = none →
      ((lookupField k lf) = none ∧ (lookupField k rf) = none) ∨
        rec (lookupField k lf) (lookupField k rf) (fieldType t k) = .ok none) := by
  obtain ⟨h1, _, h3⟩ := foldl_mergeMapStep_spec rec t lf rf _ _ _ h
  constructor
  · intro v hv
    rcases h1 (k, v) (mn_lookupField_mem k v outm hv) with h | ⟨_, h⟩
    · cases h
    · exact h
  · intro hn
    by_cases hk : k ∈ zipKeys lf rf
    · right
      obtain ⟨o, ho, hmem⟩ := h3 k hk
      cases o with
      | none => exact ho
      | some v =>
        have := mn_lookupField_isSome_of_mem k v outm (hmem v rfl)
        rw [hn] at this; cases this
    · left
      rw [mem_zipKeys] at hk
      cases h1 : lookupField k lf <;> cases h2 : lookupField k rf <;> simp_all

/-! ### the interleaving loop -/

def pushOpt (o : Option Value) (out : List Value) : List Value :=
  match o with
  | some v => v :: out
  | none => out

/-- one iteration of the interleaving loop -/
inductive LoopStep (item : PE → Option Value → Option Value → Res (Option Value)) (obsL obsR : List (PE × Value))
    (ls : List (PE × Value)) (rs : List PE) (out : List Value) :
    List (PE × Value) → List PE → List Value → Prop where
  | skip (pe : PE) (x : Value) (ls2 : List (PE × Value)) (h : ls = (pe, x) :: ls2)
      (hs : (pemGet pe obsR).isSome = true) : LoopStep item obsL obsR ls rs out ls2 rs out
  | left (pe : PE) (x : Value) (ls2 : List (PE × Value)) (o : Option Value) (h : ls = (pe, x) :: ls2)
      (hn : pemGet pe obsR = none) (hi : item pe (some x) none = .ok o) :
      LoopStep item obsL obsR ls rs out ls2 rs (pushOpt o out)
  | right (pe rpe : PE) (rs2 : List PE) (ls2 : List (PE × Value)) (o : Option Value) (h : rs = rpe :: rs2)
      (he : PE.equals pe rpe = true) (hi : item pe (pemGet pe obsL) (pemGet pe obsR) = .ok o)
      (hl : ls2 = ls ∨ ∃ y, ls = y :: ls2) : LoopStep item obsL obsR ls rs out ls2 rs2 (pushOpt o out)
  | idle : LoopStep item obsL obsR ls rs out ls rs out

theorem mergeLoop_step (item : PE → Option Value → Option Value → Res (Option Value))
    (obsL obsR : List (PE × Value)) (steps : Nat) (ls : List (PE × Value)) (rs shared merged : List PE)
    (out res : List Value) (hne : ¬ (ls = [] ∧ rs = []))
    (h : mergeLoop item obsL obsR (steps + 1) ls rs shared merged out = .ok res) :
    ∃ ls2 rs2 shared2 merged2 out2,
      mergeLoop item obsL obsR steps ls2 rs2 shared2 merged2 out2 = .ok res ∧
      LoopStep item obsL obsR ls rs out ls2 rs2 out2 := by
  cases ls with
  | nil =>
    cases rs with
    | nil => exact absurd ⟨rfl, rfl⟩ hne
    | cons rpe rs' =>
      rw [mergeLoop] at h
      · simp only [] at h
        split at h
        · next o ho =>
          exact ⟨_, _, _, _, _, h, .right rpe rpe rs' [] o rfl (PE.equals_refl _) ho (.inl rfl)⟩
        · cases h
        · cases h
      · simp
  | cons p ls' =>
    obtain ⟨pe, x⟩ := p
    cases rs with
    | nil =>
      rw [mergeLoop] at h
      · simp only [] at h
        split at h
        · next hn =>
          split at h
          · next o ho =>
            exact ⟨_, _, _, _, _, h, .left pe x ls' o rfl (by simpa using hn) ho⟩
          · cases h
          · cases h
        · next hn =>
          split at h
          · exact ⟨_, _, _, _, _, h, .skip pe x ls' rfl (by cases hg : pemGet pe obsR <;> simp_all)⟩
          · exact ⟨_, _, _, _, _, h, .idle⟩
      · simp
    | cons rpe rs' =>
      rw [mergeLoop] at h
      simp only [] at h
      split at h
      · next he =>
        split at h
        · next o ho => exact ⟨_, _, _, _, _, h, .right pe rpe rs' ls' o rfl he ho (.inr ⟨_, rfl⟩)⟩
        · cases h
        · cases h
      · split at h
        · next hc =>
          simp only [Bool.and_eq_true] at hc
          exact ⟨_, _, _, _, _, h, .skip pe x ls' rfl hc.1.1⟩
        · split at h
          · next hn =>
            split at h
            · next o ho =>
              exact ⟨_, _, _, _, _, h, .left pe x ls' o rfl (by simpa using hn) ho⟩
            · cases h
            · cases h
          · split at h
            · split at h
              · next o ho =>
                exact ⟨_, _, _, _, _, h, .right rpe rpe rs' ls' o rfl (PE.equals_refl _) ho (.inr ⟨_, rfl⟩)⟩
              · cases h
              · cases h
            · split at h
              · next o ho =>
                exact ⟨_, _, _, _, _, h, .right rpe rpe rs' _ o rfl (PE.equals_refl _) ho (.inl rfl)⟩
              · cases h
              · cases h
theorem mem_pushOpt (v : Value) (o : Option Value) (out : List Value) :
    v ∈ pushOpt o out ↔ o = some v ∨ v ∈ out := by
  cases o <;> simp [pushOpt, eq_comm]

theorem mergeLoop_nil (item : PE → Option Value → Option Value → Res (Option Value))
    (obsL obsR : List (PE × Value)) (steps : Nat) (shared merged : List PE) (out : List Value) :
    mergeLoop item obsL obsR steps [] [] shared merged out = .ok out.reverse := by
  cases steps <;> simp [mergeLoop]

/-- the elements of the merged list: what was already emitted, the merges of left-only items with
nothing, and the merges at the right elements; every right element is emitted -/
theorem mergeLoop_spec (item : PE → Option Value → Option Value → Res (Option Value))
    (obsL obsR : List (PE × Value)) :
    ∀ (steps : Nat) (ls : List (PE × Value)) (rs shared merged : List PE) (out res : List Value),
      mergeLoop item obsL obsR steps ls rs shared merged out = .ok res →
      (∀ v ∈ res, v ∈ out ∨
        (∃ pe x, (pe, x) ∈ ls ∧ pemGet pe obsR = none ∧ item pe (some x) none = .ok (some v)) ∨
        (∃ pe rpe, rpe ∈ rs ∧ PE.equals pe rpe = true ∧
          item pe (pemGet pe obsL) (pemGet pe obsR) = .ok (some v))) ∧
      (∀ v ∈ out, v ∈ res) ∧
      (∀ rpe ∈ rs, ∃ pe o, PE.equals pe rpe = true ∧ item pe (pemGet pe obsL) (pemGet pe obsR) = .ok o ∧
        ∀ v, o = some v → v ∈ res) ∧
      (rs = [] → obsR = [] → ∀ p ∈ ls, ∃ o, item p.1 (some p.2) none = .ok o ∧ ∀ v, o = some v → v ∈ res) := by
  intro steps
  induction steps with
  | zero =>
    intro ls rs shared merged out res h
    by_cases hne : ls = [] ∧ rs = []
    · obtain ⟨rfl, rfl⟩ := hne
      rw [mergeLoop_nil] at h
      cases h
      simp
    · rw [mergeLoop] at h
      · cases h
      · intro h1 h2; exact hne ⟨h1, h2⟩
  | succ n ih =>
    intro ls rs shared merged out res h
    by_cases hne : ls = [] ∧ rs = []
    · obtain ⟨rfl, rfl⟩ := hne
      rw [mergeLoop_nil] at h
      cases h
      simp
    · obtain ⟨ls2, rs2, shared2, merged2, out2, h2, hstep⟩ := mergeLoop_step item obsL obsR n ls rs shared merged out res hne h
      obtain ⟨i1, i2, i3, i4⟩ := ih ls2 rs2 shared2 merged2 out2 res h2
      cases hstep with
      | skip pe x _ hls hs =>
        subst hls
        refine ⟨fun v hv => ?_, i2, i3, fun hr ho => ?_⟩
        · rcases i1 v hv with h | ⟨pe', x', hm, h⟩ | h
          · exact .inl h
          · exact .inr (.inl ⟨pe', x', List.mem_cons_of_mem _ hm, h⟩)
          · exact .inr (.inr h)
        · subst ho; simp [pemGet] at hs
      | left pe x _ o hls hn hi =>
        subst hls
        refine ⟨fun v hv => ?_, fun v hv => i2 v ((mem_pushOpt _ _ _).2 (.inr hv)), i3, fun hr ho p hp => ?_⟩
        · rcases i1 v hv with h | ⟨pe', x', hm, h⟩ | h
          · rcases (mem_pushOpt _ _ _).1 h with h | h
            · subst h; exact .inr (.inl ⟨pe, x, List.mem_cons_self, hn, hi⟩)
            · exact .inl h
          · exact .inr (.inl ⟨pe', x', List.mem_cons_of_mem _ hm, h⟩)
          · exact .inr (.inr h)
        · rcases List.mem_cons.1 hp with rfl | hp
          · exact ⟨o, hi, fun v hv => i2 v ((mem_pushOpt _ _ _).2 (.inl hv))⟩
          · exact i4 hr ho p hp
      | right pe rpe _ _ o hrs he hi hl =>
        subst hrs
        refine ⟨fun v hv => ?_, fun v hv => i2 v ((mem_pushOpt _ _ _).2 (.inr hv)), fun r hr => ?_, fun hr => by cases hr⟩
        · rcases i1 v hv with h | ⟨pe', x', hm, h⟩ | ⟨pe', r', hm, h⟩
          · rcases (mem_pushOpt _ _ _).1 h with h | h
            · subst h; exact .inr (.inr ⟨pe, rpe, List.mem_cons_self, he, hi⟩)
            · exact .inl h
          · refine .inr (.inl ⟨pe', x', ?_, h⟩)
            rcases hl with rfl | ⟨y, rfl⟩
            · exact hm
            · exact List.mem_cons_of_mem _ hm
          · exact .inr (.inr ⟨pe', r', List.mem_cons_of_mem _ hm, h⟩)
        · rcases List.mem_cons.1 hr with rfl | hr
          · exact ⟨pe, o, he, hi, fun v hv => i2 v ((mem_pushOpt _ _ _).2 (.inl hv))⟩
          · exact i3 r hr
      | idle => exact ⟨i1, i2, i3, i4⟩

/-! ### indexing the items -/

/-- what indexing the items of a list yields -/
theorem mn_indexPEs_spec (s : Schema) (t : ListT) (d : Bool) :
    ∀ (l : List Value) (pes obs res obs' : List (PE × Value)), indexPEs s t d l pes obs = .ok (res, obs') →
      ∃ new, res = pes.reverse ++ new ∧ new.map (·.2) = l ∧
        (∀ p ∈ new, listItemToPE s t p.2 = .ok p.1) ∧
        (d = false → (∀ p ∈ new, pemGet p.1 obs' = some p.2) ∧
          ∀ q w, pemGet q obs = some w → pemGet q obs' = some w) ∧
        (∀ q w, pemGet q obs' = some w → w = .null ∨ pemGet q obs = some w ∨
          ∃ p ∈ new, PE.equals p.1 q = true ∧ p.2 = w)
  | [], pes, obs, res, obs' => by
    intro h
    simp only [indexPEs, Res.ok.injEq, Prod.mk.injEq] at h
    obtain ⟨rfl, rfl⟩ := h
    exact ⟨[], by simp, rfl, by simp, fun _ => ⟨by simp, fun _ _ h => h⟩, fun q w h => .inr (.inl h)⟩
  | child :: rest, pes, obs, res, obs' => by
    intro h
    rw [indexPEs] at h
    split at h
    · next pe hpe =>
      split at h
      · next w0 hw0 =>
        split at h
        · cases h
        · next hd =>
          have hd' : d = true := by simpa using hd
          obtain ⟨new, h1, h2, h3, h4, h5⟩ := mn_indexPEs_spec s t d rest _ _ _ _ h
          refine ⟨(pe, child) :: new, ?_, ?_, ?_, ?_, ?_⟩
          · simp [h1]
          · simp [h2]
          · intro p hp
            rcases List.mem_cons.1 hp with rfl | hp
            · exact hpe
            · exact h3 p hp
          · intro hf; rw [hd'] at hf; cases hf
          · intro q w hq
            rcases h5 q w hq with h | h | ⟨p, hp, h⟩
            · exact .inl h
            · rw [pemGet_pemInsert] at h
              split at h
              · cases h; exact .inl rfl
              · exact .inr (.inl h)
            · exact .inr (.inr ⟨p, List.mem_cons_of_mem _ hp, h⟩)
      · next hnone =>
        obtain ⟨new, h1, h2, h3, h4, h5⟩ := mn_indexPEs_spec s t d rest _ _ _ _ h
        refine ⟨(pe, child) :: new, ?_, ?_, ?_, ?_, ?_⟩
        · simp [h1]
        · simp [h2]
        · intro p hp
          rcases List.mem_cons.1 hp with rfl | hp
          · exact hpe
          · exact h3 p hp
        · intro hf
          obtain ⟨h4a, h4b⟩ := h4 hf
          refine ⟨fun p hp => ?_, fun q w hq => ?_⟩
          · rcases List.mem_cons.1 hp with rfl | hp
            · exact h4b pe child (by rw [pemGet_pemInsert]; simp [PE.equals_refl])
            · exact h4a p hp
          · apply h4b
            rw [pemGet_pemInsert]
            have : PE.equals pe q = false := by
              cases he : PE.equals pe q with
              | false => rfl
              | true => rw [pemGet_congr he, hq] at hnone; cases hnone
            simp [this, hq]
        · intro q w hq
          rcases h5 q w hq with h | h | ⟨p, hp, h⟩
          · exact .inl h
          · rw [pemGet_pemInsert] at h
            split at h
            · next he => cases h; exact .inr (.inr ⟨(pe, child), List.mem_cons_self, he, rfl⟩)
            · exact .inr (.inl h)
          · exact .inr (.inr ⟨p, List.mem_cons_of_mem _ hp, h⟩)
    · cases h
    · cases h

/-! ### a successful merge produces a value -/

theorem keepRHS_isSome (l r : Option Value) (h : l.isSome = true ∨ r.isSome = true) : (keepRHS l r).isSome = true := by
  cases l <;> cases r <;> simp_all [keepRHS]

theorem mergeHandle_isSome (s : Schema) (rec : MergeRec)
    (hrec : ∀ lc rc tr o, rec lc rc tr = .ok o → o.isSome = true)
    (l r : Option Value) (atom : Atom) (hlr : l.isSome = true ∨ r.isSome = true) (o : Option Value)
    (h : mergeHandle s rec l r atom = .ok o) : o.isSome = true := by
  cases hk : atomKind atom with
  | invalid => unfold mergeHandle at h; rw [hk] at h; cases h
  | scalar t => rw [mergeHandle_scalar s rec l r atom t hk o h]; exact keepRHS_isSome l r hlr
  | map t =>
    rcases mergeHandle_map s rec l r atom t hk o h with h1 | ⟨outm, hf, hc, _, h2⟩
    · rw [h1]; exact keepRHS_isSome l r hlr
    · rcases h2 with ⟨he, _⟩ | ⟨_, ho⟩
      · exfalso
        subst he
        obtain ⟨_, _, h3⟩ := foldl_mergeMapStep_spec rec t _ _ _ _ _ hf
        have : ∃ k, k ∈ zipKeys ((asMap l).getD []) ((asMap r).getD []) := by
          cases hl : asMap l with
          | none =>
            cases hr : asMap r with
            | none => simp [hl, hr, emptyOrAbsent] at hc
            | some rf =>
              cases rf with
              | nil => simp [hl, hr, emptyOrAbsent] at hc
              | cons x xs => exact ⟨x.1, by rw [mem_zipKeys]; right; simp [lookupField]⟩
          | some lf =>
            cases lf with
            | nil =>
              cases hr : asMap r with
              | none => simp [hl, hr, emptyOrAbsent] at hc
              | some rf =>
                cases rf with
                | nil => simp [hl, hr, emptyOrAbsent] at hc
                | cons x xs => exact ⟨x.1, by rw [mem_zipKeys]; right; simp [lookupField]⟩
            | cons x xs => exact ⟨x.1, by rw [mem_zipKeys]; left; simp [lookupField]⟩
        obtain ⟨k, hk⟩ := this
        obtain ⟨o', ho', hm⟩ := h3 k hk
        have := hrec _ _ _ _ ho'
        cases o' with
        | none => cases this
        | some v => cases hm v rfl
      · rw [ho]; rfl
  | list t =>
    rcases mergeHandle_list s rec l r atom t hk o h with h1 | ⟨rpes, obsR, lpes, obsL, res, hr, hl, hloop, hc, _, h2⟩
    · rw [h1]; exact keepRHS_isSome l r hlr
    · rcases h2 with ⟨he, _⟩ | ⟨_, ho⟩
      · exfalso
        subst he
        obtain ⟨_, _, m3, m4⟩ := mergeLoop_spec _ _ _ _ _ _ _ _ _ _ hloop
        obtain ⟨newr, hr1, hr2, _, _, _⟩ := mn_indexPEs_spec s t false _ _ _ _ _ hr
        obtain ⟨newl, hl1, hl2, _, _, _⟩ := mn_indexPEs_spec s t true _ _ _ _ _ hl
        simp only [List.reverse_nil, List.nil_append] at hr1 hl1
        subst hr1 hl1
        cases rpes with
        | cons p ps =>
          obtain ⟨pe, o', _, ho', hm⟩ := m3 p.1 (by simp)
          have := hrec _ _ _ _ ho'
          cases o' with
          | none => cases this
          | some v => cases hm v rfl
        | nil =>
          simp only [List.map_nil] at hr2
          rw [← hr2] at hr
          simp only [indexPEs, List.reverse_nil, Res.ok.injEq, Prod.mk.injEq, true_and] at hr
          cases lpes with
          | nil =>
            simp only [List.map_nil] at hl2
            clear m3 m4 hloop hl hr
            cases h1 : asList l <;> cases h2 : asList r <;>
              simp only [h1, h2, Option.getD_some, Option.getD_none] at hr2 hl2 <;>
              (try subst hr2) <;> (try subst hl2) <;> simp [h1, h2, emptyOrAbsent] at hc
          | cons p ps =>
            obtain ⟨o', ho', hm⟩ := m4 rfl hr.symm p (by simp)
            have := hrec _ _ _ _ ho'
            cases o' with
            | none => cases this
            | some v => cases hm v rfl
      · rw [ho]; rfl

/-- a successful merge always produces a value -/
theorem mergeNode_isSome (s : Schema) : ∀ (fuel : Nat) (l r : Option Value) (tr : TypeRef) (o : Option Value),
    mergeNode s fuel l r tr = .ok o → o.isSome = true := by
  intro fuel
  induction fuel with
  | zero => intro l r tr o h; cases h
  | succ n ih =>
    intro l r tr o h
    rw [mergeNode_succ] at h
    split at h
    · cases h
    · next hlr =>
      have hlr' : l.isSome = true ∨ r.isSome = true := by
        cases l <;> cases r <;> simp_all
      split at h
      · split at h <;> cases h
      · split at h
        · exact mergeHandle_isSome s _ ih l r _ hlr' o h
        · split at h
          · exact mergeHandle_isSome s _ ih l r _ hlr' o h
          · split at h
            · exact mergeHandle_isSome s _ ih l r _ hlr' o h
            · next hne => exact absurd h (by intro h'; exact hne _ h')


/-! ### identities of keyed items: sorting commutes with pairing -/

abbrev ZEntry := String × Value × Value

def insertZ (e : ZEntry) : List ZEntry → List ZEntry
  | [] => [e]
  | x :: xs => if x.1 < e.1 then x :: insertZ e xs else e :: x :: xs

def sortZ (l : List ZEntry) : List ZEntry := l.foldr insertZ []

def zl (z : ZEntry) : String × Value := (z.1, z.2.1)
def zr (z : ZEntry) : String × Value := (z.1, z.2.2)

theorem insertZ_zl (e : ZEntry) : ∀ Z, (insertZ e Z).map zl = insertFieldFirst (zl e) (Z.map zl)
  | [] => rfl
  | x :: xs => by
    simp only [insertZ, List.map_cons, insertFieldFirst, zl]
    split
    · simp only [List.map_cons]; congr 1; exact insertZ_zl e xs
    · rfl

theorem insertZ_zr (e : ZEntry) : ∀ Z, (insertZ e Z).map zr = insertFieldFirst (zr e) (Z.map zr)
  | [] => rfl
  | x :: xs => by
    simp only [insertZ, List.map_cons, insertFieldFirst, zr]
    split
    · simp only [List.map_cons]; congr 1; exact insertZ_zr e xs
    · rfl

theorem mem_insertZ (e x : ZEntry) : ∀ Z, x ∈ insertZ e Z ↔ x = e ∨ x ∈ Z
  | [] => by simp [insertZ]
  | y :: ys => by
    simp only [insertZ]
    split
    · simp only [List.mem_cons, mem_insertZ e x ys]
      constructor
      · rintro (h | h | h) <;> simp [h]
      · rintro (h | h | h) <;> simp [h]
    · simp

theorem sortZ_zl : ∀ Z, (sortZ Z).map zl = FieldList.sort (Z.map zl)
  | [] => rfl
  | x :: xs => by
    simp only [sortZ, List.foldr_cons, List.map_cons, FieldList.sort]
    rw [insertZ_zl]
    congr 1
    exact sortZ_zl xs

theorem sortZ_zr : ∀ Z, (sortZ Z).map zr = FieldList.sort (Z.map zr)
  | [] => rfl
  | x :: xs => by
    simp only [sortZ, List.foldr_cons, List.map_cons, FieldList.sort]
    rw [insertZ_zr]
    congr 1
    exact sortZ_zr xs

theorem mem_sortZ (x : ZEntry) : ∀ Z, x ∈ sortZ Z ↔ x ∈ Z
  | [] => by simp [sortZ]
  | y :: ys => by
    have ih := mem_sortZ x ys
    simp only [sortZ, List.foldr_cons] at ih ⊢
    rw [mem_insertZ, ih]
    simp

theorem equalsFields_zip : ∀ Z : List ZEntry,
    Value.equalsFields (Z.map zl) (Z.map zr) = true ↔ ∀ z ∈ Z, Value.equals z.2.1 z.2.2 = true
  | [] => by simp [Value.equalsFields]
  | z :: zs => by
    simp only [List.map_cons, zl, zr, Value.equalsFields, Bool.and_eq_true, beq_self_eq_true, true_and,
      List.mem_cons, forall_eq_or_imp]
    have ih := equalsFields_zip zs
    rw [← ih]

theorem sorted_equals_iff (Z : List ZEntry) :
    FieldList.equals (FieldList.sort (Z.map zl)) (FieldList.sort (Z.map zr)) = true ↔
      ∀ z ∈ Z, Value.equals z.2.1 z.2.2 = true := by
  rw [← sortZ_zl, ← sortZ_zr]
  unfold FieldList.equals
  rw [equalsFields_zip]
  simp only [mem_sortZ]

theorem keyVal_fst (s : Schema) (t : ListT) (m : List (String × Value)) (k : String) (e : String × Value)
    (h : keyVal s t m k = some e) : e.1 = k := by
  rcases (keyVal_some_iff s t m k e).1 h with ⟨v, _, rfl⟩ | ⟨_, d, _, rfl⟩ <;> rfl

theorem keyVal_of_lookup_some (s : Schema) (t : ListT) (m : List (String × Value)) (k : String) (v : Value)
    (h : lookupField k m = some v) : keyVal s t m k = some (k, v) := by
  simp [keyVal, h]

theorem keyVal_of_lookup_none (s : Schema) (t : ListT) (m1 m2 : List (String × Value)) (k : String)
    (h1 : lookupField k m1 = none) (h2 : lookupField k m2 = none) : keyVal s t m1 k = keyVal s t m2 k := by
  simp [keyVal, h1, h2]

theorem buildZ (s : Schema) (t : ListT) (m1 m2 : List (String × Value)) :
    ∀ keys : List String, (∀ k ∈ keys, (keyVal s t m1 k).isSome = true ∧ (keyVal s t m2 k).isSome = true) →
      ∃ Z : List ZEntry, keys.map (keyVal s t m1) = Z.map (fun z => some (zl z)) ∧
        keys.map (keyVal s t m2) = Z.map (fun z => some (zr z)) ∧
        (∀ z ∈ Z, z.1 ∈ keys ∧ keyVal s t m1 z.1 = some (zl z) ∧ keyVal s t m2 z.1 = some (zr z)) ∧
        (∀ k ∈ keys, ∃ z ∈ Z, z.1 = k)
  | [], _ => ⟨[], rfl, rfl, by simp, by simp⟩
  | k :: ks, h => by
    obtain ⟨Z, h1, h2, h3, h4⟩ := buildZ s t m1 m2 ks (fun k' hk' => h k' (List.mem_cons_of_mem _ hk'))
    obtain ⟨ha, hb⟩ := h k List.mem_cons_self
    cases e1 : keyVal s t m1 k with
    | none => rw [e1] at ha; cases ha
    | some a =>
      cases e2 : keyVal s t m2 k with
      | none => rw [e2] at hb; cases hb
      | some b =>
        have f1 := keyVal_fst s t m1 k a e1
        have f2 := keyVal_fst s t m2 k b e2
        obtain ⟨ka, va⟩ := a
        obtain ⟨kb, vb⟩ := b
        simp only [] at f1 f2
        subst f1 f2
        refine ⟨(kb, va, vb) :: Z, by simp [e1, h1, zl], by simp [e2, h2, zr], ?_, ?_⟩
        · intro z hz
          rcases List.mem_cons.1 hz with rfl | hz
          · exact ⟨List.mem_cons_self, e1, e2⟩
          · obtain ⟨g1, g2, g3⟩ := h3 z hz
            exact ⟨List.mem_cons_of_mem _ g1, g2, g3⟩
        · intro k' hk'
          rcases List.mem_cons.1 hk' with rfl | hk'
          · exact ⟨_, List.mem_cons_self, rfl⟩
          · obtain ⟨z, hz, hzk⟩ := h4 k' hk'
            exact ⟨z, List.mem_cons_of_mem _ hz, hzk⟩

theorem identity_keyed_some (s : Schema) (t : ListT) (m : List (String × Value)) (hk : t.keys.isEmpty = false)
    (p : PE) : Conf.identity s t (.map m) = some p ↔
      (∀ k ∈ t.keys, (keyVal s t m k).isSome = true) ∧
        p = .key (FieldList.sort ((t.keys.map (keyVal s t m)).filterMap id)) := by
  rw [identity_keyed s t m hk]
  split
  · next h =>
    simp only [List.all_eq_true, List.mem_map, forall_exists_index, and_imp, forall_apply_eq_imp_iff₂] at h
    simp only [Option.some.injEq]
    exact ⟨fun hp => ⟨h, hp.symm⟩, fun hp => hp.2.symm⟩
  · next h =>
    simp only [List.all_eq_true, List.mem_map, forall_exists_index, and_imp, forall_apply_eq_imp_iff₂] at h
    simp only [reduceCtorEq, false_iff, not_and]
    intro h'; exact absurd h' h

theorem filterMap_id_map_some {α β : Type} (f : α → β) (l : List α) :
    (l.map (fun z => some (f z))).filterMap id = l.map f := by
  induction l <;> simp_all

/-- two keyed items have equal identities iff their key values (defaults included) are pairwise equal -/
theorem identity_keyed_equals (s : Schema) (t : ListT) (m1 m2 : List (String × Value))
    (hk : t.keys.isEmpty = false) (p1 p2 : PE)
    (h1 : Conf.identity s t (.map m1) = some p1) (h2 : Conf.identity s t (.map m2) = some p2) :
    PE.equals p1 p2 = true ↔
      ∀ k ∈ t.keys, ∃ v1 v2, keyVal s t m1 k = some (k, v1) ∧ keyVal s t m2 k = some (k, v2) ∧
        Value.equals v1 v2 = true := by
  obtain ⟨a1, rfl⟩ := (identity_keyed_some s t m1 hk p1).1 h1
  obtain ⟨a2, rfl⟩ := (identity_keyed_some s t m2 hk p2).1 h2
  obtain ⟨Z, z1, z2, z3, z4⟩ := buildZ s t m1 m2 t.keys (fun k hk' => ⟨a1 k hk', a2 k hk'⟩)
  rw [z1, z2, filterMap_id_map_some, filterMap_id_map_some]
  simp only [PE.equals]
  rw [sorted_equals_iff]
  constructor
  · intro h k hk'
    obtain ⟨z, hz, rfl⟩ := z4 k hk'
    obtain ⟨_, g2, g3⟩ := z3 z hz
    exact ⟨z.2.1, z.2.2, g2, g3, h z hz⟩
  · intro h z hz
    obtain ⟨g1, g2, g3⟩ := z3 z hz
    obtain ⟨v1, v2, e1, e2, he⟩ := h z.1 g1
    rw [g2] at e1; rw [g3] at e2
    simp only [zl, zr, Option.some.injEq, Prod.mk.injEq, true_and] at e1 e2
    rw [e1, e2]; exact he


/-! ### the hypothesis of the list case: present key fields are scalars -/

/-- the key fields an item of a keyed list carries are scalars -/
def itemKeysScalar (keys : List String) : Value → Bool
  | .map m => keys.all fun k => match lookupField k m with | some v => v.isScalar | none => true
  | _ => true

mutual
/-- in every keyed list visited by the typed walkers (atomic nodes are leaves), the key fields the
items carry are scalars -/
def keysScalar (s : Schema) (tr : TypeRef) : Value → Bool
  | .list l =>
    match resolveKind s tr (some (.list l)) with
    | some (.list t) => t.rel == "atomic" || keysScalarItems s t l
    | _ => true
  | .map m =>
    match resolveKind s tr (some (.map m)) with
    | some (.map t) => t.rel == "atomic" || keysScalarFields s t m
    | _ => true
  | _ => true
def keysScalarItems (s : Schema) (t : ListT) : List Value → Bool
  | [] => true
  | v :: vs => itemKeysScalar t.keys v && keysScalar s t.elementType v && keysScalarItems s t vs
def keysScalarFields (s : Schema) (t : MapT) : List (String × Value) → Bool
  | [] => true
  | (k, v) :: rest => keysScalar s (fieldType t k) v && keysScalarFields s t rest
end

theorem keysScalarItems_mem (s : Schema) (t : ListT) :
    ∀ (l : List Value), keysScalarItems s t l = true →
      ∀ c ∈ l, itemKeysScalar t.keys c = true ∧ keysScalar s t.elementType c = true
  | [], _, c, hc => by cases hc
  | v :: vs, h, c, hc => by
    simp only [keysScalarItems, Bool.and_eq_true] at h
    rcases List.mem_cons.1 hc with rfl | hc
    · exact h.1
    · exact keysScalarItems_mem s t vs h.2 c hc

theorem keysScalarFields_mem (s : Schema) (t : MapT) :
    ∀ (m : List (String × Value)), keysScalarFields s t m = true →
      ∀ x ∈ m, keysScalar s (fieldType t x.1) x.2 = true
  | [], _, c, hc => by cases hc
  | (k, v) :: vs, h, c, hc => by
    simp only [keysScalarFields, Bool.and_eq_true] at h
    rcases List.mem_cons.1 hc with rfl | hc
    · exact h.1
    · exact keysScalarFields_mem s t vs h.2 c hc

theorem itemKeysScalar_lookup (keys : List String) (m : List (String × Value)) (k : String) (v : Value)
    (h : itemKeysScalar keys (.map m) = true) (hk : k ∈ keys) (hv : lookupField k m = some v) :
    v.isScalar = true := by
  simp only [itemKeysScalar, List.all_eq_true] at h
  have := h k hk
  rw [hv] at this
  exact this

theorem mergeNode_none_none (s : Schema) (fuel : Nat) (tr : TypeRef) (o : Option Value) :
    mergeNode s fuel none none tr ≠ .ok o := by
  cases fuel with
  | zero => intro h; cases h
  | succ n => rw [mergeNode_succ]; simp

/-! ### merging keeps the identity of a list item -/

theorem identity_not_map (s : Schema) (t : ListT) (hk : t.keys.isEmpty = false) (w : Value) (p : PE)
    (h : Conf.identity s t w = some p) : ∃ m, w = .map m := by
  cases w <;> simp [Conf.identity, hk] at h
  exact ⟨_, rfl⟩

theorem identity_set (s : Schema) (t : ListT) (hk : t.keys.isEmpty = true) (w : Value) (p : PE)
    (h : Conf.identity s t w = some p) : w.isScalar = true ∧ p = .value w := by
  simp only [Conf.identity, hk, if_true] at h
  split at h
  · next hs => cases h; exact ⟨hs, rfl⟩
  · cases h

theorem identity_of_listItemToPE (s : Schema) (t : ListT) (v : Value) (pe : PE) (hrel : t.rel = "associative")
    (h : listItemToPE s t v = .ok pe) : Conf.identity s t v = some pe := by
  rw [listItemToPE_eq s t v hrel] at h
  split at h
  · next id hid => cases h; exact hid
  · cases h

/-! ### canonical values are stable under merging -/

theorem canon_of_isScalar (v : Value) (h : v.isScalar = true) : canon v = true := by
  cases v <;> simp_all [Value.isScalar, canon]

theorem canonList_asList (v : Value) (h : canon v = true) : canonList ((asList (some v)).getD []) = true := by
  cases v <;> simp_all [asList, canon, canonList]

theorem canon_asMap (v : Value) (h : canon v = true) :
    keysAsc ((asMap (some v)).getD []) = true ∧ canonFields ((asMap (some v)).getD []) = true := by
  cases v <;> simp_all [asMap, canon, canonFields, keysAsc]

theorem asList_eq_of_nonempty (v : Value) (h : emptyOrAbsent (asList (some v)) = false) :
    v = .list ((asList (some v)).getD []) := by
  cases v <;> simp_all [asList, emptyOrAbsent]

theorem asMap_eq_of_nonempty (v : Value) (h : emptyOrAbsent (asMap (some v)) = false) :
    v = .map ((asMap (some v)).getD []) := by
  cases v <;> simp_all [asMap, emptyOrAbsent]

theorem lookupField_of_mem_asc {m : List (String × Value)} (hasc : keysAsc m = true) {k : String} {v : Value}
    (h : (k, v) ∈ m) : lookupField k m = some v := by
  have hpw := keysAsc_pairwise m hasc
  obtain ⟨p, rest, rfl⟩ := List.append_of_mem h
  apply lookupField_append_of_lt
  intro x hx
  rw [List.pairwise_append] at hpw
  exact hpw.2.2 x hx (k, v) List.mem_cons_self

/-- the value of a successful merge (`null` otherwise) -/
def resVal : Res (Option Value) → Value
  | .ok (some v) => v
  | _ => .null

/-- merging a canonical value with nothing gives the value back -/
theorem merge_canon_left (s : Schema) : ∀ (fuel : Nat) (w : Value) (tr : TypeRef) (o : Option Value),
    canon w = true → mergeNode s fuel (some w) none tr = .ok o → o = some w := by
  intro fuel
  induction fuel with
  | zero => intro w tr o _ h; cases h
  | succ n ih =>
    intro w tr o hc h
    obtain ⟨n', a, hf, hres, hh⟩ := mergeNode_none_right s _ w tr o h
    cases hf
    cases hk : atomKind (deduceAtom a (some w)) with
    | invalid => unfold mergeHandle at hh; rw [hk] at hh; cases hh
    | scalar t => exact mergeHandle_scalar s _ _ _ _ t hk o hh
    | list t =>
      rcases mergeHandle_list s _ _ _ _ t hk o hh with h1 | ⟨rpes, obsR, lpes, obsL, res, hir, hil, hloop, hcnd, hna, h2⟩
      · exact h1
      · have hsome := mergeNode_isSome s _ _ _ _ _ h
        rcases h2 with ⟨_, ho⟩ | ⟨_, ho⟩
        · subst ho; cases hsome
        · subst ho
          simp only [asList, Option.getD_none, indexPEs, List.reverse_nil, Res.ok.injEq, Prod.mk.injEq] at hir
          obtain ⟨rfl, rfl⟩ := hir
          have hne : emptyOrAbsent (asList (some w)) = false := by
            simpa [emptyOrAbsent, asList] using hcnd
          have hw := asList_eq_of_nonempty w hne
          generalize hll : (asList (some w)).getD [] = ll at hil hw
          obtain ⟨newl, el, hl2, hl3, _, hl5⟩ := mn_indexPEs_spec s t true ll [] [] lpes obsL hil
          simp only [List.reverse_nil, List.nil_append] at el
          subst el
          have hcl : canonList ll = true := by rw [← hll]; exact canonList_asList w hc
          obtain ⟨_, _, _, m4⟩ := mergeLoop_spec _ _ _ _ _ _ _ _ _ _ hloop
          have hitem : ∀ p ∈ lpes, mergeNode s n (some p.2) none t.elementType = .ok (some p.2) := by
            intro p hp
            obtain ⟨o', ho', _⟩ := m4 rfl rfl p hp
            have hpl : p.2 ∈ ll := by rw [← hl2]; exact List.mem_map_of_mem hp
            rw [ho', ih p.2 _ o' (canonList_mem ll hcl _ hpl) ho']
          simp only [List.map_nil, List.filter_nil, List.length_nil, Nat.add_zero] at hloop
          rw [mergeLoop_left_only _ obsL lpes lpes.length [] [] hitem (Nat.le_refl _)] at hloop
          simp only [List.reverse_nil, List.nil_append, Res.ok.injEq] at hloop
          rw [← hloop, hl2, ← hw]
    | map t =>
      rcases mergeHandle_map s _ _ _ _ t hk o hh with h1 | ⟨outm, hf, hcnd, hna, h2⟩
      · exact h1
      · have hsome := mergeNode_isSome s _ _ _ _ _ h
        rcases h2 with ⟨_, ho⟩ | ⟨_, ho⟩
        · subst ho; cases hsome
        · subst ho
          have hne : emptyOrAbsent (asMap (some w)) = false := by
            simpa [emptyOrAbsent, asMap] using hcnd
          have hw := asMap_eq_of_nonempty w hne
          obtain ⟨hasc, hcf⟩ := canon_asMap w hc
          generalize hlf : (asMap (some w)).getD [] = lf at hf hw hasc hcf
          simp only [asMap, Option.getD_none] at hf
          have hz : zipKeys lf [] = lf.map (·.1) := by simp [zipKeys]
          rw [hz] at hf
          obtain ⟨_, _, h3⟩ := foldl_mergeMapStep_spec _ t _ _ _ _ _ hf
          have hpw := keysAsc_pairwise lf hasc
          have hcopy := mergeMapStep_foldl_copy (mergeNode s n) t lf lf [] (by
            intro p k v rest hm
            have hmem : (k, v) ∈ lf := by rw [hm]; simp
            obtain ⟨o', ho', _⟩ := h3 k (List.mem_map.2 ⟨(k, v), hmem, rfl⟩)
            rw [lookupField_of_mem_asc hasc hmem] at ho' ⊢
            rw [ho', ih v _ o' (canonFields_mem lf hcf _ hmem) ho']) hpw lf [] rfl
          rw [hcopy] at hf
          cases hf
          rw [← hw]

theorem mergeNode_none_left (s : Schema) (fuel : Nat) (r : Value) (tr : TypeRef) (a : Atom)
    (hres : s.resolve tr = some a) :
    mergeNode s (fuel + 1) none (some r) tr = mergeHandle s (mergeNode s fuel) none (some r) (deduceAtom a (some r)) := by
  rw [mergeNode_succ]
  simp [hres]

/-- merging nothing with a canonical value gives the value back -/
theorem merge_canon_right (s : Schema) : ∀ (fuel : Nat) (v : Value) (tr : TypeRef) (o : Option Value),
    canon v = true → mergeNode s fuel none (some v) tr = .ok o → o = some v := by
  intro fuel
  induction fuel with
  | zero => intro w tr o _ h; cases h
  | succ n ih =>
    intro v tr o hc h
    obtain ⟨n', a, hf, hres, hh⟩ := mergeNode_some_right s _ none v tr o h
    cases hf
    cases hk : atomKind (deduceAtom a (some v)) with
    | invalid => unfold mergeHandle at hh; rw [hk] at hh; cases hh
    | scalar t => exact mergeHandle_scalar s _ _ _ _ t hk o hh
    | list t =>
      rcases mergeHandle_list s _ _ _ _ t hk o hh with h1 | ⟨rpes, obsR, lpes, obsL, res, hir, hil, hloop, hcnd, hna, h2⟩
      · exact h1
      · have hsome := mergeNode_isSome s _ _ _ _ _ h
        rcases h2 with ⟨_, ho⟩ | ⟨_, ho⟩
        · subst ho; cases hsome
        · subst ho
          simp only [asList, Option.getD_none, indexPEs, List.reverse_nil, Res.ok.injEq, Prod.mk.injEq] at hil
          obtain ⟨rfl, rfl⟩ := hil
          have hne : emptyOrAbsent (asList (some v)) = false := by
            simpa [emptyOrAbsent, asList] using hcnd
          have hw := asList_eq_of_nonempty v hne
          generalize hll : (asList (some v)).getD [] = rl at hir hw
          obtain ⟨newr, er, hr2, hr3, hr4, hr5⟩ := mn_indexPEs_spec s t false rl [] [] rpes obsR hir
          simp only [List.reverse_nil, List.nil_append] at er
          subst er
          obtain ⟨hr4a, _⟩ := hr4 rfl
          have hcl : canonList rl = true := by rw [← hll]; exact canonList_asList v hc
          obtain ⟨_, _, m3, _⟩ := mergeLoop_spec _ _ _ _ _ _ _ _ _ _ hloop
          have hitem : ∀ p ∈ rpes, mergeNode s n none (pemGet p.1 obsR) t.elementType = .ok (some p.2) := by
            intro p hp
            obtain ⟨pe, o', he, ho', _⟩ := m3 p.1 (List.mem_map_of_mem hp)
            have hpl : p.2 ∈ rl := by rw [← hr2]; exact List.mem_map_of_mem hp
            simp only [pemGet] at ho'
            rw [pemGet_congr he] at ho'
            rw [ho']
            rw [hr4a p hp] at ho'
            rw [ih p.2 _ o' (canonList_mem rl hcl _ hpl) ho']
          simp only [pemGet, Option.isSome_none, filter_const_false, List.length_nil, Nat.zero_add,
            List.length_map, Bool.false_eq_true] at hloop
          rw [mergeLoop_right_only _ obsR rpes rpes.length [] [] hitem (Nat.le_refl _)] at hloop
          simp only [List.reverse_nil, List.nil_append, Res.ok.injEq] at hloop
          rw [← hloop, hr2, ← hw]
    | map t =>
      rcases mergeHandle_map s _ _ _ _ t hk o hh with h1 | ⟨outm, hf, hcnd, hna, h2⟩
      · exact h1
      · have hsome := mergeNode_isSome s _ _ _ _ _ h
        rcases h2 with ⟨_, ho⟩ | ⟨_, ho⟩
        · subst ho; cases hsome
        · subst ho
          have hne : emptyOrAbsent (asMap (some v)) = false := by
            simpa [emptyOrAbsent, asMap] using hcnd
          have hw := asMap_eq_of_nonempty v hne
          obtain ⟨hasc, hcf⟩ := canon_asMap v hc
          generalize hlf : (asMap (some v)).getD [] = rf at hf hw hasc hcf
          simp only [asMap, Option.getD_none] at hf
          have hz : zipKeys [] rf = rf.map (·.1) := by simp [zipKeys, lookupField, filter_const_true]
          rw [hz] at hf
          obtain ⟨_, _, h3⟩ := foldl_mergeMapStep_spec _ t _ _ _ _ _ hf
          have hpw := keysAsc_pairwise rf hasc
          have hcopy := mergeMapStep_foldl_copy (mergeNode s n) t rf [] rf (by
            intro p k w rest hm
            have hmem : (k, w) ∈ rf := by rw [hm]; simp
            obtain ⟨o', ho', _⟩ := h3 k (List.mem_map.2 ⟨(k, w), hmem, rfl⟩)
            rw [lookupField_of_mem_asc hasc hmem] at ho' ⊢
            rw [ho', ih w _ o' (canonFields_mem rf hcf _ hmem) ho']) hpw rf [] rfl
          rw [hcopy] at hf
          cases hf
          rw [← hw]

theorem mergeHandle_null_left (s : Schema) (rec : MergeRec) (r : Value) (atom : Atom) :
    mergeHandle s rec (some .null) (some r) atom = mergeHandle s rec none (some r) atom := by
  unfold mergeHandle
  cases atomKind atom <;> rfl

/-- the interleaving loop on two lists whose elements are equal position by position: every step merges
the two heads -/
theorem mergeLoop_aligned {α : Type} (item : PE → Option Value → Option Value → Res (Option Value))
    (obsL obsR : List (PE × Value)) (pl pr : α → PE) (vl : α → Value)
    (hsome : ∀ pe lc rc o, item pe lc rc = .ok o → o.isSome = true) :
    ∀ (Z : List α) (steps : Nat) (shared merged : List PE) (out res : List Value),
      (∀ z ∈ Z, PE.equals (pl z) (pr z) = true) → Z.length ≤ steps →
      mergeLoop item obsL obsR steps (Z.map fun z => (pl z, vl z)) (Z.map pr) shared merged out = .ok res →
      res = out.reverse ++ Z.map (fun z => resVal (item (pl z) (pemGet (pl z) obsL) (pemGet (pl z) obsR))) ∧
        ∀ z ∈ Z, ∃ v, item (pl z) (pemGet (pl z) obsL) (pemGet (pl z) obsR) = .ok (some v) := by
  intro Z
  induction Z with
  | nil =>
    intro steps shared merged out res _ _ h
    simp only [List.map_nil, mergeLoop_nil, Res.ok.injEq] at h
    subst h
    simp
  | cons z Z ih =>
    intro steps shared merged out res hz hsteps h
    cases steps with
    | zero => simp at hsteps
    | succ k =>
      simp only [List.map_cons] at h
      rw [mergeLoop] at h
      simp only [hz z List.mem_cons_self, if_true] at h
      split at h
      · next o ho =>
        have hs := hsome _ _ _ _ ho
        cases o with
        | none => cases hs
        | some v =>
          obtain ⟨h1, h2⟩ := ih k _ _ _ res (fun z' hz' => hz z' (List.mem_cons_of_mem _ hz')) (by simpa using hsteps) h
          refine ⟨?_, ?_⟩
          · rw [h1]; simp [ho, resVal]
          · intro z' hz'
            rcases List.mem_cons.1 hz' with rfl | hz'
            · exact ⟨v, ho⟩
            · exact h2 z' hz'
      · cases h
      · cases h


/-! ### values equal position by position -/

theorem equalsList_unzip : ∀ (a b : List Value), Value.equalsList a b = true →
    ∃ Z : List (Value × Value), a = Z.map (·.1) ∧ b = Z.map (·.2) ∧ ∀ z ∈ Z, Value.equals z.1 z.2 = true
  | [], [], _ => ⟨[], rfl, rfl, by simp⟩
  | [], _ :: _, h => by simp [Value.equalsList] at h
  | _ :: _, [], h => by simp [Value.equalsList] at h
  | x :: xs, y :: ys, h => by
    simp only [Value.equalsList, Bool.and_eq_true] at h
    obtain ⟨Z, h1, h2, h3⟩ := equalsList_unzip xs ys h.2
    exact ⟨(x, y) :: Z, by simp [h1], by simp [h2], by
      intro z hz
      rcases List.mem_cons.1 hz with rfl | hz
      · exact h.1
      · exact h3 z hz⟩

theorem equalsList_map {α : Type} (f g : α → Value) : ∀ Z : List α,
    (∀ z ∈ Z, Value.equals (f z) (g z) = true) → Value.equalsList (Z.map f) (Z.map g) = true
  | [], _ => by simp [Value.equalsList]
  | z :: Z, h => by
    simp only [List.map_cons, Value.equalsList, Bool.and_eq_true]
    exact ⟨h z List.mem_cons_self, equalsList_map f g Z (fun z' hz' => h z' (List.mem_cons_of_mem _ hz'))⟩

theorem equalsFields_unzip : ∀ (a b : List (String × Value)), Value.equalsFields a b = true →
    ∃ Z : List ZEntry, a = Z.map zl ∧ b = Z.map zr ∧ ∀ z ∈ Z, Value.equals z.2.1 z.2.2 = true
  | [], [], _ => ⟨[], rfl, rfl, by simp⟩
  | [], _ :: _, h => by simp [Value.equalsFields] at h
  | _ :: _, [], h => by simp [Value.equalsFields] at h
  | (k, v) :: xs, (k', v') :: ys, h => by
    simp only [Value.equalsFields, Bool.and_eq_true, beq_iff_eq] at h
    obtain ⟨⟨rfl, hv⟩, hr⟩ := h
    obtain ⟨Z, h1, h2, h3⟩ := equalsFields_unzip xs ys hr
    exact ⟨(k, v, v') :: Z, by simp [h1, zl], by simp [h2, zr], by
      intro z hz
      rcases List.mem_cons.1 hz with rfl | hz
      · exact hv
      · exact h3 z hz⟩

theorem equalsFields_map {α : Type} (k : α → String) (f g : α → Value) : ∀ Z : List α,
    (∀ z ∈ Z, Value.equals (f z) (g z) = true) →
      Value.equalsFields (Z.map fun z => (k z, f z)) (Z.map fun z => (k z, g z)) = true
  | [], _ => by simp [Value.equalsFields]
  | z :: Z, h => by
    simp only [List.map_cons, Value.equalsFields, Bool.and_eq_true, beq_self_eq_true, true_and]
    exact ⟨h z List.mem_cons_self, equalsFields_map k f g Z (fun z' hz' => h z' (List.mem_cons_of_mem _ hz'))⟩

/-- lookups in two entry lists with the same keys -/
theorem lookupField_zip (k : String) : ∀ Z : List ZEntry,
    (lookupField k (Z.map zl) = none ∧ lookupField k (Z.map zr) = none) ∨
      ∃ z ∈ Z, z.1 = k ∧ lookupField k (Z.map zl) = some z.2.1 ∧ lookupField k (Z.map zr) = some z.2.2
  | [] => .inl ⟨rfl, rfl⟩
  | z :: Z => by
    simp only [List.map_cons, zl, zr, lookupField]
    by_cases hk : (k == z.1) = true
    · simp only [hk, if_true]
      exact .inr ⟨z, List.mem_cons_self, (beq_iff_eq.1 hk).symm, rfl, rfl⟩
    · simp only [hk, if_false, Bool.false_eq_true]
      rcases lookupField_zip k Z with h | ⟨z', hz', h⟩
      · exact .inl h
      · exact .inr ⟨z', List.mem_cons_of_mem _ hz', h⟩

/-- equal items have equal identities -/
theorem identity_equals_congr (s : Schema) (t : ListT) (a b : Value) (pa pb : PE)
    (h : Value.equals a b = true) (ha : Conf.identity s t a = some pa) (hb : Conf.identity s t b = some pb) :
    PE.equals pa pb = true := by
  cases hk : t.keys.isEmpty with
  | true =>
    obtain ⟨_, rfl⟩ := identity_set s t hk a pa ha
    obtain ⟨_, rfl⟩ := identity_set s t hk b pb hb
    exact h
  | false =>
    obtain ⟨m1, rfl⟩ := identity_not_map s t hk a pa ha
    obtain ⟨m2, rfl⟩ := identity_not_map s t hk b pb hb
    simp only [Value.equals] at h
    obtain ⟨Z, rfl, rfl, hZ⟩ := equalsFields_unzip m1 m2 h
    rw [identity_keyed_equals s t _ _ hk pa pb ha hb]
    intro k hkm
    have h1 := ((identity_keyed_some s t _ hk pa).1 ha).1 k hkm
    rcases lookupField_zip k Z with ⟨e1, e2⟩ | ⟨z, hz, rfl, e1, e2⟩
    · obtain ⟨e, he⟩ := Option.isSome_iff_exists.1 h1
      have hfst := keyVal_fst s t _ k e he
      obtain ⟨ek, ev⟩ := e
      simp only [] at hfst
      subst hfst
      refine ⟨ev, ev, he, ?_, Value.equals_refl _⟩
      rw [← keyVal_of_lookup_none s t _ _ ek e1 e2]; exact he
    · exact ⟨_, _, keyVal_of_lookup_some s t _ _ _ e1, keyVal_of_lookup_some s t _ _ _ e2, hZ z hz⟩


theorem equalsList_asList (w r : Value) (h : Value.equals w r = true) :
    Value.equalsList ((asList (some w)).getD []) ((asList (some r)).getD []) = true := by
  cases w <;> cases r <;> simp_all [Value.equals, asList, Value.equalsList]

theorem equalsFields_asMap (w r : Value) (h : Value.equals w r = true) :
    Value.equalsFields ((asMap (some w)).getD []) ((asMap (some r)).getD []) = true := by
  cases w <;> cases r <;> simp_all [Value.equals, asMap, Value.equalsFields]

theorem emptyOrAbsent_of_getD_nil {α : Type} (x : Option (List α)) (h : x.getD [] = []) : emptyOrAbsent x = true := by
  cases x <;> simp_all [emptyOrAbsent]

/-- the path element `listItemToPE` gives (`invalid` when it fails) -/
def peOf' (s : Schema) (t : ListT) (c : Value) : PE :=
  match listItemToPE s t c with | .ok pe => pe | _ => .invalid

theorem pes_eq_map (s : Schema) (t : ListT) : ∀ ps : List (PE × Value),
    (∀ p ∈ ps, listItemToPE s t p.2 = .ok p.1) → ps = (ps.map (·.2)).map (fun c => (peOf' s t c, c))
  | [], _ => rfl
  | p :: ps, h => by
    have hp := h p List.mem_cons_self
    have ih := pes_eq_map s t ps (fun q hq => h q (List.mem_cons_of_mem _ hq))
    simp only [List.map_cons]
    rw [← ih]
    simp [peOf', hp]

theorem listItemToPE_rel (s : Schema) (t : ListT) (c : Value) (pe : PE) (h : listItemToPE s t c = .ok pe) :
    t.rel = "associative" := by
  unfold listItemToPE at h
  split at h
  · cases h
  · next hne => simpa using hne

theorem zipKeys_zip (Z : List ZEntry) : zipKeys (Z.map zl) (Z.map zr) = Z.map (·.1) := by
  unfold zipKeys
  have : (Z.map zr).filter (fun kv => (lookupField kv.1 (Z.map zl)).isNone) = [] := by
    rw [List.filter_eq_nil_iff]
    intro x hx
    obtain ⟨z, hz, rfl⟩ := List.mem_map.1 hx
    have := mn_lookupField_isSome_of_mem z.1 z.2.1 (Z.map zl) (List.mem_map.2 ⟨z, hz, rfl⟩)
    simp only [zr]
    cases hl : lookupField z.1 (Z.map zl) <;> simp_all
  rw [this]
  simp [List.map_map, zl]

/-- what may stand on the left of a canonical value for the merge to give an equal value back: nothing, an
explicit null, or an equal canonical value -/
def StableLeft (lo : Option Value) (r : Value) : Prop :=
  ∀ w, lo = some w → w = .null ∨ (canon w = true ∧ Value.equals w r = true)

/-- merging a canonical value over an equal canonical value (or over nothing) gives an equal value -/
theorem merge_canon_equal (s : Schema) : ∀ (fuel : Nat) (lo : Option Value) (r : Value) (tr : TypeRef)
    (o : Option Value), StableLeft lo r → canon r = true → mergeNode s fuel lo (some r) tr = .ok o →
    ∃ o', o = some o' ∧ Value.equals o' r = true := by
  intro fuel
  induction fuel with
  | zero => intro lo r tr o _ _ h; cases h
  | succ n ih =>
    intro lo r tr o hlo hcr h
    obtain ⟨n', a, hf, hres, hh⟩ := mergeNode_some_right s _ lo r tr o h
    cases hf
    have hnone : ∀ o, mergeNode s (n + 1) none (some r) tr = .ok o → ∃ o', o = some o' ∧ Value.equals o' r = true := by
      intro o h
      exact ⟨r, merge_canon_right s _ r tr o hcr h, Value.equals_refl _⟩
    cases lo with
    | none => exact hnone o h
    | some w =>
      rcases hlo w rfl with rfl | ⟨hcw, hwr⟩
      · rw [mergeHandle_null_left, ← mergeNode_none_left s n r tr a hres] at hh
        exact hnone o hh
      · have hsome := mergeNode_isSome s _ _ _ _ _ h
        cases hk : atomKind (deduceAtom a (some r)) with
        | invalid => unfold mergeHandle at hh; rw [hk] at hh; cases hh
        | scalar t => exact ⟨r, mergeHandle_scalar s _ _ _ _ t hk o hh, Value.equals_refl _⟩
        | list t =>
          rcases mergeHandle_list s _ _ _ _ t hk o hh with h1 | ⟨rpes, obsR, lpes, obsL, res, hir, hil, hloop, hcnd, hna, h2⟩
          · exact ⟨r, h1, Value.equals_refl _⟩
          · rcases h2 with ⟨_, ho⟩ | ⟨_, ho⟩
            · subst ho; cases hsome
            · subst ho
              have heq := equalsList_asList w r hwr
              have hcl := canonList_asList w hcw
              have hcrl := canonList_asList r hcr
              have hr : r = .list ((asList (some r)).getD []) := by
                apply asList_eq_of_nonempty
                cases he : emptyOrAbsent (asList (some r)) with
                | false => rfl
                | true =>
                  exfalso
                  have hrl : (asList (some r)).getD [] = [] := by
                    cases r <;> simp_all [asList, emptyOrAbsent]
                  rw [hrl] at heq
                  have hll : (asList (some w)).getD [] = [] := by
                    cases hx : (asList (some w)).getD [] with
                    | nil => rfl
                    | cons x xs => rw [hx] at heq; simp [Value.equalsList] at heq
                  rw [emptyOrAbsent_of_getD_nil _ hll, he] at hcnd
                  cases hcnd
              generalize (asList (some w)).getD [] = ll at hil heq hcl
              generalize (asList (some r)).getD [] = rl at hir heq hcrl hr
              obtain ⟨Z, rfl, rfl, hZ⟩ := equalsList_unzip ll rl heq
              obtain ⟨newr, er, hr2, hr3, hr4, hr5⟩ := mn_indexPEs_spec s t false _ [] [] rpes obsR hir
              simp only [List.reverse_nil, List.nil_append] at er
              subst er
              obtain ⟨hr4a, _⟩ := hr4 rfl
              obtain ⟨newl, el, hl2, hl3, _, hl5⟩ := mn_indexPEs_spec s t true _ [] [] lpes obsL hil
              simp only [List.reverse_nil, List.nil_append] at el
              subst el
              have hlp := pes_eq_map s t lpes hl3
              have hrp := pes_eq_map s t rpes hr3
              rw [hl2, List.map_map] at hlp
              rw [hr2, List.map_map] at hrp
              have hzl : ∀ z ∈ Z, listItemToPE s t z.1 = .ok (peOf' s t z.1) := by
                intro z hz
                have : (peOf' s t z.1, z.1) ∈ lpes := by rw [hlp]; exact List.mem_map.2 ⟨z, hz, rfl⟩
                exact hl3 _ this
              have hzr : ∀ z ∈ Z, listItemToPE s t z.2 = .ok (peOf' s t z.2) ∧ (peOf' s t z.2, z.2) ∈ rpes := by
                intro z hz
                have : (peOf' s t z.2, z.2) ∈ rpes := by rw [hrp]; exact List.mem_map.2 ⟨z, hz, rfl⟩
                exact ⟨hr3 _ this, this⟩
              have hzeq : ∀ z ∈ Z, PE.equals (peOf' s t z.1) (peOf' s t z.2) = true := by
                intro z hz
                have hrel := listItemToPE_rel s t _ _ (hzl z hz)
                exact identity_equals_congr s t z.1 z.2 _ _ (hZ z hz)
                  (identity_of_listItemToPE s t _ _ hrel (hzl z hz))
                  (identity_of_listItemToPE s t _ _ hrel (hzr z hz).1)
              have hgetR : ∀ z ∈ Z, pemGet (peOf' s t z.1) obsR = some z.2 := by
                intro z hz
                rw [pemGet_congr (hzeq z hz)]
                exact hr4a _ (hzr z hz).2
              have hrs : rpes.map (·.1) = Z.map (fun z => peOf' s t z.2) := by
                rw [hrp, List.map_map]; rfl
              rw [hrs, hlp] at hloop
              obtain ⟨hres', hall⟩ := mergeLoop_aligned _ obsL obsR (fun z : Value × Value => peOf' s t z.1)
                (fun z => peOf' s t z.2) (fun z => z.1)
                (fun pe lc rc o ho => mergeNode_isSome s _ _ _ _ _ ho) Z _ _ _ _ _ hzeq
                (by simp) hloop
              simp only [List.reverse_nil, List.nil_append] at hres'
              refine ⟨_, rfl, ?_⟩
              rw [hr, hres']
              simp only [Value.equals]
              apply equalsList_map
              intro z hz
              obtain ⟨v, hv⟩ := hall z hz
              simp only [hv, resVal]
              rw [hgetR z hz] at hv
              obtain ⟨o', ho', he'⟩ := ih _ z.2 _ _ (by
                intro w' hw'
                rcases hl5 _ w' hw' with h0 | h0 | ⟨p, hp, hpe, hpw⟩
                · exact .inl h0
                · simp [pemGet] at h0
                · right
                  rw [hlp] at hp
                  obtain ⟨z', hz', rfl⟩ := List.mem_map.1 hp
                  subst hpw
                  have h1 : PE.equals (peOf' s t z'.2) (peOf' s t z.2) = true :=
                    PE.equals_trans (PE.equals_symm_of (hzeq z' hz')) (PE.equals_trans hpe (hzeq z hz))
                  have h2 := hr4a _ (hzr z' hz').2
                  rw [pemGet_congr h1, hr4a _ (hzr z hz).2] at h2
                  simp only [Option.some.injEq] at h2
                  refine ⟨canonList_mem _ hcl _ (List.mem_map.2 ⟨z', hz', rfl⟩), ?_⟩
                  rw [h2]; exact hZ z' hz') (canonList_mem _ hcrl _ (List.mem_map.2 ⟨z, hz, rfl⟩)) hv
              cases ho'
              exact he'
        | map t =>
          rcases mergeHandle_map s _ _ _ _ t hk o hh with h1 | ⟨outm, hf, hcnd, hna, h2⟩
          · exact ⟨r, h1, Value.equals_refl _⟩
          · rcases h2 with ⟨_, ho⟩ | ⟨_, ho⟩
            · subst ho; cases hsome
            · subst ho
              have heq := equalsFields_asMap w r hwr
              obtain ⟨hascl, hcfl⟩ := canon_asMap w hcw
              obtain ⟨hascr, hcfr⟩ := canon_asMap r hcr
              have hr : r = .map ((asMap (some r)).getD []) := by
                apply asMap_eq_of_nonempty
                cases he : emptyOrAbsent (asMap (some r)) with
                | false => rfl
                | true =>
                  exfalso
                  have hrl : (asMap (some r)).getD [] = [] := by
                    cases r <;> simp_all [asMap, emptyOrAbsent]
                  rw [hrl] at heq
                  have hll : (asMap (some w)).getD [] = [] := by
                    cases hx : (asMap (some w)).getD [] with
                    | nil => rfl
                    | cons x xs => rw [hx] at heq; simp [Value.equalsFields] at heq
                  rw [emptyOrAbsent_of_getD_nil _ hll, he] at hcnd
                  cases hcnd
              generalize (asMap (some w)).getD [] = lf at hf heq hascl hcfl
              generalize (asMap (some r)).getD [] = rf at hf heq hascr hcfr hr
              obtain ⟨Z, rfl, rfl, hZ⟩ := equalsFields_unzip lf rf heq
              rw [zipKeys_zip] at hf
              obtain ⟨_, _, h3⟩ := foldl_mergeMapStep_spec _ t _ _ _ _ _ hf
              have hlookl : ∀ z ∈ Z, lookupField z.1 (Z.map zl) = some z.2.1 := fun z hz =>
                lookupField_of_mem_asc hascl (List.mem_map.2 ⟨z, hz, rfl⟩)
              have hlookr : ∀ z ∈ Z, lookupField z.1 (Z.map zr) = some z.2.2 := fun z hz =>
                lookupField_of_mem_asc hascr (List.mem_map.2 ⟨z, hz, rfl⟩)
              have hrec : ∀ z ∈ Z, ∃ v, mergeNode s n (some z.2.1) (some z.2.2) (fieldType t z.1) = .ok (some v) ∧
                  Value.equals v z.2.2 = true := by
                intro z hz
                obtain ⟨o', ho', _⟩ := h3 z.1 (List.mem_map.2 ⟨z, hz, rfl⟩)
                rw [hlookl z hz, hlookr z hz] at ho'
                obtain ⟨v, rfl, hv⟩ := ih _ z.2.2 _ _ (by
                  intro w' hw'
                  cases hw'
                  exact .inr ⟨canonFields_mem _ hcfl _ (List.mem_map.2 ⟨z, hz, rfl⟩), hZ z hz⟩)
                  (canonFields_mem _ hcfr _ (List.mem_map.2 ⟨z, hz, rfl⟩)) ho'
                exact ⟨v, ho', hv⟩
              let g : ZEntry → Value := fun z => resVal (mergeNode s n (some z.2.1) (some z.2.2) (fieldType t z.1))
              have hcopy := mergeMapStep_foldl_copy (mergeNode s n) t (Z.map fun z => (z.1, g z)) (Z.map zl) (Z.map zr) (by
                intro p k v rest hm
                have hmem : (k, v) ∈ Z.map fun z => (z.1, g z) := by rw [hm]; simp
                obtain ⟨z, hz, he⟩ := List.mem_map.1 hmem
                simp only [Prod.mk.injEq] at he
                obtain ⟨rfl, rfl⟩ := he
                obtain ⟨v, hv, _⟩ := hrec z hz
                rw [hlookl z hz, hlookr z hz]
                simp only [g, hv, resVal]) (by
                have := keysAsc_pairwise _ hascl
                rw [List.pairwise_map] at this ⊢
                exact this) _ [] rfl
              simp only [List.map_map] at hcopy
              rw [show ((fun x : String × Value => x.1) ∘ fun z : ZEntry => (z.1, g z)) = (fun z : ZEntry => z.1) from rfl] at hcopy
              rw [hcopy] at hf
              cases hf
              refine ⟨_, rfl, ?_⟩
              rw [hr]
              simp only [Value.equals]
              apply equalsFields_map (fun z : ZEntry => z.1) g (fun z => z.2.2)
              intro z hz
              obtain ⟨v, hv, he⟩ := hrec z hz
              simp only [g, hv, resVal]
              exact he

/-! ### the hypothesis of the list case, weakened: present key fields are canonical -/

/-- the key fields an item of a keyed list carries are canonical values (scalars are) -/
def itemKeysCanon (keys : List String) : Value → Bool
  | .map m => keys.all fun k => match lookupField k m with | some v => canon v | none => true
  | _ => true

theorem itemKeysCanon_lookup (keys : List String) (m : List (String × Value)) (k : String) (v : Value)
    (h : itemKeysCanon keys (.map m) = true) (hk : k ∈ keys) (hv : lookupField k m = some v) :
    canon v = true := by
  simp only [itemKeysCanon, List.all_eq_true] at h
  have := h k hk
  rw [hv] at this
  exact this

theorem itemKeysCanon_of_scalar (keys : List String) (v : Value) (h : itemKeysScalar keys v = true) :
    itemKeysCanon keys v = true := by
  cases v with
  | map m =>
    simp only [itemKeysScalar, itemKeysCanon, List.all_eq_true] at h ⊢
    intro k hk
    have := h k hk
    cases hw : lookupField k m with
    | none => rfl
    | some w => rw [hw] at this; exact canon_of_isScalar w this
  | _ => rfl

theorem itemKeysCanon_of_canon (keys : List String) (v : Value) (h : canon v = true) :
    itemKeysCanon keys v = true := by
  cases v with
  | map m =>
    simp only [canon, Bool.and_eq_true] at h
    simp only [itemKeysCanon, List.all_eq_true]
    intro k hk
    split
    · next w hw => exact canonFields_mem m h.2 (k, w) (mn_lookupField_mem k w m hw)
    · rfl
  | _ => rfl

mutual
/-- in every keyed list visited by the typed walkers (atomic nodes are leaves), the key fields the items
carry are canonical values: implied by `keysScalar` (whatever the value) and by `canon` (whatever the type) -/
def keysCanon (s : Schema) (tr : TypeRef) : Value → Bool
  | .list l =>
    match resolveKind s tr (some (.list l)) with
    | some (.list t) => t.rel == "atomic" || keysCanonItems s t l
    | _ => true
  | .map m =>
    match resolveKind s tr (some (.map m)) with
    | some (.map t) => t.rel == "atomic" || keysCanonFields s t m
    | _ => true
  | _ => true
def keysCanonItems (s : Schema) (t : ListT) : List Value → Bool
  | [] => true
  | v :: vs => itemKeysCanon t.keys v && keysCanon s t.elementType v && keysCanonItems s t vs
def keysCanonFields (s : Schema) (t : MapT) : List (String × Value) → Bool
  | [] => true
  | (k, v) :: rest => keysCanon s (fieldType t k) v && keysCanonFields s t rest
end

theorem keysCanonItems_mem (s : Schema) (t : ListT) :
    ∀ (l : List Value), keysCanonItems s t l = true →
      ∀ c ∈ l, itemKeysCanon t.keys c = true ∧ keysCanon s t.elementType c = true
  | [], _, c, hc => by cases hc
  | v :: vs, h, c, hc => by
    simp only [keysCanonItems, Bool.and_eq_true] at h
    rcases List.mem_cons.1 hc with rfl | hc
    · exact h.1
    · exact keysCanonItems_mem s t vs h.2 c hc

theorem keysCanonFields_mem (s : Schema) (t : MapT) :
    ∀ (m : List (String × Value)), keysCanonFields s t m = true →
      ∀ x ∈ m, keysCanon s (fieldType t x.1) x.2 = true
  | [], _, c, hc => by cases hc
  | (k, v) :: vs, h, c, hc => by
    simp only [keysCanonFields, Bool.and_eq_true] at h
    rcases List.mem_cons.1 hc with rfl | hc
    · exact h.1
    · exact keysCanonFields_mem s t vs h.2 c hc

mutual
/-- scalar key fields are canonical key fields -/
theorem keysCanon_of_scalar (s : Schema) : ∀ (v : Value) (tr : TypeRef), keysScalar s tr v = true → keysCanon s tr v = true
  | .list l, tr => by
    simp only [keysScalar, keysCanon]
    split
    · next t _ =>
      simp only [Bool.or_eq_true]
      rintro (h | h)
      · exact .inl h
      · exact .inr (keysCanonItems_of_scalar s l t h)
    · intro _; rfl
  | .map m, tr => by
    simp only [keysScalar, keysCanon]
    split
    · next t _ =>
      simp only [Bool.or_eq_true]
      rintro (h | h)
      · exact .inl h
      · exact .inr (keysCanonFields_of_scalar s m t h)
    · intro _; rfl
  | .null, _ => fun _ => rfl
  | .bool _, _ => fun _ => rfl
  | .int _, _ => fun _ => rfl
  | .float _ _, _ => fun _ => rfl
  | .str _, _ => fun _ => rfl
theorem keysCanonItems_of_scalar (s : Schema) : ∀ (l : List Value) (t : ListT),
    keysScalarItems s t l = true → keysCanonItems s t l = true
  | [], _ => fun _ => rfl
  | v :: vs, t => by
    simp only [keysScalarItems, keysCanonItems, Bool.and_eq_true]
    rintro ⟨⟨h1, h2⟩, h3⟩
    exact ⟨⟨itemKeysCanon_of_scalar _ _ h1, keysCanon_of_scalar s v _ h2⟩, keysCanonItems_of_scalar s vs t h3⟩
theorem keysCanonFields_of_scalar (s : Schema) : ∀ (m : List (String × Value)) (t : MapT),
    keysScalarFields s t m = true → keysCanonFields s t m = true
  | [], _ => fun _ => rfl
  | (k, v) :: rest, t => by
    simp only [keysScalarFields, keysCanonFields, Bool.and_eq_true]
    rintro ⟨h1, h2⟩
    exact ⟨keysCanon_of_scalar s v _ h1, keysCanonFields_of_scalar s rest t h2⟩
end

mutual
/-- canonical values carry canonical key fields, at every type -/
theorem keysCanon_of_canon (s : Schema) : ∀ (v : Value) (tr : TypeRef), canon v = true → keysCanon s tr v = true
  | .list l, tr => by
    intro h
    simp only [canon] at h
    simp only [keysCanon]
    split
    · next t _ => simp only [Bool.or_eq_true]; exact .inr (keysCanonItems_of_canon s l t h)
    · rfl
  | .map m, tr => by
    intro h
    simp only [canon, Bool.and_eq_true] at h
    simp only [keysCanon]
    split
    · next t _ => simp only [Bool.or_eq_true]; exact .inr (keysCanonFields_of_canon s m t h.2)
    · rfl
  | .null, _ => fun _ => rfl
  | .bool _, _ => fun _ => rfl
  | .int _, _ => fun _ => rfl
  | .float _ _, _ => fun _ => rfl
  | .str _, _ => fun _ => rfl
theorem keysCanonItems_of_canon (s : Schema) : ∀ (l : List Value) (t : ListT),
    canonList l = true → keysCanonItems s t l = true
  | [], _ => fun _ => rfl
  | v :: vs, t => by
    simp only [canonList, keysCanonItems, Bool.and_eq_true]
    rintro ⟨h1, h2⟩
    exact ⟨⟨itemKeysCanon_of_canon _ _ h1, keysCanon_of_canon s v _ h1⟩, keysCanonItems_of_canon s vs t h2⟩
theorem keysCanonFields_of_canon (s : Schema) : ∀ (m : List (String × Value)) (t : MapT),
    canonFields m = true → keysCanonFields s t m = true
  | [], _ => fun _ => rfl
  | (k, v) :: rest, t => by
    simp only [canonFields, keysCanonFields, Bool.and_eq_true]
    rintro ⟨h1, h2⟩
    exact ⟨keysCanon_of_canon s v _ h1, keysCanonFields_of_canon s rest t h2⟩
end

theorem keysCanon_null (s : Schema) (tr : TypeRef) : keysCanon s tr .null = true := by
  simp [keysCanon]

/-- an item merged with nothing keeps its identity (its key fields being canonical values) -/
theorem merge_identity_left_canon (s : Schema) (t : ListT) (fuel : Nat) (w o : Value) (pw : PE)
    (hid : Conf.identity s t w = some pw) (hks : itemKeysCanon t.keys w = true)
    (h : mergeNode s fuel (some w) none t.elementType = .ok (some o)) : Conf.identity s t o = some pw := by
  cases hk : t.keys.isEmpty with
  | true =>
    obtain ⟨hs, _⟩ := identity_set s t hk w pw hid
    have := merge_scalar_left s fuel w _ _ hs h
    cases this; exact hid
  | false =>
    obtain ⟨wm, rfl⟩ := identity_not_map s t hk w pw hid
    obtain ⟨n, a, _, hres, hh⟩ := mergeNode_none_right s fuel _ _ _ h
    cases hkind : atomKind (deduceAtom a (some (.map wm))) with
    | invalid => unfold mergeHandle at hh; rw [hkind] at hh; cases hh
    | scalar st =>
      have := mergeHandle_scalar s _ _ _ _ st hkind _ hh
      simp only [keepRHS] at this; cases this; exact hid
    | list lt =>
      rcases mergeHandle_list s _ _ _ _ lt hkind _ hh with h1 | ⟨_, _, _, _, _, _, _, _, hc, _, _⟩
      · simp only [keepRHS] at h1; cases h1; exact hid
      · simp [asList, emptyOrAbsent] at hc
    | map mt =>
      rcases mergeHandle_map s _ _ _ _ mt hkind _ hh with h1 | ⟨outm, hf, hc, _, h2⟩
      · simp only [keepRHS] at h1; cases h1; exact hid
      · rcases h2 with ⟨_, ho⟩ | ⟨_, ho⟩
        · cases ho
        · cases ho
          simp only [asMap, Option.getD_some, Option.getD_none] at hf
          rw [← hid, identity_keyed s t wm hk, identity_keyed s t outm hk]
          have : t.keys.map (keyVal s t outm) = t.keys.map (keyVal s t wm) := by
            apply List.map_congr_left
            intro k hkm
            obtain ⟨l1, l2⟩ := mergedMap_lookup _ mt wm [] outm hf k
            simp only [lookupField] at l1 l2
            cases hw : lookupField k wm with
            | some wk =>
              have hsc := itemKeysCanon_lookup t.keys wm k wk hks hkm hw
              rw [hw] at l1 l2
              cases ho : lookupField k outm with
              | none =>
                rcases l2 ho with ⟨h', _⟩ | h'
                · cases h'
                · have := mergeNode_isSome s _ _ _ _ _ h'; cases this
              | some v' =>
                have := merge_canon_left s n wk _ _ hsc (l1 v' ho)
                cases this
                rw [keyVal_of_lookup_some s t _ k _ ho, keyVal_of_lookup_some s t _ k _ hw]
            | none =>
              rw [hw] at l1 l2
              cases ho : lookupField k outm with
              | none => exact keyVal_of_lookup_none s t _ _ k ho hw
              | some v' => exact absurd (l1 v' ho) (mergeNode_none_none s n _ _)
          rw [this]


/-- an item merged with nothing keeps its identity -/
theorem merge_identity_left (s : Schema) (t : ListT) (fuel : Nat) (w o : Value) (pw : PE)
    (hid : Conf.identity s t w = some pw) (hks : itemKeysScalar t.keys w = true)
    (h : mergeNode s fuel (some w) none t.elementType = .ok (some o)) : Conf.identity s t o = some pw :=
  merge_identity_left_canon s t fuel w o pw hid (itemKeysCanon_of_scalar _ _ hks) h

theorem asMap_getD_lookup (lc : Option Value) (k : String) (wk : Value)
    (h : lookupField k ((asMap lc).getD []) = some wk) : lc = some (.map ((asMap lc).getD [])) := by
  cases lc with
  | none => simp [asMap, lookupField] at h
  | some w => cases w <;> simp_all [asMap, lookupField]

/-- an item merged under a right item keeps the right item's identity (the key fields of both being
canonical values) -/
theorem merge_identity_right_canon (s : Schema) (t : ListT) (fuel : Nat) (lc : Option Value) (it o : Value) (rpe : PE)
    (hid : Conf.identity s t it = some rpe) (hv : validateV s false t.elementType it = .ok ())
    (hks : itemKeysCanon t.keys it = true)
    (hlc : ∀ w, lc = some w → w = .null ∨
      ∃ pw, Conf.identity s t w = some pw ∧ PE.equals pw rpe = true ∧ itemKeysCanon t.keys w = true)
    (h : mergeNode s fuel lc (some it) t.elementType = .ok (some o)) :
    ∃ po, Conf.identity s t o = some po ∧ PE.equals po rpe = true := by
  cases hk : t.keys.isEmpty with
  | true =>
    obtain ⟨hs, _⟩ := identity_set s t hk it rpe hid
    have := merge_scalar_right s fuel lc it _ _ hv hs h
    cases this; exact ⟨rpe, hid, PE.equals_refl _⟩
  | false =>
    obtain ⟨im, rfl⟩ := identity_not_map s t hk it rpe hid
    obtain ⟨n, a, _, hres, hh⟩ := mergeNode_some_right s fuel _ _ _ _ h
    rw [validateV_map, hres] at hv
    simp only [] at hv
    cases hmap : a.map with
    | none => rw [hmap] at hv; cases hv
    | some mt =>
      rw [hmap] at hv
      simp only [] at hv
      rw [deduceAtom_map a im mt hmap] at hh
      rcases mergeHandle_map s _ _ _ _ mt rfl _ hh with h1 | ⟨outm, hf, hc, _, h2⟩
      · simp only [keepRHS] at h1; cases h1; exact ⟨rpe, hid, PE.equals_refl _⟩
      · rcases h2 with ⟨_, ho⟩ | ⟨_, ho⟩
        · cases ho
        · cases ho
          have hrf : (asMap (some (Value.map im))).getD [] = im := rfl
          rw [hrf] at hf
          generalize hlf : (asMap lc).getD [] = lf at hf
          have himk := ((identity_keyed_some s t im hk rpe).1 hid).1
          have key : ∀ k ∈ t.keys, ∃ v1 v2, keyVal s t outm k = some (k, v1) ∧ keyVal s t im k = some (k, v2) ∧
              Value.equals v1 v2 = true := by
            intro k hkm
            obtain ⟨l1, l2⟩ := mergedMap_lookup _ mt _ im outm hf k
            cases hi : lookupField k im with
            | some v =>
              have hsc := itemKeysCanon_lookup t.keys im k v hks hkm hi
              have hst : StableLeft (lookupField k lf) v := by
                intro wk hw
                have hlc' := asMap_getD_lookup lc k wk (by rw [hlf]; exact hw)
                rw [hlf] at hlc'
                rcases hlc _ hlc' with h' | ⟨pw, hpw, hpe, hwks⟩
                · cases h'
                · right
                  refine ⟨itemKeysCanon_lookup t.keys _ k wk hwks hkm hw, ?_⟩
                  obtain ⟨v1, v2, e1, e2, he⟩ := (identity_keyed_equals s t _ im hk pw rpe hpw hid).1 hpe k hkm
                  rw [keyVal_of_lookup_some s t _ k _ hw] at e1
                  rw [keyVal_of_lookup_some s t _ k _ hi] at e2
                  simp only [Option.some.injEq, Prod.mk.injEq, true_and] at e1 e2
                  subst e1 e2
                  exact he
              rw [hi] at l1 l2
              cases ho : lookupField k outm with
              | none =>
                rcases l2 ho with ⟨_, h'⟩ | h'
                · cases h'
                · have := mergeNode_isSome s _ _ _ _ _ h'; cases this
              | some v' =>
                obtain ⟨o', ho', he⟩ := merge_canon_equal s n _ v _ _ hst hsc (l1 v' ho)
                cases ho'
                exact ⟨v', v, keyVal_of_lookup_some s t _ k _ ho, keyVal_of_lookup_some s t _ k _ hi, he⟩
            | none =>
              rw [hi] at l1 l2
              cases hkv : keyVal s t im k with
              | none => have := himk k hkm; rw [hkv] at this; cases this
              | some e =>
                have hfst := keyVal_fst s t im k e hkv
                obtain ⟨ek, d⟩ := e
                simp only [] at hfst
                subst hfst
                cases hw : lookupField ek lf with
                | none =>
                  rw [hw] at l1 l2
                  cases ho : lookupField ek outm with
                  | none =>
                    refine ⟨d, d, ?_, rfl, Value.equals_refl _⟩
                    rw [keyVal_of_lookup_none s t outm im ek ho hi]; exact hkv
                  | some v' => exact absurd (l1 v' ho) (mergeNode_none_none s n _ _)
                | some wk =>
                  have hlc' := asMap_getD_lookup lc ek wk (by rw [hlf]; exact hw)
                  rw [hlf] at hlc'
                  rcases hlc _ hlc' with h' | ⟨pw, hpw, hpe, hwks⟩
                  · cases h'
                  · have hsc := itemKeysCanon_lookup t.keys _ ek wk hwks hkm hw
                    obtain ⟨v1, v2, e1, e2, he⟩ := (identity_keyed_equals s t _ im hk pw rpe hpw hid).1 hpe ek hkm
                    rw [keyVal_of_lookup_some s t _ ek _ hw] at e1
                    rw [hkv] at e2
                    simp only [Option.some.injEq, Prod.mk.injEq, true_and] at e1 e2
                    subst e1 e2
                    rw [hw] at l1 l2
                    cases ho : lookupField ek outm with
                    | none =>
                      rcases l2 ho with ⟨h', _⟩ | h'
                      · cases h'
                      · have := mergeNode_isSome s _ _ _ _ _ h'; cases this
                    | some v' =>
                      have := merge_canon_left s n wk _ _ hsc (l1 v' ho)
                      cases this
                      exact ⟨wk, d, keyVal_of_lookup_some s t _ ek _ ho, rfl, he⟩
          have hsome : ∀ k ∈ t.keys, (keyVal s t outm k).isSome = true := by
            intro k hkm
            obtain ⟨v1, _, e1, _, _⟩ := key k hkm
            rw [e1]; rfl
          refine ⟨_, (identity_keyed_some s t outm hk _).2 ⟨hsome, rfl⟩, ?_⟩
          exact (identity_keyed_equals s t outm im hk _ rpe
            ((identity_keyed_some s t outm hk _).2 ⟨hsome, rfl⟩) hid).2 key


/-- an item merged under a right item keeps the right item's identity -/
theorem merge_identity_right (s : Schema) (t : ListT) (fuel : Nat) (lc : Option Value) (it o : Value) (rpe : PE)
    (hid : Conf.identity s t it = some rpe) (hv : validateV s false t.elementType it = .ok ())
    (hks : itemKeysScalar t.keys it = true)
    (hlc : ∀ w, lc = some w → w = .null ∨
      ∃ pw, Conf.identity s t w = some pw ∧ PE.equals pw rpe = true ∧ itemKeysScalar t.keys w = true)
    (h : mergeNode s fuel lc (some it) t.elementType = .ok (some o)) :
    ∃ po, Conf.identity s t o = some po ∧ PE.equals po rpe = true :=
  merge_identity_right_canon s t fuel lc it o rpe hid hv (itemKeysCanon_of_scalar _ _ hks)
    (fun w hw => (hlc w hw).imp id fun ⟨pw, h1, h2, h3⟩ => ⟨pw, h1, h2, itemKeysCanon_of_scalar _ _ h3⟩) h

def PE.isField : PE → Bool | .field _ => true | _ => false
def PE.isIndex : PE → Bool | .index _ => true | _ => false

/-! ### the independent resolver on lists -/

def mn_hitOf (s : Schema) (lt : ListT) (pe : PE) (item : Value) : Bool :=
  match pe with
  | .index _ => false
  | _ => lt.rel == "associative" &&
         (match Conf.identity s lt item with
          | some id => PE.equals id pe
          | none => false)

theorem mn_itemAt_cons (s : Schema) (lt : ListT) (pe : PE) (item : Value) (rest : List Value) :
    Nodes.itemAt s lt pe (item :: rest) =
      if mn_hitOf s lt pe item then some item else Nodes.itemAt s lt pe rest := by
  cases pe <;> rfl

theorem hitOf_iff (s : Schema) (lt : ListT) (pe : PE) (item : Value) :
    mn_hitOf s lt pe item = true ↔ lt.rel = "associative" ∧ PE.isIndex pe = false ∧
      ∃ id, Conf.identity s lt item = some id ∧ PE.equals id pe = true := by
  cases hid : Conf.identity s lt item <;> cases pe <;> simp [mn_hitOf, hid, PE.isIndex]

theorem itemAt_some (s : Schema) (lt : ListT) (pe : PE) :
    ∀ (l : List Value) (it : Value), Nodes.itemAt s lt pe l = some it →
      it ∈ l ∧ lt.rel = "associative" ∧ PE.isIndex pe = false ∧
        ∃ id, Conf.identity s lt it = some id ∧ PE.equals id pe = true
  | [], it => by simp [Nodes.itemAt]
  | item :: rest, it => by
    intro h
    rw [mn_itemAt_cons] at h
    split at h
    · next hit =>
      cases h
      exact ⟨List.mem_cons_self, (hitOf_iff s lt pe _).1 hit⟩
    · obtain ⟨h1, h2⟩ := itemAt_some s lt pe rest it h
      exact ⟨List.mem_cons_of_mem _ h1, h2⟩

theorem itemAt_exists (s : Schema) (lt : ListT) (pe : PE) (hrel : lt.rel = "associative")
    (hni : PE.isIndex pe = false) :
    ∀ (l : List Value), (∃ it ∈ l, ∃ id, Conf.identity s lt it = some id ∧ PE.equals id pe = true) →
      ∃ it', Nodes.itemAt s lt pe l = some it'
  | [], h => by obtain ⟨_, h, _⟩ := h; cases h
  | item :: rest, h => by
    rw [mn_itemAt_cons]
    split
    · exact ⟨_, rfl⟩
    · next hit =>
      obtain ⟨it, hm, id, hid, he⟩ := h
      rcases List.mem_cons.1 hm with rfl | hm
      · exact absurd ((hitOf_iff s lt pe _).2 ⟨hrel, hni, id, hid, he⟩) hit
      · exact itemAt_exists s lt pe hrel hni rest ⟨it, hm, id, hid, he⟩

theorem identity_not_field (s : Schema) (lt : ListT) (it : Value) (id : PE) (k : String)
    (h : Conf.identity s lt it = some id) : PE.equals id (.field k) = false := by
  cases hk : lt.keys.isEmpty with
  | true => obtain ⟨_, rfl⟩ := identity_set s lt hk it id h; rfl
  | false =>
    obtain ⟨m, rfl⟩ := identity_not_map s lt hk it id h
    obtain ⟨_, rfl⟩ := (identity_keyed_some s lt m hk id).1 h
    rfl


/-! ### one step of the resolver -/

theorem childAt_map_field (s : Schema) (tr : TypeRef) (a : Atom) (mt : MapT) (m : List (String × Value)) (k : String)
    (hres : s.resolve tr = some a) (hmap : a.map = some mt) :
    Nodes.childAt s tr (.map m) (.field k) = (lookupField k m).map fun x => (fieldType mt k, x) := by
  simp only [Nodes.childAt, hres, hmap]
  rfl

theorem mn_childAt_list (s : Schema) (tr : TypeRef) (a : Atom) (lt : ListT) (l : List Value) (pe : PE)
    (hres : s.resolve tr = some a) (hlist : a.list = some lt) (hni : PE.isIndex pe = false) :
    Nodes.childAt s tr (.list l) pe = (Nodes.itemAt s lt pe l).map fun x => (lt.elementType, x) := by
  cases pe <;> simp_all [Nodes.childAt, PE.isIndex]

/-- the two ways a non-index element designates a child -/
theorem childAt_some (s : Schema) (tr : TypeRef) (r : Value) (pe : PE) (tr' : TypeRef) (v' : Value)
    (hni : PE.isIndex pe = false) (h : Nodes.childAt s tr r pe = some (tr', v')) :
    ∃ a, s.resolve tr = some a ∧
      ((∃ mt m k, a.map = some mt ∧ r = .map m ∧ pe = .field k ∧ lookupField k m = some v' ∧
          tr' = fieldType mt k) ∨
       (∃ lt l, a.list = some lt ∧ r = .list l ∧ Nodes.itemAt s lt pe l = some v' ∧ tr' = lt.elementType)) := by
  unfold Nodes.childAt at h
  split at h
  · cases h
  · next a hres =>
    refine ⟨a, hres, ?_⟩
    split at h
    · next m k =>
      split at h
      · next mt hmap =>
        left
        cases hl : lookupField k m with
        | none => rw [hl] at h; cases h
        | some x =>
          rw [hl] at h
          simp only [Option.map_some, Option.some.injEq, Prod.mk.injEq] at h
          obtain ⟨rfl, rfl⟩ := h
          exact ⟨mt, m, k, hmap, rfl, rfl, hl, rfl⟩
      · cases h
    · simp [PE.isIndex] at hni
    · next l _ =>
      split at h
      · next lt hlist =>
        right
        cases hl : Nodes.itemAt s lt pe l with
        | none => rw [hl] at h; cases h
        | some x =>
          rw [hl] at h
          simp only [Option.map_some, Option.some.injEq, Prod.mk.injEq] at h
          obtain ⟨rfl, rfl⟩ := h
          exact ⟨lt, l, hlist, rfl, hl, rfl⟩
      · cases h
    · cases h

theorem resolveKind_map (s : Schema) (tr : TypeRef) (a : Atom) (mt : MapT) (m : List (String × Value))
    (hres : s.resolve tr = some a) (hmap : a.map = some mt) :
    resolveKind s tr (some (.map m)) = some (.map mt) := by
  simp [resolveKind, hres, deduceAtom_map a m mt hmap, atomKind_map]

theorem resolveKind_list (s : Schema) (tr : TypeRef) (a : Atom) (lt : ListT) (l : List Value)
    (hres : s.resolve tr = some a) (hlist : a.list = some lt) :
    resolveKind s tr (some (.list l)) = some (.list lt) := by
  simp [resolveKind, hres, deduceAtom_list a l lt hlist, atomKind_list]

theorem keysScalar_map_child (s : Schema) (tr : TypeRef) (a : Atom) (mt : MapT) (m : List (String × Value))
    (hres : s.resolve tr = some a) (hmap : a.map = some mt) (hna : mt.rel ≠ "atomic")
    (h : keysScalar s tr (.map m) = true) (k : String) (w : Value) (hl : lookupField k m = some w) :
    keysScalar s (fieldType mt k) w = true := by
  rw [keysScalar, resolveKind_map s tr a mt m hres hmap] at h
  simp only [Bool.or_eq_true, beq_iff_eq, hna, false_or] at h
  exact keysScalarFields_mem s mt m h (k, w) (mn_lookupField_mem k w m hl)

theorem keysScalar_list_items (s : Schema) (tr : TypeRef) (a : Atom) (lt : ListT) (l : List Value)
    (hres : s.resolve tr = some a) (hlist : a.list = some lt) (hna : lt.rel ≠ "atomic")
    (h : keysScalar s tr (.list l) = true) :
    ∀ c ∈ l, itemKeysScalar lt.keys c = true ∧ keysScalar s lt.elementType c = true := by
  rw [keysScalar, resolveKind_list s tr a lt l hres hlist] at h
  simp only [Bool.or_eq_true, beq_iff_eq, hna, false_or] at h
  exact keysScalarItems_mem s lt l h

theorem keysCanon_map_child (s : Schema) (tr : TypeRef) (a : Atom) (mt : MapT) (m : List (String × Value))
    (hres : s.resolve tr = some a) (hmap : a.map = some mt) (hna : mt.rel ≠ "atomic")
    (h : keysCanon s tr (.map m) = true) (k : String) (w : Value) (hl : lookupField k m = some w) :
    keysCanon s (fieldType mt k) w = true := by
  rw [keysCanon, resolveKind_map s tr a mt m hres hmap] at h
  simp only [Bool.or_eq_true, beq_iff_eq, hna, false_or] at h
  exact keysCanonFields_mem s mt m h (k, w) (mn_lookupField_mem k w m hl)

theorem keysCanon_list_items (s : Schema) (tr : TypeRef) (a : Atom) (lt : ListT) (l : List Value)
    (hres : s.resolve tr = some a) (hlist : a.list = some lt) (hna : lt.rel ≠ "atomic")
    (h : keysCanon s tr (.list l) = true) :
    ∀ c ∈ l, itemKeysCanon lt.keys c = true ∧ keysCanon s lt.elementType c = true := by
  rw [keysCanon, resolveKind_list s tr a lt l hres hlist] at h
  simp only [Bool.or_eq_true, beq_iff_eq, hna, false_or] at h
  exact keysCanonItems_mem s lt l h

/-- the map case: the entry of a key of the right operand is, in the result, the merge of that entry -/
theorem right_wins_child_map (s : Schema) (tr : TypeRef) (lo : Option Value) (rf : List (String × Value))
    (out : Value) (fuel : Nat) (a : Atom) (mt : MapT) (k : String) (v' : Value)
    (hres : s.resolve tr = some a) (hmap : a.map = some mt)
    (hr : validateV s false tr (.map rf) = .ok ())
    (hm : mergeNode s fuel lo (some (.map rf)) tr = .ok (some out))
    (hlook : lookupField k rf = some v') :
    out = .map rf ∨ ∃ outm o' n, out = .map outm ∧ lookupField k outm = some o' ∧
      validateV s false (fieldType mt k) v' = .ok () ∧
      mergeNode s n (lookupField k ((asMap lo).getD [])) (some v') (fieldType mt k) = .ok (some o') ∧
      mt.rel ≠ "atomic" := by
  obtain ⟨n, a', _, hres', hh⟩ := mergeNode_some_right s fuel _ _ _ _ hm
  rw [hres] at hres'; cases hres'
  rw [validateV_map, hres] at hr
  simp only [hmap] at hr
  rw [deduceAtom_map a rf mt hmap] at hh
  rcases mergeHandle_map s _ _ _ _ mt rfl _ hh with h1 | ⟨outm, hf, hc, hna, h2⟩
  · simp only [keepRHS] at h1; cases h1; exact .inl rfl
  · right
    rcases h2 with ⟨_, ho⟩ | ⟨_, ho⟩
    · cases ho
    · cases ho
      have hrf : (asMap (some (Value.map rf))).getD [] = rf := rfl
      rw [hrf] at hf
      obtain ⟨l1, l2⟩ := mergedMap_lookup _ mt _ rf outm hf k
      rw [hlook] at l1 l2
      have hvv := validateFields_mem s false mt rf hr (k, v') (mn_lookupField_mem k v' rf hlook)
      cases ho : lookupField k outm with
      | none =>
        rcases l2 ho with ⟨_, h'⟩ | h'
        · cases h'
        · have := mergeNode_isSome s _ _ _ _ _ h'; cases this
      | some o' => exact ⟨outm, o', n, rfl, ho, hvv, l1 o' ho, hna⟩


theorem asList_getD_mem (lo : Option Value) (w : Value) (h : w ∈ (asList lo).getD []) :
    lo = some (.list ((asList lo).getD [])) := by
  cases lo with
  | none => simp [asList] at h
  | some v => cases v <;> simp_all [asList]

/-- the list case: the item a key or value designates in the right operand is, in the result, designated by
the same element and is the merge of that item with nothing, an explicit null or an item of the left list
(the key fields carried by the items of both lists being canonical values) -/
theorem right_wins_child_list_core (s : Schema) (tr : TypeRef) (lo : Option Value) (rl : List Value)
    (out : Value) (fuel : Nat) (a : Atom) (lt : ListT) (pe : PE) (v' : Value)
    (hres : s.resolve tr = some a) (hlist : a.list = some lt)
    (hr : validateV s false tr (.list rl) = .ok ())
    (hkl : lt.rel ≠ "atomic" → ∀ c ∈ (asList lo).getD [], itemKeysCanon lt.keys c = true)
    (hkr : lt.rel ≠ "atomic" → ∀ c ∈ rl, itemKeysCanon lt.keys c = true)
    (hm : mergeNode s fuel lo (some (.list rl)) tr = .ok (some out))
    (hitem : Nodes.itemAt s lt pe rl = some v') :
    out = .list rl ∨ ∃ res o' n lo', out = .list res ∧ Nodes.itemAt s lt pe res = some o' ∧
      validateV s false lt.elementType v' = .ok () ∧
      mergeNode s n lo' (some v') lt.elementType = .ok (some o') ∧
      (∀ w, lo' = some w → w = .null ∨ w ∈ (asList lo).getD []) ∧ v' ∈ rl ∧ lt.rel ≠ "atomic" := by
  obtain ⟨n, a', _, hres', hh⟩ := mergeNode_some_right s fuel _ _ _ _ hm
  rw [hres] at hres'; cases hres'
  rw [validateV_list, hres] at hr
  simp only [hlist] at hr
  rw [deduceAtom_list a rl lt hlist] at hh
  rcases mergeHandle_list s _ _ _ _ lt rfl _ hh with h1 | ⟨rpes, obsR, lpes, obsL, res, hir, hil, hloop, hc, hna, h2⟩
  · simp only [keepRHS] at h1; cases h1; exact .inl rfl
  · right
    rcases h2 with ⟨_, ho⟩ | ⟨_, ho⟩
    · cases ho
    · cases ho
      have hrl : (asList (some (Value.list rl))).getD [] = rl := rfl
      rw [hrl] at hir
      generalize hll : (asList lo).getD [] = ll at hil
      obtain ⟨newr, er, hr2, hr3, hr4, hr5⟩ := mn_indexPEs_spec s lt false rl [] [] rpes obsR hir
      simp only [List.reverse_nil, List.nil_append] at er
      subst er
      obtain ⟨hr4a, _⟩ := hr4 rfl
      obtain ⟨newl, el, hl2, hl3, _, hl5⟩ := mn_indexPEs_spec s lt true ll [] [] lpes obsL hil
      simp only [List.reverse_nil, List.nil_append] at el
      subst el
      obtain ⟨hv'mem, hrel, hni, id0, hid0, he0⟩ := itemAt_some s lt pe rl v' hitem
      have hvalid := validateItems_assoc s false lt hrel rl [] 0 hr
      have hkr := hkr hna
      have hkl : ∀ c ∈ ll, itemKeysCanon lt.keys c = true := by
        intro c hcm
        exact hkl hna c (by rw [hll]; exact hcm)
      have hrmem : ∀ p ∈ rpes, p.2 ∈ rl := fun p hp => by rw [← hr2]; exact List.mem_map_of_mem hp
      have hlmem : ∀ p ∈ lpes, p.2 ∈ ll := fun p hp => by rw [← hl2]; exact List.mem_map_of_mem hp
      have hR : ∀ (pe1 : PE) (p1 : PE × Value) (o1 : Value), p1 ∈ rpes → PE.equals pe1 p1.1 = true →
          mergeNode s n (pemGet pe1 obsL) (pemGet pe1 obsR) lt.elementType = .ok (some o1) →
          pemGet pe1 obsR = some p1.2 ∧ ∃ po, Conf.identity s lt o1 = some po ∧ PE.equals po p1.1 = true := by
        intro pe1 p1 o1 hp1 he1 hmerge
        have hget : pemGet pe1 obsR = some p1.2 := by rw [pemGet_congr he1]; exact hr4a p1 hp1
        refine ⟨hget, ?_⟩
        rw [hget] at hmerge
        refine merge_identity_right_canon s lt n (pemGet pe1 obsL) p1.2 o1 p1.1
          (identity_of_listItemToPE s lt _ _ hrel (hr3 p1 hp1)) (hvalid _ (hrmem p1 hp1)).2
          (hkr _ (hrmem p1 hp1)) ?_ hmerge
        intro w hw
        rcases hl5 pe1 w hw with h | h | ⟨p, hp, hpe, hpw⟩
        · exact .inl h
        · simp [pemGet] at h
        · right
          subst hpw
          exact ⟨p.1, identity_of_listItemToPE s lt _ _ hrel (hl3 p hp), PE.equals_trans hpe he1,
            hkl _ (hlmem p hp)⟩
      obtain ⟨m1, _, m3, _⟩ := mergeLoop_spec _ _ _ _ _ _ _ _ _ _ hloop
      -- the designated right item and its element
      obtain ⟨p0, hp0, hp0v⟩ : ∃ p0 ∈ rpes, p0.2 = v' := by
        rw [← hr2] at hv'mem
        obtain ⟨p0, hp0, h⟩ := List.mem_map.1 hv'mem
        exact ⟨p0, hp0, h⟩
      have hp0id : p0.1 = id0 := by
        have := identity_of_listItemToPE s lt _ _ hrel (hr3 p0 hp0)
        rw [hp0v, hid0] at this
        cases this; rfl
      -- it is emitted
      obtain ⟨pe1, o1, he1, hi1, hmem1⟩ := m3 p0.1 (List.mem_map_of_mem hp0)
      have hsome1 := mergeNode_isSome s _ _ _ _ _ hi1
      cases o1 with
      | none => cases hsome1
      | some v1 =>
        obtain ⟨_, po1, hpo1, hpe1⟩ := hR pe1 p0 v1 hp0 he1 hi1
        rw [hp0id] at hpe1
        obtain ⟨o', hitem'⟩ := itemAt_exists s lt pe hrel hni res
          ⟨v1, hmem1 v1 rfl, po1, hpo1, PE.equals_trans hpe1 he0⟩
        obtain ⟨ho'mem, _, _, ido, hido, heo⟩ := itemAt_some s lt pe res o' hitem'
        have hget0 : pemGet id0 obsR = some v' := by rw [← hp0id, ← hp0v]; exact hr4a p0 hp0
        rcases m1 o' ho'mem with h | ⟨pe2, x2, hm2, hn2, hi2⟩ | ⟨pe3, rpe3, hm3, he3, hi3⟩
        · cases h
        · exfalso
          have hid2 := merge_identity_left_canon s lt n x2 o' pe2
            (identity_of_listItemToPE s lt _ _ hrel (hl3 _ hm2)) (hkl _ (hlmem _ hm2)) hi2
          rw [hido] at hid2
          cases hid2
          have : PE.equals ido id0 = true := PE.equals_trans heo (PE.equals_symm_of he0)
          rw [pemGet_congr this, hget0] at hn2
          cases hn2
        · obtain ⟨p3, hp3, rfl⟩ := List.mem_map.1 hm3
          obtain ⟨hget3, po3, hpo3, hpe3⟩ := hR pe3 p3 o' hp3 he3 hi3
          rw [hido] at hpo3
          cases hpo3
          have h30 : PE.equals p3.1 id0 = true :=
            PE.equals_trans (PE.equals_symm_of hpe3) (PE.equals_trans heo (PE.equals_symm_of he0))
          have hv3 : p3.2 = v' := by
            have := hr4a p3 hp3
            rw [pemGet_congr h30, hget0] at this
            cases this; rfl
          rw [hget3, hv3] at hi3
          refine ⟨res, o', n, pemGet pe3 obsL, rfl, hitem', (hvalid v' hv'mem).2, hi3, ?_, hv'mem, hna⟩
          intro w hw
          rcases hl5 pe3 w hw with h | h | ⟨p, hp, _, hpw⟩
          · exact .inl h
          · simp [pemGet] at h
          · subst hpw; exact .inr (hlmem p hp)

/-- the list case: the item a key or value designates in the right operand is, in the result, designated by
the same element and is the merge of that item -/
theorem right_wins_child_list (s : Schema) (tr : TypeRef) (lo : Option Value) (rl : List Value)
    (out : Value) (fuel : Nat) (a : Atom) (lt : ListT) (pe : PE) (v' : Value)
    (hres : s.resolve tr = some a) (hlist : a.list = some lt)
    (hr : validateV s false tr (.list rl) = .ok ())
    (hksl : ∀ l, lo = some l → keysScalar s tr l = true) (hksr : keysScalar s tr (.list rl) = true)
    (hm : mergeNode s fuel lo (some (.list rl)) tr = .ok (some out))
    (hitem : Nodes.itemAt s lt pe rl = some v') :
    out = .list rl ∨ ∃ res o' n lo', out = .list res ∧ Nodes.itemAt s lt pe res = some o' ∧
      validateV s false lt.elementType v' = .ok () ∧
      mergeNode s n lo' (some v') lt.elementType = .ok (some o') ∧
      (∀ w, lo' = some w → keysScalar s lt.elementType w = true) ∧
      keysScalar s lt.elementType v' = true := by
  have hkl : lt.rel ≠ "atomic" → ∀ c ∈ (asList lo).getD [],
      itemKeysScalar lt.keys c = true ∧ keysScalar s lt.elementType c = true := by
    intro hna c hcm
    have hlo := asList_getD_mem lo c hcm
    exact keysScalar_list_items s tr a lt _ hres hlist hna (hksl _ hlo) c hcm
  rcases right_wins_child_list_core s tr lo rl out fuel a lt pe v' hres hlist hr
      (fun hna c hc => itemKeysCanon_of_scalar _ _ (hkl hna c hc).1)
      (fun hna c hc => itemKeysCanon_of_scalar _ _ (keysScalar_list_items s tr a lt rl hres hlist hna hksr c hc).1)
      hm hitem with h | ⟨res, o', n, lo', h1, h2, h3, h4, h5, h6, hna⟩
  · exact .inl h
  · refine .inr ⟨res, o', n, lo', h1, h2, h3, h4, ?_, (keysScalar_list_items s tr a lt rl hres hlist hna hksr v' h6).2⟩
    intro w hw
    rcases h5 w hw with rfl | hmem
    · simp [keysScalar]
    · exact (hkl hna w hmem).2

/-! ### right wins -/

theorem asMap_getD_lookup' (lo : Option Value) (lf : List (String × Value)) (hlf : (asMap lo).getD [] = lf)
    (k : String) (w : Value) (h : lookupField k lf = some w) : lo = some (.map lf) := by
  have := asMap_getD_lookup lo k w (by rw [hlf]; exact h)
  rw [hlf] at this; exact this

/-- right wins, against the independent resolver: along a path of field names (no further hypothesis),
or along any path without positional (index) elements when the key fields carried by the items of the
keyed lists of both operands are canonical values (`keysCanon`: implied by `keysScalar` and by `canon`) -/
theorem right_wins_aux_canon (s : Schema) : ∀ (p : Path) (tr : TypeRef) (lo : Option Value) (r out : Value) (fuel : Nat)
    (x : Value),
    validateV s false tr r = .ok () →
    ((∀ pe ∈ p, PE.isField pe = true) ∨
      ((∀ pe ∈ p, PE.isIndex pe = false) ∧ (∀ l, lo = some l → keysCanon s tr l = true) ∧
        keysCanon s tr r = true)) →
    mergeNode s fuel lo (some r) tr = .ok (some out) →
    Nodes.valueAt s tr r p = some x →
    (Nodes.valueAt s tr out p).isSome = true ∧ (x.isScalar = true → Nodes.valueAt s tr out p = some x)
  | [], tr, lo, r, out, fuel, x => by
    intro hr _ hm hx
    simp only [Nodes.valueAt, Option.some.injEq] at hx ⊢
    subst hx
    refine ⟨rfl, fun hs => ?_⟩
    have := merge_scalar_right s fuel lo r tr _ hr hs hm
    cases this; rfl
  | pe :: rest, tr, lo, r, out, fuel, x => by
    intro hr hyp hm hx
    have ih := right_wins_aux_canon s rest
    have hni : PE.isIndex pe = false := by
      rcases hyp with h | h
      · have := h pe List.mem_cons_self
        cases pe <;> simp_all [PE.isField, PE.isIndex]
      · exact h.1 pe List.mem_cons_self
    rw [Nodes.valueAt] at hx
    split at hx
    · next tr' v' hc =>
      obtain ⟨a, hres, hcase⟩ := childAt_some s tr r pe tr' v' hni hc
      rcases hcase with ⟨mt, rf, k, hmap, rfl, rfl, hlook, rfl⟩ | ⟨lt, rl, hlist, rfl, hitem, rfl⟩
      · -- maps
        rcases right_wins_child_map s tr lo rf out fuel a mt k v' hres hmap hr hm hlook with
          rfl | ⟨outm, o', n, rfl, hlo, hv', hm', hna⟩
        · rw [Nodes.valueAt, hc]
          simp only []
          rw [hx]
          exact ⟨rfl, fun _ => rfl⟩
        · have hc' : Nodes.childAt s tr (.map outm) (.field k) = some (fieldType mt k, o') := by
            rw [childAt_map_field s tr a mt outm k hres hmap, hlo]; rfl
          rw [Nodes.valueAt, hc']
          simp only []
          refine ih (fieldType mt k) _ v' o' n x hv' ?_ hm' hx
          rcases hyp with h | ⟨h1, h2, h3⟩
          · exact .inl fun pe' hpe' => h pe' (List.mem_cons_of_mem _ hpe')
          · refine .inr ⟨fun pe' hpe' => h1 pe' (List.mem_cons_of_mem _ hpe'), ?_,
              keysCanon_map_child s tr a mt rf hres hmap hna h3 k v' hlook⟩
            intro w hw
            have hlo' := asMap_getD_lookup' lo _ rfl k w hw
            exact keysCanon_map_child s tr a mt _ hres hmap hna (h2 _ hlo') k w hw
      · -- lists
        rcases hyp with h | ⟨h1, h2, h3⟩
        · exfalso
          have hf := h pe List.mem_cons_self
          obtain ⟨_, _, _, id, hid, he⟩ := itemAt_some s lt pe rl v' hitem
          cases pe <;> simp [PE.isField] at hf
          rw [identity_not_field s lt v' id _ hid] at he
          cases he
        · have hkll : lt.rel ≠ "atomic" → ∀ c ∈ (asList lo).getD [],
              itemKeysCanon lt.keys c = true ∧ keysCanon s lt.elementType c = true := by
            intro hna c hcm
            have hlo := asList_getD_mem lo c hcm
            exact keysCanon_list_items s tr a lt _ hres hlist hna (h2 _ hlo) c hcm
          rcases right_wins_child_list_core s tr lo rl out fuel a lt pe v' hres hlist hr
              (fun hna c hc => (hkll hna c hc).1)
              (fun hna c hc => (keysCanon_list_items s tr a lt rl hres hlist hna h3 c hc).1) hm hitem with
            rfl | ⟨res, o', n, lo', rfl, hitem', hv', hm', hk1, hk2, hna⟩
          · rw [Nodes.valueAt, hc]
            simp only []
            rw [hx]
            exact ⟨rfl, fun _ => rfl⟩
          · have hc' : Nodes.childAt s tr (.list res) pe = some (lt.elementType, o') := by
              rw [mn_childAt_list s tr a lt res pe hres hlist hni, hitem']; rfl
            rw [Nodes.valueAt, hc']
            simp only []
            refine ih lt.elementType lo' v' o' n x hv'
              (.inr ⟨fun pe' hpe' => h1 pe' (List.mem_cons_of_mem _ hpe'), ?_,
                (keysCanon_list_items s tr a lt rl hres hlist hna h3 v' hk2).2⟩) hm' hx
            intro w hw
            rcases hk1 w hw with rfl | hmem
            · exact keysCanon_null s _
            · exact (hkll hna w hmem).2
    · cases hx

/-- right wins, against the independent resolver: along a path of field names (no further hypothesis),
or along any path without positional (index) elements when the key fields carried by the items of the
keyed lists of both operands are scalars -/
theorem right_wins_aux (s : Schema) : ∀ (p : Path) (tr : TypeRef) (lo : Option Value) (r out : Value) (fuel : Nat)
    (x : Value),
    validateV s false tr r = .ok () →
    ((∀ pe ∈ p, PE.isField pe = true) ∨
      ((∀ pe ∈ p, PE.isIndex pe = false) ∧ (∀ l, lo = some l → keysScalar s tr l = true) ∧
        keysScalar s tr r = true)) →
    mergeNode s fuel lo (some r) tr = .ok (some out) →
    Nodes.valueAt s tr r p = some x →
    (Nodes.valueAt s tr out p).isSome = true ∧ (x.isScalar = true → Nodes.valueAt s tr out p = some x) := by
  intro p tr lo r out fuel x hr hyp hm hx
  refine right_wins_aux_canon s p tr lo r out fuel x hr ?_ hm hx
  rcases hyp with h | ⟨h1, h2, h3⟩
  · exact .inl h
  · exact .inr ⟨h1, fun l hl => keysCanon_of_scalar s l tr (h2 l hl), keysCanon_of_scalar s r tr h3⟩

/-! ### a first apply -/

/-- a manager's first apply that returns an object returns the node merge of the configuration over
the live object -/
theorem first_apply_mergeNode (u : Updater) (sc : Schema) (live cfg : TV) (ver : String) (m m0 : Managed)
    (mgr : String) (force : Bool) (obj : Option TV) (mf : Managed)
    (hrec : reconcileManaged u sc live m = .ok m0) (hfirst : mfGet m0 mgr = none)
    (htype : live.type = cfg.type)
    (happly : apply u sc live cfg ver m mgr force = .ok (obj, mf)) (o : TV) (hobj : obj = some o) :
    mergeNode sc (live.value.depth + cfg.value.depth + 2) (some live.value) (some cfg.value) cfg.type =
      .ok (some o.value) := by
  obtain ⟨merged, hmerge, hcase⟩ := apply_of_prune_id u sc live cfg ver m m0 mgr force obj mf hrec
    (fun merged ms => by rw [hfirst]; exact prune_none u sc merged ms mgr) happly
  have hmo : merged = o := by
    rcases hcase with h | ⟨h, _⟩
    · rw [hobj] at h; cases h; rfl
    · rw [hobj] at h; cases h
  subst hmo
  unfold mergeTV at hmerge
  split at hmerge
  · cases hmerge
  · rw [htype] at hmerge
    cases hn : mergeNode sc (live.value.depth + cfg.value.depth + 2) (some live.value) (some cfg.value) cfg.type with
    | ok o' =>
      rw [hn] at hmerge
      simp only [Res.ok.injEq] at hmerge
      have hs := mergeNode_isSome sc _ _ _ _ _ hn
      cases o' with
      | none => cases hs
      | some out => rw [← hmerge]; rfl
    | err => rw [hn] at hmerge; cases hmerge
    | panic => rw [hn] at hmerge; cases hmerge

end SMD
