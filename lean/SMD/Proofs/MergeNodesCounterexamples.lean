/-
Concrete runs of the model showing that the two C01 statements, as first written, fail:

* a positional (index) path element designates a position, and the merge may put items of the left
  operand in front of those of the right operand;
* the items of a keyed list may carry a map as key field; the merge rebuilds maps with their keys in
  order, so a key field written out of order changes the identity of the merged item.

World: the empty schema with inlined types.
-/
import SMD.Proofs.MergeNodes
namespace SMD.Counter01

/-- an inline untyped scalar -/
def elemTR : TypeRef := .mk none (.mk (some "untyped") none none) none
/-- an inline set (associative list without keys) of untyped scalars -/
def setLT : ListT := .mk elemTR "associative" []
def setTR : TypeRef := .mk none (.mk none (some setLT) none) none

def upd : Updater := { converter := Converter.identity, ignore := fun _ => none }
def live : TV := ⟨.list [.int 1], setTR⟩
def cfg : TV := ⟨.list [.int 2], setTR⟩

/-! #### the index counterexample: `[1]` merged with `[2]` is `[1, 2]`; position 0 holds 2 on the right, 1 in the result -/

theorem valid_left : validateV ⟨[]⟩ true setTR (.list [.int 1]) = .ok () := rfl
theorem valid_right : validateV ⟨[]⟩ false setTR (.list [.int 2]) = .ok () := rfl
theorem assoc_left : listsAssociative ⟨[]⟩ setTR (.list [.int 1]) = true := rfl
theorem assoc_right : listsAssociative ⟨[]⟩ setTR (.list [.int 2]) = true := rfl
theorem merge_sets : mergeNode ⟨[]⟩ 3 (some (.list [.int 1])) (some (.list [.int 2])) setTR =
    .ok (some (.list [.int 1, .int 2])) := by with_unfolding_all rfl
theorem at_right : Nodes.valueAt ⟨[]⟩ setTR (.list [.int 2]) [.index 0] = some (.int 2) := rfl
theorem at_out : Nodes.valueAt ⟨[]⟩ setTR (.list [.int 1, .int 2]) [.index 0] = some (.int 1) := rfl

/-- the managed fields the first apply of `cfg` over `live` records -/
def managedAfter : Managed :=
  match apply upd ⟨[]⟩ live cfg "v" [] "m" true with
  | .ok (_, mf) => mf
  | _ => []

theorem apply_sets : apply upd ⟨[]⟩ live cfg "v" [] "m" true =
    .ok (some ⟨.list [.int 1, .int 2], setTR⟩, managedAfter) := by with_unfolding_all rfl
theorem reconcile_nil : reconcileManaged upd ⟨[]⟩ live [] = .ok [] := rfl

/-! #### the key-field counterexample: an item whose key field is a map written out of order -/

/-- a map of untyped scalars -/
def nameTR : TypeRef := .mk none (.mk none none (some (.mk [] [] elemTR ""))) none
/-- the item type: fields `name` (a map) and `x` (a scalar) -/
def itemTR : TypeRef :=
  .mk none (.mk none none (some (.mk [.mk "name" nameTR none, .mk "x" elemTR none] [] .zero ""))) none
def keyedLT : ListT := .mk itemTR "associative" ["name"]
def keyedTR : TypeRef := .mk none (.mk none (some keyedLT) none) none
def nameV : Value := .map [("b", .int 2), ("a", .int 1)]
def keyedR : Value := .list [.map [("name", nameV), ("x", .int 2)]]
def keyedOut : Value := .list [.map [("name", .map [("a", .int 1), ("b", .int 2)]), ("x", .int 2)]]
def keyedPath : Path := [.key [("name", nameV)], .field "x"]

theorem keyed_valid_left : validateV ⟨[]⟩ true keyedTR (.list []) = .ok () := rfl
theorem keyed_valid_right : validateV ⟨[]⟩ false keyedTR keyedR = .ok () := rfl
theorem keyed_assoc_left : listsAssociative ⟨[]⟩ keyedTR (.list []) = true := rfl
theorem keyed_assoc_right : listsAssociative ⟨[]⟩ keyedTR keyedR = true := rfl
theorem keyed_merge : mergeNode ⟨[]⟩ 4 (some (.list [])) (some keyedR) keyedTR = .ok (some keyedOut) := by
  with_unfolding_all rfl
theorem keyed_at_right : Nodes.valueAt ⟨[]⟩ keyedTR keyedR keyedPath = some (.int 2) := rfl
theorem keyed_at_out : Nodes.valueAt ⟨[]⟩ keyedTR keyedOut keyedPath = none := rfl
theorem keyed_no_index : ∀ pe ∈ keyedPath, PE.isIndex pe = false := by
  intro pe h; simp [keyedPath] at h; rcases h with rfl | rfl <;> rfl

/-! #### non-vacuity of the re-proved statements: a keyed list of maps inside a map, a shared item, a
left-only item in front, a key element followed by a field name -/

def nvItemTR : TypeRef :=
  .mk none (.mk none none (some (.mk [.mk "name" elemTR none, .mk "x" elemTR none] [] .zero ""))) none
def nvTR : TypeRef :=
  .mk none (.mk none none (some (.mk [.mk "items" (.mk none (.mk none (some (.mk nvItemTR "associative" ["name"])) none) none) none]
    [] .zero ""))) none
def nvL : Value :=
  .map [("items", .list [.map [("name", .int 7), ("x", .int 1)], .map [("name", .int 8), ("x", .int 1)]])]
def nvR : Value :=
  .map [("items", .list [.map [("name", .int 8), ("x", .int 2)], .map [("name", .int 9)]])]
def nvOut : Value :=
  .map [("items", .list [.map [("name", .int 7), ("x", .int 1)], .map [("name", .int 8), ("x", .int 2)],
    .map [("name", .int 9)]])]
def nvPath : Path := [.field "items", .key [("name", .int 8)], .field "x"]

theorem nv_valid_left : validateV ⟨[]⟩ true nvTR nvL = .ok () := rfl
theorem nv_valid_right : validateV ⟨[]⟩ false nvTR nvR = .ok () := rfl
theorem nv_assoc_left : listsAssociative ⟨[]⟩ nvTR nvL = true := rfl
theorem nv_assoc_right : listsAssociative ⟨[]⟩ nvTR nvR = true := rfl
theorem nv_keys_left : keysScalar ⟨[]⟩ nvTR nvL = true := rfl
theorem nv_keys_right : keysScalar ⟨[]⟩ nvTR nvR = true := rfl
theorem nv_merge : mergeNode ⟨[]⟩ 5 (some nvL) (some nvR) nvTR = .ok (some nvOut) := by with_unfolding_all rfl
theorem nv_at_right : Nodes.valueAt ⟨[]⟩ nvTR nvR nvPath = some (.int 2) := rfl
theorem nv_at_out : Nodes.valueAt ⟨[]⟩ nvTR nvOut nvPath = some (.int 2) := rfl
theorem nv_no_index : ∀ pe ∈ nvPath, PE.isIndex pe = false := by
  intro pe h; simp [nvPath] at h; rcases h with rfl | rfl | rfl <;> rfl

end SMD.Counter01
