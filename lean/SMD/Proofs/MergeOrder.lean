/- helper lemmas for SMD/Properties/C12Order.lean -/
import SMD.Proofs.MergeValid
import SMD.Proofs.MergeIdem
import SMD.Proofs.CanonicalKeys
import SMD.Properties.C12Valid
import SMD.Proofs.PartitionMaps
import SMD.Proofs.MergeAssoc
set_option linter.unusedSimpArgs false
set_option linter.unusedVariables false
namespace SMD
namespace MO
open MV

/-! ### the root list of an associative list type: what the merge runs -/

/-- the run of the merging walker at the root of an associative list -/
structure RootRun (s : Schema) (t : ListT) (l r out : List Value) : Prop where
  run : (l = [] ∧ r = [] ∧ out = []) ∨
    ∃ n lpes obsL rpes obsR,
      ListFacts s t (some (.list l)) (some (.list r)) lpes obsL rpes obsR ∧
      mergeLoop (fun _ lc rc => mergeNode s n lc rc t.elementType) obsL obsR (lpes.length + (rpes.map (·.1)).length)
        lpes (rpes.map (·.1)) ((rpes.map (·.1)).filter (fun pe => (pemGet pe obsL).isSome)) [] [] = .ok out ∧
      (∀ p ∈ lpes, pemGet p.1 obsL = some p.2)

theorem rootRun (s : Schema) (tr : TypeRef) (t : ListT) (a : Atom) (l r out : List Value) (fuel : Nat)
    (hres : s.resolve tr = some a) (hlist : a.list = some t) (hrel : t.rel = "associative")
    (hl : validateV s false tr (.list l) = .ok ()) (hr : validateV s false tr (.list r) = .ok ())
    (hcl : canon (.list l) = true) (hcr : canon (.list r) = true)
    (hm : mergeNode s fuel (some (.list l)) (some (.list r)) tr = .ok (some (.list out))) :
    RootRun s t l r out := by
  obtain ⟨n, a', hf, hres', hh⟩ := mergeNode_handle s fuel _ _ tr _ hm
  rw [hres] at hres'
  cases hres'
  have hk : atomKind (deduceAtom a (keepRHS (some (.list l)) (some (.list r)))) = .list t :=
    atomKind_deduce_list a r t hlist
  have hna : t.rel ≠ "atomic" := by rw [hrel]; decide
  have hlo : OptOK s true false tr (some (.list l)) :=
    optOK_of_valid_canon s _ _ tr _ hl (keysCanon_of_canon s _ tr hcl)
  have hro : OptOK s true false tr (some (.list r)) :=
    optOK_of_valid_canon s _ _ tr _ hr (keysCanon_of_canon s _ tr hcr)
  rcases mergeHandle_list_cases s _ _ _ _ t hk _ hh with ⟨hC, h1⟩ | ⟨hC, rpes, obsR, lpes, obsL, res, hir, hil, hloop, hcase⟩
  · simp only [keepRHS, Option.some.injEq, Value.list.injEq] at h1
    subst h1
    have hat : (t.rel == "atomic") = false := by simpa using hna
    simp only [hat, Bool.false_or, Bool.and_eq_true, asList, emptyOrAbsent, List.isEmpty_iff] at hC
    exact ⟨.inl ⟨hC.1, hC.2, hC.2⟩⟩
  · rcases hcase with ⟨_, ho⟩ | ⟨_, ho⟩
    · cases ho
    · cases ho
      simp only [Bool.or_eq_false_iff] at hC
      have F := listFacts s tr a t _ _ lpes obsL rpes obsR hres hlist hna hlo hro hir hil hC.2
      refine ⟨.inr ⟨n, lpes, obsL, rpes, obsR, F, hloop, ?_⟩⟩
      have hval : validateItems s false t [] 0 l = .ok () := by
        have := hl
        rw [validateV_list, hres] at this
        simpa [hlist] using this
      obtain ⟨lp, ob, hidx, _, hget, _⟩ := indexPEs_nodup_ok s t hrel l [] 0 [] [] (by intro q; rfl) hval
      have hidx' := indexPEs_true_of_false s t l [] [] _ hidx
      have hil' : indexPEs s t true l [] [] = .ok (lpes, obsL) := hil
      rw [hil'] at hidx'
      simp only [List.reverse_nil, List.nil_append, Res.ok.injEq, Prod.mk.injEq] at hidx'
      obtain ⟨rfl, rfl⟩ := hidx'
      exact hget

/-! ### identities of the items, as `listItemToPE` gives them -/

theorem peOf'_of_identity (s : Schema) (t : ListT) (hrel : t.rel = "associative") (v : Value) (p : PE)
    (h : Conf.identity s t v = some p) : peOf' s t v = p := by
  simp only [peOf', listItemToPE_eq s t v hrel, h]

theorem idOf_of_identity (s : Schema) (t : ListT) (v : Value) (p : PE)
    (h : Conf.identity s t v = some p) : idOf s t v = p := by
  simp only [idOf, h, Option.getD_some]

theorem map_peOf'_pairs (s : Schema) (t : ListT) (hrel : t.rel = "associative") :
    ∀ ps : List (PE × Value), (∀ p ∈ ps, Conf.identity s t p.2 = some p.1) →
      (ps.map (·.2)).map (peOf' s t) = ps.map (·.1)
  | [], _ => rfl
  | p :: ps, h => by
    simp only [List.map_cons]
    rw [peOf'_of_identity s t hrel _ _ (h p List.mem_cons_self),
      map_peOf'_pairs s t hrel ps (fun q hq => h q (List.mem_cons_of_mem _ hq))]

theorem map_peOf'_idOf (s : Schema) (t : ListT) (hrel : t.rel = "associative") :
    ∀ l : List Value, (∀ v ∈ l, (Conf.identity s t v).isSome = true) → l.map (peOf' s t) = l.map (idOf s t)
  | [], _ => rfl
  | v :: vs, h => by
    obtain ⟨p, hp⟩ := Option.isSome_iff_exists.1 (h v List.mem_cons_self)
    simp only [List.map_cons]
    rw [peOf'_of_identity s t hrel _ _ hp, idOf_of_identity s t _ _ hp,
      map_peOf'_idOf s t hrel vs (fun q hq => h q (List.mem_cons_of_mem _ hq))]

theorem Path.equals_length : ∀ {a b : Path}, Path.equals a b = true → a.length = b.length
  | [], [], _ => rfl
  | [], _ :: _, h => by simp [Path.equals] at h
  | _ :: _, [], h => by simp [Path.equals] at h
  | x :: xs, y :: ys, h => by
    simp only [Path.equals, Bool.and_eq_true] at h
    simp [Path.equals_length h.2]

section
variable {s : Schema} {t : ListT} {lo ro : Option Value} {lpes obsL rpes obsR : List (PE × Value)}

/-- indexed on the right = equal to the identity of one of the right items -/
theorem inR_eq_any (F : ListFacts s t lo ro lpes obsL rpes obsR) (q : PE) :
    inR obsR q = (rpes.map (·.1)).any (fun y => PE.equals q y) := by
  cases h : inR obsR q with
  | true =>
    obtain ⟨p, hp, he⟩ := F.robs q h
    symm
    rw [List.any_eq_true]
    exact ⟨p.1, List.mem_map_of_mem hp, PE.equals_symm_of he⟩
  | false =>
    symm
    rw [List.any_eq_false]
    intro y hy he
    obtain ⟨p, hp, rfl⟩ := List.mem_map.1 hy
    unfold inR at h
    rw [pemGet_congr he, F.rget p hp] at h
    cases h

/-- every item of the merged list has an identity -/
theorem out_identity (F : ListFacts s t lo ro lpes obsL rpes obsR) (n steps : Nat) (ls : List (PE × Value))
    (shared merged : List PE) (res : List Value) (hls : ∀ p ∈ ls, p ∈ lpes)
    (hloop : mergeLoop (fun _ lc rc => mergeNode s n lc rc t.elementType) obsL obsR steps ls (rpes.map (·.1)) shared merged []
      = .ok res) : ∀ v ∈ res, (Conf.identity s t v).isSome = true := by
  intro v hv
  obtain ⟨m1, _, _, _⟩ := mergeLoop_spec _ _ _ _ _ _ _ _ _ _ hloop
  rcases m1 v hv with h0 | ⟨pe, x, hm, hn, hi⟩ | ⟨pe, rpe, hm, he, hi⟩
  · cases h0
  · rw [F.id_left n (hls _ hm) hi]; rfl
  · obtain ⟨p, hp, rfl, hget⟩ := F.right_of hm he
    rw [hget] at hi
    obtain ⟨po, hpo, _⟩ := F.id_right n hp he hi
    rw [hpo]; rfl

theorem HL_of (F : ListFacts s t lo ro lpes obsL rpes obsR) (n : Nat) :
    ∀ pe x v, (pe, x) ∈ lpes → pemGet pe obsR = none → mergeNode s n (some x) none t.elementType = .ok (some v) →
      PE.equals (idOf s t v) pe = true := by
  intro pe x v hm hn hi
  have := F.id_left n hm hi
  simp only [idOf, this, Option.getD_some]
  exact PE.equals_refl _

theorem HR_of (F : ListFacts s t lo ro lpes obsL rpes obsR) (n : Nat) :
    ∀ pe rpe v, rpe ∈ rpes.map (·.1) → PE.equals pe rpe = true →
      mergeNode s n (pemGet pe obsL) (pemGet pe obsR) t.elementType = .ok (some v) →
      PE.equals (idOf s t v) rpe = true := by
  intro pe rpe v hm he hi
  obtain ⟨p, hp, rfl, hget⟩ := F.right_of hm he
  rw [hget] at hi
  obtain ⟨po, hpo, hpe⟩ := F.id_right n hp he hi
  simp only [idOf, hpo, Option.getD_some]
  exact hpe

theorem rs_inR (F : ListFacts s t lo ro lpes obsL rpes obsR) : ∀ r ∈ rpes.map (·.1), inR obsR r = true := by
  intro r hr
  obtain ⟨p, hp, rfl⟩ := List.mem_map.1 hr
  unfold inR; rw [F.rget p hp]; rfl

end

/-- (a) the items of R keep R's relative order -/
theorem keeps_right_order (s : Schema) (tr : TypeRef) (t : ListT) (a : Atom) (l r out : List Value) (fuel : Nat)
    (hres : s.resolve tr = some a) (hlist : a.list = some t) (hrel : t.rel = "associative")
    (hl : validateV s false tr (.list l) = .ok ()) (hr : validateV s false tr (.list r) = .ok ())
    (hcl : canon (.list l) = true) (hcr : canon (.list r) = true)
    (hm : mergeNode s fuel (some (.list l)) (some (.list r)) tr = .ok (some (.list out))) :
    Path.equals ((out.map (peOf' s t)).filter (fun x => (r.map (peOf' s t)).any fun y => PE.equals x y))
      (r.map (peOf' s t)) = true := by
  obtain ⟨run⟩ := rootRun s tr t a l r out fuel hres hlist hrel hl hr hcl hcr hm
  rcases run with ⟨rfl, rfl, rfl⟩ | ⟨n, lpes, obsL, rpes, obsR, F, hloop, hget⟩
  · rfl
  · have hR : r.map (peOf' s t) = rpes.map (·.1) := by
      have := map_peOf'_pairs s t hrel rpes F.rid
      rw [F.rsnd] at this
      exact this
    have hO : out.map (peOf' s t) = out.map (idOf s t) :=
      map_peOf'_idOf s t hrel out (out_identity F n _ lpes _ _ out (fun p hp => hp) hloop)
    rw [hR, hO]
    have hal := mergeLoop_aligned_out s t _ obsL obsR
      (fun pe a b o ho => mergeNode_isSome s n a b _ o ho) _ lpes (rpes.map (·.1)) _ [] [] out [] hloop
      (HL_of F n) (HR_of F n) (rs_inR F) (by simp [Path.equals])
    simp only [List.nil_append] at hal
    rw [List.filter_congr (fun x _ => (inR_eq_any F x).symm)]
    exact hal

/-! ### the items only the left operand has come out in the order of the left operand -/

/-- one iteration of the interleaving loop, remembering that a left element dropped together with a right
element is indexed on the right -/
inductive LoopStep2 (item : PE → Option Value → Option Value → Res (Option Value)) (obsL obsR : List (PE × Value))
    (ls : List (PE × Value)) (rs : List PE) (out : List Value) :
    List (PE × Value) → List PE → List Value → Prop where
  | skip (pe : PE) (x : Value) (ls2 : List (PE × Value)) (h : ls = (pe, x) :: ls2)
      (hs : (pemGet pe obsR).isSome = true) : LoopStep2 item obsL obsR ls rs out ls2 rs out
  | left (pe : PE) (x : Value) (ls2 : List (PE × Value)) (o : Option Value) (h : ls = (pe, x) :: ls2)
      (hn : pemGet pe obsR = none) (hi : item pe (some x) none = .ok o) :
      LoopStep2 item obsL obsR ls rs out ls2 rs (pushOpt o out)
  | right (pe rpe : PE) (rs2 : List PE) (ls2 : List (PE × Value)) (o : Option Value) (h : rs = rpe :: rs2)
      (he : PE.equals pe rpe = true) (hi : item pe (pemGet pe obsL) (pemGet pe obsR) = .ok o)
      (hl : ls2 = ls ∨ ∃ y, ls = y :: ls2 ∧ ((pemGet y.1 obsR).isSome = true ∨ PE.equals y.1 rpe = true)) :
      LoopStep2 item obsL obsR ls rs out ls2 rs2 (pushOpt o out)
  | idle : LoopStep2 item obsL obsR ls rs out ls rs out

theorem mergeLoop_step2 (item : PE → Option Value → Option Value → Res (Option Value))
    (obsL obsR : List (PE × Value)) (steps : Nat) (ls : List (PE × Value)) (rs shared merged : List PE)
    (out res : List Value) (hne : ¬ (ls = [] ∧ rs = []))
    (h : mergeLoop item obsL obsR (steps + 1) ls rs shared merged out = .ok res) :
    ∃ ls2 rs2 shared2 merged2 out2,
      mergeLoop item obsL obsR steps ls2 rs2 shared2 merged2 out2 = .ok res ∧
      LoopStep2 item obsL obsR ls rs out ls2 rs2 out2 := by
  cases ls with
  | nil =>
    cases rs with
    | nil => exact absurd ⟨rfl, rfl⟩ hne
    | cons rpe rs' =>
      rw [mergeLoop] at h
      · simp only [] at h
        split at h
        · next o ho =>
          exact ⟨_, _, _, _, _, h, .right rpe rpe rs' [] o rfl (PE.equals_refl _) ho (.inl rfl)⟩
        · cases h
        · cases h
      · simp
  | cons p ls' =>
    obtain ⟨pe, x⟩ := p
    cases rs with
    | nil =>
      rw [mergeLoop] at h
      · simp only [] at h
        split at h
        · next hn =>
          split at h
          · next o ho =>
            exact ⟨_, _, _, _, _, h, .left pe x ls' o rfl (by simpa using hn) ho⟩
          · cases h
          · cases h
        · next hn =>
          split at h
          · exact ⟨_, _, _, _, _, h, .skip pe x ls' rfl (by cases hg : pemGet pe obsR <;> simp_all)⟩
          · exact ⟨_, _, _, _, _, h, .idle⟩
      · simp
    | cons rpe rs' =>
      rw [mergeLoop] at h
      simp only [] at h
      split at h
      · next he =>
        split at h
        · next o ho => exact ⟨_, _, _, _, _, h, .right pe rpe rs' ls' o rfl he ho (.inr ⟨_, rfl, .inr he⟩)⟩
        · cases h
        · cases h
      · split at h
        · next hc =>
          simp only [Bool.and_eq_true] at hc
          exact ⟨_, _, _, _, _, h, .skip pe x ls' rfl hc.1.1⟩
        · split at h
          · next hn =>
            split at h
            · next o ho =>
              exact ⟨_, _, _, _, _, h, .left pe x ls' o rfl (by simpa using hn) ho⟩
            · cases h
            · cases h
          · next hn =>
            have hs : (pemGet pe obsR).isSome = true := by cases hg : pemGet pe obsR <;> simp_all
            split at h
            · split at h
              · next o ho =>
                exact ⟨_, _, _, _, _, h, .right rpe rpe rs' ls' o rfl (PE.equals_refl _) ho (.inr ⟨_, rfl, .inl hs⟩)⟩
              · cases h
              · cases h
            · split at h
              · next o ho =>
                exact ⟨_, _, _, _, _, h, .right rpe rpe rs' _ o rfl (PE.equals_refl _) ho (.inl rfl)⟩
              · cases h
              · cases h

/-- not indexed on the right -/
def notR (obsR : List (PE × Value)) (q : PE) : Bool := !inR obsR q

theorem mergeLoop_left_only_order (s : Schema) (t : ListT)
    (item : PE → Option Value → Option Value → Res (Option Value)) (obsL obsR : List (PE × Value))
    (hsome : ∀ pe a b o, item pe a b = .ok o → o.isSome = true) :
    ∀ (steps : Nat) (ls : List (PE × Value)) (rs shared merged : List PE) (out res : List Value) (done : List PE),
      mergeLoop item obsL obsR steps ls rs shared merged out = .ok res →
      (∀ pe x v, (pe, x) ∈ ls → pemGet pe obsR = none → item pe (some x) none = .ok (some v) →
        PE.equals (idOf s t v) pe = true) →
      (∀ pe rpe v, rpe ∈ rs → PE.equals pe rpe = true → item pe (pemGet pe obsL) (pemGet pe obsR) = .ok (some v) →
        PE.equals (idOf s t v) rpe = true) →
      (∀ r ∈ rs, inR obsR r = true) →
      Path.equals ((out.reverse.map (idOf s t)).filter (notR obsR)) done = true →
      Path.equals ((res.map (idOf s t)).filter (notR obsR)) (done ++ (ls.map (·.1)).filter (notR obsR)) = true := by
  intro steps
  induction steps with
  | zero =>
    intro ls rs shared merged out res done h HL HR hrs hal
    by_cases hne : ls = [] ∧ rs = []
    · obtain ⟨rfl, rfl⟩ := hne
      rw [mergeLoop_nil] at h
      cases h
      simpa using hal
    · rw [mergeLoop] at h
      · cases h
      · intro h1 h2; exact hne ⟨h1, h2⟩
  | succ n ih =>
    intro ls rs shared merged out res done h HL HR hrs hal
    by_cases hne : ls = [] ∧ rs = []
    · obtain ⟨rfl, rfl⟩ := hne
      rw [mergeLoop_nil] at h
      cases h
      simpa using hal
    · obtain ⟨ls2, rs2, shared2, merged2, out2, h2, hstep⟩ := mergeLoop_step2 item obsL obsR n ls rs shared merged out res hne h
      cases hstep with
      | skip pe x _ hls hs =>
        subst hls
        have := ih _ _ _ _ _ _ _ h2 (fun pe' x' v hm => HL pe' x' v (List.mem_cons_of_mem _ hm)) HR hrs hal
        have hin : notR obsR pe = false := by simp [notR, inR, hs]
        simpa [List.filter_cons, hin] using this
      | left pe x _ o hls hn hi =>
        subst hls
        have hso := hsome _ _ _ _ hi
        cases o with
        | none => cases hso
        | some v =>
          have hpo := HL pe x v List.mem_cons_self hn hi
          have hnv : notR obsR (idOf s t v) = true := by
            simp only [notR, inR]; rw [pemGet_congr hpo, hn]; rfl
          have hnp : notR obsR pe = true := by
            simp only [notR, inR]; rw [hn]; rfl
          have := ih _ _ _ _ _ _ (done ++ [pe]) h2 (fun pe' x' v hm => HL pe' x' v (List.mem_cons_of_mem _ hm)) HR hrs (by
            simp only [pushOpt, List.reverse_cons, List.map_append, List.map_cons, List.map_nil, List.filter_append,
              List.filter_cons, hnv, if_true, List.filter_nil]
            exact Path.equals_append hal (by simp [Path.equals, hpo]))
          simpa [List.filter_cons, hnp] using this
      | right pe rpe _ _ o hrs' he hi hl =>
        subst hrs'
        have hso := hsome _ _ _ _ hi
        cases o with
        | none => cases hso
        | some v =>
          have hpo := HR pe rpe v List.mem_cons_self he hi
          have hrin := hrs rpe List.mem_cons_self
          have hnv : notR obsR (idOf s t v) = false := by
            simp only [notR, inR] at hrin ⊢; rw [pemGet_congr hpo, hrin]; rfl
          have hsub : ∀ p ∈ ls2, p ∈ ls := by
            rcases hl with rfl | ⟨y, rfl, _⟩
            · exact fun p hp => hp
            · exact fun p hp => List.mem_cons_of_mem _ hp
          have := ih _ _ _ _ _ _ done h2 (fun pe' x' v hm => HL pe' x' v (hsub _ hm))
            (fun pe' r' v hm => HR pe' r' v (List.mem_cons_of_mem _ hm))
            (fun r hr => hrs r (List.mem_cons_of_mem _ hr)) (by
              simp only [pushOpt, List.reverse_cons, List.map_append, List.map_cons, List.map_nil, List.filter_append,
                List.filter_cons, hnv, Bool.false_eq_true, if_false, List.filter_nil, List.append_nil]
              exact hal)
          rcases hl with rfl | ⟨y, rfl, hy⟩
          · exact this
          · have hny : notR obsR y.1 = false := by
              rcases hy with hy | hy
              · simp [notR, inR, hy]
              · simp only [notR, inR] at hrin ⊢; rw [pemGet_congr hy, hrin]; rfl
            simpa [List.filter_cons, hny] using this
      | idle => exact ih _ _ _ _ _ _ _ h2 HL HR hrs hal

/-- (b) the items only L has keep L's relative order -/
theorem keeps_left_only_order (s : Schema) (tr : TypeRef) (t : ListT) (a : Atom) (l r out : List Value) (fuel : Nat)
    (hres : s.resolve tr = some a) (hlist : a.list = some t) (hrel : t.rel = "associative")
    (hl : validateV s false tr (.list l) = .ok ()) (hr : validateV s false tr (.list r) = .ok ())
    (hcl : canon (.list l) = true) (hcr : canon (.list r) = true)
    (hm : mergeNode s fuel (some (.list l)) (some (.list r)) tr = .ok (some (.list out))) :
    Path.equals ((out.map (peOf' s t)).filter (fun x => !(r.map (peOf' s t)).any fun y => PE.equals x y))
      ((l.map (peOf' s t)).filter (fun x => !(r.map (peOf' s t)).any fun y => PE.equals x y)) = true := by
  obtain ⟨run⟩ := rootRun s tr t a l r out fuel hres hlist hrel hl hr hcl hcr hm
  rcases run with ⟨rfl, rfl, rfl⟩ | ⟨n, lpes, obsL, rpes, obsR, F, hloop, hget⟩
  · rfl
  · have hR : r.map (peOf' s t) = rpes.map (·.1) := by
      have := map_peOf'_pairs s t hrel rpes F.rid
      rw [F.rsnd] at this
      exact this
    have hL : l.map (peOf' s t) = lpes.map (·.1) := by
      have := map_peOf'_pairs s t hrel lpes F.lid
      rw [F.lsnd] at this
      exact this
    have hO : out.map (peOf' s t) = out.map (idOf s t) :=
      map_peOf'_idOf s t hrel out (out_identity F n _ lpes _ _ out (fun p hp => hp) hloop)
    rw [hR, hO, hL]
    have hal := mergeLoop_left_only_order s t _ obsL obsR
      (fun pe a b o ho => mergeNode_isSome s n a b _ o ho) _ lpes (rpes.map (·.1)) _ [] [] out [] hloop
      (HL_of F n) (HR_of F n) (rs_inR F) (by simp [Path.equals])
    simp only [List.nil_append] at hal
    have hc : ∀ x, (!(rpes.map (·.1)).any fun y => PE.equals x y) = notR obsR x := by
      intro x; rw [notR, inR_eq_any F x]
    rw [List.filter_congr (fun x _ => hc x), List.filter_congr (fun x _ => hc x)]
    exact hal

/-! ### a merge that adds no member keeps the order of the left operand -/

theorem Path.equals_mem_right : ∀ {a b : Path}, Path.equals a b = true → ∀ y ∈ b, ∃ x ∈ a, PE.equals x y = true
  | [], [], _, y, hy => by cases hy
  | [], _ :: _, h, _, _ => by simp [Path.equals] at h
  | _ :: _, [], h, _, _ => by simp [Path.equals] at h
  | x :: xs, y :: ys, h, y', hy' => by
    simp only [Path.equals, Bool.and_eq_true] at h
    rcases List.mem_cons.1 hy' with rfl | hy'
    · exact ⟨x, List.mem_cons_self, h.1⟩
    · obtain ⟨x', hx', he⟩ := Path.equals_mem_right h.2 y' hy'
      exact ⟨x', List.mem_cons_of_mem _ hx', he⟩

theorem relL_ids (s : Schema) (t : ListT) (item : PE → Option Value → Option Value → Res (Option Value))
    (obsR : List (PE × Value)) :
    ∀ (ls : List (PE × Value)) (outs : List Value), RelL item obsR ls outs →
      (∀ p ∈ ls, ∀ v, item p.1 (some p.2) (pemGet p.1 obsR) = .ok (some v) → PE.equals (idOf s t v) p.1 = true) →
      Path.equals (outs.map (idOf s t)) (ls.map (·.1)) = true
  | [], [], _, _ => rfl
  | [], _ :: _, h, _ => by cases h
  | _ :: _, [], h, _ => by cases h
  | p :: ps, v :: vs, h, hv => by
    obtain ⟨h1, h2⟩ := h
    simp only [List.map_cons, Path.equals, Bool.and_eq_true]
    exact ⟨hv p List.mem_cons_self v h1, relL_ids s t item obsR ps vs h2
      (fun p' hp' => hv p' (List.mem_cons_of_mem _ hp'))⟩

/-- (c) when every identity of R is in L, in the same relative order, the result keeps L's order -/
theorem adds_nothing_keeps_order (s : Schema) (tr : TypeRef) (t : ListT) (a : Atom) (l r out : List Value) (fuel : Nat)
    (hres : s.resolve tr = some a) (hlist : a.list = some t) (hrel : t.rel = "associative")
    (hl : validateV s false tr (.list l) = .ok ()) (hr : validateV s false tr (.list r) = .ok ())
    (hcl : canon (.list l) = true) (hcr : canon (.list r) = true)
    (hsub : Path.equals ((l.map (peOf' s t)).filter (fun x => (r.map (peOf' s t)).any fun y => PE.equals x y))
      (r.map (peOf' s t)) = true)
    (hm : mergeNode s fuel (some (.list l)) (some (.list r)) tr = .ok (some (.list out))) :
    Path.equals (out.map (peOf' s t)) (l.map (peOf' s t)) = true := by
  obtain ⟨run⟩ := rootRun s tr t a l r out fuel hres hlist hrel hl hr hcl hcr hm
  rcases run with ⟨rfl, rfl, rfl⟩ | ⟨n, lpes, obsL, rpes, obsR, F, hloop, hget⟩
  · rfl
  · have hR : r.map (peOf' s t) = rpes.map (·.1) := by
      have := map_peOf'_pairs s t hrel rpes F.rid
      rw [F.rsnd] at this
      exact this
    have hL : l.map (peOf' s t) = lpes.map (·.1) := by
      have := map_peOf'_pairs s t hrel lpes F.lid
      rw [F.lsnd] at this
      exact this
    have hO : out.map (peOf' s t) = out.map (idOf s t) :=
      map_peOf'_idOf s t hrel out (out_identity F n _ lpes _ _ out (fun p hp => hp) hloop)
    rw [hR, hL, List.filter_congr (fun x _ => (inR_eq_any F x).symm)] at hsub
    rw [hO, hL]
    have hshared : (rpes.map (·.1)).filter (fun pe => (pemGet pe obsL).isSome) = rpes.map (·.1) := by
      rw [List.filter_eq_self]
      intro y hy
      obtain ⟨x, hx, he⟩ := Path.equals_mem_right hsub y hy
      obtain ⟨p, hp, rfl⟩ := List.mem_map.1 (List.mem_filter.1 hx).1
      rw [← pemGet_congr he, hget p hp]; rfl
    rw [hshared] at hloop
    obtain ⟨outs, e1, e2⟩ := MV.mergeLoop_aligned _ obsL obsR
      (fun pe a b o ho => mergeNode_isSome s n a b _ o ho) _ lpes (rpes.map (·.1)) [] [] out hloop
      hget (rs_inR F) hsub
    simp only [List.reverse_nil, List.nil_append] at e1
    subst e1
    apply relL_ids s t _ obsR lpes out e2
    intro p hp v hv
    cases hg : pemGet p.1 obsR with
    | none =>
      rw [hg] at hv
      exact HL_of F n p.1 p.2 v hp hg hv
    | some w =>
      obtain ⟨p', hp', he'⟩ := F.robs p.1 (by rw [hg]; rfl)
      have he : PE.equals p.1 p'.1 = true := PE.equals_symm_of he'
      rw [← hget p hp] at hv
      exact PE.equals_trans (HR_of F n p.1 p'.1 v (List.mem_map_of_mem hp') he hv) he'

end MO
end SMD
