/- helper lemmas for SMD/Properties/C12Valid.lean -/
import SMD.Proofs.MergeLaws
import SMD.Proofs.MergeNodes
import SMD.Proofs.ValidateExact
import SMD.Proofs.OpsTotal
import SMD.Properties.C12
import SMD.Properties.C13
import SMD.Properties.C15
import SMD.Proofs.MergeValidCore
import SMD.Proofs.MergeFieldSetLaws
import SMD.Proofs.MergeIdem
import SMD.Proofs.MergeValidCounterexamples
namespace SMD
namespace MV
open CmpX

/-- an accepted operand, in the form the helper theorems take -/
theorem optOK_of_valid (s : Schema) (ks d : Bool) (tr : TypeRef) (v : Value)
    (hv : validateV s d tr v = .ok ()) (hk : ks = true → keysScalar s tr v = true) :
    OptOK s ks d tr (some v) := by
  intro w hw
  cases hw
  exact ⟨(validateV_iff s d v tr).1 hv, fun h => keysCanon_of_scalar s v tr (hk h)⟩

/-- an accepted operand whose keyed lists carry canonical key fields, in the form the helper theorems take -/
theorem optOK_of_valid_canon (s : Schema) (ks d : Bool) (tr : TypeRef) (v : Value)
    (hv : validateV s d tr v = .ok ()) (hk : keysCanon s tr v = true) :
    OptOK s ks d tr (some v) := by
  intro w hw
  cases hw
  exact ⟨(validateV_iff s d v tr).1 hv, fun _ => hk⟩

/-- the result of a merge is accepted (repeats allowed on the left and in the result) -/
theorem merge_valid (s : Schema) (tr : TypeRef) (l r out : Value) (fuel : Nat)
    (hl : validateV s true tr l = .ok ()) (hr : validateV s false tr r = .ok ())
    (hm : mergeNode s fuel (some l) (some r) tr = .ok (some out)) :
    validateV s true tr out = .ok () := by
  rw [validateV_iff]
  exact merge_conforms s true fuel (some l) (some r) tr out
    (optOK_of_valid s _ _ tr l hl (by intro h; cases h)) (optOK_of_valid s _ _ tr r hr (by intro h; cases h)) hm

/-- …and repeat-free when both operands are and their keyed lists carry scalar key fields -/
theorem merge_valid_dupfree (s : Schema) (tr : TypeRef) (l r out : Value) (fuel : Nat)
    (hl : validateV s false tr l = .ok ()) (hr : validateV s false tr r = .ok ())
    (hkl : keysScalar s tr l = true) (hkr : keysScalar s tr r = true)
    (hm : mergeNode s fuel (some l) (some r) tr = .ok (some out)) :
    validateV s false tr out = .ok () := by
  rw [validateV_iff]
  exact merge_conforms s false fuel (some l) (some r) tr out
    (optOK_of_valid s _ _ tr l hl (fun _ => hkl)) (optOK_of_valid s _ _ tr r hr (fun _ => hkr)) hm

theorem merge_fieldset_sub_union (s : Schema) (tr : TypeRef) (l r out : Value) (fuel : Nat)
    (fl fr fo : List Path)
    (hl : validateV s false tr l = .ok ()) (hr : validateV s false tr r = .ok ())
    (hkl : keysScalar s tr l = true) (hkr : keysScalar s tr r = true)
    (hm : mergeNode s fuel (some l) (some r) tr = .ok (some out))
    (hfl : fsV s tr l = .ok fl) (hfr : fsV s tr r = .ok fr) (hfo : fsV s tr out = .ok fo) (p : Path)
    (hp : (SetTrie.ofPaths fo).has p = true) :
    (SetTrie.ofPaths fl).has p = true ∨ (SetTrie.ofPaths fr).has p = true := by
  rw [has_ofPaths_pmem, Bool.and_eq_true] at hp
  rw [has_ofPaths_pmem, has_ofPaths_pmem, hp.1]
  simp only [Bool.true_and]
  rcases merge_fs_sub s fuel (some l) (some r) tr out (optOK_of_valid s _ _ tr l hl (fun _ => hkl))
      (optOK_of_valid s _ _ tr r hr (fun _ => hkr)) hm fo p hfo hp.2 with ⟨v, ps, hv, hps, hmem⟩ | ⟨v, ps, hv, hps, hmem⟩
  · cases hv
    rw [hfl] at hps
    cases hps
    exact .inl hmem
  · cases hv
    rw [hfr] at hps
    cases hps
    exact .inr hmem

theorem merge_fieldset_right_sub (s : Schema) (tr : TypeRef) (l r out : Value) (fuel : Nat)
    (fr fo : List Path)
    (hl : validateV s false tr l = .ok ()) (hr : validateV s false tr r = .ok ())
    (hkl : keysScalar s tr l = true) (hkr : keysScalar s tr r = true) (hpl : entriesPlain s tr r = true)
    (hm : mergeNode s fuel (some l) (some r) tr = .ok (some out))
    (hfr : fsV s tr r = .ok fr) (hfo : fsV s tr out = .ok fo) (p : Path)
    (hp : (SetTrie.ofPaths fr).has p = true) : (SetTrie.ofPaths fo).has p = true := by
  rw [has_ofPaths_pmem, Bool.and_eq_true] at hp
  rw [has_ofPaths_pmem, hp.1]
  simp only [Bool.true_and]
  obtain ⟨fo', hfo', hmem⟩ := merge_fs_right s fuel (some l) r tr out (optOK_of_valid s _ _ tr l hl (fun _ => hkl))
    (optOK_of_valid s _ _ tr r hr (fun _ => hkr)) hpl hm fr p hfr hp.2
  rw [hfo] at hfo'
  cases hfo'
  exact hmem

theorem merge_idempotent (s : Schema) (tr : TypeRef) (l r out out2 : Value) (fuel fuel2 : Nat)
    (hl : validateV s false tr l = .ok ()) (hr : validateV s false tr r = .ok ())
    (hkl : keysScalar s tr l = true) (hkr : keysScalar s tr r = true)
    (hm : mergeNode s fuel (some l) (some r) tr = .ok (some out))
    (hm2 : mergeNode s fuel2 (some out) (some r) tr = .ok (some out2)) :
    Value.equals out2 out = true :=
  merge_idem s fuel (some l) (some r) tr out out2 fuel2 (optOK_of_valid s _ _ tr l hl (fun _ => hkl))
    (optOK_of_valid s _ _ tr r hr (fun _ => hkr)) hm hm2

/-! ### the same laws for operands whose keyed lists carry canonical key fields (`keysCanon`) -/

theorem merge_valid_dupfree_canon (s : Schema) (tr : TypeRef) (l r out : Value) (fuel : Nat)
    (hl : validateV s false tr l = .ok ()) (hr : validateV s false tr r = .ok ())
    (hkl : keysCanon s tr l = true) (hkr : keysCanon s tr r = true)
    (hm : mergeNode s fuel (some l) (some r) tr = .ok (some out)) :
    validateV s false tr out = .ok () := by
  rw [validateV_iff]
  exact merge_conforms s false fuel (some l) (some r) tr out
    (optOK_of_valid_canon s _ _ tr l hl hkl) (optOK_of_valid_canon s _ _ tr r hr hkr) hm

theorem merge_idempotent_canon (s : Schema) (tr : TypeRef) (l r out out2 : Value) (fuel fuel2 : Nat)
    (hl : validateV s false tr l = .ok ()) (hr : validateV s false tr r = .ok ())
    (hkl : keysCanon s tr l = true) (hkr : keysCanon s tr r = true)
    (hm : mergeNode s fuel (some l) (some r) tr = .ok (some out))
    (hm2 : mergeNode s fuel2 (some out) (some r) tr = .ok (some out2)) :
    Value.equals out2 out = true :=
  merge_idem s fuel (some l) (some r) tr out out2 fuel2 (optOK_of_valid_canon s _ _ tr l hl hkl)
    (optOK_of_valid_canon s _ _ tr r hr hkr) hm hm2

end MV
end SMD
