/-
C12, validity of the result of a merge: the result of merging an accepted object (repeats allowed or
not) with an accepted repeat-free object is accepted; it is repeat-free when both operands are and the
key fields carried by the items of their keyed lists are canonical values (`keysCanon`; scalars are, and
so is every key field of a canonical operand).
-/
import SMD.Proofs.MergeLaws
import SMD.Proofs.MergeNodes
import SMD.Proofs.ValidateExact
import SMD.Proofs.OpsTotal
set_option linter.unusedSimpArgs false
set_option linter.unusedVariables false
namespace SMD
namespace MV

/-! ### one level of `mergeNode` -/

theorem mergeNode_handle (s : Schema) (fuel : Nat) (lo ro : Option Value) (tr : TypeRef) (o : Option Value)
    (h : mergeNode s fuel lo ro tr = .ok o) :
    ∃ n a, fuel = n + 1 ∧ s.resolve tr = some a ∧
      mergeHandle s (mergeNode s n) lo ro (deduceAtom a (keepRHS lo ro)) = .ok o := by
  cases ro with
  | some r => exact mergeNode_some_right s fuel lo r tr o h
  | none =>
    cases lo with
    | none => exact absurd h (mergeNode_none_none s fuel tr o)
    | some l => exact mergeNode_none_right s fuel l tr o h

theorem keepRHS_cases (lo ro : Option Value) (v : Value) (h : some v = keepRHS lo ro) :
    ro = some v ∨ (ro = none ∧ lo = some v) := by
  cases ro with
  | some r => simp only [keepRHS] at h; cases h; exact .inl rfl
  | none => simp only [keepRHS] at h; exact .inr ⟨rfl, h.symm⟩

/-! ### the reference validator, entry by entry -/

def entryOK (s : Schema) (d : Bool) (mt : MapT) (k : String) (v : Value) : Bool :=
  match mt.findField k with
  | some sf => Conf.conforms s d sf.type v
  | none => !mt.elementType.isZero && Conf.conforms s d mt.elementType v

theorem conformsFields_iff (s : Schema) (d : Bool) (mt : MapT) :
    ∀ m : List (String × Value), Conf.conformsFields s d mt m = true ↔ ∀ x ∈ m, entryOK s d mt x.1 x.2 = true
  | [] => by simp [Conf.conformsFields]
  | (k, v) :: rest => by
    have ih := conformsFields_iff s d mt rest
    have e : Conf.conformsFields s d mt ((k, v) :: rest) = (entryOK s d mt k v && Conf.conformsFields s d mt rest) := rfl
    simp only [e, Bool.and_eq_true, ih, List.mem_cons, forall_eq_or_imp]

theorem entryOK_iff (s : Schema) (d : Bool) (mt : MapT) (k : String) (v : Value) :
    entryOK s d mt k v = true ↔
      (mt.findField k = none → mt.elementType.isZero = false) ∧ Conf.conforms s d (fieldType mt k) v = true := by
  unfold entryOK fieldType
  cases mt.findField k <;> simp

theorem conformsAll_iff (s : Schema) (d : Bool) (tr : TypeRef) :
    ∀ l : List Value, Conf.conformsAll s d tr l = true ↔ ∀ v ∈ l, Conf.conforms s d tr v = true
  | [] => by simp [Conf.conformsAll]
  | v :: vs => by
    have ih := conformsAll_iff s d tr vs
    simp only [Conf.conformsAll, Bool.and_eq_true, ih, List.mem_cons, forall_eq_or_imp]

theorem conforms_map_eq (s : Schema) (d : Bool) (tr : TypeRef) (a : Atom) (mt : MapT) (m : List (String × Value))
    (hres : s.resolve tr = some a) (ha : a.map = some mt) :
    Conf.conforms s d tr (.map m) = Conf.conformsFields s d mt m := by
  simp only [Conf.conforms, hres, ha]

theorem conforms_list_eq (s : Schema) (d : Bool) (tr : TypeRef) (a : Atom) (lt : ListT) (l : List Value)
    (hres : s.resolve tr = some a) (ha : a.list = some lt) :
    Conf.conforms s d tr (.list l) =
      if lt.rel == "associative" then
        (l.map (Conf.identity s lt)).all Option.isSome &&
          (d || Conf.distinct ((l.map (Conf.identity s lt)).filterMap id)) && Conf.conformsAll s d lt.elementType l
      else Conf.conformsAll s d lt.elementType l := by
  simp only [Conf.conforms, hres, ha]

theorem conforms_null_of (s : Schema) (d d' : Bool) (tr : TypeRef) (c : Value)
    (h : Conf.conforms s d tr c = true) : Conf.conforms s d' tr .null = true := by
  rw [← validateV_iff] at h ⊢
  exact validateV_null_of_valid s d d' tr c h

theorem conforms_mono (s : Schema) (d : Bool) (tr : TypeRef) (v : Value)
    (h : Conf.conforms s false tr v = true) : Conf.conforms s d tr v = true := by
  cases d with
  | false => exact h
  | true => exact conforms_dup_mono s v tr h

/-! ### distinct identities -/

def NE (a b : PE) : Prop := PE.equals a b = false

theorem NE.symm {a b : PE} (h : NE a b) : NE b a := by
  unfold NE at *; rw [PE.equals_comm]; exact h

theorem distinct_iff : ∀ l : List PE, Conf.distinct l = true ↔ l.Pairwise NE
  | [] => by simp [Conf.distinct]
  | x :: xs => by
    have ih := distinct_iff xs
    simp only [Conf.distinct, Bool.and_eq_true, ih, List.pairwise_cons, Bool.not_eq_true', List.any_eq_false, NE]
    constructor
    · rintro ⟨h1, h2⟩
      exact ⟨fun y hy => by simpa using h1 y hy, h2⟩
    · rintro ⟨h1, h2⟩
      exact ⟨fun y hy => by simp [h1 y hy], h2⟩

theorem ne_of_equals_left {a b c : PE} (h : PE.equals a b = true) (hn : NE b c) : NE a c := by
  unfold NE at *
  rw [PE.equals_congr_left h]; exact hn

theorem ne_of_get {β : Type} {a b : PE} (m : List (PE × β)) (ha : pemGet a m = none) (hb : (pemGet b m).isSome = true) :
    NE a b := by
  unfold NE
  cases he : PE.equals a b with
  | false => rfl
  | true => rw [pemGet_congr he, ] at ha; rw [ha] at hb; cases hb

/-! ### a merged item has an identity -/

theorem validateV_scalar_dup (s : Schema) (d d' : Bool) (tr : TypeRef) (v : Value) (h : v.isScalar = true) :
    validateV s d tr v = validateV s d' tr v := by
  rw [validateV_scalar s d tr v h, validateV_scalar s d' tr v h]

/-- the identity of `it`, an item with an identity accepted at the element type, survives merging when
`it` is the right operand or the only operand -/
theorem merge_identity_isSome (s : Schema) (t : ListT) (d : Bool) (fuel : Nat) (lc rc : Option Value) (it v : Value)
    (hit : some it = keepRHS lc rc)
    (hid : (Conf.identity s t it).isSome = true) (hv : validateV s d t.elementType it = .ok ())
    (h : mergeNode s fuel lc rc t.elementType = .ok (some v)) : (Conf.identity s t v).isSome = true := by
  obtain ⟨p, hp⟩ := Option.isSome_iff_exists.1 hid
  cases hk : t.keys.isEmpty with
  | true =>
    obtain ⟨hs, _⟩ := identity_set s t hk it p hp
    rcases keepRHS_cases lc rc it hit with hr | ⟨hr, hl⟩
    · subst hr
      rw [validateV_scalar_dup s d false _ it hs] at hv
      have := merge_scalar_right s fuel lc it _ _ hv hs h
      cases this; exact hid
    · subst hr hl
      have := merge_scalar_left s fuel it _ _ hs h
      cases this; exact hid
  | false =>
    obtain ⟨im, rfl⟩ := identity_not_map s t hk it p hp
    obtain ⟨n, a, _, hres, hh⟩ := mergeNode_handle s fuel lc rc _ _ h
    rw [← hit] at hh
    rw [validateV_map, hres] at hv
    simp only [] at hv
    cases hmap : a.map with
    | none => rw [hmap] at hv; cases hv
    | some mt =>
      rw [deduceAtom_map a im mt hmap] at hh
      rcases mergeHandle_map s _ _ _ _ mt rfl _ hh with h1 | ⟨outm, hf, hc, _, h2⟩
      · rw [← hit] at h1; cases h1; exact hid
      · rcases h2 with ⟨_, ho⟩ | ⟨_, ho⟩
        · cases ho
        · cases ho
          have himk := ((identity_keyed_some s t im hk p).1 hp).1
          have hlook : ∀ k, lookupField k ((asMap lc).getD []) = none → lookupField k ((asMap rc).getD []) = none →
              lookupField k im = none := by
            intro k h1 h2
            rcases keepRHS_cases lc rc _ hit with hr | ⟨hr, hl⟩
            · subst hr; exact h2
            · subst hr hl; exact h1
          have hsome : ∀ k ∈ t.keys, (keyVal s t outm k).isSome = true := by
            intro k hkm
            obtain ⟨l1, l2⟩ := mergedMap_lookup _ mt _ _ outm hf k
            cases ho : lookupField k outm with
            | some v' => rw [keyVal_of_lookup_some s t _ k _ ho]; rfl
            | none =>
              rcases l2 ho with ⟨h1, h2⟩ | h'
              · rw [keyVal_of_lookup_none s t outm im k ho (hlook k h1 h2)]
                exact himk k hkm
              · have := mergeNode_isSome s _ _ _ _ _ h'; cases this
          rw [(identity_keyed_some s t outm hk _).2 ⟨hsome, rfl⟩]
          rfl

/-! ### the interleaving loop keeps identities apart -/

/-- the identity of an item (`invalid` when it has none) -/
def idOf (s : Schema) (t : ListT) (v : Value) : PE := (Conf.identity s t v).getD .invalid

/-- the elements still to be visited are pairwise distinct, and so are the identities of the items
emitted so far; an emitted item stems from a left-only element (not indexed on the right, distinct from
the left elements to come) or from a right element (distinct from the right elements to come) -/
structure LoopInv (s : Schema) (t : ListT) (obsR : List (PE × Value)) (ls : List (PE × Value)) (rs : List PE)
    (out : List Value) : Prop where
  lsd : ls.Pairwise (fun a b => NE a.1 b.1)
  rsd : rs.Pairwise NE
  rsome : ∀ r ∈ rs, (pemGet r obsR).isSome = true
  outd : (out.map (idOf s t)).Pairwise NE
  cls : ∀ v ∈ out, (pemGet (idOf s t v) obsR = none ∧ ∀ p ∈ ls, NE (idOf s t v) p.1) ∨
      ((pemGet (idOf s t v) obsR).isSome = true ∧ ∀ r ∈ rs, NE (idOf s t v) r)

theorem LoopInv.shrink {s : Schema} {t : ListT} {obsR : List (PE × Value)} {ls ls2 : List (PE × Value)}
    {rs rs2 : List PE} {out : List Value} (h : LoopInv s t obsR ls rs out)
    (hl : ls2 = ls ∨ ∃ y, ls = y :: ls2) (hr : rs2 = rs ∨ ∃ y, rs = y :: rs2) : LoopInv s t obsR ls2 rs2 out := by
  have hls : ∀ p ∈ ls2, p ∈ ls := by
    rcases hl with rfl | ⟨y, rfl⟩
    · exact fun p hp => hp
    · exact fun p hp => List.mem_cons_of_mem _ hp
  have hrs : ∀ p ∈ rs2, p ∈ rs := by
    rcases hr with rfl | ⟨y, rfl⟩
    · exact fun p hp => hp
    · exact fun p hp => List.mem_cons_of_mem _ hp
  refine ⟨?_, ?_, fun r hr' => h.rsome r (hrs r hr'), h.outd, fun v hv => ?_⟩
  · rcases hl with rfl | ⟨y, rfl⟩
    · exact h.lsd
    · exact (List.pairwise_cons.1 h.lsd).2
  · rcases hr with rfl | ⟨y, rfl⟩
    · exact h.rsd
    · exact (List.pairwise_cons.1 h.rsd).2
  · rcases h.cls v hv with ⟨h1, h2⟩ | ⟨h1, h2⟩
    · exact .inl ⟨h1, fun p hp => h2 p (hls p hp)⟩
    · exact .inr ⟨h1, fun r hr' => h2 r (hrs r hr')⟩

/-- emitting the item of the left-only head element -/
theorem LoopInv.pushLeft {s : Schema} {t : ListT} {obsR : List (PE × Value)} {ls2 : List (PE × Value)}
    {rs : List PE} {out : List Value} {pe : PE} {x v : Value}
    (h : LoopInv s t obsR ((pe, x) :: ls2) rs out) (hn : pemGet pe obsR = none)
    (hpo : PE.equals (idOf s t v) pe = true) : LoopInv s t obsR ls2 rs (v :: out) := by
  have hget : pemGet (idOf s t v) obsR = none := by rw [pemGet_congr hpo]; exact hn
  have hls := List.pairwise_cons.1 h.lsd
  refine ⟨hls.2, h.rsd, h.rsome, ?_, fun w hw => ?_⟩
  · rw [List.map_cons, List.pairwise_cons]
    refine ⟨fun q hq => ?_, h.outd⟩
    obtain ⟨w, hw, rfl⟩ := List.mem_map.1 hq
    rcases h.cls w hw with ⟨_, h2⟩ | ⟨h1, _⟩
    · exact ne_of_equals_left hpo (h2 (pe, x) List.mem_cons_self).symm
    · exact ne_of_get obsR hget h1
  · rcases List.mem_cons.1 hw with rfl | hw
    · exact .inl ⟨hget, fun p hp => ne_of_equals_left hpo (hls.1 p hp)⟩
    · rcases h.cls w hw with ⟨h1, h2⟩ | ⟨h1, h2⟩
      · exact .inl ⟨h1, fun p hp => h2 p (List.mem_cons_of_mem _ hp)⟩
      · exact .inr ⟨h1, h2⟩

/-- emitting the item of the head right element -/
theorem LoopInv.pushRight {s : Schema} {t : ListT} {obsR : List (PE × Value)} {ls ls2 : List (PE × Value)}
    {rs2 : List PE} {out : List Value} {rpe : PE} {v : Value}
    (h : LoopInv s t obsR ls (rpe :: rs2) out) (hl : ls2 = ls ∨ ∃ y, ls = y :: ls2)
    (hpo : PE.equals (idOf s t v) rpe = true) : LoopInv s t obsR ls2 rs2 (v :: out) := by
  have hsome : (pemGet (idOf s t v) obsR).isSome = true := by
    rw [pemGet_congr hpo]; exact h.rsome rpe List.mem_cons_self
  have hrs := List.pairwise_cons.1 h.rsd
  have hls : ∀ p ∈ ls2, p ∈ ls := by
    rcases hl with rfl | ⟨y, rfl⟩
    · exact fun p hp => hp
    · exact fun p hp => List.mem_cons_of_mem _ hp
  refine ⟨?_, hrs.2, fun r hr => h.rsome r (List.mem_cons_of_mem _ hr), ?_, fun w hw => ?_⟩
  · rcases hl with rfl | ⟨y, rfl⟩
    · exact h.lsd
    · exact (List.pairwise_cons.1 h.lsd).2
  · rw [List.map_cons, List.pairwise_cons]
    refine ⟨fun q hq => ?_, h.outd⟩
    obtain ⟨w, hw, rfl⟩ := List.mem_map.1 hq
    rcases h.cls w hw with ⟨h1, _⟩ | ⟨_, h2⟩
    · exact (ne_of_get obsR h1 hsome).symm
    · exact ne_of_equals_left hpo (h2 rpe List.mem_cons_self).symm
  · rcases List.mem_cons.1 hw with rfl | hw
    · exact .inr ⟨hsome, fun r hr => ne_of_equals_left hpo (hrs.1 r hr)⟩
    · rcases h.cls w hw with ⟨h1, h2⟩ | ⟨h1, h2⟩
      · exact .inl ⟨h1, fun p hp => h2 p (hls p hp)⟩
      · exact .inr ⟨h1, fun r hr => h2 r (List.mem_cons_of_mem _ hr)⟩

theorem mergeLoop_distinct (s : Schema) (t : ListT) (item : PE → Option Value → Option Value → Res (Option Value))
    (obsL obsR : List (PE × Value)) :
    ∀ (steps : Nat) (ls : List (PE × Value)) (rs shared merged : List PE) (out res : List Value),
      mergeLoop item obsL obsR steps ls rs shared merged out = .ok res →
      (∀ pe x v, (pe, x) ∈ ls → pemGet pe obsR = none → item pe (some x) none = .ok (some v) →
        PE.equals (idOf s t v) pe = true) →
      (∀ pe rpe v, rpe ∈ rs → PE.equals pe rpe = true → item pe (pemGet pe obsL) (pemGet pe obsR) = .ok (some v) →
        PE.equals (idOf s t v) rpe = true) →
      LoopInv s t obsR ls rs out → (res.map (idOf s t)).Pairwise NE := by
  intro steps
  induction steps with
  | zero =>
    intro ls rs shared merged out res h HL HR inv
    by_cases hne : ls = [] ∧ rs = []
    · obtain ⟨rfl, rfl⟩ := hne
      rw [mergeLoop_nil] at h
      cases h
      rw [List.map_reverse, List.pairwise_reverse]
      exact inv.outd.imp (fun h => h.symm)
    · rw [mergeLoop] at h
      · cases h
      · intro h1 h2; exact hne ⟨h1, h2⟩
  | succ n ih =>
    intro ls rs shared merged out res h HL HR inv
    by_cases hne : ls = [] ∧ rs = []
    · obtain ⟨rfl, rfl⟩ := hne
      rw [mergeLoop_nil] at h
      cases h
      rw [List.map_reverse, List.pairwise_reverse]
      exact inv.outd.imp (fun h => h.symm)
    · obtain ⟨ls2, rs2, shared2, merged2, out2, h2, hstep⟩ := mergeLoop_step item obsL obsR n ls rs shared merged out res hne h
      cases hstep with
      | skip pe x _ hls hs =>
        subst hls
        exact ih _ _ _ _ _ _ h2 (fun pe' x' v hm => HL pe' x' v (List.mem_cons_of_mem _ hm)) HR
          (inv.shrink (.inr ⟨_, rfl⟩) (.inl rfl))
      | left pe x _ o hls hn hi =>
        subst hls
        refine ih _ _ _ _ _ _ h2 (fun pe' x' v hm => HL pe' x' v (List.mem_cons_of_mem _ hm)) HR ?_
        cases o with
        | none => exact inv.shrink (.inr ⟨_, rfl⟩) (.inl rfl)
        | some v => exact inv.pushLeft hn (HL pe x v List.mem_cons_self hn hi)
      | right pe rpe _ _ o hrs he hi hl =>
        subst hrs
        have hsub : ∀ p ∈ ls2, p ∈ ls := by
          rcases hl with rfl | ⟨y, rfl⟩
          · exact fun p hp => hp
          · exact fun p hp => List.mem_cons_of_mem _ hp
        refine ih _ _ _ _ _ _ h2 (fun pe' x' v hm => HL pe' x' v (hsub _ hm))
          (fun pe' r' v hm => HR pe' r' v (List.mem_cons_of_mem _ hm)) ?_
        cases o with
        | none => exact inv.shrink hl (.inr ⟨_, rfl⟩)
        | some v => exact inv.pushRight hl (HR pe rpe v List.mem_cons_self he hi)
      | idle => exact ih _ _ _ _ _ _ h2 HL HR inv

/-! ### the right index holds pairwise distinct elements -/

theorem indexPEs_false_distinct (s : Schema) (t : ListT) :
    ∀ (l : List Value) (pes obs res obs' : List (PE × Value)), indexPEs s t false l pes obs = .ok (res, obs') →
      ∃ new, res = pes.reverse ++ new ∧ (∀ p ∈ new, pemGet p.1 obs = none) ∧
        new.Pairwise (fun a b => NE a.1 b.1)
  | [], pes, obs, res, obs' => by
    intro h
    simp only [indexPEs, Res.ok.injEq, Prod.mk.injEq] at h
    obtain ⟨rfl, rfl⟩ := h
    exact ⟨[], by simp, by simp, List.Pairwise.nil⟩
  | child :: rest, pes, obs, res, obs' => by
    intro h
    rw [indexPEs] at h
    split at h
    · next pe hpe =>
      split at h
      · simp at h
      · next hnone =>
        obtain ⟨new, h1, h2, h3⟩ := indexPEs_false_distinct s t rest _ _ _ _ h
        have key : ∀ p ∈ new, PE.equals pe p.1 = false ∧ pemGet p.1 obs = none := by
          intro p hp
          have := h2 p hp
          rw [pemGet_pemInsert] at this
          split at this
          · cases this
          · next hne => exact ⟨by simpa using hne, this⟩
        refine ⟨(pe, child) :: new, by simp [h1], ?_, ?_⟩
        · intro p hp
          rcases List.mem_cons.1 hp with rfl | hp
          · exact hnone
          · exact (key p hp).2
        · exact List.pairwise_cons.2 ⟨fun p hp => (key p hp).1, h3⟩
    · cases h
    · cases h

theorem listItemToPE_assoc (s : Schema) (t : ListT) (c : Value) (pe : PE) (h : listItemToPE s t c = .ok pe) :
    t.rel = "associative" := by
  unfold listItemToPE at h
  split at h
  · cases h
  · next hne => simpa using hne

theorem filterMap_getD {α β : Type} (f : α → Option β) (d : β) :
    ∀ l : List α, (∀ v ∈ l, (f v).isSome = true) → (l.map f).filterMap id = l.map (fun v => (f v).getD d)
  | [], _ => rfl
  | x :: xs, h => by
    have hx := h x List.mem_cons_self
    obtain ⟨y, hy⟩ := Option.isSome_iff_exists.1 hx
    simp only [List.map_cons, List.filterMap_cons, hy, id, Option.getD_some]
    rw [filterMap_getD f d xs (fun v hv => h v (List.mem_cons_of_mem _ hv))]

theorem filterMap_identity_pairs (s : Schema) (t : ListT) :
    ∀ (ps : List (PE × Value)), (∀ p ∈ ps, Conf.identity s t p.2 = some p.1) →
      ((ps.map (·.2)).map (Conf.identity s t)).filterMap id = ps.map (·.1)
  | [], _ => rfl
  | p :: ps, h => by
    simp only [List.map_cons, List.filterMap_cons, h p List.mem_cons_self, id]
    rw [filterMap_identity_pairs s t ps (fun q hq => h q (List.mem_cons_of_mem _ hq))]

/-! ### the result of a merge is accepted -/

/-- an operand that, when present, is accepted (and, when asked for, carries canonical key fields: `keysCanon`,
implied by `keysScalar` and by `canon`) -/
def OptOK (s : Schema) (ks d : Bool) (tr : TypeRef) (x : Option Value) : Prop :=
  ∀ v, x = some v → Conf.conforms s d tr v = true ∧ (ks = true → keysCanon s tr v = true)

theorem optOK_none (s : Schema) (ks d : Bool) (tr : TypeRef) : OptOK s ks d tr none := by
  intro v hv; cases hv

/-- what an accepted operand says about the entries of its map -/
theorem optOK_fields (s : Schema) (ks d : Bool) (tr : TypeRef) (a : Atom) (t : MapT) (x : Option Value)
    (hres : s.resolve tr = some a) (ha : a.map = some t) (hna : t.rel ≠ "atomic") (hx : OptOK s ks d tr x)
    (k : String) (w : Value) (hl : lookupField k ((asMap x).getD []) = some w) :
    (t.findField k = none → t.elementType.isZero = false) ∧ OptOK s ks d (fieldType t k) (some w) := by
  have hxe := asMap_getD_lookup x k w hl
  obtain ⟨hc, hks⟩ := hx _ hxe
  rw [conforms_map_eq s d tr a t _ hres ha, conformsFields_iff] at hc
  have := (entryOK_iff s d t k w).1 (hc (k, w) (mn_lookupField_mem k w _ hl))
  refine ⟨this.1, ?_⟩
  intro v hv
  cases hv
  exact ⟨this.2, fun hk => keysCanon_map_child s tr a t _ hres ha hna (hks hk) k w hl⟩

/-- what an accepted operand says about the items of its list (indexed by the merging walker) -/
theorem optOK_items (s : Schema) (ks d : Bool) (tr : TypeRef) (a : Atom) (t : ListT) (x : Option Value)
    (hres : s.resolve tr = some a) (ha : a.list = some t) (hna : t.rel ≠ "atomic") (hrel : t.rel = "associative")
    (hx : OptOK s ks d tr x) :
    (∀ c ∈ (asList x).getD [], (Conf.identity s t c).isSome = true ∧ OptOK s ks d t.elementType (some c) ∧
      (ks = true → itemKeysCanon t.keys c = true)) ∧
    (d = false → Conf.distinct ((((asList x).getD []).map (Conf.identity s t)).filterMap id) = true) := by
  cases hxl : asList x with
  | none => simp [Conf.distinct]
  | some xl =>
    have hxe : x = some (.list xl) := by
      cases x with
      | none => simp [asList] at hxl
      | some v => cases v <;> simp_all [asList]
    obtain ⟨hc, hks⟩ := hx _ hxe
    rw [conforms_list_eq s d tr a t _ hres ha] at hc
    simp only [hrel, beq_self_eq_true, if_true, Bool.and_eq_true, List.all_eq_true, List.mem_map,
      forall_exists_index, and_imp, forall_apply_eq_imp_iff₂] at hc
    obtain ⟨⟨h1, h2⟩, h3⟩ := hc
    rw [conformsAll_iff] at h3
    simp only [Option.getD_some]
    refine ⟨fun c hcm => ⟨h1 c hcm, ?_, fun hk => (keysCanon_list_items s tr a t xl hres ha hna (hks hk) c hcm).1⟩, ?_⟩
    · intro v hv
      cases hv
      exact ⟨h3 c hcm, fun hk => (keysCanon_list_items s tr a t xl hres ha hna (hks hk) c hcm).2⟩
    · intro hd
      subst hd
      simpa using h2

theorem keysScalar_null (s : Schema) (tr : TypeRef) : keysScalar s tr .null = true := by
  simp [keysScalar]

theorem merge_conforms (s : Schema) (d : Bool) : ∀ (fuel : Nat) (lo ro : Option Value) (tr : TypeRef) (out : Value),
    OptOK s (!d) d tr lo → OptOK s (!d) false tr ro →
    mergeNode s fuel lo ro tr = .ok (some out) → Conf.conforms s d tr out = true := by
  intro fuel
  induction fuel with
  | zero => intro lo ro tr out _ _ h; cases h
  | succ n ih =>
    intro lo ro tr out hlo hro h
    obtain ⟨n', a, hf, hres, hh⟩ := mergeNode_handle s _ lo ro tr _ h
    cases hf
    have hkeep : ∀ v, some v = keepRHS lo ro → Conf.conforms s d tr v = true := by
      intro v hv
      rcases keepRHS_cases lo ro v hv with hr | ⟨_, hl⟩
      · exact conforms_mono s d tr v (hro v hr).1
      · exact (hlo v hl).1
    cases hk : atomKind (deduceAtom a (keepRHS lo ro)) with
    | invalid => unfold mergeHandle at hh; rw [hk] at hh; cases hh
    | scalar t => exact hkeep out (mergeHandle_scalar s _ lo ro _ t hk _ hh)
    | map t =>
      have hamap := atomKind_deduce_map_inv a _ t hk
      rcases mergeHandle_map s _ lo ro _ t hk _ hh with h1 | ⟨outm, hf, hc, hna, h2⟩
      · exact hkeep out h1
      · rcases h2 with ⟨_, ho⟩ | ⟨_, ho⟩
        · cases ho
        · cases ho
          rw [conforms_map_eq s d tr a t _ hres hamap, conformsFields_iff]
          intro x hx
          obtain ⟨s1, _, _⟩ := foldl_mergeMapStep_spec _ t _ _ _ _ _ hf
          rcases s1 x hx with hx0 | ⟨hxk, hrec⟩
          · cases hx0
          · have hL := optOK_fields s (!d) d tr a t lo hres hamap hna hlo x.1
            have hR := optOK_fields s (!d) false tr a t ro hres hamap hna hro x.1
            rw [entryOK_iff]
            refine ⟨?_, ih _ _ _ _ ?_ ?_ hrec⟩
            · rw [mem_zipKeys] at hxk
              rcases hxk with hs | hs
              · obtain ⟨w, hw⟩ := Option.isSome_iff_exists.1 hs
                exact (hL w hw).1
              · obtain ⟨w, hw⟩ := Option.isSome_iff_exists.1 hs
                exact (hR w hw).1
            · intro w hw; exact (hL w hw).2 w rfl
            · intro w hw; exact (hR w hw).2 w rfl
    | list t =>
      have halist := atomKind_deduce_list_inv a _ t hk
      rcases mergeHandle_list s _ lo ro _ t hk _ hh with h1 | ⟨rpes, obsR, lpes, obsL, res, hir, hil, hloop, hc, hna, h2⟩
      · exact hkeep out h1
      · rcases h2 with ⟨_, ho⟩ | ⟨_, ho⟩
        · cases ho
        · cases ho
          obtain ⟨newr, er, hr2, hr3, hr4, hr5⟩ := mn_indexPEs_spec s t false _ [] [] rpes obsR hir
          simp only [List.reverse_nil, List.nil_append] at er
          subst er
          obtain ⟨hr4a, _⟩ := hr4 rfl
          obtain ⟨newl, el, hl2, hl3, _, hl5⟩ := mn_indexPEs_spec s t true _ [] [] lpes obsL hil
          simp only [List.reverse_nil, List.nil_append] at el
          subst el
          -- the relationship is "associative": some item was indexed
          have hrel : t.rel = "associative" := by
            rcases getD_ne_nil_of_not_emptyOrAbsent _ _ (by rw [hc]; simp) with hne | hne
            · rw [← hl2] at hne
              cases lpes with
              | nil => simp at hne
              | cons p ps => exact listItemToPE_assoc s t _ _ (hl3 p List.mem_cons_self)
            · rw [← hr2] at hne
              cases rpes with
              | nil => simp at hne
              | cons p ps => exact listItemToPE_assoc s t _ _ (hr3 p List.mem_cons_self)
          obtain ⟨hLi, hLd⟩ := optOK_items s (!d) d tr a t lo hres halist hna hrel hlo
          obtain ⟨hRi, _⟩ := optOK_items s (!d) false tr a t ro hres halist hna hrel hro
          have hlmem : ∀ p ∈ lpes, p.2 ∈ (asList lo).getD [] := fun p hp => by rw [← hl2]; exact List.mem_map_of_mem hp
          have hrmem : ∀ p ∈ rpes, p.2 ∈ (asList ro).getD [] := fun p hp => by rw [← hr2]; exact List.mem_map_of_mem hp
          have hlid : ∀ p ∈ lpes, Conf.identity s t p.2 = some p.1 :=
            fun p hp => identity_of_listItemToPE s t _ _ hrel (hl3 p hp)
          have hrid : ∀ p ∈ rpes, Conf.identity s t p.2 = some p.1 :=
            fun p hp => identity_of_listItemToPE s t _ _ hrel (hr3 p hp)
          -- what the left index holds
          have hobsL : ∀ q w, pemGet q obsL = some w → w = .null ∨ ∃ p ∈ lpes, PE.equals p.1 q = true ∧ p.2 = w := by
            intro q w hw
            rcases hl5 q w hw with h | h | h
            · exact .inl h
            · simp [pemGet] at h
            · exact .inr h
          have hobsLok : ∀ q w (c : Value), Conf.conforms s false t.elementType c = true → pemGet q obsL = some w →
              OptOK s (!d) d t.elementType (some w) := by
            intro q w c hcc hw v hv
            cases hv
            rcases hobsL q w hw with rfl | ⟨p, hp, _, rfl⟩
            · exact ⟨conforms_null_of s false d _ c hcc, fun _ => keysCanon_null s _⟩
            · exact (hLi _ (hlmem p hp)).2.1 _ rfl
          -- every emitted item is accepted and has an identity
          obtain ⟨m1, _, _, _⟩ := mergeLoop_spec _ _ _ _ _ _ _ _ _ _ hloop
          have hright : ∀ pe rpe, rpe ∈ rpes.map (·.1) → PE.equals pe rpe = true →
              ∃ p ∈ rpes, p.1 = rpe ∧ pemGet pe obsR = some p.2 := by
            intro pe rpe hm he
            obtain ⟨p, hp, rfl⟩ := List.mem_map.1 hm
            exact ⟨p, hp, rfl, by rw [pemGet_congr he]; exact hr4a p hp⟩
          have hPV : ∀ v ∈ res, Conf.conforms s d t.elementType v = true ∧ (Conf.identity s t v).isSome = true := by
            intro v hv
            rcases m1 v hv with h0 | ⟨pe, x, hm, hn, hi⟩ | ⟨pe, rpe, hm, he, hi⟩
            · cases h0
            · obtain ⟨hxid, hxok, _⟩ := hLi x (hlmem _ hm)
              refine ⟨ih _ _ _ _ hxok (optOK_none s _ _ _) hi, ?_⟩
              exact merge_identity_isSome s t d n (some x) none x v rfl hxid
                ((validateV_iff s d x _).2 (hxok x rfl).1) hi
            · obtain ⟨p, hp, rfl, hget⟩ := hright pe rpe hm he
              obtain ⟨hpid, hpok, _⟩ := hRi p.2 (hrmem p hp)
              rw [hget] at hi
              refine ⟨ih _ _ _ _ ?_ hpok hi, ?_⟩
              · intro w hw
                exact hobsLok pe w p.2 (hpok _ rfl).1 hw w rfl
              · exact merge_identity_isSome s t false n _ (some p.2) p.2 v rfl hpid
                  ((validateV_iff s false p.2 _).2 (hpok _ rfl).1) hi
          rw [conforms_list_eq s d tr a t _ hres halist]
          simp only [hrel, beq_self_eq_true, if_true, Bool.and_eq_true, List.all_eq_true, List.mem_map,
            forall_exists_index, and_imp, forall_apply_eq_imp_iff₂]
          refine ⟨⟨fun v hv => (hPV v hv).2, ?_⟩, (conformsAll_iff s d _ res).2 (fun v hv => (hPV v hv).1)⟩
          cases d with
          | true => rfl
          | false =>
            simp only [Bool.false_or]
            rw [filterMap_getD (Conf.identity s t) PE.invalid res (fun v hv => (hPV v hv).2), distinct_iff]
            have hks : (!false) = true := rfl
            refine mergeLoop_distinct s t _ obsL obsR _ _ _ _ _ _ _ hloop ?_ ?_ ?_
            · intro pe x v hm hn hi
              obtain ⟨_, _, hxks⟩ := hLi x (hlmem _ hm)
              have := merge_identity_left_canon s t n x v pe (hlid _ hm) (hxks hks) hi
              simp only [idOf, this, Option.getD_some]
              exact PE.equals_refl _
            · intro pe rpe v hm he hi
              obtain ⟨p, hp, rfl, hget⟩ := hright pe rpe hm he
              obtain ⟨_, hpok, hpks⟩ := hRi p.2 (hrmem p hp)
              rw [hget] at hi
              obtain ⟨po, hpo, hpe⟩ := merge_identity_right_canon s t n (pemGet pe obsL) p.2 v p.1 (hrid p hp)
                ((validateV_iff s false p.2 _).2 (hpok _ rfl).1) (hpks hks) (by
                  intro w hw
                  rcases hobsL pe w hw with h | ⟨p', hp', hpe', rfl⟩
                  · exact .inl h
                  · exact .inr ⟨p'.1, hlid p' hp', PE.equals_trans hpe' he, (hLi _ (hlmem p' hp')).2.2 hks⟩) hi
              simp only [idOf, hpo, Option.getD_some]
              exact hpe
            · obtain ⟨newr', er', _, hr7⟩ := indexPEs_false_distinct s t _ [] [] rpes obsR hir
              simp only [List.reverse_nil, List.nil_append] at er'
              subst er'
              refine ⟨?_, ?_, ?_, List.Pairwise.nil, fun v hv => by cases hv⟩
              · have := (distinct_iff _).1 (hLd rfl)
                rw [← hl2, filterMap_identity_pairs s t lpes hlid, List.pairwise_map] at this
                exact this
              · rw [List.pairwise_map]; exact hr7
              · intro r hr
                obtain ⟨p, hp, rfl⟩ := List.mem_map.1 hr
                rw [hr4a p hp]; rfl

/-! ### the list case, packaged for the laws that follow -/

/-- what the two indexes of the list case hold, for accepted repeat-free operands with canonical key fields -/
structure ListFacts (s : Schema) (t : ListT) (lo ro : Option Value) (lpes obsL rpes obsR : List (PE × Value)) : Prop where
  hrel : t.rel = "associative"
  lsnd : lpes.map (·.2) = (asList lo).getD []
  rsnd : rpes.map (·.2) = (asList ro).getD []
  lid : ∀ p ∈ lpes, Conf.identity s t p.2 = some p.1
  rid : ∀ p ∈ rpes, Conf.identity s t p.2 = some p.1
  rget : ∀ p ∈ rpes, pemGet p.1 obsR = some p.2
  lobs : ∀ q w, pemGet q obsL = some w → w = .null ∨ ∃ p ∈ lpes, PE.equals p.1 q = true ∧ p.2 = w
  robs : ∀ q, (pemGet q obsR).isSome = true → ∃ p ∈ rpes, PE.equals p.1 q = true
  rdist : rpes.Pairwise (fun a b => NE a.1 b.1)
  litem : ∀ c ∈ (asList lo).getD [], OptOK s true false t.elementType (some c) ∧ itemKeysCanon t.keys c = true
  ritem : ∀ c ∈ (asList ro).getD [], OptOK s true false t.elementType (some c) ∧ itemKeysCanon t.keys c = true
  ldist : lpes.Pairwise (fun a b => NE a.1 b.1)

theorem listFacts (s : Schema) (tr : TypeRef) (a : Atom) (t : ListT) (lo ro : Option Value)
    (lpes obsL rpes obsR : List (PE × Value))
    (hres : s.resolve tr = some a) (halist : a.list = some t) (hna : t.rel ≠ "atomic")
    (hlo : OptOK s true false tr lo) (hro : OptOK s true false tr ro)
    (hir : indexPEs s t false ((asList ro).getD []) [] [] = .ok (rpes, obsR))
    (hil : indexPEs s t true ((asList lo).getD []) [] [] = .ok (lpes, obsL))
    (hc : (emptyOrAbsent (asList lo) && emptyOrAbsent (asList ro)) = false) :
    ListFacts s t lo ro lpes obsL rpes obsR := by
  obtain ⟨newr, er, hr2, hr3, hr4, hr5⟩ := mn_indexPEs_spec s t false _ [] [] rpes obsR hir
  simp only [List.reverse_nil, List.nil_append] at er
  subst er
  obtain ⟨hr4a, _⟩ := hr4 rfl
  obtain ⟨newl, el, hl2, hl3, _, hl5⟩ := mn_indexPEs_spec s t true _ [] [] lpes obsL hil
  simp only [List.reverse_nil, List.nil_append] at el
  subst el
  have hrel : t.rel = "associative" := by
    rcases getD_ne_nil_of_not_emptyOrAbsent _ _ (by rw [hc]; simp) with hne | hne
    · rw [← hl2] at hne
      cases lpes with
      | nil => simp at hne
      | cons p ps => exact listItemToPE_assoc s t _ _ (hl3 p List.mem_cons_self)
    · rw [← hr2] at hne
      cases rpes with
      | nil => simp at hne
      | cons p ps => exact listItemToPE_assoc s t _ _ (hr3 p List.mem_cons_self)
  obtain ⟨hLi, hLd⟩ := optOK_items s true false tr a t lo hres halist hna hrel hlo
  obtain ⟨hRi, _⟩ := optOK_items s true false tr a t ro hres halist hna hrel hro
  have hlid : ∀ p ∈ lpes, Conf.identity s t p.2 = some p.1 :=
    fun p hp => identity_of_listItemToPE s t _ _ hrel (hl3 p hp)
  obtain ⟨newr', er', _, hr7⟩ := indexPEs_false_distinct s t _ [] [] rpes obsR hir
  simp only [List.reverse_nil, List.nil_append] at er'
  subst er'
  refine ⟨hrel, hl2, hr2, hlid, fun p hp => identity_of_listItemToPE s t _ _ hrel (hr3 p hp), hr4a, ?_, ?_, hr7,
    fun c hc => ⟨(hLi c hc).2.1, (hLi c hc).2.2 rfl⟩, fun c hc => ⟨(hRi c hc).2.1, (hRi c hc).2.2 rfl⟩, ?_⟩
  · intro q w hw
    rcases hl5 q w hw with h | h | h
    · exact .inl h
    · simp [pemGet] at h
    · exact .inr h
  · intro q hq
    obtain ⟨new2, e2, _, h3, _⟩ := indexPEs_spec s t false _ [] [] rpes obsR hir
    simp only [List.reverse_nil, List.nil_append] at e2
    subst e2
    rw [h3 q] at hq
    simpa [pemGet] using hq
  · have := (distinct_iff _).1 (hLd rfl)
    rw [← hl2, filterMap_identity_pairs s t lpes hlid, List.pairwise_map] at this
    exact this

section
variable {s : Schema} {t : ListT} {lo ro : Option Value} {lpes obsL rpes obsR : List (PE × Value)}

theorem ListFacts.lmem (F : ListFacts s t lo ro lpes obsL rpes obsR) {p : PE × Value} (hp : p ∈ lpes) :
    p.2 ∈ (asList lo).getD [] := by rw [← F.lsnd]; exact List.mem_map_of_mem hp

theorem ListFacts.rmem (F : ListFacts s t lo ro lpes obsL rpes obsR) {p : PE × Value} (hp : p ∈ rpes) :
    p.2 ∈ (asList ro).getD [] := by rw [← F.rsnd]; exact List.mem_map_of_mem hp

theorem ListFacts.right_of (F : ListFacts s t lo ro lpes obsL rpes obsR) {pe rpe : PE}
    (hm : rpe ∈ rpes.map (·.1)) (he : PE.equals pe rpe = true) :
    ∃ p ∈ rpes, p.1 = rpe ∧ pemGet pe obsR = some p.2 := by
  obtain ⟨p, hp, rfl⟩ := List.mem_map.1 hm
  exact ⟨p, hp, rfl, by rw [pemGet_congr he]; exact F.rget p hp⟩

theorem ListFacts.obsL_ok (F : ListFacts s t lo ro lpes obsL rpes obsR) (c : Value)
    (hc : Conf.conforms s false t.elementType c = true) (q : PE) :
    OptOK s true false t.elementType (pemGet q obsL) := by
  intro w hw
  rcases F.lobs q w hw with rfl | ⟨p, hp, _, rfl⟩
  · exact ⟨conforms_null_of s false false _ c hc, fun _ => keysCanon_null s _⟩
  · exact (F.litem _ (F.lmem hp)).1 _ rfl

theorem ListFacts.id_left (F : ListFacts s t lo ro lpes obsL rpes obsR) (n : Nat) {pe : PE} {x v : Value}
    (hm : (pe, x) ∈ lpes) (hi : mergeNode s n (some x) none t.elementType = .ok (some v)) :
    Conf.identity s t v = some pe :=
  merge_identity_left_canon s t n x v pe (F.lid _ hm) (F.litem _ (F.lmem hm)).2 hi

theorem ListFacts.id_right (F : ListFacts s t lo ro lpes obsL rpes obsR) (n : Nat) {pe : PE} {p : PE × Value}
    {v : Value} (hp : p ∈ rpes) (he : PE.equals pe p.1 = true)
    (hi : mergeNode s n (pemGet pe obsL) (some p.2) t.elementType = .ok (some v)) :
    ∃ po, Conf.identity s t v = some po ∧ PE.equals po p.1 = true := by
  obtain ⟨hpok, hpks⟩ := F.ritem _ (F.rmem hp)
  refine merge_identity_right_canon s t n (pemGet pe obsL) p.2 v p.1 (F.rid p hp)
    ((validateV_iff s false p.2 _).2 (hpok _ rfl).1) hpks ?_ hi
  intro w hw
  rcases F.lobs pe w hw with h | ⟨p', hp', hpe', rfl⟩
  · exact .inl h
  · exact .inr ⟨p'.1, F.lid p' hp', PE.equals_trans hpe' he, (F.litem _ (F.lmem hp')).2⟩

end

end MV
end SMD
