/-
Concrete runs of the model refuting three C12 statements as first written (world: the empty schema with
inlined types, as in `MergeNodesCounterexamples`):

* a keyed list whose key field is a map: the merge rebuilds maps with their keys in order, so two items
  whose key fields are written `{b, a}` and `{a, b}` (distinct identities: `Equals` on maps is
  positional) come out with the same identity — the result is no longer repeat-free, and its field set
  holds an element found in neither operand's field set;
* a null or an empty map under a declared field is a member of the field set in its own right; when the
  left operand holds a non-empty map there, the merged entry is that map and the member is gone.
-/
import SMD.Proofs.MergeFieldSetLaws
import SMD.Proofs.MergeNodesCounterexamples
namespace SMD.Counter12
open SMD.Counter01

/-! #### key fields that are maps written out of order -/

def nameBA : Value := .map [("b", .int 2), ("a", .int 1)]
def nameAB : Value := .map [("a", .int 1), ("b", .int 2)]
def itemBA : Value := .map [("name", nameBA)]
def itemAB : Value := .map [("name", nameAB)]
def keyBA : PE := .key [("name", nameBA)]
def keyAB : PE := .key [("name", nameAB)]

theorem valid_empty : validateV ⟨[]⟩ false keyedTR (.list []) = .ok () := rfl
theorem valid_two : validateV ⟨[]⟩ false keyedTR (.list [itemBA, itemAB]) = .ok () := by with_unfolding_all rfl
theorem merge_two : mergeNode ⟨[]⟩ 4 (some (.list [])) (some (.list [itemBA, itemAB])) keyedTR =
    .ok (some (.list [itemAB, itemAB])) := by with_unfolding_all rfl
theorem invalid_out : validateV ⟨[]⟩ false keyedTR (.list [itemAB, itemAB]) = .err := by with_unfolding_all rfl

def fsBA : List Path :=
  [[keyBA, .field "name", .field "b"], [keyBA, .field "name", .field "b"], [keyBA, .field "name", .field "a"],
   [keyBA, .field "name", .field "a"], [keyBA]]
def fsAB : List Path :=
  [[keyAB, .field "name", .field "a"], [keyAB, .field "name", .field "a"], [keyAB, .field "name", .field "b"],
   [keyAB, .field "name", .field "b"], [keyAB]]

theorem valid_one : validateV ⟨[]⟩ false keyedTR (.list [itemBA]) = .ok () := by with_unfolding_all rfl
theorem merge_one : mergeNode ⟨[]⟩ 4 (some (.list [])) (some (.list [itemBA])) keyedTR =
    .ok (some (.list [itemAB])) := by with_unfolding_all rfl
theorem fs_empty : fsV ⟨[]⟩ keyedTR (.list []) = .ok [] := by with_unfolding_all rfl
theorem fs_right : fsV ⟨[]⟩ keyedTR (.list [itemBA]) = .ok fsBA := by with_unfolding_all rfl
theorem fs_out : fsV ⟨[]⟩ keyedTR (.list [itemAB]) = .ok fsAB := by with_unfolding_all rfl
theorem out_has : (SetTrie.ofPaths fsAB).has [keyAB] = true := by with_unfolding_all rfl
theorem left_has_not : (SetTrie.ofPaths ([] : List Path)).has [keyAB] = false := by with_unfolding_all rfl
theorem right_has_not : (SetTrie.ofPaths fsBA).has [keyAB] = false := by with_unfolding_all rfl
theorem right_has : (SetTrie.ofPaths fsBA).has [keyBA] = true := by with_unfolding_all rfl
theorem out_has_not : (SetTrie.ofPaths fsAB).has [keyBA] = false := by with_unfolding_all rfl

/-! #### merging the right operand again adds an item: the left item `{a, b}` and the right item `{b, a}`
are distinct, both come out as `{a, b}`, and the second merge finds two left-only items -/

def idemL : Value := .list [.map [("name", nameAB), ("x", .int 1)]]
def idemR : Value := .list [.map [("name", nameBA), ("x", .int 2)]]
def idemOut : Value := .list [.map [("name", nameAB), ("x", .int 1)], .map [("name", nameAB), ("x", .int 2)]]
def idemOut2 : Value :=
  .list [.map [("name", nameAB), ("x", .int 1)], .map [("name", nameAB), ("x", .int 2)],
    .map [("name", nameAB), ("x", .int 2)]]

theorem idem_valid_left : validateV ⟨[]⟩ false keyedTR idemL = .ok () := by with_unfolding_all rfl
theorem idem_valid_right : validateV ⟨[]⟩ false keyedTR idemR = .ok () := by with_unfolding_all rfl
theorem idem_merge : mergeNode ⟨[]⟩ 4 (some idemL) (some idemR) keyedTR = .ok (some idemOut) := by
  with_unfolding_all rfl
theorem idem_merge_again : mergeNode ⟨[]⟩ 4 (some idemOut) (some idemR) keyedTR = .ok (some idemOut2) := by
  with_unfolding_all rfl
theorem idem_differ : Value.equals idemOut2 idemOut = false := by with_unfolding_all rfl

/-! #### an empty map under a declared field (scalar keys everywhere: there is no list) -/

/-- a map type with one declared field `f`, itself a map of untyped scalars -/
def holderTR : TypeRef := .mk none (.mk none none (some (.mk [.mk "f" nameTR none] [] .zero ""))) none
def fullL : Value := .map [("f", .map [("a", .int 1)])]
def hollowR : Value := .map [("f", .map [])]
def fsFull : List Path := [[.field "f", .field "a"], [.field "f", .field "a"]]

theorem valid_full : validateV ⟨[]⟩ false holderTR fullL = .ok () := by with_unfolding_all rfl
theorem valid_hollow : validateV ⟨[]⟩ false holderTR hollowR = .ok () := by with_unfolding_all rfl
theorem keys_full : keysScalar ⟨[]⟩ holderTR fullL = true := by with_unfolding_all rfl
theorem keys_hollow : keysScalar ⟨[]⟩ holderTR hollowR = true := by with_unfolding_all rfl
theorem merge_hollow : mergeNode ⟨[]⟩ 4 (some fullL) (some hollowR) holderTR = .ok (some fullL) := by
  with_unfolding_all rfl
theorem fs_hollow : fsV ⟨[]⟩ holderTR hollowR = .ok [[.field "f"]] := by with_unfolding_all rfl
theorem fs_full : fsV ⟨[]⟩ holderTR fullL = .ok fsFull := by with_unfolding_all rfl
theorem hollow_has : (SetTrie.ofPaths [[PE.field "f"]]).has [.field "f"] = true := by with_unfolding_all rfl
theorem full_has_not : (SetTrie.ofPaths fsFull).has [.field "f"] = false := by with_unfolding_all rfl

/-! #### a repeated key in a map of the right operand (the model's association lists allow one; the
merge only sees the first entry of a key) -/

/-- an inline untyped scalar or set of untyped scalars -/
def unionTR : TypeRef := .mk none (.mk (some "untyped") (some setLT) none) none
/-- a map type with one declared field `f` of that type -/
def holder2TR : TypeRef := .mk none (.mk none none (some (.mk [.mk "f" unionTR none] [] .zero ""))) none
def onceL : Value := .map [("f", .int 1)]
def twiceR : Value := .map [("f", .int 1), ("f", .list [.int 2])]
def fsTwice : List Path := [[.field "f"], [.field "f", .value (.int 2)], [.field "f", .value (.int 2)]]

theorem valid_once : validateV ⟨[]⟩ false holder2TR onceL = .ok () := by with_unfolding_all rfl
theorem valid_twice : validateV ⟨[]⟩ false holder2TR twiceR = .ok () := by with_unfolding_all rfl
theorem keys_once : keysScalar ⟨[]⟩ holder2TR onceL = true := by with_unfolding_all rfl
theorem keys_twice : keysScalar ⟨[]⟩ holder2TR twiceR = true := by with_unfolding_all rfl
theorem merge_twice : mergeNode ⟨[]⟩ 4 (some onceL) (some twiceR) holder2TR = .ok (some onceL) := by
  with_unfolding_all rfl
theorem fs_twice : fsV ⟨[]⟩ holder2TR twiceR = .ok fsTwice := by with_unfolding_all rfl
theorem fs_once : fsV ⟨[]⟩ holder2TR onceL = .ok [[.field "f"]] := by with_unfolding_all rfl
theorem twice_has : (SetTrie.ofPaths fsTwice).has [.field "f", .value (.int 2)] = true := by with_unfolding_all rfl
theorem once_has_not : (SetTrie.ofPaths [[PE.field "f"]]).has [.field "f", .value (.int 2)] = false := by
  with_unfolding_all rfl

/-! #### the hypothesis `entriesPlain` rules the two runs above out, and is not vacuous -/

theorem plain_hollow : entriesPlain ⟨[]⟩ holderTR hollowR = false := by with_unfolding_all rfl
theorem plain_twice : entriesPlain ⟨[]⟩ holder2TR twiceR = false := by with_unfolding_all rfl
/-- the right operand of the non-vacuity run of C01 (a keyed list of maps inside a map) -/
theorem plain_nv : entriesPlain ⟨[]⟩ nvTR nvR = true := by with_unfolding_all rfl

end SMD.Counter12
