/-
The merge of two validated objects is a validated object (`mergeNode_valid`, `mergeTV_valid`): the
merging walker (`mergeNode`, model of `TypedValue.Merge`) applied to two operands accepted by the
validating walker with duplicates forbidden (`validateV s false`), whose keyed-list items carry
scalar key fields (`keysScalar`), yields a value with the same two properties.
-/
import SMD.Proofs.MergeNodes
import SMD.Proofs.MergeFrame
import SMD.Proofs.NodeFieldSet
set_option linter.unusedSimpArgs false
set_option linter.unusedVariables false
namespace SMD

/-! ### atoms: the member a handler was dispatched on is a member of the resolved atom -/

theorem mv_atomKind_deduce_map (a : Atom) (x : Option Value) (t : MapT)
    (h : atomKind (deduceAtom a x) = .map t) : a.map = some t := by
  obtain ⟨sc, li, mp⟩ := a
  cases x with
  | none => cases sc <;> cases li <;> cases mp <;> simp_all [deduceAtom, atomKind, Atom.map, Atom.list, Atom.scalar]
  | some v =>
    cases v <;> cases sc <;> cases li <;> cases mp <;>
      simp_all [deduceAtom, atomKind, Atom.map, Atom.list, Atom.scalar, Value.isScalar, Value.isList, Value.isMap]

theorem mv_atomKind_deduce_list (a : Atom) (x : Option Value) (t : ListT)
    (h : atomKind (deduceAtom a x) = .list t) : a.list = some t := by
  obtain ⟨sc, li, mp⟩ := a
  cases x with
  | none => cases sc <;> cases li <;> cases mp <;> simp_all [deduceAtom, atomKind, Atom.map, Atom.list, Atom.scalar]
  | some v =>
    cases v <;> cases sc <;> cases li <;> cases mp <;>
      simp_all [deduceAtom, atomKind, Atom.map, Atom.list, Atom.scalar, Value.isScalar, Value.isList, Value.isMap]

/-- one level of a successful merge: the result is that of the handler on the atom deduced from one of
the operands -/
theorem mv_mergeNode_handle (s : Schema) (fuel : Nat) (l r : Option Value) (tr : TypeRef) (o : Option Value)
    (h : mergeNode s fuel l r tr = .ok o) :
    ∃ n a x, fuel = n + 1 ∧ s.resolve tr = some a ∧
      mergeHandle s (mergeNode s n) l r (deduceAtom a x) = .ok o := by
  cases fuel with
  | zero => cases h
  | succ n =>
    rw [mergeNode_succ] at h
    split at h
    · cases h
    · split at h
      · split at h <;> cases h
      · next a hres =>
        split at h
        · exact ⟨n, a, l, rfl, hres, h⟩
        · split at h
          · exact ⟨n, a, r, rfl, hres, h⟩
          · split at h
            · exact ⟨n, a, r, rfl, hres, h⟩
            · next hne => exact absurd h (by intro h'; exact hne _ h')

/-! ### the result of `keepRHS` is one of the operands -/

theorem mv_keepRHS (l r : Option Value) (P : Value → Prop) (hl : ∀ v, l = some v → P v)
    (hr : ∀ v, r = some v → P v) (out : Value) (h : some out = keepRHS l r) : P out := by
  cases r with
  | some v => simp only [keepRHS] at h; cases h; exact hr _ rfl
  | none => simp only [keepRHS] at h; exact hl _ h.symm

/-! ### rebuilding the validation of a container from that of its members -/

theorem mv_validateFields_of_mem (s : Schema) (d : Bool) (t : MapT) :
    ∀ (m : List (String × Value)),
      (∀ x ∈ m, validateV s d (fieldType t x.1) x.2 = .ok () ∧
        (t.findField x.1 = none → t.elementType.isZero = false)) →
      validateFields s d t m = .ok ()
  | [], _ => by rw [validateFields]
  | (k, v) :: rest, h => by
    have ih := mv_validateFields_of_mem s d t rest (fun x hx => h x (List.mem_cons_of_mem _ hx))
    obtain ⟨hv, hz⟩ := h (k, v) List.mem_cons_self
    rw [validateFields]
    cases hf : t.findField k with
    | some sf =>
      simp only [fieldType, hf] at hv
      simp only [hv, ih]
    | none =>
      simp only [fieldType, hf] at hv
      simp only [hz hf, hv, ih]
      simp

theorem mv_validateFields_nz (s : Schema) (d : Bool) (t : MapT) :
    ∀ (m : List (String × Value)), validateFields s d t m = .ok () →
      ∀ x ∈ m, t.findField x.1 = none → t.elementType.isZero = false
  | [], _, c, hc => by cases hc
  | (k, v) :: rest, h, c, hc => by
    rw [validateFields] at h
    have ih := mv_validateFields_nz s d t rest
    split at h
    · next sf hsf =>
      split at h
      · rcases List.mem_cons.1 hc with rfl | hc
        · intro hn; rw [hsf] at hn; cases hn
        · exact ih h c hc
      · next hne => exact absurd h (by intro h'; exact hne _ h')
    · next hsf =>
      split at h
      · cases h
      · next hz =>
        split at h
        · rcases List.mem_cons.1 hc with rfl | hc
          · intro _; simpa using hz
          · exact ih h c hc
        · next hne => exact absurd h (by intro h'; exact hne _ h')

theorem mv_keysScalarFields_of_mem (s : Schema) (t : MapT) :
    ∀ (m : List (String × Value)), (∀ x ∈ m, keysScalar s (fieldType t x.1) x.2 = true) →
      keysScalarFields s t m = true
  | [], _ => by rw [keysScalarFields]
  | (k, v) :: rest, h => by
    rw [keysScalarFields, h (k, v) List.mem_cons_self,
      mv_keysScalarFields_of_mem s t rest (fun x hx => h x (List.mem_cons_of_mem _ hx))]
    rfl

theorem mv_keysScalarItems_of_mem (s : Schema) (t : ListT) :
    ∀ (l : List Value), (∀ c ∈ l, itemKeysScalar t.keys c = true ∧ keysScalar s t.elementType c = true) →
      keysScalarItems s t l = true
  | [], _ => by rw [keysScalarItems]
  | v :: rest, h => by
    rw [keysScalarItems, (h v List.mem_cons_self).1, (h v List.mem_cons_self).2,
      mv_keysScalarItems_of_mem s t rest (fun x hx => h x (List.mem_cons_of_mem _ hx))]
    rfl

/-- `null` is accepted at every type some value is accepted at -/
theorem mv_validateV_null_of_valid (s : Schema) (d : Bool) (tr : TypeRef) (v : Value)
    (h : validateV s d tr v = .ok ()) : validateV s d tr .null = .ok () := by
  rw [validateV_null]
  cases v with
  | null => rw [validateV_null] at h; exact h
  | list l =>
    obtain ⟨a, lt, hres, hl, _⟩ := NodeLaws.validateV_list_inv h
    obtain ⟨sc, li, mp⟩ := a
    simp only [Atom.list] at hl
    simp [hres, Conf.atomNonEmpty, Atom.list, hl]
  | map m =>
    obtain ⟨a, mt, hres, hm, _⟩ := NodeLaws.validateV_map_inv h
    obtain ⟨sc, li, mp⟩ := a
    simp only [Atom.map] at hm
    simp [hres, Conf.atomNonEmpty, Atom.map, hm]
  | bool b =>
    rw [validateV_scalar s d tr _ rfl] at h
    cases hres : s.resolve tr with
    | none => simp [hres] at h
    | some a =>
      obtain ⟨sc, li, mp⟩ := a
      cases sc <;> simp_all [Conf.atomNonEmpty, Atom.scalar]
  | int b =>
    rw [validateV_scalar s d tr _ rfl] at h
    cases hres : s.resolve tr with
    | none => simp [hres] at h
    | some a =>
      obtain ⟨sc, li, mp⟩ := a
      cases sc <;> simp_all [Conf.atomNonEmpty, Atom.scalar]
  | float b z =>
    rw [validateV_scalar s d tr _ rfl] at h
    cases hres : s.resolve tr with
    | none => simp [hres] at h
    | some a =>
      obtain ⟨sc, li, mp⟩ := a
      cases sc <;> simp_all [Conf.atomNonEmpty, Atom.scalar]
  | str b =>
    rw [validateV_scalar s d tr _ rfl] at h
    cases hres : s.resolve tr with
    | none => simp [hres] at h
    | some a =>
      obtain ⟨sc, li, mp⟩ := a
      cases sc <;> simp_all [Conf.atomNonEmpty, Atom.scalar]

theorem mv_rel_of_ok (s : Schema) (t : ListT) (c : Value) (pe : PE) (h : listItemToPE s t c = .ok pe) :
    t.rel = "associative" := by
  unfold listItemToPE at h
  split at h
  · cases h
  · next hne => simpa using hne

/-! ### counting identities up to `PathElement.Equals` -/

/-- the number of elements of `L` equal to `q` -/
def peCnt (q : PE) (L : List PE) : Nat := L.countP (fun p => PE.equals p q)

theorem peCnt_cons (q x : PE) (L : List PE) :
    peCnt q (x :: L) = peCnt q L + (if PE.equals x q = true then 1 else 0) := by
  simp [peCnt, List.countP_cons]

theorem peCnt_cons_congr (q x y : PE) (L : List PE) (h : PE.equals x y = true) :
    peCnt q (x :: L) = peCnt q (y :: L) := by
  rw [peCnt_cons, peCnt_cons, PE.equals_congr_left h q]

theorem peCnt_pos (q : PE) (L : List PE) : 0 < peCnt q L ↔ ∃ x ∈ L, PE.equals x q = true := by
  simp [peCnt, List.countP_pos_iff]

theorem peCnt_zero (q : PE) (L : List PE) : peCnt q L = 0 ↔ ∀ x ∈ L, PE.equals x q = false := by
  simp [peCnt, List.countP_eq_zero]

theorem mv_distinct_cnt : ∀ L : List PE, Conf.distinct L = true → ∀ q, peCnt q L ≤ 1
  | [], _, q => by simp [peCnt]
  | x :: xs, h, q => by
    simp only [Conf.distinct, Bool.and_eq_true, Bool.not_eq_true', List.any_eq_false] at h
    have ih := mv_distinct_cnt xs h.2 q
    rw [peCnt_cons]
    split
    · next hx =>
      have : peCnt q xs = 0 := by
        rw [peCnt_zero]
        intro y hy
        cases hyq : PE.equals y q with
        | false => rfl
        | true =>
          exact absurd (PE.equals_trans hx (PE.equals_symm_of hyq)) (by simpa using h.1 y hy)
      omega
    · omega

/-- the elements of the left items the right operand does not have -/
def mvLeftOnly (obsR : List (PE × Value)) (ls : List (PE × Value)) : List PE :=
  (ls.filter (fun p => (pemGet p.1 obsR).isNone)).map (·.1)

theorem mvLeftOnly_cons_some (obsR : List (PE × Value)) (p : PE × Value) (ls : List (PE × Value))
    (h : (pemGet p.1 obsR).isSome = true) : mvLeftOnly obsR (p :: ls) = mvLeftOnly obsR ls := by
  cases hg : pemGet p.1 obsR with
  | none => rw [hg] at h; cases h
  | some w => simp [mvLeftOnly, List.filter_cons, hg]

theorem mvLeftOnly_cons_none (obsR : List (PE × Value)) (p : PE × Value) (ls : List (PE × Value))
    (h : pemGet p.1 obsR = none) : mvLeftOnly obsR (p :: ls) = p.1 :: mvLeftOnly obsR ls := by
  simp [mvLeftOnly, List.filter_cons, h]

theorem mvLeftOnly_cons_le (obsR : List (PE × Value)) (p : PE × Value) (ls : List (PE × Value)) (q : PE) :
    peCnt q (mvLeftOnly obsR ls) ≤ peCnt q (mvLeftOnly obsR (p :: ls)) := by
  cases hg : pemGet p.1 obsR with
  | none => rw [mvLeftOnly_cons_none obsR p ls hg, peCnt_cons]; omega
  | some w => rw [mvLeftOnly_cons_some obsR p ls (by simp [hg])]; exact Nat.le_refl _

theorem mvLeftOnly_le (obsR : List (PE × Value)) (q : PE) :
    ∀ ls : List (PE × Value), peCnt q (mvLeftOnly obsR ls) ≤ peCnt q (ls.map (·.1))
  | [] => Nat.le_refl _
  | p :: ls => by
    have ih := mvLeftOnly_le obsR q ls
    rw [List.map_cons, peCnt_cons]
    cases hg : pemGet p.1 obsR with
    | none => rw [mvLeftOnly_cons_none obsR p ls hg, peCnt_cons]; omega
    | some w => rw [mvLeftOnly_cons_some obsR p ls (by simp [hg])]; omega

theorem mem_mvLeftOnly (obsR : List (PE × Value)) (ls : List (PE × Value)) (x : PE) :
    x ∈ mvLeftOnly obsR ls ↔ ∃ p ∈ ls, pemGet p.1 obsR = none ∧ p.1 = x := by
  simp [mvLeftOnly, and_assoc]

/-! ### the interleaving loop emits items of pairwise distinct identities -/

theorem mv_filterMap_pushOpt (idOf : Value → Option PE) (v : Value) (po : PE) (out : List Value)
    (h : idOf v = some po) : (pushOpt (some v) out).filterMap idOf = po :: out.filterMap idOf := by
  simp [pushOpt, List.filterMap_cons, h]

/-- if every item emitted for a left-only element or at a right element has the identity of that
element, and the pending elements are pairwise distinct and distinct from the identities emitted so
far, then all emitted items have identities, pairwise distinct -/
theorem mv_mergeLoop_ids (item : PE → Option Value → Option Value → Res (Option Value))
    (obsL obsR : List (PE × Value)) (idOf : Value → Option PE) :
    ∀ (steps : Nat) (ls : List (PE × Value)) (rs shared merged : List PE) (out res : List Value),
      (∀ p ∈ ls, pemGet p.1 obsR = none → ∀ v, item p.1 (some p.2) none = .ok (some v) →
        ∃ po, idOf v = some po ∧ PE.equals po p.1 = true) →
      (∀ rpe ∈ rs, ∀ pe v, PE.equals pe rpe = true →
        item pe (pemGet pe obsL) (pemGet pe obsR) = .ok (some v) →
        ∃ po, idOf v = some po ∧ PE.equals po rpe = true) →
      (∀ v ∈ out, (idOf v).isSome = true) →
      (∀ q, peCnt q (out.filterMap idOf) + peCnt q (mvLeftOnly obsR ls) + peCnt q rs ≤ 1) →
      mergeLoop item obsL obsR steps ls rs shared merged out = .ok res →
      (∀ v ∈ res, (idOf v).isSome = true) ∧ ∀ q, peCnt q (res.filterMap idOf) ≤ 1 := by
  intro steps
  induction steps with
  | zero =>
    intro ls rs shared merged out res _ _ hout hcnt h
    by_cases hne : ls = [] ∧ rs = []
    · obtain ⟨rfl, rfl⟩ := hne
      rw [mergeLoop_nil] at h
      cases h
      refine ⟨fun v hv => hout v (List.mem_reverse.1 hv), fun q => ?_⟩
      have := hcnt q
      rw [List.filterMap_reverse]
      simp only [peCnt, List.countP_reverse] at this ⊢
      omega
    · rw [mergeLoop] at h
      · cases h
      · intro h1 h2; exact hne ⟨h1, h2⟩
  | succ n ih =>
    intro ls rs shared merged out res hL hR hout hcnt h
    by_cases hne : ls = [] ∧ rs = []
    · obtain ⟨rfl, rfl⟩ := hne
      rw [mergeLoop_nil] at h
      cases h
      refine ⟨fun v hv => hout v (List.mem_reverse.1 hv), fun q => ?_⟩
      have := hcnt q
      rw [List.filterMap_reverse]
      simp only [peCnt, List.countP_reverse] at this ⊢
      omega
    · obtain ⟨ls2, rs2, shared2, merged2, out2, h2, hstep⟩ :=
        mergeLoop_step item obsL obsR n ls rs shared merged out res hne h
      cases hstep with
      | skip pe x _ hls hs =>
        subst hls
        refine ih _ _ _ _ _ _ (fun p hp => hL p (List.mem_cons_of_mem _ hp)) hR hout ?_ h2
        intro q
        have := hcnt q
        rw [mvLeftOnly_cons_some obsR (pe, x) ls2 hs] at this
        exact this
      | left pe x _ o hls hn hi =>
        subst hls
        cases o with
        | none =>
          refine ih _ _ _ _ _ _ (fun p hp => hL p (List.mem_cons_of_mem _ hp)) hR hout ?_ h2
          intro q
          have := hcnt q
          have hle := mvLeftOnly_cons_le obsR (pe, x) ls2 q
          show peCnt q (out.filterMap idOf) + _ + _ ≤ 1
          omega
        | some v =>
          obtain ⟨po, hpo, hpe⟩ := hL (pe, x) List.mem_cons_self hn v hi
          refine ih _ _ _ _ _ _ (fun p hp => hL p (List.mem_cons_of_mem _ hp)) hR ?_ ?_ h2
          · intro w hw
            rcases (mem_pushOpt _ _ _).1 hw with hw | hw
            · cases hw; rw [hpo]; rfl
            · exact hout w hw
          · intro q
            have := hcnt q
            rw [mvLeftOnly_cons_none obsR (pe, x) ls2 hn] at this
            rw [mv_filterMap_pushOpt idOf v po out hpo, peCnt_cons_congr q po pe _ hpe]
            rw [peCnt_cons] at this ⊢
            simp only [] at this
            omega
      | right pe rpe _ _ o hrs he hi hl =>
        subst hrs
        have hL2 : ∀ p ∈ ls2, pemGet p.1 obsR = none → ∀ v, item p.1 (some p.2) none = .ok (some v) →
            ∃ po, idOf v = some po ∧ PE.equals po p.1 = true := by
          intro p hp
          rcases hl with rfl | ⟨y, rfl⟩
          · exact hL p hp
          · exact hL p (List.mem_cons_of_mem _ hp)
        have hle : ∀ q, peCnt q (mvLeftOnly obsR ls2) ≤ peCnt q (mvLeftOnly obsR ls) := by
          intro q
          rcases hl with rfl | ⟨y, rfl⟩
          · exact Nat.le_refl _
          · exact mvLeftOnly_cons_le obsR y ls2 q
        have hR2 : ∀ r ∈ rs2, ∀ pe v, PE.equals pe r = true →
            item pe (pemGet pe obsL) (pemGet pe obsR) = .ok (some v) →
            ∃ po, idOf v = some po ∧ PE.equals po r = true :=
          fun r hr => hR r (List.mem_cons_of_mem _ hr)
        cases o with
        | none =>
          refine ih _ _ _ _ _ _ hL2 hR2 hout ?_ h2
          intro q
          have h1 := hcnt q
          have h3 := hle q
          rw [peCnt_cons] at h1
          show peCnt q (out.filterMap idOf) + _ + _ ≤ 1
          omega
        | some v =>
          obtain ⟨po, hpo, hpe⟩ := hR rpe List.mem_cons_self pe v he hi
          refine ih _ _ _ _ _ _ hL2 hR2 ?_ ?_ h2
          · intro w hw
            rcases (mem_pushOpt _ _ _).1 hw with hw | hw
            · cases hw; rw [hpo]; rfl
            · exact hout w hw
          · intro q
            have h1 := hcnt q
            have h2 := hle q
            rw [mv_filterMap_pushOpt idOf v po out hpo, peCnt_cons_congr q po rpe _ hpe]
            rw [peCnt_cons] at h1 ⊢
            omega
      | idle => exact ih _ _ _ _ _ _ hL hR hout hcnt h2

/-! ### rebuilding the validation of an associative list -/

theorem mv_validateItems_of_ids (s : Schema) (t : ListT) (hrel : t.rel = "associative") :
    ∀ (res : List Value) (seen : List PE) (i : Nat),
      (∀ v ∈ res, validateV s false t.elementType v = .ok ()) →
      (∀ v ∈ res, (Conf.identity s t v).isSome = true) →
      (∀ q, peCnt q (res.filterMap (Conf.identity s t)) ≤ 1) →
      (∀ p ∈ res.filterMap (Conf.identity s t), peHas p seen = false) →
      validateItems s false t seen i res = .ok ()
  | [], _, _, _, _, _, _ => by rw [validateItems]
  | v :: rest, seen, i, hv, hid, hcnt, hseen => by
    cases hidv : Conf.identity s t v with
    | none => have := hid v List.mem_cons_self; rw [hidv] at this; cases this
    | some po =>
      have hfm : (v :: rest).filterMap (Conf.identity s t) = po :: rest.filterMap (Conf.identity s t) := by
        simp [List.filterMap_cons, hidv]
      rw [hfm] at hcnt hseen
      have ih := mv_validateItems_of_ids s t hrel rest (peInsert po seen) (i + 1)
        (fun w hw => hv w (List.mem_cons_of_mem _ hw)) (fun w hw => hid w (List.mem_cons_of_mem _ hw))
        (fun q => by have := hcnt q; rw [peCnt_cons] at this; omega)
        (by
          intro p hp
          rw [peHas_peInsert, hseen p (List.mem_cons_of_mem _ hp), Bool.or_false]
          cases he : PE.equals po p with
          | false => rfl
          | true =>
            have h1 := hcnt p
            rw [peCnt_cons, if_pos he] at h1
            have h2 : 0 < peCnt p (rest.filterMap (Conf.identity s t)) :=
              (peCnt_pos _ _).2 ⟨p, hp, PE.equals_refl _⟩
            omega)
      rw [validateItems]
      simp only [hrel, bne_self_eq_false, Bool.false_eq_true, if_false]
      rw [listItemToPE_eq s t v hrel, hidv]
      simp only [hseen po List.mem_cons_self, Bool.false_and, Bool.false_eq_true, if_false,
        hv v List.mem_cons_self, ih]

/-! ### what the operands say about their entries and items -/

theorem mv_side_map (s : Schema) (tr : TypeRef) (a : Atom) (t : MapT) (hres : s.resolve tr = some a)
    (hmap : a.map = some t) (hna : t.rel ≠ "atomic") (x : Option Value)
    (Hx : ∀ v, x = some v → validateV s false tr v = .ok () ∧ keysScalar s tr v = true)
    (xf : List (String × Value)) (hxf : (asMap x).getD [] = xf) (k : String) (w : Value)
    (h : lookupField k xf = some w) :
    validateV s false (fieldType t k) w = .ok () ∧ keysScalar s (fieldType t k) w = true ∧
      (t.findField k = none → t.elementType.isZero = false) := by
  have hx := asMap_getD_lookup' x xf hxf k w h
  obtain ⟨hv, hk⟩ := Hx _ hx
  rw [validateV_map, hres] at hv
  simp only [hmap] at hv
  have hmem := mn_lookupField_mem k w xf h
  exact ⟨validateFields_mem s false t xf hv (k, w) hmem, keysScalar_map_child s tr a t xf hres hmap hna hk k w h,
    mv_validateFields_nz s false t xf hv (k, w) hmem⟩

theorem mv_side_list (s : Schema) (tr : TypeRef) (a : Atom) (t : ListT) (hres : s.resolve tr = some a)
    (hlist : a.list = some t) (hna : t.rel ≠ "atomic") (x : Option Value)
    (Hx : ∀ v, x = some v → validateV s false tr v = .ok () ∧ keysScalar s tr v = true)
    (xl : List Value) (hxl : (asList x).getD [] = xl) :
    validateItems s false t [] 0 xl = .ok () ∧
      ∀ c ∈ xl, itemKeysScalar t.keys c = true ∧ keysScalar s t.elementType c = true := by
  cases xl with
  | nil => exact ⟨by rw [validateItems], fun c hc => by cases hc⟩
  | cons c cs =>
    have hx := asList_getD_mem x c (by rw [hxl]; exact List.mem_cons_self)
    rw [hxl] at hx
    obtain ⟨hv, hk⟩ := Hx _ hx
    rw [validateV_list, hres] at hv
    simp only [hlist] at hv
    exact ⟨hv, keysScalar_list_items s tr a t _ hres hlist hna hk⟩

/-- the elements of the indexed items of a list validated without duplicates are pairwise distinct -/
theorem mv_index_cnt (s : Schema) (t : ListT) (hrel : t.rel = "associative") (pes : List (PE × Value))
    (xl : List Value) (h2 : pes.map (·.2) = xl) (h3 : ∀ p ∈ pes, listItemToPE s t p.2 = .ok p.1)
    (hv : validateItems s false t [] 0 xl = .ok ()) : ∀ q, peCnt q (pes.map (·.1)) ≤ 1 := by
  have hspec := (validateItems_iff s false xl t [] 0).1 hv
  unfold itemsSpec at hspec
  rw [if_pos hrel] at hspec
  obtain ⟨_, hd, _⟩ := hspec
  have hd' : Conf.distinct ((xl.map (Conf.identity s t)).filterMap id) = true := by
    rcases hd with hd | hd
    · cases hd
    · exact hd.1
  have : (xl.map (Conf.identity s t)).filterMap id = pes.map (·.1) := by
    rw [← h2, List.map_map]
    have : pes.map (Conf.identity s t ∘ fun p => p.2) = pes.map (fun p => some ((fun p : PE × Value => p.1) p)) := by
      apply List.map_congr_left
      intro p hp
      exact identity_of_listItemToPE s t _ _ hrel (h3 p hp)
    rw [this, filterMap_id_map_some]
  rw [this] at hd'
  exact mv_distinct_cnt _ hd'

/-! ### merging keeps the key fields of an item scalar -/

theorem mv_merge_itemKeysScalar (s : Schema) (keys : List String) (fuel : Nat) (lc rc : Option Value)
    (tr : TypeRef) (o : Value)
    (Hl : ∀ w, lc = some w → itemKeysScalar keys w = true)
    (Hr : ∀ w, rc = some w → itemKeysScalar keys w = true ∧ validateV s false tr w = .ok ())
    (h : mergeNode s fuel lc rc tr = .ok (some o)) : itemKeysScalar keys o = true := by
  obtain ⟨n, a, x, _, hres, hh⟩ := mv_mergeNode_handle s fuel lc rc tr _ h
  have hkeep : ∀ o', some o' = keepRHS lc rc → itemKeysScalar keys o' = true :=
    fun o' ho' => mv_keepRHS lc rc (fun v => itemKeysScalar keys v = true) Hl (fun w hw => (Hr w hw).1) o' ho'
  cases hkind : atomKind (deduceAtom a x) with
  | invalid => unfold mergeHandle at hh; rw [hkind] at hh; cases hh
  | scalar st => exact hkeep o (mergeHandle_scalar s _ _ _ _ st hkind _ hh)
  | list lt =>
    rcases mergeHandle_list s _ _ _ _ lt hkind _ hh with h1 | ⟨_, _, _, _, res, _, _, _, _, _, h2⟩
    · exact hkeep o h1
    · rcases h2 with ⟨_, ho⟩ | ⟨_, ho⟩
      · cases ho
      · cases ho; rfl
  | map mt =>
    have hmap := mv_atomKind_deduce_map a x mt hkind
    rcases mergeHandle_map s _ _ _ _ mt hkind _ hh with h1 | ⟨outm, hf, _, _, h2⟩
    · exact hkeep o h1
    · rcases h2 with ⟨_, ho⟩ | ⟨_, ho⟩
      · cases ho
      · cases ho
        generalize hlf : (asMap lc).getD [] = lf at hf
        generalize hrf : (asMap rc).getD [] = rf at hf
        simp only [itemKeysScalar, List.all_eq_true]
        intro k hk
        cases ho : lookupField k outm with
        | none => rfl
        | some w =>
          simp only []
          have hm := (mergedMap_lookup _ mt lf rf outm hf k).1 w ho
          cases hr : lookupField k rf with
          | some wr =>
            have hrc := asMap_getD_lookup' rc rf hrf k wr hr
            obtain ⟨hks, hv⟩ := Hr _ hrc
            rw [validateV_map, hres] at hv
            simp only [hmap] at hv
            have hsc := itemKeysScalar_lookup keys rf k wr hks hk hr
            have hvv := validateFields_mem s false mt rf hv (k, wr) (mn_lookupField_mem k wr rf hr)
            rw [hr] at hm
            have := merge_scalar_right s n _ wr _ _ hvv hsc hm
            cases this
            exact hsc
          | none =>
            cases hl : lookupField k lf with
            | some wl =>
              have hlc := asMap_getD_lookup' lc lf hlf k wl hl
              have hsc := itemKeysScalar_lookup keys lf k wl (Hl _ hlc) hk hl
              rw [hr, hl] at hm
              have := merge_scalar_left s n wl _ _ hsc hm
              cases this
              exact hsc
            | none =>
              rw [hr, hl] at hm
              exact absurd hm (mergeNode_none_none s n _ _)

/-! ### the statement, by induction on the fuel -/

/-- the induction hypothesis: merges with fuel `n` of validated operands are validated -/
def MVGoal (s : Schema) (n : Nat) : Prop :=
  ∀ (l r : Option Value) (tr : TypeRef) (out : Value),
    (∀ lv, l = some lv → validateV s false tr lv = .ok () ∧ keysScalar s tr lv = true) →
    (∀ rv, r = some rv → validateV s false tr rv = .ok () ∧ keysScalar s tr rv = true) →
    mergeNode s n l r tr = .ok (some out) →
    validateV s false tr out = .ok () ∧ keysScalar s tr out = true

theorem mv_handle_map (s : Schema) (n : Nat) (ih : MVGoal s n) (l r : Option Value) (tr : TypeRef)
    (a : Atom) (t : MapT) (hres : s.resolve tr = some a) (hmap : a.map = some t) (hna : t.rel ≠ "atomic")
    (Hl : ∀ lv, l = some lv → validateV s false tr lv = .ok () ∧ keysScalar s tr lv = true)
    (Hr : ∀ rv, r = some rv → validateV s false tr rv = .ok () ∧ keysScalar s tr rv = true)
    (outm : List (String × Value))
    (hf : (zipKeys ((asMap l).getD []) ((asMap r).getD [])).foldl
      (mergeMapStep (mergeNode s n) t ((asMap l).getD []) ((asMap r).getD [])) (.ok []) = .ok outm) :
    validateV s false tr (.map outm) = .ok () ∧ keysScalar s tr (.map outm) = true := by
  generalize hlf : (asMap l).getD [] = lf at hf
  generalize hrf : (asMap r).getD [] = rf at hf
  have hL := mv_side_map s tr a t hres hmap hna l Hl lf hlf
  have hR := mv_side_map s tr a t hres hmap hna r Hr rf hrf
  obtain ⟨h1, _, _⟩ := foldl_mergeMapStep_spec (mergeNode s n) t lf rf _ _ _ hf
  have hent : ∀ x ∈ outm, (validateV s false (fieldType t x.1) x.2 = .ok () ∧
      (t.findField x.1 = none → t.elementType.isZero = false)) ∧ keysScalar s (fieldType t x.1) x.2 = true := by
    intro x hx
    rcases h1 x hx with h | ⟨hk, hm⟩
    · cases h
    · obtain ⟨g1, g2⟩ := ih _ _ _ _ (fun lv hlv => ⟨(hL _ _ hlv).1, (hL _ _ hlv).2.1⟩)
        (fun rv hrv => ⟨(hR _ _ hrv).1, (hR _ _ hrv).2.1⟩) hm
      refine ⟨⟨g1, ?_⟩, g2⟩
      rcases (mem_zipKeys _ _ _).1 hk with hs | hs
      · cases hl : lookupField x.1 lf with
        | none => rw [hl] at hs; cases hs
        | some w => exact (hL _ _ hl).2.2
      · cases hl : lookupField x.1 rf with
        | none => rw [hl] at hs; cases hs
        | some w => exact (hR _ _ hl).2.2
  constructor
  · rw [validateV_map, hres]
    simp only [hmap]
    exact mv_validateFields_of_mem s false t outm (fun x hx => (hent x hx).1)
  · rw [keysScalar, resolveKind_map s tr a t outm hres hmap]
    simp only [Bool.or_eq_true, beq_iff_eq]
    exact .inr (mv_keysScalarFields_of_mem s t outm (fun x hx => (hent x hx).2))

theorem mv_handle_list (s : Schema) (n : Nat) (ih : MVGoal s n) (l r : Option Value) (tr : TypeRef)
    (a : Atom) (t : ListT) (hres : s.resolve tr = some a) (hlist : a.list = some t) (hna : t.rel ≠ "atomic")
    (Hl : ∀ lv, l = some lv → validateV s false tr lv = .ok () ∧ keysScalar s tr lv = true)
    (Hr : ∀ rv, r = some rv → validateV s false tr rv = .ok () ∧ keysScalar s tr rv = true)
    (rpes obsR lpes obsL : List (PE × Value)) (res : List Value)
    (hir : indexPEs s t false ((asList r).getD []) [] [] = .ok (rpes, obsR))
    (hil : indexPEs s t true ((asList l).getD []) [] [] = .ok (lpes, obsL))
    (hloop : mergeLoop (fun _ lc rc => mergeNode s n lc rc t.elementType) obsL obsR
      (lpes.length + (rpes.map (·.1)).length) lpes (rpes.map (·.1))
      ((rpes.map (·.1)).filter (fun pe => (pemGet pe obsL).isSome)) [] [] = .ok res)
    (hne : res ≠ []) :
    validateV s false tr (.list res) = .ok () ∧ keysScalar s tr (.list res) = true := by
  generalize hll : (asList l).getD [] = ll at hil
  generalize hrl : (asList r).getD [] = rl at hir
  obtain ⟨hvl, hkl⟩ := mv_side_list s tr a t hres hlist hna l Hl ll hll
  obtain ⟨hvr, hkr⟩ := mv_side_list s tr a t hres hlist hna r Hr rl hrl
  obtain ⟨newr, er, hr2, hr3, hr4, hr5⟩ := mn_indexPEs_spec s t false rl [] [] rpes obsR hir
  simp only [List.reverse_nil, List.nil_append] at er
  subst er
  obtain ⟨hr4a, _⟩ := hr4 rfl
  obtain ⟨newl, el, hl2, hl3, _, hl5⟩ := mn_indexPEs_spec s t true ll [] [] lpes obsL hil
  simp only [List.reverse_nil, List.nil_append] at el
  subst el
  obtain ⟨m1, _, _, _⟩ := mergeLoop_spec _ _ _ _ _ _ _ _ _ _ hloop
  have hrmem : ∀ p ∈ rpes, p.2 ∈ rl := fun p hp => by rw [← hr2]; exact List.mem_map_of_mem hp
  have hlmem : ∀ p ∈ lpes, p.2 ∈ ll := fun p hp => by rw [← hl2]; exact List.mem_map_of_mem hp
  -- the list is associative: some item was indexed
  have hrel : t.rel = "associative" := by
    cases res with
    | nil => exact absurd rfl hne
    | cons v0 _ =>
      rcases m1 v0 List.mem_cons_self with h | ⟨pe, x, hm, _, _⟩ | ⟨pe, rpe, hm, _, _⟩
      · cases h
      · exact mv_rel_of_ok s t _ _ (hl3 _ hm)
      · obtain ⟨p, hp, _⟩ := List.mem_map.1 hm
        exact mv_rel_of_ok s t _ _ (hr3 p hp)
  have hvalidL := validateItems_assoc s false t hrel ll [] 0 hvl
  have hvalidR := validateItems_assoc s false t hrel rl [] 0 hvr
  -- what the two indexes hold
  have hobsL : ∀ q w, pemGet q obsL = some w → w = .null ∨ ∃ p ∈ lpes, PE.equals p.1 q = true ∧ p.2 = w := by
    intro q w hw
    rcases hl5 q w hw with h | h | h
    · exact .inl h
    · simp [pemGet] at h
    · exact .inr h
  have hobsR : ∀ pe1 (p1 : PE × Value), p1 ∈ rpes → PE.equals pe1 p1.1 = true → pemGet pe1 obsR = some p1.2 := by
    intro pe1 p1 hp1 he1
    rw [pemGet_congr he1]; exact hr4a p1 hp1
  -- identities of the emitted items
  have hidL : ∀ p ∈ lpes, pemGet p.1 obsR = none → ∀ v,
      mergeNode s n (some p.2) none t.elementType = .ok (some v) →
      ∃ po, Conf.identity s t v = some po ∧ PE.equals po p.1 = true := by
    intro p hp _ v hm
    exact ⟨p.1, merge_identity_left s t n p.2 v p.1 (identity_of_listItemToPE s t _ _ hrel (hl3 p hp))
      (hkl _ (hlmem p hp)).1 hm, PE.equals_refl _⟩
  have hidR : ∀ rpe ∈ rpes.map (·.1), ∀ pe v, PE.equals pe rpe = true →
      mergeNode s n (pemGet pe obsL) (pemGet pe obsR) t.elementType = .ok (some v) →
      ∃ po, Conf.identity s t v = some po ∧ PE.equals po rpe = true := by
    intro rpe hrpe pe1 o1 he1 hmerge
    obtain ⟨p1, hp1, rfl⟩ := List.mem_map.1 hrpe
    rw [hobsR pe1 p1 hp1 he1] at hmerge
    refine merge_identity_right s t n (pemGet pe1 obsL) p1.2 o1 p1.1
      (identity_of_listItemToPE s t _ _ hrel (hr3 p1 hp1)) (hvalidR _ (hrmem p1 hp1)).2
      (hkr _ (hrmem p1 hp1)).1 ?_ hmerge
    intro w hw
    rcases hobsL pe1 w hw with h | ⟨p, hp, hpe, hpw⟩
    · exact .inl h
    · right
      subst hpw
      exact ⟨p.1, identity_of_listItemToPE s t _ _ hrel (hl3 p hp), PE.equals_trans hpe he1,
        (hkl _ (hlmem p hp)).1⟩
  -- the pending elements are pairwise distinct
  have hcntL := mv_index_cnt s t hrel lpes ll hl2 hl3 hvl
  have hcntR := mv_index_cnt s t hrel rpes rl hr2 hr3 hvr
  have hcnt : ∀ q, peCnt q (([] : List Value).filterMap (Conf.identity s t)) + peCnt q (mvLeftOnly obsR lpes) +
      peCnt q (rpes.map (·.1)) ≤ 1 := by
    intro q
    have h1 := mvLeftOnly_le obsR q lpes
    have h2 := hcntL q
    have h3 := hcntR q
    have h0 : peCnt q (([] : List Value).filterMap (Conf.identity s t)) = 0 := rfl
    by_cases hz : peCnt q (mvLeftOnly obsR lpes) = 0
    · omega
    · have hpos : 0 < peCnt q (mvLeftOnly obsR lpes) := by omega
      obtain ⟨x, hx, hxq⟩ := (peCnt_pos _ _).1 hpos
      obtain ⟨p, hp, hpn, rfl⟩ := (mem_mvLeftOnly _ _ _).1 hx
      have : peCnt q (rpes.map (·.1)) = 0 := by
        rw [peCnt_zero]
        intro y hy
        obtain ⟨p', hp', rfl⟩ := List.mem_map.1 hy
        cases he : PE.equals p'.1 q with
        | false => rfl
        | true =>
          have := hobsR p.1 p' hp' (PE.equals_trans hxq (PE.equals_symm_of he))
          rw [hpn] at this; cases this
      omega
  obtain ⟨hids, hdist⟩ := mv_mergeLoop_ids _ obsL obsR (Conf.identity s t) _ _ _ _ _ _ _ hidL hidR
    (by intro v hv; cases hv) hcnt hloop
  -- every emitted item is a validated merge
  have hnull : ∀ c ∈ rl, validateV s false t.elementType .null = .ok () :=
    fun c hc => mv_validateV_null_of_valid s false _ c (hvalidR c hc).2
  have hitem : ∀ v ∈ res, validateV s false t.elementType v = .ok () ∧
      (itemKeysScalar t.keys v = true ∧ keysScalar s t.elementType v = true) := by
    intro v hv
    rcases m1 v hv with h | ⟨pe, x, hm, _, hi⟩ | ⟨pe, rpe, hm, he, hi⟩
    · cases h
    · have hx := hlmem _ hm
      obtain ⟨g1, g2⟩ := ih _ _ _ _
        (fun lv hlv => by cases hlv; exact ⟨(hvalidL _ hx).2, (hkl _ hx).2⟩)
        (fun rv hrv => by cases hrv) hi
      refine ⟨g1, mv_merge_itemKeysScalar s t.keys n _ _ _ v ?_ ?_ hi, g2⟩
      · intro w hw; cases hw; exact (hkl _ hx).1
      · intro w hw; cases hw
    · obtain ⟨p1, hp1, rfl⟩ := List.mem_map.1 hm
      have hget := hobsR pe p1 hp1 he
      have hx := hrmem _ hp1
      have hLc : ∀ w, pemGet pe obsL = some w → validateV s false t.elementType w = .ok () ∧
          keysScalar s t.elementType w = true ∧ itemKeysScalar t.keys w = true := by
        intro w hw
        rcases hobsL pe w hw with h | ⟨p, hp, _, hpw⟩
        · subst h; exact ⟨hnull _ hx, rfl, rfl⟩
        · subst hpw
          exact ⟨(hvalidL _ (hlmem p hp)).2, (hkl _ (hlmem p hp)).2, (hkl _ (hlmem p hp)).1⟩
      rw [hget] at hi
      obtain ⟨g1, g2⟩ := ih _ _ _ _
        (fun lv hlv => ⟨(hLc _ hlv).1, (hLc _ hlv).2.1⟩)
        (fun rv hrv => by cases hrv; exact ⟨(hvalidR _ hx).2, (hkr _ hx).2⟩) hi
      refine ⟨g1, mv_merge_itemKeysScalar s t.keys n _ _ _ v ?_ ?_ hi, g2⟩
      · intro w hw; exact (hLc _ hw).2.2
      · intro w hw; cases hw; exact ⟨(hkr _ hx).1, (hvalidR _ hx).2⟩
  constructor
  · rw [validateV_list, hres]
    simp only [hlist]
    exact mv_validateItems_of_ids s t hrel res [] 0 (fun v hv => (hitem v hv).1) hids hdist
      (fun p _ => rfl)
  · rw [keysScalar, resolveKind_list s tr a t res hres hlist]
    simp only [Bool.or_eq_true, beq_iff_eq]
    exact .inr (mv_keysScalarItems_of_mem s t res (fun v hv => (hitem v hv).2))

theorem mv_handle (s : Schema) (n : Nat) (ih : MVGoal s n) (l r : Option Value) (tr : TypeRef)
    (a : Atom) (x : Option Value) (out : Value) (hres : s.resolve tr = some a)
    (Hl : ∀ lv, l = some lv → validateV s false tr lv = .ok () ∧ keysScalar s tr lv = true)
    (Hr : ∀ rv, r = some rv → validateV s false tr rv = .ok () ∧ keysScalar s tr rv = true)
    (hh : mergeHandle s (mergeNode s n) l r (deduceAtom a x) = .ok (some out)) :
    validateV s false tr out = .ok () ∧ keysScalar s tr out = true := by
  have hkeep : ∀ o', some o' = keepRHS l r → validateV s false tr o' = .ok () ∧ keysScalar s tr o' = true :=
    fun o' ho' => mv_keepRHS l r (fun v => validateV s false tr v = .ok () ∧ keysScalar s tr v = true) Hl Hr o' ho'
  cases hkind : atomKind (deduceAtom a x) with
  | invalid => unfold mergeHandle at hh; rw [hkind] at hh; cases hh
  | scalar st => exact hkeep out (mergeHandle_scalar s _ _ _ _ st hkind _ hh)
  | map mt =>
    have hmap := mv_atomKind_deduce_map a x mt hkind
    rcases mergeHandle_map s _ _ _ _ mt hkind _ hh with h1 | ⟨outm, hf, _, hna, h2⟩
    · exact hkeep out h1
    · rcases h2 with ⟨_, ho⟩ | ⟨_, ho⟩
      · cases ho
      · cases ho
        exact mv_handle_map s n ih l r tr a mt hres hmap hna Hl Hr outm hf
  | list lt =>
    have hlist := mv_atomKind_deduce_list a x lt hkind
    rcases mergeHandle_list s _ _ _ _ lt hkind _ hh with h1 |
      ⟨rpes, obsR, lpes, obsL, res, hir, hil, hloop, _, hna, h2⟩
    · exact hkeep out h1
    · rcases h2 with ⟨_, ho⟩ | ⟨hne, ho⟩
      · cases ho
      · cases ho
        exact mv_handle_list s n ih l r tr a lt hres hlist hna Hl Hr rpes obsR lpes obsL res hir hil hloop hne

/-- merging two validated objects whose keyed-list items carry scalar key fields gives a validated object
with the same property -/
theorem mergeNode_valid (s : Schema) : ∀ (fuel : Nat) (l r : Option Value) (tr : TypeRef) (out : Value),
    (∀ lv, l = some lv → validateV s false tr lv = .ok () ∧ keysScalar s tr lv = true) →
    (∀ rv, r = some rv → validateV s false tr rv = .ok () ∧ keysScalar s tr rv = true) →
    mergeNode s fuel l r tr = .ok (some out) →
    validateV s false tr out = .ok () ∧ keysScalar s tr out = true := by
  intro fuel
  induction fuel with
  | zero => intro l r tr out _ _ h; cases h
  | succ n ih =>
    intro l r tr out Hl Hr h
    obtain ⟨n', a, x, hn, hres, hh⟩ := mv_mergeNode_handle s (n + 1) l r tr _ h
    cases hn
    exact mv_handle s n ih l r tr a x out hres Hl Hr hh

theorem mergeTV_valid (s : Schema) (live cfg merged : TV)
    (hl : validateV s false live.type live.value = .ok ()) (hr : validateV s false cfg.type cfg.value = .ok ())
    (htype : live.type = cfg.type)
    (hkl : keysScalar s live.type live.value = true) (hkr : keysScalar s cfg.type cfg.value = true)
    (hm : mergeTV s live cfg = .ok merged) :
    validateV s false merged.type merged.value = .ok () ∧ keysScalar s merged.type merged.value = true := by
  unfold mergeTV at hm
  split at hm
  · cases hm
  · split at hm
    · next o ho =>
      cases hm
      have hsome := mergeNode_isSome s _ _ _ _ _ ho
      cases o with
      | none => cases hsome
      | some out =>
        simp only [outToValue]
        refine mergeNode_valid s _ _ _ _ out ?_ ?_ ho
        · intro lv hlv; cases hlv; exact ⟨hl, hkl⟩
        · intro rv hrv; cases hrv; rw [htype]; exact ⟨hr, hkr⟩
    · cases hm
    · cases hm

end SMD
