/-
Field set and removal against the independent path resolver `Nodes.valueAt` (`SMD/Spec/Nodes.lean`):
helper lemmas for `SMD/Properties/C14Nodes.lean`.
-/
import SMD.Spec.Nodes
import SMD.Proofs.ValidateExact
import SMD.Proofs.RemoveLaws
import SMD.Proofs.MergeLaws
import SMD.Properties.C15
set_option linter.unusedSimpArgs false
set_option linter.unusedVariables false
namespace SMD
namespace NodeLaws
open SetTrie

/-! ### the resolver, one step at a time -/

theorem fieldType_eq_entryType (t : MapT) (k : String) : fieldType t k = Nodes.entryType t k := rfl

theorem valueAt_nil (s : Schema) (tr : TypeRef) (v : Value) : Nodes.valueAt s tr v [] = some v := by
  simp [Nodes.valueAt]

theorem valueAt_cons (s : Schema) (tr : TypeRef) (v : Value) (pe : PE) (rest : Path) :
    Nodes.valueAt s tr v (pe :: rest) =
      match Nodes.childAt s tr v pe with
      | some (tr', v') => Nodes.valueAt s tr' v' rest
      | none => none := by
  rw [Nodes.valueAt]
  cases Nodes.childAt s tr v pe with
  | none => rfl
  | some x => rfl

theorem valueAt_of_childAt_none {s : Schema} {tr : TypeRef} {v : Value} {pe : PE} (rest : Path)
    (h : Nodes.childAt s tr v pe = none) : Nodes.valueAt s tr v (pe :: rest) = none := by
  rw [valueAt_cons, h]

theorem valueAt_of_childAt_some {s : Schema} {tr tr' : TypeRef} {v v' : Value} {pe : PE} (rest : Path)
    (h : Nodes.childAt s tr v pe = some (tr', v')) :
    Nodes.valueAt s tr v (pe :: rest) = Nodes.valueAt s tr' v' rest := by
  rw [valueAt_cons, h]

/-- a path element that is not an index -/
def _root_.SMD.PE.notIndex : PE → Bool
  | .index _ => false
  | _ => true

/-- does the path element designate this item of a list of type `lt` -/
def hitOf (s : Schema) (lt : ListT) (pe : PE) (item : Value) : Bool :=
  match pe with
  | .index _ => false
  | _ => lt.rel == "associative" &&
         (match Conf.identity s lt item with
          | some id => PE.equals id pe
          | none => false)

theorem itemAt_nil (s : Schema) (lt : ListT) (pe : PE) : Nodes.itemAt s lt pe [] = none := rfl

theorem itemAt_cons (s : Schema) (lt : ListT) (pe : PE) (item : Value) (rest : List Value) :
    Nodes.itemAt s lt pe (item :: rest) =
      if hitOf s lt pe item then some item else Nodes.itemAt s lt pe rest := rfl

theorem hitOf_eq (s : Schema) (lt : ListT) (pe : PE) (item : Value) (hpe : pe.notIndex = true) :
    hitOf s lt pe item = (lt.rel == "associative" &&
      (match Conf.identity s lt item with
       | some id => PE.equals id pe
       | none => false)) := by
  cases pe <;> first | rfl | simp [PE.notIndex] at hpe

theorem hitOf_of_identity {s : Schema} {lt : ListT} {pe id : PE} {item : Value} (hpe : pe.notIndex = true)
    (hrel : lt.rel = "associative") (hid : Conf.identity s lt item = some id) :
    hitOf s lt pe item = PE.equals id pe := by
  rw [hitOf_eq s lt pe item hpe, hid]; simp [hrel]

theorem hitOf_inv {s : Schema} {lt : ListT} {pe : PE} {item : Value} (h : hitOf s lt pe item = true) :
    pe.notIndex = true ∧ lt.rel = "associative" ∧ ∃ id, Conf.identity s lt item = some id ∧ PE.equals id pe = true := by
  have hpe : pe.notIndex = true := by
    cases pe <;> first | rfl | simp [hitOf] at h
  rw [hitOf_eq s lt pe item hpe] at h
  simp only [Bool.and_eq_true, beq_iff_eq] at h
  refine ⟨hpe, h.1, ?_⟩
  cases hid : Conf.identity s lt item with
  | none => simp [hid] at h
  | some id => exact ⟨id, rfl, by simpa [hid] using h.2⟩

theorem itemAt_append_first (s : Schema) (lt : ListT) (pe : PE) (c : Value) (l2 : List Value) :
    ∀ l1 : List Value, (∀ c' ∈ l1, hitOf s lt pe c' = false) → hitOf s lt pe c = true →
      Nodes.itemAt s lt pe (l1 ++ c :: l2) = some c
  | [], _, hc => by simp [itemAt_cons, hc]
  | x :: l1, h, hc => by
    have hx : hitOf s lt pe x = false := h x List.mem_cons_self
    simp only [List.cons_append, itemAt_cons, hx, Bool.false_eq_true, if_false]
    exact itemAt_append_first s lt pe c l2 l1 (fun c' hc' => h c' (List.mem_cons_of_mem _ hc')) hc

theorem itemAt_some_inv (s : Schema) (lt : ListT) (pe : PE) (c : Value) :
    ∀ l : List Value, Nodes.itemAt s lt pe l = some c →
      ∃ l1 l2, l = l1 ++ c :: l2 ∧ (∀ c' ∈ l1, hitOf s lt pe c' = false) ∧ hitOf s lt pe c = true
  | [], h => by simp [itemAt_nil] at h
  | x :: l, h => by
    rw [itemAt_cons] at h
    cases hx : hitOf s lt pe x with
    | true =>
      simp only [hx, if_true, Option.some.injEq] at h
      subst h
      exact ⟨[], l, rfl, by simp, hx⟩
    | false =>
      simp only [hx, Bool.false_eq_true, if_false] at h
      obtain ⟨l1, l2, h1, h2, h3⟩ := itemAt_some_inv s lt pe c l h
      refine ⟨x :: l1, l2, by simp [h1], ?_, h3⟩
      intro c' hc'
      rcases List.mem_cons.1 hc' with rfl | hc'
      · exact hx
      · exact h2 c' hc'

theorem itemAt_none_of (s : Schema) (lt : ListT) (pe : PE) :
    ∀ l : List Value, (∀ c ∈ l, hitOf s lt pe c = false) → Nodes.itemAt s lt pe l = none
  | [], _ => rfl
  | x :: l, h => by
    rw [itemAt_cons, h x List.mem_cons_self]
    simp only [Bool.false_eq_true, if_false]
    exact itemAt_none_of s lt pe l (fun c hc => h c (List.mem_cons_of_mem _ hc))

theorem itemAt_isSome_of_mem (s : Schema) (lt : ListT) (pe : PE) (c : Value) :
    ∀ l : List Value, c ∈ l → hitOf s lt pe c = true → (Nodes.itemAt s lt pe l).isSome = true
  | [], h, _ => by cases h
  | x :: l, h, hc => by
    rw [itemAt_cons]
    cases hx : hitOf s lt pe x with
    | true => simp
    | false =>
      simp only [Bool.false_eq_true, if_false]
      rcases List.mem_cons.1 h with rfl | h
      · rw [hc] at hx; cases hx
      · exact itemAt_isSome_of_mem s lt pe c l h hc

theorem childAt_map {s : Schema} {tr : TypeRef} {a : Atom} {mt : MapT} (m : List (String × Value)) (k : String)
    (hres : s.resolve tr = some a) (ha : a.map = some mt) :
    Nodes.childAt s tr (.map m) (.field k) = (lookupField k m).map fun x => (fieldType mt k, x) := by
  simp [Nodes.childAt, hres, ha, fieldType_eq_entryType]

theorem childAt_map_nonfield (s : Schema) (tr : TypeRef) (m : List (String × Value)) (pe : PE)
    (hpe : ∀ k, pe ≠ .field k) : Nodes.childAt s tr (.map m) pe = none := by
  unfold Nodes.childAt
  cases s.resolve tr with
  | none => rfl
  | some a => cases pe <;> simp_all

theorem childAt_list {s : Schema} {tr : TypeRef} {a : Atom} {lt : ListT} (l : List Value) (pe : PE)
    (hres : s.resolve tr = some a) (ha : a.list = some lt) (hpe : pe.notIndex = true) :
    Nodes.childAt s tr (.list l) pe = (Nodes.itemAt s lt pe l).map fun x => (lt.elementType, x) := by
  cases pe <;> first | (simp [PE.notIndex] at hpe; done) | simp [Nodes.childAt, hres, ha]

theorem childAt_other (s : Schema) (tr : TypeRef) (v : Value) (pe : PE)
    (hl : v.isList = false) (hm : v.isMap = false) : Nodes.childAt s tr v pe = none := by
  unfold Nodes.childAt
  cases s.resolve tr with
  | none => rfl
  | some a => cases v <;> simp_all [Value.isList, Value.isMap]

end NodeLaws
end SMD
