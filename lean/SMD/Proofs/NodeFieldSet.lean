/-
Every path of an object's field set designates a node of the object (`Nodes.valueAt`), for canonical
values all of whose visited lists can be indexed.
-/
import SMD.Proofs.NodeBasics
set_option linter.unusedSimpArgs false
set_option linter.unusedVariables false
set_option linter.unnecessarySimpa false
namespace SMD
namespace NodeLaws
open SetTrie

/-! ### what a successful validation says about containers -/

theorem validateV_map_inv {s : Schema} {d : Bool} {tr : TypeRef} {m : List (String × Value)}
    (h : validateV s d tr (.map m) = .ok ()) :
    ∃ a mt, s.resolve tr = some a ∧ a.map = some mt ∧ validateFields s d mt m = .ok () := by
  rw [validateV_map] at h
  cases hres : s.resolve tr with
  | none => simp [hres] at h
  | some a =>
    cases ha : a.map with
    | none => simp [hres, ha] at h
    | some mt => exact ⟨a, mt, rfl, ha, by simpa [hres, ha] using h⟩

theorem validateV_list_inv {s : Schema} {d : Bool} {tr : TypeRef} {l : List Value}
    (h : validateV s d tr (.list l) = .ok ()) :
    ∃ a lt, s.resolve tr = some a ∧ a.list = some lt ∧ validateItems s d lt [] 0 l = .ok () := by
  rw [validateV_list] at h
  cases hres : s.resolve tr with
  | none => simp [hres] at h
  | some a =>
    cases ha : a.list with
    | none => simp [hres, ha] at h
    | some lt => exact ⟨a, lt, rfl, ha, by simpa [hres, ha] using h⟩

theorem resolveKind_list_of (s : Schema) (tr : TypeRef) (a : Atom) (t : ListT) (l : List Value)
    (hres : s.resolve tr = some a) (ha : a.list = some t) :
    resolveKind s tr (some (.list l)) = some (.list t) := by
  obtain ⟨sc, li, ma⟩ := a
  simp_all [resolveKind, hres, deduceAtom, Value.isScalar, Value.isList, Value.isMap, ha, atomKind, Atom.map,
    Atom.scalar, Atom.list]

/-- the path element the walkers use for a list item (`invalid` when it has none) -/
def peOf (s : Schema) (t : ListT) (c : Value) : PE :=
  match listItemToPE s t c with
  | .ok pe => pe
  | _ => .invalid

theorem peOf_of_identity {s : Schema} {t : ListT} {c : Value} {id : PE} (hrel : t.rel = "associative")
    (h : Conf.identity s t c = some id) : peOf s t c = id := by
  simp [peOf, listItemToPE_eq s t c hrel, h]

theorem identity_of_ok {s : Schema} {t : ListT} {c : Value} {pe : PE} (hrel : t.rel = "associative")
    (h : listItemToPE s t c = .ok pe) : Conf.identity s t c = some pe := by
  rw [listItemToPE_eq s t c hrel] at h
  cases hid : Conf.identity s t c with
  | none => simp [hid] at h
  | some id => simp [hid] at h; rw [h]

/-- an identity is a key or a value, never an index -/
theorem identity_notIndex {s : Schema} {t : ListT} {c : Value} {id : PE}
    (h : Conf.identity s t c = some id) : id.notIndex = true := by
  cases hk : t.keys.isEmpty
  · cases c with
    | map m =>
      rw [identity_keyed s t m hk] at h
      by_cases hall : (t.keys.map (keyVal s t m)).all Option.isSome = true
      · rw [if_pos hall] at h; cases h; rfl
      · rw [if_neg hall] at h; cases h
    | _ => simp [Conf.identity, hk] at h
  · simp only [Conf.identity, hk, if_true] at h
    split at h
    · cases h; rfl
    · cases h

/-! ### the first pass of the list walker marks every repeated element -/

theorem dupMarks_cons (s : Schema) (t : ListT) (seen dups : List PE) (c : Value) (rest : List Value) :
    dupMarks s t seen dups (c :: rest) =
      if peHas (peOf s t c) seen = true then
        if dups.any (fun d => PE.equals d (peOf s t c)) = true then dupMarks s t seen dups rest
        else dupMarks s t seen (peOf s t c :: dups) rest
      else dupMarks s t (peInsert (peOf s t c) seen) dups rest := by
  rw [dupMarks]; rfl

theorem dupMarks_keeps (s : Schema) (t : ListT) :
    ∀ (l : List Value) (seen dups : List PE) (d : PE), d ∈ dups → d ∈ dupMarks s t seen dups l
  | [], seen, dups, d, h => by simpa [dupMarks] using h
  | c :: rest, seen, dups, d, h => by
    rw [dupMarks_cons]
    split
    · split
      · exact dupMarks_keeps s t rest _ _ d h
      · exact dupMarks_keeps s t rest _ _ d (List.mem_cons_of_mem _ h)
    · exact dupMarks_keeps s t rest _ _ d h

theorem dupMarks_sub (s : Schema) (t : ListT) :
    ∀ (l : List Value) (seen dups : List PE) (d : PE), d ∈ dupMarks s t seen dups l →
      d ∈ dups ∨ ∃ c ∈ l, peOf s t c = d
  | [], seen, dups, d, h => by left; simpa [dupMarks] using h
  | c :: rest, seen, dups, d, h => by
    rw [dupMarks_cons] at h
    have lift : (d ∈ dups ∨ ∃ c' ∈ rest, peOf s t c' = d) → (d ∈ dups ∨ ∃ c' ∈ c :: rest, peOf s t c' = d) := by
      rintro (h | ⟨c', hc', he⟩)
      · exact Or.inl h
      · exact Or.inr ⟨c', List.mem_cons_of_mem _ hc', he⟩
    split at h
    · split at h
      · exact lift (dupMarks_sub s t rest _ _ d h)
      · rcases dupMarks_sub s t rest _ _ d h with h' | h'
        · rcases List.mem_cons.1 h' with rfl | h'
          · exact Or.inr ⟨c, List.mem_cons_self, rfl⟩
          · exact Or.inl h'
        · exact lift (Or.inr h')
    · exact lift (dupMarks_sub s t rest _ _ d h)

theorem dupMarks_complete (s : Schema) (t : ListT) (c : Value) (l2 : List Value) :
    ∀ (l1 : List Value) (seen dups : List PE),
      (peHas (peOf s t c) seen || l1.any (fun c' => PE.equals (peOf s t c') (peOf s t c))) = true →
      (dupMarks s t seen dups (l1 ++ c :: l2)).any (fun d => PE.equals d (peOf s t c)) = true
  | [], seen, dups, h => by
    simp only [List.any_nil, Bool.or_false] at h
    rw [List.nil_append, dupMarks_cons, if_pos h]
    split
    · next hd =>
      obtain ⟨d, hd1, hd2⟩ := List.any_eq_true.1 hd
      exact List.any_eq_true.2 ⟨d, dupMarks_keeps s t l2 _ _ d hd1, hd2⟩
    · exact List.any_eq_true.2 ⟨peOf s t c, dupMarks_keeps s t l2 _ _ _ List.mem_cons_self, PE.equals_refl _⟩
  | x :: l1, seen, dups, h => by
    rw [List.cons_append, dupMarks_cons]
    simp only [List.any_cons, Bool.or_eq_true] at h
    by_cases hx : peHas (peOf s t x) seen = true
    · rw [if_pos hx]
      have h' : (peHas (peOf s t c) seen || l1.any (fun c' => PE.equals (peOf s t c') (peOf s t c))) = true := by
        rcases h with h | h | h
        · simp [h]
        · rw [← peHas_congr h seen, hx]; rfl
        · simp [h]
      split
      · exact dupMarks_complete s t c l2 l1 _ _ h'
      · exact dupMarks_complete s t c l2 l1 _ _ h'
    · rw [if_neg hx]
      apply dupMarks_complete s t c l2 l1
      rw [peHas_peInsert]
      rcases h with h | h | h <;> simp [h]

theorem fsItems_cons (s : Schema) (t : ListT) (dups : List PE) (c : Value) (rest : List Value) :
    fsItems s t dups (c :: rest) =
      if dups.any (fun d => PE.equals d (peOf s t c)) = true then fsItems s t dups rest
      else
        match fsV s t.elementType c, fsItems s t dups rest with
        | .ok sub, .ok tail => .ok (sub.map (fun p => peOf s t c :: p) ++ [[peOf s t c]] ++ tail)
        | .panic, _ | _, .panic => .panic
        | _, _ => .err := by
  rw [fsItems]; rfl

/-! ### the field-set walkers against the resolver -/

def emptyMapLit : Value → Bool
  | .map [] => true
  | _ => false

/-- the path of a map entry itself, when the walker emits one -/
def selfPaths (t : MapT) (k : String) (v : Value) : List Path :=
  if v.isNull || emptyMapLit v then [[.field k]]
  else if (t.findField k).isNone then [[.field k]]
  else []

theorem mem_selfPaths {t : MapT} {k : String} {v : Value} {p : Path} (h : p ∈ selfPaths t k v) :
    p = [PE.field k] := by
  unfold selfPaths at h
  by_cases h1 : (v.isNull || emptyMapLit v) = true
  · rw [if_pos h1] at h; simpa using h
  · rw [if_neg h1] at h
    by_cases h2 : (t.findField k).isNone = true
    · rw [if_pos h2] at h; simpa using h
    · rw [if_neg h2] at h; cases h

theorem fsFields_cons (s : Schema) (t : MapT) (k : String) (v : Value) (rest : List (String × Value)) :
    fsFields s t ((k, v) :: rest) =
      match fsV s (fieldType t k) v, fsFields s t rest with
      | .ok sub, .ok tail => .ok (sub.map (fun p => PE.field k :: p) ++ selfPaths t k v ++ tail)
      | .panic, _ | _, .panic => .panic
      | _, _ => .err := by
  conv => lhs; unfold fsFields
  rfl

theorem lookupField_of_mem_keysAsc {m : List (String × Value)} (hasc : keysAsc m = true) {k : String} {v : Value}
    (h : (k, v) ∈ m) : lookupField k m = some v := by
  obtain ⟨p, rest, rfl⟩ := List.mem_iff_append.1 h
  have hp := keysAsc_pairwise _ hasc
  rw [List.pairwise_append] at hp
  exact lookupField_append_of_lt k v rest p (fun x hx => hp.2.2 x hx (k, v) List.mem_cons_self)

theorem isSome_valueAt_nil (s : Schema) (tr : TypeRef) (v : Value) :
    (Nodes.valueAt s tr v []).isSome = true := by rw [valueAt_nil]; rfl

mutual
theorem fsV_nodes (s : Schema) : ∀ (v : Value) (tr : TypeRef) (ps : List Path),
    validateV s true tr v = .ok () → canon v = true → listsAssociative s tr v = true →
    fsV s tr v = .ok ps → ∀ p ∈ ps, (Nodes.valueAt s tr v p).isSome = true
  | .null, tr, ps, _, _, _, hfs, p, hp => by
    have : p = [] := by
      simp only [fsV] at hfs
      (repeat' split at hfs) <;>
        first | (cases hfs; done) | (simp only [Res.ok.injEq] at hfs; subst hfs; simpa using hp)
    subst this; exact isSome_valueAt_nil _ _ _
  | .bool b, tr, ps, _, _, _, hfs, p, hp => by
    have : p = [] := by
      simp only [fsV] at hfs
      (repeat' split at hfs) <;>
        first | (cases hfs; done) | (simp only [Res.ok.injEq] at hfs; subst hfs; simpa using hp)
    subst this; exact isSome_valueAt_nil _ _ _
  | .int b, tr, ps, _, _, _, hfs, p, hp => by
    have : p = [] := by
      simp only [fsV] at hfs
      (repeat' split at hfs) <;>
        first | (cases hfs; done) | (simp only [Res.ok.injEq] at hfs; subst hfs; simpa using hp)
    subst this; exact isSome_valueAt_nil _ _ _
  | .float b z, tr, ps, _, _, _, hfs, p, hp => by
    have : p = [] := by
      simp only [fsV] at hfs
      (repeat' split at hfs) <;>
        first | (cases hfs; done) | (simp only [Res.ok.injEq] at hfs; subst hfs; simpa using hp)
    subst this; exact isSome_valueAt_nil _ _ _
  | .str b, tr, ps, _, _, _, hfs, p, hp => by
    have : p = [] := by
      simp only [fsV] at hfs
      (repeat' split at hfs) <;>
        first | (cases hfs; done) | (simp only [Res.ok.injEq] at hfs; subst hfs; simpa using hp)
    subst this; exact isSome_valueAt_nil _ _ _
  | .list l, tr, ps, hv, hc, hla, hfs, p, hp => by
    obtain ⟨a, lt, hres, ha, hitems⟩ := validateV_list_inv hv
    have hk := resolveKind_list_of s tr a lt l hres ha
    rw [fsV, hk] at hfs
    rw [listsAssociative, hk] at hla
    simp only [] at hfs hla
    by_cases hat : lt.rel = "atomic"
    · simp only [hat, beq_self_eq_true, if_true, Res.ok.injEq] at hfs
      subst hfs
      simp only [List.mem_singleton] at hp
      subst hp; exact isSome_valueAt_nil _ _ _
    · have hat' : (lt.rel == "atomic") = false := by simpa using hat
      simp only [hat', Bool.false_eq_true, if_false, Bool.false_or, Bool.or_eq_true, Bool.and_eq_true,
        beq_iff_eq, List.isEmpty_iff] at hfs hla
      rcases hla with hnil | ⟨hrel, hla⟩
      · subst hnil
        simp only [dupMarks, fsItems, List.reverse_nil, List.map_nil, List.append_nil, Res.ok.injEq] at hfs
        subst hfs; cases hp
      · have hall := validateItems_assoc s true lt hrel l [] 0 hitems
        have hcl : canonList l = true := by simpa [canon] using hc
        cases hr : fsItems s lt (dupMarks s lt [] [] l) l with
        | err => simp [hr] at hfs
        | panic => simp [hr] at hfs
        | ok rest =>
          simp only [hr, Res.ok.injEq] at hfs
          subst hfs
          rcases List.mem_append.1 hp with hp | hp
          · -- a mark of a repeated element: some item carries it
            obtain ⟨d, hd, rfl⟩ := List.mem_map.1 hp
            rcases dupMarks_sub s lt l [] [] d hd with h | ⟨c, hcl', hcd⟩
            · cases h
            · obtain ⟨⟨pe, hpe⟩, _⟩ := hall c hcl'
              have hid := identity_of_ok hrel hpe
              have hd' : d = pe := by rw [← hcd, peOf_of_identity hrel hid]
              subst hd'
              have hni := identity_notIndex hid
              rw [valueAt_of_childAt_some (tr' := lt.elementType) (v' := (Nodes.itemAt s lt d l).get
                (itemAt_isSome_of_mem s lt d c l hcl' (by rw [hitOf_of_identity hni hrel hid]; exact PE.equals_refl _)))]
              · exact isSome_valueAt_nil _ _ _
              · rw [childAt_list l d hres ha hni]
                simp
          · obtain ⟨c, r, hcl', hnd, rfl, hsome⟩ :=
              fsItems_nodes s l lt _ rest (fun c hc' => (hall c hc').2) hcl hla hr p hp
            obtain ⟨⟨pe, hpe⟩, _⟩ := hall c hcl'
            have hid := identity_of_ok hrel hpe
            have hni := identity_notIndex hid
            have hpeq : peOf s lt c = pe := peOf_of_identity hrel hid
            obtain ⟨l1, l2, rfl⟩ := List.mem_iff_append.1 hcl'
            have hfirst : Nodes.itemAt s lt pe (l1 ++ c :: l2) = some c := by
              apply itemAt_append_first
              · intro c' hc'
                obtain ⟨⟨pe', hpe'⟩, _⟩ := hall c' (List.mem_append_left _ hc')
                have hid' := identity_of_ok hrel hpe'
                rw [hitOf_of_identity hni hrel hid']
                cases he : PE.equals pe' pe with
                | false => rfl
                | true =>
                  have := dupMarks_complete s lt c l2 l1 [] [] (by
                    simp only [peHas, Bool.false_or]
                    exact List.any_eq_true.2 ⟨c', hc', by rw [peOf_of_identity hrel hid', hpeq]; exact he⟩)
                  rw [this] at hnd; cases hnd
              · rw [hitOf_of_identity hni hrel hid]; exact PE.equals_refl _
            rw [hpeq, valueAt_of_childAt_some (tr' := lt.elementType) (v' := c)]
            · exact hsome
            · rw [childAt_list _ pe hres ha hni, hfirst]; rfl
  | .map m, tr, ps, hv, hc, hla, hfs, p, hp => by
    obtain ⟨a, mt, hres, ha, hfields⟩ := validateV_map_inv hv
    have hk := resolveKind_map_of s tr a mt m hres ha
    rw [fsV, hk] at hfs
    rw [listsAssociative, hk] at hla
    simp only [] at hfs hla
    by_cases hat : mt.rel = "atomic"
    · simp only [hat, beq_self_eq_true, if_true, Res.ok.injEq] at hfs
      subst hfs
      simp only [List.mem_singleton] at hp
      subst hp; exact isSome_valueAt_nil _ _ _
    · have hat' : (mt.rel == "atomic") = false := by simpa using hat
      simp only [hat', Bool.false_eq_true, if_false, Bool.false_or] at hfs hla
      simp only [canon, Bool.and_eq_true] at hc
      obtain ⟨k, v, r, hmem, rfl, hsome⟩ :=
        fsFields_nodes s m mt ps (validateFields_mem s true mt m hfields) hc.2 hla hfs p hp
      rw [valueAt_of_childAt_some (tr' := fieldType mt k) (v' := v)]
      · exact hsome
      · rw [childAt_map m k hres ha, lookupField_of_mem_keysAsc hc.1 hmem]; rfl
theorem fsItems_nodes (s : Schema) : ∀ (l : List Value) (t : ListT) (dups : List PE) (ps : List Path),
    (∀ c ∈ l, validateV s true t.elementType c = .ok ()) → canonList l = true →
    listsAssociativeItems s t.elementType l = true →
    fsItems s t dups l = .ok ps → ∀ p ∈ ps, ∃ c rest, c ∈ l ∧
      dups.any (fun d => PE.equals d (peOf s t c)) = false ∧ p = peOf s t c :: rest ∧
      (Nodes.valueAt s t.elementType c rest).isSome = true
  | [], t, dups, ps, _, _, _, hfs, p, hp => by
    simp only [fsItems, Res.ok.injEq] at hfs
    subst hfs; cases hp
  | child :: rest, t, dups, ps, hv, hc, hla, hfs, p, hp => by
    simp only [canonList, Bool.and_eq_true] at hc
    simp only [listsAssociativeItems, Bool.and_eq_true] at hla
    have ihr := fsItems_nodes s rest t dups
    have lift : ∀ ps', fsItems s t dups rest = .ok ps' → p ∈ ps' → ∃ c r, c ∈ child :: rest ∧
        dups.any (fun d => PE.equals d (peOf s t c)) = false ∧ p = peOf s t c :: r ∧
        (Nodes.valueAt s t.elementType c r).isSome = true := by
      intro ps' h1 h2
      obtain ⟨c, r, h3, h4⟩ :=
        ihr ps' (fun c hc' => hv c (List.mem_cons_of_mem _ hc')) hc.2 hla.2 h1 p h2
      exact ⟨c, r, List.mem_cons_of_mem _ h3, h4⟩
    rw [fsItems_cons] at hfs
    by_cases hd : dups.any (fun d => PE.equals d (peOf s t child)) = true
    · rw [if_pos hd] at hfs
      exact lift ps hfs hp
    · rw [if_neg hd] at hfs
      cases hsub : fsV s t.elementType child with
      | err => cases hr : fsItems s t dups rest <;> simp [hsub, hr] at hfs
      | panic => cases hr : fsItems s t dups rest <;> simp [hsub, hr] at hfs
      | ok sub =>
        cases hr : fsItems s t dups rest with
        | err => simp [hsub, hr] at hfs
        | panic => simp [hsub, hr] at hfs
        | ok tail =>
          simp only [hsub, hr, Res.ok.injEq] at hfs
          subst hfs
          have ihv := fsV_nodes s child t.elementType sub (hv child List.mem_cons_self) hc.1 hla.1 hsub
          simp only [List.mem_append, List.mem_map, List.mem_singleton] at hp
          rcases hp with (⟨q, hq, rfl⟩ | rfl) | hp
          · exact ⟨child, q, List.mem_cons_self, by simpa using hd, rfl, ihv q hq⟩
          · exact ⟨child, [], List.mem_cons_self, by simpa using hd, rfl, isSome_valueAt_nil _ _ _⟩
          · exact lift tail hr hp
theorem fsFields_nodes (s : Schema) : ∀ (m : List (String × Value)) (t : MapT) (ps : List Path),
    (∀ x ∈ m, validateV s true (fieldType t x.1) x.2 = .ok ()) → canonFields m = true →
    listsAssociativeFields s t m = true →
    fsFields s t m = .ok ps → ∀ p ∈ ps, ∃ k v rest, (k, v) ∈ m ∧ p = PE.field k :: rest ∧
      (Nodes.valueAt s (fieldType t k) v rest).isSome = true
  | [], t, ps, _, _, _, hfs, p, hp => by
    simp only [fsFields, Res.ok.injEq] at hfs
    subst hfs; cases hp
  | (k, v) :: rest, t, ps, hv, hc, hla, hfs, p, hp => by
    simp only [canonFields, Bool.and_eq_true] at hc
    simp only [listsAssociativeFields, Bool.and_eq_true] at hla
    have ihr := fsFields_nodes s rest t
    rw [fsFields_cons] at hfs
    cases hsub : fsV s (fieldType t k) v with
    | err => cases hr : fsFields s t rest <;> simp [hsub, hr] at hfs
    | panic => cases hr : fsFields s t rest <;> simp [hsub, hr] at hfs
    | ok sub =>
      cases hr : fsFields s t rest with
      | err => simp [hsub, hr] at hfs
      | panic => simp [hsub, hr] at hfs
      | ok tail =>
        simp only [hsub, hr, Res.ok.injEq] at hfs
        subst hfs
        have ihv := fsV_nodes s v (fieldType t k) sub (hv (k, v) List.mem_cons_self) hc.1 hla.1 hsub
        simp only [List.mem_append, List.mem_map] at hp
        rcases hp with (⟨q, hq, rfl⟩ | hself) | hp
        · exact ⟨k, v, q, List.mem_cons_self, rfl, ihv q hq⟩
        · have : p = [PE.field k] := mem_selfPaths hself
          subst this
          exact ⟨k, v, [], List.mem_cons_self, rfl, isSome_valueAt_nil _ _ _⟩
        · obtain ⟨k', v', r, h3, h4⟩ :=
            ihr tail (fun x hx => hv x (List.mem_cons_of_mem _ hx)) hc.2 hla.2 hr p hp
          exact ⟨k', v', r, List.mem_cons_of_mem _ h3, h4⟩
end

end NodeLaws
end SMD
