/-
Field set and removal against the independent path resolver `Nodes.valueAt` (`SMD/Spec/Nodes.lean`):
helper lemmas for `SMD/Properties/C14Nodes.lean`, split over three files (`NodeBasics`: the resolver one
step at a time; `NodeFieldSet`: the field-set walkers; `NodeRemove`: the removing walker).
-/
import SMD.Proofs.NodeBasics
import SMD.Proofs.NodeFieldSet
import SMD.Proofs.NodeRemove
import SMD.Properties.C12
namespace SMD
namespace NodeLaws

/-! `C12.canonical` coincides with its copy `canon` of `SMD.Proofs.MergeLaws` -/
theorem keysAscending_eq_keysAsc (m : List (String × Value)) : C12.keysAscending m = keysAsc m := by
  fun_induction C12.keysAscending m <;> simp_all [keysAsc]
mutual
theorem canonical_eq_canon : ∀ v : Value, C12.canonical v = canon v
  | .list l => by simp [C12.canonical, canon, canonicalList_eq_canonList l]
  | .map m => by simp [C12.canonical, canon, canonicalFields_eq_canonFields m, keysAscending_eq_keysAsc]
  | .null => rfl
  | .bool _ => rfl
  | .int _ => rfl
  | .float _ _ => rfl
  | .str _ => rfl
theorem canonicalList_eq_canonList : ∀ l : List Value, C12.canonicalList l = canonList l
  | [] => rfl
  | v :: vs => by simp [C12.canonicalList, canonList, canonical_eq_canon v, canonicalList_eq_canonList vs]
theorem canonicalFields_eq_canonFields : ∀ m : List (String × Value), C12.canonicalFields m = canonFields m
  | [] => rfl
  | (_, v) :: rest => by
    simp [C12.canonicalFields, canonFields, canonical_eq_canon v, canonicalFields_eq_canonFields rest]
end

theorem notIndex_of_no_index {p : Path} (h : ∀ i, PE.index i ∉ p) : ∀ pe ∈ p, pe.notIndex = true := by
  intro pe hpe
  cases pe with
  | index i => exact absurd hpe (h i)
  | _ => rfl

/-! ### small facts used by the counterexamples of `SMD/Properties/C14Nodes.lean` -/

theorem properPrefix_false_of_length : ∀ {p q : Path}, q.length ≤ p.length → C15.properPrefix p q = false
  | [], [], _ => rfl
  | [], _ :: _, h => by simp at h
  | _ :: _, [], _ => rfl
  | a :: as, b :: bs, h => by
    simp only [C15.properPrefix, properPrefix_false_of_length (p := as) (q := bs) (by simpa using h),
      Bool.and_false]

theorem length_eq_of_path_equals : ∀ {p q : Path}, Path.equals p q = true → p.length = q.length
  | [], [], _ => rfl
  | [], _ :: _, h => by simp [Path.equals] at h
  | _ :: _, [], h => by simp [Path.equals] at h
  | a :: as, b :: bs, h => by
    simp only [Path.equals, Bool.and_eq_true] at h
    simp [length_eq_of_path_equals h.2]

theorem length_of_has_ofPaths_singleton {r q : Path} (h : SetTrie.has q (SetTrie.ofPaths [r]) = true) :
    q.length = r.length := by
  rw [SetTrie.has_ofPaths] at h
  simp only [List.any_cons, List.any_nil, Bool.or_false, Bool.and_eq_true] at h
  exact (length_eq_of_path_equals h.2).symm

end NodeLaws
end SMD
