/-
`NodePresence` does not distinguish paths that are `Path.equals` (path elements compare their values
with `Value.equals`: `.value (.int 0)` and `.value (.float 0)` designate the same set member).
-/
import SMD.Proofs.CompareFactsBridge
import SMD.Proofs.PEOrder
set_option linter.unusedVariables false
namespace SMD
open NodeLaws

theorem pe_equals_shape {a b : PE} (h : PE.equals a b = true) :
    a = b ∨ (∃ x y, a = .key x ∧ b = .key y) ∨ (∃ x y, a = .value x ∧ b = .value y) := by
  cases a <;> cases b <;> simp [PE.equals] at h
  · left; rw [h]
  · right; left; exact ⟨_, _, rfl, rfl⟩
  · right; right; exact ⟨_, _, rfl, rfl⟩
  · left; rw [h]
  · left; rfl

theorem itemAt_congr (s : Schema) (lt : ListT) {pe pe' : PE} (h : PE.equals pe pe' = true)
    (hs : (∃ x y, pe = .key x ∧ pe' = .key y) ∨ (∃ x y, pe = .value x ∧ pe' = .value y)) :
    ∀ l : List Value, Nodes.itemAt s lt pe l = Nodes.itemAt s lt pe' l := by
  intro l
  induction l with
  | nil => rfl
  | cons item rest ih =>
    have hc : ∀ id, PE.equals id pe = PE.equals id pe' := fun id => PE.equals_congr_right h id
    rcases hs with ⟨x, y, rfl, rfl⟩ | ⟨x, y, rfl, rfl⟩
    · simp only [Nodes.itemAt, hc, ih]
    · simp only [Nodes.itemAt, hc, ih]

theorem childAt_congr (s : Schema) (tr : TypeRef) (v : Value) {pe pe' : PE} (h : PE.equals pe pe' = true) :
    Nodes.childAt s tr v pe = Nodes.childAt s tr v pe' := by
  rcases pe_equals_shape h with rfl | hs
  · rfl
  · have hi := itemAt_congr s
    unfold Nodes.childAt
    cases s.resolve tr with
    | none => rfl
    | some a =>
      simp only
      rcases hs with ⟨x, y, rfl, rfl⟩ | ⟨x, y, rfl, rfl⟩
      · cases v <;> try rfl
        simp only
        cases a.list with
        | none => rfl
        | some lt =>
          simp only
          rw [hi lt h (.inl ⟨_, _, rfl, rfl⟩)]
      · cases v <;> try rfl
        simp only
        cases a.list with
        | none => rfl
        | some lt =>
          simp only
          rw [hi lt h (.inr ⟨_, _, rfl, rfl⟩)]

theorem valueAt_congr_path (s : Schema) : ∀ (p q : Path) (tr : TypeRef) (v : Value),
    Path.equals p q = true → Nodes.valueAt s tr v p = Nodes.valueAt s tr v q
  | [], [], _, _, _ => rfl
  | [], _ :: _, _, _, h => by simp [Path.equals] at h
  | _ :: _, [], _, _, h => by simp [Path.equals] at h
  | pe :: rest, pe' :: rest', tr, v, h => by
    simp only [Path.equals, Bool.and_eq_true] at h
    rw [valueAt_cons, valueAt_cons, childAt_congr s tr v h.1]
    cases Nodes.childAt s tr v pe' with
    | none => rfl
    | some c =>
      obtain ⟨tr', v'⟩ := c
      exact valueAt_congr_path s rest rest' tr' v' h.2

theorem nodeAt_congr_path (s : Schema) : ∀ (p q : Path) (tr : TypeRef) (v : Value),
    Path.equals p q = true → CmpX.nodeAt s tr v p = CmpX.nodeAt s tr v q
  | [], [], _, _, _ => rfl
  | [], _ :: _, _, _, h => by simp [Path.equals] at h
  | _ :: _, [], _, _, h => by simp [Path.equals] at h
  | pe :: rest, pe' :: rest', tr, v, h => by
    simp only [Path.equals, Bool.and_eq_true] at h
    obtain ⟨hpe, hrest⟩ := h
    rw [CmpX.nodeAt, CmpX.nodeAt]
    cases resolveKind s tr (some v) with
    | none => rfl
    | some K =>
      cases K with
      | invalid => rfl
      | scalar t => rfl
      | map t =>
        simp only
        split
        · rfl
        · rcases pe_equals_shape hpe with rfl | ⟨x, y, rfl, rfl⟩ | ⟨x, y, rfl, rfl⟩
          · cases v <;> try rfl
            cases pe <;> try rfl
            simp only
            split
            · exact nodeAt_congr_path s rest rest' _ _ hrest
            · rfl
          · cases v <;> rfl
          · cases v <;> rfl
      | list t =>
        simp only
        split
        · rfl
        · cases v <;> try rfl
          simp only
          have hf : (fun c => PE.equals (peOf s t c) pe) = (fun c => PE.equals (peOf s t c) pe') :=
            funext fun c => PE.equals_congr_right hpe _
          rw [hf]
          split
          · exact nodeAt_congr_path s rest rest' _ _ hrest
          · rfl

/-- presence of a node does not distinguish equal paths -/
theorem nodePresence_congr_path {sc : Schema} {tr : TypeRef} {v : Value} {p q : Path}
    (h : Path.equals p q = true) (hp : NodePresence sc tr v p) : NodePresence sc tr v q := by
  obtain ⟨hne, h1, h2⟩ := hp
  refine ⟨?_, ?_, ?_⟩
  · intro hq
    subst hq
    cases p with
    | nil => exact hne rfl
    | cons _ _ => simp [Path.equals] at h
  · rw [← nodeAt_congr_path sc p q tr v h]; exact h1
  · simp only [Nodes.present] at h2 ⊢
    rw [← valueAt_congr_path sc p q tr v h]; exact h2

/-- to show that every member of a well-formed set designates a node it is enough to go through the
paths the set iterates -/
theorem nodePresence_of_paths {sc : Schema} {tr : TypeRef} {v : Value} {fs : SetTrie} (hw : fs.wf = true)
    (h : ∀ p ∈ fs.paths, NodePresence sc tr v p) : ∀ q, fs.has q = true → NodePresence sc tr v q := by
  intro q hq
  obtain ⟨p, hp, he⟩ := (SetTrie.has_iff_mem_paths q fs hw).1 hq
  exact nodePresence_congr_path he (h p hp)

end SMD
