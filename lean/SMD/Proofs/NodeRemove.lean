/-
Removal against the resolver `Nodes.valueAt`: one level of `removeV` (entry loop, item loop), identities
of list items under removal, and the two laws — members of the removed set designate nothing
afterwards, nodes away from the removed set are untouched.
-/
import SMD.Proofs.NodeFieldSet
set_option linter.unusedSimpArgs false
set_option linter.unusedVariables false
set_option linter.unnecessarySimpa false
namespace SMD
namespace NodeLaws
open SetTrie

theorem outToValue_eq (o : Option Value) : (match o with | some x => x | none => Value.null) = outToValue o := by
  cases o <;> rfl

/-! ### membership in the set, up to `Equals` on the first element -/

theorem has_congr_head {a b : PE} (h : PE.equals a b = true) (r : Path) (S : SetTrie) :
    has (a :: r) S = has (b :: r) S := by
  obtain ⟨m, c⟩ := S
  by_cases hr : r = []
  · subst hr; rw [has_single, has_single]; exact peHas_congr h m
  · rw [has_cons hr, has_cons hr, getChild_congr h]

theorem has_withPrefix_cons (pe : PE) (S : SetTrie) (q : Path) (hq : q ≠ []) :
    has q (withPrefix pe S) = has (pe :: q) S := has_withPrefix pe S hq

theorem withPrefix_nonempty_of_has {pe : PE} {S : SetTrie} {q : Path} (hq : q ≠ [])
    (h : has (pe :: q) S = true) : (withPrefix pe S).isEmpty = false := by
  apply not_isEmpty_of_has (q := q)
  rw [has_withPrefix_cons pe S q hq]; exact h

theorem exists_has_of_withPrefix_nonempty {pe : PE} {S : SetTrie} (hw : S.wf = true)
    (h : (withPrefix pe S).isEmpty = false) : ∃ q, q ≠ [] ∧ has (pe :: q) S = true := by
  obtain ⟨q, hq⟩ := exists_has_of_not_isEmpty _ (wf_withPrefix pe S hw) h
  have hne := has_true_ne_nil hq
  exact ⟨q, hne, by rw [← has_withPrefix_cons pe S q hne]; exact hq⟩

/-! ### the set never removes a key field of a list item without removing the item -/

/-- whenever a member of the set passes through a key field of a keyed list item, the item itself is
a member -/
def KeysGuarded (S : SetTrie) : Prop :=
  ∀ (pre : Path) (fl : FieldList) (k : String) (rest : Path),
    S.has (pre ++ PE.key fl :: PE.field k :: rest) = true → k ∈ fl.map (·.1) →
      S.has (pre ++ [PE.key fl]) = true

theorem KeysGuarded.withPrefix {S : SetTrie} (h : KeysGuarded S) (pe : PE) : KeysGuarded (withPrefix pe S) := by
  intro pre fl k rest h1 h2
  rw [has_withPrefix_cons pe S _ (by simp)] at h1 ⊢
  exact h (pe :: pre) fl k rest h1 h2

/-! ### names of an identity -/

theorem mem_map_fst_insertField (x : String) (e : String × Value) :
    ∀ l : List (String × Value), x ∈ (insertField e l).map (·.1) ↔ x = e.1 ∨ x ∈ l.map (·.1)
  | [] => by simp [insertField]
  | y :: l => by
    have ih := mem_map_fst_insertField x e l
    simp only [insertField]
    split
    · simp
    · simp only [List.map_cons, List.mem_cons, ih]
      constructor
      · rintro (h | h | h) <;> simp [h]
      · rintro (h | h | h) <;> simp [h]

theorem mem_map_fst_insertFieldFirst (x : String) (e : String × Value) :
    ∀ l : List (String × Value), x ∈ (insertFieldFirst e l).map (·.1) ↔ x = e.1 ∨ x ∈ l.map (·.1)
  | [] => by simp [insertFieldFirst]
  | y :: l => by
    have ih := mem_map_fst_insertFieldFirst x e l
    simp only [insertFieldFirst]
    split
    · simp only [List.map_cons, List.mem_cons, ih]
      constructor
      · rintro (h | h | h) <;> simp [h]
      · rintro (h | h | h) <;> simp [h]
    · simp

theorem mem_map_fst_sort (x : String) :
    ∀ l : FieldList, x ∈ (FieldList.sort l).map (·.1) ↔ x ∈ l.map (·.1)
  | [] => by simp [FieldList.sort]
  | e :: l => by
    have ih := mem_map_fst_sort x l
    simp only [FieldList.sort, List.foldr_cons] at ih ⊢
    rw [mem_map_fst_insertFieldFirst, ih]
    simp

theorem identity_keys_mem {s : Schema} {lt : ListT} {c : Value} {id : PE}
    (hid : Conf.identity s lt c = some id) :
    ∀ k ∈ lt.keys, ∃ fl, id = PE.key fl ∧ k ∈ fl.map (·.1) := by
  intro k hk
  cases hke : lt.keys.isEmpty with
  | true => rw [List.isEmpty_iff.1 hke] at hk; cases hk
  | false =>
    cases c with
    | map m =>
      rw [identity_keyed s lt m hke] at hid
      by_cases hall : (lt.keys.map (keyVal s lt m)).all Option.isSome = true
      · rw [if_pos hall] at hid
        cases hid
        refine ⟨_, rfl, ?_⟩
        rw [mem_map_fst_sort]
        have hsome : (keyVal s lt m k).isSome = true :=
          List.all_eq_true.1 hall _ (List.mem_map_of_mem hk)
        cases hkv : keyVal s lt m k with
        | none => rw [hkv] at hsome; cases hsome
        | some e =>
          have he : e.1 = k := by
            rcases (keyVal_some_iff s lt m k e).1 hkv with ⟨v, _, rfl⟩ | ⟨_, d, _, rfl⟩ <;> rfl
          refine List.mem_map.2 ⟨e, ?_, he⟩
          exact List.mem_filterMap.2 ⟨some e, List.mem_map.2 ⟨k, hk, hkv⟩, rfl⟩
      · rw [if_neg hall] at hid; cases hid
    | _ => simp [Conf.identity, hke] at hid

theorem identity_null (s : Schema) (lt : ListT) : Conf.identity s lt .null = none := by
  unfold Conf.identity
  split <;> simp [Value.isScalar]

theorem identity_map_congr (s : Schema) (lt : ListT) (m m' : List (String × Value))
    (h : ∀ k ∈ lt.keys, lookupField k m = lookupField k m') :
    Conf.identity s lt (.map m) = Conf.identity s lt (.map m') := by
  cases hke : lt.keys.isEmpty with
  | true => simp [Conf.identity, hke, Value.isScalar]
  | false =>
    rw [identity_keyed s lt m hke, identity_keyed s lt m' hke]
    have : lt.keys.map (keyVal s lt m) = lt.keys.map (keyVal s lt m') := by
      apply List.map_congr_left
      intro k hk
      unfold keyVal
      rw [h k hk]
    rw [this]

/-! ### one level of removal -/

/-- what the entry loop makes of one entry -/
def remEntry (s : Schema) (t : MapT) (S : SetTrie) (e : String × Value) : List (String × Value) :=
  if S.has [PE.field e.1] = true then []
  else if (S.withPrefix (PE.field e.1)).isEmpty = false then
    [(e.1, outToValue (removeV s false (fieldType t e.1) (S.withPrefix (PE.field e.1)) e.2))]
  else [e]

theorem removeFields_cons (s : Schema) (t : MapT) (S : SetTrie) (k : String) (v : Value)
    (rest : List (String × Value)) :
    removeFields s false t S ((k, v) :: rest) = remEntry s t S (k, v) ++ removeFields s false t S rest := by
  have h : removeFields s false t S ((k, v) :: rest) =
      if S.has [PE.field k] = true then
        if false = true then
          (k, outToValue (removeV s false (fieldType t k) S v)) :: removeFields s false t S rest
        else removeFields s false t S rest
      else
        if (!(S.withPrefix (PE.field k)).isEmpty) = true then
          (k, outToValue (removeV s false (fieldType t k) (S.withPrefix (PE.field k)) v)) ::
            removeFields s false t S rest
        else if false = true then removeFields s false t S rest
        else (k, v) :: removeFields s false t S rest := by
    rw [removeFields]; rfl
  rw [h]
  unfold remEntry
  cases h1 : S.has [PE.field k] <;> cases h2 : (S.withPrefix (PE.field k)).isEmpty <;> simp

/-- what the item loop makes of one item -/
def remItem (s : Schema) (t : ListT) (S : SetTrie) (item : Value) : List Value :=
  if S.has [peOf s t item] = true then []
  else if (S.withPrefix (peOf s t item)).isEmpty = false then
    [outToValue (removeV s false t.elementType (S.withPrefix (peOf s t item)) item)]
  else [item]

theorem removeItems_cons (s : Schema) (t : ListT) (S : SetTrie) (item : Value) (rest : List Value) :
    removeItems s false t S (item :: rest) = remItem s t S item ++ removeItems s false t S rest := by
  have h : removeItems s false t S (item :: rest) =
      if (S.has [peOf s t item] && !false) = true then removeItems s false t S rest
      else
        if (!(S.withPrefix (peOf s t item)).isEmpty) = true then
          (if S.has [peOf s t item] = true then [outToValue (removeV s false t.elementType S item)] else []) ++
            [outToValue (removeV s false t.elementType (S.withPrefix (peOf s t item)) item)] ++
            removeItems s false t S rest
        else if false = true then
          (if S.has [peOf s t item] = true then [outToValue (removeV s false t.elementType S item)] else []) ++
            removeItems s false t S rest
        else
          (if S.has [peOf s t item] = true then [outToValue (removeV s false t.elementType S item)] else []) ++
            [item] ++ removeItems s false t S rest := by
    rw [removeItems]; rfl
  rw [h]
  unfold remItem
  cases h1 : S.has [peOf s t item] <;> cases h2 : (S.withPrefix (peOf s t item)).isEmpty <;> simp

theorem removeItems_eq_flatMap (s : Schema) (t : ListT) (S : SetTrie) :
    ∀ l : List Value, removeItems s false t S l = l.flatMap (remItem s t S)
  | [] => by simp [removeItems]
  | item :: rest => by rw [removeItems_cons, removeItems_eq_flatMap s t S rest, List.flatMap_cons]

theorem lookupField_removeFields (s : Schema) (t : MapT) (S : SetTrie) (k : String) :
    ∀ m : List (String × Value), lookupField k (removeFields s false t S m) =
      if S.has [PE.field k] = true then none
      else if (S.withPrefix (PE.field k)).isEmpty = false then
        (lookupField k m).map fun v =>
          outToValue (removeV s false (fieldType t k) (S.withPrefix (PE.field k)) v)
      else lookupField k m
  | [] => by simp [removeFields, lookupField]
  | (k', v') :: rest => by
    have ih := lookupField_removeFields s t S k rest
    rw [removeFields_cons]
    by_cases hk : k = k'
    · subst hk
      unfold remEntry
      by_cases h1 : S.has [PE.field k] = true
      · simp only [h1, if_true, List.nil_append, ih]
      · by_cases h2 : (S.withPrefix (PE.field k)).isEmpty = false
        · simp [h1, h2, lookupField]
        · simp [h1, h2, lookupField]
    · have hne : (k == k') = false := by simpa using hk
      have hskip : lookupField k (remEntry s t S (k', v') ++ removeFields s false t S rest) =
          lookupField k (removeFields s false t S rest) := by
        unfold remEntry
        simp only []
        split
        · rfl
        · split <;> simp [lookupField, hne]
      rw [hskip, ih]
      simp [lookupField, hne]

theorem removeV_map_eq {s : Schema} {tr : TypeRef} {a : Atom} {mt : MapT} (S : SetTrie)
    (m : List (String × Value)) (hres : s.resolve tr = some a) (ha : a.map = some mt) :
    removeV s false tr S (.map m) =
      if m.isEmpty = true then none
      else if (mt.rel == "atomic") = true then none
      else match removeFields s false mt S m with
        | [] => none
        | fs => some (.map fs) := by
  rw [removeV, resolveKind_map_of s tr a mt m hres ha]
  simp only [Bool.false_eq_true, if_false]
  rfl

theorem removeV_list_eq {s : Schema} {tr : TypeRef} {a : Atom} {lt : ListT} (S : SetTrie)
    (l : List Value) (hres : s.resolve tr = some a) (ha : a.list = some lt) :
    removeV s false tr S (.list l) =
      if l.isEmpty = true then none
      else if (lt.rel == "atomic") = true then none
      else match removeItems s false lt S l with
        | [] => none
        | items => some (.list items) := by
  rw [removeV, resolveKind_list_of s tr a lt l hres ha]
  simp only [Bool.false_eq_true, if_false]
  rfl

theorem outToValue_removeV_map_cases {s : Schema} {tr : TypeRef} {a : Atom} {mt : MapT} (S : SetTrie)
    (m : List (String × Value)) (hres : s.resolve tr = some a) (ha : a.map = some mt) :
    outToValue (removeV s false tr S (.map m)) = .null ∨
      outToValue (removeV s false tr S (.map m)) = .map (removeFields s false mt S m) := by
  rw [removeV_map_eq S m hres ha]
  split
  · left; rfl
  · split
    · left; rfl
    · split
      · left; rfl
      · right; rfl

theorem outToValue_removeV_list_cases {s : Schema} {tr : TypeRef} {a : Atom} {lt : ListT} (S : SetTrie)
    (l : List Value) (hres : s.resolve tr = some a) (ha : a.list = some lt) :
    outToValue (removeV s false tr S (.list l)) = .null ∨
      outToValue (removeV s false tr S (.list l)) = .list (removeItems s false lt S l) := by
  rw [removeV_list_eq S l hres ha]
  split
  · left; rfl
  · split
    · left; rfl
    · split
      · left; rfl
      · right; rfl

theorem removeV_map_some {s : Schema} {tr : TypeRef} {a : Atom} {mt : MapT} (S : SetTrie)
    (m : List (String × Value)) (hres : s.resolve tr = some a) (ha : a.map = some mt)
    (hat : mt.rel ≠ "atomic") (hfs : removeFields s false mt S m ≠ []) (hm : m ≠ []) :
    removeV s false tr S (.map m) = some (.map (removeFields s false mt S m)) := by
  rw [removeV_map_eq S m hres ha]
  have h1 : ¬ (m.isEmpty = true) := by simpa using hm
  have h2 : ¬ ((mt.rel == "atomic") = true) := by simpa using hat
  rw [if_neg h1, if_neg h2]
  split
  · next h => exact absurd h hfs
  · rfl

theorem removeV_list_some {s : Schema} {tr : TypeRef} {a : Atom} {lt : ListT} (S : SetTrie)
    (l : List Value) (hres : s.resolve tr = some a) (ha : a.list = some lt)
    (hat : lt.rel ≠ "atomic") (hfs : removeItems s false lt S l ≠ []) (hm : l ≠ []) :
    removeV s false tr S (.list l) = some (.list (removeItems s false lt S l)) := by
  rw [removeV_list_eq S l hres ha]
  have h1 : ¬ (l.isEmpty = true) := by simpa using hm
  have h2 : ¬ ((lt.rel == "atomic") = true) := by simpa using hat
  rw [if_neg h1, if_neg h2]
  split
  · next h => exact absurd h hfs
  · rfl

theorem outToValue_removeV_other (s : Schema) (tr : TypeRef) (S : SetTrie) (v : Value)
    (hl : v.isList = false) (hm : v.isMap = false) :
    outToValue (removeV s false tr S v) = v ∨ outToValue (removeV s false tr S v) = .null := by
  cases v <;> simp [Value.isList, Value.isMap] at hl hm <;>
    (simp only [removeV]; split <;> simp [outToValue])

theorem valueAt_null_cons (s : Schema) (tr : TypeRef) (pe : PE) (rest : Path) :
    Nodes.valueAt s tr .null (pe :: rest) = none :=
  valueAt_of_childAt_none rest (childAt_other s tr .null pe rfl rfl)

/-! ### identities of list items under removal -/

theorem identity_removeV_some {s : Schema} {lt : ListT} {S : SetTrie} {c c' : Value} {id : PE}
    (hid : Conf.identity s lt c = some id) (hv : validateV s true lt.elementType c = .ok ())
    (hk : ∀ k ∈ lt.keys, S.has [PE.field k] = false ∧ (S.withPrefix (PE.field k)).isEmpty = true)
    (hr : removeV s false lt.elementType S c = some c') : Conf.identity s lt c' = some id := by
  cases hke : lt.keys.isEmpty with
  | false =>
    cases c with
    | map m =>
      obtain ⟨a, mt, hres, ha, _⟩ := validateV_map_inv hv
      rw [removeV_map_eq S m hres ha] at hr
      split at hr
      · cases hr
      · split at hr
        · cases hr
        · split at hr
          · cases hr
          · next hne =>
            cases hr
            rw [← hid]
            apply identity_map_congr
            intro k hk'
            rw [lookupField_removeFields]
            simp [(hk k hk').1, (hk k hk').2]
    | _ => simp [Conf.identity, hke] at hid
  | true =>
    have hsc : c.isScalar = true := by
      simp only [Conf.identity, hke, if_true] at hid
      split at hid
      · assumption
      · cases hid
    have : c' = c := by
      cases c <;> simp [Value.isScalar] at hsc <;>
        (simp only [removeV] at hr; split at hr <;> simp_all)
    rw [this]; exact hid

theorem guard_keys {s : Schema} {lt : ListT} {S : SetTrie} {c : Value} {id : PE} (hw : S.wf = true)
    (hg : KeysGuarded S) (hid : Conf.identity s lt c = some id) (hnot : S.has [id] = false) :
    ∀ k ∈ lt.keys, (S.withPrefix id).has [PE.field k] = false ∧
      ((S.withPrefix id).withPrefix (PE.field k)).isEmpty = true := by
  intro k hk
  obtain ⟨fl, rfl, hmem⟩ := identity_keys_mem hid k hk
  constructor
  · cases h : (S.withPrefix (PE.key fl)).has [PE.field k] with
    | false => rfl
    | true =>
      rw [has_withPrefix_cons _ S _ (by simp)] at h
      have := hg [] fl k [] h hmem
      simp only [List.nil_append] at this
      rw [this] at hnot; cases hnot
  · cases h : ((S.withPrefix (PE.key fl)).withPrefix (PE.field k)).isEmpty with
    | true => rfl
    | false =>
      obtain ⟨q, hq, hq'⟩ := exists_has_of_withPrefix_nonempty (wf_withPrefix _ S hw) h
      rw [has_withPrefix_cons _ S _ (by simp)] at hq'
      have := hg [] fl k q hq' hmem
      simp only [List.nil_append] at this
      rw [this] at hnot; cases hnot

/-- what becomes of an item -/
theorem mem_remItem {s : Schema} {lt : ListT} {S : SetTrie} {c x' : Value} (h : x' ∈ remItem s lt S c) :
    S.has [peOf s lt c] = false ∧
      (((S.withPrefix (peOf s lt c)).isEmpty = false ∧
          x' = outToValue (removeV s false lt.elementType (S.withPrefix (peOf s lt c)) c)) ∨
       ((S.withPrefix (peOf s lt c)).isEmpty = true ∧ x' = c)) := by
  unfold remItem at h
  by_cases h1 : S.has [peOf s lt c] = true
  · rw [if_pos h1] at h; cases h
  · rw [if_neg h1] at h
    refine ⟨by simpa using h1, ?_⟩
    by_cases h2 : (S.withPrefix (peOf s lt c)).isEmpty = false
    · rw [if_pos h2] at h; exact Or.inl ⟨h2, by simpa using h⟩
    · rw [if_neg h2] at h; exact Or.inr ⟨by simpa using h2, by simpa using h⟩

/-- an item of the result designated by `pe` comes from an item of the input designated by `pe` -/
theorem hit_of_mem_remItem {s : Schema} {lt : ListT} {S : SetTrie} {pe : PE} {c x' : Value}
    (hw : S.wf = true) (hg : KeysGuarded S) (hrel : lt.rel = "associative")
    (hidc : ∃ id, Conf.identity s lt c = some id) (hvc : validateV s true lt.elementType c = .ok ())
    (hx' : x' ∈ remItem s lt S c) (hhit : hitOf s lt pe x' = true) : hitOf s lt pe c = true := by
  obtain ⟨id, hid⟩ := hidc
  have hpeq : peOf s lt c = id := peOf_of_identity hrel hid
  obtain ⟨hnot, hcase⟩ := mem_remItem hx'
  rw [hpeq] at hnot hcase
  rcases hcase with ⟨hne, rfl⟩ | ⟨_, rfl⟩
  · cases hr : removeV s false lt.elementType (S.withPrefix id) c with
    | none =>
      rw [hr] at hhit
      obtain ⟨_, _, id', hid', _⟩ := hitOf_inv hhit
      rw [show outToValue none = Value.null from rfl, identity_null] at hid'
      cases hid'
    | some c' =>
      rw [hr] at hhit
      have hid' : Conf.identity s lt c' = some id :=
        identity_removeV_some hid hvc (guard_keys hw hg hid hnot) hr
      obtain ⟨hni, _, _, _⟩ := hitOf_inv hhit
      rw [show outToValue (some c') = c' from rfl, hitOf_of_identity hni hrel hid'] at hhit
      rw [hitOf_of_identity hni hrel hid]; exact hhit
  · exact hhit

theorem mem_of_lookupField {k : String} {v : Value} :
    ∀ {m : List (String × Value)}, lookupField k m = some v → (k, v) ∈ m
  | [], h => by simp [lookupField] at h
  | (k', v') :: m, h => by
    simp only [lookupField] at h
    split at h
    · next he => simp at he h; subst he; subst h; exact List.mem_cons_self
    · exact List.mem_cons_of_mem _ (mem_of_lookupField h)

/-! ### after removing S no member of S designates anything -/

theorem removeV_drops (s : Schema) : ∀ (p : Path) (tr : TypeRef) (v : Value) (S : SetTrie),
    validateV s true tr v = .ok () → S.wf = true → KeysGuarded S → (∀ pe ∈ p, pe.notIndex = true) →
    S.has p = true → Nodes.valueAt s tr (outToValue (removeV s false tr S v)) p = none
  | [], tr, v, S, _, _, _, _, hp => by simp [has_nil] at hp
  | pe :: rest, tr, v, S, hv, hw, hg, hni, hp => by
    have hpe : pe.notIndex = true := hni pe List.mem_cons_self
    have hni' : ∀ pe' ∈ rest, pe'.notIndex = true := fun pe' h => hni pe' (List.mem_cons_of_mem _ h)
    cases v with
    | map m =>
      obtain ⟨a, mt, hres, ha, hfields⟩ := validateV_map_inv hv
      rcases outToValue_removeV_map_cases S m hres ha with h | h
      · rw [h]; exact valueAt_null_cons _ _ _ _
      · rw [h]
        by_cases hf : ∃ k, pe = PE.field k
        · obtain ⟨k, rfl⟩ := hf
          rw [valueAt_cons, childAt_map _ k hres ha, lookupField_removeFields]
          by_cases h1 : S.has [PE.field k] = true
          · simp [h1]
          · by_cases hr : rest = []
            · subst hr; exact absurd hp h1
            · have hsub : has rest (S.withPrefix (PE.field k)) = true := by
                rw [has_withPrefix_cons _ S _ hr]; exact hp
              have h2 : (S.withPrefix (PE.field k)).isEmpty = false := not_isEmpty_of_has hsub
              rw [if_neg h1, if_pos h2]
              cases hl : lookupField k m with
              | none => rfl
              | some v1 =>
                have hmem : (k, v1) ∈ m := mem_of_lookupField hl
                have hv1 := validateFields_mem s true mt m hfields (k, v1) hmem
                simp only [Option.map_some]
                exact removeV_drops s rest (fieldType mt k) v1 _ hv1 (wf_withPrefix _ S hw)
                  (hg.withPrefix _) hni' hsub
        · rw [valueAt_of_childAt_none rest (childAt_map_nonfield s tr _ pe (fun k hk => hf ⟨k, hk⟩))]
    | list l =>
      obtain ⟨a, lt, hres, ha, hitems⟩ := validateV_list_inv hv
      rcases outToValue_removeV_list_cases S l hres ha with h | h
      · rw [h]; exact valueAt_null_cons _ _ _ _
      · rw [h, valueAt_cons, childAt_list _ pe hres ha hpe]
        cases hi : Nodes.itemAt s lt pe (removeItems s false lt S l) with
        | none => rfl
        | some x' =>
          simp only [Option.map_some]
          obtain ⟨l1, l2, hl', _, hhit⟩ := itemAt_some_inv s lt pe x' _ hi
          obtain ⟨_, hrel, _, _, _⟩ := hitOf_inv hhit
          have hall := validateItems_assoc s true lt hrel l [] 0 hitems
          have hx'mem : x' ∈ removeItems s false lt S l := by rw [hl']; simp
          rw [removeItems_eq_flatMap] at hx'mem
          obtain ⟨c, hc, hx'⟩ := List.mem_flatMap.1 hx'mem
          obtain ⟨⟨pec, hpec⟩, hvc⟩ := hall c hc
          have hidc := identity_of_ok hrel hpec
          have hpeq : peOf s lt c = pec := peOf_of_identity hrel hidc
          have hhitc := hit_of_mem_remItem hw hg hrel ⟨pec, hidc⟩ hvc hx' hhit
          rw [hitOf_of_identity hpe hrel hidc] at hhitc
          have hp' : has (pec :: rest) S = true := by rw [has_congr_head hhitc rest S]; exact hp
          obtain ⟨hnot, hcase⟩ := mem_remItem hx'
          rw [hpeq] at hnot hcase
          by_cases hr : rest = []
          · subst hr; rw [hp'] at hnot; cases hnot
          · have hsub : has rest (S.withPrefix pec) = true := by
              rw [has_withPrefix_cons _ S _ hr]; exact hp'
            rcases hcase with ⟨_, rfl⟩ | ⟨hemp, _⟩
            · exact removeV_drops s rest lt.elementType c _ hvc (wf_withPrefix _ S hw)
                (hg.withPrefix _) hni' hsub
            · rw [has_of_isEmpty rest _ hemp] at hsub; cases hsub
    | null =>
      rcases outToValue_removeV_other s tr S .null rfl rfl with h | h <;> rw [h] <;>
        exact valueAt_null_cons _ _ _ _
    | bool b =>
      rcases outToValue_removeV_other s tr S (.bool b) rfl rfl with h | h <;> rw [h]
      · exact valueAt_of_childAt_none rest (childAt_other s tr _ pe rfl rfl)
      · exact valueAt_null_cons _ _ _ _
    | int b =>
      rcases outToValue_removeV_other s tr S (.int b) rfl rfl with h | h <;> rw [h]
      · exact valueAt_of_childAt_none rest (childAt_other s tr _ pe rfl rfl)
      · exact valueAt_null_cons _ _ _ _
    | float b z =>
      rcases outToValue_removeV_other s tr S (.float b z) rfl rfl with h | h <;> rw [h]
      · exact valueAt_of_childAt_none rest (childAt_other s tr _ pe rfl rfl)
      · exact valueAt_null_cons _ _ _ _
    | str b =>
      rcases outToValue_removeV_other s tr S (.str b) rfl rfl with h | h <;> rw [h]
      · exact valueAt_of_childAt_none rest (childAt_other s tr _ pe rfl rfl)
      · exact valueAt_null_cons _ _ _ _

/-! ### a node away from S is untouched -/

/-- the node is an atomic list or map: its content is not addressable by field paths -/
def atomicNode (s : Schema) (tr : TypeRef) (v : Value) : Bool :=
  match s.resolve tr with
  | some a =>
    (match v with
     | .list _ => (match a.list with | some lt => lt.rel == "atomic" | none => false)
     | .map _ => (match a.map with | some mt => mt.rel == "atomic" | none => false)
     | _ => false)
  | none => false

/-- the path passes through (strictly below) an atomic node of the object -/
def throughAtomic (s : Schema) : TypeRef → Value → Path → Bool
  | _, _, [] => false
  | tr, v, pe :: rest =>
    atomicNode s tr v ||
      (match Nodes.childAt s tr v pe with
       | some (tr', v') => throughAtomic s tr' v' rest
       | none => false)

theorem throughAtomic_cons_inv {s : Schema} {tr tr' : TypeRef} {v v' : Value} {pe : PE} {rest : Path}
    (h : throughAtomic s tr v (pe :: rest) = false) (hc : Nodes.childAt s tr v pe = some (tr', v')) :
    atomicNode s tr v = false ∧ throughAtomic s tr' v' rest = false := by
  rw [throughAtomic, hc] at h
  simpa using h

theorem prefixes_ne_nil {p r : Path} (h : r ∈ C15.prefixes p) : r ≠ [] := by
  cases p with
  | nil => cases h
  | cons pe rest =>
    simp only [C15.prefixes, List.mem_cons, List.mem_map] at h
    rcases h with rfl | ⟨_, _, rfl⟩ <;> simp

theorem removeV_keeps (s : Schema) : ∀ (p : Path) (tr : TypeRef) (v : Value) (S : SetTrie) (x : Value),
    validateV s true tr v = .ok () → S.wf = true → KeysGuarded S → (∀ pe ∈ p, pe.notIndex = true) →
    throughAtomic s tr v p = false →
    (∀ r ∈ C15.prefixes p, S.has r = false) →
    (∀ q, S.has q = true → C15.properPrefix p q = false) →
    Nodes.valueAt s tr v p = some x → p ≠ [] →
    ∃ v', removeV s false tr S v = some v' ∧ Nodes.valueAt s tr v' p = some x
  | [], _, _, _, _, _, _, _, _, _, _, _, _, hne => absurd rfl hne
  | pe :: rest, tr, v, S, x, hv, hw, hg, hni, hta, hout, hbelow, hx, _ => by
    have hpe : pe.notIndex = true := hni pe List.mem_cons_self
    have hni' : ∀ pe' ∈ rest, pe'.notIndex = true := fun pe' h => hni pe' (List.mem_cons_of_mem _ h)
    have hout1 : S.has [pe] = false := hout [pe] (by simp [C15.prefixes])
    -- the hypotheses for the sub-set below an element `pe'` equal to `pe`
    have hsubfacts : ∀ pe', PE.equals pe pe' = true →
        (S.withPrefix pe').isEmpty = false → rest ≠ [] ∧
          (∀ r ∈ C15.prefixes rest, (S.withPrefix pe').has r = false) ∧
          (∀ q, (S.withPrefix pe').has q = true → C15.properPrefix rest q = false) := by
      intro pe' he hne
      refine ⟨?_, ?_, ?_⟩
      · rintro rfl
        obtain ⟨q, hq, hq'⟩ := exists_has_of_withPrefix_nonempty hw hne
        have := hbelow _ hq'
        cases q with
        | nil => exact hq rfl
        | cons b bs => simp [C15.properPrefix, he] at this
      · intro r hr
        rw [has_withPrefix_cons _ S _ (prefixes_ne_nil hr), ← has_congr_head he r S]
        exact hout (pe :: r) (by simp only [C15.prefixes, List.mem_cons, List.mem_map]; exact Or.inr ⟨r, hr, rfl⟩)
      · intro q hq
        have hqne := has_true_ne_nil hq
        rw [has_withPrefix_cons _ S _ hqne] at hq
        have := hbelow _ hq
        simpa [C15.properPrefix, he] using this
    cases v with
    | map m =>
      obtain ⟨a, mt, hres, ha, hfields⟩ := validateV_map_inv hv
      by_cases hf : ∃ k, pe = PE.field k
      · obtain ⟨k, rfl⟩ := hf
        rw [valueAt_cons, childAt_map _ k hres ha] at hx
        cases hl : lookupField k m with
        | none => simp [hl] at hx
        | some v1 =>
          simp only [hl, Option.map_some] at hx
          obtain ⟨hatn, hta'⟩ := throughAtomic_cons_inv hta
            (show Nodes.childAt s tr (.map m) (PE.field k) = some (fieldType mt k, v1) by
              rw [childAt_map _ k hres ha, hl]; rfl)
          have hat : mt.rel ≠ "atomic" := by
            simpa [atomicNode, hres, ha] using hatn
          have hmne : m ≠ [] := by rintro rfl; simp [lookupField] at hl
          have hmem : (k, v1) ∈ m := mem_of_lookupField hl
          have hv1 := validateFields_mem s true mt m hfields (k, v1) hmem
          -- the entry `k` of the result
          have hlook : ∃ v1', lookupField k (removeFields s false mt S m) = some v1' ∧
              Nodes.valueAt s (fieldType mt k) v1' rest = some x := by
            rw [lookupField_removeFields, if_neg (by simp [hout1])]
            by_cases h2 : (S.withPrefix (PE.field k)).isEmpty = false
            · rw [if_pos h2, hl]
              obtain ⟨hr, ho, hb⟩ := hsubfacts (PE.field k) (PE.equals_refl _) h2
              obtain ⟨v1', hr1, hr2⟩ := removeV_keeps s rest (fieldType mt k) v1 _ x hv1
                (wf_withPrefix _ S hw) (hg.withPrefix _) hni' hta' ho hb hx hr
              exact ⟨v1', by simp [hr1, outToValue], hr2⟩
            · rw [if_neg h2]; exact ⟨v1, hl, hx⟩
          obtain ⟨v1', hl', hx'⟩ := hlook
          have hfs : removeFields s false mt S m ≠ [] := by
            intro h; rw [h] at hl'; simp [lookupField] at hl'
          refine ⟨_, removeV_map_some S m hres ha hat hfs hmne, ?_⟩
          rw [valueAt_cons, childAt_map _ k hres ha, hl']
          exact hx'
      · rw [valueAt_of_childAt_none rest (childAt_map_nonfield s tr _ pe (fun k hk => hf ⟨k, hk⟩))] at hx
        cases hx
    | list l =>
      obtain ⟨a, lt, hres, ha, hitems⟩ := validateV_list_inv hv
      rw [valueAt_cons, childAt_list _ pe hres ha hpe] at hx
      cases hi : Nodes.itemAt s lt pe l with
      | none => simp [hi] at hx
      | some c =>
        simp only [hi, Option.map_some] at hx
        obtain ⟨hatn, hta'⟩ := throughAtomic_cons_inv hta
          (show Nodes.childAt s tr (.list l) pe = some (lt.elementType, c) by
            rw [childAt_list _ pe hres ha hpe, hi]; rfl)
        have hat : lt.rel ≠ "atomic" := by
          simpa [atomicNode, hres, ha] using hatn
        obtain ⟨l1, l2, hl, hnohit, hhit⟩ := itemAt_some_inv s lt pe c l hi
        obtain ⟨_, hrel, id, hid, heq⟩ := hitOf_inv hhit
        have hall := validateItems_assoc s true lt hrel l [] 0 hitems
        have hcl : c ∈ l := by rw [hl]; simp
        obtain ⟨_, hvc⟩ := hall c hcl
        have hpeq : peOf s lt c = id := peOf_of_identity hrel hid
        have heq' : PE.equals pe id = true := by rw [PE.equals_comm]; exact heq
        have hnot : S.has [id] = false := by rw [has_congr_head heq [] S]; exact hout1
        have hlne : l ≠ [] := by rintro rfl; cases hcl
        -- the image of the item
        have himg : ∃ c', remItem s lt S c = [c'] ∧ hitOf s lt pe c' = true ∧
            Nodes.valueAt s lt.elementType c' rest = some x := by
          unfold remItem
          rw [hpeq, if_neg (by simp [hnot])]
          by_cases h2 : (S.withPrefix id).isEmpty = false
          · rw [if_pos h2]
            obtain ⟨hr, ho, hb⟩ := hsubfacts id heq' h2
            obtain ⟨c', hr1, hr2⟩ := removeV_keeps s rest lt.elementType c _ x hvc
              (wf_withPrefix _ S hw) (hg.withPrefix _) hni' hta' ho hb hx hr
            refine ⟨c', by simp [hr1, outToValue], ?_, hr2⟩
            have hid' := identity_removeV_some hid hvc (guard_keys hw hg hid hnot) hr1
            rw [hitOf_of_identity hpe hrel hid']; exact heq
          · rw [if_neg h2]; exact ⟨c, rfl, hhit, hx⟩
        obtain ⟨c', hc1, hc2, hc3⟩ := himg
        have hres' : removeItems s false lt S l =
            removeItems s false lt S l1 ++ c' :: removeItems s false lt S l2 := by
          rw [hl, removeItems_eq_flatMap, removeItems_eq_flatMap, removeItems_eq_flatMap,
            List.flatMap_append, List.flatMap_cons, hc1]
          rfl
        have hfirst : Nodes.itemAt s lt pe (removeItems s false lt S l) = some c' := by
          rw [hres']
          apply itemAt_append_first _ _ _ _ _ _ _ hc2
          intro y hy
          rw [removeItems_eq_flatMap] at hy
          obtain ⟨c0, hc0, hy'⟩ := List.mem_flatMap.1 hy
          obtain ⟨⟨pe0, hpe0⟩, hv0⟩ := hall c0 (by rw [hl]; exact List.mem_append_left _ hc0)
          cases hh : hitOf s lt pe y with
          | false => rfl
          | true =>
            have := hit_of_mem_remItem hw hg hrel ⟨pe0, identity_of_ok hrel hpe0⟩ hv0 hy' hh
            rw [hnohit c0 hc0] at this; cases this
        have hfs : removeItems s false lt S l ≠ [] := by rw [hres']; simp
        refine ⟨_, removeV_list_some S l hres ha hat hfs hlne, ?_⟩
        rw [valueAt_cons, childAt_list _ pe hres ha hpe, hfirst]
        exact hc3
    | null => rw [valueAt_of_childAt_none rest (childAt_other s tr _ pe rfl rfl)] at hx; cases hx
    | bool b => rw [valueAt_of_childAt_none rest (childAt_other s tr _ pe rfl rfl)] at hx; cases hx
    | int b => rw [valueAt_of_childAt_none rest (childAt_other s tr _ pe rfl rfl)] at hx; cases hx
    | float b z => rw [valueAt_of_childAt_none rest (childAt_other s tr _ pe rfl rfl)] at hx; cases hx
    | str b => rw [valueAt_of_childAt_none rest (childAt_other s tr _ pe rfl rfl)] at hx; cases hx

end NodeLaws
end SMD
