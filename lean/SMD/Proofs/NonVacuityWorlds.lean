/-
Worlds of the non-vacuity examples of SMD/Properties/NonVacuity.lean: closed runs of the model, evaluated by
the kernel with the technique of SMD/Properties/FindingWitnesses.lean (`eval_apply`, `eval_update`,
`kernel_rfl`, `with_unfolding_all rfl`, `decide`).  Schema, values and the D8 / D11 histories are those of
SMD/Proofs/FindingWorlds.lean (struct `root` with `f1 : {x, y}` and the list `l` keyed by `name` whose
items carry a set `sub` of numerics).  Only integer scalars are evaluated by the model operations (the one
float of this file occurs in a path element that is printed and read back, never compared with an
integer: `scale` is never evaluated).

* W2: a1 owns `.f1.x` and `.f1.y` of `{f1: {x: 1, y: 1}}`; u1 updates `.f1.x`; b applies `{f1: {x: 2}}`
  (conflict unless forced) or `{f1: {x: 1}}` (no-op with shared ownership).
* IG: the exclusion set `{.f1.y}` in force at every version.
* INC: the include pattern `.f1.x` in force at every version.
* AT: the schema in which the list `l` has turned atomic, and a record that owns paths beneath it.
* MISS / FAIL: converters that report version "v0" as missing / fail at version "v2".
* ML: a merge of two keyed lists with shared, left-only and right-only items.
-/
import SMD.Properties.FindingWitnesses
import SMD.Proofs.ConsistencyApplyWitness
import SMD.Properties.C07
import SMD.Properties.C12Order
import SMD.Proofs.StdCodec
set_option maxRecDepth 100000
namespace SMD.NV
open SMD.FW SetTrie

/-! ### the manager loop with a kernel-reducible ignore filter

`updateLoopS` (SMD/Proofs/SetOpsKernel.lean) still calls `filterCmp`, whose exclusion filter is the
recursive difference `rdiff` (well-founded recursion: does not reduce).  It is reached whenever another
manager is recorded at a version other than the operation's; `updateLoopS2` filters with `rdiffS`. -/

/-- `filterCmp` with the kernel-reducible recursive difference -/
def filterCmpS (f : Option Filter) (c : Comparison) : Comparison :=
  match f with
  | none => c
  | some (.exclude ex) => ⟨rdiffS c.removed ex, rdiffS c.modified ex, rdiffS c.added ex⟩
  | some (.include m) => ⟨c.removed.filterInclude m, c.modified.filterInclude m, c.added.filterInclude m⟩

theorem filterCmpS_eq (f : Option Filter) (c : Comparison) : filterCmp f c = filterCmpS f c := by
  cases f with
  | none => rfl
  | some f => cases f <;> simp only [filterCmp, filterCmpS, Filter.apply, rdiffS_eq]

def updateLoopS2 (u : Updater) (sc : Schema) (oldObj newObj : TV) (workflow : String) :
    List (String × VersionedSet) → Managed → List (String × Comparison) →
    List (String × VersionedSet) → List (String × VersionedSet) →
    Outcome (Managed × List (String × VersionedSet) × List (String × VersionedSet))
  | [], managers, _, conflicts, removed => .ok (managers, conflicts.reverse, removed.reverse)
  | (manager, ms) :: rest, managers, versions, conflicts, removed =>
    if manager == workflow then updateLoopS2 u sc oldObj newObj workflow rest managers versions conflicts removed
    else
      let continueWith (cmp : Comparison) (versions : List (String × Comparison)) :=
        let conflictSet := interS ms.set (unionS cmp.modified cmp.added)
        let conflicts' := if !conflictSet.isEmpty then (manager, ⟨conflictSet, ms.version, false⟩) :: conflicts else conflicts
        let removed' := if !cmp.removed.isEmpty then (manager, ⟨cmp.removed, ms.version, false⟩) :: removed else removed
        updateLoopS2 u sc oldObj newObj workflow rest managers versions conflicts' removed'
      match cacheGet versions ms.version with
      | some cmp => continueWith cmp versions
      | none =>
        match u.converter.convert oldObj ms.version with
        | .missing => updateLoopS2 u sc oldObj newObj workflow rest (mfDelete managers manager) versions conflicts removed
        | .fail => .err
        | .ok vOld =>
          match u.converter.convert newObj ms.version with
          | .missing => updateLoopS2 u sc oldObj newObj workflow rest (mfDelete managers manager) versions conflicts removed
          | .fail => .err
          | .ok vNew =>
            match compareTV sc vOld vNew with
            | .err => .err
            | .panic => .panic
            | .ok cmp0 =>
              let cmp := filterCmpS (u.ignore ms.version) cmp0
              continueWith cmp ((ms.version, cmp) :: versions)

theorem updateLoopS2_eq (u : Updater) (sc : Schema) (oldObj newObj : TV) (workflow : String)
    (l : List (String × VersionedSet)) : ∀ (managers : Managed) (versions : List (String × Comparison))
    (conflicts removed : List (String × VersionedSet)),
    updateLoop u sc oldObj newObj workflow l managers versions conflicts removed =
      updateLoopS2 u sc oldObj newObj workflow l managers versions conflicts removed := by
  induction l with
  | nil => intros; rfl
  | cons hd tl ih =>
    obtain ⟨manager, ms⟩ := hd
    intro managers versions conflicts removed
    simp only [updateLoop, updateLoopS2, ih, unionS_eq, interS_eq, filterCmpS_eq]
    rfl

/-- evaluation of a closed `update …` under an ignore configuration, other managers at other versions -/
macro "eval_update2" : tactic =>
  `(tactic| (unfold update updateCore applyIgnore filterCmp Filter.apply
             simp only [unionS_eq, interS_eq, diffS_eq, rdiffS_eq, updateLoopS2_eq]
             kernel_rfl))

/-- evaluation of a closed `updateCore …` -/
macro "eval_core" : tactic =>
  `(tactic| (unfold updateCore filterCmp Filter.apply
             simp only [unionS_eq, interS_eq, diffS_eq, rdiffS_eq, updateLoopS2_eq]
             kernel_rfl))

/-- evaluation of a closed `reconcileFieldSet …` -/
macro "eval_reconcile" : tactic =>
  `(tactic| (unfold reconcileFieldSet
             simp only [unionS_eq, rdiffS_eq]
             kernel_rfl))

/-! ### W1 / W2: ownership of `.f1.x` and `.f1.y` -/

/-- `{f1: {x: 2, y: 1}}` (`{f1: {x: 1, y: 1}}` is `d8cfg1`) -/
def objX2 : Value := .map [("f1", .map [("x", .int 2), ("y", .int 1)])]
/-- `{f1: {x: 2}}` -/
def cfgX2 : Value := .map [("f1", .map [("x", .int 2)])]
/-- `{f1: {x: 1}}` -/
def cfgX1 : Value := .map [("f1", .map [("x", .int 1)])]
def setX : SetTrie := .node [] [(.field "f1", .node [.field "x"] [])]
def setY : SetTrie := .node [] [(.field "f1", .node [.field "y"] [])]
def setXY : SetTrie := .node [] [(.field "f1", .node [.field "x", .field "y"] [])]
def setNone : SetTrie := .node [] []
def pX : Path := [.field "f1", .field "x"]
def pY : Path := [.field "f1", .field "y"]

/-- W1: a1 owns `.f1.x`, u1 owns `.f1.y` -/
def mfW1 : Managed := [("a1", ⟨setX, "v1", true⟩), ("u1", ⟨setY, "v1", false⟩)]
/-- W2: a1 owns `.f1.x` and `.f1.y` (the state after a1 applied `{f1: {x: 1, y: 1}}`) -/
def mfW2 : Managed := [("a1", ⟨setXY, "v1", true⟩)]
/-- W2 after u1 updated `.f1.x` -/
def mfW2u : Managed := [("a1", ⟨setY, "v1", true⟩), ("u1", ⟨setX, "v1", false⟩)]
/-- W2 after b force-applied `{f1: {x: 2}}` -/
def mfW2b : Managed := [("a1", ⟨setY, "v1", true⟩), ("b", ⟨setX, "v1", true⟩)]
/-- W2 after b applied `{f1: {x: 1}}`: `.f1.x` is shared -/
def mfW2s : Managed := [("a1", ⟨setXY, "v1", true⟩), ("b", ⟨setX, "v1", true⟩)]
/-- W2 with an empty record of b -/
def mfW2e : Managed := [("a1", ⟨setXY, "v1", true⟩), ("b", ⟨setNone, "v1", true⟩)]

/-- the comparison of `{f1: {x: 1, y: 1}}` with `{f1: {x: 2, y: 1}}`: `.f1.x` modified -/
def cmpX : Comparison := ⟨setNone, setX, setNone⟩

theorem w_cmpX : compareTV sc (tv d8cfg1) (tv objX2) = .ok cmpX := by with_unfolding_all rfl

theorem w2_first_apply : apply plain sc live0 (tv d8cfg1) "v1" [] "a1" false = .ok (some (tv d8cfg1), mfW2) := by
  eval_apply

theorem w1_conflict :
    updateCore plain sc (tv d8cfg1) (tv objX2) "v1" mfW1 "b" false = .conflict [("a1", pX)] := by
  eval_core

theorem w1_rec : reconcileManaged plain sc (tv d8cfg1) mfW1 = .ok mfW1 := by with_unfolding_all rfl
theorem w2_rec : reconcileManaged plain sc (tv d8cfg1) mfW2 = .ok mfW2 := by with_unfolding_all rfl
theorem w2e_rec : reconcileManaged plain sc (tv d8cfg1) mfW2e = .ok mfW2e := by with_unfolding_all rfl

theorem w2_update : update plain sc (tv d8cfg1) (tv objX2) "v1" mfW2 "u1" = .ok mfW2u := by eval_update

theorem w2_apply_forced :
    apply plain sc (tv d8cfg1) (tv cfgX2) "v1" mfW2 "b" true = .ok (some (tv objX2), mfW2b) := by eval_apply
theorem w2_apply_conflict :
    apply plain sc (tv d8cfg1) (tv cfgX2) "v1" mfW2 "b" false = .conflict [("a1", pX)] := by eval_apply
theorem w2_apply_noop :
    apply plain sc (tv d8cfg1) (tv cfgX1) "v1" mfW2 "b" false = .ok (none, mfW2s) := by eval_apply
theorem w2_apply_noop_exposed :
    apply (C07.exposing plain) sc (tv d8cfg1) (tv cfgX1) "v1" mfW2 "b" false = .ok (some (tv d8cfg1), mfW2s) := by
  eval_apply
theorem w2_apply_forced_exposed :
    apply (C07.exposing plain) sc (tv d8cfg1) (tv cfgX2) "v1" mfW2 "b" true = .ok (some (tv objX2), mfW2b) := by
  eval_apply
theorem w2e_apply_forced :
    apply plain sc (tv d8cfg1) (tv cfgX2) "v1" mfW2e "b" true = .ok (some (tv objX2), mfW2b) := by eval_apply

theorem w2_merge : mergeTV sc (tv d8cfg1) (tv cfgX2) = .ok (tv objX2) := by with_unfolding_all rfl
theorem w_fs_cfgX2 : toFieldSet sc (tv cfgX2) = .ok setX := by with_unfolding_all rfl
theorem w_fs_d8cfg1 : toFieldSet sc (tv d8cfg1) = .ok setXY := by with_unfolding_all rfl

theorem mfW1_sorted : mfW1.Pairwise (fun a b => a.1 < b.1) := by decide
theorem mfW2_sorted : mfW2.Pairwise (fun a b => a.1 < b.1) := by decide
theorem mfW1_wf : ∀ x ∈ mfW1, x.2.set.wf = true := by decide
theorem mfW2_wf : ∀ x ∈ mfW2, x.2.set.wf = true := by decide
theorem mfW2_ne : ∀ x ∈ mfW2, x.2.set.isEmpty = false := by decide

/-! ### the D11 world: more runs -/

/-- a1 applies its first configuration again after u1's update: nothing changes -/
theorem d11_reapply_noop :
    apply plain sc (tv objSub01) (tv cfgSub0) "v1" (mfA1U1 "v1") "a1" false = .ok (none, mfA1U1 "v1") := by
  eval_apply

theorem d11_rec : reconcileManaged plain sc (tv objSub01) (mfA1U1 "v1") = .ok (mfA1U1 "v1") := by
  with_unfolding_all rfl
theorem d11_rec0 : reconcileManaged plain sc (tv cfgSub0) (mfA1 "v1") = .ok (mfA1 "v1") := by
  with_unfolding_all rfl

/-- `{.l[name=c].sub, .l[name=c].sub[=0], .l[name=c].sub[=1]}` -/
def setSubGone : SetTrie :=
  .node [] [(.field "l", .node [] [(keyC, .node [.field "sub"]
    [(.field "sub", .node [.value (.int 0), .value (.int 1)] [])])])]

/-- `{l: [{name: c, sub: [0, 1]}]}` against `{l: [{name: c}]}`: the set `sub` and its two items removed -/
theorem d11_cmp_bare : compareTV sc (tv objSub01) (tv cfgBare) = .ok ⟨setSubGone, setNone, setNone⟩ := by
  with_unfolding_all rfl
/-- `{l: [{name: c, sub: [0]}]}` against `{l: [{name: c, sub: [0, 1]}]}`: `.l[name=c].sub[=1]` added -/
theorem d11_cmp_update : compareTV sc (tv cfgSub0) (tv objSub01) = .ok ⟨setNone, setNone, setSub1⟩ := by
  with_unfolding_all rfl

theorem mfA1U1_sorted : (mfA1U1 "v1").Pairwise (fun a b => a.1 < b.1) := by decide
theorem mfA1U1_wf : ∀ x ∈ mfA1U1 "v1", x.2.set.wf = true := by decide
theorem mfA1U1_ne : ∀ x ∈ mfA1U1 "v1", x.2.set.isEmpty = false := by decide
theorem mfA1_sorted : (mfA1 "v1").Pairwise (fun a b => a.1 < b.1) := by decide
theorem mfA1_wf : ∀ x ∈ mfA1 "v1", x.2.set.wf = true := by decide

/-! ### IG: the exclusion set `{.f1.y}` at every version -/

def ignoringAll : Updater := { converter := Converter.identity, ignore := fun _ => some (.exclude ignoreSet) }

/-- `{f1: {x: 1, y: 2}}` -/
def objY2 : Value := .map [("f1", .map [("x", .int 1), ("y", .int 2)])]
/-- `{f1: {x: 2, y: 2}}` -/
def objX2Y2 : Value := .map [("f1", .map [("x", .int 2), ("y", .int 2)])]
/-- u1 owns `.f1.x` at v2 -/
def mfU1X : Managed := [("u1", ⟨setX, "v2", false⟩)]

/-- a1 applies `{f1: {x: 1, y: 1}}`: it owns `.f1.x` only -/
theorem ig_first_apply :
    apply ignoringAll sc live0 (tv d8cfg1) "v1" [] "a1" false = .ok (some (tv d8cfg1), d8mf1) := by eval_apply
/-- u1 changes the ignored field only: nothing is owned by it, a1 keeps its record -/
theorem ig_update_ignored :
    update ignoringAll sc (tv d8cfg1) (tv objY2) "v2" d8mf1 "u1" = .ok d8mf1 := by eval_update2
/-- u1 changes both fields: it takes `.f1.x` from a1 and does not own `.f1.y` -/
theorem ig_update_both :
    update ignoringAll sc (tv d8cfg1) (tv objX2Y2) "v2" d8mf1 "u1" = .ok mfU1X := by eval_update2
theorem ig_rec : reconcileManaged ignoringAll sc (tv d8cfg1) d8mf1 = .ok d8mf1 := by with_unfolding_all rfl
theorem ig_cmp : compareTV sc (tv d8cfg1) (tv objY2) = .ok ⟨setNone, setY, setNone⟩ := by with_unfolding_all rfl
theorem ignoreSet_wf : ignoreSet.wf = true := by decide
theorem d8mf1_sorted : d8mf1.Pairwise (fun a b => a.1 < b.1) := by decide
theorem d8mf1_wf : ∀ x ∈ d8mf1, x.2.set.wf = true := by decide
theorem d8mf1_ne : ∀ x ∈ d8mf1, x.2.set.isEmpty = false := by decide
/-- a1 owns both fields (W2), b changes the ignored one: no conflict under the exclusion set … -/
theorem ig_core_ok :
    updateCore ignoringAll sc (tv d8cfg1) (tv objY2) "v1" mfW2 "b" false = .ok (mfW2, ⟨setNone, setNone, setNone⟩) := by
  eval_core
/-- … and a conflict without it -/
theorem ig_core_contrast :
    updateCore plain sc (tv d8cfg1) (tv objY2) "v1" mfW2 "b" false = .conflict [("a1", pY)] := by
  eval_core
theorem w2_rec_ig : reconcileManaged ignoringAll sc (tv d8cfg1) mfW2 = .ok mfW2 := by with_unfolding_all rfl

/-! ### INC: the include pattern `.f1.x` at every version -/

def incPat : SetMatcher := SetMatcher.ofPrefix [⟨false, .field "f1"⟩, ⟨false, .field "x"⟩]
def including : Updater := { converter := Converter.identity, ignore := fun _ => some (.include incPat) }

theorem inc_first_apply :
    apply including sc live0 (tv d8cfg1) "v1" [] "a1" false = .ok (some (tv d8cfg1), d8mf1) := by eval_apply
theorem inc_update_both :
    update including sc (tv d8cfg1) (tv objX2Y2) "v2" d8mf1 "u1" = .ok mfU1X := by eval_update2

/-! ### AT: the list `l` has turned atomic -/

/-- `l` as an atomic list of `item` -/
def lAtomicTR : TypeRef := .mk none (.mk none (some (.mk (refTo "item") "atomic" [])) none) none
def rootAtomAt : Atom :=
  .mk none none (some (.mk [.mk "f1" (refTo "pt") none, .mk "l" lAtomicTR none] [] TypeRef.zero ""))
/-- the schema of SMD/Proofs/FindingWorlds.lean with `l` atomic -/
def scAt : Schema := ⟨[⟨"root", rootAtomAt⟩, ⟨"pt", ptAtom⟩, ⟨"item", itemAtom⟩]⟩

/-- a record written under the old schema: `{.f1.x, .l[name=c], .l[name=c].name, .l[name=c].sub[=0]}` -/
def setOld : SetTrie :=
  .node [] [(.field "f1", .node [.field "x"] []),
            (.field "l", .node [keyC] [(keyC, .node [.field "name"] [(.field "sub", .node [.value (.int 0)] [])])])]
/-- the reconciled record: `{.l, .f1.x}` -/
def setNew : SetTrie := .node [.field "l"] [(.field "f1", .node [.field "x"] [])]
def pSub0 : Path := [.field "l", keyC, .field "sub", .value (.int 0)]

theorem setOld_wf : setOld.wf = true := by decide
theorem at_first : reconcileFieldSet scAt setOld rootTR = .ok (some setNew) := by eval_reconcile
theorem at_second : reconcileFieldSet scAt setNew rootTR = .ok none := by with_unfolding_all rfl
/-- under the old schema nothing is to be reconciled -/
theorem at_old_schema : reconcileFieldSet sc setOld rootTR = .ok none := by with_unfolding_all rfl

/-- the whole reconcile step of Apply / Update under the new schema, two managers -/
def mfOld : Managed := [("a1", ⟨setOld, "v1", true⟩), ("u1", ⟨setX, "v1", false⟩)]
def mfNew : Managed := [("a1", ⟨setNew, "v1", true⟩), ("u1", ⟨setX, "v1", false⟩)]
theorem at_managed : reconcileManaged plain scAt (tv d8cfg1) mfOld = .ok mfNew := by
  unfold reconcileManaged reconcileManaged reconcileManaged reconcileFieldSet
  simp only [unionS_eq, rdiffS_eq]
  kernel_rfl

/-! ### MISS / FAIL: converters -/

/-- version "v0" is gone -/
def missingV0 : Updater :=
  { converter := ⟨fun tv v => if v == "v0" then .missing else .ok tv⟩, ignore := fun _ => none }
/-- conversion to "v2" fails -/
def failingV2 : Updater :=
  { converter := ⟨fun tv v => if v == "v2" then .fail else .ok tv⟩, ignore := fun _ => none }

/-- `{f1: {y: 2}}` is `d8cfg2` -/
def mfMiss : Managed := [("a0", ⟨setY, "v0", true⟩), ("a1", ⟨setX, "v1", true⟩)]
def mfMissLeft : Managed := [("a1", ⟨setX, "v1", true⟩)]
def mfFail : Managed := [("a1", ⟨setX, "v1", true⟩), ("z", ⟨setY, "v2", true⟩)]

theorem miss_rec : reconcileManaged missingV0 sc (tv d8cfg1) mfMiss = .ok mfMissLeft := by with_unfolding_all rfl
/-- b applies `{f1: {y: 2}}`: no conflict with a0, whose record at the missing version is dropped -/
theorem miss_apply :
    apply missingV0 sc (tv d8cfg1) (tv d8cfg2) "v1" mfMissLeft "b" false =
      .ok (some (tv objY2), [("a1", ⟨setX, "v1", true⟩), ("b", ⟨setY, "v1", true⟩)]) := by eval_apply
theorem miss_update :
    update missingV0 sc (tv d8cfg1) (tv objX2) "v1" mfMissLeft "u1" = .ok [("u1", ⟨setX, "v1", false⟩)] := by
  eval_update

theorem fail_apply : apply failingV2 sc (tv d8cfg1) (tv d8cfg2) "v1" mfFail "b" false = .err := by
  with_unfolding_all rfl
theorem fail_update : update failingV2 sc (tv d8cfg1) (tv objX2) "v1" mfFail "u1" = .err := by
  with_unfolding_all rfl

/-! ### ML: a merge of two keyed lists -/

def it (n : String) : Value := .map [("name", .str n)]
def itS (n : String) (k : Int) : Value := .map [("name", .str n), ("sub", .list [.int k])]
/-- left: a (with `sub: [0]`), b, c, e -/
def lL : List Value := [itS "a" 0, it "b", it "c", it "e"]
/-- right: d, b, a (with `sub: [1]`) -/
def lR : List Value := [it "d", it "b", itS "a" 1]
/-- the merge: d, b, c, e, a (with `sub: [0, 1]`) -/
def lOut : List Value :=
  [it "d", it "b", it "c", it "e", .map [("name", .str "a"), ("sub", .list [.int 0, .int 1])]]
/-- the list type of `l` -/
def lListT : ListT := .mk (refTo "item") "associative" ["name"]
def lAtomT : Atom := .mk none (some lListT) none

theorem ml_merge : mergeNode sc 6 (some (.list lL)) (some (.list lR)) lTR = .ok (some (.list lOut)) := by
  with_unfolding_all rfl
theorem ml_valid_l : validateV sc false lTR (.list lL) = .ok () := by with_unfolding_all rfl
theorem ml_valid_r : validateV sc false lTR (.list lR) = .ok () := by with_unfolding_all rfl

/-- right: a (with `sub: [1]`), c — every identity already in the left list, in the same relative order -/
def lR2 : List Value := [itS "a" 1, it "c"]
def lOut2 : List Value := [.map [("name", .str "a"), ("sub", .list [.int 0, .int 1])], it "b", it "c", it "e"]
theorem ml_merge2 : mergeNode sc 6 (some (.list lL)) (some (.list lR2)) lTR = .ok (some (.list lOut2)) := by
  with_unfolding_all rfl
theorem ml_valid_r2 : validateV sc false lTR (.list lR2) = .ok () := by with_unfolding_all rfl

/-! ### maps without lists (type `pt`) -/

def ptTR : TypeRef := refTo "pt"
def vA : Value := .map [("x", .int 1)]
def vB : Value := .map [("y", .int 2)]
def vC : Value := .map [("x", .int 3)]
def vAB : Value := .map [("x", .int 1), ("y", .int 2)]
def vBC : Value := .map [("x", .int 3), ("y", .int 2)]
theorem ma_ab : mergeNode sc 3 (some vA) (some vB) ptTR = .ok (some vAB) := by with_unfolding_all rfl
theorem ma_ab_c : mergeNode sc 3 (some vAB) (some vC) ptTR = .ok (some vBC) := by with_unfolding_all rfl
theorem ma_bc : mergeNode sc 3 (some vB) (some vC) ptTR = .ok (some vBC) := by with_unfolding_all rfl
theorem ma_a_bc : mergeNode sc 3 (some vA) (some vBC) ptTR = .ok (some vBC) := by with_unfolding_all rfl
theorem ma_valid (v : Value) (h : v = vA ∨ v = vB ∨ v = vC) : validateV sc false ptTR v = .ok () := by
  rcases h with rfl | rfl | rfl <;> with_unfolding_all rfl

/-! ### comparisons at a node -/

def pathsSub0 : List Path :=
  [[.field "l", keyC, .field "name"], [.field "l", keyC, .field "sub", .value (.int 0)],
   [.field "l", keyC, .field "sub"], [.field "l", keyC], [.field "l"], []]
/-- nothing against `{l: [{name: c, sub: [0]}]}`: every node is added, containers and the root included -/
theorem cmp_from_nothing : cmpNode sc 6 none (some cfgSub0) rootTR = .ok ⟨[], [], pathsSub0⟩ := by
  with_unfolding_all rfl
theorem cmp_to_nothing : cmpNode sc 6 (some cfgSub0) none rootTR = .ok ⟨pathsSub0, [], []⟩ := by
  with_unfolding_all rfl
theorem cmp_self : cmpNode sc 6 (some objSub01) (some objSub01) rootTR = .ok ⟨[], [], []⟩ := by
  with_unfolding_all rfl
theorem cmpTV_self : compareTV sc (tv objSub01) (tv objSub01) = .ok ⟨setNone, setNone, setNone⟩ := by
  with_unfolding_all rfl

/-! ### validation with duplicates allowed, the entries of an item in two orders -/

theorem w_valid_dup_cfgSub0 : validateV sc true rootTR cfgSub0 = .ok () := by with_unfolding_all rfl
theorem w_valid_dup_objSub01 : validateV sc true rootTR objSub01 = .ok () := by with_unfolding_all rfl

def itemMapT : MapT := .mk [.mk "name" stringTR none, .mk "sub" subTR none] [] TypeRef.zero ""
def itemEntries : List (String × Value) := [("name", .str "c"), ("sub", .list [.int 0])]
def itemEntriesSwapped : List (String × Value) := [("sub", .list [.int 0]), ("name", .str "c")]
theorem fs_entries : fsFields sc itemMapT itemEntries =
    .ok [[.field "name"], [.field "sub", .value (.int 0)], [.field "sub", .value (.int 0)]] := by
  with_unfolding_all rfl
theorem fs_entries_swapped : fsFields sc itemMapT itemEntriesSwapped =
    .ok [[.field "sub", .value (.int 0)], [.field "sub", .value (.int 0)], [.field "name"]] := by
  with_unfolding_all rfl

/-! ### SER: path elements and sets for the concrete key codec -/

/-- an associative-list key with a string that needs escapes and the float 1.5 (`3 * 2^1073` units of
`2^-1074`): `[a="x\"y\\z\n<", b=1.5]` -/
def peEsc : PE := .key [("a", .str "x\"y\\z\n<"), ("b", .float (3 * 2 ^ 1073) false)]
def keyEsc : String := "k:{\"a\":\"x\\\"y\\\\z\\n\\u003c\",\"b\":1.5}"
/-- `{[a=…, b=1.5], [=3], [2], .l[name=c]}` -/
def setEsc : SetTrie := .node [peEsc, .value (.int 3), .index 2] [(.field "l", .node [keyC] [])]
/-- a document with keys out of order, a repeated key, the marker and an unknown element kind -/
def jDoc : J :=
  J.obj [("f:b", J.obj []), ("f:a", J.obj [(".", J.obj []), ("i:1", J.obj []), ("x:9", J.obj [])]), ("f:b", J.null)]
def setDoc : SetTrie := .node [.field "a", .field "b"] [(.field "a", .node [.index 1] [])]

end SMD.NV

namespace SMD.NV
open SMD.FW SetTrie Ser

-- `3 * 2 ^ 1073` is a 1075-bit literal for the kernel's bignum arithmetic (`scale` is not involved)
set_option exponentiation.threshold 2000

theorem ser_peEsc : serializePE peEsc = some keyEsc := by decide
theorem ser_peEsc_sorted : peEsc.keySorted = true := by decide
theorem ser_setEsc_wf : setEsc.wf = true := by decide
theorem ser_setEsc_printable : setEsc.allPrintable = true := by decide
theorem ser_setEsc_sorted : setEsc.allKeysSorted = true := by decide
theorem ser_read_doc : fromJSONWith stdCodec jDoc = .ok setDoc := by with_unfolding_all rfl

end SMD.NV

/-! ### UPD: a history of Updates on the D11 schema -/
namespace SMD.NV
open SMD.FW SetTrie

/-- everything `{l: [{name: c, sub: [0]}]}` holds, containers included:
`{.l, .l[name=c], .l[name=c].name, .l[name=c].sub, .l[name=c].sub[=0]}` -/
def setAll0 : SetTrie :=
  .node [.field "l"] [(.field "l", .node [keyC]
    [(keyC, .node [.field "name", .field "sub"] [(.field "sub", .node [.value (.int 0)] [])])])]
def mfU0 : Managed := [("u0", ⟨setAll0, "v1", false⟩)]
def mfU0U1 : Managed := [("u0", ⟨setAll0, "v1", false⟩), ("u1", ⟨setSub1, "v1", false⟩)]

/-- u0 updates the empty object to `{l: [{name: c, sub: [0]}]}` -/
theorem upd_first : update plain sc (tv .null) (tv cfgSub0) "v1" [] "u0" = .ok mfU0 := by eval_update
/-- u1 adds the item 1 to `sub` -/
theorem upd_second : update plain sc (tv cfgSub0) (tv objSub01) "v1" mfU0 "u1" = .ok mfU0U1 := by eval_update

end SMD.NV

namespace SMD.NV
open SMD.FW SetTrie
theorem w_valid_d8cfg1 : validateV sc false rootTR d8cfg1 = .ok () := by with_unfolding_all rfl
theorem w_valid_objX2 : validateV sc false rootTR objX2 = .ok () := by with_unfolding_all rfl
end SMD.NV
