import SMD.Proofs.ValidateExact
import SMD.Proofs.MergeLaws
import SMD.Proofs.CompareLaws
set_option linter.unusedSimpArgs false
namespace SMD

/-! ### members of an accepted list are accepted (whatever the element relationship) -/

theorem validateItems_mem (s : Schema) (d : Bool) (t : ListT) :
    ∀ (l : List Value) (seen : List PE) (i : Nat), validateItems s d t seen i l = .ok () →
      ∀ c ∈ l, validateV s d t.elementType c = .ok ()
  | [], _, _ => by intro _ c hc; cases hc
  | child :: rest, seen, i => by
    rw [validateItems]
    intro h c hc
    split at h
    · split at h
      · next hv =>
        rcases List.mem_cons.1 hc with rfl | hc
        · exact hv
        · exact validateItems_mem s d t rest _ _ h c hc
      · next hne => exact absurd h (by intro h'; exact hne _ h')
    · split at h
      · split at h
        · cases h
        · split at h
          · next hv =>
            rcases List.mem_cons.1 hc with rfl | hc
            · exact hv
            · exact validateItems_mem s d t rest _ _ h c hc
          · next hne => exact absurd h (by intro h'; exact hne _ h')
      · cases h
      · cases h

/-! ### the field-set walker succeeds on accepted values -/

mutual
theorem fsV_total (s : Schema) : ∀ (v : Value) (tr : TypeRef),
    validateV s true tr v = .ok () → ∃ ps, fsV s tr v = .ok ps
  | .null, tr => by
    intro h
    simp only [validateV] at h
    simp only [fsV]
    split at h <;> simp_all <;> split <;> simp
  | .bool b, tr => by
    intro h
    simp only [validateV] at h
    simp only [fsV]
    split at h <;> simp_all <;> split <;> simp
  | .int b, tr => by
    intro h
    simp only [validateV] at h
    simp only [fsV]
    split at h <;> simp_all <;> split <;> simp
  | .float b z, tr => by
    intro h
    simp only [validateV] at h
    simp only [fsV]
    split at h <;> simp_all <;> split <;> simp
  | .str b, tr => by
    intro h
    simp only [validateV] at h
    simp only [fsV]
    split at h <;> simp_all <;> split <;> simp
  | .list l, tr => by
    intro h
    simp only [validateV] at h
    simp only [fsV]
    split at h
    · cases h
    · cases h
    · next hk => simp [hk]
    · next t hk =>
      split
      · exact ⟨_, rfl⟩
      · obtain ⟨ps, hps⟩ := fsItems_total s l t (dupMarks s t [] [] l) (validateItems_mem s true t l _ _ h)
        rw [hps]
        exact ⟨_, rfl⟩
    · cases h
  | .map m, tr => by
    intro h
    simp only [validateV] at h
    simp only [fsV]
    split at h
    · cases h
    · cases h
    · next hk => simp [hk]
    · cases h
    · next t hk =>
      split
      · exact ⟨_, rfl⟩
      · exact fsFields_total s m t (validateFields_mem s true t m h)
theorem fsItems_total (s : Schema) : ∀ (l : List Value) (t : ListT) (dups : List PE),
    (∀ c ∈ l, validateV s true t.elementType c = .ok ()) → ∃ ps, fsItems s t dups l = .ok ps
  | [], t, dups => by intro _; exact ⟨_, rfl⟩
  | child :: rest, t, dups => by
    intro h
    obtain ⟨p1, h1⟩ := fsV_total s child t.elementType (h child List.mem_cons_self)
    obtain ⟨p2, h2⟩ := fsItems_total s rest t dups (fun c hc => h c (List.mem_cons_of_mem _ hc))
    unfold fsItems
    simp only [h1, h2]
    split <;> split <;> exact ⟨_, rfl⟩
theorem fsFields_total (s : Schema) : ∀ (m : List (String × Value)) (t : MapT),
    (∀ x ∈ m, validateV s true (fieldType t x.1) x.2 = .ok ()) → ∃ ps, fsFields s t m = .ok ps
  | [], t => by intro _; exact ⟨_, rfl⟩
  | (k, v) :: rest, t => by
    intro h
    obtain ⟨p1, h1⟩ := fsV_total s v (fieldType t k) (h (k, v) List.mem_cons_self)
    obtain ⟨p2, h2⟩ := fsFields_total s rest t (fun c hc => h c (List.mem_cons_of_mem _ hc))
    unfold fsFields
    simp only [h1, h2]
    exact ⟨_, rfl⟩
end

/-! ### kinds of deduced atoms -/

theorem atomKind_deduce_list_inv (a : Atom) (y : Option Value) (t : ListT)
    (h : atomKind (deduceAtom a y) = .list t) : a.list = some t := by
  obtain ⟨sc, li, mp⟩ := a
  cases y with
  | none => cases sc <;> cases li <;> cases mp <;> simp_all [deduceAtom, atomKind, Atom.list, Atom.map, Atom.scalar]
  | some v =>
    cases v <;> cases sc <;> cases li <;> cases mp <;>
      simp_all [deduceAtom, atomKind, Atom.list, Atom.map, Atom.scalar, Value.isScalar, Value.isList, Value.isMap]

theorem atomKind_deduce_map_inv (a : Atom) (y : Option Value) (t : MapT)
    (h : atomKind (deduceAtom a y) = .map t) : a.map = some t := by
  obtain ⟨sc, li, mp⟩ := a
  cases y with
  | none => cases sc <;> cases li <;> cases mp <;> simp_all [deduceAtom, atomKind, Atom.list, Atom.map, Atom.scalar]
  | some v =>
    cases v <;> cases sc <;> cases li <;> cases mp <;>
      simp_all [deduceAtom, atomKind, Atom.list, Atom.map, Atom.scalar, Value.isScalar, Value.isList, Value.isMap]

theorem atomKind_deduce_list (a : Atom) (l : List Value) (t : ListT) (h : a.list = some t) :
    atomKind (deduceAtom a (some (.list l))) = .list t := by
  obtain ⟨sc, li, mp⟩ := a
  simp only [Atom.list] at h
  subst h
  simp [deduceAtom, atomKind, Atom.list, Atom.map, Atom.scalar, Value.isScalar, Value.isList]

theorem atomKind_deduce_map (a : Atom) (m : List (String × Value)) (t : MapT) (h : a.map = some t) :
    atomKind (deduceAtom a (some (.map m))) = .map t := by
  obtain ⟨sc, li, mp⟩ := a
  simp only [Atom.map] at h
  subst h
  simp [deduceAtom, atomKind, Atom.list, Atom.map, Atom.scalar, Value.isScalar, Value.isList, Value.isMap]

/-- what a successful validation says, by kind (with the scalar check) -/
def ValidView2 (s : Schema) (d : Bool) (v : Value) : AtomKind → Prop
  | .invalid => False
  | .scalar t => validateScalar t (some v) = true
  | .list t => ∀ l, v = .list l → validateItems s d t [] 0 l = .ok ()
  | .map t => ∀ m, v = .map m → validateFields s d t m = .ok ()

theorem validateV_view2 (s : Schema) (d : Bool) (tr : TypeRef) (v : Value) (h : validateV s d tr v = .ok ()) :
    ∃ a, s.resolve tr = some a ∧ ValidView2 s d v (atomKind (deduceAtom a (some v))) := by
  cases hres : s.resolve tr with
  | none => cases v <;> simp [validateV, resolveKind, hres] at h
  | some a =>
    refine ⟨a, rfl, ?_⟩
    cases v <;> simp only [validateV, resolveKind, hres, Option.map_some] at h <;>
      split at h <;> simp_all [ValidView2]

/-- an operand that, when present, is accepted and has indexable lists -/
def OptValid (s : Schema) (d : Bool) (tr : TypeRef) (x : Option Value) : Prop :=
  ∀ v, x = some v → validateV s d tr v = .ok () ∧ listsAssociative s tr v = true

/-- what the handler of kind `k` needs to know about one operand -/
def SideOK (s : Schema) (d : Bool) (k : AtomKind) (x : Option Value) : Prop :=
  match k with
  | .list t => ∀ xl, x = some (.list xl) → t.rel ≠ "atomic" → xl ≠ [] →
      t.rel = "associative" ∧ validateItems s d t [] 0 xl = .ok () ∧ listsAssociativeItems s t.elementType xl = true
  | .map t => ∀ xm, x = some (.map xm) → t.rel ≠ "atomic" →
      validateFields s d t xm = .ok () ∧ listsAssociativeFields s t xm = true
  | _ => True

theorem sideOK_of_valid (s : Schema) (d : Bool) (tr : TypeRef) (a : Atom) (hres : s.resolve tr = some a)
    (x : Option Value) (hx : OptValid s d tr x) (y : Option Value) :
    SideOK s d (atomKind (deduceAtom a y)) x := by
  cases hk : atomKind (deduceAtom a y) with
  | invalid => trivial
  | scalar t => trivial
  | list t =>
    intro xl hxl hrel hne
    obtain ⟨hv, ha⟩ := hx _ hxl
    have hk' := atomKind_deduce_list a xl t (atomKind_deduce_list_inv a y t hk)
    obtain ⟨a', hres', hview⟩ := validateV_view2 s d tr _ hv
    rw [hres] at hres'
    cases hres'
    rw [hk'] at hview
    rcases listsAssociative_list s tr a xl t hres hk' ha with h | h | h
    · exact absurd h hrel
    · exact absurd h hne
    · exact ⟨h.1, hview xl rfl, h.2⟩
  | map t =>
    intro xm hxm hrel
    obtain ⟨hv, ha⟩ := hx _ hxm
    have hk' := atomKind_deduce_map a xm t (atomKind_deduce_map_inv a y t hk)
    obtain ⟨a', hres', hview⟩ := validateV_view2 s d tr _ hv
    rw [hres] at hres'
    cases hres'
    rw [hk'] at hview
    rcases listsAssociative_map s tr a xm t hres hk' ha with h | h
    · exact absurd h hrel
    · exact ⟨hview xm rfl, h⟩

/-- a child operand: accepted, indexable, and shallow enough -/
def ChildOK (s : Schema) (d : Bool) (n : Nat) (tr : TypeRef) (c : Value) : Prop :=
  validateV s d tr c = .ok () ∧ listsAssociative s tr c = true ∧ c.depth ≤ n

theorem Value.depth_pos (v : Value) : 1 ≤ v.depth := by
  cases v <;> simp [Value.depth]

theorem items_of_sideOK (s : Schema) (d : Bool) (t : ListT) (x : Option Value)
    (h : SideOK s d (.list t) x) (hrel : t.rel ≠ "atomic") :
    (∀ c ∈ (asList x).getD [], (∃ pe, listItemToPE s t c = .ok pe) ∧ ChildOK s d (optDepth x - 1) t.elementType c) ∧
    (∀ xl, asList x = some xl → xl ≠ [] → t.rel = "associative" ∧ validateItems s d t [] 0 xl = .ok ()) := by
  cases x with
  | none => simp [asList]
  | some v =>
    cases v with
    | list xl =>
      simp only [asList, Option.getD_some, Option.some.injEq, optDepth, Value.depth, Nat.add_sub_cancel]
      by_cases hne : xl = []
      · subst hne; simp
      · obtain ⟨hassoc, hval, hla⟩ := h xl rfl hrel hne
        have hmem := validateItems_assoc s d t hassoc xl [] 0 hval
        refine ⟨fun c hc => ⟨(hmem c hc).1, (hmem c hc).2, listsAssociativeItems_mem s _ xl hla c hc,
          depthList_mem xl c hc⟩, ?_⟩
        rintro _ rfl _
        exact ⟨hassoc, hval⟩
    | _ => simp [asList]

theorem lookupField_mem (k : String) : ∀ (m : List (String × Value)) (v : Value),
    lookupField k m = some v → (k, v) ∈ m
  | [], v, h => by cases h
  | (k', w) :: rest, v, h => by
    simp only [lookupField] at h
    split at h
    · next hk =>
      have : k = k' := by simpa using hk
      cases h; subst this; exact List.mem_cons_self
    · exact List.mem_cons_of_mem _ (lookupField_mem k rest v h)

theorem fields_of_sideOK (s : Schema) (d : Bool) (t : MapT) (x : Option Value)
    (h : SideOK s d (.map t) x) (hrel : t.rel ≠ "atomic") :
    ∀ k v, lookupField k ((asMap x).getD []) = some v → ChildOK s d (optDepth x - 1) (fieldType t k) v := by
  cases x with
  | none => simp [asMap, lookupField]
  | some w =>
    cases w with
    | map xm =>
      simp only [asMap, Option.getD_some, optDepth, Value.depth, Nat.add_sub_cancel]
      obtain ⟨hval, hla⟩ := h xm rfl hrel
      intro k v hkv
      have hmem := lookupField_mem k xm v hkv
      exact ⟨validateFields_mem s d t xm hval _ hmem, listsAssociativeFields_mem s t xm hla _ hmem,
        depthFields_mem xm _ hmem⟩
    | _ => simp [asMap, lookupField]

/-! ### the comparison walker succeeds on accepted operands -/

theorem foldl_res_ok {α β : Type} (step : Res β → α → Res β) :
    ∀ (xs : List α), (∀ x ∈ xs, ∀ c, ∃ c', step (.ok c) x = .ok c') → ∀ c, ∃ c', xs.foldl step (.ok c) = .ok c'
  | [], _, c => ⟨c, rfl⟩
  | x :: xs, h, c => by
    obtain ⟨c1, h1⟩ := h x List.mem_cons_self c
    simp only [List.foldl_cons, h1]
    exact foldl_res_ok step xs (fun y hy => h y (List.mem_cons_of_mem _ hy)) c1

/-- the groups are non-empty lists of items, and every recorded element has a group -/
def GroupsOK (P : Value → Prop) (m : List (PE × List Value)) : Prop :=
  ∀ q lst, pemGet q m = some lst → lst ≠ [] ∧ ∀ x ∈ lst, P x

theorem groupItems_ok (s : Schema) (t : ListT) (P : Value → Prop) :
    ∀ (items : List Value) (m : List (PE × List Value)) (order : List PE),
      (∀ c ∈ items, (∃ pe, listItemToPE s t c = .ok pe) ∧ P c) → GroupsOK P m →
      (∀ q ∈ order, (pemGet q m).isSome = true) →
      ∃ m' order', groupItems s t items m order = .ok (m', order') ∧ GroupsOK P m' ∧
        (∀ q ∈ order', (pemGet q m').isSome = true)
  | [], m, order, _, hm, ho => ⟨m, order.reverse, rfl, hm, fun q hq => ho q (List.mem_reverse.1 hq)⟩
  | item :: rest, m, order, hi, hm, ho => by
    obtain ⟨⟨pe, hpe⟩, hP⟩ := hi item List.mem_cons_self
    have hrest : ∀ c ∈ rest, (∃ pe, listItemToPE s t c = .ok pe) ∧ P c :=
      fun c hc => hi c (List.mem_cons_of_mem _ hc)
    rw [groupItems, hpe]
    simp only []
    cases hg : pemGet pe m with
    | some lst =>
      simp only []
      apply groupItems_ok s t P rest _ _ hrest
      · intro q l' hq
        rw [pemGet_pemInsert] at hq
        split at hq
        · cases hq
          refine ⟨by simp, ?_⟩
          intro x hx
          rcases List.mem_append.1 hx with hx | hx
          · exact (hm pe lst hg).2 x hx
          · simp only [List.mem_singleton] at hx; subst hx; exact hP
        · exact hm q l' hq
      · intro q hq
        rw [pemGet_pemInsert]
        split
        · rfl
        · exact ho q hq
    | none =>
      simp only []
      apply groupItems_ok s t P rest _ _ hrest
      · intro q l' hq
        rw [pemGet_pemInsert] at hq
        split at hq
        · cases hq
          refine ⟨by simp, ?_⟩
          intro x hx
          simp only [List.mem_singleton] at hx; subst hx; exact hP
        · exact hm q l' hq
      · intro q hq
        rw [pemGet_pemInsert]
        rcases List.mem_cons.1 hq with rfl | hq
        · simp [PE.equals_refl]
        · split
          · rfl
          · exact ho q hq

theorem head?_mem' {α : Type} : ∀ (l : List α) (v : α), l.head? = some v → v ∈ l
  | [], _, h => by cases h
  | x :: _, v, h => by simp only [List.head?_cons, Option.some.injEq] at h; subst h; exact List.mem_cons_self

theorem cmpListStep_ok (rec : CmpRec) (t : ListT) (lv rv : List (PE × List Value)) (PL PR : Value → Prop)
    (hrec : ∀ lc rc, (lc.isSome = true ∨ rc.isSome = true) → (∀ v, lc = some v → PL v) →
      (∀ v, rc = some v → PR v) → ∃ c, rec lc rc t.elementType = .ok c)
    (hl : GroupsOK PL lv) (hr : GroupsOK PR rv)
    (pe : PE) (hpe : (pemGet pe lv).isSome = true ∨ (pemGet pe rv).isSome = true) (c : Cmp) :
    ∃ c', cmpListStep rec t lv rv (.ok c) pe = .ok c' := by
  have hitem : ∀ lc rc, (lc.isSome = true ∨ rc.isSome = true) → (∀ v, lc = some v → PL v) →
      (∀ v, rc = some v → PR v) → ∃ ci, cmpItem rec t pe lc rc = .ok ci := by
    intro lc rc h1 h2 h3
    obtain ⟨ci, hci⟩ := hrec lc rc h1 h2 h3
    refine ⟨ci.pre pe, ?_⟩
    simp only [cmpItem, hci]
  have hL : ∃ L, (pemGet pe lv).getD [] = L ∧ (∀ x ∈ L, PL x) ∧ ((pemGet pe lv).isSome = true → L ≠ []) := by
    cases hg : pemGet pe lv with
    | none => exact ⟨[], rfl, by simp, by simp⟩
    | some lst => exact ⟨lst, rfl, (hl pe lst hg).2, fun _ => (hl pe lst hg).1⟩
  have hR : ∃ R, (pemGet pe rv).getD [] = R ∧ (∀ x ∈ R, PR x) ∧ ((pemGet pe rv).isSome = true → R ≠ []) := by
    cases hg : pemGet pe rv with
    | none => exact ⟨[], rfl, by simp, by simp⟩
    | some lst => exact ⟨lst, rfl, (hr pe lst hg).2, fun _ => (hr pe lst hg).1⟩
  obtain ⟨L, hLe, hLP, hLn⟩ := hL
  obtain ⟨R, hRe, hRP, hRn⟩ := hR
  have hne : L ≠ [] ∨ R ≠ [] := hpe.imp hLn hRn
  have hLh : ∀ v, L.head? = some v → PL v := fun v hv => hLP v (head?_mem' L v hv)
  have hRh : ∀ v, R.head? = some v → PR v := fun v hv => hRP v (head?_mem' R v hv)
  unfold cmpListStep
  simp only [hLe, hRe]
  split
  · obtain ⟨ci, hci⟩ := hitem L.head? R.head?
      (by cases L <;> cases R <;> simp_all) hLh hRh
    rw [hci]; exact ⟨_, rfl⟩
  · split
    · split <;> exact ⟨_, rfl⟩
    · split
      · by_cases hRem : R.isEmpty = true
        · simp only [hRem, if_true]; exact ⟨_, rfl⟩
        · obtain ⟨ci, hci⟩ := hitem none R.head? (by cases R <;> simp_all) (by simp) hRh
          simp only [hRem, if_false, hci]; exact ⟨_, rfl⟩
      · by_cases hLem : L.isEmpty = true
        · simp only [hLem, if_true]; exact ⟨_, rfl⟩
        · obtain ⟨ci, hci⟩ := hitem L.head? none (by cases L <;> simp_all) hLh (by simp)
          simp only [hLem, if_false, hci]; exact ⟨_, rfl⟩

theorem lookupField_isSome_of_mem (k : String) : ∀ (m : List (String × Value)),
    k ∈ m.map (·.1) → (lookupField k m).isSome = true
  | [], h => by cases h
  | (k', w) :: rest, h => by
    simp only [lookupField]
    split
    · rfl
    · next hk =>
      simp only [List.map_cons, List.mem_cons] at h
      rcases h with h | h
      · subst h; simp at hk
      · exact lookupField_isSome_of_mem k rest h

theorem zipKeys_isSome (l r : List (String × Value)) (k : String) (hk : k ∈ zipKeys l r) :
    (lookupField k l).isSome = true ∨ (lookupField k r).isSome = true := by
  unfold zipKeys at hk
  rcases List.mem_append.1 hk with h | h
  · exact Or.inl (lookupField_isSome_of_mem k l h)
  · right
    apply lookupField_isSome_of_mem
    obtain ⟨x, hx, rfl⟩ := List.mem_map.1 h
    exact List.mem_map_of_mem (List.mem_filter.1 hx).1

/-- the hypothesis on the recursive call, at depth budget `n` -/
def CmpRecOK (s : Schema) (rec : CmpRec) (n : Nat) : Prop :=
  ∀ (lc rc : Option Value) (tr : TypeRef), (lc.isSome = true ∨ rc.isSome = true) →
    OptValid s true tr lc → OptValid s true tr rc → optDepth lc + optDepth rc < n → ∃ c, rec lc rc tr = .ok c

theorem optDepth_pos_of_isSome (x : Option Value) (h : x.isSome = true) : 1 ≤ optDepth x := by
  cases x with
  | none => cases h
  | some v => exact Value.depth_pos v

theorem cmpHandle_ok (s : Schema) (rec : CmpRec) (n : Nat) (hrec : CmpRecOK s rec n)
    (l r : Option Value) (atom : Atom) (hsome : l.isSome = true ∨ r.isSome = true)
    (hinv : atomKind atom ≠ .invalid)
    (hsc : ∀ t, atomKind atom = .scalar t → validateScalar t l = true ∨ validateScalar t r = true)
    (hsl : SideOK s true (atomKind atom) l) (hsr : SideOK s true (atomKind atom) r)
    (hd : optDepth l + optDepth r < n + 1) :
    ∃ p, cmpHandle s rec l r atom = .ok p := by
  have hpos : 1 ≤ optDepth l ∨ 1 ≤ optDepth r := hsome.imp (optDepth_pos_of_isSome l) (optDepth_pos_of_isSome r)
  unfold cmpHandle
  split
  · next hk => exact absurd hk hinv
  · next t hk =>
    rcases hsc t hk with h | h <;> simp [h]
  · next t hk =>
    rw [hk] at hsl hsr
    simp only []
    split
    · exact ⟨_, rfl⟩
    · next hcond =>
      simp only [Bool.or_eq_true, beq_iff_eq, not_or] at hcond
      obtain ⟨hil, _⟩ := items_of_sideOK s true t l hsl hcond.1
      obtain ⟨hir, _⟩ := items_of_sideOK s true t r hsr hcond.1
      obtain ⟨lv, lorder, hgl, hlv, hlo⟩ := groupItems_ok s t (ChildOK s true (optDepth l - 1) t.elementType)
        ((asList l).getD []) [] [] hil (by intro q lst h; cases h) (by intro q h; cases h)
      obtain ⟨rv, rorder, hgr, hrv, hro⟩ := groupItems_ok s t (ChildOK s true (optDepth r - 1) t.elementType)
        ((asList r).getD []) [] [] hir (by intro q lst h; cases h) (by intro q h; cases h)
      rw [hgl]
      simp only []
      rw [hgr]
      simp only []
      obtain ⟨c', hc'⟩ := foldl_res_ok (cmpListStep rec t lv rv)
        (lorder ++ rorder.filter (fun pe => (pemGet pe lv).isNone)) (by
          intro pe hpe c
          apply cmpListStep_ok rec t lv rv _ _ ?_ hlv hrv pe ?_ c
          · intro lc rc h1 h2 h3
            apply hrec lc rc t.elementType h1
            · intro v hv; exact ⟨(h2 v hv).1, (h2 v hv).2.1⟩
            · intro v hv; exact ⟨(h3 v hv).1, (h3 v hv).2.1⟩
            · have e1 : optDepth lc ≤ optDepth l - 1 := by
                cases lc with
                | none => simp [optDepth]
                | some v => exact (h2 v rfl).2.2
              have e2 : optDepth rc ≤ optDepth r - 1 := by
                cases rc with
                | none => simp [optDepth]
                | some v => exact (h3 v rfl).2.2
              omega
          · rcases List.mem_append.1 hpe with h | h
            · exact Or.inl (hlo pe h)
            · exact Or.inr (hro pe (List.mem_filter.1 h).1)) {}
      rw [hc']
      exact ⟨_, rfl⟩
  · next t hk =>
    rw [hk] at hsl hsr
    simp only []
    split
    · exact ⟨_, rfl⟩
    · next hcond =>
      simp only [Bool.or_eq_true, beq_iff_eq, not_or] at hcond
      have hfl := fields_of_sideOK s true t l hsl hcond.1
      have hfr := fields_of_sideOK s true t r hsr hcond.1
      obtain ⟨c', hc'⟩ := foldl_res_ok (cmpMapStep rec t ((asMap l).getD []) ((asMap r).getD []))
        (zipKeys ((asMap l).getD []) ((asMap r).getD [])) (by
          intro k hk c
          obtain ⟨ci, hci⟩ := hrec (lookupField k ((asMap l).getD [])) (lookupField k ((asMap r).getD []))
            (fieldType t k) (zipKeys_isSome _ _ k hk)
            (fun v hv => ⟨(hfl k v hv).1, (hfl k v hv).2.1⟩)
            (fun v hv => ⟨(hfr k v hv).1, (hfr k v hv).2.1⟩) (by
              have e1 : optDepth (lookupField k ((asMap l).getD [])) ≤ optDepth l - 1 := by
                cases hv : lookupField k ((asMap l).getD []) with
                | none => simp [optDepth]
                | some v => exact (hfl k v hv).2.2
              have e2 : optDepth (lookupField k ((asMap r).getD [])) ≤ optDepth r - 1 := by
                cases hv : lookupField k ((asMap r).getD []) with
                | none => simp [optDepth]
                | some v => exact (hfr k v hv).2.2
              omega)
          refine ⟨c ++ ci.pre (.field k), ?_⟩
          simp only [cmpMapStep, hci]) {}
      rw [hc']
      exact ⟨_, rfl⟩

/-- kind facts for the atom deduced from an accepted operand -/
theorem kind_of_valid (s : Schema) (d : Bool) (tr : TypeRef) (a : Atom) (v : Value)
    (hres : s.resolve tr = some a) (hv : validateV s d tr v = .ok ()) :
    atomKind (deduceAtom a (some v)) ≠ .invalid ∧
      ∀ t, atomKind (deduceAtom a (some v)) = .scalar t → validateScalar t (some v) = true := by
  obtain ⟨a', hres', hview⟩ := validateV_view2 s d tr v hv
  rw [hres] at hres'
  cases hres'
  constructor
  · intro h; rw [h] at hview; exact hview
  · intro t h; rw [h] at hview; exact hview

theorem cmpFinish_ok (l r : Option Value) (h : Res (Cmp × Bool)) (hh : ∃ p, h = .ok p) :
    ∃ c, cmpFinish l r h = .ok c := by
  obtain ⟨⟨c, leaf⟩, rfl⟩ := hh
  unfold cmpFinish
  simp only []
  split
  · split
    · exact ⟨_, rfl⟩
    · split <;> exact ⟨_, rfl⟩
  · exact ⟨_, rfl⟩

theorem cmpNode_ok (s : Schema) : ∀ (fuel : Nat), CmpRecOK s (cmpNode s fuel) fuel := by
  intro fuel
  induction fuel with
  | zero => intro l r tr _ _ _ h; exact absurd h (Nat.not_lt_zero _)
  | succ n ih =>
    intro l r tr hsome hl hr hd
    have hres : ∃ a, s.resolve tr = some a := by
      rcases hsome with h | h
      · obtain ⟨v, rfl⟩ := Option.isSome_iff_exists.1 h
        obtain ⟨a, ha, _⟩ := validateV_view2 s true tr v (hl v rfl).1
        exact ⟨a, ha⟩
      · obtain ⟨v, rfl⟩ := Option.isSome_iff_exists.1 h
        obtain ⟨a, ha, _⟩ := validateV_view2 s true tr v (hr v rfl).1
        exact ⟨a, ha⟩
    obtain ⟨a, hres⟩ := hres
    rw [cmpNode_succ]
    have hnn : (l.isNone && r.isNone) = false := by
      cases l <;> cases r <;> simp_all
    simp only [hnn, Bool.false_eq_true, if_false, hres]
    apply cmpFinish_ok
    have hH : ∀ y, SideOK s true (atomKind (deduceAtom a y)) l ∧ SideOK s true (atomKind (deduceAtom a y)) r :=
      fun y => ⟨sideOK_of_valid s true tr a hres l hl y, sideOK_of_valid s true tr a hres r hr y⟩
    have hHl : ∀ v, l = some v → ∃ p, cmpHandle s (cmpNode s n) l r (deduceAtom a l) = .ok p := by
      intro v hv
      subst hv
      obtain ⟨k1, k2⟩ := kind_of_valid s true tr a v hres (hl v rfl).1
      exact cmpHandle_ok s _ n ih _ r _ hsome k1 (fun t ht => Or.inl (k2 t ht)) (hH _).1 (hH _).2 hd
    have hHr : ∀ v, r = some v → ∃ p, cmpHandle s (cmpNode s n) l r (deduceAtom a r) = .ok p := by
      intro v hv
      subst hv
      obtain ⟨k1, k2⟩ := kind_of_valid s true tr a v hres (hr v rfl).1
      exact cmpHandle_ok s _ n ih l _ _ hsome k1 (fun t ht => Or.inr (k2 t ht)) (hH _).1 (hH _).2 hd
    unfold cmpHandled
    simp only []
    cases r with
    | none =>
      cases l with
      | none => simp at hsome
      | some v => simpa using hHl v rfl
    | some rv =>
      cases l with
      | none => simpa using hHr rv rfl
      | some lv =>
        simp only [Option.isNone_some, Bool.false_eq_true, if_false, Bool.false_or]
        split
        · exact hHr rv rfl
        · obtain ⟨⟨c1, b1⟩, h1⟩ := hHl lv rfl
          obtain ⟨⟨c2, b2⟩, h2⟩ := hHr rv rfl
          rw [h1]
          simp only []
          rw [h2]
          exact ⟨_, rfl⟩

/-! ### the interleaving loop, one iteration -/

def pushOut (o : Option Value) (out : List Value) : List Value :=
  match o with
  | some v => v :: out
  | none => out

abbrev MergeItem := PE → Option Value → Option Value → Res (Option Value)

theorem mergeLoop_nil_cons (item : MergeItem) (obsL obsR : List (PE × Value)) (steps : Nat)
    (rpe : PE) (rs' : List PE) (shared merged : List PE) (out : List Value) :
    mergeLoop item obsL obsR (steps + 1) [] (rpe :: rs') shared merged out =
      match item rpe (pemGet rpe obsL) (pemGet rpe obsR) with
      | .ok o => mergeLoop item obsL obsR steps [] rs' (dropHeadIf shared rpe) (peInsert rpe merged) (pushOut o out)
      | .err => .err
      | .panic => .panic := by
  rfl

theorem mergeLoop_cons_nil (item : MergeItem) (obsL obsR : List (PE × Value)) (steps : Nat)
    (pe : PE) (x : Value) (ls' : List (PE × Value)) (shared merged : List PE) (out : List Value) :
    mergeLoop item obsL obsR (steps + 1) ((pe, x) :: ls') [] shared merged out =
      if (pemGet pe obsR).isNone then
        match item pe (some x) none with
        | .ok o => mergeLoop item obsL obsR steps ls' [] shared merged (pushOut o out)
        | .err => .err
        | .panic => .panic
      else if peHas pe merged then mergeLoop item obsL obsR steps ls' [] shared merged out
      else mergeLoop item obsL obsR steps ((pe, x) :: ls') [] shared merged out := by
  rfl

theorem mergeLoop_cons_cons (item : MergeItem) (obsL obsR : List (PE × Value)) (steps : Nat)
    (pe : PE) (x : Value) (ls' : List (PE × Value)) (rpe : PE) (rs' : List PE)
    (shared merged : List PE) (out : List Value) :
    mergeLoop item obsL obsR (steps + 1) ((pe, x) :: ls') (rpe :: rs') shared merged out =
      if PE.equals pe rpe then
        match item pe (pemGet pe obsL) (pemGet pe obsR) with
        | .ok o => mergeLoop item obsL obsR steps ls' rs' shared.tail (peInsert pe merged) (pushOut o out)
        | .err => .err
        | .panic => .panic
      else if (pemGet pe obsR).isSome && !shared.isEmpty && !(PE.equals (shared.headD .invalid) pe) then
        mergeLoop item obsL obsR steps ls' (rpe :: rs') shared merged out
      else if (pemGet pe obsR).isNone then
        match item pe (some x) none with
        | .ok o => mergeLoop item obsL obsR steps ls' (rpe :: rs') shared merged (pushOut o out)
        | .err => .err
        | .panic => .panic
      else if peHas pe merged then
        match item rpe (pemGet rpe obsL) (pemGet rpe obsR) with
        | .ok o => mergeLoop item obsL obsR steps ls' rs' (dropHeadIf shared rpe) (peInsert rpe merged) (pushOut o out)
        | .err => .err
        | .panic => .panic
      else
        match item rpe (pemGet rpe obsL) (pemGet rpe obsR) with
        | .ok o => mergeLoop item obsL obsR steps ((pe, x) :: ls') rs' (dropHeadIf shared rpe) (peInsert rpe merged) (pushOut o out)
        | .err => .err
        | .panic => .panic := by
  rfl

/-- every element indexed on the right is merged already or still waits in `rs` -/
def RsInv (obsR : List (PE × Value)) (rs merged : List PE) : Prop :=
  ∀ q, (pemGet q obsR).isSome = true → peHas q merged = true ∨ rs.any (fun x => PE.equals x q) = true

theorem rsInv_step (obsR : List (PE × Value)) (pe rpe : PE) (rs' merged : List PE)
    (h : RsInv obsR (rpe :: rs') merged) (he : PE.equals pe rpe = true) :
    RsInv obsR rs' (peInsert pe merged) := by
  intro q hq
  rw [peHas_peInsert]
  rcases h q hq with h | h
  · left; simp [h]
  · simp only [List.any_cons, Bool.or_eq_true] at h
    rcases h with h | h
    · left; simp [PE.equals_trans he h]
    · exact Or.inr h

theorem mergeLoop_ok (item : MergeItem) (obsL obsR : List (PE × Value)) (PL : Value → Prop)
    (H1 : ∀ q, (pemGet q obsL).isSome = true ∨ (pemGet q obsR).isSome = true →
      ∃ v, item q (pemGet q obsL) (pemGet q obsR) = .ok (some v))
    (H3 : ∀ q x, PL x → ∃ v, item q (some x) none = .ok (some v)) :
    ∀ (steps : Nat) (ls : List (PE × Value)) (rs shared merged : List PE) (out : List Value),
      (∀ p ∈ ls, PL p.2 ∧ (pemGet p.1 obsL).isSome = true) →
      (∀ q ∈ rs, (pemGet q obsR).isSome = true) → RsInv obsR rs merged →
      ls.length + rs.length ≤ steps →
      ∃ res, mergeLoop item obsL obsR steps ls rs shared merged out = .ok res ∧
        ((out ≠ [] ∨ rs ≠ [] ∨ (ls ≠ [] ∧ obsR = [])) → res ≠ []) := by
  intro steps
  induction steps with
  | zero =>
    intro ls rs shared merged out _ _ _ hlen
    have h1 : ls = [] := List.eq_nil_of_length_eq_zero (by omega)
    have h2 : rs = [] := List.eq_nil_of_length_eq_zero (by omega)
    subst h1 h2
    exact ⟨out.reverse, rfl, by simp⟩
  | succ k ih =>
    intro ls rs shared merged out hls hrs hinv hlen
    cases ls with
    | nil =>
      cases rs with
      | nil => exact ⟨out.reverse, rfl, by simp⟩
      | cons rpe rs' =>
        rw [mergeLoop_nil_cons]
        obtain ⟨v, hv⟩ := H1 rpe (Or.inr (hrs rpe List.mem_cons_self))
        rw [hv]
        simp only [pushOut]
        obtain ⟨res, hres, hne⟩ := ih [] rs' (dropHeadIf shared rpe) (peInsert rpe merged) (v :: out)
          (by intro p hp; cases hp) (fun q hq => hrs q (List.mem_cons_of_mem _ hq))
          (rsInv_step obsR rpe rpe rs' merged hinv (PE.equals_refl rpe)) (by simp at hlen ⊢; omega)
        exact ⟨res, hres, fun _ => hne (Or.inl (by simp))⟩
    | cons p ls' =>
      obtain ⟨pe, x⟩ := p
      have hls' : ∀ p ∈ ls', PL p.2 ∧ (pemGet p.1 obsL).isSome = true :=
        fun p hp => hls p (List.mem_cons_of_mem _ hp)
      obtain ⟨hPLx, hpeL⟩ := hls (pe, x) List.mem_cons_self
      simp only [] at hPLx hpeL
      cases rs with
      | nil =>
        rw [mergeLoop_cons_nil]
        split
        · obtain ⟨v, hv⟩ := H3 pe x hPLx
          rw [hv]
          simp only [pushOut]
          obtain ⟨res, hres, hne⟩ := ih ls' [] shared merged (v :: out) hls' hrs hinv (by simp at hlen ⊢; omega)
          exact ⟨res, hres, fun _ => hne (Or.inl (by simp))⟩
        · next hsome =>
          have hsome' : (pemGet pe obsR).isSome = true := by
            cases h : pemGet pe obsR <;> simp_all
          split
          · obtain ⟨res, hres, hne⟩ := ih ls' [] shared merged out hls' hrs hinv (by simp at hlen ⊢; omega)
            refine ⟨res, hres, fun hN => hne ?_⟩
            rcases hN with h | h | h
            · exact Or.inl h
            · exact absurd rfl h
            · rw [h.2] at hsome'; simp [pemGet] at hsome'
          · next hnm =>
            rcases hinv pe hsome' with h | h
            · exact absurd h hnm
            · simp at h
      | cons rpe rs' =>
        have hrs' : ∀ q ∈ rs', (pemGet q obsR).isSome = true := fun q hq => hrs q (List.mem_cons_of_mem _ hq)
        have hrpeR := hrs rpe List.mem_cons_self
        have hlen' : ls'.length + rs'.length + 2 ≤ k + 1 := by simp at hlen; omega
        rw [mergeLoop_cons_cons]
        split
        · next heq =>
          obtain ⟨v, hv⟩ := H1 pe (Or.inl hpeL)
          rw [hv]
          simp only [pushOut]
          obtain ⟨res, hres, hne⟩ := ih ls' rs' shared.tail (peInsert pe merged) (v :: out) hls' hrs'
            (rsInv_step obsR pe rpe rs' merged hinv heq) (by omega)
          exact ⟨res, hres, fun _ => hne (Or.inl (by simp))⟩
        · split
          · obtain ⟨res, hres, hne⟩ := ih ls' (rpe :: rs') shared merged out hls' hrs hinv (by simp; omega)
            exact ⟨res, hres, fun _ => hne (Or.inr (Or.inl (by simp)))⟩
          · split
            · obtain ⟨v, hv⟩ := H3 pe x hPLx
              rw [hv]
              simp only [pushOut]
              obtain ⟨res, hres, hne⟩ := ih ls' (rpe :: rs') shared merged (v :: out) hls' hrs hinv (by simp; omega)
              exact ⟨res, hres, fun _ => hne (Or.inl (by simp))⟩
            · obtain ⟨v, hv⟩ := H1 rpe (Or.inr hrpeR)
              have hinv' := rsInv_step obsR rpe rpe rs' merged hinv (PE.equals_refl rpe)
              split
              · rw [hv]
                simp only [pushOut]
                obtain ⟨res, hres, hne⟩ := ih ls' rs' (dropHeadIf shared rpe) (peInsert rpe merged) (v :: out)
                  hls' hrs' hinv' (by omega)
                exact ⟨res, hres, fun _ => hne (Or.inl (by simp))⟩
              · rw [hv]
                simp only [pushOut]
                obtain ⟨res, hres, hne⟩ := ih ((pe, x) :: ls') rs' (dropHeadIf shared rpe) (peInsert rpe merged)
                  (v :: out) hls hrs' hinv' (by simp; omega)
                exact ⟨res, hres, fun _ => hne (Or.inl (by simp))⟩

/-! ### what the index of a list holds -/

theorem indexPEs_spec (s : Schema) (t : ListT) (d : Bool) :
    ∀ (l : List Value) (pes obs pes' obs' : List (PE × Value)),
      indexPEs s t d l pes obs = .ok (pes', obs') →
      ∃ new, pes' = pes.reverse ++ new ∧ new.map (·.2) = l ∧
        (∀ q, (pemGet q obs').isSome = ((pemGet q obs).isSome || new.any (fun p => PE.equals p.1 q))) ∧
        (∀ q v, pemGet q obs' = some v → pemGet q obs = some v ∨ v ∈ l ∨ (v = .null ∧ l ≠ []))
  | [], pes, obs, pes', obs', h => by
    simp only [indexPEs, Res.ok.injEq, Prod.mk.injEq] at h
    obtain ⟨rfl, rfl⟩ := h
    exact ⟨[], by simp, rfl, by simp, fun q v h => Or.inl h⟩
  | child :: rest, pes, obs, pes', obs', h => by
    rw [indexPEs] at h
    split at h
    · next pe hpe =>
      have key : ∀ w, indexPEs s t d rest ((pe, child) :: pes) (pemInsert pe w obs) = .ok (pes', obs') →
          (w = child ∨ w = .null) →
          ∃ new, pes' = pes.reverse ++ new ∧ new.map (·.2) = child :: rest ∧
            (∀ q, (pemGet q obs').isSome = ((pemGet q obs).isSome || new.any (fun p => PE.equals p.1 q))) ∧
            (∀ q v, pemGet q obs' = some v → pemGet q obs = some v ∨ v ∈ child :: rest ∨
              (v = .null ∧ child :: rest ≠ [])) := by
        intro w hw hww
        obtain ⟨new, e1, e2, e3, e4⟩ := indexPEs_spec s t d rest _ _ _ _ hw
        refine ⟨(pe, child) :: new, by simp [e1], by simp [e2], ?_, ?_⟩
        · intro q
          rw [e3 q, pemGet_pemInsert]
          simp only [List.any_cons]
          by_cases he : PE.equals pe q = true <;> simp [he]
        · intro q v hv
          rcases e4 q v hv with h1 | h1 | h1
          · rw [pemGet_pemInsert] at h1
            split at h1
            · cases h1
              rcases hww with rfl | rfl
              · exact Or.inr (Or.inl List.mem_cons_self)
              · exact Or.inr (Or.inr ⟨rfl, by simp⟩)
            · exact Or.inl h1
          · exact Or.inr (Or.inl (List.mem_cons_of_mem _ h1))
          · exact Or.inr (Or.inr ⟨h1.1, by simp⟩)
      split at h
      · split at h
        · cases h
        · exact key _ h (Or.inr rfl)
      · exact key _ h (Or.inl rfl)
    · cases h
    · cases h

theorem validateV_null_of_valid (s : Schema) (d d' : Bool) (tr : TypeRef) (c : Value)
    (h : validateV s d tr c = .ok ()) : validateV s d' tr .null = .ok () := by
  obtain ⟨a, hres, hview⟩ := validateV_view2 s d tr c h
  rw [validateV_null, hres]
  simp only []
  have : Conf.atomNonEmpty a = true := by
    obtain ⟨sc, li, mp⟩ := a
    cases sc <;> cases li <;> cases mp <;> simp [Conf.atomNonEmpty, Atom.scalar, Atom.list, Atom.map]
    cases c <;> simp [deduceAtom, atomKind, Value.isScalar, Value.isList, Value.isMap, Atom.scalar, Atom.list,
      Atom.map, ValidView2] at hview
  simp [this]

/-! ### the merging walker succeeds on accepted operands -/

def MergeRecOK (s : Schema) (rec : MergeRec) (n : Nat) : Prop :=
  ∀ (lc rc : Option Value) (tr : TypeRef), (lc.isSome = true ∨ rc.isSome = true) →
    OptValid s true tr lc → OptValid s false tr rc → optDepth lc + optDepth rc < n →
    ∃ v, rec lc rc tr = .ok (some v)

theorem keepRHS_some (l r : Option Value) (h : l.isSome = true ∨ r.isSome = true) : ∃ v, keepRHS l r = some v := by
  cases l <;> cases r <;> simp_all [keepRHS]

theorem insertField_ne_nil (e : String × Value) (l : List (String × Value)) : insertField e l ≠ [] := by
  cases l with
  | nil => simp [insertField]
  | cons x xs => simp only [insertField]; split <;> simp

theorem mergeMapStep_foldl_ok (rec : MergeRec) (t : MapT) (lf rf : List (String × Value)) :
    ∀ (ks : List String) (out : List (String × Value)),
      (∀ k ∈ ks, ∃ v, rec (lookupField k lf) (lookupField k rf) (fieldType t k) = .ok (some v)) →
      ∃ out', List.foldl (mergeMapStep rec t lf rf) (.ok out) ks = .ok out' ∧ ((out ≠ [] ∨ ks ≠ []) → out' ≠ [])
  | [], out, _ => ⟨out, rfl, by simp⟩
  | k :: ks, out, h => by
    obtain ⟨v, hv⟩ := h k List.mem_cons_self
    have hstep : mergeMapStep rec t lf rf (.ok out) k = .ok (insertField (k, v) out) := by
      simp only [mergeMapStep, hv]
    obtain ⟨out', h1, h2⟩ := mergeMapStep_foldl_ok rec t lf rf ks (insertField (k, v) out)
      (fun k' hk' => h k' (List.mem_cons_of_mem _ hk'))
    exact ⟨out', by simp only [List.foldl_cons, hstep, h1], fun _ => h2 (Or.inl (insertField_ne_nil _ _))⟩

theorem zipKeys_ne_nil (l r : List (String × Value)) (h : l ≠ [] ∨ r ≠ []) : zipKeys l r ≠ [] := by
  intro hz
  unfold zipKeys at hz
  obtain ⟨h1, h2⟩ := List.append_eq_nil_iff.1 hz
  have hl : l = [] := by simpa using h1
  subst hl
  simp [lookupField] at h2
  cases r with
  | nil => simp at h
  | cons x xs => exact h2 x.1 x.2 List.mem_cons_self

theorem getD_ne_nil_of_not_emptyOrAbsent {α : Type} (a b : Option (List α))
    (h : ¬(emptyOrAbsent a && emptyOrAbsent b) = true) : a.getD [] ≠ [] ∨ b.getD [] ≠ [] :=
  match a, b, h with
  | none, none, h => by simp [emptyOrAbsent] at h
  | none, some y, h => by cases y <;> simp_all [emptyOrAbsent]
  | some x, none, h => by cases x <;> simp_all [emptyOrAbsent]
  | some x, some y, h => by cases x <;> cases y <;> simp_all [emptyOrAbsent]

theorem mergeHandle_ok (s : Schema) (rec : MergeRec) (n : Nat) (hrec : MergeRecOK s rec n)
    (l r : Option Value) (atom : Atom) (hsome : l.isSome = true ∨ r.isSome = true)
    (hinv : atomKind atom ≠ .invalid)
    (hsc : ∀ t, atomKind atom = .scalar t → validateScalar t l = true ∨ validateScalar t r = true)
    (hsl : SideOK s true (atomKind atom) l) (hsr : SideOK s false (atomKind atom) r)
    (hd : optDepth l + optDepth r < n + 1) :
    ∃ v, mergeHandle s rec l r atom = .ok (some v) := by
  obtain ⟨kv, hkv⟩ := keepRHS_some l r hsome
  unfold mergeHandle
  split
  · next hk => exact absurd hk hinv
  · next t hk =>
    rcases hsc t hk with h | h <;> simp [h, hkv]
  · next t hk =>
    rw [hk] at hsl hsr
    simp only []
    split
    · exact ⟨kv, by rw [hkv]⟩
    · next hcond =>
      simp only [Bool.or_eq_true, beq_iff_eq, not_or] at hcond
      obtain ⟨hil, _⟩ := items_of_sideOK s true t l hsl hcond.1
      obtain ⟨hir, hir2⟩ := items_of_sideOK s false t r hsr hcond.1
      have hne := getD_ne_nil_of_not_emptyOrAbsent _ _ hcond.2
      -- the two indexes
      have hR : ∃ rpes obsR, indexPEs s t false ((asList r).getD []) [] [] = .ok (rpes, obsR) ∧
          ((asList r).getD [] = [] → obsR = []) := by
        cases har : asList r with
        | none => exact ⟨[], [], rfl, fun _ => rfl⟩
        | some xl =>
          by_cases hxl : xl = []
          · subst hxl; exact ⟨[], [], rfl, fun _ => rfl⟩
          · obtain ⟨hassoc, hval⟩ := hir2 xl har hxl
            obtain ⟨rpes, obs', h1, _⟩ := indexPEs_nodup_ok s t hassoc xl [] 0 [] [] (by intro q; rfl) hval
            exact ⟨_, _, h1, fun h => absurd h hxl⟩
      obtain ⟨rpes, obsR, hidxR, hobsRnil⟩ := hR
      obtain ⟨lpes, obsL, hidxL, _⟩ := indexPEs_dup_ok s t ((asList l).getD []) [] [] (fun c hc => (hil c hc).1)
      obtain ⟨newR, eR1, eR2, eR3, eR4⟩ := indexPEs_spec s t false _ _ _ _ _ hidxR
      obtain ⟨newL, eL1, eL2, eL3, eL4⟩ := indexPEs_spec s t true _ _ _ _ _ hidxL
      simp only [List.reverse_nil, List.nil_append] at eR1 eL1 hidxL
      subst eR1
      have eL1' : lpes = newL := eL1
      subst eL1'
      rw [hidxR]
      simp only []
      rw [hidxL]
      simp only []
      have hobsL : ∀ q v, pemGet q obsL = some v → ChildOK s true (optDepth l - 1) t.elementType v := by
        intro q v hv
        rcases eL4 q v hv with h | h | h
        · cases h
        · exact (hil v h).2
        · obtain ⟨c, hc⟩ := List.exists_mem_of_ne_nil _ h.2
          obtain ⟨_, hcv, _, hcd⟩ := hil c hc
          rw [h.1]
          exact ⟨validateV_null_of_valid s true true _ c hcv, by simp [listsAssociative],
            by have := Value.depth_pos c; simp only [Value.depth]; omega⟩
      have hobsR : ∀ q v, pemGet q obsR = some v → ChildOK s false (optDepth r - 1) t.elementType v := by
        intro q v hv
        rcases eR4 q v hv with h | h | h
        · cases h
        · exact (hir v h).2
        · obtain ⟨c, hc⟩ := List.exists_mem_of_ne_nil _ h.2
          obtain ⟨_, hcv, _, hcd⟩ := hir c hc
          rw [h.1]
          exact ⟨validateV_null_of_valid s false false _ c hcv, by simp [listsAssociative],
            by have := Value.depth_pos c; simp only [Value.depth]; omega⟩
      obtain ⟨res, hres, hresne⟩ := mergeLoop_ok (fun _ lc rc => rec lc rc t.elementType) obsL obsR
        (ChildOK s true (optDepth l - 1) t.elementType)
        (by
          intro q hq
          apply hrec _ _ _ hq
          · intro v hv; exact ⟨(hobsL q v hv).1, (hobsL q v hv).2.1⟩
          · intro v hv; exact ⟨(hobsR q v hv).1, (hobsR q v hv).2.1⟩
          · have e1 : optDepth (pemGet q obsL) ≤ optDepth l - 1 ∧
                ((pemGet q obsL).isSome = true → 1 ≤ optDepth (pemGet q obsL)) := by
              cases hv : pemGet q obsL with
              | none => simp [optDepth]
              | some v => exact ⟨(hobsL q v hv).2.2, fun _ => Value.depth_pos v⟩
            have e2 : optDepth (pemGet q obsR) ≤ optDepth r - 1 ∧
                ((pemGet q obsR).isSome = true → 1 ≤ optDepth (pemGet q obsR)) := by
              cases hv : pemGet q obsR with
              | none => simp [optDepth]
              | some v => exact ⟨(hobsR q v hv).2.2, fun _ => Value.depth_pos v⟩
            rcases hq with hq | hq
            · have := e1.2 hq; omega
            · have := e2.2 hq; omega)
        (by
          intro q x hx
          apply hrec (some x) none _ (Or.inl rfl)
          · intro v hv; cases hv; exact ⟨hx.1, hx.2.1⟩
          · intro v hv; cases hv
          · have := hx.2.2
            have := Value.depth_pos x
            simp only [optDepth]; omega)
        (lpes.length + (rpes.map (·.1)).length) lpes (rpes.map (·.1))
        ((rpes.map (·.1)).filter (fun pe => (pemGet pe obsL).isSome)) [] []
        (by
          intro p hp
          refine ⟨(hil p.2 (by rw [← eL2]; exact List.mem_map_of_mem hp)).2, ?_⟩
          rw [eL3]
          simp only [pemGet, Option.isSome_none, Bool.false_or, List.any_eq_true]
          exact ⟨p, hp, PE.equals_refl _⟩)
        (by
          intro q hq
          obtain ⟨p, hp, rfl⟩ := List.mem_map.1 hq
          rw [eR3]
          simp only [pemGet, Option.isSome_none, Bool.false_or, List.any_eq_true]
          exact ⟨p, hp, PE.equals_refl _⟩)
        (by
          intro q hq
          right
          rw [eR3] at hq
          simpa [pemGet, List.any_map] using hq)
        (Nat.le_refl _)
      rw [hres]
      have : res ≠ [] := by
        apply hresne
        right
        by_cases hrl : (asList r).getD [] = []
        · right
          refine ⟨?_, hobsRnil hrl⟩
          rcases hne with h | h
          · intro hnl; rw [hnl] at eL2; exact h eL2.symm
          · exact absurd hrl h
        · left
          intro hnl
          have : rpes = [] := by simpa using hnl
          rw [this] at eR2
          exact hrl eR2.symm
      cases res with
      | nil => exact absurd rfl this
      | cons y ys => exact ⟨_, rfl⟩
  · next t hk =>
    rw [hk] at hsl hsr
    simp only []
    split
    · exact ⟨kv, by rw [hkv]⟩
    · next hcond =>
      simp only [Bool.or_eq_true, beq_iff_eq, not_or] at hcond
      have hfl := fields_of_sideOK s true t l hsl hcond.1
      have hfr := fields_of_sideOK s false t r hsr hcond.1
      have hne := getD_ne_nil_of_not_emptyOrAbsent _ _ hcond.2
      obtain ⟨out', h1, h2⟩ := mergeMapStep_foldl_ok rec t ((asMap l).getD []) ((asMap r).getD [])
        (zipKeys ((asMap l).getD []) ((asMap r).getD [])) [] (by
          intro k hk
          have hks := zipKeys_isSome _ _ k hk
          apply hrec _ _ _ hks
          · exact fun v hv => ⟨(hfl k v hv).1, (hfl k v hv).2.1⟩
          · exact fun v hv => ⟨(hfr k v hv).1, (hfr k v hv).2.1⟩
          · have e1 : optDepth (lookupField k ((asMap l).getD [])) ≤ optDepth l - 1 ∧
                ((lookupField k ((asMap l).getD [])).isSome = true → 1 ≤ optDepth (lookupField k ((asMap l).getD []))) := by
              cases hv : lookupField k ((asMap l).getD []) with
              | none => simp [optDepth]
              | some v => exact ⟨(hfl k v hv).2.2, fun _ => Value.depth_pos v⟩
            have e2 : optDepth (lookupField k ((asMap r).getD [])) ≤ optDepth r - 1 ∧
                ((lookupField k ((asMap r).getD [])).isSome = true → 1 ≤ optDepth (lookupField k ((asMap r).getD []))) := by
              cases hv : lookupField k ((asMap r).getD []) with
              | none => simp [optDepth]
              | some v => exact ⟨(hfr k v hv).2.2, fun _ => Value.depth_pos v⟩
            rcases hks with hq | hq
            · have := e1.2 hq; omega
            · have := e2.2 hq; omega)
      rw [h1]
      have : out' ≠ [] := h2 (Or.inr (zipKeys_ne_nil _ _ hne))
      cases out' with
      | nil => exact absurd rfl this
      | cons y ys => exact ⟨_, rfl⟩

theorem mergeNode_ok (s : Schema) : ∀ (fuel : Nat), MergeRecOK s (mergeNode s fuel) fuel := by
  intro fuel
  induction fuel with
  | zero => intro l r tr _ _ _ h; exact absurd h (Nat.not_lt_zero _)
  | succ n ih =>
    intro l r tr hsome hl hr hd
    have hres : ∃ a, s.resolve tr = some a := by
      rcases hsome with h | h
      · obtain ⟨v, rfl⟩ := Option.isSome_iff_exists.1 h
        obtain ⟨a, ha, _⟩ := validateV_view2 s true tr v (hl v rfl).1
        exact ⟨a, ha⟩
      · obtain ⟨v, rfl⟩ := Option.isSome_iff_exists.1 h
        obtain ⟨a, ha, _⟩ := validateV_view2 s false tr v (hr v rfl).1
        exact ⟨a, ha⟩
    obtain ⟨a, hres⟩ := hres
    rw [mergeNode_succ]
    have hnn : (l.isNone && r.isNone) = false := by
      cases l <;> cases r <;> simp_all
    simp only [hnn, Bool.false_eq_true, if_false, hres]
    have hH : ∀ y, SideOK s true (atomKind (deduceAtom a y)) l ∧ SideOK s false (atomKind (deduceAtom a y)) r :=
      fun y => ⟨sideOK_of_valid s true tr a hres l hl y, sideOK_of_valid s false tr a hres r hr y⟩
    have hHl : ∀ v, l = some v → ∃ o, mergeHandle s (mergeNode s n) l r (deduceAtom a l) = .ok (some o) := by
      intro v hv
      subst hv
      obtain ⟨k1, k2⟩ := kind_of_valid s true tr a v hres (hl v rfl).1
      exact mergeHandle_ok s _ n ih _ r _ hsome k1 (fun t ht => Or.inl (k2 t ht)) (hH _).1 (hH _).2 hd
    have hHr : ∀ v, r = some v → ∃ o, mergeHandle s (mergeNode s n) l r (deduceAtom a r) = .ok (some o) := by
      intro v hv
      subst hv
      obtain ⟨k1, k2⟩ := kind_of_valid s false tr a v hres (hr v rfl).1
      exact mergeHandle_ok s _ n ih l _ _ hsome k1 (fun t ht => Or.inr (k2 t ht)) (hH _).1 (hH _).2 hd
    cases r with
    | none =>
      cases l with
      | none => simp at hsome
      | some v => simpa using hHl v rfl
    | some rv =>
      cases l with
      | none => simpa using hHr rv rfl
      | some lv =>
        simp only [Option.isNone_some, Bool.false_eq_true, if_false, Bool.false_or]
        split
        · exact hHr rv rfl
        · obtain ⟨o1, h1⟩ := hHl lv rfl
          rw [h1]
          exact hHr rv rfl

end SMD
