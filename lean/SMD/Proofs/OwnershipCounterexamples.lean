/-
Concrete runs of the model showing that four C05 statements and one C19 statement, as first written,
fail when the managed-fields list handed to `Apply` / `Update` has two entries for one manager (the
association-list model, like the Go `map` it stands for, is only meaningful with one entry per key).

World: the empty schema, the inlined scalar type `string`, live object = configuration = `null`
(so every comparison is empty and nothing conflicts), identity converter.
-/
import SMD.Proofs.OwnershipShape
set_option linter.unusedSimpArgs false
namespace SMD.Counter
open SetTrie

def strT : TypeRef := .mk none (.mk (some "string") none none) none
def sc0 : Schema := ⟨[]⟩
def upd (ig : Option Filter) : Updater := { converter := Converter.identity, ignore := fun _ => ig }
def live0 : TV := ⟨.null, strT⟩
/-- the set `{.f}` -/
def Y : SetTrie := node [.field "f"] []

/-! ### evaluation of the walkers in this world -/

theorem t_eq : TypeRef.equals strT strT = true := by simp [TypeRef.equals, strT, Atom.equals]
theorem res : sc0.resolve strT = some (.mk (some "string") none none) := by
  simp [Schema.resolve, strT, TypeRef.rel, Schema.resolveNoOverrides, TypeRef.named, TypeRef.inlined]

theorem cmpN (n : Nat) : cmpNode sc0 (n+1) (some .null) (some .null) strT = .ok {} := by
  rw [cmpNode]
  simp [res, deduceAtom, Value.isScalar, atomKind, Atom.map, Atom.scalar, Atom.list,
    validateScalar, Value.isNull, leafCmp, Value.equals, Atom.equals]

theorem compare0 : compareTV sc0 live0 live0 = .ok ⟨.ofPaths [], .ofPaths [], .ofPaths []⟩ := by
  simp [compareTV, live0, t_eq, cmpN]

theorem mergeN (n : Nat) : mergeNode sc0 (n+1) (some .null) (some .null) strT = .ok (some .null) := by
  rw [mergeNode]
  simp [res, deduceAtom, Value.isScalar, atomKind, Atom.map, Atom.scalar, Atom.list,
    validateScalar, Value.isNull, Atom.equals]

theorem merge0 : mergeTV sc0 live0 live0 = .ok live0 := by
  simp [mergeTV, live0, t_eq, mergeN, outToValue]

theorem fs0 : toFieldSet sc0 live0 = .ok SetTrie.empty := by rfl

theorem recN (s : SetTrie) : reconcileFieldSet sc0 s strT = .ok none := by
  simp [reconcileFieldSet, reconcileNode, res, atomKind, Atom.map, Atom.scalar]

theorem rec0 (ig : Option Filter) : ∀ m : Managed, reconcileManaged (upd ig) sc0 live0 m = .ok m := by
  intro m
  induction m with
  | nil => rfl
  | cons x m ih =>
    obtain ⟨k, vs⟩ := x
    simp [reconcileManaged, upd, Converter.identity, live0, recN]
    simp [upd, Converter.identity, live0] at ih
    simp [ih]

theorem live0_value : live0.value = .null := rfl
theorem Y_nonempty : Y.isEmpty = false := by simp [Y, isEmpty]
theorem nodeF_nonempty : (node [PE.field "f"] []).isEmpty = false := by simp [isEmpty]
theorem Y_wf : Y.wf = true := by decide
theorem empty_isEmpty : SetTrie.empty.isEmpty = true := by simp [SetTrie.empty, isEmpty, isEmptyChildren]
theorem ofPaths_nil : SetTrie.ofPaths [] = SetTrie.empty := rfl
theorem has_f_Y : Y.has [.field "f"] = true := by decide

theorem union_empty_empty : SetTrie.empty.union SetTrie.empty = SetTrie.empty := by
  simp [SetTrie.empty, union, peUnion, unionChildren]
theorem inter_empty_right (m : List PE) : (node m []).inter SetTrie.empty = SetTrie.empty := by
  cases m <;> simp [SetTrie.empty, inter, peInter, interChildren]
theorem diff_empty_right (m : List PE) : (node m []).diff SetTrie.empty = node m [] := by
  cases m <;> simp [SetTrie.empty, diff, peDiff, diffChildren]
theorem union_empty_right (m : List PE) : (node m []).union SetTrie.empty = node m [] := by
  cases m <;> simp [SetTrie.empty, union, peUnion, unionChildren]
theorem rdiff_empty_left (s : SetTrie) : SetTrie.empty.rdiff s = SetTrie.empty := by
  obtain ⟨m, c⟩ := s
  simp [SetTrie.empty, rdiff, peDiff, rdiffChildren]

theorem inter_empty_empty : SetTrie.empty.inter SetTrie.empty = SetTrie.empty := inter_empty_right []
theorem diff_empty_empty : SetTrie.empty.diff SetTrie.empty = SetTrie.empty := diff_empty_right []

/-! ### the runs -/

/-- two entries for the acting manager `a`: an empty one, then `{.f}` -/
def mA : Managed := [("a", ⟨SetTrie.empty, "v", false⟩), ("a", ⟨Y, "v", true⟩)]
/-- two entries for another manager `b`: an empty one, then `{.f}` applied -/
def mB : Managed := [("b", ⟨SetTrie.empty, "v", false⟩), ("b", ⟨Y, "v", true⟩)]

/-- `a` applies the empty configuration: its empty new record is dropped and the second, stale entry
becomes its record -/
theorem applyA_none : apply (upd none) sc0 live0 live0 "v" mA "a" false = .ok (none, [("a", ⟨Y, "v", true⟩)]) := by
  unfold apply
  rw [rec0]
  simp only [merge0, fs0, liftRes]
  simp [mA, mfGet, prune, empty_isEmpty, applyIgnore, upd, mfSet, mfSet.ins, updateCore, compare0, filterCmp,
    updateLoop, Y_nonempty, live0_value, Value.equals]

theorem applyA_exclude : apply (upd (some (.exclude Y))) sc0 live0 live0 "v" mA "a" false =
    .ok (none, [("a", ⟨Y, "v", true⟩)]) := by
  unfold apply
  rw [rec0]
  simp only [merge0, fs0, liftRes]
  simp [mA, mfGet, prune, empty_isEmpty, applyIgnore, upd, mfSet, mfSet.ins, updateCore, compare0, filterCmp,
    updateLoop, Y_nonempty, live0_value, Value.equals, Filter.apply, rdiff_empty_left, ofPaths_nil]

theorem applyB : apply (upd none) sc0 live0 live0 "v" mB "a" false = .ok (none, [("b", ⟨Y, "v", true⟩)]) := by
  unfold apply
  rw [rec0]
  simp only [merge0, fs0, liftRes]
  simp [mB, mfGet, prune, empty_isEmpty, applyIgnore, upd, mfSet, mfSet.ins, updateCore, compare0, filterCmp,
    updateLoop, nodeF_nonempty, live0_value, Value.equals, cacheGet, ofPaths_nil, union_empty_empty,
    inter_empty_right, inter_empty_empty, Y]

theorem updateB : update (upd none) sc0 live0 live0 "v" mB "a" = .ok [("b", ⟨Y, "v", true⟩)] := by
  unfold update
  rw [rec0]
  simp [mB, mfGet, empty_isEmpty, applyIgnore, upd, mfSet, mfSet.ins, updateCore, compare0, filterCmp,
    updateLoop, nodeF_nonempty, cacheGet, ofPaths_nil, union_empty_empty,
    inter_empty_right, inter_empty_empty, diff_empty_empty, Y, mfDelete, diff_empty_right, union_empty_right]

theorem updateA : update (upd none) sc0 live0 live0 "v" mA "a" = .ok [("a", ⟨Y, "v", false⟩)] := by
  unfold update
  rw [rec0]
  simp [mA, mfGet, empty_isEmpty, applyIgnore, upd, mfSet, mfSet.ins, updateCore, compare0, filterCmp,
    updateLoop, nodeF_nonempty, cacheGet, ofPaths_nil, union_empty_empty,
    inter_empty_right, inter_empty_empty, diff_empty_empty, Y, mfDelete, diff_empty_right, union_empty_right]

/-! ### `prune` is the identity in this world -/

theorem remove0 (S : SetTrie) : removeItemsTV sc0 live0 S = live0 := by
  simp [removeItemsTV, live0, removeV, resolveKind, res, deduceAtom, Value.isScalar, Value.isList, Value.isMap, atomKind, Atom.map, Atom.scalar, Atom.list, outToValue]

theorem addBackFV (ig : Option Filter) (v : String) (S : SetTrie) :
    addBackForVersion (upd ig) sc0 live0 live0 v S = .ok (live0, live0) := by
  simp [addBackForVersion, upd, Converter.identity, fs0, liftRes, remove0]

theorem foldl_fix {α β : Type} (f : β → α → β) (b : β) (hf : ∀ a, f b a = b) : ∀ l : List α, l.foldl f b = b := by
  intro l
  induction l with
  | nil => rfl
  | cons x l ih => rw [List.foldl_cons, hf, ih]

theorem addBackOwned0 (ig : Option Filter) (v : String) (ms : Managed) :
    addBackOwned (upd ig) sc0 live0 live0 v ms = .ok live0 := by
  unfold addBackOwned
  simp only []
  cases List.find? (fun x => x.fst == v) (managedAtVersion ms) with
  | none =>
    simp only []
    rw [foldl_fix _ _ (fun a => by simp only [addBackFV])]
  | some x =>
    simp only [addBackFV]
    rw [foldl_fix _ _ (fun a => by simp only [addBackFV])]

theorem addBackDangling0 (ig : Option Filter) (last : VersionedSet) :
    addBackDangling (upd ig) sc0 live0 live0 last = .ok live0 := by
  simp [addBackDangling, upd, Converter.identity, fs0, liftRes, remove0]

theorem prune0 (ig : Option Filter) (ms : Managed) (mgr : String) (last : Option VersionedSet) :
    prune (upd ig) sc0 live0 ms mgr last = .ok live0 := by
  unfold prune
  cases last with
  | none => rfl
  | some last =>
    simp only []
    split
    · rfl
    · have h1 : ∀ v, (upd ig).converter.convert live0 v = .ok live0 := fun v => rfl
      simp only [h1, remove0, addBackOwned0, addBackDangling0]

/-- one entry per manager, but not in key order -/
def mU : Managed := [("b", ⟨Y, "v", false⟩), ("a", ⟨Y, "v", false⟩)]

theorem applyU : apply (upd none) sc0 live0 live0 "v" mU "a" false =
    .ok (none, [("b", ⟨Y, "v", false⟩), ("a", ⟨Y, "v", false⟩)]) := by
  unfold apply
  rw [rec0]
  simp only [merge0, fs0, liftRes, prune0]
  simp [mU, mfGet, empty_isEmpty, applyIgnore, upd, mfSet, mfSet.ins, updateCore, compare0, filterCmp,
    updateLoop, nodeF_nonempty, live0_value, Value.equals, cacheGet, ofPaths_nil, union_empty_empty,
    inter_empty_right, inter_empty_empty, Y]

theorem wf_mA : ∀ x ∈ mA, x.2.set.wf = true := by
  intro x hx
  simp only [mA, List.mem_cons, List.not_mem_nil, or_false] at hx
  rcases hx with rfl | rfl
  · exact wf_empty
  · exact Y_wf

theorem wf_mB : ∀ x ∈ mB, x.2.set.wf = true := by
  intro x hx
  simp only [mB, List.mem_cons, List.not_mem_nil, or_false] at hx
  rcases hx with rfl | rfl
  · exact wf_empty
  · exact Y_wf

/-! ### the statements refuted (`recordOf` of C05 is `mfGet`, `WFManaged m` is `∀ x ∈ m, x.2.set.wf = true`) -/

/-- C05 `apply_owner_exact` as first stated -/
theorem apply_owner_exact_false :
    ¬ ∀ (u : Updater) (sc : Schema) (live cfg : TV) (ver : String) (m : Managed)
        (mgr : String) (force : Bool) (obj : Option TV) (mf : Managed),
        apply u sc live cfg ver m mgr force = .ok (obj, mf) →
          ∃ fs, toFieldSet sc cfg = .ok fs ∧
            mfGet mf mgr =
              (if (applyIgnore u ver fs).isEmpty then none else some ⟨applyIgnore u ver fs, ver, true⟩) := by
  intro H
  obtain ⟨fs, h1, h2⟩ := H _ _ _ _ _ _ _ _ _ _ applyA_none
  rw [fs0] at h1
  simp only [Res.ok.injEq] at h1
  subst h1
  simp [mfGet, applyIgnore, upd, empty_isEmpty] at h2

/-- …and distinct keys are not enough: on a list that is not in key order `mfSet` inserts the new record
in front and leaves the old one behind -/
theorem apply_owner_exact_false_of_nodup :
    ¬ ∀ (u : Updater) (sc : Schema) (live cfg : TV) (ver : String) (m : Managed)
        (mgr : String) (force : Bool) (obj : Option TV) (mf : Managed) (_ : (m.map (·.1)).Nodup),
        apply u sc live cfg ver m mgr force = .ok (obj, mf) →
          ∃ fs, toFieldSet sc cfg = .ok fs ∧
            mfGet mf mgr =
              (if (applyIgnore u ver fs).isEmpty then none else some ⟨applyIgnore u ver fs, ver, true⟩) := by
  intro H
  obtain ⟨fs, h1, h2⟩ := H _ _ _ _ _ _ _ _ _ _ (by decide) applyU
  rw [fs0] at h1
  simp only [Res.ok.injEq] at h1
  subst h1
  simp [mfGet, applyIgnore, upd, empty_isEmpty] at h2

/-- C05 `apply_others_only_shrink` as first stated -/
theorem apply_others_only_shrink_false :
    ¬ ∀ (u : Updater) (sc : Schema) (live cfg : TV) (ver : String) (m m0 : Managed)
        (mgr : String) (force : Bool) (obj : Option TV) (mf : Managed) (k : String) (vs' : VersionedSet)
        (_ : reconcileManaged u sc live m = .ok m0) (_ : ∀ x ∈ m0, x.2.set.wf = true) (_ : k ≠ mgr),
        apply u sc live cfg ver m mgr force = .ok (obj, mf) → mfGet mf k = some vs' →
          ∃ vs, mfGet m0 k = some vs ∧ vs'.version = vs.version ∧ vs'.applied = vs.applied ∧
            ∀ q, vs'.set.has q = true → vs.set.has q = true := by
  intro H
  obtain ⟨vs, h1, _, h3, _⟩ := H _ _ _ _ _ _ _ _ _ _ _ "b" ⟨Y, "v", true⟩ (rec0 none mB) wf_mB (by decide) applyB
    (by simp [mfGet])
  simp only [mB, mfGet, List.find?_cons, beq_self_eq_true, Option.map_some, Option.some.injEq] at h1
  subst h1
  simp at h3

/-- C05 `update_others_only_shrink` as first stated -/
theorem update_others_only_shrink_false :
    ¬ ∀ (u : Updater) (sc : Schema) (live newObj : TV) (ver : String) (m m0 : Managed)
        (mgr : String) (mf : Managed) (k : String) (vs' : VersionedSet)
        (_ : reconcileManaged u sc live m = .ok m0) (_ : ∀ x ∈ m0, x.2.set.wf = true) (_ : k ≠ mgr),
        update u sc live newObj ver m mgr = .ok mf → mfGet mf k = some vs' →
          ∃ vs, mfGet m0 k = some vs ∧ vs'.version = vs.version ∧ vs'.applied = vs.applied ∧
            ∀ q, vs'.set.has q = true → vs.set.has q = true := by
  intro H
  obtain ⟨vs, h1, _, h3, _⟩ := H _ _ _ _ _ _ _ _ _ "b" ⟨Y, "v", true⟩ (rec0 none mB) wf_mB (by decide) updateB
    (by simp [mfGet])
  simp only [mB, mfGet, List.find?_cons, beq_self_eq_true, Option.map_some, Option.some.injEq] at h1
  subst h1
  simp at h3

/-- C05 `update_owner_exact` as first stated -/
theorem update_owner_exact_false :
    ¬ ∀ (u : Updater) (sc : Schema) (live newObj : TV) (ver : String) (m m0 : Managed)
        (mgr : String) (mf : Managed) (cmp : Comparison)
        (_ : u.ignore ver = none) (_ : reconcileManaged u sc live m = .ok m0)
        (_ : ∀ x ∈ m0, x.2.set.wf = true) (_ : compareTV sc live newObj = .ok cmp),
        update u sc live newObj ver m mgr = .ok mf →
          let old : SetTrie := ((mfGet m0 mgr).map (·.set)).getD SetTrie.empty
          (∀ q, (match mfGet mf mgr with | some vs => vs.set.has q | none => false) =
            ((old.has q && !cmp.removed.has q) || cmp.modified.has q || cmp.added.has q)) ∧
          (∀ vs, mfGet mf mgr = some vs → vs.version = ver ∧ vs.applied = false) := by
  intro H
  obtain ⟨h1, _⟩ := H _ _ _ _ "v" _ _ "a" _ _ rfl (rec0 none mA) wf_mA compare0 updateA
  have := h1 [.field "f"]
  simp [mfGet, mA, has_f_Y, ofPaths_nil, has_empty] at this

/-- C19 `apply_actor_never_owns_ignored` as first stated (`ignoredBy ex q` is
`(prefixesOf q).any (fun r => ex.has r)`) -/
theorem apply_actor_never_owns_ignored_false :
    ¬ ∀ (u : Updater) (sc : Schema) (live cfg : TV) (ver : String) (m : Managed)
        (mgr : String) (force : Bool) (obj : Option TV) (mf : Managed) (ex : SetTrie) (vs : VersionedSet)
        (_ : u.ignore ver = some (.exclude ex)) (_ : ex.wf = true),
        apply u sc live cfg ver m mgr force = .ok (obj, mf) → mfGet mf mgr = some vs →
          ∀ q, vs.set.has q = true → (prefixesOf q).any (fun r => ex.has r) = false := by
  intro H
  have := H _ _ _ _ "v" _ _ _ _ _ Y ⟨Y, "v", true⟩ rfl Y_wf applyA_exclude (by simp [mfGet]) [.field "f"] has_f_Y
  simp [prefixesOf, has_f_Y] at this

end SMD.Counter
