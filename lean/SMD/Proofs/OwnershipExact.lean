/- helper lemmas for SMD/Properties/C05Exact.lean and C19Ignored.lean -/
import SMD.Proofs.ConflictExact
import SMD.Proofs.OwnershipShape
import SMD.Proofs.FilterAlgebra
import SMD.Proofs.HistoryInvariants
import SMD.Properties.C05
import SMD.Properties.C19
namespace SMD
open SetTrie

/-! ### the manager loop with the identity converter when every version sees the same filtered comparison -/

/-- identity converter, and the ignore configuration of every version turns the comparison `cmp0` of the
two objects into the same `cmp`: the loop never fails, deletes no manager and lists the records in manager
order (generalises `updateLoop_identity_eq`) -/
theorem updateLoop_identity_filtered (u : Updater) (sc : Schema) (o n : TV) (w : String) (cmp0 cmp : Comparison)
    (hconv : u.converter = Converter.identity) (hf : ∀ v, filterCmp (u.ignore v) cmp0 = cmp)
    (hcmp : compareTV sc o n = .ok cmp0) :
    ∀ (l : List (String × VersionedSet)) (ms : Managed) (versions : List (String × Comparison))
      (conflicts removed : List (String × VersionedSet)), (∀ x ∈ versions, x.2 = cmp) →
      updateLoop u sc o n w l ms versions conflicts removed =
        .ok (ms, conflicts.reverse ++ conflictRecords cmp w l, removed.reverse ++ removedRecords cmp w l) := by
  intro l
  induction l with
  | nil => intros; simp [updateLoop, conflictRecords, removedRecords]
  | cons x rest ih =>
    obtain ⟨manager, vs⟩ := x
    intro ms versions conflicts removed hv
    rw [updateLoop]
    by_cases hw : (manager == w) = true
    · simp only [hw, if_true]
      rw [ih _ _ _ _ hv]
      have hw' : manager = w := by simpa using hw
      simp [conflictRecords, removedRecords, hw']
    · simp only [hw, Bool.false_eq_true, if_false]
      have key : ∀ versions', (∀ x ∈ versions', x.2 = cmp) →
          updateLoop u sc o n w rest ms versions'
            (if (!(vs.set.inter (cmp.modified.union cmp.added)).isEmpty) = true then
              (manager, ⟨vs.set.inter (cmp.modified.union cmp.added), vs.version, false⟩) :: conflicts else conflicts)
            (if (!cmp.removed.isEmpty) = true then (manager, ⟨cmp.removed, vs.version, false⟩) :: removed else removed)
          = .ok (ms, conflicts.reverse ++ conflictRecords cmp w ((manager, vs) :: rest),
              removed.reverse ++ removedRecords cmp w ((manager, vs) :: rest)) := by
        intro versions' hv'
        rw [ih _ _ _ _ hv']
        simp only [conflictRecords, removedRecords, List.filterMap_cons, hw, Bool.false_eq_true, if_false]
        split <;> split <;> simp
      cases hc : cacheGet versions vs.version with
      | some c =>
        have := cacheGet_of_all hv hc
        subst this
        exact key versions hv
      | none =>
        simp only [hconv, Converter.identity, hcmp, hf]
        exact key _ (by
          intro x hx
          rcases List.mem_cons.1 hx with rfl | hx
          · rfl
          · exact hv x hx)

/-- what a forced `updateCore` returns: the records minus the conflict sets, minus the removed sets, the
empty ones dropped -/
theorem updateCore_identity_forced (u : Updater) (sc : Schema) (o n : TV) (ver : String) (ms : Managed) (w : String)
    (cmp0 cmp : Comparison) (hconv : u.converter = Converter.identity)
    (hf : ∀ v, filterCmp (u.ignore v) cmp0 = cmp) (hcmp : compareTV sc o n = .ok cmp0) :
    updateCore u sc o n ver ms w true =
      .ok ((subSets (subSets ms (conflictRecords cmp w ms)) (removedRecords cmp w ms)).filter
        (fun m => !m.2.set.isEmpty), cmp) := by
  unfold updateCore
  simp only [hcmp, hf]
  rw [updateLoop_identity_filtered u sc o n w cmp0 cmp hconv hf hcmp ms ms _ [] []
    (by intro x hx; simp only [List.mem_singleton] at hx; subst hx; rfl)]
  simp only [List.reverse_nil, List.nil_append, Bool.not_true, Bool.false_and, Bool.false_eq_true, if_false]
  rfl

/-- an unforced `updateCore` without conflict records succeeds -/
theorem updateCore_identity_unforced_filtered (u : Updater) (sc : Schema) (o n : TV) (ver : String) (ms : Managed)
    (w : String) (cmp0 cmp : Comparison) (hconv : u.converter = Converter.identity)
    (hf : ∀ v, filterCmp (u.ignore v) cmp0 = cmp) (hcmp : compareTV sc o n = .ok cmp0)
    (hnil : conflictRecords cmp w ms = []) :
    ∃ r, updateCore u sc o n ver ms w false = .ok r := by
  unfold updateCore
  simp only [hcmp, hf]
  rw [updateLoop_identity_filtered u sc o n w cmp0 cmp hconv hf hcmp ms ms _ [] []
    (by intro x hx; simp only [List.mem_singleton] at hx; subst hx; rfl)]
  simp [hnil]

theorem mem_removedRecords {cmp : Comparison} {w : String} {l : List (String × VersionedSet)}
    {k : String} {vs' : VersionedSet} : (k, vs') ∈ removedRecords cmp w l ↔
      ∃ vs, (k, vs) ∈ l ∧ k ≠ w ∧ cmp.removed.isEmpty = false ∧ vs' = ⟨cmp.removed, vs.version, false⟩ := by
  simp only [removedRecords, List.mem_filterMap]
  constructor
  · rintro ⟨⟨k0, vs⟩, hm, h⟩
    split at h
    · cases h
    · rename_i hne
      split at h
      · rename_i he
        simp only [Option.some.injEq, Prod.mk.injEq] at h
        obtain ⟨rfl, rfl⟩ := h
        exact ⟨vs, hm, by simpa using hne, by simpa using he, rfl⟩
      · cases h
  · rintro ⟨vs, hm, hne, he, rfl⟩
    refine ⟨(k, vs), hm, ?_⟩
    have : (k == w) = false := by simpa using hne
    simp [this, he]

/-! ### the record of one key through the subtraction loop and the dropping of empty records -/

/-- the record of `k` after the subtraction loop: same version and flag, and its members are those of the
record before that belong to none of the sets listed under `k` -/
theorem subSets_get (k : String) : ∀ (xs : List (String × VersionedSet)) (ms : Managed) (cur : VersionedSet),
    mfGet ms k = some cur → cur.set.wf = true →
      ∃ cur', mfGet (subSets ms xs) k = some cur' ∧ cur'.version = cur.version ∧ cur'.applied = cur.applied ∧
        cur'.set.wf = true ∧
        ∀ p, (cur'.set.has p = true ↔ cur.set.has p = true ∧ ∀ x ∈ xs, x.1 = k → x.2.set.has p = false) := by
  intro xs
  induction xs with
  | nil =>
    intro ms cur hg hw
    exact ⟨cur, hg, rfl, rfl, hw, fun p => by simp⟩
  | cons x xs ih =>
    intro ms cur hg hw
    simp only [subSets, List.foldl_cons]
    cases hx : mfGet ms x.1 with
    | none =>
      simp only []
      have hne : x.1 ≠ k := by
        intro e
        rw [e, hg] at hx
        cases hx
      obtain ⟨cur', h1, h2, h3, h4, h5⟩ := ih ms cur hg hw
      refine ⟨cur', h1, h2, h3, h4, fun p => ?_⟩
      rw [h5 p]
      constructor
      · rintro ⟨a, b⟩
        refine ⟨a, fun y hy hk => ?_⟩
        rcases List.mem_cons.1 hy with rfl | hy
        · exact absurd hk hne
        · exact b y hy hk
      · rintro ⟨a, b⟩
        exact ⟨a, fun y hy hk => b y (List.mem_cons_of_mem _ hy) hk⟩
    | some c0 =>
      simp only []
      by_cases hk : x.1 = k
      · have hc : c0 = cur := by
          rw [hk, hg] at hx
          exact (Option.some.inj hx).symm
        subst hc
        have hg1 : mfGet (mfSet ms x.1 ⟨c0.set.diff x.2.set, c0.version, c0.applied⟩) k =
            some ⟨c0.set.diff x.2.set, c0.version, c0.applied⟩ := by
          rw [← hk]
          exact mfGet_mfSet_self _ _ _
        obtain ⟨cur', h1, h2, h3, h4, h5⟩ := ih _ _ hg1 (wf_diff_left _ _ hw)
        refine ⟨cur', h1, h2, h3, h4, fun p => ?_⟩
        rw [h5 p]
        simp only [has_diff_left p _ _ hw, Bool.and_eq_true, Bool.not_eq_true']
        constructor
        · rintro ⟨⟨a, a'⟩, b⟩
          refine ⟨a, fun y hy hk' => ?_⟩
          rcases List.mem_cons.1 hy with rfl | hy
          · exact a'
          · exact b y hy hk'
        · rintro ⟨a, b⟩
          exact ⟨⟨a, b x (by simp) hk⟩, fun y hy hk' => b y (List.mem_cons_of_mem _ hy) hk'⟩
      · have hg1 : mfGet (mfSet ms x.1 ⟨c0.set.diff x.2.set, c0.version, c0.applied⟩) k = some cur := by
          rw [mfGet_mfSet_ne (Ne.symm hk)]
          exact hg
        obtain ⟨cur', h1, h2, h3, h4, h5⟩ := ih _ _ hg1 hw
        refine ⟨cur', h1, h2, h3, h4, fun p => ?_⟩
        rw [h5 p]
        constructor
        · rintro ⟨a, b⟩
          refine ⟨a, fun y hy hk' => ?_⟩
          rcases List.mem_cons.1 hy with rfl | hy
          · exact absurd hk' hk
          · exact b y hy hk'
        · rintro ⟨a, b⟩
          exact ⟨a, fun y hy hk' => b y (List.mem_cons_of_mem _ hy) hk'⟩

/-- subtracting nothing -/
theorem subSets_nil (ms : Managed) : subSets ms [] = ms := rfl

/-- lookup after dropping entries, one entry per key -/
theorem mfGet_filter_of_nodup {ms : Managed} (hn : (ms.map (·.1)).Nodup) (f : String × VersionedSet → Bool)
    (k : String) :
    mfGet (ms.filter f) k =
      match mfGet ms k with
      | some v => if f (k, v) then some v else none
      | none => none := by
  rw [mfGet_eq_head, entriesOf_filter, entriesOf_of_nodup hn]
  cases mfGet ms k with
  | none => rfl
  | some v =>
    simp only [List.filter_cons, List.filter_nil]
    split <;> rfl

/-- dropping nothing -/
theorem filter_nonempty_eq {m : Managed} (hne : ∀ x ∈ m, x.2.set.isEmpty = false) :
    m.filter (fun x => !x.2.set.isEmpty) = m := by
  rw [List.filter_eq_self]
  intro x hx
  simp [hne x hx]

/-! ### the other managers after a forced `updateCore` -/

/-- exact membership in another manager's record after a forced `updateCore` (identity converter; every
version sees the comparison `cmp`, whose three sets are well formed) -/
theorem updateCore_forced_other_exact {u : Updater} {sc : Schema} {o n : TV} {ver : String} {ms out : Managed}
    {w : String} {cmp0 cmp cmp' : Comparison} {k : String} {vs : VersionedSet} (p : Path)
    (hconv : u.converter = Converter.identity) (hf : ∀ v, filterCmp (u.ignore v) cmp0 = cmp)
    (hcmp : compareTV sc o n = .ok cmp0)
    (wm : cmp.modified.wf = true) (wa : cmp.added.wf = true)
    (hs : SortedManaged ms) (hwf : ∀ x ∈ ms, x.2.set.wf = true)
    (hcore : updateCore u sc o n ver ms w true = .ok (out, cmp'))
    (hk : k ≠ w) (hvs : mfGet ms k = some vs) :
    cmp' = cmp ∧
    ((∃ vs', mfGet out k = some vs' ∧ vs'.set.has p = true) ↔
      (vs.set.has p = true ∧ cmp.modified.has p = false ∧ cmp.added.has p = false ∧
        cmp.removed.has p = false)) := by
  rw [updateCore_identity_forced u sc o n ver ms w cmp0 cmp hconv hf hcmp] at hcore
  simp only [Outcome.ok.injEq, Prod.mk.injEq] at hcore
  obtain ⟨hout, hc⟩ := hcore
  refine ⟨hc.symm, ?_⟩
  have hn := sortedManaged_nodup hs
  have hmem := mem_of_mfGet hvs
  have hw := hwf _ hmem
  have wu : (cmp.modified.union cmp.added).wf = true := SetTrie.wf_union _ _ wm wa
  obtain ⟨c1, g1, _, _, w1, m1⟩ := subSets_get k (conflictRecords cmp w ms) ms vs hvs hw
  obtain ⟨c2, g2, _, _, w2, m2⟩ := subSets_get k (removedRecords cmp w ms) _ c1 g1 w1
  have hs2 : SortedManaged (subSets (subSets ms (conflictRecords cmp w ms)) (removedRecords cmp w ms)) :=
    sortedManaged_subSets _ _ (sortedManaged_subSets _ _ hs)
  have hget := mfGet_filter_of_nodup (sortedManaged_nodup hs2) (fun m => !m.2.set.isEmpty) k
  rw [g2] at hget
  simp only at hget
  -- membership in the final record
  have hfinal : (∃ vs', mfGet out k = some vs' ∧ vs'.set.has p = true) ↔ c2.set.has p = true := by
    rw [← hout, hget]
    constructor
    · rintro ⟨vs', h1, h2⟩
      split at h1
      · simp only [Option.some.injEq] at h1
        subst h1
        exact h2
      · cases h1
    · intro h
      refine ⟨c2, ?_, h⟩
      simp [not_isEmpty_of_has h]
  rw [hfinal, m2 p, m1 p]
  -- the two subtracted families
  have hconf : (∀ x ∈ conflictRecords cmp w ms, x.1 = k → x.2.set.has p = false) ↔
      (vs.set.has p = true → cmp.modified.has p = false ∧ cmp.added.has p = false) := by
    constructor
    · intro h hp
      cases hin : (vs.set.inter (cmp.modified.union cmp.added)).has p with
      | false =>
        rw [SetTrie.has_inter p _ _ hw wu, SetTrie.has_union p _ _ wm wa, hp] at hin
        simpa using hin
      | true =>
        have := h (k, ⟨vs.set.inter (cmp.modified.union cmp.added), vs.version, false⟩)
          (mem_conflictRecords.2 ⟨vs, hmem, hk, not_isEmpty_of_has hin, rfl⟩) rfl
        simp only at this
        rw [hin] at this
        cases this
    · rintro h ⟨k', x⟩ hx hk'
      simp only at hk'
      subst hk'
      obtain ⟨vs0, hmem0, _, _, rfl⟩ := mem_conflictRecords.1 hx
      have : vs0 = vs := by
        have := mfGet_of_mem_nodup hn hmem0
        rw [hvs] at this
        exact (Option.some.inj this).symm
      subst this
      simp only
      rw [SetTrie.has_inter p _ _ hw wu, SetTrie.has_union p _ _ wm wa]
      cases hp : vs0.set.has p with
      | false => simp
      | true =>
        obtain ⟨a, b⟩ := h hp
        simp [a, b]
  have hrem : (∀ x ∈ removedRecords cmp w ms, x.1 = k → x.2.set.has p = false) ↔
      cmp.removed.has p = false := by
    constructor
    · intro h
      cases hin : cmp.removed.has p with
      | false => rfl
      | true =>
        have := h (k, ⟨cmp.removed, vs.version, false⟩)
          (mem_removedRecords.2 ⟨vs, hmem, hk, not_isEmpty_of_has hin, rfl⟩) rfl
        simp only at this
        rw [hin] at this
        cases this
    · rintro h ⟨k', x⟩ hx hk'
      obtain ⟨vs0, _, _, _, rfl⟩ := mem_removedRecords.1 hx
      exact h
  rw [hconf, hrem]
  constructor
  · rintro ⟨⟨a, b⟩, c⟩
    exact ⟨a, (b a).1, (b a).2, c⟩
  · rintro ⟨a, b, c, d⟩
    exact ⟨⟨a, fun _ => ⟨b, c⟩⟩, d⟩

/-- another manager's record through the last step of `update` -/
theorem update_other_get {ms mf : Managed} {mgr ver k : String} {S : SetTrie} (hk : k ≠ mgr)
    (hmf : mf = if S.isEmpty then mfDelete ms mgr else mfSet ms mgr ⟨S, ver, false⟩) :
    mfGet mf k = mfGet ms k := by
  rw [hmf]
  split
  · exact mfGet_mfDelete_ne hk _
  · exact mfGet_mfSet_ne hk _ _

/-! ### an exclusion filter that swallows every change -/

/-- a well-formed set without members is empty -/
theorem isEmpty_of_no_members {s : SetTrie} (hw : s.wf = true) (h : ∀ p, s.has p = false) : s.isEmpty = true := by
  cases he : s.isEmpty with
  | true => rfl
  | false =>
    obtain ⟨q, hq⟩ := exists_has_of_not_isEmpty s hw he
    rw [h q] at hq
    cases hq

theorem exclude_isEmpty_of_all_ignored {s ex : SetTrie} (hs : s.wf = true) (hex : ex.wf = true)
    (h : ∀ p, s.has p = true → C19.ignoredBy ex p = true) : ((Filter.exclude ex).apply s).isEmpty = true := by
  apply isEmpty_of_no_members (C19.exclude_filter_wf ex s hs hex)
  intro p
  rw [C19.exclude_filter_spec ex s p hs hex]
  cases hp : s.has p with
  | false => rfl
  | true => simp [h p hp]

/-- no conflict record when what was modified or added is empty -/
theorem conflictRecords_nil_of_empty {cmp : Comparison} (w : String) {l : List (String × VersionedSet)}
    (hwf : ∀ x ∈ l, x.2.set.wf = true) (wm : cmp.modified.wf = true) (wa : cmp.added.wf = true)
    (hm : cmp.modified.isEmpty = true) (ha : cmp.added.isEmpty = true) : conflictRecords cmp w l = [] := by
  have wu : (cmp.modified.union cmp.added).wf = true := SetTrie.wf_union _ _ wm wa
  simp only [conflictRecords, List.filterMap_eq_nil_iff]
  intro x hx
  have : (x.2.set.inter (cmp.modified.union cmp.added)).isEmpty = true := by
    apply isEmpty_of_no_members (SetTrie.wf_inter _ _ (hwf x hx) wu)
    intro p
    rw [SetTrie.has_inter p _ _ (hwf x hx) wu, SetTrie.has_union p _ _ wm wa,
      has_of_isEmpty p _ hm, has_of_isEmpty p _ ha]
    simp
  simp [this]

theorem removedRecords_nil_of_empty {cmp : Comparison} (w : String) (l : List (String × VersionedSet))
    (hr : cmp.removed.isEmpty = true) : removedRecords cmp w l = [] := by
  simp only [removedRecords, List.filterMap_eq_nil_iff]
  intro x _
  simp [hr]


/-! ### the statements of C05Exact -/

/-- the comparison every version sees under the exclusion set `ex` -/
abbrev excludedCmp (ex : SetTrie) (cmp : Comparison) : Comparison := filterCmp (some (.exclude ex)) cmp

theorem excludedCmp_facts {sc : Schema} {o n : TV} {cmp : Comparison} {ex : SetTrie} (hexwf : ex.wf = true)
    (hcmp : compareTV sc o n = .ok cmp) :
    (excludedCmp ex cmp).removed.wf = true ∧ (excludedCmp ex cmp).modified.wf = true ∧
    (excludedCmp ex cmp).added.wf = true ∧
    ((∀ p, cmp.removed.has p = true → C19.ignoredBy ex p = true) → (excludedCmp ex cmp).removed.isEmpty = true) ∧
    ((∀ p, cmp.modified.has p = true → C19.ignoredBy ex p = true) → (excludedCmp ex cmp).modified.isEmpty = true) ∧
    ((∀ p, cmp.added.has p = true → C19.ignoredBy ex p = true) → (excludedCmp ex cmp).added.isEmpty = true) := by
  obtain ⟨wr, wm, wa⟩ := compareTV_wf hcmp
  exact ⟨C19.exclude_filter_wf ex _ wr hexwf, C19.exclude_filter_wf ex _ wm hexwf, C19.exclude_filter_wf ex _ wa hexwf,
    exclude_isEmpty_of_all_ignored wr hexwf, exclude_isEmpty_of_all_ignored wm hexwf,
    exclude_isEmpty_of_all_ignored wa hexwf⟩

theorem ignored_only_no_conflict {u : Updater} {sc : Schema} {oldObj newObj : TV} {ver : String}
    {managers : Managed} {mgr : String} {cmp : Comparison} {ex : SetTrie} {c : List (String × Path)}
    (hconv : u.converter = Converter.identity) (hex : ∀ v, u.ignore v = some (.exclude ex)) (hexwf : ex.wf = true)
    (hwf : ∀ x ∈ managers, x.2.set.wf = true)
    (hcmp : compareTV sc oldObj newObj = .ok cmp)
    (hall : ∀ p, (cmp.modified.has p = true ∨ cmp.added.has p = true) → C19.ignoredBy ex p = true) :
    updateCore u sc oldObj newObj ver managers mgr false ≠ .conflict c := by
  obtain ⟨_, wm, wa, _, em, ea⟩ := excludedCmp_facts hexwf hcmp
  obtain ⟨r, hr⟩ := updateCore_identity_unforced_filtered u sc oldObj newObj ver managers mgr cmp
    (excludedCmp ex cmp) hconv (fun v => by rw [hex]) hcmp
    (conflictRecords_nil_of_empty mgr hwf wm wa (em fun p hp => hall p (.inl hp)) (ea fun p hp => hall p (.inr hp)))
  rw [hr]
  intro h
  cases h

theorem update_others_exact {u : Updater} {sc : Schema} {live newObj : TV} {ver : String}
    {m : Managed} {mgr : String} {mf : Managed} {cmp : Comparison} {k : String} {vs : VersionedSet} (p : Path)
    (hconv : u.converter = Converter.identity) (hig : ∀ v, u.ignore v = none)
    (hrec : reconcileManaged u sc live m = .ok m)
    (hsorted : SortedManaged m) (hwf : ∀ x ∈ m, x.2.set.wf = true)
    (hcmp : compareTV sc live newObj = .ok cmp)
    (hup : update u sc live newObj ver m mgr = .ok mf)
    (hk : k ≠ mgr) (hvs : mfGet m k = some vs) :
    ((∃ vs', mfGet mf k = some vs' ∧ vs'.set.has p = true) ↔
      (vs.set.has p = true ∧ cmp.modified.has p = false ∧ cmp.added.has p = false ∧ cmp.removed.has p = false)) := by
  obtain ⟨m0, ms, cmp', hrec', hcore, hmf⟩ := update_ok_inv hup
  rw [hrec] at hrec'
  simp only [Outcome.ok.injEq] at hrec'
  subst hrec'
  obtain ⟨_, wm, wa⟩ := compareTV_wf hcmp
  rw [update_other_get hk hmf]
  exact (updateCore_forced_other_exact p hconv (fun v => by rw [hig]; rfl) hcmp wm wa hsorted hwf hcore hk hvs).2

theorem update_ignored_only_keeps {u : Updater} {sc : Schema} {live newObj : TV} {ver : String}
    {m : Managed} {mgr : String} {mf : Managed} {cmp : Comparison} {ex : SetTrie} {k : String}
    (hconv : u.converter = Converter.identity) (hex : ∀ v, u.ignore v = some (.exclude ex)) (hexwf : ex.wf = true)
    (hrec : reconcileManaged u sc live m = .ok m)
    (hwf : ∀ x ∈ m, x.2.set.wf = true) (hne : ∀ x ∈ m, x.2.set.isEmpty = false)
    (hcmp : compareTV sc live newObj = .ok cmp)
    (hall : ∀ p, (cmp.modified.has p = true ∨ cmp.added.has p = true ∨ cmp.removed.has p = true) →
      C19.ignoredBy ex p = true)
    (hup : update u sc live newObj ver m mgr = .ok mf) (hk : k ≠ mgr) :
    mfGet mf k = mfGet m k := by
  obtain ⟨m0, ms, cmp', hrec', hcore, hmf⟩ := update_ok_inv hup
  rw [hrec] at hrec'
  simp only [Outcome.ok.injEq] at hrec'
  subst hrec'
  obtain ⟨_, wm, wa, er, em, ea⟩ := excludedCmp_facts hexwf hcmp
  rw [updateCore_identity_forced u sc live newObj ver m mgr cmp (excludedCmp ex cmp) hconv
    (fun v => by rw [hex]) hcmp,
    conflictRecords_nil_of_empty mgr hwf wm wa (em fun p hp => hall p (.inl hp))
      (ea fun p hp => hall p (.inr (.inl hp))),
    removedRecords_nil_of_empty mgr m (er fun p hp => hall p (.inr (.inr hp))),
    subSets_nil, subSets_nil, filter_nonempty_eq hne] at hcore
  simp only [Outcome.ok.injEq, Prod.mk.injEq] at hcore
  rw [update_other_get hk hmf, ← hcore.1]

theorem update_owner_exact_iff {u : Updater} {sc : Schema} {live newObj : TV} {ver : String}
    {m : Managed} {mgr : String} {mf : Managed} {cmp : Comparison} (p : Path)
    (hig : ∀ v, u.ignore v = none)
    (hrec : reconcileManaged u sc live m = .ok m)
    (hsorted : SortedManaged m) (hwf : ∀ x ∈ m, x.2.set.wf = true)
    (hcmp : compareTV sc live newObj = .ok cmp)
    (hup : update u sc live newObj ver m mgr = .ok mf) :
    ((∃ vs', mfGet mf mgr = some vs' ∧ vs'.set.has p = true) ↔
      ((∃ vs, mfGet m mgr = some vs ∧ vs.set.has p = true ∧ cmp.removed.has p = false) ∨
        cmp.modified.has p = true ∨ cmp.added.has p = true)) := by
  have h := (update_owner_exact_of_nodup (hig ver) hrec hwf (sortedManaged_nodup hsorted) hcmp hup).1 p
  cases hg : mfGet mf mgr with
  | none =>
    rw [hg] at h
    simp only at h
    cases hm : mfGet m mgr <;> rw [hm] at h <;> simp [has_empty] at h ⊢ <;> grind
  | some v =>
    rw [hg] at h
    simp only at h
    cases hm : mfGet m mgr <;> rw [hm] at h <;> simp [has_empty] at h ⊢ <;> grind

end SMD
