/- helper lemmas for SMD/Properties/C05Ignore.lean: the exactness of what the other managers lose, under an
ARBITRARY per-version ignore configuration (identity converter).

What the code does (`updateLoop`, `SMD/Model/Updater.lean`; merge/update.go:96-139): the comparison used
against the record of another manager is the comparison of the two objects FILTERED WITH THE FILTER OF THAT
RECORD'S VERSION.  The per-version cache holds, for every version met so far (and for the acting version
from the start), the comparison filtered with that version's filter; the manager that triggers the
computation for a new version uses the filtered comparison as well (in Go, `ExcludeFields` / `FilterFields`
overwrite the fields of the `*Comparison` they are called on and return the same pointer, so the local
variable `compare` and the cache entry are one object). -/
import SMD.Proofs.ApplyOwnershipExact
namespace SMD
open SetTrie

/-! ### the manager loop with the identity converter under a per-version ignore configuration -/

/-- the conflict records the manager loop produces when a record at version `v` sees the comparison `c v` -/
def conflictRecordsV (c : String → Comparison) (w : String) (l : List (String × VersionedSet)) :
    List (String × VersionedSet) :=
  l.filterMap fun x =>
    if x.1 == w then none
    else if !(x.2.set.inter ((c x.2.version).modified.union (c x.2.version).added)).isEmpty then
      some (x.1, ⟨x.2.set.inter ((c x.2.version).modified.union (c x.2.version).added), x.2.version, false⟩)
    else none

/-- the removed records of the manager loop -/
def removedRecordsV (c : String → Comparison) (w : String) (l : List (String × VersionedSet)) :
    List (String × VersionedSet) :=
  l.filterMap fun x =>
    if x.1 == w then none
    else if !(c x.2.version).removed.isEmpty then some (x.1, ⟨(c x.2.version).removed, x.2.version, false⟩)
    else none

/-- the constant case is the old definition -/
theorem conflictRecordsV_const (cmp : Comparison) (w : String) (l : List (String × VersionedSet)) :
    conflictRecordsV (fun _ => cmp) w l = conflictRecords cmp w l := rfl

theorem removedRecordsV_const (cmp : Comparison) (w : String) (l : List (String × VersionedSet)) :
    removedRecordsV (fun _ => cmp) w l = removedRecords cmp w l := rfl

/-- a cache whose entry for `v` is `c v` answers `c v` -/
theorem cacheGet_of_keyed {versions : List (String × Comparison)} {c : String → Comparison} {x : Comparison}
    {v : String} (hv : ∀ y ∈ versions, y.2 = c y.1) (h : cacheGet versions v = some x) : x = c v := by
  simp only [cacheGet, Option.map_eq_some_iff] at h
  obtain ⟨y, hy, rfl⟩ := h
  have h1 := hv y (List.mem_of_find?_eq_some hy)
  have h2 := List.find?_some hy
  simp only [beq_iff_eq] at h2
  rw [h1, h2]

/-- identity converter, any ignore configuration: a record at version `v` is held against `c v`, the
comparison of the two objects filtered with the filter of `v` — for the manager that triggers the
computation at a new version as well as for those served from the cache.  The loop never fails, deletes no
manager and lists the records in manager order. -/
theorem updateLoop_identity_perVersion (u : Updater) (sc : Schema) (o n : TV) (w : String) (cmp0 : Comparison)
    (c : String → Comparison)
    (hconv : u.converter = Converter.identity) (hf : ∀ v, filterCmp (u.ignore v) cmp0 = c v)
    (hcmp : compareTV sc o n = .ok cmp0) :
    ∀ (l : List (String × VersionedSet)) (ms : Managed) (versions : List (String × Comparison))
      (conflicts removed : List (String × VersionedSet)), (∀ x ∈ versions, x.2 = c x.1) →
      updateLoop u sc o n w l ms versions conflicts removed =
        .ok (ms, conflicts.reverse ++ conflictRecordsV c w l, removed.reverse ++ removedRecordsV c w l) := by
  intro l
  induction l with
  | nil => intros; simp [updateLoop, conflictRecordsV, removedRecordsV]
  | cons x rest ih =>
    obtain ⟨manager, vs⟩ := x
    intro ms versions conflicts removed hv
    rw [updateLoop]
    by_cases hw : (manager == w) = true
    · simp only [hw, if_true]
      rw [ih _ _ _ _ hv]
      have hw' : manager = w := by simpa using hw
      simp [conflictRecordsV, removedRecordsV, hw']
    · simp only [hw, Bool.false_eq_true, if_false]
      have key : ∀ versions', (∀ x ∈ versions', x.2 = c x.1) →
          updateLoop u sc o n w rest ms versions'
            (if (!(vs.set.inter ((c vs.version).modified.union (c vs.version).added)).isEmpty) = true then
              (manager, ⟨vs.set.inter ((c vs.version).modified.union (c vs.version).added), vs.version, false⟩) ::
                conflicts else conflicts)
            (if (!(c vs.version).removed.isEmpty) = true then
              (manager, ⟨(c vs.version).removed, vs.version, false⟩) :: removed else removed)
          = .ok (ms, conflicts.reverse ++ conflictRecordsV c w ((manager, vs) :: rest),
              removed.reverse ++ removedRecordsV c w ((manager, vs) :: rest)) := by
        intro versions' hv'
        rw [ih _ _ _ _ hv']
        simp only [conflictRecordsV, removedRecordsV, List.filterMap_cons, hw, Bool.false_eq_true, if_false]
        split <;> split <;> simp
      cases hc : cacheGet versions vs.version with
      | some x =>
        have := cacheGet_of_keyed hv hc
        subst this
        exact key versions hv
      | none =>
        simp only [hconv, Converter.identity, hcmp, hf]
        exact key _ (by
          intro x hx
          rcases List.mem_cons.1 hx with rfl | hx
          · rfl
          · exact hv x hx)

/-- what a forced `updateCore` returns under any ignore configuration -/
theorem updateCore_identity_forced_perVersion (u : Updater) (sc : Schema) (o n : TV) (ver : String) (ms : Managed)
    (w : String) (cmp0 : Comparison) (c : String → Comparison) (hconv : u.converter = Converter.identity)
    (hf : ∀ v, filterCmp (u.ignore v) cmp0 = c v) (hcmp : compareTV sc o n = .ok cmp0) :
    updateCore u sc o n ver ms w true =
      .ok ((subSets (subSets ms (conflictRecordsV c w ms)) (removedRecordsV c w ms)).filter
        (fun m => !m.2.set.isEmpty), c ver) := by
  unfold updateCore
  simp only [hcmp, hf]
  rw [updateLoop_identity_perVersion u sc o n w cmp0 c hconv hf hcmp ms ms _ [] []
    (by intro x hx; simp only [List.mem_singleton] at hx; subst hx; rfl)]
  simp only [List.reverse_nil, List.nil_append, Bool.not_true, Bool.false_and, Bool.false_eq_true, if_false]
  rfl

theorem mem_conflictRecordsV {c : String → Comparison} {w : String} {l : List (String × VersionedSet)}
    {k : String} {vs' : VersionedSet} : (k, vs') ∈ conflictRecordsV c w l ↔
      ∃ vs, (k, vs) ∈ l ∧ k ≠ w ∧
        (vs.set.inter ((c vs.version).modified.union (c vs.version).added)).isEmpty = false ∧
        vs' = ⟨vs.set.inter ((c vs.version).modified.union (c vs.version).added), vs.version, false⟩ := by
  simp only [conflictRecordsV, List.mem_filterMap]
  constructor
  · rintro ⟨⟨k0, vs⟩, hm, h⟩
    split at h
    · cases h
    · rename_i hne
      split at h
      · rename_i he
        simp only [Option.some.injEq, Prod.mk.injEq] at h
        obtain ⟨rfl, rfl⟩ := h
        exact ⟨vs, hm, by simpa using hne, by simpa using he, rfl⟩
      · cases h
  · rintro ⟨vs, hm, hne, he, rfl⟩
    refine ⟨(k, vs), hm, ?_⟩
    have : (k == w) = false := by simpa using hne
    simp [this, he]

theorem mem_removedRecordsV {c : String → Comparison} {w : String} {l : List (String × VersionedSet)}
    {k : String} {vs' : VersionedSet} : (k, vs') ∈ removedRecordsV c w l ↔
      ∃ vs, (k, vs) ∈ l ∧ k ≠ w ∧ (c vs.version).removed.isEmpty = false ∧
        vs' = ⟨(c vs.version).removed, vs.version, false⟩ := by
  simp only [removedRecordsV, List.mem_filterMap]
  constructor
  · rintro ⟨⟨k0, vs⟩, hm, h⟩
    split at h
    · cases h
    · rename_i hne
      split at h
      · rename_i he
        simp only [Option.some.injEq, Prod.mk.injEq] at h
        obtain ⟨rfl, rfl⟩ := h
        exact ⟨vs, hm, by simpa using hne, by simpa using he, rfl⟩
      · cases h
  · rintro ⟨vs, hm, hne, he, rfl⟩
    refine ⟨(k, vs), hm, ?_⟩
    have : (k == w) = false := by simpa using hne
    simp [this, he]

/-! ### the other managers after a forced `updateCore` -/

/-- exact membership in another manager's record after a forced `updateCore` (identity converter, any
ignore configuration): the record of `k`, at version `vs.version`, loses what the comparison filtered with
the filter of `vs.version` reports; the modified and added sets of that filtered comparison are well
formed, and so is the record of `k` (nothing is asked of the other records) -/
theorem updateCore_forced_other_exact_perVersion {u : Updater} {sc : Schema} {o n : TV} {ver : String}
    {ms out : Managed} {w : String} {cmp0 cmp' : Comparison} {c : String → Comparison} {k : String}
    {vs : VersionedSet} (p : Path)
    (hconv : u.converter = Converter.identity) (hf : ∀ v, filterCmp (u.ignore v) cmp0 = c v)
    (hcmp : compareTV sc o n = .ok cmp0)
    (wm : (c vs.version).modified.wf = true) (wa : (c vs.version).added.wf = true)
    (hs : SortedManaged ms) (hw : vs.set.wf = true)
    (hcore : updateCore u sc o n ver ms w true = .ok (out, cmp'))
    (hk : k ≠ w) (hvs : mfGet ms k = some vs) :
    cmp' = c ver ∧
    ((∃ vs', mfGet out k = some vs' ∧ vs'.set.has p = true) ↔
      (vs.set.has p = true ∧ (c vs.version).modified.has p = false ∧ (c vs.version).added.has p = false ∧
        (c vs.version).removed.has p = false)) := by
  rw [updateCore_identity_forced_perVersion u sc o n ver ms w cmp0 c hconv hf hcmp] at hcore
  simp only [Outcome.ok.injEq, Prod.mk.injEq] at hcore
  obtain ⟨hout, hc⟩ := hcore
  refine ⟨hc.symm, ?_⟩
  have hn := sortedManaged_nodup hs
  have hmem := mem_of_mfGet hvs
  have wu : ((c vs.version).modified.union (c vs.version).added).wf = true := SetTrie.wf_union _ _ wm wa
  obtain ⟨c1, g1, _, _, w1, m1⟩ := subSets_get k (conflictRecordsV c w ms) ms vs hvs hw
  obtain ⟨c2, g2, _, _, w2, m2⟩ := subSets_get k (removedRecordsV c w ms) _ c1 g1 w1
  have hs2 : SortedManaged (subSets (subSets ms (conflictRecordsV c w ms)) (removedRecordsV c w ms)) :=
    sortedManaged_subSets _ _ (sortedManaged_subSets _ _ hs)
  have hget := mfGet_filter_of_nodup (sortedManaged_nodup hs2) (fun m => !m.2.set.isEmpty) k
  rw [g2] at hget
  simp only at hget
  -- membership in the final record
  have hfinal : (∃ vs', mfGet out k = some vs' ∧ vs'.set.has p = true) ↔ c2.set.has p = true := by
    rw [← hout, hget]
    constructor
    · rintro ⟨vs', h1, h2⟩
      split at h1
      · simp only [Option.some.injEq] at h1
        subst h1
        exact h2
      · cases h1
    · intro h
      refine ⟨c2, ?_, h⟩
      simp [not_isEmpty_of_has h]
  rw [hfinal, m2 p, m1 p]
  -- the record of `k` is the only entry under `k`
  have huniq : ∀ vs0, (k, vs0) ∈ ms → vs0 = vs := by
    intro vs0 hmem0
    have := mfGet_of_mem_nodup hn hmem0
    rw [hvs] at this
    exact (Option.some.inj this).symm
  -- the two subtracted families
  have hconf : (∀ x ∈ conflictRecordsV c w ms, x.1 = k → x.2.set.has p = false) ↔
      (vs.set.has p = true → (c vs.version).modified.has p = false ∧ (c vs.version).added.has p = false) := by
    constructor
    · intro h hp
      cases hin : (vs.set.inter ((c vs.version).modified.union (c vs.version).added)).has p with
      | false =>
        rw [SetTrie.has_inter p _ _ hw wu, SetTrie.has_union p _ _ wm wa, hp] at hin
        simpa using hin
      | true =>
        have := h (k, ⟨vs.set.inter ((c vs.version).modified.union (c vs.version).added), vs.version, false⟩)
          (mem_conflictRecordsV.2 ⟨vs, hmem, hk, not_isEmpty_of_has hin, rfl⟩) rfl
        simp only at this
        rw [hin] at this
        cases this
    · rintro h ⟨k', x⟩ hx hk'
      simp only at hk'
      subst hk'
      obtain ⟨vs0, hmem0, _, _, rfl⟩ := mem_conflictRecordsV.1 hx
      have := huniq vs0 hmem0
      subst this
      simp only
      rw [SetTrie.has_inter p _ _ hw wu, SetTrie.has_union p _ _ wm wa]
      cases hp : vs0.set.has p with
      | false => simp
      | true =>
        obtain ⟨a, b⟩ := h hp
        simp [a, b]
  have hrem : (∀ x ∈ removedRecordsV c w ms, x.1 = k → x.2.set.has p = false) ↔
      (c vs.version).removed.has p = false := by
    constructor
    · intro h
      cases hin : (c vs.version).removed.has p with
      | false => rfl
      | true =>
        have := h (k, ⟨(c vs.version).removed, vs.version, false⟩)
          (mem_removedRecordsV.2 ⟨vs, hmem, hk, not_isEmpty_of_has hin, rfl⟩) rfl
        simp only at this
        rw [hin] at this
        cases this
    · rintro h ⟨k', x⟩ hx hk'
      simp only at hk'
      subst hk'
      obtain ⟨vs0, hmem0, _, _, rfl⟩ := mem_removedRecordsV.1 hx
      have := huniq vs0 hmem0
      subst this
      exact h
  rw [hconf, hrem]
  constructor
  · rintro ⟨⟨a, b⟩, c⟩
    exact ⟨a, (b a).1, (b a).2, c⟩
  · rintro ⟨a, b, c, d⟩
    exact ⟨⟨a, fun _ => ⟨b, c⟩⟩, d⟩

/-! ### well-formedness and emptiness of a filtered comparison -/

/-- the three sets of a filtered comparison are well formed when the filter, if it is an exclusion set, is -/
theorem filterCmp_wf_at {f : Option Filter} (hf : ∀ ex, f = some (.exclude ex) → ex.wf = true) {c : Comparison}
    (hc : c.removed.wf = true ∧ c.modified.wf = true ∧ c.added.wf = true) :
    (filterCmp f c).removed.wf = true ∧ (filterCmp f c).modified.wf = true ∧ (filterCmp f c).added.wf = true := by
  cases f with
  | none => exact hc
  | some g =>
    have hg : ∀ ex, g = .exclude ex → ex.wf = true := fun ex e => hf ex (by rw [e])
    exact ⟨filter_apply_wf hg hc.1, filter_apply_wf hg hc.2.1, filter_apply_wf hg hc.2.2⟩

/-- a filter only drops members -/
theorem has_of_has_filter_apply {g : Filter} (hg : ∀ ex, g = .exclude ex → ex.wf = true) {s : SetTrie}
    (hs : s.wf = true) {p : Path} (h : (g.apply s).has p = true) : s.has p = true := by
  cases g with
  | exclude ex =>
    rw [C19.exclude_filter_spec ex s p hs (hg ex rfl)] at h
    simp only [Bool.and_eq_true] at h
    exact h.1
  | «include» pat =>
    cases p with
    | nil => rw [has_nil] at h; cases h
    | cons pe r =>
      rw [C19.include_filter_spec pat s (pe :: r) hs (by simp)] at h
      simp only [Bool.and_eq_true] at h
      exact h.1

/-- filtering an empty well-formed set gives an empty set -/
theorem filter_apply_isEmpty {g : Filter} (hg : ∀ ex, g = .exclude ex → ex.wf = true) {s : SetTrie}
    (hs : s.wf = true) (he : s.isEmpty = true) : (g.apply s).isEmpty = true := by
  apply isEmpty_of_no_members (filter_apply_wf hg hs)
  intro p
  cases h : (g.apply s).has p with
  | false => rfl
  | true =>
    have := has_of_has_filter_apply hg hs h
    rw [has_of_isEmpty p s he] at this
    cases this

/-- a comparison that reports nothing still reports nothing after filtering -/
theorem filterCmp_isEmpty {f : Option Filter} (hf : ∀ ex, f = some (.exclude ex) → ex.wf = true) {c : Comparison}
    (hc : c.removed.wf = true ∧ c.modified.wf = true ∧ c.added.wf = true)
    (he : c.removed.isEmpty = true ∧ c.modified.isEmpty = true ∧ c.added.isEmpty = true) :
    (filterCmp f c).removed.isEmpty = true ∧ (filterCmp f c).modified.isEmpty = true ∧
      (filterCmp f c).added.isEmpty = true := by
  cases f with
  | none => exact he
  | some g =>
    have hg : ∀ ex, g = .exclude ex → ex.wf = true := fun ex e => hf ex (by rw [e])
    exact ⟨filter_apply_isEmpty hg hc.1 he.1, filter_apply_isEmpty hg hc.2.1 he.2.1,
      filter_apply_isEmpty hg hc.2.2 he.2.2⟩

theorem conflictRecordsV_nil_of_empty {c : String → Comparison} (w : String) {l : List (String × VersionedSet)}
    (hwf : ∀ x ∈ l, x.2.set.wf = true)
    (h : ∀ x ∈ l, (c x.2.version).modified.wf = true ∧ (c x.2.version).added.wf = true ∧
      (c x.2.version).modified.isEmpty = true ∧ (c x.2.version).added.isEmpty = true) :
    conflictRecordsV c w l = [] := by
  simp only [conflictRecordsV, List.filterMap_eq_nil_iff]
  intro x hx
  obtain ⟨wm, wa, hm, ha⟩ := h x hx
  have wu : ((c x.2.version).modified.union (c x.2.version).added).wf = true := SetTrie.wf_union _ _ wm wa
  have : (x.2.set.inter ((c x.2.version).modified.union (c x.2.version).added)).isEmpty = true := by
    apply isEmpty_of_no_members (SetTrie.wf_inter _ _ (hwf x hx) wu)
    intro p
    rw [SetTrie.has_inter p _ _ (hwf x hx) wu, SetTrie.has_union p _ _ wm wa,
      has_of_isEmpty p _ hm, has_of_isEmpty p _ ha]
    simp
  simp [this]

theorem removedRecordsV_nil_of_empty {c : String → Comparison} (w : String) (l : List (String × VersionedSet))
    (hr : ∀ x ∈ l, (c x.2.version).removed.isEmpty = true) : removedRecordsV c w l = [] := by
  simp only [removedRecordsV, List.filterMap_eq_nil_iff]
  intro x hx
  simp [hr x hx]

/-! ### the statements of C05Ignore -/

/-- `update_others_exact` under an arbitrary ignore configuration: the comparison is filtered with the
filter of the version of `k`'s record -/
theorem update_others_exact_ignore {u : Updater} {sc : Schema} {live newObj : TV} {ver : String}
    {m : Managed} {mgr : String} {mf : Managed} {cmp : Comparison} {k : String} {vs : VersionedSet} (p : Path)
    (hconv : u.converter = Converter.identity)
    (hexwf : ∀ ex, u.ignore vs.version = some (.exclude ex) → ex.wf = true)
    (hrec : reconcileManaged u sc live m = .ok m)
    (hsorted : SortedManaged m) (hwf : ∀ x ∈ m, x.2.set.wf = true)
    (hcmp : compareTV sc live newObj = .ok cmp)
    (hup : update u sc live newObj ver m mgr = .ok mf)
    (hk : k ≠ mgr) (hvs : mfGet m k = some vs) :
    ((∃ vs', mfGet mf k = some vs' ∧ vs'.set.has p = true) ↔
      (vs.set.has p = true ∧ (filterCmp (u.ignore vs.version) cmp).modified.has p = false ∧
        (filterCmp (u.ignore vs.version) cmp).added.has p = false ∧
        (filterCmp (u.ignore vs.version) cmp).removed.has p = false)) := by
  obtain ⟨m0, ms, cmp', hrec', hcore, hmf⟩ := update_ok_inv hup
  rw [hrec] at hrec'
  simp only [Outcome.ok.injEq] at hrec'
  subst hrec'
  obtain ⟨_, wm, wa⟩ := filterCmp_wf_at hexwf (compareTV_wf hcmp)
  rw [update_other_get hk hmf]
  exact (updateCore_forced_other_exact_perVersion (c := fun v => filterCmp (u.ignore v) cmp) p hconv
    (fun _ => rfl) hcmp wm wa hsorted (hwf _ (mem_of_mfGet hvs)) hcore hk hvs).2

/-- the managed fields the manager loop of an apply starts from, under any ignore configuration whose
exclusion set at the acting version (if any) is well formed -/
theorem apply_loop_input_ignore {u : Updater} {m : Managed} {mgr ver : String} {fs : SetTrie}
    (hexwf : ∀ ex, u.ignore ver = some (.exclude ex) → ex.wf = true)
    (hsorted : SortedManaged m) (hwf : ∀ x ∈ m, x.2.set.wf = true) (hfs : fs.wf = true) :
    SortedManaged (mfSet m mgr ⟨applyIgnore u ver fs, ver, true⟩) ∧
    (∀ x ∈ mfSet m mgr ⟨applyIgnore u ver fs, ver, true⟩, x.2.set.wf = true) ∧
    ∀ k, k ≠ mgr → mfGet (mfSet m mgr ⟨applyIgnore u ver fs, ver, true⟩) k = mfGet m k := by
  refine ⟨sortedManaged_mfSet _ _ hsorted, ?_, fun k hk => mfGet_mfSet_ne hk _ _⟩
  intro x hx
  rcases mem_mfSet hx with rfl | hx
  · simp only [applyIgnore]
    split
    · rename_i f hf
      exact filter_apply_wf (fun ex e => hexwf ex (by rw [hf, e])) hfs
    · exact hfs
  · exact hwf x hx

/-- `apply_others_exact` under an arbitrary ignore configuration -/
theorem apply_others_exact_ignore {u : Updater} {sc : Schema} {live cfg obj : TV} {ver : String}
    {m : Managed} {mgr : String} {force : Bool} {mf : Managed} {cmp : Comparison} {k : String}
    {vs : VersionedSet} (p : Path)
    (hconv : u.converter = Converter.identity)
    (hexwf : ∀ ex, u.ignore vs.version = some (.exclude ex) → ex.wf = true)
    (hrec : reconcileManaged u sc live m = .ok m)
    (hsorted : SortedManaged m) (hwf : ∀ x ∈ m, x.2.set.wf = true)
    (hap : apply u sc live cfg ver m mgr force = .ok (some obj, mf))
    (hcmp : compareTV sc live obj = .ok cmp)
    (hk : k ≠ mgr) (hvs : mfGet m k = some vs) :
    ((∃ vs', mfGet mf k = some vs' ∧ vs'.set.has p = true) ↔
      (vs.set.has p = true ∧ (filterCmp (u.ignore vs.version) cmp).modified.has p = false ∧
        (filterCmp (u.ignore vs.version) cmp).added.has p = false ∧
        (filterCmp (u.ignore vs.version) cmp).removed.has p = false)) := by
  obtain ⟨m0, merged, fs, newObj, cmp', hrec', _, hfs, _, hcore, hobj⟩ := apply_full_inv hap
  rw [hrec] at hrec'
  simp only [Outcome.ok.injEq] at hrec'
  subst hrec'
  have hon : obj = newObj := by
    rcases hobj with h | ⟨h, _⟩
    · exact Option.some.inj h
    · cases h
  subst hon
  have hcore' : updateCore u sc live obj ver (mfSet m mgr ⟨applyIgnore u ver fs, ver, true⟩) mgr true =
      .ok (mf, cmp') := by
    cases force with
    | true => exact hcore
    | false => exact updateCore_false_ok _ _ _ _ _ _ _ _ hcore
  have hs1 : SortedManaged (mfSet m mgr ⟨applyIgnore u ver fs, ver, true⟩) := sortedManaged_mfSet _ _ hsorted
  obtain ⟨_, wm, wa⟩ := filterCmp_wf_at hexwf (compareTV_wf hcmp)
  exact (updateCore_forced_other_exact_perVersion (c := fun v => filterCmp (u.ignore v) cmp) p hconv
    (fun _ => rfl) hcmp wm wa hs1 (hwf _ (mem_of_mfGet hvs)) hcore' hk
    (by rw [mfGet_mfSet_ne hk]; exact hvs)).2

/-- an apply that returns no object leaves the records of the other managers untouched, under any ignore
configuration with well-formed exclusion sets -/
theorem apply_noop_other_get_ignore {u : Updater} {sc : Schema} {live cfg : TV} {ver : String}
    {m : Managed} {mgr : String} {force : Bool} {mf : Managed} {k : String} {vs : VersionedSet}
    (hconv : u.converter = Converter.identity) (hexwf : IgnoreWF u)
    (hrec : reconcileManaged u sc live m = .ok m)
    (hsorted : SortedManaged m) (hwf : ∀ x ∈ m, x.2.set.wf = true)
    (hne : ∀ x ∈ m, x.2.set.isEmpty = false)
    (hap : apply u sc live cfg ver m mgr force = .ok (none, mf))
    (hk : k ≠ mgr) (hvs : mfGet m k = some vs) :
    mfGet mf k = some vs := by
  obtain ⟨m0, merged, fs, newObj, cmp', hrec', _, hfs, _, hcore, hobj⟩ := apply_full_inv hap
  rw [hrec] at hrec'
  simp only [Outcome.ok.injEq] at hrec'
  subst hrec'
  have heq : Value.equals live.value newObj.value = true := by
    rcases hobj with h | ⟨_, h⟩
    · cases h
    · exact h
  have hcore' : updateCore u sc live newObj ver (mfSet m mgr ⟨applyIgnore u ver fs, ver, true⟩) mgr true =
      .ok (mf, cmp') := by
    cases force with
    | true => exact hcore
    | false => exact updateCore_false_ok _ _ _ _ _ _ _ _ hcore
  obtain ⟨hs1, hw1, hget⟩ := apply_loop_input_ignore (mgr := mgr) (ver := ver)
    (fun ex e => hexwf ver ex e) hsorted hwf (toFieldSet_wf hfs)
  obtain ⟨⟨cmp0, hcmp, _⟩, _⟩ := updateCore_ok hcore'
  have hsame := CmpEq.compareTV_isSame_of_equals' sc live newObj cmp0 hcmp heq
  simp only [Comparison.isSame, Bool.and_eq_true] at hsame
  have hw0 := compareTV_wf hcmp
  have hall : ∀ v, ((filterCmp (u.ignore v) cmp0).removed.wf = true ∧ (filterCmp (u.ignore v) cmp0).modified.wf = true ∧
      (filterCmp (u.ignore v) cmp0).added.wf = true) ∧
      ((filterCmp (u.ignore v) cmp0).removed.isEmpty = true ∧ (filterCmp (u.ignore v) cmp0).modified.isEmpty = true ∧
      (filterCmp (u.ignore v) cmp0).added.isEmpty = true) := fun v =>
    ⟨filterCmp_wf_at (fun ex e => hexwf v ex e) hw0,
      filterCmp_isEmpty (fun ex e => hexwf v ex e) hw0 ⟨hsame.1.1, hsame.1.2, hsame.2⟩⟩
  rw [updateCore_identity_forced_perVersion u sc live newObj ver _ mgr cmp0 (fun v => filterCmp (u.ignore v) cmp0)
      hconv (fun _ => rfl) hcmp,
    conflictRecordsV_nil_of_empty mgr hw1
      (fun x _ => ⟨(hall x.2.version).1.2.1, (hall x.2.version).1.2.2, (hall x.2.version).2.2.1,
        (hall x.2.version).2.2.2⟩),
    removedRecordsV_nil_of_empty mgr _ (fun x _ => (hall x.2.version).2.1), subSets_nil, subSets_nil] at hcore'
  simp only [Outcome.ok.injEq, Prod.mk.injEq] at hcore'
  rw [← hcore'.1, mfGet_filter_of_nodup (sortedManaged_nodup hs1), hget k hk, hvs]
  simp [hne _ (mem_of_mfGet hvs)]

end SMD
