/-
Shape of `updateLoop`, `updateCore`, `apply` and `update` (`SMD/Model/Updater.lean`) as far as the
ownership records are concerned (C05, C19): which entries of the managed fields an operation can touch,
and how.
-/
import SMD.Proofs.ManagedMap
import SMD.Proofs.FilterAlgebra
namespace SMD
open SetTrie

/-- `x` is the entry `y` with a possibly smaller set: same key, version and applied flag; when `y`'s set
is well formed so is `x`'s, and every member of `x`'s set is a member of `y`'s -/
def Shrinks (x y : String × VersionedSet) : Prop :=
  x.1 = y.1 ∧ x.2.version = y.2.version ∧ x.2.applied = y.2.applied ∧
    (y.2.set.wf = true → x.2.set.wf = true ∧ ∀ q, x.2.set.has q = true → y.2.set.has q = true)

theorem Shrinks.refl (x : String × VersionedSet) : Shrinks x x :=
  ⟨rfl, rfl, rfl, fun h => ⟨h, fun _ hq => hq⟩⟩

theorem Shrinks.trans {x y z : String × VersionedSet} (h1 : Shrinks x y) (h2 : Shrinks y z) : Shrinks x z :=
  ⟨h1.1.trans h2.1, h1.2.1.trans h2.2.1, h1.2.2.1.trans h2.2.2.1, fun hz =>
    ⟨(h1.2.2.2 (h2.2.2.2 hz).1).1, fun q hq => (h2.2.2.2 hz).2 q ((h1.2.2.2 (h2.2.2.2 hz).1).2 q hq)⟩⟩

/-! ### `updateLoop` -/

theorem updateLoop_ok (u : Updater) (sc : Schema) (o n : TV) (w : String) :
    ∀ (iter : List (String × VersionedSet)) (ms : Managed) (versions : List (String × Comparison))
      (conflicts removed : List (String × VersionedSet)) (ms' : Managed) (cs rs : List (String × VersionedSet)),
      updateLoop u sc o n w iter ms versions conflicts removed = .ok (ms', cs, rs) →
        (∀ x ∈ ms', x ∈ ms) ∧ entriesOf ms' w = entriesOf ms w ∧
        ((∀ x ∈ conflicts, x.1 ≠ w) → ∀ x ∈ cs, x.1 ≠ w) ∧
        ((∀ x ∈ removed, x.1 ≠ w) → ∀ x ∈ rs, x.1 ≠ w) := by
  intro iter
  induction iter with
  | nil =>
    intro ms versions conflicts removed ms' cs rs h
    simp only [updateLoop, Outcome.ok.injEq, Prod.mk.injEq] at h
    obtain ⟨rfl, rfl, rfl⟩ := h
    exact ⟨fun _ h => h, rfl, fun h x hx => h x (List.mem_reverse.1 hx), fun h x hx => h x (List.mem_reverse.1 hx)⟩
  | cons hd rest ih =>
    intro ms versions conflicts removed ms' cs rs h
    obtain ⟨manager, vs⟩ := hd
    rw [updateLoop] at h
    split at h
    · exact ih _ _ _ _ _ _ _ h
    · rename_i hne
      have hne : manager ≠ w := by simpa using hne
      -- the two ways the loop goes on
      have cont : ∀ (cmp : Comparison) (versions' : List (String × Comparison)),
          updateLoop u sc o n w rest ms versions'
            (if (!(vs.set.inter (cmp.modified.union cmp.added)).isEmpty) = true then
              (manager, ⟨vs.set.inter (cmp.modified.union cmp.added), vs.version, false⟩) :: conflicts else conflicts)
            (if (!cmp.removed.isEmpty) = true then (manager, ⟨cmp.removed, vs.version, false⟩) :: removed else removed)
            = .ok (ms', cs, rs) →
          (∀ x ∈ ms', x ∈ ms) ∧ entriesOf ms' w = entriesOf ms w ∧
          ((∀ x ∈ conflicts, x.1 ≠ w) → ∀ x ∈ cs, x.1 ≠ w) ∧
          ((∀ x ∈ removed, x.1 ≠ w) → ∀ x ∈ rs, x.1 ≠ w) := by
        intro cmp versions' h
        obtain ⟨a, b, c, d⟩ := ih _ _ _ _ _ _ _ h
        refine ⟨a, b, fun hc => c ?_, fun hr => d ?_⟩
        · intro x hx
          split at hx
          · rcases List.mem_cons.1 hx with rfl | hx
            · exact hne
            · exact hc x hx
          · exact hc x hx
        · intro x hx
          split at hx
          · rcases List.mem_cons.1 hx with rfl | hx
            · exact hne
            · exact hr x hx
          · exact hr x hx
      have del : updateLoop u sc o n w rest (mfDelete ms manager) versions conflicts removed = .ok (ms', cs, rs) →
          (∀ x ∈ ms', x ∈ ms) ∧ entriesOf ms' w = entriesOf ms w ∧
          ((∀ x ∈ conflicts, x.1 ≠ w) → ∀ x ∈ cs, x.1 ≠ w) ∧
          ((∀ x ∈ removed, x.1 ≠ w) → ∀ x ∈ rs, x.1 ≠ w) := by
        intro h
        obtain ⟨a, b, c, d⟩ := ih _ _ _ _ _ _ _ h
        exact ⟨fun x hx => (mem_mfDelete (a x hx)).1, by rw [b, entriesOf_mfDelete_ne (Ne.symm hne)], c, d⟩
      simp only [] at h
      split at h
      · exact cont _ _ h
      · split at h
        · exact del h
        · cases h
        · split at h
          · exact del h
          · cases h
          · split at h
            · cases h
            · cases h
            · exact cont _ _ h

/-! ### the subtraction of conflict / removed sets -/

/-- the local `sub` of `updateCore`: subtract from each listed manager's record the listed set -/
def subSets (ms : Managed) (xs : List (String × VersionedSet)) : Managed :=
  xs.foldl (fun (ms : Managed) (x : String × VersionedSet) =>
    match mfGet ms x.1 with
    | some cur => mfSet ms x.1 ⟨cur.set.diff x.2.set, cur.version, cur.applied⟩
    | none => ms) ms

theorem subSets_spec (w : String) : ∀ (xs : List (String × VersionedSet)) (ms : Managed),
    (∀ x ∈ xs, x.1 ≠ w) →
      entriesOf (subSets ms xs) w = entriesOf ms w ∧ ∀ x ∈ subSets ms xs, ∃ y ∈ ms, Shrinks x y := by
  intro xs
  induction xs with
  | nil => intro ms _; exact ⟨rfl, fun x hx => ⟨x, hx, Shrinks.refl x⟩⟩
  | cons x xs ih =>
    intro ms hxs
    have hx : x.1 ≠ w := hxs x (by simp)
    simp only [subSets, List.foldl_cons]
    cases hg : mfGet ms x.1 with
    | none =>
      simp only []
      exact ih ms (fun y hy => hxs y (by simp [hy]))
    | some cur =>
      simp only []
      obtain ⟨e, m⟩ := ih (mfSet ms x.1 ⟨cur.set.diff x.2.set, cur.version, cur.applied⟩)
        (fun y hy => hxs y (by simp [hy]))
      simp only [subSets] at e m
      refine ⟨by rw [e, entriesOf_mfSet_ne (Ne.symm hx)], ?_⟩
      intro z hz
      obtain ⟨y, hy, hzy⟩ := m z hz
      rcases mem_mfSet hy with rfl | hy
      · refine ⟨(x.1, cur), mem_of_mfGet hg, hzy.trans ?_⟩
        refine ⟨rfl, rfl, rfl, fun hw => ⟨wf_diff_left _ _ hw, fun q hq => ?_⟩⟩
        rw [has_diff_left q _ _ hw] at hq
        simp only [Bool.and_eq_true] at hq
        exact hq.1
      · exact ⟨y, hy, hzy⟩

/-! ### `updateCore` -/

theorem updateCore_ok {u : Updater} {sc : Schema} {o n : TV} {ver : String} {ms : Managed} {w : String}
    {force : Bool} {out : Managed} {cmp : Comparison}
    (h : updateCore u sc o n ver ms w force = .ok (out, cmp)) :
    (∃ cmp0, compareTV sc o n = .ok cmp0 ∧ cmp = filterCmp (u.ignore ver) cmp0) ∧
    entriesOf out w = (entriesOf ms w).filter (fun m => !m.2.set.isEmpty) ∧
    ∀ x ∈ out, x.2.set.isEmpty = false ∧ ∃ y ∈ ms, Shrinks x y := by
  simp only [updateCore] at h
  split at h
  · cases h
  · cases h
  · rename_i cmp0 hc
    split at h
    · rename_i ms2 conflicts removed hl
      obtain ⟨a, b, c, d⟩ := updateLoop_ok u sc o n w _ _ _ _ _ _ _ _ hl
      have hcs := c (by simp)
      have hrs := d (by simp)
      split at h
      · cases h
      · simp only [Outcome.ok.injEq, Prod.mk.injEq] at h
        obtain ⟨rfl, rfl⟩ := h
        obtain ⟨e1, m1⟩ := subSets_spec w conflicts ms2 hcs
        obtain ⟨e2, m2⟩ := subSets_spec w removed (subSets ms2 conflicts) hrs
        refine ⟨⟨cmp0, hc, rfl⟩, ?_, ?_⟩
        · show entriesOf ((subSets (subSets ms2 conflicts) removed).filter _) w = _
          rw [entriesOf_filter, e2, e1, b]
        · intro x hx
          have hx' : x ∈ (subSets (subSets ms2 conflicts) removed).filter (fun m => !m.2.set.isEmpty) := hx
          rw [List.mem_filter] at hx'
          refine ⟨by simpa using hx'.2, ?_⟩
          obtain ⟨y, hy, hxy⟩ := m2 x hx'.1
          obtain ⟨z, hz, hyz⟩ := m1 y hy
          exact ⟨z, a z hz, hxy.trans hyz⟩
    · cases h
    · cases h
    · cases h

/-! ### `reconcileManaged` keeps the keys in order -/

theorem reconcileManaged_keys {u : Updater} {sc : Schema} {live : TV} : ∀ {m m0 : Managed},
    reconcileManaged u sc live m = .ok m0 → (m0.map (·.1)).Sublist (m.map (·.1)) := by
  intro m
  induction m with
  | nil => intro m0 h; simp only [reconcileManaged, Outcome.ok.injEq] at h; subst h; simp
  | cons x m ih =>
    intro m0 h
    obtain ⟨k, vs⟩ := x
    simp only [reconcileManaged] at h
    split at h
    · exact (ih h).cons _
    · cases h
    · split at h
      · cases h
      · cases h
      · split at h
        · rename_i tail ht
          simp only [Outcome.ok.injEq] at h
          subst h
          simpa using ih ht
        · rename_i e he
          exact absurd h (he m0)

theorem reconcileManaged_sorted {u : Updater} {sc : Schema} {live : TV} {m m0 : Managed}
    (h : reconcileManaged u sc live m = .ok m0) (hs : SortedManaged m) : SortedManaged m0 := by
  have h1 : (m.map (·.1)).Pairwise (· < ·) := by simpa [List.pairwise_map] using hs
  have h2 := h1.sublist (reconcileManaged_keys h)
  simpa [List.pairwise_map] using h2

/-! ### `apply` and `update` -/

theorem apply_ok_inv {u : Updater} {sc : Schema} {live cfg : TV} {ver : String} {m : Managed} {mgr : String}
    {force : Bool} {obj : Option TV} {mf : Managed}
    (h : apply u sc live cfg ver m mgr force = .ok (obj, mf)) :
    ∃ m0 fs newObj cmp, reconcileManaged u sc live m = .ok m0 ∧ toFieldSet sc cfg = .ok fs ∧
      updateCore u sc live newObj ver (mfSet m0 mgr ⟨applyIgnore u ver fs, ver, true⟩) mgr force = .ok (mf, cmp) := by
  simp only [apply] at h
  split at h
  · rename_i m0 hm0
    cases hmerge : mergeTV sc live cfg with
    | ok newObject =>
      cases hfs : toFieldSet sc cfg with
      | ok fs =>
        simp only [hmerge, hfs, liftRes] at h
        split at h
        · rename_i newObj _
          split at h
          · rename_i mf' cmp hu
            refine ⟨m0, fs, newObj, cmp, hm0, rfl, ?_⟩
            split at h <;> (simp only [Outcome.ok.injEq, Prod.mk.injEq] at h; obtain ⟨_, rfl⟩ := h; exact hu)
          · cases h
          · cases h
          · cases h
        · cases h
        · cases h
        · cases h
      | err => simp [hmerge, hfs, liftRes] at h
      | panic => simp [hmerge, hfs, liftRes] at h
    | err => simp [hmerge, liftRes] at h
    | panic => simp [hmerge, liftRes] at h
  · cases h
  · cases h
  · cases h

/-- the record `Update` writes for the acting manager -/
def updateSet (u : Updater) (ver : String) (ms : Managed) (mgr : String) (cmp : Comparison) : SetTrie :=
  applyIgnore u ver
    ((((((mfGet ms mgr).getD ⟨SetTrie.empty, ver, false⟩).set.diff cmp.removed).union cmp.modified).union cmp.added))

theorem update_ok_inv {u : Updater} {sc : Schema} {live newObj : TV} {ver : String} {m : Managed} {mgr : String}
    {mf : Managed} (h : update u sc live newObj ver m mgr = .ok mf) :
    ∃ m0 ms cmp, reconcileManaged u sc live m = .ok m0 ∧
      updateCore u sc live newObj ver m0 mgr true = .ok (ms, cmp) ∧
      mf = if (updateSet u ver ms mgr cmp).isEmpty then mfDelete ms mgr
           else mfSet ms mgr ⟨updateSet u ver ms mgr cmp, ver, false⟩ := by
  simp only [update] at h
  split at h
  · rename_i m0 hm0
    split at h
    · rename_i ms cmp hu
      refine ⟨m0, ms, cmp, hm0, hu, ?_⟩
      simp only [updateSet]
      split at h <;> rename_i he <;> simp only [Outcome.ok.injEq] at h <;> simp [he, h]
    · cases h
    · cases h
    · cases h
  · cases h
  · cases h
  · cases h

theorem compareTV_wf {sc : Schema} {l r : TV} {c : Comparison} (h : compareTV sc l r = .ok c) :
    c.removed.wf = true ∧ c.modified.wf = true ∧ c.added.wf = true := by
  simp only [compareTV] at h
  split at h
  · cases h
  · split at h
    · simp only [Res.ok.injEq] at h
      subst h
      exact ⟨wf_ofPaths _, wf_ofPaths _, wf_ofPaths _⟩
    · cases h
    · cases h

theorem toFieldSet_wf {sc : Schema} {tv : TV} {fs : SetTrie} (h : toFieldSet sc tv = .ok fs) : fs.wf = true := by
  simp only [toFieldSet] at h
  split at h
  · simp only [Res.ok.injEq] at h
    subst h
    exact wf_ofPaths _
  · cases h
  · cases h

/-- what a successful `Apply` does to the managed fields, relative to the reconciled records `m0` with the
acting manager's new record written -/
theorem apply_shape {u : Updater} {sc : Schema} {live cfg : TV} {ver : String} {m m0 : Managed} {mgr : String}
    {force : Bool} {obj : Option TV} {mf : Managed}
    (h : apply u sc live cfg ver m mgr force = .ok (obj, mf))
    (hrec : reconcileManaged u sc live m = .ok m0) :
    ∃ fs, toFieldSet sc cfg = .ok fs ∧
      entriesOf mf mgr =
        (entriesOf (mfSet m0 mgr ⟨applyIgnore u ver fs, ver, true⟩) mgr).filter (fun x => !x.2.set.isEmpty) ∧
      ∀ x ∈ mf, x.2.set.isEmpty = false ∧
        ∃ y ∈ mfSet m0 mgr ⟨applyIgnore u ver fs, ver, true⟩, Shrinks x y := by
  obtain ⟨m0', fs, newObj, cmp, h1, h2, h3⟩ := apply_ok_inv h
  rw [hrec] at h1
  simp only [Outcome.ok.injEq] at h1
  subst h1
  obtain ⟨_, e, mm⟩ := updateCore_ok h3
  exact ⟨fs, h2, e, mm⟩

/-- what a successful `Update` does -/
theorem update_shape {u : Updater} {sc : Schema} {live newObj : TV} {ver : String} {m m0 : Managed} {mgr : String}
    {mf : Managed} (h : update u sc live newObj ver m mgr = .ok mf)
    (hrec : reconcileManaged u sc live m = .ok m0) :
    ∃ ms cmp0, compareTV sc live newObj = .ok cmp0 ∧
      entriesOf ms mgr = (entriesOf m0 mgr).filter (fun x => !x.2.set.isEmpty) ∧
      (∀ x ∈ ms, x.2.set.isEmpty = false ∧ ∃ y ∈ m0, Shrinks x y) ∧
      mf = if (updateSet u ver ms mgr (filterCmp (u.ignore ver) cmp0)).isEmpty then mfDelete ms mgr
           else mfSet ms mgr ⟨updateSet u ver ms mgr (filterCmp (u.ignore ver) cmp0), ver, false⟩ := by
  obtain ⟨m0', ms, cmp, h1, h2, h3⟩ := update_ok_inv h
  rw [hrec] at h1
  simp only [Outcome.ok.injEq] at h1
  subst h1
  obtain ⟨⟨cmp0, hc, rfl⟩, e, mm⟩ := updateCore_ok h2
  exact ⟨ms, cmp0, hc, e, mm, h3⟩

/-! ### consequences used by C05 / C19 -/

theorem apply_no_empty {u : Updater} {sc : Schema} {live cfg : TV} {ver : String} {m : Managed} {mgr : String}
    {force : Bool} {obj : Option TV} {mf : Managed}
    (h : apply u sc live cfg ver m mgr force = .ok (obj, mf)) : ∀ x ∈ mf, x.2.set.isEmpty = false := by
  obtain ⟨m0, fs, newObj, cmp, _, _, h3⟩ := apply_ok_inv h
  exact fun x hx => ((updateCore_ok h3).2.2 x hx).1

theorem update_no_empty {u : Updater} {sc : Schema} {live newObj : TV} {ver : String} {m : Managed} {mgr : String}
    {mf : Managed} (h : update u sc live newObj ver m mgr = .ok mf) : ∀ x ∈ mf, x.2.set.isEmpty = false := by
  obtain ⟨m0, ms, cmp, _, h2, h3⟩ := update_ok_inv h
  have hms := fun x hx => ((updateCore_ok h2).2.2 x hx).1
  intro x hx
  rw [h3] at hx
  split at hx
  · exact hms x (mem_mfDelete hx).1
  · rename_i he
    rcases mem_mfSet hx with rfl | hx
    · simpa using he
    · exact hms x hx

/-- the acting manager's record after `Apply`: the first non-empty entry among the new record and whatever
further entries of the same key the input had -/
theorem apply_owner_entries_sorted {u : Updater} {sc : Schema} {live cfg : TV} {ver : String} {m : Managed}
    {mgr : String} {force : Bool} {obj : Option TV} {mf : Managed}
    (h : apply u sc live cfg ver m mgr force = .ok (obj, mf)) (hs : SortedManaged m) :
    ∃ fs, toFieldSet sc cfg = .ok fs ∧
      mfGet mf mgr =
        (if (applyIgnore u ver fs).isEmpty then none else some ⟨applyIgnore u ver fs, ver, true⟩) := by
  obtain ⟨m0, fs0, newObj, cmp, hrec, _, _⟩ := apply_ok_inv h
  obtain ⟨fs, hfs, e, _⟩ := apply_shape h hrec
  refine ⟨fs, hfs, ?_⟩
  rw [mfGet_eq_head, e, entriesOf_mfSet_self_sorted _ _ (reconcileManaged_sorted hrec hs)]
  cases he : (applyIgnore u ver fs).isEmpty <;> simp [he]

theorem apply_owner_entries_nonempty {u : Updater} {sc : Schema} {live cfg : TV} {ver : String} {m : Managed}
    {mgr : String} {force : Bool} {obj : Option TV} {mf : Managed}
    (h : apply u sc live cfg ver m mgr force = .ok (obj, mf)) :
    ∃ fs, toFieldSet sc cfg = .ok fs ∧
      ((applyIgnore u ver fs).isEmpty = false → mfGet mf mgr = some ⟨applyIgnore u ver fs, ver, true⟩) := by
  obtain ⟨m0, fs0, newObj, cmp, hrec, _, _⟩ := apply_ok_inv h
  obtain ⟨fs, hfs, e, _⟩ := apply_shape h hrec
  refine ⟨fs, hfs, fun he => ?_⟩
  obtain ⟨rest, hr⟩ := entriesOf_mfSet_self mgr ⟨applyIgnore u ver fs, ver, true⟩ m0
  rw [mfGet_eq_head, e, hr]
  simp [he]

/-- a record of another manager after `Apply` descends from an entry of the same key before -/
theorem apply_other_mem {u : Updater} {sc : Schema} {live cfg : TV} {ver : String} {m m0 : Managed} {mgr : String}
    {force : Bool} {obj : Option TV} {mf : Managed} {k : String} {vs' : VersionedSet}
    (h : apply u sc live cfg ver m mgr force = .ok (obj, mf))
    (hrec : reconcileManaged u sc live m = .ok m0) (hk : k ≠ mgr) (hg : mfGet mf k = some vs') :
    ∃ y ∈ m0, Shrinks (k, vs') y := by
  obtain ⟨fs, _, _, mm⟩ := apply_shape h hrec
  obtain ⟨y, hy, hs⟩ := (mm _ (mem_of_mfGet hg)).2
  rcases mem_mfSet hy with rfl | hy
  · exact absurd hs.1 hk
  · exact ⟨y, hy, hs⟩

theorem update_other_mem {u : Updater} {sc : Schema} {live newObj : TV} {ver : String} {m m0 : Managed}
    {mgr : String} {mf : Managed} {k : String} {vs' : VersionedSet}
    (h : update u sc live newObj ver m mgr = .ok mf)
    (hrec : reconcileManaged u sc live m = .ok m0) (hk : k ≠ mgr) (hg : mfGet mf k = some vs') :
    ∃ y ∈ m0, Shrinks (k, vs') y := by
  obtain ⟨ms, cmp0, _, _, mm, hmf⟩ := update_shape h hrec
  have : mfGet ms k = some vs' := by
    rw [hmf] at hg
    split at hg
    · rwa [mfGet_mfDelete_ne hk] at hg
    · rwa [mfGet_mfSet_ne hk] at hg
  exact (mm _ (mem_of_mfGet this)).2

/-- from a descendant entry to the statement about records, when the key has one entry only -/
theorem shrinks_record {m0 : Managed} (hn : (m0.map (·.1)).Nodup) (hwf : ∀ x ∈ m0, x.2.set.wf = true)
    {k : String} {vs' : VersionedSet} (h : ∃ y ∈ m0, Shrinks (k, vs') y) :
    ∃ vs, mfGet m0 k = some vs ∧ vs'.version = vs.version ∧ vs'.applied = vs.applied ∧
      ∀ q, vs'.set.has q = true → vs.set.has q = true := by
  obtain ⟨⟨k', vs⟩, hy, hs⟩ := h
  obtain ⟨h1, h2, h3, h4⟩ := hs
  simp only at h1 h2 h3 h4
  subst h1
  exact ⟨vs, mfGet_of_mem_nodup hn hy, h2, h3, (h4 (hwf _ hy)).2⟩

/-- the record `Update` starts from for the acting manager has the members of its record before -/
theorem update_cur {m0 ms : Managed} {mgr ver : String} (hn : (m0.map (·.1)).Nodup)
    (hwf : ∀ x ∈ m0, x.2.set.wf = true)
    (e : entriesOf ms mgr = (entriesOf m0 mgr).filter (fun x => !x.2.set.isEmpty)) :
    (((mfGet ms mgr).getD ⟨SetTrie.empty, ver, false⟩).set.wf = true) ∧
    ∀ q, ((mfGet ms mgr).getD ⟨SetTrie.empty, ver, false⟩).set.has q =
      (((mfGet m0 mgr).map (·.set)).getD SetTrie.empty).has q := by
  rw [entriesOf_of_nodup hn] at e
  cases hg : mfGet m0 mgr with
  | none =>
    rw [hg] at e
    have : mfGet ms mgr = none := by rw [mfGet_eq_head, e]; rfl
    simp [this, wf_empty]
  | some v =>
    rw [hg] at e
    simp only [List.filter_cons, List.filter_nil] at e
    by_cases he : v.set.isEmpty = true
    · have : mfGet ms mgr = none := by rw [mfGet_eq_head, e]; simp [he]
      simp [this, wf_empty, has_empty, has_of_isEmpty _ _ he]
    · have : mfGet ms mgr = some v := by rw [mfGet_eq_head, e]; simp [he]
      simp [this, hwf _ (mem_of_mfGet hg)]

/-- the acting manager's record after `Update` -/
theorem update_owner_record {ms mf : Managed} {mgr ver : String} {S : SetTrie}
    (hmf : mf = if S.isEmpty then mfDelete ms mgr else mfSet ms mgr ⟨S, ver, false⟩) :
    mfGet mf mgr = if S.isEmpty then none else some ⟨S, ver, false⟩ := by
  rw [hmf]
  split
  · exact mfGet_mfDelete_self _ _
  · exact mfGet_mfSet_self _ _ _

theorem update_owner_exact_of_nodup {u : Updater} {sc : Schema} {live newObj : TV} {ver : String} {m m0 : Managed}
    {mgr : String} {mf : Managed} {cmp : Comparison}
    (hig : u.ignore ver = none) (hrec : reconcileManaged u sc live m = .ok m0)
    (hwf : ∀ x ∈ m0, x.2.set.wf = true) (hn : (m0.map (·.1)).Nodup)
    (hcmp : compareTV sc live newObj = .ok cmp)
    (h : update u sc live newObj ver m mgr = .ok mf) :
    (∀ q, (match mfGet mf mgr with | some vs => vs.set.has q | none => false) =
        (((((mfGet m0 mgr).map (·.set)).getD SetTrie.empty).has q && !cmp.removed.has q) ||
          cmp.modified.has q || cmp.added.has q)) ∧
    (∀ vs, mfGet mf mgr = some vs → vs.version = ver ∧ vs.applied = false) := by
  obtain ⟨ms, cmp0, hc, e, _, hmf⟩ := update_shape h hrec
  rw [hcmp] at hc
  simp only [Res.ok.injEq] at hc
  subst hc
  have hrecd := update_owner_record hmf
  obtain ⟨wr, wm, wa⟩ := compareTV_wf hcmp
  obtain ⟨wcur, hcur⟩ := update_cur (ver := ver) hn hwf e
  have hS : ∀ q, (updateSet u ver ms mgr (filterCmp (u.ignore ver) cmp)).has q =
      (((((mfGet m0 mgr).map (·.set)).getD SetTrie.empty).has q && !cmp.removed.has q) ||
          cmp.modified.has q || cmp.added.has q) := by
    intro q
    simp only [updateSet, applyIgnore, hig, filterCmp]
    rw [has_union q _ _ (wf_union _ _ (wf_diff_left _ _ wcur) wm) wa,
      has_union q _ _ (wf_diff_left _ _ wcur) wm, has_diff_left q _ _ wcur, hcur q]
  constructor
  · intro q
    rw [hrecd, ← hS q]
    by_cases he : (updateSet u ver ms mgr (filterCmp (u.ignore ver) cmp)).isEmpty = true
    · rw [if_pos he, has_of_isEmpty q _ he]
    · rw [if_neg he]
  · intro vs hvs
    rw [hrecd] at hvs
    split at hvs
    · cases hvs
    · simp only [Option.some.injEq] at hvs
      subst hvs
      exact ⟨rfl, rfl⟩

/-! ### ignored fields (exclusion set) -/

/-- a member of a recursive difference is not at or beneath a member of the subtracted set -/
theorem not_ignored_of_has_rdiff {a ex : SetTrie} (ha : a.wf = true) (hex : ex.wf = true) {q : Path}
    (h : (a.rdiff ex).has q = true) : (prefixesOf q).any (fun r => ex.has r) = false := by
  rw [has_rdiff q a ex ha hex] at h
  simp only [Bool.and_eq_true, Bool.not_eq_true'] at h
  exact h.2

theorem update_actor_not_ignored {u : Updater} {sc : Schema} {live newObj : TV} {ver : String} {m m0 : Managed}
    {mgr : String} {mf : Managed} {ex : SetTrie} {vs : VersionedSet}
    (hig : u.ignore ver = some (.exclude ex)) (hex : ex.wf = true)
    (hrec : reconcileManaged u sc live m = .ok m0) (hwf : ∀ x ∈ m0, x.2.set.wf = true)
    (h : update u sc live newObj ver m mgr = .ok mf) (hg : mfGet mf mgr = some vs) :
    ∀ q, vs.set.has q = true → (prefixesOf q).any (fun r => ex.has r) = false := by
  obtain ⟨ms, cmp0, hc, _, mm, hmf⟩ := update_shape h hrec
  rw [update_owner_record hmf] at hg
  split at hg
  · cases hg
  · simp only [Option.some.injEq] at hg
    subst hg
    obtain ⟨wr, wm, wa⟩ := compareTV_wf hc
    have wcur : ((mfGet ms mgr).getD ⟨SetTrie.empty, ver, false⟩).set.wf = true := by
      cases hgm : mfGet ms mgr with
      | none => exact wf_empty
      | some v =>
        obtain ⟨y, hy, hs⟩ := (mm _ (mem_of_mfGet hgm)).2
        exact (hs.2.2.2 (hwf y hy)).1
    intro q hq
    simp only [updateSet, applyIgnore, hig, filterCmp, Filter.apply] at hq
    refine not_ignored_of_has_rdiff ?_ hex hq
    exact wf_union _ _ (wf_union _ _ (wf_diff_left _ _ wcur) (wf_rdiff _ _ wm hex)) (wf_rdiff _ _ wa hex)

theorem apply_actor_not_ignored_of_sorted {u : Updater} {sc : Schema} {live cfg : TV} {ver : String} {m : Managed}
    {mgr : String} {force : Bool} {obj : Option TV} {mf : Managed} {ex : SetTrie} {vs : VersionedSet}
    (hig : u.ignore ver = some (.exclude ex)) (hex : ex.wf = true) (hs : SortedManaged m)
    (h : apply u sc live cfg ver m mgr force = .ok (obj, mf)) (hg : mfGet mf mgr = some vs) :
    ∀ q, vs.set.has q = true → (prefixesOf q).any (fun r => ex.has r) = false := by
  obtain ⟨fs, hfs, e⟩ := apply_owner_entries_sorted h hs
  rw [e] at hg
  split at hg
  · cases hg
  · simp only [Option.some.injEq] at hg
    subst hg
    intro q hq
    simp only [applyIgnore, hig, Filter.apply] at hq
    exact not_ignored_of_has_rdiff (toFieldSet_wf hfs) hex hq

/-- without sortedness: as long as the record found is the one this `Apply` wrote -/
theorem apply_actor_not_ignored_nonempty {u : Updater} {sc : Schema} {live cfg : TV} {ver : String} {m : Managed}
    {mgr : String} {force : Bool} {obj : Option TV} {mf : Managed} {ex : SetTrie} {vs : VersionedSet}
    (hig : u.ignore ver = some (.exclude ex)) (hex : ex.wf = true)
    (hne : ∀ fs, toFieldSet sc cfg = .ok fs → (fs.rdiff ex).isEmpty = false)
    (h : apply u sc live cfg ver m mgr force = .ok (obj, mf)) (hg : mfGet mf mgr = some vs) :
    ∀ q, vs.set.has q = true → (prefixesOf q).any (fun r => ex.has r) = false := by
  obtain ⟨fs, hfs, e⟩ := apply_owner_entries_nonempty h
  have hne' : (applyIgnore u ver fs).isEmpty = false := by
    simpa only [applyIgnore, hig, Filter.apply] using hne fs hfs
  rw [e hne'] at hg
  simp only [Option.some.injEq] at hg
  subst hg
  intro q hq
  simp only [applyIgnore, hig, Filter.apply] at hq
  exact not_ignored_of_has_rdiff (toFieldSet_wf hfs) hex hq

end SMD
