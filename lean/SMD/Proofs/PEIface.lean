/-
Interface lemmas about the path-element order used by the set algebra (C15); they are the C17
path-element laws proved in `SMD/Proofs/ValueOrder.lean`.
-/
import SMD.Proofs.ValueOrder
namespace SMD.PEIface

theorem pe_compare_eq_iff_equals (a b : PE) : PE.compare a b = .eq ↔ PE.equals a b = true :=
  PE.compare_eq_iff a b
theorem pe_compare_swap (a b : PE) : PE.compare b a = (PE.compare a b).swap := PE.compare_swap a b
theorem pe_compare_trans {a b c : PE} :
    PE.compare a b ≠ .gt → PE.compare b c ≠ .gt → PE.compare a c ≠ .gt := PE.compare_le_trans
theorem pe_less_iff (a b : PE) : PE.less a b = true ↔ PE.compare a b = .lt := PE.less_iff a b
theorem pe_equals_refl (a : PE) : PE.equals a a = true := PE.equals_refl a
theorem pe_equals_symm (a b : PE) : PE.equals a b = PE.equals b a := PE.equals_symm a b

end SMD.PEIface
