/-
Convenience lemmas about the path-element order, all derived from the interface `SMD.PEIface`.
`PE.less` is a strict weak order whose induced equivalence is `PE.equals`.
-/
import SMD.Model.Path
import SMD.Proofs.PEIface
namespace SMD
namespace PE
open SMD.PEIface

theorem compare_lt_iff (a b : PE) : PE.compare a b = .lt ↔ PE.less a b = true :=
  (pe_less_iff a b).symm

theorem compare_gt_iff (a b : PE) : PE.compare a b = .gt ↔ PE.less b a = true := by
  rw [pe_less_iff, pe_compare_swap a b]
  cases PE.compare a b <;> simp [Ordering.swap]



theorem equals_symm_of {a b : PE} (h : PE.equals a b = true) : PE.equals b a = true := by
  rw [pe_equals_symm]; exact h

theorem equals_comm (a b : PE) : PE.equals a b = PE.equals b a := pe_equals_symm a b

/-- trichotomy, as a case split -/
theorem tri (a b : PE) :
    (PE.less a b = true ∧ PE.equals a b = false ∧ PE.less b a = false) ∨
    (PE.less a b = false ∧ PE.equals a b = true ∧ PE.less b a = false) ∨
    (PE.less a b = false ∧ PE.equals a b = false ∧ PE.less b a = true) := by
  have h1 := compare_lt_iff a b
  have h2 := compare_eq_iff a b
  have h3 := compare_gt_iff a b
  cases h : PE.compare a b <;> simp [h] at h1 h2 h3
  · left; exact ⟨h1, h2, h3⟩
  · right; left; exact ⟨h1, h2, h3⟩
  · right; right; exact ⟨h1, h2, h3⟩

theorem not_less_of_less {a b : PE} (h : PE.less a b = true) : PE.less b a = false := by
  rcases tri a b with h' | h' | h' <;> simp_all

theorem not_equals_of_less {a b : PE} (h : PE.less a b = true) : PE.equals a b = false := by
  rcases tri a b with h' | h' | h' <;> simp_all

theorem not_equals_of_less' {a b : PE} (h : PE.less a b = true) : PE.equals b a = false := by
  rw [equals_comm]; exact not_equals_of_less h

theorem not_less_of_equals {a b : PE} (h : PE.equals a b = true) : PE.less a b = false := by
  rcases tri a b with h' | h' | h' <;> simp_all

theorem not_less_of_equals' {a b : PE} (h : PE.equals a b = true) : PE.less b a = false := by
  rcases tri a b with h' | h' | h' <;> simp_all

theorem less_irrefl (a : PE) : PE.less a a = false := not_less_of_equals (equals_refl a)

theorem equals_of_not_less {a b : PE} (h1 : PE.less a b = false) (h2 : PE.less b a = false) :
    PE.equals a b = true := by
  rcases tri a b with h' | h' | h' <;> simp_all

private theorem ne_gt_iff (a b : PE) : PE.compare a b ≠ .gt ↔ PE.less b a = false := by
  rw [← Bool.not_eq_true, ← compare_gt_iff]

/-- `a ≤ b → b ≤ c → a ≤ c` where `x ≤ y` is `¬ y < x` -/
theorem le_trans {a b c : PE} (h1 : PE.less b a = false) (h2 : PE.less c b = false) :
    PE.less c a = false := by
  rw [← ne_gt_iff] at *
  exact pe_compare_trans h1 h2

theorem less_trans {a b c : PE} (h1 : PE.less a b = true) (h2 : PE.less b c = true) :
    PE.less a c = true := by
  -- otherwise c ≤ a, and a ≤ b, so c ≤ b, contradiction
  cases h : PE.less a c
  · have := le_trans h (not_less_of_less h1)
    simp_all
  · rfl

theorem less_of_less_of_le {a b c : PE} (h1 : PE.less a b = true) (h2 : PE.less c b = false) :
    PE.less a c = true := by
  cases h : PE.less a c
  · have := le_trans h2 h
    simp_all
  · rfl

theorem less_of_le_of_less {a b c : PE} (h1 : PE.less b a = false) (h2 : PE.less b c = true) :
    PE.less a c = true := by
  cases h : PE.less a c
  · have := le_trans h h1
    simp_all
  · rfl

theorem less_of_less_of_equals {a b c : PE} (h1 : PE.less a b = true) (h2 : PE.equals b c = true) :
    PE.less a c = true :=
  less_of_less_of_le h1 (not_less_of_equals' h2)

theorem less_of_equals_of_less {a b c : PE} (h1 : PE.equals a b = true) (h2 : PE.less b c = true) :
    PE.less a c = true :=
  less_of_le_of_less (not_less_of_equals' h1) h2

theorem equals_trans {a b c : PE} (h1 : PE.equals a b = true) (h2 : PE.equals b c = true) :
    PE.equals a c = true := by
  apply equals_of_not_less
  · exact le_trans (not_less_of_equals h2) (not_less_of_equals h1)
  · exact le_trans (not_less_of_equals' h1) (not_less_of_equals' h2)

/-- congruence of `less` in the left argument -/
theorem less_congr_left {a b : PE} (h : PE.equals a b = true) (c : PE) :
    PE.less a c = PE.less b c := by
  cases h1 : PE.less b c
  · cases h2 : PE.less a c
    · rfl
    · have := less_of_equals_of_less (equals_symm_of h) h2; simp_all
  · exact less_of_equals_of_less h h1

/-- congruence of `less` in the right argument -/
theorem less_congr_right {a b : PE} (h : PE.equals a b = true) (c : PE) :
    PE.less c a = PE.less c b := by
  cases h1 : PE.less c b
  · cases h2 : PE.less c a
    · rfl
    · have := less_of_less_of_equals h2 h; simp_all
  · exact less_of_less_of_equals h1 (equals_symm_of h)

theorem equals_congr_left {a b : PE} (h : PE.equals a b = true) (c : PE) :
    PE.equals a c = PE.equals b c := by
  cases h1 : PE.equals b c
  · cases h2 : PE.equals a c
    · rfl
    · have := equals_trans (equals_symm_of h) h2; simp_all
  · exact equals_trans h h1

theorem equals_congr_right {a b : PE} (h : PE.equals a b = true) (c : PE) :
    PE.equals c a = PE.equals c b := by
  rw [equals_comm c a, equals_comm c b]; exact equals_congr_left h c

end PE
end SMD

/-! ### `PE` as a linear preorder, so that `grind`'s order solver can be used

`a < b` is `PE.less a b`, `a ≤ b` is `¬ PE.less b a`, and `PE.equals a b` is `a ≤ b ∧ b ≤ a`.
The instances are scoped: `open SMD.PEOrd` to use them. -/
namespace SMD.PEOrd

scoped instance instLEPE : LE PE := ⟨fun a b => PE.less b a = false⟩
scoped instance instLTPE : LT PE := ⟨fun a b => PE.less a b = true⟩

theorem le_def (a b : PE) : (a ≤ b) = (PE.less b a = false) := rfl
theorem lt_def (a b : PE) : (a < b) = (PE.less a b = true) := rfl

scoped instance : Std.IsLinearPreorder PE where
  le_refl a := PE.less_irrefl a
  le_trans _ _ _ h1 h2 := PE.le_trans h1 h2
  le_total a b := by
    simp only [le_def]
    rcases PE.tri a b with h | h | h <;> simp [h]

scoped instance : Std.LawfulOrderLT PE where
  lt_iff a b := by
    simp only [le_def, lt_def]
    rcases PE.tri a b with h | h | h <;> simp [h]

theorem less_eq_lt (a b : PE) : (PE.less a b = true) = (a < b) := rfl

theorem equals_eq_le (a b : PE) : (PE.equals a b = true) = (a ≤ b ∧ b ≤ a) := by
  simp only [le_def]
  rcases PE.tri a b with h | h | h <;> simp [h]

theorem compare_lt_eq (a b : PE) : (PE.compare a b = .lt) = (a < b) := by
  rw [PE.compare_lt_iff]; rfl

theorem compare_gt_eq (a b : PE) : (PE.compare a b = .gt) = (b < a) := by
  rw [PE.compare_gt_iff]; rfl

theorem compare_eq_eq (a b : PE) : (PE.compare a b = .eq) = (a ≤ b ∧ b ≤ a) := by
  rw [PE.compare_eq_iff, equals_eq_le]

end SMD.PEOrd
