/-
Concrete runs of the model refuting the three C14 partition statements as first written (world: the
empty schema with inlined types):

* an empty map yields no field-set path and is extracted as nothing (null);
* the items of a non-empty list that is neither atomic nor associative all carry the invalid path
  element: two map items are marked as one repeated element, and extracting that element yields nulls;
* removing a key field of a keyed-list item without removing the item changes the item's identity to
  the schema default of the key, and a path of the removed set through that identity designates a
  field again;
* an item all of whose fields are removed is left as null, whose path element is the invalid one;
* the merge puts the items found only on the left before those found only on the right: removing a
  member from the middle of a set and merging it back moves it to the end.
-/
import SMD.Proofs.PartitionFields
namespace SMD.Counter14
open SetTrie

/-- an untyped scalar -/
def scalarTR : TypeRef := .mk none (.mk (some "untyped") none none) none
/-- a map of scalars -/
def mapTR : TypeRef := .mk none (.mk none none (some (.mk [] [] scalarTR ""))) none
/-- a list of maps of scalars whose relationship is neither atomic nor associative -/
def plainListTR : TypeRef := .mk none (.mk none (some (.mk mapTR "" [])) none) none
/-- a set of scalars -/
def setTR : TypeRef := .mk none (.mk none (some (.mk scalarTR "associative" [])) none) none
/-- an item type whose key field "name" has the default "d" -/
def itemTR : TypeRef :=
  .mk none (.mk none none (some (.mk [.mk "name" scalarTR (some (.str "d")), .mk "x" scalarTR none] [] .zero ""))) none
/-- a list keyed by "name" -/
def keyedTR : TypeRef := .mk none (.mk none (some (.mk itemTR "associative" ["name"])) none) none

/-! #### extraction of all leaves: an empty map -/

def emptyTV : TV := ⟨.map [], mapTR⟩
theorem empty_valid : validateV ⟨[]⟩ false emptyTV.type emptyTV.value = .ok () := by with_unfolding_all rfl
theorem empty_canonical : C12.canonical emptyTV.value = true := by with_unfolding_all rfl
theorem empty_fs : toFieldSet ⟨[]⟩ emptyTV = .ok (ofPaths []) := by with_unfolding_all rfl
theorem empty_extract : (extractItemsTV ⟨[]⟩ emptyTV (ofPaths []).leaves false).value = .null := by
  with_unfolding_all rfl
theorem empty_assoc : listsAssociative ⟨[]⟩ emptyTV.type emptyTV.value = true := by with_unfolding_all rfl

/-! #### extraction of all leaves: a list that is neither atomic nor associative -/

def twoTV : TV := ⟨.list [.map [("x", .int 1)], .map [("x", .int 2)]], plainListTR⟩
theorem two_valid : validateV ⟨[]⟩ false twoTV.type twoTV.value = .ok () := by with_unfolding_all rfl
theorem two_canonical : C12.canonical twoTV.value = true := by with_unfolding_all rfl
theorem two_plain : Part.plain twoTV.value = true := by with_unfolding_all rfl
theorem two_fs : toFieldSet ⟨[]⟩ twoTV = .ok (ofPaths [[.invalid]]) := by with_unfolding_all rfl
theorem two_extract : (extractItemsTV ⟨[]⟩ twoTV (ofPaths [[.invalid]]).leaves false).value =
    .list [.null, .null] := by with_unfolding_all rfl

/-! #### removal: a key field removed without its item -/

def kA : PE := .key [("name", .str "a")]
def kD : PE := .key [("name", .str "d")]
def keyTV : TV := ⟨.list [.map [("name", .str "a"), ("x", .int 1)]], keyedTR⟩
def keySet : SetTrie := ofPaths [[kA, .field "name"], [kD, .field "x"]]
theorem key_valid : validateV ⟨[]⟩ false keyTV.type keyTV.value = .ok () := by with_unfolding_all rfl
theorem key_canonical : C12.canonical keyTV.value = true := by with_unfolding_all rfl
theorem key_wf : keySet.wf = true := by with_unfolding_all rfl
theorem key_removed : (removeItemsTV ⟨[]⟩ keyTV keySet).value = .list [.map [("x", .int 1)]] := by
  with_unfolding_all rfl
theorem key_fs : toFieldSet ⟨[]⟩ (removeItemsTV ⟨[]⟩ keyTV keySet) = .ok (ofPaths [[kD, .field "x"], [kD]]) := by
  with_unfolding_all rfl
theorem key_has : keySet.has [kD, .field "x"] = true := by with_unfolding_all rfl
theorem key_fs_has : (ofPaths [[kD, .field "x"], [kD]]).has [kD, .field "x"] = true := by with_unfolding_all rfl

/-! #### removal: an item left as null -/

def nullTV : TV := ⟨.list [.map [("x", .int 1)]], keyedTR⟩
def nullSet : SetTrie := ofPaths [[kD, .field "x"], [.invalid]]
theorem null_valid : validateV ⟨[]⟩ false nullTV.type nullTV.value = .ok () := by with_unfolding_all rfl
theorem null_canonical : C12.canonical nullTV.value = true := by with_unfolding_all rfl
theorem null_wf : nullSet.wf = true := by with_unfolding_all rfl
theorem null_removed : (removeItemsTV ⟨[]⟩ nullTV nullSet).value = .list [.null] := by with_unfolding_all rfl
theorem null_fs : toFieldSet ⟨[]⟩ (removeItemsTV ⟨[]⟩ nullTV nullSet) = .ok (ofPaths [[.invalid]]) := by
  with_unfolding_all rfl
theorem null_has : nullSet.has [.invalid] = true := by with_unfolding_all rfl
theorem null_fs_has : (ofPaths [[PE.invalid]]).has [.invalid] = true := by with_unfolding_all rfl

/-- the set never removes a key field of a list item without removing the item -/
theorem null_guarded : NodeLaws.KeysGuarded nullSet := by
  intro pre fl k rest h hk
  exfalso
  unfold nullSet at h
  rw [SetTrie.has_ofPaths] at h
  match pre, h with
  | [], h =>
    simp only [List.nil_append, List.any_cons, List.any_nil, Path.equals, List.isEmpty_cons, Bool.not_false,
      Bool.true_and, Bool.and_false, Bool.or_false, Bool.and_eq_true, kD, PE.equals] at h
    obtain ⟨h1, h2, _⟩ := h
    have hk2 : "x" = k := by simpa using h2
    subst hk2
    match fl, h1, hk with
    | [], h1, hk => simp at hk
    | [(n, v)], h1, hk =>
      simp only [FieldList.equals, Value.equalsFields, Bool.and_eq_true, beq_iff_eq] at h1
      simp only [List.map_cons, List.map_nil, List.mem_singleton] at hk
      rw [← h1.1.1] at hk
      exact absurd hk (by decide)
    | _ :: _ :: _, h1, _ => simp [FieldList.equals, Value.equalsFields] at h1
  | [a], h => simp [Path.equals, kD, PE.equals] at h
  | _ :: _ :: _, h => simp [Path.equals] at h

/-! #### the partition law: a member removed from the middle of a set -/

def v1 : PE := .value (.int 1)
def v2 : PE := .value (.int 2)
def v3 : PE := .value (.int 3)
def setTV : TV := ⟨.list [.int 1, .int 2, .int 3], setTR⟩
def setFS : SetTrie := ofPaths [[v1], [v2], [v3]]
def midSet : SetTrie := ofPaths [[v2]]
theorem set_valid : validateV ⟨[]⟩ false setTV.type setTV.value = .ok () := by with_unfolding_all rfl
theorem set_canonical : C12.canonical setTV.value = true := by with_unfolding_all rfl
theorem set_fs : toFieldSet ⟨[]⟩ setTV = .ok setFS := by with_unfolding_all rfl
theorem mid_wf : midSet.wf = true := by with_unfolding_all rfl
theorem mid_node : midSet = .node [v2] [] := by with_unfolding_all rfl
/-- `Set.Union` is defined by well-founded recursion: unfold it by its equation -/
theorem mid_extractSet : Part.extractSet setFS midSet = midSet := by
  have hK : ((midSet.paths.filter (fun p => setFS.has p)).flatMap keyFieldPaths) = [] := by
    with_unfolding_all rfl
  unfold Part.extractSet
  rw [hK, mid_node]
  show SetTrie.union (.node [v2] []) (.node [] []) = .node [v2] []
  rw [SetTrie.union]
  simp [SetTrie.peUnion, SetTrie.unionChildren]
theorem set_extracted : extractItemsTV ⟨[]⟩ setTV midSet true = ⟨.list [.int 2], setTR⟩ := by
  rw [Part.extractItemsTV_appendKeys ⟨[]⟩ setTV setFS midSet set_fs, mid_extractSet]
  with_unfolding_all rfl
theorem set_merge : mergeTV ⟨[]⟩ (removeItemsTV ⟨[]⟩ setTV midSet) (extractItemsTV ⟨[]⟩ setTV midSet true) =
    .ok ⟨.list [.int 1, .int 3, .int 2], setTR⟩ := by
  rw [set_extracted]
  with_unfolding_all rfl
theorem set_not_equal : Value.equals (Value.list [.int 1, .int 3, .int 2]) setTV.value = false := by
  with_unfolding_all rfl
theorem set_leaf : setFS.leaves.has [v2] = true := by with_unfolding_all rfl

/-- the members of the removed set: one path, a single value element -/
theorem mid_members (p : Path) (h : midSet.has p = true) : Path.equals [v2] p = true ∧ ∃ x, p = [PE.value x] := by
  unfold midSet at h
  rw [SetTrie.has_ofPaths] at h
  simp only [List.any_cons, List.any_nil, Bool.or_false, List.isEmpty_cons, Bool.not_false, Bool.true_and] at h
  refine ⟨h, ?_⟩
  match p, h with
  | [], h => simp [Path.equals] at h
  | [pe], h =>
    cases pe with
    | value x => exact ⟨x, rfl⟩
    | _ => simp [Path.equals, v2, PE.equals] at h
  | _ :: _ :: _, h => simp [Path.equals] at h

theorem mid_leaves (p : Path) (h : midSet.has p = true) : setFS.leaves.has p = true := by
  rw [← Part.has_congr_path' (mid_members p h).1]; exact set_leaf

theorem mid_nokeys (p : Path) (h : midSet.has p = true) : ∀ q ∈ keyFieldPaths p, q ≠ p := by
  obtain ⟨_, x, rfl⟩ := mid_members p h
  intro q hq
  simp [keyFieldPaths, keyFieldPaths.go] at hq

/-! #### the partition law: a root that may be a list or a map, nothing removed -/

/-- a set of scalars or a map of scalars -/
def unionTR : TypeRef :=
  .mk none (.mk none (some (.mk scalarTR "associative" [])) (some (.mk [] [] scalarTR ""))) none
def unionTV : TV := ⟨.list [.int 1], unionTR⟩
theorem union_valid : validateV ⟨[]⟩ false unionTV.type unionTV.value = .ok () := by with_unfolding_all rfl
theorem union_canonical : C12.canonical unionTV.value = true := by with_unfolding_all rfl
theorem union_fs : toFieldSet ⟨[]⟩ unionTV = .ok (ofPaths [[v1]]) := by with_unfolding_all rfl
theorem union_assoc : listsAssociative ⟨[]⟩ unionTV.type unionTV.value = true := by with_unfolding_all rfl
theorem union_plain : Part.plain unionTV.value = true := by with_unfolding_all rfl
theorem union_keys : keysScalar ⟨[]⟩ unionTV.type unionTV.value = true := by with_unfolding_all rfl
theorem empty_node : (ofPaths [] : SetTrie) = .node [] [] := rfl
theorem union_extractSet : Part.extractSet (ofPaths [[v1]]) (ofPaths []) = ofPaths [] := by
  have hK : (((ofPaths [] : SetTrie).paths.filter (fun p => (ofPaths [[v1]]).has p)).flatMap keyFieldPaths) = [] := by
    with_unfolding_all rfl
  unfold Part.extractSet
  rw [hK, empty_node, SetTrie.union]
  simp [SetTrie.peUnion, SetTrie.unionChildren]
theorem union_merge : mergeTV ⟨[]⟩ (removeItemsTV ⟨[]⟩ unionTV (ofPaths []))
    (extractItemsTV ⟨[]⟩ unionTV (ofPaths []) true) = .ok ⟨.null, unionTR⟩ := by
  rw [Part.extractItemsTV_appendKeys ⟨[]⟩ unionTV _ _ union_fs, union_extractSet]
  with_unfolding_all rfl
theorem union_not_equal : Value.equals Value.null unionTV.value = false := by with_unfolding_all rfl

/-! #### non-vacuity of the law for objects without lists: `{a: {x: 1, y: 2}, b: 3}`, S = {.a.x, .b} -/

/-- a map of maps of scalars, or scalars -/
def nestTR : TypeRef :=
  .mk none (.mk none none (some (.mk [.mk "a" mapTR none, .mk "b" scalarTR none] [] .zero ""))) none
def nestTV : TV := ⟨.map [("a", .map [("x", .int 1), ("y", .int 2)]), ("b", .int 3)], nestTR⟩
def nestFS : SetTrie := ofPaths [[.field "a", .field "x"], [.field "a", .field "y"], [.field "b"]]
def nestSet : SetTrie := ofPaths [[.field "a", .field "x"], [.field "b"]]
theorem nest_valid : validateV ⟨[]⟩ false nestTV.type nestTV.value = .ok () := by with_unfolding_all rfl
theorem nest_canonical : C12.canonical nestTV.value = true := by with_unfolding_all rfl
theorem nest_fs : toFieldSet ⟨[]⟩ nestTV = .ok nestFS := by with_unfolding_all rfl
theorem nest_wf : nestSet.wf = true := by with_unfolding_all rfl
theorem nest_nolists : Part.noLists nestTV.value = true := by with_unfolding_all rfl
theorem nest_plain : Part.plain nestTV.value = true := by with_unfolding_all rfl
theorem nest_leaf1 : nestFS.leaves.has [.field "a", .field "x"] = true := by with_unfolding_all rfl
theorem nest_leaf2 : nestFS.leaves.has [.field "b"] = true := by with_unfolding_all rfl
theorem nest_leaves (p : Path) (h : nestSet.has p = true) : nestFS.leaves.has p = true := by
  unfold nestSet at h
  rw [SetTrie.has_ofPaths] at h
  simp only [List.any_cons, List.any_nil, Bool.or_false, List.isEmpty_cons, Bool.not_false, Bool.true_and,
    Bool.or_eq_true] at h
  rcases h with h | h
  · rw [← Part.has_congr_path' h]; exact nest_leaf1
  · rw [← Part.has_congr_path' h]; exact nest_leaf2
theorem nest_node : nestSet = .node [.field "b"] [(.field "a", .node [.field "x"] [])] := by
  with_unfolding_all rfl
theorem nest_extractSet : Part.extractSet nestFS nestSet = nestSet := by
  have hK : ((nestSet.paths.filter (fun p => nestFS.has p)).flatMap keyFieldPaths) = [] := by
    with_unfolding_all rfl
  unfold Part.extractSet
  rw [hK, nest_node]
  show SetTrie.union _ (.node [] []) = _
  rw [SetTrie.union]
  simp [SetTrie.peUnion, SetTrie.unionChildren]
theorem nest_merge : mergeTV ⟨[]⟩ (removeItemsTV ⟨[]⟩ nestTV nestSet) (extractItemsTV ⟨[]⟩ nestTV nestSet true) =
    .ok nestTV := by
  rw [Part.extractItemsTV_appendKeys ⟨[]⟩ nestTV nestFS nestSet nest_fs, nest_extractSet]
  with_unfolding_all rfl
theorem nest_removed : (removeItemsTV ⟨[]⟩ nestTV nestSet).value = .map [("a", .map [("y", .int 2)])] := by
  with_unfolding_all rfl

/-! #### non-vacuity of the law for sets of map entries: `{items: [{name: a, x: 1}, {name: d, x: 2}]}`,
S = {.items[name=a].x}; the key field `.items[name=a].name` is extracted with it -/

def itemsTR : TypeRef := .mk none (.mk none none (some (.mk [.mk "items" keyedTR none] [] .zero ""))) none
def itemsTV : TV :=
  ⟨.map [("items", .list [.map [("name", .str "a"), ("x", .int 1)], .map [("name", .str "d"), ("x", .int 2)]])],
   itemsTR⟩
def itemsSet : SetTrie := ofPaths [[.field "items", kA, .field "x"]]
def itemsFS : SetTrie :=
  ofPaths [[.field "items", kA, .field "name"], [.field "items", kA, .field "x"], [.field "items", kA],
    [.field "items", kD, .field "name"], [.field "items", kD, .field "x"], [.field "items", kD]]
theorem items_valid : validateV ⟨[]⟩ false itemsTV.type itemsTV.value = .ok () := by with_unfolding_all rfl
theorem items_canonical : C12.canonical itemsTV.value = true := by with_unfolding_all rfl
theorem items_assoc : listsAssociative ⟨[]⟩ itemsTV.type itemsTV.value = true := by with_unfolding_all rfl
theorem items_plain : Part.plain itemsTV.value = true := by with_unfolding_all rfl
theorem items_keys : keysScalar ⟨[]⟩ itemsTV.type itemsTV.value = true := by with_unfolding_all rfl
theorem items_fs : toFieldSet ⟨[]⟩ itemsTV = .ok itemsFS := by with_unfolding_all rfl
theorem items_wf : itemsSet.wf = true := by with_unfolding_all rfl
theorem items_leaf : itemsFS.leaves.has [.field "items", kA, .field "x"] = true := by with_unfolding_all rfl
theorem items_node : itemsSet = .node [] [(.field "items", .node [] [(kA, .node [.field "x"] [])])] := by
  with_unfolding_all rfl
theorem items_K : SetTrie.ofPaths ((itemsSet.paths.filter (fun p => itemsFS.has p)).flatMap keyFieldPaths) =
    .node [] [(.field "items", .node [] [(kA, .node [.field "name"] [])])] := by with_unfolding_all rfl
theorem items_l1 : PE.less (.field "items") (.field "items") = false := by with_unfolding_all rfl
theorem items_l2 : PE.less kA kA = false := by with_unfolding_all rfl
theorem items_l3 : PE.less (.field "x") (.field "name") = false := by with_unfolding_all rfl
theorem items_l4 : PE.less (.field "name") (.field "x") = true := by with_unfolding_all rfl
/-- the extracted set: the member and the key field of its item -/
theorem items_extractSet : Part.extractSet itemsFS itemsSet =
    .node [] [(.field "items", .node [] [(kA, .node [.field "name", .field "x"] [])])] := by
  unfold Part.extractSet
  rw [items_K, items_node]
  rw [SetTrie.union]
  simp only [SetTrie.peUnion, SetTrie.unionChildren, items_l1, Bool.false_eq_true, if_false, Bool.not_false, if_true]
  rw [SetTrie.union]
  simp only [SetTrie.peUnion, SetTrie.unionChildren, items_l2, Bool.false_eq_true, if_false, Bool.not_false, if_true]
  rw [SetTrie.union]
  simp only [SetTrie.peUnion, SetTrie.unionChildren, items_l3, items_l4, Bool.false_eq_true, if_false, Bool.not_true]
theorem items_merge : mergeTV ⟨[]⟩ (removeItemsTV ⟨[]⟩ itemsTV itemsSet) (extractItemsTV ⟨[]⟩ itemsTV itemsSet true) =
    .ok itemsTV := by
  rw [Part.extractItemsTV_appendKeys ⟨[]⟩ itemsTV itemsFS itemsSet items_fs, items_extractSet]
  with_unfolding_all rfl
theorem items_removed : (removeItemsTV ⟨[]⟩ itemsTV itemsSet).value =
    .map [("items", .list [.map [("name", .str "a")], .map [("name", .str "d"), ("x", .int 2)]])] := by
  with_unfolding_all rfl

/-- the members of the set: one path, through a key element with the one name "name" -/
theorem items_members (p : Path) (h : itemsSet.has p = true) :
    Path.equals [.field "items", kA, .field "x"] p = true ∧
      ∃ fl, fl.map (·.1) = ["name"] ∧ p = [.field "items", .key fl, .field "x"] := by
  unfold itemsSet at h
  rw [SetTrie.has_ofPaths] at h
  simp only [List.any_cons, List.any_nil, Bool.or_false, List.isEmpty_cons, Bool.not_false, Bool.true_and] at h
  refine ⟨h, ?_⟩
  match p, h with
  | [a, b, c], h =>
    simp only [Path.equals, Bool.and_eq_true, Bool.and_true] at h
    obtain ⟨h1, h2, h3⟩ := h
    have ha := Part.pe_equals_field_left h1
    have hc := Part.pe_equals_field_left h3
    obtain ⟨fl, hb, hn⟩ := Part.pe_equals_key_left h2
    exact ⟨fl, hn.symm, by rw [ha, hb, hc]⟩
  | [], h => simp [Path.equals] at h
  | [_], h => simp [Path.equals] at h
  | [_, _], h => simp [Path.equals] at h
  | _ :: _ :: _ :: _ :: _, h => simp [Path.equals] at h

theorem items_leaves (p : Path) (h : itemsSet.has p = true) : itemsFS.leaves.has p = true := by
  rw [← Part.has_congr_path' (items_members p h).1]; exact items_leaf

theorem items_fields (p : Path) (h : itemsSet.has p = true) : ∃ q k, p = q ++ [PE.field k] := by
  obtain ⟨_, fl, _, rfl⟩ := items_members p h
  exact ⟨[.field "items", .key fl], "x", rfl⟩

theorem items_nokeys (p : Path) (h : itemsSet.has p = true) : ∀ q ∈ keyFieldPaths p, q ≠ p := by
  obtain ⟨_, fl, hn, rfl⟩ := items_members p h
  intro q hq heq
  obtain ⟨pre, fl', k, rest, hp, hk, rfl⟩ := (Part.mem_keyFieldPaths _ _).1 hq
  match pre, hp, heq with
  | [], hp, _ => simp at hp
  | [a], hp, heq =>
    simp only [List.cons_append, List.nil_append, List.cons.injEq, PE.key.injEq] at hp heq
    obtain ⟨_, hfl, _⟩ := hp
    obtain ⟨_, _, hk', _⟩ := heq
    rw [← hfl, hn] at hk
    simp only [PE.field.injEq] at hk'
    rw [hk'] at hk
    simp at hk
  | [a, b], hp, _ => simp at hp
  | _ :: _ :: _ :: _, hp, _ => simp at hp

end SMD.Counter14
