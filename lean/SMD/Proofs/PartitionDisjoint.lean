/-
The field set of what `RemoveItems` leaves is disjoint from the removed set (helper lemmas for
`SMD/Properties/C14Partition.lean`), for sets that never remove a key field of a list item without
removing the item (`NodeLaws.KeysGuarded`) and contain no path through the invalid path element.
-/
import SMD.Proofs.PartitionLeaves
set_option linter.unusedSimpArgs false
set_option linter.unusedVariables false
set_option linter.unnecessarySimpa false
namespace SMD
namespace Part
open SetTrie NodeLaws CmpX

/-- no member of the set passes through the invalid path element (the element the walkers give to a list
item that has no identity) -/
def NoInvalid (S : SetTrie) : Prop := ∀ q, S.has q = true → PE.invalid ∉ q

theorem NoInvalid.withPrefix {S : SetTrie} (h : NoInvalid S) (pe : PE) : NoInvalid (withPrefix pe S) := by
  intro q hq hmem
  have hne := has_true_ne_nil hq
  rw [has_withPrefix_cons pe S q hne] at hq
  exact h _ hq (List.mem_cons_of_mem _ hmem)

/-! ### where the paths of the field-set walkers come from -/

theorem fsFields_paths (s : Schema) (t : MapT) : ∀ (m : List (String × Value)) (ps : List Path),
    fsFields s t m = .ok ps → ∀ p ∈ ps, ∃ k x sub, (k, x) ∈ m ∧ fsV s (fieldType t k) x = .ok sub ∧
      (p = [PE.field k] ∨ ∃ q ∈ sub, p = PE.field k :: q)
  | [], ps, hfs, p, hp => by
    simp only [fsFields, Res.ok.injEq] at hfs
    subst hfs; cases hp
  | (k, v) :: rest, ps, hfs, p, hp => by
    rw [fsFields_cons] at hfs
    cases hsub : fsV s (fieldType t k) v with
    | err => cases hr : fsFields s t rest <;> simp [hsub, hr] at hfs
    | panic => cases hr : fsFields s t rest <;> simp [hsub, hr] at hfs
    | ok sub =>
      cases hr : fsFields s t rest with
      | err => simp [hsub, hr] at hfs
      | panic => simp [hsub, hr] at hfs
      | ok tail =>
        simp only [hsub, hr, Res.ok.injEq] at hfs
        subst hfs
        simp only [List.mem_append, List.mem_map] at hp
        rcases hp with (⟨q, hq, rfl⟩ | hself) | hp
        · exact ⟨k, v, sub, List.mem_cons_self, hsub, Or.inr ⟨q, hq, rfl⟩⟩
        · exact ⟨k, v, sub, List.mem_cons_self, hsub, Or.inl (mem_selfPaths hself)⟩
        · obtain ⟨k', x', sub', h1, h2⟩ := fsFields_paths s t rest tail hr p hp
          exact ⟨k', x', sub', List.mem_cons_of_mem _ h1, h2⟩

theorem fsItems_paths (s : Schema) (t : ListT) (dups : List PE) : ∀ (l : List Value) (ps : List Path),
    fsItems s t dups l = .ok ps → ∀ p ∈ ps, ∃ c sub, c ∈ l ∧ fsV s t.elementType c = .ok sub ∧
      (p = [peOf s t c] ∨ ∃ q ∈ sub, p = peOf s t c :: q)
  | [], ps, hfs, p, hp => by
    simp only [fsItems, Res.ok.injEq] at hfs
    subst hfs; cases hp
  | c :: rest, ps, hfs, p, hp => by
    have lift : ∀ ps', fsItems s t dups rest = .ok ps' → p ∈ ps' → ∃ c' sub, c' ∈ c :: rest ∧
        fsV s t.elementType c' = .ok sub ∧ (p = [peOf s t c'] ∨ ∃ q ∈ sub, p = peOf s t c' :: q) := by
      intro ps' h1 h2
      obtain ⟨c', sub', h3, h4⟩ := fsItems_paths s t dups rest ps' h1 p h2
      exact ⟨c', sub', List.mem_cons_of_mem _ h3, h4⟩
    rw [fsItems_cons] at hfs
    by_cases hd : dups.any (fun d => PE.equals d (peOf s t c)) = true
    · rw [if_pos hd] at hfs
      exact lift ps hfs hp
    · rw [if_neg hd] at hfs
      cases hsub : fsV s t.elementType c with
      | err => cases hr : fsItems s t dups rest <;> simp [hsub, hr] at hfs
      | panic => cases hr : fsItems s t dups rest <;> simp [hsub, hr] at hfs
      | ok sub =>
        cases hr : fsItems s t dups rest with
        | err => simp [hsub, hr] at hfs
        | panic => simp [hsub, hr] at hfs
        | ok tail =>
          simp only [hsub, hr, Res.ok.injEq] at hfs
          subst hfs
          simp only [List.mem_append, List.mem_map, List.mem_singleton] at hp
          rcases hp with (⟨q, hq, rfl⟩ | rfl) | hp
          · exact ⟨c, sub, List.mem_cons_self, hsub, Or.inr ⟨q, hq, rfl⟩⟩
          · exact ⟨c, sub, List.mem_cons_self, hsub, Or.inl rfl⟩
          · exact lift tail hr hp

/-- the field set of a value that is neither a list nor a map has at most the empty path -/
theorem fsV_leaf_paths (s : Schema) (tr : TypeRef) (v : Value) (ps : List Path) (hl : v.isList = false)
    (hm : v.isMap = false) (hfs : fsV s tr v = .ok ps) : ∀ p ∈ ps, p = [] := by
  rw [fsV_leaf_eq s tr v hl hm] at hfs
  intro p hp
  split at hfs
  · cases hfs
  · cases hfs
  · cases hfs; simpa using hp
  · split at hfs <;> (cases hfs; simp at hp; try exact hp)
  · split at hfs <;> (cases hfs; simp at hp; try exact hp)

theorem peOf_null (s : Schema) (t : ListT) : peOf s t .null = .invalid := by
  have : listItemToPE s t .null = .err := by
    unfold listItemToPE
    split
    · rfl
    · split <;> rfl
  simp [peOf, this]

theorem peOf_of_not_assoc (s : Schema) (t : ListT) (c : Value) (h : t.rel ≠ "associative") :
    peOf s t c = .invalid := by
  unfold peOf listItemToPE
  simp [h]

theorem mem_removeFields (s : Schema) (t : MapT) (S : SetTrie) : ∀ (m : List (String × Value)) (x : String × Value),
    x ∈ removeFields s false t S m → ∃ e ∈ m, x ∈ remEntry s t S e
  | [], x, h => by simp [removeFields] at h
  | (k, v) :: rest, x, h => by
    rw [removeFields_cons] at h
    rcases List.mem_append.1 h with h | h
    · exact ⟨(k, v), List.mem_cons_self, h⟩
    · obtain ⟨e, he, hx⟩ := mem_removeFields s t S rest x h
      exact ⟨e, List.mem_cons_of_mem _ he, hx⟩

/-! ### the field set of what is left contains no member of the removed set -/

theorem remove_disjoint (s : Schema) : ∀ (n : Nat) (v : Value) (tr : TypeRef) (S : SetTrie) (ps : List Path),
    v.depth ≤ n → validateV s true tr v = .ok () → S.wf = true → KeysGuarded S → NoInvalid S →
    fsV s tr (outToValue (removeV s false tr S v)) = .ok ps → ∀ p ∈ ps, p ≠ [] → S.has p = false
  | 0, v, _, _, _, hd, _, _, _, _, _ => by have := depth_pos v; omega
  | n + 1, v, tr, S, ps, hd, hv, hw, hg, hni, hfs => by
    have leafcase : ∀ w : Value, w.isList = false → w.isMap = false → fsV s tr w = .ok ps →
        ∀ p ∈ ps, p ≠ [] → S.has p = false := by
      intro w h1 h2 h3 p hp hne
      exact absurd (fsV_leaf_paths s tr w ps h1 h2 h3 p hp) hne
    have other : v.isList = false → v.isMap = false → ∀ p ∈ ps, p ≠ [] → S.has p = false := by
      intro h1 h2
      rcases outToValue_removeV_other s tr S v h1 h2 with h | h
      · rw [h] at hfs; exact leafcase v h1 h2 hfs
      · rw [h] at hfs; exact leafcase .null rfl rfl hfs
    cases v with
    | null => exact other rfl rfl
    | bool b => exact other rfl rfl
    | int b => exact other rfl rfl
    | float b z => exact other rfl rfl
    | str b => exact other rfl rfl
    | map m =>
      obtain ⟨a, mt, hres, ha, hfields⟩ := validateV_map_inv hv
      rcases outToValue_removeV_map_cases S m hres ha with h | h
      · rw [h] at hfs; exact leafcase .null rfl rfl hfs
      · rw [h, fsV, resolveKind_map_of s tr a mt _ hres ha] at hfs
        dsimp only at hfs
        intro p hp hne
        by_cases hat : (mt.rel == "atomic") = true
        · rw [if_pos hat] at hfs; cases hfs; simp at hp; exact absurd hp hne
        · rw [if_neg hat] at hfs
          obtain ⟨k, x', sub, hmem, hsub, hcase⟩ := fsFields_paths s mt _ ps hfs p hp
          obtain ⟨e, he, hx'⟩ := mem_removeFields s mt S m (k, x') hmem
          obtain ⟨k0, x⟩ := e
          have hxv := validateFields_mem s true mt m hfields (k0, x) he
          have hxd : x.depth ≤ n := by
            have : x.depth ≤ Value.depthFields m := depthFields_mem m (k0, x) he
            simp only [Value.depth] at hd; omega
          unfold remEntry at hx'
          by_cases h1 : S.has [PE.field k0] = true
          · rw [if_pos h1] at hx'; cases hx'
          · rw [if_neg h1] at hx'
            have h1' : S.has [PE.field k0] = false := by simpa using h1
            by_cases h2 : (S.withPrefix (PE.field k0)).isEmpty = false
            · rw [if_pos h2] at hx'
              simp only [List.mem_singleton, Prod.mk.injEq] at hx'
              obtain ⟨rfl, rfl⟩ := hx'
              rcases hcase with rfl | ⟨q, hq, rfl⟩
              · exact h1'
              · by_cases hq0 : q = []
                · subst hq0; exact h1'
                · rw [← has_withPrefix_cons (PE.field k) S q hq0]
                  exact remove_disjoint s n x _ _ sub hxd hxv (wf_withPrefix _ S hw) (hg.withPrefix _)
                    (hni.withPrefix _) hsub q hq hq0
            · rw [if_neg h2] at hx'
              simp only [List.mem_singleton, Prod.mk.injEq] at hx'
              obtain ⟨rfl, rfl⟩ := hx'
              rcases hcase with rfl | ⟨q, hq, rfl⟩
              · exact h1'
              · by_cases hq0 : q = []
                · subst hq0; exact h1'
                · rw [← has_withPrefix_cons (PE.field k) S q hq0]
                  exact has_of_isEmpty q _ (by simpa using h2)
    | list l =>
      obtain ⟨a, lt, hres, ha, hitems⟩ := validateV_list_inv hv
      rcases outToValue_removeV_list_cases S l hres ha with h | h
      · rw [h] at hfs; exact leafcase .null rfl rfl hfs
      · rw [h, fsV, resolveKind_list_of s tr a lt _ hres ha] at hfs
        dsimp only at hfs
        intro p hp hne
        by_cases hat : (lt.rel == "atomic") = true
        · rw [if_pos hat] at hfs; cases hfs; simp at hp; exact absurd hp hne
        · rw [if_neg hat] at hfs
          -- every item of the result comes from an item of the object, with the same path element
          -- (or none), and the members of the set beneath it are gone
          have hitem : ∀ x' ∈ removeItems s false lt S l, S.has [peOf s lt x'] = false ∧
              ∀ sub, fsV s lt.elementType x' = .ok sub → ∀ q ∈ sub, q ≠ [] →
                S.has (peOf s lt x' :: q) = false := by
            intro x' hx'
            rw [removeItems_eq_flatMap] at hx'
            obtain ⟨c, hc, hx'⟩ := List.mem_flatMap.1 hx'
            have hcv := validateItems_mem s true lt l _ _ hitems c hc
            have hcd : c.depth ≤ n := by
              have := depthList_mem l c hc
              simp only [Value.depth] at hd; omega
            obtain ⟨hnot, hcase⟩ := mem_remItem hx'
            rcases hcase with ⟨hne', rfl⟩ | ⟨hemp, rfl⟩
            · cases hr : removeV s false lt.elementType (S.withPrefix (peOf s lt c)) c with
              | none =>
                simp only [outToValue, peOf_null]
                have hinv : S.has [PE.invalid] = false := by
                  cases hh : S.has [PE.invalid] with
                  | false => rfl
                  | true => exact absurd List.mem_cons_self (hni _ hh)
                refine ⟨hinv, ?_⟩
                intro sub hsub q hq hq0
                exact absurd (fsV_leaf_paths s _ .null sub rfl rfl hsub q hq) hq0
              | some c' =>
                have hpe : peOf s lt c' = peOf s lt c := by
                  by_cases hrel : lt.rel = "associative"
                  · obtain ⟨⟨pec, hpec⟩, _⟩ := validateItems_assoc s true lt hrel l [] 0 hitems c hc
                    have hid := identity_of_ok hrel hpec
                    have hpeq : peOf s lt c = pec := peOf_of_identity hrel hid
                    rw [hpeq] at hnot hr
                    have hid' := identity_removeV_some hid hcv (guard_keys hw hg hid hnot) hr
                    rw [hpeq, peOf_of_identity hrel hid']
                  · rw [peOf_of_not_assoc s lt c hrel, peOf_of_not_assoc s lt c' hrel]
                simp only [outToValue, hpe]
                refine ⟨hnot, ?_⟩
                intro sub hsub q hq hq0
                rw [← has_withPrefix_cons _ S q hq0]
                exact remove_disjoint s n c _ _ sub hcd hcv (wf_withPrefix _ S hw) (hg.withPrefix _)
                  (hni.withPrefix _) (by rw [hr]; exact hsub) q hq hq0
            · refine ⟨hnot, ?_⟩
              intro sub hsub q hq hq0
              rw [← has_withPrefix_cons _ S q hq0]
              exact has_of_isEmpty q _ hemp
          cases hr : fsItems s lt (dupMarks s lt [] [] (removeItems s false lt S l))
              (removeItems s false lt S l) with
          | err => simp [hr] at hfs
          | panic => simp [hr] at hfs
          | ok rest =>
            simp only [hr, Res.ok.injEq] at hfs
            subst hfs
            rcases List.mem_append.1 hp with hp | hp
            · obtain ⟨d, hd', rfl⟩ := List.mem_map.1 hp
              rcases dupMarks_sub s lt _ [] [] d hd' with h0 | ⟨x', hx', rfl⟩
              · cases h0
              · exact (hitem x' hx').1
            · obtain ⟨x', sub, hx', hsub, hcase⟩ := fsItems_paths s lt _ _ rest hr p hp
              rcases hcase with rfl | ⟨q, hq, rfl⟩
              · exact (hitem x' hx').1
              · by_cases hq0 : q = []
                · subst hq0; exact (hitem x' hx').1
                · exact (hitem x' hx').2 sub hsub q hq hq0

/-- the field set of what `RemoveItems` leaves has no member of the removed set -/
theorem removeItemsTV_disjoint (s : Schema) (tv : TV) (S fr : SetTrie) (p : Path)
    (hv : validateV s false tv.type tv.value = .ok ()) (hS : S.wf = true) (hg : KeysGuarded S)
    (hni : NoInvalid S) (hfr : toFieldSet s (removeItemsTV s tv S) = .ok fr) (hp : S.has p = true) :
    fr.has p = false := by
  unfold toFieldSet toFieldSetPaths at hfr
  cases hps : fsV s (removeItemsTV s tv S).type (removeItemsTV s tv S).value with
  | err => simp [hps] at hfr
  | panic => simp [hps] at hfr
  | ok ps =>
    simp only [hps, Res.ok.injEq] at hfr
    subst hfr
    cases hh : (ofPaths ps).has p with
    | false => rfl
    | true =>
      rw [CmpX.has_ofPaths_pmem, Bool.and_eq_true] at hh
      obtain ⟨q, hq, he⟩ := pmem_iff.1 hh.2
      have hpne : p ≠ [] := has_true_ne_nil hp
      have hqne : q ≠ [] := by
        rintro rfl
        cases p with
        | nil => exact hpne rfl
        | cons _ _ => simp [Path.equals] at he
      have := remove_disjoint s _ tv.value tv.type S ps (Nat.le_refl _) (validateV_true_of_false s _ _ hv)
        hS hg hni hps q hq hqne
      rw [has_congr_path' he S, hp] at this
      cases this

end Part
end SMD
