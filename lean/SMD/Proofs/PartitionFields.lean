/-
The partition law for sets of field leaves (helper lemmas for `SMD/Properties/C14Partition.lean`):
what `RemoveItems(S)` leaves merged with what `ExtractItems(S, WithAppendKeyFields)` takes is the object,
for a set `S` of leaves of the object's field set that are entries of maps (no whole list item) and not
key fields, the key fields of keyed-list items being scalars.
-/
import SMD.Proofs.PartitionLists
set_option linter.unusedSimpArgs false
set_option linter.unusedVariables false
set_option linter.unnecessarySimpa false
namespace SMD
namespace Part
open SetTrie NodeLaws CmpX

/-! ### the hypotheses on the set -/

/-- the last element of the path is a field name -/
def EndsWithField (p : Path) : Prop := ∃ q k, p = q ++ [PE.field k]

/-- a set of leaves of the field set of `v` that are map entries and not key fields of list items -/
structure SOK (s : Schema) (tr : TypeRef) (v : Value) (S : SetTrie) : Prop where
  leaf : LeafSub s tr v S
  ends : ∀ p, S.has p = true → EndsWithField p
  nokey : ∀ pre fl k, k ∈ fl.map (·.1) → S.has (pre ++ [PE.key fl, PE.field k]) = false

theorem SOK.child {s : Schema} {tr tr' : TypeRef} {v x : Value} {pe : PE} {σ : Bool} {S : SetTrie}
    (hS : SOK s tr v S) (hc : ChildAt s tr v pe tr' x σ) : SOK s tr' x (S.withPrefix pe) := by
  refine ⟨hS.leaf.child hc, ?_, ?_⟩
  · intro p hp
    have hne := has_true_ne_nil hp
    rw [has_withPrefix_cons pe S p hne] at hp
    obtain ⟨q, k, hq⟩ := hS.ends _ hp
    cases q with
    | nil => simp only [List.nil_append, List.cons.injEq] at hq; exact absurd hq.2 hne
    | cons a q' =>
      simp only [List.cons_append, List.cons.injEq] at hq
      exact ⟨q', k, hq.2⟩
  · intro pre fl k hk
    rw [has_withPrefix_cons pe S _ (by simp)]
    exact hS.nokey (pe :: pre) fl k hk

/-- no whole item of a list is a member -/
theorem SOK.not_item {s : Schema} {tr : TypeRef} {v : Value} {S : SetTrie} (hS : SOK s tr v S) (pe : PE)
    (hpe : ∀ k, pe ≠ PE.field k) : S.has [pe] = false := by
  cases hh : S.has [pe] with
  | false => rfl
  | true =>
    obtain ⟨q, k, hq⟩ := hS.ends _ hh
    cases q with
    | nil => simp only [List.nil_append, List.cons.injEq] at hq; exact absurd hq.1 (hpe k)
    | cons a q' =>
      simp only [List.cons_append, List.cons.injEq] at hq
      cases q' <;> simp at hq

/-! ### the hypotheses on the object -/

/-- the hypotheses of the extraction law, and the key fields the items of keyed lists carry are scalars -/
structure HypK (s : Schema) (tr : TypeRef) (v : Value) : Prop where
  hyp : Hyp s tr v
  keys : keysScalar s tr v = true

theorem HypK.map_view {s : Schema} {tr : TypeRef} {m : List (String × Value)} (h : HypK s tr (.map m)) :
    ∃ a mt, s.resolve tr = some a ∧ a.map = some mt ∧ resolveKind s tr (some (.map m)) = some (.map mt) ∧
      m ≠ [] ∧ keysAsc m = true ∧ (mt.rel ≠ "atomic" → ∀ x ∈ m, HypK s (fieldType mt x.1) x.2) := by
  obtain ⟨a, mt, hres, ha, _⟩ := validateV_map_inv h.hyp.valid
  have hk := resolveKind_map_of s tr a mt m hres ha
  obtain ⟨mt2, hk2, hne, hasc, hrest⟩ := h.hyp.map_view
  have hmt : mt2 = mt := by
    have := hk2.symm.trans hk
    simpa using this
  subst hmt
  refine ⟨a, mt2, hres, ha, hk, hne, hasc, ?_⟩
  intro hat x hx
  have hks := h.keys
  rw [keysScalar, hk] at hks
  dsimp only at hks
  simp only [Bool.or_eq_true, beq_iff_eq] at hks
  rcases hks with hks | hks
  · exact absurd hks hat
  · exact ⟨hrest hat x hx, keysScalarFields_mem s mt2 m hks x hx⟩

theorem peOf_of_ok {s : Schema} {t : ListT} {c : Value} {pe : PE} (h : listItemToPE s t c = .ok pe) :
    peOf s t c = pe := by simp [peOf, h]

theorem HypK.list_view {s : Schema} {tr : TypeRef} {l : List Value} (h : HypK s tr (.list l)) :
    ∃ a lt, s.resolve tr = some a ∧ a.list = some lt ∧ resolveKind s tr (some (.list l)) = some (.list lt) ∧
      l ≠ [] ∧ (lt.rel ≠ "atomic" → lt.rel = "associative" ∧
        (∀ c ∈ l, HypK s lt.elementType c ∧ itemKeysScalar lt.keys c = true ∧
          listItemToPE s lt c = .ok (peOf s lt c)) ∧
        (∀ q, (l.filter (fun c => PE.equals (peOf s lt c) q)).length ≤ 1)) := by
  obtain ⟨a, lt, hres, ha, hitems⟩ := validateV_list_inv h.hyp.valid
  have hk := resolveKind_list_of s tr a lt l hres ha
  obtain ⟨lt2, hk2, hne, hrest⟩ := h.hyp.list_view
  have hlt : lt2 = lt := by
    have := hk2.symm.trans hk
    simpa using this
  subst hlt
  refine ⟨a, lt2, hres, ha, hk, hne, ?_⟩
  intro hat
  obtain ⟨hrel, hall, hnd⟩ := hrest hat
  refine ⟨hrel, ?_, hnd⟩
  intro c hc
  have hks := h.keys
  rw [keysScalar, hk] at hks
  dsimp only at hks
  simp only [Bool.or_eq_true, beq_iff_eq] at hks
  rcases hks with hks | hks
  · exact absurd hks hat
  · obtain ⟨k1, k2⟩ := keysScalarItems_mem s lt2 l hks c hc
    obtain ⟨⟨pe, hpe⟩, _⟩ := validateItems_assoc s false lt2 hrel l [] 0 hitems c hc
    exact ⟨⟨hall c hc, k2⟩, k1, by rw [peOf_of_ok hpe]; exact hpe⟩

/-! ### the identity of a list item -/

theorem listItemToPE_null (s : Schema) (t : ListT) : listItemToPE s t .null = .err := by
  unfold listItemToPE
  split
  · rfl
  · split <;> rfl

theorem listItemToPE_list (s : Schema) (t : ListT) (l : List Value) : listItemToPE s t (.list l) = .err := by
  unfold listItemToPE
  split
  · rfl
  · split <;> rfl

theorem identity_not_field {s : Schema} {t : ListT} {c : Value} {id : PE}
    (h : Conf.identity s t c = some id) : ∀ k, id ≠ PE.field k := by
  intro k hk
  subst hk
  cases hke : t.keys.isEmpty
  · cases c with
    | map m =>
      rw [identity_keyed s t m hke] at h
      by_cases hall : (t.keys.map (keyVal s t m)).all Option.isSome = true
      · rw [if_pos hall] at h; cases h
      · rw [if_neg hall] at h; cases h
    | _ => simp [Conf.identity, hke] at h
  · simp only [Conf.identity, hke, if_true] at h
    split at h <;> cases h

theorem pairwise_of_nodup {s : Schema} {lt : ListT} : ∀ (l : List Value),
    (∀ q, (l.filter (fun c => PE.equals (peOf s lt c) q)).length ≤ 1) →
    l.Pairwise (fun a b => PE.equals (peOf s lt a) (peOf s lt b) = false)
  | [], _ => List.Pairwise.nil
  | a :: rest, h => by
    refine List.pairwise_cons.2 ⟨?_, pairwise_of_nodup rest
      (filter_le_one_tail (fun c q => PE.equals (peOf s lt c) q) a rest h)⟩
    intro b hb
    cases he : PE.equals (peOf s lt a) (peOf s lt b) with
    | false => rfl
    | true =>
      have := h (peOf s lt a)
      simp only [List.filter_cons, PE.equals_refl, if_true, List.length_cons] at this
      have hmem : b ∈ rest.filter (fun c => PE.equals (peOf s lt c) (peOf s lt a)) :=
        List.mem_filter.2 ⟨hb, by rw [PE.equals_comm]; exact he⟩
      have := List.length_pos_of_mem hmem
      omega

/-- an item with a member of the field set beneath it is a map whose type is not atomic -/
theorem item_inner {s : Schema} {lt : ListT} {c : Value} {pe : PE} (hc : Hyp s lt.elementType c)
    (hpe : listItemToPE s lt c = .ok pe) (q : Path) (hq : q ≠ []) (hin : inFS s lt.elementType c q = true) :
    ∃ m mt, c = .map m ∧ resolveKind s lt.elementType (some (.map m)) = some (.map mt) ∧ mt.rel ≠ "atomic" := by
  obtain ⟨a, b, rfl⟩ : ∃ a b, q = a :: b := by
    cases q with
    | nil => exact absurd rfl hq
    | cons a b => exact ⟨a, b, rfl⟩
  cases c with
  | list l => rw [listItemToPE_list] at hpe; cases hpe
  | map m =>
    obtain ⟨mt, hk, _, _, _⟩ := hc.map_view
    refine ⟨m, mt, rfl, hk, ?_⟩
    intro hat
    rw [inFS, hk] at hin
    simp [hat] at hin
  | null => rw [inFS_leaf_cons s _ _ a b rfl rfl] at hin; cases hin
  | bool _ => rw [inFS_leaf_cons s _ _ a b rfl rfl] at hin; cases hin
  | int _ => rw [inFS_leaf_cons s _ _ a b rfl rfl] at hin; cases hin
  | float _ _ => rw [inFS_leaf_cons s _ _ a b rfl rfl] at hin; cases hin
  | str _ => rw [inFS_leaf_cons s _ _ a b rfl rfl] at hin; cases hin

/-- what is left of an item, if it can be indexed at all, has the item's path element -/
theorem leftItem_pe {s : Schema} {lt : ListT} {S : SetTrie} {c : Value} {pe : PE} (hrel : lt.rel = "associative")
    (hpe : listItemToPE s lt c = .ok pe) (hv : validateV s true lt.elementType c = .ok ())
    (hkeys : ∀ k ∈ lt.keys, (S.withPrefix pe).has [PE.field k] = false ∧
      ((S.withPrefix pe).withPrefix (PE.field k)).isEmpty = true)
    (hok : ∃ pe', listItemToPE s lt (leftItem s lt S c) = .ok pe') :
    listItemToPE s lt (leftItem s lt S c) = .ok pe := by
  have hid := identity_of_ok hrel hpe
  have hpo : peOf s lt c = pe := peOf_of_ok hpe
  unfold leftItem at hok ⊢
  rw [hpo] at hok ⊢
  split
  · next hne =>
    rw [if_pos hne] at hok
    cases hr : removeV s false lt.elementType (S.withPrefix pe) c with
    | none =>
      rw [hr] at hok
      obtain ⟨pe', hpe'⟩ := hok
      simp only [outToValue, listItemToPE_null] at hpe'
      cases hpe'
    | some c' =>
      have := identity_removeV_some hid hv hkeys hr
      simp only [outToValue]
      rw [listItemToPE_eq s lt c' hrel, this]
  · exact hpe

/-- what is taken of a keyed item, if it can be indexed at all, has the item's path element -/
theorem takenItem_pe {s : Schema} {lt : ListT} {S' : SetTrie} {m : List (String × Value)} {mt : MapT} {pe : PE}
    {e : Value} (hrel : lt.rel = "associative") (hpe : listItemToPE s lt (.map m) = .ok pe)
    (hk : resolveKind s lt.elementType (some (.map m)) = some (.map mt)) (hat : mt.rel ≠ "atomic")
    (hkeys : ∀ k ∈ lt.keys, (S'.withPrefix pe).has [PE.field k] = true)
    (hscal : ∀ k ∈ lt.keys, ∀ x, lookupField k m = some x →
      outToValue (removeV s true (fieldType mt k) (S'.withPrefix pe) x) = x)
    (he : takenItem s lt S' (.map m) = some e) (hok : ∃ pe', listItemToPE s lt e = .ok pe') :
    listItemToPE s lt e = .ok pe := by
  have hid := identity_of_ok hrel hpe
  have hpo : peOf s lt (.map m) = pe := peOf_of_ok hpe
  unfold takenItem at he
  rw [hpo] at he
  split at he
  · simp only [Option.some.injEq] at he
    subst he
    rw [extractV_map_eq _ m hk] at hok ⊢
    have hat' : (mt.rel == "atomic") = false := by simpa using hat
    by_cases hm : m.isEmpty = true
    · simp only [hm, if_true, outToValue, listItemToPE_null] at hok
      obtain ⟨_, h⟩ := hok; cases h
    · simp only [hm, hat', Bool.false_eq_true, if_false] at hok ⊢
      cases hfs : removeFields s true mt (S'.withPrefix pe) m with
      | nil =>
        simp only [hfs, outToValue, listItemToPE_null] at hok
        obtain ⟨_, h⟩ := hok; cases h
      | cons y ys =>
        simp only [outToValue]
        rw [listItemToPE_eq s lt _ hrel, ← hfs, ← identity_map_congr s lt m _ ?_, hid]
        intro k hk'
        rw [lookupField_extractFields, if_pos (hkeys k hk')]
        cases hl : lookupField k m with
        | none => rfl
        | some x => simp only [Option.map_some]; rw [hscal k hk' x hl]
  · cases he

/-! ### the list level -/

theorem extractV_list_eq {s : Schema} {tr : TypeRef} {lt : ListT} (T : SetTrie) (l : List Value)
    (hk : resolveKind s tr (some (.list l)) = some (.list lt)) :
    removeV s true tr T (.list l) =
      if l.isEmpty = true then none
      else if (lt.rel == "atomic") = true then some (.list l)
      else match removeItems s true lt T l with
        | [] => none
        | items => some (.list items) := by
  rw [removeV, hk]
  simp only [if_true]
  rfl

theorem removeV_list_eq' {s : Schema} {tr : TypeRef} {lt : ListT} (T : SetTrie) (l : List Value)
    (hk : resolveKind s tr (some (.list l)) = some (.list lt)) :
    removeV s false tr T (.list l) =
      if l.isEmpty = true then none
      else if (lt.rel == "atomic") = true then none
      else match removeItems s false lt T l with
        | [] => none
        | items => some (.list items) := by
  rw [removeV, hk]
  simp only [Bool.false_eq_true, if_false]
  rfl

theorem filter_map_align {α : Type} (pf : α → PE) (inR : PE → Bool) (g : α → Option Value) (pe : Value → PE) :
    ∀ l : List α, (∀ c ∈ l, inR (pf c) = (g c).isSome) → (∀ c ∈ l, ∀ e, g c = some e → pe e = pf c) →
      (l.map pf).filter inR = (l.filterMap g).map pe
  | [], _, _ => rfl
  | c :: rest, h1, h2 => by
    have ih := filter_map_align pf inR g pe rest (fun c' hc' => h1 c' (List.mem_cons_of_mem _ hc'))
      (fun c' hc' => h2 c' (List.mem_cons_of_mem _ hc'))
    have hc1 := h1 c List.mem_cons_self
    simp only [List.map_cons, List.filter_cons, List.filterMap_cons, hc1]
    cases hg : g c with
    | none => simpa using ih
    | some e => simp [ih, h2 c List.mem_cons_self e hg]

/-- the list level of the partition law: the per-item merges being the items, the merge of what is left
with what is taken is the list -/
theorem partition_list_case (s : Schema) (n' : Nat) (tr : TypeRef) (a : Atom) (lt : ListT) (l : List Value)
    (S S' : SetTrie) (X : List String) (o : Option Value)
    (hres : s.resolve tr = some a) (ha : a.list = some lt)
    (hk : resolveKind s tr (some (.list l)) = some (.list lt)) (hlne : l ≠ []) (hat : lt.rel ≠ "atomic")
    (hrel : lt.rel = "associative")
    (hall : ∀ c ∈ l, HypK s lt.elementType c ∧ itemKeysScalar lt.keys c = true ∧
      listItemToPE s lt c = .ok (peOf s lt c))
    (hnd : ∀ q, (l.filter (fun c => PE.equals (peOf s lt c) q)).length ≤ 1)
    (hS : SOK s tr (.list l) S) (hw' : S'.wf = true) (hK : KInv S S' X) (hne : S.isEmpty = false)
    (ih : ∀ c ∈ l, (S.withPrefix (peOf s lt c)).isEmpty = false → ∀ w,
      mergeNode s n' (some (outToValue (removeV s false lt.elementType (S.withPrefix (peOf s lt c)) c)))
        (some (outToValue (removeV s true lt.elementType (S'.withPrefix (peOf s lt c)) c))) lt.elementType =
        .ok (some w) → w = c)
    (hh : mergeHandle s (mergeNode s n') (some (outToValue (removeV s false tr S (.list l))))
      (some (outToValue (removeV s true tr S' (.list l))))
      (deduceAtom a (some (outToValue (removeV s true tr S' (.list l))))) = .ok o) :
    o = some (.list l) := by
  have hw := hS.leaf.1
  have hat' : (lt.rel == "atomic") = false := by simpa using hat
  have hl : l.isEmpty = false := by simpa using hlne
  -- no item is a member, of either set
  have hnf : ∀ c ∈ l, ∀ k, peOf s lt c ≠ PE.field k := fun c hc =>
    identity_not_field (identity_of_ok hrel (hall c hc).2.2)
  have hasR : ∀ c ∈ l, S.has [peOf s lt c] = false := fun c hc => hS.not_item _ (hnf c hc)
  have hasE : ∀ c ∈ l, S'.has [peOf s lt c] = false := by
    intro c hc
    cases hh' : S'.has [peOf s lt c] with
    | false => rfl
    | true =>
      rcases hK.sup _ hh' with h1 | h1 | ⟨k, _, h1⟩
      · rw [hasR c hc] at h1; cases h1
      · have := h1.length; simp at this
      · simp only [List.cons.injEq, and_true] at h1; exact absurd h1 (hnf c hc k)
  -- the children
  have hchild : ∀ c ∈ l, ChildAt s tr (.list l) (peOf s lt c) lt.elementType c true :=
    fun c hc => childAt_list hk hat (find_of_nodup hnd hc)
  have hempty : ∀ c ∈ l, (S'.withPrefix (peOf s lt c)).isEmpty = (S.withPrefix (peOf s lt c)).isEmpty :=
    fun c hc => hK.item_isEmpty hw hw' _ (hnf c hc) (hasR c hc)
  -- what is left, what is taken
  have eR : outToValue (removeV s false tr S (.list l)) = .list (l.map (leftItem s lt S)) := by
    rw [removeV_list_eq' S l hk, removeItems_eq_map s lt S l hasR]
    simp only [hl, hat', Bool.false_eq_true, if_false]
    cases l with
    | nil => exact absurd rfl hlne
    | cons _ _ => rfl
  -- some item has a member beneath it
  have hsome : ∃ c ∈ l, (S.withPrefix (peOf s lt c)).isEmpty = false := by
    obtain ⟨p, hp⟩ := exists_has_of_not_isEmpty S hw hne
    obtain ⟨pe, rest, rfl⟩ : ∃ pe rest, p = pe :: rest := by
      cases p with
      | nil => simp [has_nil] at hp
      | cons pe rest => exact ⟨pe, rest, rfl⟩
    have hin := (hS.leaf.2 _ hp).1
    rw [inFS, hk] at hin
    simp only [hat', Bool.false_eq_true, if_false] at hin
    cases hf : l.find? (fun c => PE.equals (peOf s lt c) pe) with
    | none => simp [hf] at hin
    | some c =>
      have hc := List.mem_of_find?_eq_some hf
      have he : PE.equals (peOf s lt c) pe = true := by simpa using List.find?_some hf
      refine ⟨c, hc, ?_⟩
      have hp' : S.has (peOf s lt c :: rest) = true := by rw [has_congr_head he]; exact hp
      by_cases hr : rest = []
      · subst hr; rw [hasR c hc] at hp'; cases hp'
      · exact withPrefix_nonempty_of_has hr hp'
  have hEne : l.filterMap (takenItem s lt S') ≠ [] := by
    obtain ⟨c, hc, hcne⟩ := hsome
    intro hnil
    have : takenItem s lt S' c = none := by
      have := List.filterMap_eq_nil_iff.1 hnil c hc
      exact this
    unfold takenItem at this
    rw [hempty c hc, if_pos hcne] at this
    cases this
  have eE : outToValue (removeV s true tr S' (.list l)) = .list (l.filterMap (takenItem s lt S')) := by
    rw [extractV_list_eq S' l hk, extractItems_eq_filterMap s lt S' l hasE]
    simp only [hl, hat', Bool.false_eq_true, if_false]
    cases hE : l.filterMap (takenItem s lt S') with
    | nil => exact absurd hE hEne
    | cons _ _ => rfl
  rw [eR, eE] at hh
  have hkE : atomKind (deduceAtom a (some (Value.list (l.filterMap (takenItem s lt S'))))) = .list lt :=
    atomKind_deduce_list a _ lt ha
  rcases MV.mergeHandle_list_cases s _ _ _ _ lt hkE o hh with
    ⟨hC, _⟩ | ⟨_, rpes, obsR, lpes, obsL, res, hir, hil, hloop, hcase⟩
  · exfalso
    simp only [hat', Bool.false_or, Bool.and_eq_true] at hC
    have := hC.1
    cases l with
    | nil => exact hlne rfl
    | cons _ _ => simp [asList, emptyOrAbsent] at this
  · have hRl : (asList (some (Value.list (l.map (leftItem s lt S))))).getD [] = l.map (leftItem s lt S) := rfl
    have hEl : (asList (some (Value.list (l.filterMap (takenItem s lt S'))))).getD [] =
        l.filterMap (takenItem s lt S') := rfl
    rw [hRl] at hil
    rw [hEl] at hir
    -- every item on either side can be indexed
    obtain ⟨newl, _, hl2, hl3, _, _⟩ := mn_indexPEs_spec s lt true _ [] [] lpes obsL hil
    obtain ⟨newr, _, hr2, hr3, _, _⟩ := mn_indexPEs_spec s lt false _ [] [] rpes obsR hir
    have hokL : ∀ r ∈ l.map (leftItem s lt S), ∃ pe', listItemToPE s lt r = .ok pe' := by
      intro r hr
      rw [← hl2] at hr
      obtain ⟨p, hp, rfl⟩ := List.mem_map.1 hr
      exact ⟨p.1, hl3 p hp⟩
    have hokR : ∀ e ∈ l.filterMap (takenItem s lt S'), ∃ pe', listItemToPE s lt e = .ok pe' := by
      intro r hr
      rw [← hr2] at hr
      obtain ⟨p, hp, rfl⟩ := List.mem_map.1 hr
      exact ⟨p.1, hr3 p hp⟩
    -- and has the path element of the item it comes from
    have hkeyfacts : ∀ c ∈ l, ∀ k ∈ lt.keys, (S.withPrefix (peOf s lt c)).has [PE.field k] = false ∧
        ((S.withPrefix (peOf s lt c)).withPrefix (PE.field k)).isEmpty = true := by
      intro c hc k hkk
      have hSc := hS.child (hchild c hc)
      obtain ⟨fl, hfl, hmem⟩ := identity_keys_mem (identity_of_ok hrel (hall c hc).2.2) k hkk
      constructor
      · rw [has_withPrefix_cons _ S _ (by simp), hfl]
        exact hS.nokey [] fl k hmem
      · cases hemp : ((S.withPrefix (peOf s lt c)).withPrefix (PE.field k)).isEmpty with
        | true => rfl
        | false =>
          exfalso
          obtain ⟨q, hq, hq'⟩ := exists_has_of_withPrefix_nonempty hSc.leaf.1 hemp
          have hin := (hSc.leaf.2 _ hq').1
          obtain ⟨m, mt, rfl, hkm, hatm⟩ := item_inner (hall c hc).1.hyp (hall c hc).2.2 _ (by simp) hin
          cases hlk : lookupField k m with
          | none =>
            rw [inFS, hkm] at hin
            have : (mt.rel == "atomic") = false := by simpa using hatm
            simp [this, hlk] at hin
          | some x =>
            rw [childAt_map hkm hatm hlk q] at hin
            have hqe : q.isEmpty = false := by cases q <;> simp_all
            have hsc := itemKeysScalar_lookup lt.keys m k x (hall _ hc).2.1 hkk hlk
            obtain ⟨qa, qb, rfl⟩ : ∃ qa qb, q = qa :: qb := by
              cases q with
              | nil => exact absurd rfl hq
              | cons qa qb => exact ⟨qa, qb, rfl⟩
            rw [inFS_leaf_cons s _ x qa qb (by cases x <;> simp_all [Value.isScalar, Value.isList])
              (by cases x <;> simp_all [Value.isScalar, Value.isMap])] at hin
            simp at hin
    have hpeL : ∀ c ∈ l, listItemToPE s lt (leftItem s lt S c) = .ok (peOf s lt c) := by
      intro c hc
      exact leftItem_pe hrel (hall c hc).2.2 (validateV_true_of_false s _ _ (hall c hc).1.hyp.valid)
        (hkeyfacts c hc) (hokL _ (List.mem_map_of_mem hc))
    have hpeR : ∀ c ∈ l, ∀ e, takenItem s lt S' c = some e → listItemToPE s lt e = .ok (peOf s lt c) := by
      intro c hc e he
      have hcne : (S.withPrefix (peOf s lt c)).isEmpty = false := by
        unfold takenItem at he
        rw [hempty c hc] at he
        split at he
        · assumption
        · cases he
      have hSc := hS.child (hchild c hc)
      obtain ⟨q, hq, hq'⟩ := exists_has_of_withPrefix_nonempty hw hcne
      have hin : inFS s lt.elementType c q = true :=
        (hSc.leaf.2 q (by rw [has_withPrefix_cons _ S q hq]; exact hq')).1
      obtain ⟨m, mt, rfl, hkm, hatm⟩ := item_inner (hall c hc).1.hyp (hall c hc).2.2 q hq hin
      have hKc := hK.item hw (peOf s lt (.map m)) (hnf _ hc) hcne
      obtain ⟨_, mt2, _, _, hkm2, _, _, hfields⟩ := (hall _ hc).1.map_view
      have hmt : mt2 = mt := by
        have := hkm2.symm.trans hkm
        simpa using this
      subst hmt
      refine takenItem_pe hrel (hall _ hc).2.2 hkm hatm ?_ ?_ he
        (hokR e (List.mem_filterMap.2 ⟨_, hc, he⟩))
      · intro k hkk
        obtain ⟨fl, hfl, hmem⟩ := identity_keys_mem (identity_of_ok hrel (hall _ hc).2.2) k hkk
        exact hKc.top k (by rw [hfl]; exact hmem)
      · intro k hkk x hlk
        have hsc := itemKeysScalar_lookup lt.keys m k x (hall _ hc).2.1 hkk hlk
        obtain ⟨t, hkx⟩ := (hfields hatm (k, x) (lookupField_mem k m x hlk)).hyp.scalar_view hsc
        cases x <;> simp [Value.isScalar] at hsc <;> (simp only [removeV, hkx]; rfl)
    have hpoL : ∀ c ∈ l, peOf s lt (leftItem s lt S c) = peOf s lt c := fun c hc => peOf_of_ok (hpeL c hc)
    have hpoR : ∀ c ∈ l, ∀ e, takenItem s lt S' c = some e → peOf s lt e = peOf s lt c :=
      fun c hc e he => peOf_of_ok (hpeR c hc e he)
    have hpw := pairwise_of_nodup l hnd
    -- the two indexes
    have hpwL : (l.map (leftItem s lt S)).Pairwise (fun a b => PE.equals (peOf s lt a) (peOf s lt b) = false) := by
      rw [List.pairwise_map]
      refine hpw.imp_of_mem ?_
      intro a b ha hb hab
      rw [hpoL a ha, hpoL b hb]; exact hab
    have hpwR : (l.filterMap (takenItem s lt S')).Pairwise
        (fun a b => PE.equals (peOf s lt a) (peOf s lt b) = false) := by
      rw [List.pairwise_filterMap]
      refine hpw.imp_of_mem ?_
      intro a b ha hb hab ea hea eb heb
      rw [hpoR a ha ea hea, hpoR b hb eb heb]; exact hab
    obtain ⟨obsL', iL1, iL2, iL3⟩ := indexPEs_distinct s lt true (peOf s lt) (l.map (leftItem s lt S)) [] []
      (fun r hr => by
        obtain ⟨c, hc, rfl⟩ := List.mem_map.1 hr
        rw [hpoL c hc]; exact hpeL c hc) hpwL (fun _ _ => rfl)
    obtain ⟨obsR', iR1, iR2, iR3⟩ := indexPEs_distinct s lt false (peOf s lt) (l.filterMap (takenItem s lt S')) [] []
      (fun r hr => by
        obtain ⟨c, hc, he⟩ := List.mem_filterMap.1 hr
        rw [hpoR c hc r he]; exact hpeR c hc r he) hpwR (fun _ _ => rfl)
    rw [iL1] at hil
    rw [iR1] at hir
    simp only [List.reverse_nil, List.nil_append, Res.ok.injEq, Prod.mk.injEq] at hil hir
    obtain ⟨rfl, rfl⟩ := hil
    obtain ⟨rfl, rfl⟩ := hir
    -- which elements the right index observes
    have hinR : ∀ c ∈ l, MV.inR obsR' (peOf s lt c) = (takenItem s lt S' c).isSome := by
      intro c hc
      unfold MV.inR
      rw [indexPEs_distinct_isSome iR2 iR3]
      cases ht : takenItem s lt S' c with
      | some e =>
        simp only [Option.isSome_some]
        exact List.any_eq_true.2 ⟨e, List.mem_filterMap.2 ⟨c, hc, ht⟩, by rw [hpoR c hc e ht]; exact PE.equals_refl _⟩
      | none =>
        simp only [Option.isSome_none]
        rw [List.any_eq_false]
        intro e he hee
        obtain ⟨c', hc', he'⟩ := List.mem_filterMap.1 he
        rw [hpoR c' hc' e he'] at hee
        have h1 := find_of_nodup hnd hc
        have h2 : c' ∈ l.filter (fun x => PE.equals (peOf s lt x) (peOf s lt c)) :=
          List.mem_filter.2 ⟨hc', hee⟩
        have h3 : c ∈ l.filter (fun x => PE.equals (peOf s lt x) (peOf s lt c)) :=
          List.mem_filter.2 ⟨hc, PE.equals_refl _⟩
        have hlen := hnd (peOf s lt c)
        cases hfl : l.filter (fun x => PE.equals (peOf s lt x) (peOf s lt c)) with
        | nil => rw [hfl] at h2; cases h2
        | cons y ys =>
          rw [hfl] at h2 h3 hlen
          cases ys with
          | nil =>
            simp only [List.mem_singleton] at h2 h3
            rw [h2, ← h3, ht] at he'
            cases he'
          | cons _ _ => simp at hlen
    -- the shape of the run
    have hmapL : (l.map (leftItem s lt S)).map (fun x => (peOf s lt x, x)) =
        l.map (fun c => (peOf s lt c, leftItem s lt S c)) := by
      rw [List.map_map]
      apply List.map_congr_left
      intro c hc
      simp only [Function.comp, hpoL c hc]
    have hrsmap : ((l.filterMap (takenItem s lt S')).map (fun x => (peOf s lt x, x))).map (·.1) =
        (l.filterMap (takenItem s lt S')).map (peOf s lt) := by
      rw [List.map_map]; rfl
    rw [hrsmap, hmapL] at hloop
    have hshared : ((l.filterMap (takenItem s lt S')).map (peOf s lt)).filter
        (fun pe => (pemGet pe obsL').isSome) = (l.filterMap (takenItem s lt S')).map (peOf s lt) := by
      rw [List.filter_eq_self]
      intro r hr
      obtain ⟨e, he, rfl⟩ := List.mem_map.1 hr
      obtain ⟨c, hc, hce⟩ := List.mem_filterMap.1 he
      rw [hpoR c hc e hce, ← hpoL c hc, iL2 _ (List.mem_map_of_mem hc)]
      rfl
    rw [hshared] at hloop
    obtain ⟨outs, e1, e2⟩ := MV.mergeLoop_aligned _ obsL' obsR'
      (fun pe a b o ho => mergeNode_isSome s n' a b _ o ho) _ _ _ [] [] res hloop
      (by
        intro p hp
        obtain ⟨c, hc, rfl⟩ := List.mem_map.1 hp
        simp only []
        rw [← hpoL c hc]
        exact iL2 _ (List.mem_map_of_mem hc))
      (by
        intro r hr
        obtain ⟨e, he, rfl⟩ := List.mem_map.1 hr
        unfold MV.inR
        rw [iR2 e he]; rfl)
      (by
        have : (l.map (fun c => (peOf s lt c, leftItem s lt S c))).map (·.1) = l.map (peOf s lt) := by
          rw [List.map_map]; rfl
        rw [this, filter_map_align (peOf s lt) (MV.inR obsR') (takenItem s lt S') (peOf s lt) l hinR hpoR]
        exact Path.equals_refl _)
    simp only [List.reverse_nil, List.nil_append] at e1
    subst e1
    have hres : res = l := by
      apply relL_map_eq _ obsR' (peOf s lt) (leftItem s lt S) l res e2
      intro c hc v hv
      cases hcne : (S.withPrefix (peOf s lt c)).isEmpty with
      | false =>
        have ht : takenItem s lt S' c =
            some (outToValue (removeV s true lt.elementType (S'.withPrefix (peOf s lt c)) c)) := by
          unfold takenItem; rw [hempty c hc, if_pos hcne]
        have hget : pemGet (peOf s lt c) obsR' =
            some (outToValue (removeV s true lt.elementType (S'.withPrefix (peOf s lt c)) c)) := by
          have := iR2 _ (List.mem_filterMap.2 ⟨c, hc, ht⟩)
          rw [hpoR c hc _ ht] at this
          exact this
        have hleft : leftItem s lt S c =
            outToValue (removeV s false lt.elementType (S.withPrefix (peOf s lt c)) c) := by
          unfold leftItem; rw [if_pos hcne]
        rw [hget, hleft] at hv
        exact ih c hc hcne v hv
      | true =>
        have ht : takenItem s lt S' c = none := by
          unfold takenItem; rw [hempty c hc, hcne]; simp
        have hget : pemGet (peOf s lt c) obsR' = none := by
          have := hinR c hc
          rw [ht] at this
          unfold MV.inR at this
          cases hg : pemGet (peOf s lt c) obsR' with
          | none => rfl
          | some _ => rw [hg] at this; cases this
        have hleft : leftItem s lt S c = c := by
          unfold leftItem; rw [hcne]; simp
        rw [hget, hleft] at hv
        have := merge_canon_left s n' c _ _ (hall c hc).1.hyp.canon hv
        cases this; rfl
    subst hres
    rcases hcase with ⟨h0, _⟩ | ⟨_, ho⟩
    · exact absurd h0 hlne
    · exact ho

/-! ### the names of a keyed identity are the keys of the list -/

theorem identity_names {s : Schema} {lt : ListT} {c : Value} {fl : FieldList}
    (hid : Conf.identity s lt c = some (.key fl)) : ∀ k, k ∈ fl.map (·.1) → k ∈ lt.keys := by
  intro k hk
  cases hke : lt.keys.isEmpty with
  | true =>
    simp only [Conf.identity, hke, if_true] at hid
    split at hid <;> cases hid
  | false =>
    cases c with
    | map m =>
      rw [identity_keyed s lt m hke] at hid
      by_cases hall : (lt.keys.map (keyVal s lt m)).all Option.isSome = true
      · rw [if_pos hall] at hid
        simp only [Option.some.injEq, PE.key.injEq] at hid
        subst hid
        rw [mem_map_fst_sort] at hk
        obtain ⟨e, he, rfl⟩ := List.mem_map.1 hk
        obtain ⟨oe, hoe, hoe'⟩ := List.mem_filterMap.1 he
        obtain ⟨k', hk', rfl⟩ := List.mem_map.1 hoe
        simp only [id] at hoe'
        have : e.1 = k' := by
          rcases (keyVal_some_iff s lt m k' e).1 hoe' with ⟨v, _, rfl⟩ | ⟨_, d, _, rfl⟩ <;> rfl
        rw [this]; exact hk'
      · rw [if_neg hall] at hid; cases hid
    | _ => simp [Conf.identity, hke] at hid

/-! ### null or a map, from its entries -/

/-- the value of an entry list: nothing (null) when empty -/
def entriesValue (fs : List (String × Value)) : Value :=
  match fs with
  | [] => .null
  | fs => .map fs

theorem removed_map_value {s : Schema} {tr : TypeRef} {mt : MapT} (T : SetTrie) (m : List (String × Value))
    (hk : resolveKind s tr (some (.map m)) = some (.map mt)) (hl : m.isEmpty = false)
    (hat : (mt.rel == "atomic") = false) :
    outToValue (removeV s false tr T (.map m)) = entriesValue (removeFields s false mt T m) := by
  rw [removeV_map_eq' T m hk]
  simp only [hl, hat, Bool.false_eq_true, if_false]
  cases removeFields s false mt T m <;> rfl

theorem extracted_map_value {s : Schema} {tr : TypeRef} {mt : MapT} (T : SetTrie) (m : List (String × Value))
    (hk : resolveKind s tr (some (.map m)) = some (.map mt)) (hl : m.isEmpty = false)
    (hat : (mt.rel == "atomic") = false) :
    outToValue (removeV s true tr T (.map m)) = entriesValue (removeFields s true mt T m) := by
  rw [extractV_map_eq T m hk]
  simp only [hl, hat, Bool.false_eq_true, if_false]
  cases removeFields s true mt T m <;> rfl

theorem entriesValue_asMap (fs : List (String × Value)) :
    (asMap (some (entriesValue fs))).getD [] = fs ∧ emptyOrAbsent (asMap (some (entriesValue fs))) = fs.isEmpty := by
  cases fs with
  | nil => exact ⟨rfl, rfl⟩
  | cons x xs => exact ⟨rfl, rfl⟩

theorem entriesValue_kind (a : Atom) (mt : MapT) (ha : a.map = some mt) (fs : List (String × Value)) :
    atomKind (deduceAtom a (some (entriesValue fs))) = .map mt := by
  cases fs with
  | nil => simp only [entriesValue]; rw [deduceAtom_null]; exact atomKind_of_map a mt ha
  | cons x xs => simp only [entriesValue]; rw [deduceAtom_map a _ mt ha]; rfl

/-! ### the partition law for sets of field leaves -/

theorem partition_fields (s : Schema) : ∀ (n : Nat) (v : Value) (tr : TypeRef) (S S' : SetTrie) (X : List String)
    (fuel : Nat) (o : Option Value), v.depth ≤ n → HypK s tr v → SOK s tr v S → S'.wf = true → KInv S S' X →
    (∀ k ∈ X, S.has [PE.field k] = false ∧
      ∀ m x, v = .map m → lookupField k m = some x → x.isScalar = true) →
    (v.isList = true → S.isEmpty = false) →
    mergeNode s fuel (some (outToValue (removeV s false tr S v))) (some (outToValue (removeV s true tr S' v))) tr =
      .ok o → o = some v
  | 0, v, _, _, _, _, _, _, hd, _, _, _, _, _, _, _ => by have := depth_pos v; omega
  | n + 1, v, tr, S, S', X, fuel, o, hd, h, hS, hw', hK, hX, hLne, hm => by
    have hw := hS.leaf.1
    have scalar : v.isScalar = true → o = some v := by
      intro hs
      obtain ⟨t, hk⟩ := h.hyp.scalar_view hs
      have e1 : outToValue (removeV s true tr S' v) = v := by
        cases v <;> simp [Value.isScalar] at hs <;> (simp only [removeV, hk]; rfl)
      rw [e1] at hm
      exact merge_scalar_right s fuel _ v tr o h.hyp.valid hs hm
    cases v with
    | null =>
      rw [removeV_null, extractV_null] at hm
      exact merge_null_null s fuel tr o hm
    | bool b => exact scalar rfl
    | int b => exact scalar rfl
    | float b z => exact scalar rfl
    | str b => exact scalar rfl
    | list l =>
      obtain ⟨a, lt, hres, ha, hk, hlne, hrest⟩ := h.list_view
      have hl : l.isEmpty = false := by simpa using hlne
      obtain ⟨n', a', hfuel, hres', hh⟩ := mergeNode_some_right s fuel _ _ tr o hm
      rw [hres] at hres'
      cases hres'
      by_cases hat : lt.rel = "atomic"
      · have e1 : removeV s true tr S' (.list l) = some (.list l) := by
          rw [extractV_list_eq S' l hk]; simp [hl, hat]
        rw [e1] at hh
        simp only [outToValue] at hh
        rw [deduceAtom_list a l lt ha] at hh
        rcases MV.mergeHandle_list_cases s _ _ _ _ lt (atomKind_list lt) o hh with ⟨_, ho⟩ | ⟨hc, _⟩
        · exact ho
        · simp [hat] at hc
      · obtain ⟨hrel, hall, hnd⟩ := hrest hat
        refine partition_list_case s n' tr a lt l S S' X o hres ha hk hlne hat hrel hall hnd hS hw' hK
          (hLne rfl) ?_ hh
        intro c hc hcne w hmw
        have hcd : c.depth ≤ n := by
          have := depthList_mem l c hc
          simp only [Value.depth] at hd; omega
        have hch : ChildAt s tr (.list l) (peOf s lt c) lt.elementType c true :=
          childAt_list hk hat (find_of_nodup hnd hc)
        have hid := identity_of_ok hrel (hall c hc).2.2
        have hnf := identity_not_field hid
        have := partition_fields s n c lt.elementType _ _ (keyNames (peOf s lt c)) n' (some w) hcd (hall c hc).1
          (hS.child hch) (wf_withPrefix _ S' hw') (hK.item hw _ hnf hcne) ?_ ?_ hmw
        · cases this; rfl
        · intro k hk'
          cases hpe : peOf s lt c with
          | key fl =>
            rw [hpe] at hk' hid
            constructor
            · rw [has_withPrefix_cons _ S _ (by simp)]
              exact hS.nokey [] fl k hk'
            · intro m x hcm hlk
              subst hcm
              exact itemKeysScalar_lookup lt.keys m k x (hall _ hc).2.1 (identity_names hid k hk') hlk
          | _ => rw [hpe] at hk'; simp [keyNames] at hk'
        · intro hli
          cases c with
          | list l' =>
            have := (hall _ hc).2.2
            rw [listItemToPE_list] at this
            cases this
          | _ => simp [Value.isList] at hli
    | map m =>
      obtain ⟨a, mt2, hres, ha, hk, hne, hasc, hrest⟩ := h.map_view
      have hl : m.isEmpty = false := by simpa using hne
      obtain ⟨n', a', hfuel, hres', hh⟩ := mergeNode_some_right s fuel _ _ tr o hm
      rw [hres] at hres'
      cases hres'
      by_cases hat : mt2.rel = "atomic"
      · have e1 : removeV s true tr S' (.map m) = some (.map m) := by
          rw [extractV_map_eq S' m hk]; simp [hl, hat]
        rw [e1] at hh
        simp only [outToValue] at hh
        rw [deduceAtom_map a m mt2 ha] at hh
        rcases MV.mergeHandle_map_cases s _ _ _ _ mt2 (atomKind_map mt2) o hh with ⟨_, ho⟩ | ⟨hc, _⟩
        · exact ho
        · simp [hat] at hc
      · have hat' : (mt2.rel == "atomic") = false := by simpa using hat
        have hall := hrest hat
        have hpw := keysAsc_pairwise m hasc
        rw [removed_map_value S m hk hl hat', extracted_map_value S' m hk hl hat'] at hh
        obtain ⟨eRf, eRe⟩ := entriesValue_asMap (removeFields s false mt2 S m)
        obtain ⟨eEf, eEe⟩ := entriesValue_asMap (removeFields s true mt2 S' m)
        have hkE := entriesValue_kind a mt2 ha (removeFields s true mt2 S' m)
        have hlookR := lookupField_removeFields s mt2 S
        have hlookE := lookupField_extractFields s mt2 S'
        have key : ∀ k x, lookupField k m = some x →
            (lookupField k (removeFields s false mt2 S m) ≠ none ∨
              lookupField k (removeFields s true mt2 S' m) ≠ none) ∧
            ∀ w, mergeNode s n' (lookupField k (removeFields s false mt2 S m))
              (lookupField k (removeFields s true mt2 S' m)) (fieldType mt2 k) = .ok (some w) → w = x := by
          intro k x hlk
          have hmem := lookupField_mem k m x hlk
          have hx := hall (k, x) hmem
          have hch := childAt_map hk hat hlk
          have hxd : x.depth ≤ n := by
            have : x.depth ≤ Value.depthFields m := depthFields_mem m (k, x) hmem
            simp only [Value.depth] at hd; omega
          have hKk := hK.field k
          have hemp : (S'.withPrefix (PE.field k)).isEmpty = (S.withPrefix (PE.field k)).isEmpty :=
            hKk.isEmpty_iff (wf_withPrefix _ S hw) (wf_withPrefix _ S' hw')
          rw [hlookR k m, hlookE k m, hemp, hlk]
          by_cases h1 : S.has [PE.field k] = true
          · have h1' := hK.sub _ h1
            simp only [h1, h1', if_true, Option.map_some]
            have hleaf := isLeaf_single hch (hS.leaf.2 _ h1)
            rw [extract_leaflike hx.hyp hleaf S']
            refine ⟨.inr (by simp), ?_⟩
            intro w hw
            have := merge_canon_right s n' x _ _ hx.hyp.canon hw
            cases this; rfl
          · simp only [h1, if_false]
            by_cases h1' : S'.has [PE.field k] = true
            · -- a key field of the item this map is
              have hkX : k ∈ X := by
                rcases hK.sup _ h1' with h2 | h2 | ⟨k', hk', h2⟩
                · exact absurd h2 h1
                · have := h2.length; simp at this
                · simp only [List.cons.injEq, PE.field.injEq, and_true] at h2
                  rw [h2]; exact hk'
              have hsc := (hX k hkX).2 m x rfl hlk
              have hempk : (S.withPrefix (PE.field k)).isEmpty = true := by
                cases he : (S.withPrefix (PE.field k)).isEmpty with
                | true => rfl
                | false =>
                  exfalso
                  obtain ⟨q, hq, hq'⟩ := exists_has_of_withPrefix_nonempty hw he
                  have hin := (hS.leaf.2 _ hq').1
                  rw [hch q] at hin
                  obtain ⟨qa, qb, rfl⟩ : ∃ qa qb, q = qa :: qb := by
                    cases q with
                    | nil => exact absurd rfl hq
                    | cons qa qb => exact ⟨qa, qb, rfl⟩
                  rw [inFS_leaf_cons s _ x qa qb (by cases x <;> simp_all [Value.isScalar, Value.isList])
                    (by cases x <;> simp_all [Value.isScalar, Value.isMap])] at hin
                  simp at hin
              obtain ⟨t, hkx⟩ := hx.hyp.scalar_view hsc
              have e1 : outToValue (removeV s true (fieldType mt2 k) S' x) = x := by
                cases x <;> simp [Value.isScalar] at hsc <;> (simp only [removeV, hkx]; rfl)
              simp only [h1', hempk, if_true, Option.map_some, e1, Bool.true_eq_false, if_false]
              refine ⟨.inl (by simp), ?_⟩
              intro w hw
              have := merge_scalar_right s n' _ x _ _ hx.hyp.valid hsc hw
              cases this; rfl
            · simp only [h1', if_false]
              by_cases h2 : (S.withPrefix (PE.field k)).isEmpty = false
              · simp only [h2, if_true, Option.map_some]
                refine ⟨.inl (by simp), ?_⟩
                intro w hw
                have := partition_fields s n x _ _ _ [] n' _ hxd hx (hS.child hch) (wf_withPrefix _ S' hw') hKk
                  (fun k' hk' => by cases hk') (fun _ => h2) hw
                cases this; rfl
              · simp only [h2, if_false]
                refine ⟨.inl (by simp), ?_⟩
                intro w hw
                have := merge_canon_left s n' x _ _ hx.hyp.canon hw
                cases this; rfl
        have keynone : ∀ k, lookupField k m = none →
            lookupField k (removeFields s false mt2 S m) = none ∧
              lookupField k (removeFields s true mt2 S' m) = none := by
          intro k hlk
          rw [hlookR k m, hlookE k m, hlk]
          constructor
          · split
            · rfl
            · split <;> rfl
          · split
            · rfl
            · split <;> rfl
        have hnotempty : (emptyOrAbsent (asMap (some (entriesValue (removeFields s false mt2 S m)))) &&
            emptyOrAbsent (asMap (some (entriesValue (removeFields s true mt2 S' m))))) = false := by
          rw [eRe, eEe]
          cases m with
          | nil => exact absurd rfl hne
          | cons e rest =>
            obtain ⟨k, x⟩ := e
            have hlk : lookupField k ((k, x) :: rest) = some x := by simp [lookupField]
            rcases (key k x hlk).1 with h' | h'
            · cases hR : removeFields s false mt2 S ((k, x) :: rest) with
              | nil => rw [hR] at h'; simp [lookupField] at h'
              | cons _ _ => rfl
            · cases hE : removeFields s true mt2 S' ((k, x) :: rest) with
              | nil => rw [hE] at h'; simp [lookupField] at h'
              | cons _ _ => simp
        obtain ⟨outm, hfold, hout⟩ := mergeHandle_map_desc s _ _ _ _ mt2 hkE o hh hat hnotempty
        rw [eRf, eEf] at hfold
        have hpR := removeFields_pairwise s false mt2 S m hpw
        have hpE := removeFields_pairwise s true mt2 S' m hpw
        have hrec : ∀ k w, mergeNode s n' (lookupField k (removeFields s false mt2 S m))
            (lookupField k (removeFields s true mt2 S' m)) (fieldType mt2 k) = .ok (some w) → canon w = true := by
          intro k w hw
          cases hlk : lookupField k m with
          | none =>
            obtain ⟨e1, e2⟩ := keynone k hlk
            rw [e1, e2] at hw
            exact absurd hw (mergeNode_none_none s n' _ _)
          | some x =>
            rw [(key k x hlk).2 w hw]
            exact (hall (k, x) (lookupField_mem k m x hlk)).hyp.canon
        have hpo := (CanonKeys.foldl_mergeMapStep_canon _ mt2 _ _ hrec _ [] outm
          (CanonKeys.zipKeys_nodup _ _ hpR hpE) (by simp) List.Pairwise.nil (by simp) hfold).1
        have hlookup : ∀ k, lookupField k outm = lookupField k m := by
          intro k
          obtain ⟨g1, g2⟩ := mergedMap_lookup _ mt2 _ _ outm hfold k
          cases hlo : lookupField k outm with
          | some w =>
            have hw := g1 w hlo
            cases hlk : lookupField k m with
            | none =>
              obtain ⟨e1, e2⟩ := keynone k hlk
              rw [e1, e2] at hw
              exact absurd hw (mergeNode_none_none s n' _ _)
            | some x => rw [(key k x hlk).2 w hw]
          | none =>
            cases hlk : lookupField k m with
            | none => rfl
            | some x =>
              rcases g2 hlo with ⟨e1, e2⟩ | hnone
              · rcases (key k x hlk).1 with h' | h'
                · exact absurd e1 h'
                · exact absurd e2 h'
              · have := mergeNode_isSome s n' _ _ _ _ hnone
                cases this
        have : outm = m := entries_ext outm m hpo hpw hlookup
        subst this
        rcases hout with ⟨h0, _⟩ | ⟨_, ho⟩
        · exact absurd h0 hne
        · exact ho

/-! ### the law for typed values -/

theorem partition_fields_tv (s : Schema) (tv back : TV) (fs S : SetTrie)
    (hv : validateV s false tv.type tv.value = .ok ()) (hc : canon tv.value = true)
    (hla : listsAssociative s tv.type tv.value = true) (hp : plain tv.value = true)
    (hks : keysScalar s tv.type tv.value = true)
    (hfs : toFieldSet s tv = .ok fs) (hS : S.wf = true)
    (hleaves : ∀ p, S.has p = true → fs.leaves.has p = true)
    (hnokeys : ∀ p, S.has p = true → ∀ q ∈ keyFieldPaths p, q ≠ p)
    (hfields : ∀ p, S.has p = true → ∃ q k, p = q ++ [PE.field k])
    (hroot : tv.value.isList = true → S.isEmpty = false)
    (hm : mergeTV s (removeItemsTV s tv S) (extractItemsTV s tv S true) = .ok back) :
    back.value = tv.value := by
  have hfswf : fs.wf = true := by
    unfold toFieldSet at hfs
    split at hfs
    · cases hfs; exact wf_ofPaths _
    · cases hfs
    · cases hfs
  have hsub : ∀ p, S.has p = true → fs.has p = true := by
    intro p hp'
    have := hleaves p hp'
    rw [C15.has_leaves fs p hfswf, Bool.and_eq_true] at this
    exact this.1
  obtain ⟨hwE, hK⟩ := kinv_extractSet fs S hS hsub
  have hSOK : SOK s tv.type tv.value S := by
    refine ⟨leafSub_of_leaves s tv fs S hv hc hla hfs hS hleaves, hfields, ?_⟩
    intro pre fl k hk
    cases hh : S.has (pre ++ [PE.key fl, PE.field k]) with
    | false => rfl
    | true =>
      exfalso
      exact hnokeys _ hh _ ((mem_keyFieldPaths _ _).2 ⟨pre, fl, k, [PE.field k], rfl, hk, rfl⟩) rfl
  rw [extractItemsTV_appendKeys s tv fs S hfs] at hm
  unfold mergeTV removeItemsTV at hm
  simp only [] at hm
  split at hm
  · cases hm
  · split at hm
    · next o ho =>
      cases hm
      have := partition_fields s _ tv.value tv.type S _ [] _ o (Nat.le_refl _) ⟨⟨hv, hc, hla, hp⟩, hks⟩ hSOK hwE hK
        (fun k hk => by cases hk) hroot ho
      rw [this]; rfl
    · cases hm
    · cases hm

end Part
end SMD
