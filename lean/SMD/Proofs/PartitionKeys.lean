/-
The set `ExtractItems(S, WithAppendKeyFields)` extracts, against `S` (helper lemmas for
`SMD/Properties/C14Partition.lean`): its members are those of `S` and the key fields of the list items
the members of `S` pass through; the relation is kept when descending into a child.
-/
import SMD.Proofs.PartitionMaps
set_option linter.unusedSimpArgs false
set_option linter.unusedVariables false
set_option linter.unnecessarySimpa false
namespace SMD
namespace Part
open SetTrie NodeLaws CmpX

/-! ### path elements and paths up to `Equals` -/

theorem equalsFields_names : ∀ (a b : List (String × Value)), Value.equalsFields a b = true →
    a.map (·.1) = b.map (·.1)
  | [], [], _ => rfl
  | [], _ :: _, h => by simp [Value.equalsFields] at h
  | _ :: _, [], h => by simp [Value.equalsFields] at h
  | (k, v) :: as, (k', v') :: bs, h => by
    simp only [Value.equalsFields, Bool.and_eq_true, beq_iff_eq] at h
    simp [h.1.1, equalsFields_names as bs h.2]

theorem pe_equals_key_left {fl : FieldList} {pe : PE} (h : PE.equals (.key fl) pe = true) :
    ∃ fl', pe = .key fl' ∧ fl.map (·.1) = fl'.map (·.1) := by
  cases pe with
  | key fl' => exact ⟨fl', rfl, equalsFields_names fl fl' (by simpa [PE.equals, FieldList.equals] using h)⟩
  | _ => simp [PE.equals] at h

theorem pe_equals_field_left {k : String} {pe : PE} (h : PE.equals (.field k) pe = true) : pe = .field k := by
  cases pe with
  | field k' => simp [PE.equals] at h; rw [h]
  | _ => simp [PE.equals] at h

/-- the names of the key fields an element carries -/
def keyNames : PE → List String
  | .key fl => fl.map (·.1)
  | _ => []

theorem path_equals_split : ∀ (pre : Path) (x : PE) (rest q : Path),
    Path.equals q (pre ++ x :: rest) = true →
    ∃ pre' x' rest', q = pre' ++ x' :: rest' ∧ Path.equals pre' pre = true ∧ PE.equals x' x = true ∧
      Path.equals rest' rest = true
  | [], x, rest, [], h => by simp [Path.equals] at h
  | [], x, rest, y :: ys, h => by
    simp only [List.nil_append, Path.equals, Bool.and_eq_true] at h
    exact ⟨[], y, ys, rfl, rfl, h.1, h.2⟩
  | a :: pre, x, rest, [], h => by simp [Path.equals] at h
  | a :: pre, x, rest, y :: ys, h => by
    simp only [List.cons_append, Path.equals, Bool.and_eq_true] at h
    obtain ⟨pre', x', rest', h1, h2, h3, h4⟩ := path_equals_split pre x rest ys h.2
    refine ⟨y :: pre', x', rest', by simp [h1], ?_, h3, h4⟩
    simp only [Path.equals, Bool.and_eq_true]
    exact ⟨h.1, h2⟩

theorem path_equals_append_both : ∀ {a b c d : Path}, Path.equals a b = true → Path.equals c d = true →
    Path.equals (a ++ c) (b ++ d) = true
  | [], [], _, _, _, h => h
  | [], _ :: _, _, _, h, _ => by simp [Path.equals] at h
  | _ :: _, [], _, _, h, _ => by simp [Path.equals] at h
  | x :: xs, y :: ys, c, d, h1, h2 => by
    simp only [Path.equals, Bool.and_eq_true, List.cons_append] at h1 ⊢
    exact ⟨h1.1, path_equals_append_both h1.2 h2⟩

/-! ### the key-field paths of a path -/

theorem mem_keyFieldPaths_go : ∀ (p pre0 q : Path), q ∈ keyFieldPaths.go pre0 p ↔
    ∃ pre fl k rest, p = pre ++ PE.key fl :: rest ∧ k ∈ fl.map (·.1) ∧ q = pre0 ++ pre ++ [PE.key fl, PE.field k]
  | [], pre0, q => by
    simp only [keyFieldPaths.go, List.not_mem_nil, false_iff]
    rintro ⟨pre, fl, k, rest, h, _⟩
    cases pre <;> simp at h
  | pe :: p, pre0, q => by
    have ih := mem_keyFieldPaths_go p (pre0 ++ [pe]) q
    simp only [keyFieldPaths.go, List.mem_append, ih]
    constructor
    · rintro (h | ⟨pre, fl, k, rest, h1, h2, h3⟩)
      · cases pe with
        | key fl =>
          simp only [List.mem_map] at h
          obtain ⟨kv, hkv, rfl⟩ := h
          exact ⟨[], fl, kv.1, p, rfl, List.mem_map_of_mem hkv, by simp⟩
        | _ => simp at h
      · exact ⟨pe :: pre, fl, k, rest, by simp [h1], h2, by simp [h3]⟩
    · rintro ⟨pre, fl, k, rest, h1, h2, h3⟩
      cases pre with
      | nil =>
        simp only [List.nil_append, List.cons.injEq] at h1
        obtain ⟨rfl, rfl⟩ := h1
        left
        simp only [List.mem_map]
        obtain ⟨kv, hkv, rfl⟩ := List.mem_map.1 h2
        exact ⟨kv, hkv, by simp [h3]⟩
      | cons a pre' =>
        simp only [List.cons_append, List.cons.injEq] at h1
        obtain ⟨rfl, rfl⟩ := h1
        right
        exact ⟨pre', fl, k, rest, rfl, h2, by simp [h3]⟩

theorem mem_keyFieldPaths (p q : Path) : q ∈ keyFieldPaths p ↔
    ∃ pre fl k rest, p = pre ++ PE.key fl :: rest ∧ k ∈ fl.map (·.1) ∧ q = pre ++ [PE.key fl, PE.field k] := by
  unfold keyFieldPaths
  rw [mem_keyFieldPaths_go]
  simp

/-! ### the extracted set against the removed set -/

/-- `p` is a key field of a list item some member of `S` passes through -/
def KeyExtra (S : SetTrie) (p : Path) : Prop :=
  ∃ pre fl k rest, k ∈ fl.map (·.1) ∧ S.has (pre ++ PE.key fl :: rest) = true ∧
    Path.equals (pre ++ [PE.key fl, PE.field k]) p = true

/-- the extracted set `S'` holds `S`, the key fields of the list items the members of `S` pass through,
and the fields `X` of the node (the key fields of the item the node is) -/
structure KInv (S S' : SetTrie) (X : List String) : Prop where
  sub : ∀ p, S.has p = true → S'.has p = true
  sup : ∀ p, S'.has p = true → S.has p = true ∨ KeyExtra S p ∨ ∃ k ∈ X, p = [PE.field k]
  keys : ∀ pre fl k rest, S.has (pre ++ PE.key fl :: rest) = true → k ∈ fl.map (·.1) →
    S'.has (pre ++ [PE.key fl, PE.field k]) = true
  top : ∀ k ∈ X, S'.has [PE.field k] = true

theorem KeyExtra.length {S : SetTrie} {p : Path} (h : KeyExtra S p) : 2 ≤ p.length := by
  obtain ⟨pre, fl, k, rest, _, _, he⟩ := h
  have := length_eq_of_path_equals he
  simp only [List.length_append, List.length_cons, List.length_nil] at this
  omega

theorem KeyExtra.nonempty {S : SetTrie} {p : Path} (h : KeyExtra S p) : S.isEmpty = false := by
  obtain ⟨pre, fl, k, rest, _, hh, _⟩ := h
  exact not_isEmpty_of_has hh

/-- descending below an element that is not a field: the key fields of the item come in -/
theorem KeyExtra.descend {S : SetTrie} {pe : PE} {p : Path} (h : KeyExtra S (pe :: p)) :
    KeyExtra (S.withPrefix pe) p ∨ ∃ k ∈ keyNames pe, p = [PE.field k] ∧ ∃ rest, S.has (pe :: rest) = true := by
  obtain ⟨pre, fl, k, rest, hk, hh, he⟩ := h
  cases pre with
  | nil =>
    right
    simp only [List.nil_append, Path.equals, Bool.and_eq_true] at he
    obtain ⟨fl', rfl, hn⟩ := pe_equals_key_left he.1
    cases p with
    | nil => simp [Path.equals] at he
    | cons b bs =>
      simp only [Path.equals, Bool.and_eq_true] at he
      have hb := pe_equals_field_left he.2.1
      cases bs with
      | nil =>
        refine ⟨k, by simpa [keyNames, ← hn] using hk, by rw [hb], rest, ?_⟩
        rw [← has_congr_head he.1]
        exact hh
      | cons _ _ => simp [Path.equals] at he
  | cons a pre' =>
    left
    simp only [List.cons_append, Path.equals, Bool.and_eq_true] at he
    refine ⟨pre', fl, k, rest, hk, ?_, he.2⟩
    rw [has_withPrefix_cons pe S _ (by simp), ← has_congr_head he.1]
    exact hh

theorem KInv.isEmpty_iff {S S' : SetTrie} (h : KInv S S' []) (hw : S.wf = true) (hw' : S'.wf = true) :
    S'.isEmpty = S.isEmpty := by
  cases he : S.isEmpty with
  | false =>
    obtain ⟨q, hq⟩ := exists_has_of_not_isEmpty S hw he
    exact not_isEmpty_of_has (h.sub q hq)
  | true =>
    cases he' : S'.isEmpty with
    | true => rfl
    | false =>
      exfalso
      obtain ⟨q, hq⟩ := exists_has_of_not_isEmpty S' hw' he'
      rcases h.sup q hq with h1 | h1 | ⟨k, hk, _⟩
      · rw [has_of_isEmpty q S he] at h1; cases h1
      · rw [h1.nonempty] at he; cases he
      · cases hk

/-- descending into the entry `k` of a map -/
theorem KInv.field {S S' : SetTrie} {X : List String} (h : KInv S S' X) (k : String) :
    KInv (S.withPrefix (.field k)) (S'.withPrefix (.field k)) [] := by
  refine ⟨?_, ?_, ?_, ?_⟩
  · intro p hp
    have hne := has_true_ne_nil hp
    rw [has_withPrefix_cons _ S p hne] at hp
    rw [has_withPrefix_cons _ S' p hne]
    exact h.sub _ hp
  · intro p hp
    have hne := has_true_ne_nil hp
    rw [has_withPrefix_cons _ S' p hne] at hp
    rcases h.sup _ hp with h1 | h1 | ⟨k', _, h1⟩
    · left; rw [has_withPrefix_cons _ S p hne]; exact h1
    · rcases h1.descend with h2 | ⟨k', hk', _⟩
      · exact .inr (.inl h2)
      · simp [keyNames] at hk'
    · simp only [List.cons.injEq] at h1
      exact absurd h1.2 hne
  · intro pre fl k' rest hh hk'
    rw [has_withPrefix_cons _ S _ (by simp)] at hh
    rw [has_withPrefix_cons _ S' _ (by simp)]
    exact h.keys (PE.field k :: pre) fl k' rest hh hk'
  · intro k' hk'; cases hk'

/-- descending into the item `pe` of a list, some member of `S` passing through it -/
theorem KInv.item {S S' : SetTrie} {X : List String} (h : KInv S S' X) (hw : S.wf = true) (pe : PE)
    (hpe : ∀ k, pe ≠ PE.field k) (hne : (S.withPrefix pe).isEmpty = false) :
    KInv (S.withPrefix pe) (S'.withPrefix pe) (keyNames pe) := by
  refine ⟨?_, ?_, ?_, ?_⟩
  · intro p hp
    have hne := has_true_ne_nil hp
    rw [has_withPrefix_cons _ S p hne] at hp
    rw [has_withPrefix_cons _ S' p hne]
    exact h.sub _ hp
  · intro p hp
    have hne := has_true_ne_nil hp
    rw [has_withPrefix_cons _ S' p hne] at hp
    rcases h.sup _ hp with h1 | h1 | ⟨k', _, h1⟩
    · left; rw [has_withPrefix_cons _ S p hne]; exact h1
    · rcases h1.descend with h2 | ⟨k', hk', h2, _⟩
      · exact .inr (.inl h2)
      · exact .inr (.inr ⟨k', hk', h2⟩)
    · simp only [List.cons.injEq] at h1
      exact absurd h1.1 (hpe k')
  · intro pre fl k' rest hh hk'
    rw [has_withPrefix_cons _ S _ (by simp)] at hh
    rw [has_withPrefix_cons _ S' _ (by simp)]
    exact h.keys (pe :: pre) fl k' rest hh hk'
  · intro k hk
    cases pe with
    | key fl =>
      obtain ⟨q, hq, hq'⟩ := exists_has_of_withPrefix_nonempty hw hne
      rw [has_withPrefix_cons _ S' _ (by simp)]
      exact h.keys [] fl k q hq' hk
    | _ => simp [keyNames] at hk

/-- below an item that is not itself a member, the extracted set is empty exactly when `S` is -/
theorem KInv.item_isEmpty {S S' : SetTrie} {X : List String} (h : KInv S S' X) (hw : S.wf = true)
    (hw' : S'.wf = true) (pe : PE) (hpe : ∀ k, pe ≠ PE.field k) (hnot : S.has [pe] = false) :
    (S'.withPrefix pe).isEmpty = (S.withPrefix pe).isEmpty := by
  cases he : (S.withPrefix pe).isEmpty with
  | false =>
    obtain ⟨q, hq, hq'⟩ := exists_has_of_withPrefix_nonempty hw he
    exact withPrefix_nonempty_of_has hq (h.sub _ hq')
  | true =>
    cases he' : (S'.withPrefix pe).isEmpty with
    | true => rfl
    | false =>
      exfalso
      obtain ⟨q, hq, hq'⟩ := exists_has_of_withPrefix_nonempty hw' he'
      have hnon : ∀ r, r ≠ [] → S.has (pe :: r) = true → False := by
        intro r hr hh
        rw [withPrefix_nonempty_of_has hr hh] at he
        cases he
      rcases h.sup _ hq' with h1 | h1 | ⟨k, _, h1⟩
      · exact hnon q hq h1
      · rcases h1.descend with h2 | ⟨k, _, _, rest, h2⟩
        · rw [h2.nonempty] at he; cases he
        · by_cases hr : rest = []
          · subst hr; rw [hnot] at h2; cases h2
          · exact hnon rest hr h2
      · simp only [List.cons.injEq] at h1
        exact hpe k h1.1

/-- the set `ExtractItems(S, WithAppendKeyFields)` extracts, for a well-formed `S` all of whose members are
members of the field set `fs` -/
theorem kinv_extractSet (fs S : SetTrie) (hS : S.wf = true) (hsub : ∀ p, S.has p = true → fs.has p = true) :
    (extractSet fs S).wf = true ∧ KInv S (extractSet fs S) [] := by
  have hwK : (SetTrie.ofPaths ((S.paths.filter (fun p => fs.has p)).flatMap keyFieldPaths)).wf = true :=
    wf_ofPaths _
  have hhas : ∀ p, (extractSet fs S).has p =
      (S.has p || (SetTrie.ofPaths ((S.paths.filter (fun p => fs.has p)).flatMap keyFieldPaths)).has p) :=
    fun p => has_union p _ _ hS hwK
  refine ⟨wf_union _ _ hS hwK, ?_, ?_, ?_, ?_⟩
  · intro p hp; rw [hhas, hp]; rfl
  · intro p hp
    rw [hhas, Bool.or_eq_true] at hp
    rcases hp with hp | hp
    · exact .inl hp
    · right; left
      rw [CmpX.has_ofPaths_pmem, Bool.and_eq_true] at hp
      obtain ⟨kp, hkp, he⟩ := pmem_iff.1 hp.2
      obtain ⟨q, hq, hkq⟩ := List.mem_flatMap.1 hkp
      obtain ⟨pre, fl, k, rest, rfl, hk, rfl⟩ := (mem_keyFieldPaths q kp).1 hkq
      have hqS : S.has (pre ++ PE.key fl :: rest) = true :=
        (has_iff_mem_paths _ S hS).2 ⟨_, (List.mem_filter.1 hq).1, Path.equals_refl _⟩
      exact ⟨pre, fl, k, rest, hk, hqS, he⟩
  · intro pre fl k rest hh hk
    rw [hhas, Bool.or_eq_true]
    right
    obtain ⟨q, hq, he⟩ := (has_iff_mem_paths _ S hS).1 hh
    obtain ⟨pre', x', rest', rfl, h2, h3, h4⟩ := path_equals_split pre (PE.key fl) rest q he
    obtain ⟨fl', rfl, hn⟩ := pe_equals_key_left (PE.equals_symm_of h3)
    have hqS : S.has (pre' ++ PE.key fl' :: rest') = true :=
      (has_iff_mem_paths _ S hS).2 ⟨_, hq, Path.equals_refl _⟩
    rw [CmpX.has_ofPaths_pmem, Bool.and_eq_true]
    refine ⟨by simp, pmem_iff.2 ⟨pre' ++ [PE.key fl', PE.field k], ?_, ?_⟩⟩
    · refine List.mem_flatMap.2 ⟨_, List.mem_filter.2 ⟨hq, hsub _ hqS⟩, ?_⟩
      exact (mem_keyFieldPaths _ _).2 ⟨pre', fl', k, rest', rfl, by rw [← hn]; exact hk, rfl⟩
    · apply path_equals_append_both h2
      simp only [Path.equals, Bool.and_eq_true, Bool.and_true]
      exact ⟨h3, PE.equals_refl _⟩
  · intro k hk; cases hk

end Part
end SMD
