/- helper lemmas for SMD/Properties/C14Partition.lean:
   `PartitionLeaves` (extraction of the leaves of the field set), `PartitionDisjoint` (the field set of
   what is left against the removed set), `PartitionMaps` (the partition law for objects without lists),
   `PartitionKeys` (the set extracted with key fields against the removed set), `PartitionLists` (the list
   level: indexes and the interleaving loop), `PartitionFields` (the partition law for sets of map
   entries), `PartitionCounterexamples` (runs of the model refuting the statements as first written) -/
import SMD.Proofs.NodeRemove
import SMD.Proofs.NodeFieldSet
import SMD.Proofs.MergeNodes
import SMD.Proofs.MergeFrame
import SMD.Proofs.MergeValid
import SMD.Properties.C14Nodes
import SMD.Properties.C12Valid
import SMD.Proofs.PartitionLeaves
import SMD.Proofs.PartitionDisjoint
import SMD.Proofs.PartitionMaps
import SMD.Proofs.PartitionKeys
import SMD.Proofs.PartitionLists
import SMD.Proofs.PartitionFields
import SMD.Proofs.PartitionCounterexamples
namespace SMD
end SMD
