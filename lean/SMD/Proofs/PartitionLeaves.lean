/-
Extraction of the leaves of an object's field set (helper lemmas for `SMD/Properties/C14Partition.lean`).

The field set is taken path by path (`CmpX.inFS`); a set `T` "is the leaf set" of an object when its
members are the paths of the field set that have no member beneath them.  Extraction of such a set
rebuilds the object, for objects without empty lists or maps (`plain`).
-/
import SMD.Proofs.CompareExact
import SMD.Proofs.NodeRemove
import SMD.Proofs.MergeNodes
set_option linter.unusedSimpArgs false
set_option linter.unusedVariables false
set_option linter.unnecessarySimpa false
namespace SMD
namespace Part
open SetTrie NodeLaws CmpX

/-! ### objects without empty containers -/

mutual
/-- no empty list and no empty map anywhere in the value (explicit nulls are allowed) -/
def plain : Value → Bool
  | .list l => !l.isEmpty && plainList l
  | .map m => !m.isEmpty && plainFields m
  | _ => true
def plainList : List Value → Bool
  | [] => true
  | v :: vs => plain v && plainList vs
def plainFields : List (String × Value) → Bool
  | [] => true
  | (_, v) :: rest => plain v && plainFields rest
end

theorem plainList_mem : ∀ (l : List Value), plainList l = true → ∀ c ∈ l, plain c = true
  | [], _, c, hc => by cases hc
  | v :: vs, h, c, hc => by
    simp only [plainList, Bool.and_eq_true] at h
    rcases List.mem_cons.1 hc with rfl | hc
    · exact h.1
    · exact plainList_mem vs h.2 c hc

theorem plainFields_mem : ∀ (m : List (String × Value)), plainFields m = true → ∀ x ∈ m, plain x.2 = true
  | [], _, c, hc => by cases hc
  | (k, v) :: vs, h, c, hc => by
    simp only [plainFields, Bool.and_eq_true] at h
    rcases List.mem_cons.1 hc with rfl | hc
    · exact h.1
    · exact plainFields_mem vs h.2 c hc

/-! ### paths up to `Equals` -/

theorem has_congr_path' : ∀ {a b : Path}, Path.equals a b = true → ∀ S : SetTrie, has a S = has b S
  | [], [], _, _ => rfl
  | [], _ :: _, h, _ => by simp [Path.equals] at h
  | _ :: _, [], h, _ => by simp [Path.equals] at h
  | x :: xs, y :: ys, h, S => by
    simp only [Path.equals, Bool.and_eq_true] at h
    rw [has_congr_head h.1 xs S]
    by_cases hx : xs = []
    · subst hx
      cases ys with
      | nil => rfl
      | cons _ _ => simp [Path.equals] at h
    · have hy : ys ≠ [] := by
        rintro rfl
        cases xs with
        | nil => exact hx rfl
        | cons _ _ => simp [Path.equals] at h
      rw [← has_withPrefix_cons y S xs hx, ← has_withPrefix_cons y S ys hy]
      exact has_congr_path' h.2 _

/-- a proper prefix up to `Equals` is a prefix up to `Equals` with something left over -/
theorem properPrefix_split : ∀ (p r : Path), C15.properPrefix p r = true →
    ∃ p' q, r = p' ++ q ∧ q ≠ [] ∧ Path.equals p' p = true
  | [], [], h => by simp [C15.properPrefix] at h
  | [], b :: bs, _ => ⟨[], b :: bs, rfl, by simp, rfl⟩
  | a :: as, [], h => by simp [C15.properPrefix] at h
  | a :: as, b :: bs, h => by
    simp only [C15.properPrefix, Bool.and_eq_true] at h
    obtain ⟨p', q, h1, h2, h3⟩ := properPrefix_split as bs h.2
    refine ⟨b :: p', q, by simp [h1], h2, ?_⟩
    simp only [Path.equals, Bool.and_eq_true]
    exact ⟨by rw [PE.equals_comm]; exact h.1, h3⟩

theorem properPrefix_append : ∀ (p q : Path), q ≠ [] → C15.properPrefix p (p ++ q) = true
  | [], [], h => absurd rfl h
  | [], _ :: _, _ => rfl
  | a :: as, q, h => by
    simp only [List.cons_append, C15.properPrefix, PE.equals_refl, Bool.true_and]
    exact properPrefix_append as q h

/-! ### leaves of the field set, path by path -/

/-- nothing of the field set lies strictly beneath `p` -/
def NoBelow (s : Schema) (tr : TypeRef) (v : Value) (p : Path) : Prop :=
  ∀ q, q ≠ [] → inFS s tr v (p ++ q) = false

/-- `p` is in the field set and nothing of the field set lies beneath it -/
def IsLeaf (s : Schema) (tr : TypeRef) (v : Value) (p : Path) : Prop :=
  inFS s tr v p = true ∧ NoBelow s tr v p

/-- `T` is the set of leaves of the field set of `v` -/
def LeafSet (s : Schema) (tr : TypeRef) (v : Value) (T : SetTrie) : Prop :=
  T.wf = true ∧ ∀ p, p ≠ [] → (T.has p = true ↔ IsLeaf s tr v p)

/-- the one-step structure of `inFS`: the child `x : tr'` designated by `pe`, and whether the child itself
is a member whatever it contains -/
def ChildAt (s : Schema) (tr : TypeRef) (v : Value) (pe : PE) (tr' : TypeRef) (x : Value) (σ : Bool) : Prop :=
  ∀ rest, inFS s tr v (pe :: rest) = ((rest.isEmpty && σ) || inFS s tr' x rest)

theorem depth_pos (v : Value) : 0 < v.depth := by
  cases v <;> simp [Value.depth]

theorem inFS_cons_inv (s : Schema) (tr : TypeRef) (v : Value) (pe : PE) (rest : Path)
    (h : inFS s tr v (pe :: rest) = true) :
    ∃ tr' x σ, x.depth < v.depth ∧ ChildAt s tr v pe tr' x σ := by
  rw [inFS] at h
  cases hk : resolveKind s tr (some v) with
  | none => simp [hk] at h
  | some K =>
    cases K with
    | invalid => simp [hk] at h
    | scalar t => simp [hk] at h
    | map t =>
      simp only [hk] at h
      by_cases hat : (t.rel == "atomic") = true
      · simp [hat] at h
      · simp only [hat, if_false] at h
        cases v with
        | map m =>
          cases pe with
          | field k =>
            simp only [] at h
            cases hl : lookupField k m with
            | none => simp [hl] at h
            | some x =>
              refine ⟨fieldType t k, x, (x.isNull || emptyMapLit x || (t.findField k).isNone), ?_, ?_⟩
              · have : x.depth ≤ Value.depthFields m := depthFields_mem m (k, x) (lookupField_mem k m x hl)
                simp only [Value.depth]; omega
              · intro rest'
                rw [inFS, hk]
                simp [hat, hl]
          | _ => simp at h
        | _ => simp at h
    | list t =>
      simp only [hk] at h
      by_cases hat : (t.rel == "atomic") = true
      · simp [hat] at h
      · simp only [hat, if_false] at h
        cases v with
        | list l =>
          simp only [] at h
          cases hf : l.find? (fun c => PE.equals (peOf s t c) pe) with
          | none => simp [hf] at h
          | some x =>
            refine ⟨t.elementType, x, true, ?_, ?_⟩
            · have := depthList_mem l x (List.mem_of_find?_eq_some hf)
              simp only [Value.depth]; omega
            · intro rest'
              rw [inFS, hk]
              simp [hat, hf]
        | _ => simp at h

/-- a path of the field set is shorter than the object is deep -/
theorem inFS_length (s : Schema) : ∀ (p : Path) (tr : TypeRef) (v : Value),
    inFS s tr v p = true → p.length < v.depth
  | [], _, v, _ => depth_pos v
  | pe :: rest, tr, v, h => by
    obtain ⟨tr', x, σ, hd, hc⟩ := inFS_cons_inv s tr v pe rest h
    rw [hc rest] at h
    simp only [Bool.or_eq_true, Bool.and_eq_true, List.isEmpty_iff] at h
    rcases h with ⟨h, _⟩ | h
    · subst h; have := depth_pos x; simp only [List.length_cons, List.length_nil]; omega
    · have := inFS_length s rest tr' x h
      simp only [List.length_cons]; omega

/-- every path of the field set extends to a leaf -/
theorem exists_leaf (s : Schema) (tr : TypeRef) (v : Value) :
    ∀ (k : Nat) (p : Path), v.depth - p.length ≤ k → inFS s tr v p = true → ∃ q, IsLeaf s tr v (p ++ q)
  | 0, p, hk, h => by
    have := inFS_length s p tr v h
    omega
  | k + 1, p, hk, h => by
    by_cases hex : ∃ q, q ≠ [] ∧ inFS s tr v (p ++ q) = true
    · obtain ⟨q, hq, hin⟩ := hex
      have hlen := inFS_length s _ tr v hin
      have hql : 0 < q.length := List.length_pos_iff.2 hq
      obtain ⟨q', hq'⟩ := exists_leaf s tr v k (p ++ q) (by simp only [List.length_append] at hlen ⊢; omega) hin
      exact ⟨q ++ q', by rw [← List.append_assoc]; exact hq'⟩
    · refine ⟨[], ?_⟩
      rw [List.append_nil]
      refine ⟨h, ?_⟩
      intro q hq
      cases hin : inFS s tr v (p ++ q) with
      | false => rfl
      | true => exact absurd ⟨q, hq, hin⟩ hex

/-! ### descending into a child -/

theorem LeafSet.child {s : Schema} {tr tr' : TypeRef} {v x : Value} {pe : PE} {σ : Bool} {T : SetTrie}
    (hT : LeafSet s tr v T) (hc : ChildAt s tr v pe tr' x σ) : LeafSet s tr' x (T.withPrefix pe) := by
  refine ⟨wf_withPrefix pe T hT.1, ?_⟩
  intro p hp
  rw [has_withPrefix_cons pe T p hp, hT.2 (pe :: p) (by simp)]
  have hpe : p.isEmpty = false := by cases p <;> simp_all
  unfold IsLeaf NoBelow
  rw [hc p, hpe]
  simp only [Bool.false_and, Bool.false_or]
  constructor
  · rintro ⟨h1, h2⟩
    refine ⟨h1, fun q hq => ?_⟩
    have := h2 q hq
    rw [List.cons_append, hc (p ++ q)] at this
    have hne : (p ++ q).isEmpty = false := by cases p <;> simp_all
    simpa [hne] using this
  · rintro ⟨h1, h2⟩
    refine ⟨h1, fun q hq => ?_⟩
    rw [List.cons_append, hc (p ++ q)]
    have hne : (p ++ q).isEmpty = false := by cases p <;> simp_all
    simp [hne, h2 q hq]

/-- the child itself is a member of the leaf set: nothing of its field set lies beneath it -/
theorem LeafSet.child_leaf {s : Schema} {tr tr' : TypeRef} {v x : Value} {pe : PE} {σ : Bool} {T : SetTrie}
    (hT : LeafSet s tr v T) (hc : ChildAt s tr v pe tr' x σ) (hhas : T.has [pe] = true) :
    (∀ q, q ≠ [] → inFS s tr' x q = false) ∧ (T.withPrefix pe).isEmpty = true := by
  have hleaf := (hT.2 [pe] (by simp)).1 hhas
  have hnb : ∀ q, q ≠ [] → inFS s tr' x q = false := by
    intro q hq
    have := hleaf.2 q hq
    rw [List.cons_append, List.nil_append, hc q] at this
    have hne : q.isEmpty = false := by cases q <;> simp_all
    simpa [hne] using this
  refine ⟨hnb, ?_⟩
  cases he : (T.withPrefix pe).isEmpty with
  | true => rfl
  | false =>
    obtain ⟨q, hq, hq'⟩ := exists_has_of_withPrefix_nonempty hT.1 he
    have := ((hT.child hc).2 q hq).1 (by rw [has_withPrefix_cons pe T q hq]; exact hq')
    have h1 := this.1
    rw [hnb q hq] at h1
    cases h1

/-- the child is not a member of the leaf set: some leaf lies beneath it -/
theorem LeafSet.child_inner {s : Schema} {tr tr' : TypeRef} {v x : Value} {pe : PE} {σ : Bool} {T : SetTrie}
    (hT : LeafSet s tr v T) (hc : ChildAt s tr v pe tr' x σ) (hhas : T.has [pe] = false)
    (hne : σ = false → ∃ p, inFS s tr' x p = true) : (T.withPrefix pe).isEmpty = false := by
  have hnl : ¬ IsLeaf s tr v [pe] := by
    intro h
    rw [(hT.2 [pe] (by simp)).2 h] at hhas
    cases hhas
  have hex : ∃ q0, q0 ≠ [] ∧ inFS s tr' x q0 = true := by
    by_cases hin : inFS s tr v [pe] = true
    · have : ¬ NoBelow s tr v [pe] := fun h => hnl ⟨hin, h⟩
      have hex' : ∃ q, q ≠ [] ∧ inFS s tr v ([pe] ++ q) = true := by
        apply Classical.byContradiction
        intro hno
        apply this
        intro q hq
        cases hin' : inFS s tr v ([pe] ++ q) with
        | false => rfl
        | true => exact absurd ⟨q, hq, hin'⟩ hno
      obtain ⟨q, hq, hq'⟩ := hex'
      refine ⟨q, hq, ?_⟩
      rw [List.cons_append, List.nil_append, hc q] at hq'
      have hqe : q.isEmpty = false := by cases q <;> simp_all
      simpa [hqe] using hq'
    · rw [hc []] at hin
      simp only [List.isEmpty_nil, Bool.true_and, Bool.or_eq_true, not_or, Bool.not_eq_true] at hin
      obtain ⟨p, hp⟩ := hne hin.1
      refine ⟨p, ?_, hp⟩
      rintro rfl
      rw [hin.2] at hp
      cases hp
  obtain ⟨q0, hq0, hin0⟩ := hex
  obtain ⟨q', hleaf⟩ := exists_leaf s tr' x _ q0 (Nat.le_refl _) hin0
  have hne' : q0 ++ q' ≠ [] := by cases q0 <;> simp_all
  exact not_isEmpty_of_has (((hT.child hc).2 _ hne').2 hleaf)

/-! ### the hypotheses on the object, and what they say by kind -/

/-- an accepted canonical object whose visited lists are associative and which has no empty list or map -/
structure Hyp (s : Schema) (tr : TypeRef) (v : Value) : Prop where
  valid : validateV s false tr v = .ok ()
  canon : canon v = true
  assoc : listsAssociative s tr v = true
  plain : plain v = true

theorem Hyp.map_view {s : Schema} {tr : TypeRef} {m : List (String × Value)} (h : Hyp s tr (.map m)) :
    ∃ mt, resolveKind s tr (some (.map m)) = some (.map mt) ∧ m ≠ [] ∧ keysAsc m = true ∧
      (mt.rel ≠ "atomic" → ∀ x ∈ m, Hyp s (fieldType mt x.1) x.2) := by
  obtain ⟨a, mt, hres, ha, hfields⟩ := validateV_map_inv h.valid
  have hk := resolveKind_map_of s tr a mt m hres ha
  have hp := h.plain
  simp only [Part.plain, Bool.and_eq_true, Bool.not_eq_true', List.isEmpty_eq_false_iff] at hp
  have hc := h.canon
  simp only [SMD.canon, Bool.and_eq_true] at hc
  have hla := h.assoc
  rw [listsAssociative, hk] at hla
  dsimp only at hla
  simp only [Bool.or_eq_true, beq_iff_eq] at hla
  refine ⟨mt, hk, hp.1, hc.1, ?_⟩
  intro hat x hx
  rcases hla with hla | hla
  · exact absurd hla hat
  · exact ⟨validateFields_mem s false mt m hfields x hx, canonFields_mem m hc.2 x hx,
      listsAssociativeFields_mem s mt m hla x hx, plainFields_mem m hp.2 x hx⟩

theorem Hyp.list_view {s : Schema} {tr : TypeRef} {l : List Value} (h : Hyp s tr (.list l)) :
    ∃ lt, resolveKind s tr (some (.list l)) = some (.list lt) ∧ l ≠ [] ∧
      (lt.rel ≠ "atomic" → lt.rel = "associative" ∧ (∀ c ∈ l, Hyp s lt.elementType c) ∧
        (∀ q, (l.filter (fun c => PE.equals (peOf s lt c) q)).length ≤ 1)) := by
  obtain ⟨a, lt, hres, ha, hitems⟩ := validateV_list_inv h.valid
  have hk := resolveKind_list_of s tr a lt l hres ha
  have hp := h.plain
  simp only [Part.plain, Bool.and_eq_true, Bool.not_eq_true', List.isEmpty_eq_false_iff] at hp
  have hc : canonList l = true := by simpa [SMD.canon] using h.canon
  have hla := h.assoc
  rw [listsAssociative, hk] at hla
  dsimp only at hla
  simp only [Bool.or_eq_true, Bool.and_eq_true, beq_iff_eq, List.isEmpty_iff] at hla
  refine ⟨lt, hk, hp.1, ?_⟩
  intro hat
  rcases hla with (hla | hla) | ⟨hrel, hla⟩
  · exact absurd hla hat
  · exact absurd hla hp.1
  · refine ⟨hrel, ?_, fun q => (validateItems_nodup s lt hrel l [] 0 hitems q).1⟩
    intro c hc'
    exact ⟨validateItems_mem s false lt l _ _ hitems c hc', canonList_mem l hc c hc',
      listsAssociativeItems_mem s lt.elementType l hla c hc', plainList_mem l hp.2 c hc'⟩

theorem Hyp.scalar_view {s : Schema} {tr : TypeRef} {v : Value} (h : Hyp s tr v) (hs : v.isScalar = true) :
    ∃ t, resolveKind s tr (some v) = some (.scalar t) := by
  have hv := h.valid
  rw [validateV_scalar s false tr v hs] at hv
  cases hres : s.resolve tr with
  | none => simp [hres] at hv
  | some a =>
    cases ha : a.scalar with
    | none => simp [hres, ha] at hv
    | some t =>
      exact ⟨t, by rw [resolveKind_eq s tr a _ hres, deduceAtom_scalar a v t hs ha, atomKind_scalar]⟩

/-! ### children, by kind -/

theorem childAt_map {s : Schema} {tr : TypeRef} {m : List (String × Value)} {mt : MapT} {k : String} {x : Value}
    (hk : resolveKind s tr (some (.map m)) = some (.map mt)) (hat : mt.rel ≠ "atomic")
    (hl : lookupField k m = some x) :
    ChildAt s tr (.map m) (.field k) (fieldType mt k) x (x.isNull || emptyMapLit x || (mt.findField k).isNone) := by
  intro rest
  have hat' : (mt.rel == "atomic") = false := by simpa using hat
  rw [inFS, hk]
  simp [hat', hl]

theorem childAt_list {s : Schema} {tr : TypeRef} {l : List Value} {lt : ListT} {pe : PE} {x : Value}
    (hk : resolveKind s tr (some (.list l)) = some (.list lt)) (hat : lt.rel ≠ "atomic")
    (hf : l.find? (fun c => PE.equals (peOf s lt c) pe) = some x) :
    ChildAt s tr (.list l) pe lt.elementType x true := by
  intro rest
  have hat' : (lt.rel == "atomic") = false := by simpa using hat
  rw [inFS, hk]
  simp [hat', hf]

theorem find_of_nodup {s : Schema} {lt : ListT} {l : List Value}
    (hnd : ∀ q, (l.filter (fun c => PE.equals (peOf s lt c) q)).length ≤ 1) {c : Value} (hc : c ∈ l) :
    l.find? (fun c' => PE.equals (peOf s lt c') (peOf s lt c)) = some c := by
  have hmem : c ∈ l.filter (fun c' => PE.equals (peOf s lt c') (peOf s lt c)) :=
    List.mem_filter.2 ⟨hc, PE.equals_refl _⟩
  have hlen := hnd (peOf s lt c)
  rw [← List.head?_filter]
  cases hf : l.filter (fun c' => PE.equals (peOf s lt c') (peOf s lt c)) with
  | nil => rw [hf] at hmem; cases hmem
  | cons y ys =>
    rw [hf] at hmem hlen
    cases ys with
    | nil => simp only [List.mem_singleton] at hmem; subst hmem; rfl
    | cons _ _ => simp at hlen

/-! ### an object that is not null has a non-empty field set -/

theorem inFS_nil_of_kind (s : Schema) (tr : TypeRef) (v : Value) :
    inFS s tr v [] =
      (match resolveKind s tr (some v) with
       | some (.scalar _) => true
       | some (.list t) => t.rel == "atomic"
       | some (.map t) => t.rel == "atomic"
       | _ => false) := by
  rw [inFS]
  rfl

theorem exists_inFS (s : Schema) : ∀ (n : Nat) (v : Value) (tr : TypeRef), v.depth ≤ n → Hyp s tr v →
    v.isNull = false → ∃ p, inFS s tr v p = true
  | 0, v, _, hd, _, _ => by have := depth_pos v; omega
  | n + 1, v, tr, hd, h, hnn => by
    cases v with
    | null => simp [Value.isNull] at hnn
    | bool b => obtain ⟨t, hk⟩ := h.scalar_view rfl; exact ⟨[], by rw [inFS_nil_of_kind, hk]⟩
    | int b => obtain ⟨t, hk⟩ := h.scalar_view rfl; exact ⟨[], by rw [inFS_nil_of_kind, hk]⟩
    | float b z => obtain ⟨t, hk⟩ := h.scalar_view rfl; exact ⟨[], by rw [inFS_nil_of_kind, hk]⟩
    | str b => obtain ⟨t, hk⟩ := h.scalar_view rfl; exact ⟨[], by rw [inFS_nil_of_kind, hk]⟩
    | list l =>
      obtain ⟨lt, hk, hne, hrest⟩ := h.list_view
      by_cases hat : lt.rel = "atomic"
      · exact ⟨[], by rw [inFS_nil_of_kind, hk]; simpa using hat⟩
      · obtain ⟨hrel, hall, hnd⟩ := hrest hat
        cases l with
        | nil => exact absurd rfl hne
        | cons c rest =>
          have hf := find_of_nodup hnd (c := c) List.mem_cons_self
          exact ⟨[peOf s lt c], by rw [childAt_list hk hat hf []]; rfl⟩
    | map m =>
      obtain ⟨mt, hk, hne, hasc, hrest⟩ := h.map_view
      by_cases hat : mt.rel = "atomic"
      · exact ⟨[], by rw [inFS_nil_of_kind, hk]; simpa using hat⟩
      · cases m with
        | nil => exact absurd rfl hne
        | cons e rest =>
          obtain ⟨k, x⟩ := e
          have hl : lookupField k ((k, x) :: rest) = some x := by simp [lookupField]
          have hc := childAt_map hk hat hl
          by_cases hx : x.isNull = true
          · exact ⟨[.field k], by rw [hc []]; simp [hx]⟩
          · have hxd : x.depth ≤ n := by
              simp only [Value.depth, Value.depthFields] at hd; omega
            obtain ⟨p, hp⟩ := exists_inFS s n x _ hxd (hrest hat (k, x) List.mem_cons_self) (by simpa using hx)
            exact ⟨.field k :: p, by rw [hc p, hp]; simp⟩

/-- an object none of whose field-set paths is non-empty is extracted whole, whatever the set -/
theorem extract_leaflike {s : Schema} {tr : TypeRef} {v : Value} (h : Hyp s tr v)
    (hnb : ∀ q, q ≠ [] → inFS s tr v q = false) (T : SetTrie) :
    outToValue (removeV s true tr T v) = v := by
  have key : v.isNull = false → inFS s tr v [] = true := by
    intro hnn
    obtain ⟨p, hp⟩ := exists_inFS s _ v tr (Nat.le_refl _) h hnn
    cases p with
    | nil => exact hp
    | cons pe rest => rw [hnb _ (by simp)] at hp; cases hp
  cases v with
  | null => simp only [removeV]; split <;> rfl
  | bool b => obtain ⟨t, hk⟩ := h.scalar_view rfl; simp only [removeV, hk]; rfl
  | int b => obtain ⟨t, hk⟩ := h.scalar_view rfl; simp only [removeV, hk]; rfl
  | float b z => obtain ⟨t, hk⟩ := h.scalar_view rfl; simp only [removeV, hk]; rfl
  | str b => obtain ⟨t, hk⟩ := h.scalar_view rfl; simp only [removeV, hk]; rfl
  | list l =>
    obtain ⟨lt, hk, hne, _⟩ := h.list_view
    have := key rfl
    rw [inFS_nil_of_kind, hk] at this
    have hl : l.isEmpty = false := by simpa using hne
    rw [removeV, hk]
    simp [hl, this, outToValue]
  | map m =>
    obtain ⟨mt, hk, hne, _⟩ := h.map_view
    have := key rfl
    rw [inFS_nil_of_kind, hk] at this
    have hl : m.isEmpty = false := by simpa using hne
    rw [removeV, hk]
    simp [hl, this, outToValue]

/-! ### one level of extraction -/

theorem extractFields_cons (s : Schema) (t : MapT) (T : SetTrie) (k : String) (v : Value)
    (rest : List (String × Value)) :
    removeFields s true t T ((k, v) :: rest) =
      if T.has [PE.field k] = true then
        (k, outToValue (removeV s true (fieldType t k) T v)) :: removeFields s true t T rest
      else if (T.withPrefix (PE.field k)).isEmpty = false then
        (k, outToValue (removeV s true (fieldType t k) (T.withPrefix (PE.field k)) v)) ::
          removeFields s true t T rest
      else removeFields s true t T rest := by
  have h : removeFields s true t T ((k, v) :: rest) =
      if T.has [PE.field k] = true then
        if true = true then
          (k, outToValue (removeV s true (fieldType t k) T v)) :: removeFields s true t T rest
        else removeFields s true t T rest
      else
        if (!(T.withPrefix (PE.field k)).isEmpty) = true then
          (k, outToValue (removeV s true (fieldType t k) (T.withPrefix (PE.field k)) v)) ::
            removeFields s true t T rest
        else if true = true then removeFields s true t T rest
        else (k, v) :: removeFields s true t T rest := by
    rw [removeFields]; rfl
  rw [h]
  cases h1 : T.has [PE.field k] <;> cases h2 : (T.withPrefix (PE.field k)).isEmpty <;> simp

theorem extractItems_cons (s : Schema) (t : ListT) (T : SetTrie) (item : Value) (rest : List Value) :
    removeItems s true t T (item :: rest) =
      (if T.has [peOf s t item] = true then [outToValue (removeV s true t.elementType T item)] else []) ++
      (if (T.withPrefix (peOf s t item)).isEmpty = false then
        [outToValue (removeV s true t.elementType (T.withPrefix (peOf s t item)) item)] else []) ++
      removeItems s true t T rest := by
  have h : removeItems s true t T (item :: rest) =
      if (T.has [peOf s t item] && !true) = true then removeItems s true t T rest
      else
        if (!(T.withPrefix (peOf s t item)).isEmpty) = true then
          (if T.has [peOf s t item] = true then [outToValue (removeV s true t.elementType T item)] else []) ++
            [outToValue (removeV s true t.elementType (T.withPrefix (peOf s t item)) item)] ++
            removeItems s true t T rest
        else if true = true then
          (if T.has [peOf s t item] = true then [outToValue (removeV s true t.elementType T item)] else []) ++
            removeItems s true t T rest
        else
          (if T.has [peOf s t item] = true then [outToValue (removeV s true t.elementType T item)] else []) ++
            [item] ++ removeItems s true t T rest := by
    rw [removeItems]; rfl
  rw [h]
  cases h1 : T.has [peOf s t item] <;> cases h2 : (T.withPrefix (peOf s t item)).isEmpty <;> simp

/-- the entry is extracted whole -/
def EntryWhole (s : Schema) (t : MapT) (T : SetTrie) (e : String × Value) : Prop :=
  (T.has [PE.field e.1] = true → outToValue (removeV s true (fieldType t e.1) T e.2) = e.2) ∧
  (T.has [PE.field e.1] = false → (T.withPrefix (PE.field e.1)).isEmpty = false ∧
    outToValue (removeV s true (fieldType t e.1) (T.withPrefix (PE.field e.1)) e.2) = e.2)

theorem extractFields_whole (s : Schema) (t : MapT) (T : SetTrie) :
    ∀ m : List (String × Value), (∀ e ∈ m, EntryWhole s t T e) → removeFields s true t T m = m
  | [], _ => by simp [removeFields]
  | (k, v) :: rest, h => by
    have ih := extractFields_whole s t T rest (fun e he => h e (List.mem_cons_of_mem _ he))
    obtain ⟨h1, h2⟩ := h (k, v) List.mem_cons_self
    rw [extractFields_cons, ih]
    cases hh : T.has [PE.field k] with
    | true => simp [h1 hh]
    | false => simp [(h2 hh).1, (h2 hh).2]

/-- the item is extracted whole, once -/
def ItemWhole (s : Schema) (t : ListT) (T : SetTrie) (c : Value) : Prop :=
  (T.has [peOf s t c] = true → outToValue (removeV s true t.elementType T c) = c ∧
    (T.withPrefix (peOf s t c)).isEmpty = true) ∧
  (T.has [peOf s t c] = false → (T.withPrefix (peOf s t c)).isEmpty = false ∧
    outToValue (removeV s true t.elementType (T.withPrefix (peOf s t c)) c) = c)

theorem extractItems_whole (s : Schema) (t : ListT) (T : SetTrie) :
    ∀ l : List Value, (∀ c ∈ l, ItemWhole s t T c) → removeItems s true t T l = l
  | [], _ => by simp [removeItems]
  | c :: rest, h => by
    have ih := extractItems_whole s t T rest (fun e he => h e (List.mem_cons_of_mem _ he))
    obtain ⟨h1, h2⟩ := h c List.mem_cons_self
    rw [extractItems_cons, ih]
    cases hh : T.has [peOf s t c] with
    | true => simp [(h1 hh).1, (h1 hh).2]
    | false => simp [(h2 hh).1, (h2 hh).2]

/-! ### extracting the leaves of the field set gives the object back -/

theorem extract_leafset (s : Schema) : ∀ (n : Nat) (v : Value) (tr : TypeRef) (T : SetTrie), v.depth ≤ n →
    Hyp s tr v → LeafSet s tr v T → outToValue (removeV s true tr T v) = v
  | 0, v, _, _, hd, _, _ => by have := depth_pos v; omega
  | n + 1, v, tr, T, hd, h, hT => by
    cases v with
    | null => simp only [removeV]; split <;> rfl
    | bool b => obtain ⟨t, hk⟩ := h.scalar_view rfl; simp only [removeV, hk]; rfl
    | int b => obtain ⟨t, hk⟩ := h.scalar_view rfl; simp only [removeV, hk]; rfl
    | float b z => obtain ⟨t, hk⟩ := h.scalar_view rfl; simp only [removeV, hk]; rfl
    | str b => obtain ⟨t, hk⟩ := h.scalar_view rfl; simp only [removeV, hk]; rfl
    | list l =>
      obtain ⟨lt, hk, hne, hrest⟩ := h.list_view
      have hl : l.isEmpty = false := by simpa using hne
      by_cases hat : lt.rel = "atomic"
      · rw [removeV, hk]; simp [hl, hat, outToValue]
      · obtain ⟨hrel, hall, hnd⟩ := hrest hat
        have hwhole : removeItems s true lt T l = l := by
          apply extractItems_whole
          intro c hc
          have hcd : c.depth ≤ n := by
            have := depthList_mem l c hc
            simp only [Value.depth] at hd; omega
          have hch := childAt_list hk hat (find_of_nodup hnd hc)
          refine ⟨fun hh => ?_, fun hh => ?_⟩
          · obtain ⟨hnb, hemp⟩ := hT.child_leaf hch hh
            exact ⟨extract_leaflike (hall c hc) hnb T, hemp⟩
          · exact ⟨hT.child_inner hch hh (fun hf => by cases hf),
              extract_leafset s n c _ _ hcd (hall c hc) (hT.child hch)⟩
        have hat' : (lt.rel == "atomic") = false := by simpa using hat
        rw [removeV, hk]
        simp only [hl, hat', hwhole, Bool.false_eq_true, if_false]
        cases l with
        | nil => exact absurd rfl hne
        | cons _ _ => rfl
    | map m =>
      obtain ⟨mt, hk, hne, hasc, hrest⟩ := h.map_view
      have hl : m.isEmpty = false := by simpa using hne
      by_cases hat : mt.rel = "atomic"
      · rw [removeV, hk]; simp [hl, hat, outToValue]
      · have hall := hrest hat
        have hwhole : removeFields s true mt T m = m := by
          apply extractFields_whole
          intro e he
          obtain ⟨k, x⟩ := e
          have hxd : x.depth ≤ n := by
            have : x.depth ≤ Value.depthFields m := depthFields_mem m (k, x) he
            simp only [Value.depth] at hd; omega
          have hch := childAt_map hk hat (lookupField_of_mem_keysAsc hasc he)
          refine ⟨fun hh => ?_, fun hh => ?_⟩
          · exact extract_leaflike (hall _ he) (hT.child_leaf hch hh).1 T
          · refine ⟨hT.child_inner hch hh (fun hf => ?_), extract_leafset s n x _ _ hxd (hall _ he) (hT.child hch)⟩
            simp only [Bool.or_eq_false_iff] at hf
            exact exists_inFS s _ x _ (Nat.le_refl _) (hall _ he) hf.1.1
        have hat' : (mt.rel == "atomic") = false := by simpa using hat
        rw [removeV, hk]
        simp only [hl, hat', hwhole, Bool.false_eq_true, if_false]
        cases m with
        | nil => exact absurd rfl hne
        | cons _ _ => rfl

/-! ### the leaves of the field set of an object -/

theorem path_equals_append_right : ∀ {a b : Path} (c : Path), Path.equals a b = true →
    Path.equals (a ++ c) (b ++ c) = true
  | [], [], c, _ => Path.equals_refl c
  | [], _ :: _, _, h => by simp [Path.equals] at h
  | _ :: _, [], _, h => by simp [Path.equals] at h
  | x :: xs, y :: ys, c, h => by
    simp only [Path.equals, Bool.and_eq_true, List.cons_append] at h ⊢
    exact ⟨h.1, path_equals_append_right c h.2⟩

theorem properPrefix_congr_right : ∀ (p : Path) {r r' : Path}, Path.equals r r' = true →
    C15.properPrefix p r = true → C15.properPrefix p r' = true
  | [], [], [], _, h => h
  | [], [], _ :: _, he, _ => by simp [Path.equals] at he
  | [], _ :: _, [], he, _ => by simp [Path.equals] at he
  | [], _ :: _, _ :: _, _, _ => rfl
  | a :: as, [], _, _, h => by simp [C15.properPrefix] at h
  | a :: as, _ :: _, [], he, _ => by simp [Path.equals] at he
  | a :: as, b :: bs, c :: cs, he, h => by
    simp only [Path.equals, C15.properPrefix, Bool.and_eq_true] at he h ⊢
    exact ⟨PE.equals_trans h.1 he.1, properPrefix_congr_right as he.2 h.2⟩

theorem leafSet_of_toFieldSet (s : Schema) (tv : TV) (fs : SetTrie)
    (hv : validateV s false tv.type tv.value = .ok ()) (hc : canon tv.value = true)
    (hla : listsAssociative s tv.type tv.value = true) (hfs : toFieldSet s tv = .ok fs) :
    LeafSet s tv.type tv.value fs.leaves := by
  have hwf : fs.wf = true := by
    unfold toFieldSet at hfs
    split at hfs
    · cases hfs; exact wf_ofPaths _
    · cases hfs
    · cases hfs
  have hhas := toFieldSet_has s tv fs hv hc hla hfs
  refine ⟨wf_leaves fs hwf, ?_⟩
  intro p hp
  have hpe : p.isEmpty = false := by cases p <;> simp_all
  rw [C15.has_leaves fs p hwf, hhas p, hpe]
  simp only [Bool.not_false, Bool.true_and, Bool.and_eq_true, Bool.not_eq_true']
  unfold IsLeaf NoBelow
  constructor
  · rintro ⟨h1, h2⟩
    refine ⟨h1, fun q hq => ?_⟩
    cases hin : inFS s tv.type tv.value (p ++ q) with
    | false => rfl
    | true =>
      have hne : (p ++ q).isEmpty = false := by cases p <;> simp_all
      have hh : fs.has (p ++ q) = true := by rw [hhas, hne, hin]; rfl
      obtain ⟨r, hr, hre⟩ := (C15.has_iff_mem_paths fs _ hwf).1 hh
      have hpp := properPrefix_congr_right p (Path.equals_symm_of hre) (properPrefix_append p q hq)
      have := List.any_eq_false.1 h2 r hr
      rw [hpp] at this
      exact absurd rfl this
  · rintro ⟨h1, h2⟩
    refine ⟨h1, ?_⟩
    rw [List.any_eq_false]
    intro r hr hpp
    obtain ⟨p', q, hrq, hq, he⟩ := properPrefix_split p r hpp
    have hh : fs.has r = true := (C15.has_iff_mem_paths fs r hwf).2 ⟨r, hr, Path.equals_refl r⟩
    rw [hrq, has_congr_path' (path_equals_append_right q he) fs, hhas] at hh
    simp only [Bool.and_eq_true] at hh
    rw [h2 q hq] at hh
    exact absurd hh.2 (by simp)

/-- extracting the leaves of its field set from an accepted, canonical object without empty lists or
maps, whose visited lists are associative, gives the object back -/
theorem extract_leaves_eq (s : Schema) (tv : TV) (fs : SetTrie)
    (hv : validateV s false tv.type tv.value = .ok ()) (hc : canon tv.value = true)
    (hla : listsAssociative s tv.type tv.value = true) (hp : plain tv.value = true)
    (hfs : toFieldSet s tv = .ok fs) :
    (extractItemsTV s tv fs.leaves false).value = tv.value := by
  show outToValue (removeV s true tv.type (if false = true then _ else fs.leaves) tv.value) = tv.value
  simp only [Bool.false_eq_true, if_false]
  exact extract_leafset s _ tv.value tv.type _ (Nat.le_refl _) ⟨hv, hc, hla, hp⟩
    (leafSet_of_toFieldSet s tv fs hv hc hla hfs)

end Part
end SMD
