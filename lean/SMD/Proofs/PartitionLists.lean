/-
The list level of the partition law (helper lemmas for `SMD/Properties/C14Partition.lean`): what
`RemoveItems` and `ExtractItems` make of the items of an associative list when no whole item is a member
of the set, the index of a list whose items have pairwise different path elements, and the run of the
interleaving loop over them.
-/
import SMD.Proofs.PartitionKeys
import SMD.Proofs.MergeIdem
set_option linter.unusedSimpArgs false
set_option linter.unusedVariables false
set_option linter.unnecessarySimpa false
namespace SMD
namespace Part
open SetTrie NodeLaws CmpX

/-! ### what is left and what is taken of the items -/

/-- what is left of an item no member of the set designates -/
def leftItem (s : Schema) (t : ListT) (S : SetTrie) (c : Value) : Value :=
  if (S.withPrefix (peOf s t c)).isEmpty = false then
    outToValue (removeV s false t.elementType (S.withPrefix (peOf s t c)) c)
  else c

/-- what is taken of an item no member of the set designates -/
def takenItem (s : Schema) (t : ListT) (S : SetTrie) (c : Value) : Option Value :=
  if (S.withPrefix (peOf s t c)).isEmpty = false then
    some (outToValue (removeV s true t.elementType (S.withPrefix (peOf s t c)) c))
  else none

theorem removeItems_eq_map (s : Schema) (t : ListT) (S : SetTrie) :
    ∀ l : List Value, (∀ c ∈ l, S.has [peOf s t c] = false) →
      removeItems s false t S l = l.map (leftItem s t S)
  | [], _ => by simp [removeItems]
  | c :: rest, h => by
    rw [removeItems_cons, removeItems_eq_map s t S rest (fun c' hc' => h c' (List.mem_cons_of_mem _ hc'))]
    have h1 := h c List.mem_cons_self
    unfold remItem leftItem
    simp only [h1, Bool.false_eq_true, if_false, List.map_cons]
    split <;> rfl

theorem extractItems_eq_filterMap (s : Schema) (t : ListT) (S : SetTrie) :
    ∀ l : List Value, (∀ c ∈ l, S.has [peOf s t c] = false) →
      removeItems s true t S l = l.filterMap (takenItem s t S)
  | [], _ => by simp [removeItems]
  | c :: rest, h => by
    rw [extractItems_cons, extractItems_eq_filterMap s t S rest (fun c' hc' => h c' (List.mem_cons_of_mem _ hc'))]
    have h1 := h c List.mem_cons_self
    unfold takenItem
    simp only [h1, Bool.false_eq_true, if_false, List.nil_append, List.filterMap_cons]
    split <;> simp_all

/-! ### the index of a list whose items have pairwise different path elements -/

theorem indexPEs_distinct (s : Schema) (t : ListT) (d : Bool) (f : Value → PE) :
    ∀ (xs : List Value) (pes obs : List (PE × Value)),
      (∀ x ∈ xs, listItemToPE s t x = .ok (f x)) →
      xs.Pairwise (fun a b => PE.equals (f a) (f b) = false) →
      (∀ x ∈ xs, pemGet (f x) obs = none) →
      ∃ obs', indexPEs s t d xs pes obs = .ok (pes.reverse ++ xs.map (fun x => (f x, x)), obs') ∧
        (∀ x ∈ xs, pemGet (f x) obs' = some x) ∧
        (∀ q, (∀ x ∈ xs, PE.equals (f x) q = false) → pemGet q obs' = pemGet q obs)
  | [], pes, obs, _, _, _ => ⟨obs, by simp [indexPEs], by simp, fun _ _ => rfl⟩
  | x :: xs, pes, obs, hpe, hpw, hnone => by
    obtain ⟨hp1, hp2⟩ := List.pairwise_cons.1 hpw
    have hx := hpe x List.mem_cons_self
    have hn := hnone x List.mem_cons_self
    have hnone' : ∀ y ∈ xs, pemGet (f y) (pemInsert (f x) x obs) = none := by
      intro y hy
      rw [pemGet_pemInsert, hp1 y hy]
      exact hnone y (List.mem_cons_of_mem _ hy)
    obtain ⟨obs', h1, h2, h3⟩ := indexPEs_distinct s t d f xs ((f x, x) :: pes) (pemInsert (f x) x obs)
      (fun y hy => hpe y (List.mem_cons_of_mem _ hy)) hp2 hnone'
    refine ⟨obs', ?_, ?_, ?_⟩
    · rw [indexPEs, hx]
      simp only [hn, h1]
      simp
    · intro y hy
      rcases List.mem_cons.1 hy with rfl | hy
      · rw [h3 (f y) (fun z hz => by rw [PE.equals_comm]; exact hp1 z hz), pemGet_pemInsert, PE.equals_refl]
        rfl
      · exact h2 y hy
    · intro q hq
      rw [h3 q (fun z hz => hq z (List.mem_cons_of_mem _ hz)), pemGet_pemInsert, hq x List.mem_cons_self]
      rfl

/-- which elements the index observes -/
theorem indexPEs_distinct_isSome {f : Value → PE} {xs : List Value} {obs' : List (PE × Value)}
    (h2 : ∀ x ∈ xs, pemGet (f x) obs' = some x)
    (h3 : ∀ q, (∀ x ∈ xs, PE.equals (f x) q = false) → pemGet q obs' = pemGet q ([] : List (PE × Value)))
    (q : PE) : (pemGet q obs').isSome = xs.any (fun x => PE.equals (f x) q) := by
  cases ha : xs.any (fun x => PE.equals (f x) q) with
  | true =>
    obtain ⟨x, hx, he⟩ := List.any_eq_true.1 ha
    rw [← pemGet_congr he, h2 x hx]; rfl
  | false =>
    rw [h3 q (fun x hx => by simpa using List.any_eq_false.1 ha x hx)]
    rfl

/-! ### the results of the run, item by item -/

theorem relL_map_eq (item : PE → Option Value → Option Value → Res (Option Value)) (obsR : List (PE × Value))
    (f : Value → PE) (g : Value → Value) :
    ∀ (l : List Value) (outs : List Value), MV.RelL item obsR (l.map (fun c => (f c, g c))) outs →
      (∀ c ∈ l, ∀ v, item (f c) (some (g c)) (pemGet (f c) obsR) = .ok (some v) → v = c) → outs = l
  | [], [], _, _ => rfl
  | [], _ :: _, h, _ => by cases h
  | _ :: _, [], h, _ => by cases h
  | c :: cs, v :: vs, h, hv => by
    obtain ⟨h1, h2⟩ := h
    rw [hv c List.mem_cons_self v h1, relL_map_eq item obsR f g cs vs h2
      (fun c' hc' => hv c' (List.mem_cons_of_mem _ hc'))]

end Part
end SMD
