/-
The partition law for objects without lists (helper lemmas for `SMD/Properties/C14Partition.lean`):
what `RemoveItems(S)` leaves merged with what `ExtractItems(S)` takes is the object, for a set `S` of
leaves of the object's field set.
-/
import SMD.Proofs.PartitionDisjoint
import SMD.Proofs.MergeFrame
import SMD.Proofs.CanonicalKeys
set_option linter.unusedSimpArgs false
set_option linter.unusedVariables false
set_option linter.unnecessarySimpa false
namespace SMD
namespace Part
open SetTrie NodeLaws CmpX

/-! ### objects without lists -/

mutual
/-- no list anywhere in the value -/
def noLists : Value → Bool
  | .list _ => false
  | .map m => noListsFields m
  | _ => true
def noListsFields : List (String × Value) → Bool
  | [] => true
  | (_, v) :: rest => noLists v && noListsFields rest
end

theorem noListsFields_mem : ∀ (m : List (String × Value)), noListsFields m = true → ∀ x ∈ m, noLists x.2 = true
  | [], _, c, hc => by cases hc
  | (k, v) :: vs, h, c, hc => by
    simp only [noListsFields, Bool.and_eq_true] at h
    rcases List.mem_cons.1 hc with rfl | hc
    · exact h.1
    · exact noListsFields_mem vs h.2 c hc

mutual
theorem listsAssociative_of_noLists (s : Schema) : ∀ (v : Value) (tr : TypeRef), noLists v = true →
    listsAssociative s tr v = true
  | .list l, _, h => by simp [noLists] at h
  | .map m, tr, h => by
    rw [listsAssociative]
    split
    · next t _ =>
      simp only [noLists] at h
      rw [listsAssociativeFields_of_noLists s m t h]; simp
    · rfl
  | .null, _, _ => by simp [listsAssociative]
  | .bool _, _, _ => by simp [listsAssociative]
  | .int _, _, _ => by simp [listsAssociative]
  | .float _ _, _, _ => by simp [listsAssociative]
  | .str _, _, _ => by simp [listsAssociative]
theorem listsAssociativeFields_of_noLists (s : Schema) : ∀ (m : List (String × Value)) (t : MapT),
    noListsFields m = true → listsAssociativeFields s t m = true
  | [], _, _ => by simp [listsAssociativeFields]
  | (k, v) :: rest, t, h => by
    simp only [noListsFields, Bool.and_eq_true] at h
    simp only [listsAssociativeFields, Bool.and_eq_true]
    exact ⟨listsAssociative_of_noLists s v _ h.1, listsAssociativeFields_of_noLists s rest t h.2⟩
end

/-- the field-set paths of an object without lists consist of field names -/
theorem inFS_fields_of_noLists (s : Schema) : ∀ (p : Path) (tr : TypeRef) (v : Value), noLists v = true →
    inFS s tr v p = true → ∀ pe ∈ p, ∃ k, pe = PE.field k
  | [], _, _, _, _, pe, hpe => by cases hpe
  | pe :: rest, tr, v, hnl, h, pe', hpe' => by
    rw [inFS] at h
    cases hk : resolveKind s tr (some v) with
    | none => simp [hk] at h
    | some K =>
      cases K with
      | invalid => simp [hk] at h
      | scalar t => simp [hk] at h
      | list t =>
        simp only [hk] at h
        split at h
        · cases h
        · cases v with
          | list l => simp [noLists] at hnl
          | _ => simp at h
      | map t =>
        simp only [hk] at h
        split at h
        · cases h
        · cases v with
          | map m =>
            cases pe with
            | field k =>
              simp only [] at h
              cases hl : lookupField k m with
              | none => simp [hl] at h
              | some x =>
                rcases List.mem_cons.1 hpe' with rfl | hpe'
                · exact ⟨k, rfl⟩
                · simp only [hl, Bool.or_eq_true, Bool.and_eq_true, List.isEmpty_iff] at h
                  rcases h with ⟨hr, _⟩ | h
                  · subst hr; cases hpe'
                  · have hx : noLists x = true := by
                      simp only [noLists] at hnl
                      exact noListsFields_mem m hnl (k, x) (lookupField_mem k m x hl)
                    exact inFS_fields_of_noLists s rest _ x hx h pe' hpe'
            | _ => simp at h
          | _ => simp at h

theorem keyFieldPaths_go_fields : ∀ (p pre : Path), (∀ pe ∈ p, ∃ k, pe = PE.field k) →
    keyFieldPaths.go pre p = []
  | [], _, _ => rfl
  | pe :: rest, pre, h => by
    obtain ⟨k, rfl⟩ := h pe List.mem_cons_self
    simp only [keyFieldPaths.go, List.nil_append]
    exact keyFieldPaths_go_fields rest _ (fun pe' hpe' => h pe' (List.mem_cons_of_mem _ hpe'))

theorem keyFieldPaths_fields (p : Path) (h : ∀ pe ∈ p, ∃ k, pe = PE.field k) : keyFieldPaths p = [] :=
  keyFieldPaths_go_fields p [] h

/-! ### sets with the same members -/

theorem isEmpty_congr {T T' : SetTrie} (hw : T.wf = true) (hw' : T'.wf = true)
    (h : ∀ p, T.has p = T'.has p) : T.isEmpty = T'.isEmpty := by
  cases he : T.isEmpty with
  | true =>
    cases he' : T'.isEmpty with
    | true => rfl
    | false =>
      obtain ⟨q, hq⟩ := exists_has_of_not_isEmpty T' hw' he'
      rw [← h q, has_of_isEmpty q T he] at hq
      cases hq
  | false =>
    obtain ⟨q, hq⟩ := exists_has_of_not_isEmpty T hw he
    rw [h q] at hq
    exact (not_isEmpty_of_has hq).symm

theorem withPrefix_has_congr {T T' : SetTrie} (h : ∀ p, T.has p = T'.has p) (pe : PE) :
    ∀ p, (T.withPrefix pe).has p = (T'.withPrefix pe).has p := by
  intro p
  by_cases hp : p = []
  · subst hp; rw [has_nil, has_nil]
  · rw [has_withPrefix_cons pe T p hp, has_withPrefix_cons pe T' p hp, h]

/-! ### entry lists -/

theorem lookupField_none_of_lt (k : String) : ∀ m : List (String × Value), (∀ x ∈ m, k < x.1) →
    lookupField k m = none
  | [], _ => rfl
  | (k', v) :: rest, h => by
    have hne : (k == k') = false := by
      have := h (k', v) List.mem_cons_self
      simp only [beq_eq_false_iff_ne]
      rintro rfl
      exact String.lt_irrefl _ this
    simp only [lookupField, hne, Bool.false_eq_true, if_false]
    exact lookupField_none_of_lt k rest (fun x hx => h x (List.mem_cons_of_mem _ hx))

/-- entry lists in strictly ascending key order are determined by their lookups -/
theorem entries_ext : ∀ (m1 m2 : List (String × Value)), m1.Pairwise (fun a b => a.1 < b.1) →
    m2.Pairwise (fun a b => a.1 < b.1) → (∀ k, lookupField k m1 = lookupField k m2) → m1 = m2
  | [], [], _, _, _ => rfl
  | [], (k, v) :: _, _, _, h => by have := h k; simp [lookupField] at this
  | (k, v) :: _, [], _, _, h => by have := h k; simp [lookupField] at this
  | (k1, v1) :: r1, (k2, v2) :: r2, h1, h2, h => by
    obtain ⟨h1a, h1b⟩ := List.pairwise_cons.1 h1
    obtain ⟨h2a, h2b⟩ := List.pairwise_cons.1 h2
    have hk : k1 = k2 := by
      apply Classical.byContradiction
      intro hne
      have e1 := h k1
      have e2 := h k2
      have hne1 : (k1 == k2) = false := by simpa using hne
      have hne2 : (k2 == k1) = false := by simpa using (fun h' : k2 = k1 => hne h'.symm)
      simp only [lookupField, beq_self_eq_true, if_true, hne1, hne2, Bool.false_eq_true, if_false] at e1 e2
      have m1 := lookupField_mem k1 r2 v1 e1.symm
      have m2 := lookupField_mem k2 r1 v2 e2
      exact String.lt_asymm (h2a _ m1) (h1a _ m2)
    subst hk
    have hv : v1 = v2 := by
      have := h k1
      simpa [lookupField] using this
    subst hv
    congr 1
    apply entries_ext r1 r2 h1b h2b
    intro k
    by_cases hkk : k = k1
    · subst hkk
      rw [lookupField_none_of_lt k r1 (fun x hx => h1a x hx), lookupField_none_of_lt k r2 (fun x hx => h2a x hx)]
    · have := h k
      have hne : (k == k1) = false := by simpa using hkk
      simpa [lookupField, hne] using this

theorem removeFields_head (s : Schema) (e : Bool) (t : MapT) (T : SetTrie) (k : String) (v : Value)
    (rest : List (String × Value)) :
    ∃ hd, removeFields s e t T ((k, v) :: rest) = hd ++ removeFields s e t T rest ∧ ∀ x ∈ hd, x.1 = k := by
  cases e with
  | false =>
    refine ⟨remEntry s t T (k, v), removeFields_cons s t T k v rest, ?_⟩
    intro x hx
    unfold remEntry at hx
    split at hx
    · cases hx
    · split at hx <;> (simp only [List.mem_singleton] at hx; rw [hx])
  | true =>
    rw [extractFields_cons]
    split
    · exact ⟨[_], rfl, by simp⟩
    · split
      · exact ⟨[_], rfl, by simp⟩
      · exact ⟨[], rfl, by simp⟩

theorem removeFields_pairwise (s : Schema) (e : Bool) (t : MapT) (T : SetTrie) :
    ∀ m : List (String × Value), m.Pairwise (fun a b => a.1 < b.1) →
      (removeFields s e t T m).Pairwise (fun a b => a.1 < b.1)
  | [], _ => by simp [removeFields]
  | (k, v) :: rest, h => by
    obtain ⟨h1, h2⟩ := List.pairwise_cons.1 h
    obtain ⟨hd, heq, hhd⟩ := removeFields_head s e t T k v rest
    rw [heq, List.pairwise_append]
    refine ⟨?_, removeFields_pairwise s e t T rest h2, ?_⟩
    · -- at most one entry
      have : hd = [] ∨ ∃ x, hd = [x] := by
        cases e with
        | false =>
          have := removeFields_cons s t T k v rest
          rw [this] at heq
          have hh := List.append_cancel_right heq
          rw [← hh]; unfold remEntry
          split
          · exact .inl rfl
          · split <;> exact .inr ⟨_, rfl⟩
        | true =>
          rw [extractFields_cons] at heq
          split at heq
          · exact .inr ⟨_, (List.append_cancel_right (show [_] ++ _ = hd ++ _ from heq)).symm⟩
          · split at heq
            · exact .inr ⟨_, (List.append_cancel_right (show [_] ++ _ = hd ++ _ from heq)).symm⟩
            · exact .inl (List.append_cancel_right (show [] ++ _ = hd ++ _ from heq)).symm
      rcases this with rfl | ⟨x, rfl⟩ <;> simp
    · intro a ha b hb
      rw [hhd a ha]
      obtain ⟨w, hw⟩ := removeFields_keys s e t T rest b hb
      exact h1 (b.1, w) hw

theorem lookupField_extractFields (s : Schema) (t : MapT) (T : SetTrie) (k : String) :
    ∀ m : List (String × Value), lookupField k (removeFields s true t T m) =
      if T.has [PE.field k] = true then
        (lookupField k m).map fun v => outToValue (removeV s true (fieldType t k) T v)
      else if (T.withPrefix (PE.field k)).isEmpty = false then
        (lookupField k m).map fun v =>
          outToValue (removeV s true (fieldType t k) (T.withPrefix (PE.field k)) v)
      else none
  | [] => by simp [removeFields, lookupField]
  | (k', v') :: rest => by
    have ih := lookupField_extractFields s t T k rest
    rw [extractFields_cons]
    by_cases hk : k = k'
    · subst hk
      by_cases h1 : T.has [PE.field k] = true
      · simp [h1, lookupField]
      · by_cases h2 : (T.withPrefix (PE.field k)).isEmpty = false
        · simp [h1, h2, lookupField]
        · simp [h1, h2, ih]
    · have hne : (k == k') = false := by simpa using hk
      have hskip : ∀ x, lookupField k ((k', x) :: removeFields s true t T rest) =
          lookupField k (removeFields s true t T rest) := by
        intro x; simp [lookupField, hne]
      split
      · rw [hskip, ih]; simp [lookupField, hne]
      · split
        · rw [hskip, ih]; simp [lookupField, hne]
        · rw [ih]; simp [lookupField, hne]

/-! ### sets of leaves -/

/-- every member of `S` is a leaf of the field set of `v` -/
def LeafSub (s : Schema) (tr : TypeRef) (v : Value) (S : SetTrie) : Prop :=
  S.wf = true ∧ ∀ p, S.has p = true → IsLeaf s tr v p

theorem isLeaf_cons_iff {s : Schema} {tr tr' : TypeRef} {v x : Value} {pe : PE} {σ : Bool}
    (hc : ChildAt s tr v pe tr' x σ) {p : Path} (hp : p ≠ []) :
    IsLeaf s tr v (pe :: p) ↔ IsLeaf s tr' x p := by
  have hpe : p.isEmpty = false := by cases p <;> simp_all
  unfold IsLeaf NoBelow
  rw [hc p, hpe]
  simp only [Bool.false_and, Bool.false_or]
  constructor
  · rintro ⟨h1, h2⟩
    refine ⟨h1, fun q hq => ?_⟩
    have := h2 q hq
    rw [List.cons_append, hc (p ++ q)] at this
    have hne : (p ++ q).isEmpty = false := by cases p <;> simp_all
    simpa [hne] using this
  · rintro ⟨h1, h2⟩
    refine ⟨h1, fun q hq => ?_⟩
    rw [List.cons_append, hc (p ++ q)]
    have hne : (p ++ q).isEmpty = false := by cases p <;> simp_all
    simp [hne, h2 q hq]

theorem isLeaf_single {s : Schema} {tr tr' : TypeRef} {v x : Value} {pe : PE} {σ : Bool}
    (hc : ChildAt s tr v pe tr' x σ) (h : IsLeaf s tr v [pe]) : ∀ q, q ≠ [] → inFS s tr' x q = false := by
  intro q hq
  have := h.2 q hq
  rw [List.cons_append, List.nil_append, hc q] at this
  have hne : q.isEmpty = false := by cases q <;> simp_all
  simpa [hne] using this

theorem LeafSub.child {s : Schema} {tr tr' : TypeRef} {v x : Value} {pe : PE} {σ : Bool} {S : SetTrie}
    (hS : LeafSub s tr v S) (hc : ChildAt s tr v pe tr' x σ) : LeafSub s tr' x (S.withPrefix pe) := by
  refine ⟨wf_withPrefix pe S hS.1, ?_⟩
  intro p hp
  have hne := has_true_ne_nil hp
  rw [has_withPrefix_cons pe S p hne] at hp
  exact (isLeaf_cons_iff hc hne).1 (hS.2 _ hp)

/-! ### what is left and what is taken, as entry lists -/

theorem extractV_map_eq {s : Schema} {tr : TypeRef} {mt : MapT} (T : SetTrie) (m : List (String × Value))
    (hk : resolveKind s tr (some (.map m)) = some (.map mt)) :
    removeV s true tr T (.map m) =
      if m.isEmpty = true then none
      else if (mt.rel == "atomic") = true then some (.map m)
      else match removeFields s true mt T m with
        | [] => none
        | fs => some (.map fs) := by
  rw [removeV, hk]
  simp only [if_true]
  rfl

theorem removeV_map_eq' {s : Schema} {tr : TypeRef} {mt : MapT} (T : SetTrie) (m : List (String × Value))
    (hk : resolveKind s tr (some (.map m)) = some (.map mt)) :
    removeV s false tr T (.map m) =
      if m.isEmpty = true then none
      else if (mt.rel == "atomic") = true then none
      else match removeFields s false mt T m with
        | [] => none
        | fs => some (.map fs) := by
  rw [removeV, hk]
  simp only [Bool.false_eq_true, if_false]
  rfl

/-- the entries of `null` (no map) or of a map -/
theorem asMap_of_entries (fs : List (String × Value)) :
    (asMap (some (outToValue (match fs with | [] => none | fs => some (Value.map fs))))).getD [] = fs ∧
    emptyOrAbsent (asMap (some (outToValue (match fs with | [] => none | fs => some (Value.map fs))))) = fs.isEmpty := by
  cases fs with
  | nil => exact ⟨rfl, rfl⟩
  | cons x xs => exact ⟨rfl, rfl⟩

theorem atomKind_of_map (a : Atom) (mt : MapT) (h : a.map = some mt) : atomKind a = .map mt := by
  obtain ⟨sc, li, mp⟩ := a
  simp only [Atom.map] at h
  subst h
  rfl

theorem deduceAtom_null (a : Atom) : deduceAtom a (some .null) = a := by
  simp [deduceAtom, Value.isScalar, Value.isList, Value.isMap]

theorem merge_null_null (s : Schema) (fuel : Nat) (tr : TypeRef) (o : Option Value)
    (h : mergeNode s fuel (some .null) (some .null) tr = .ok o) : o = some .null := by
  obtain ⟨n, a, _, hres, hh⟩ := mergeNode_some_right s fuel (some .null) .null tr o h
  cases hk : atomKind (deduceAtom a (some .null)) with
  | invalid => unfold mergeHandle at hh; rw [hk] at hh; cases hh
  | scalar t => exact mergeHandle_scalar s _ _ _ _ t hk o hh
  | list t =>
    rcases MV.mergeHandle_list_cases s _ _ _ _ t hk o hh with ⟨_, ho⟩ | ⟨hc, _⟩
    · exact ho
    · simp [asList, emptyOrAbsent] at hc
  | map t =>
    rcases MV.mergeHandle_map_cases s _ _ _ _ t hk o hh with ⟨_, ho⟩ | ⟨hc, _⟩
    · exact ho
    · simp [asMap, emptyOrAbsent] at hc

theorem extractV_null (s : Schema) (tr : TypeRef) (T : SetTrie) : outToValue (removeV s true tr T .null) = .null := by
  simp only [removeV]; split <;> rfl

theorem removeV_null (s : Schema) (tr : TypeRef) (T : SetTrie) : outToValue (removeV s false tr T .null) = .null := by
  simp only [removeV]; split <;> rfl

/-! ### the partition law, objects without lists -/

theorem partition_maps (s : Schema) : ∀ (n : Nat) (v : Value) (tr : TypeRef) (S S' : SetTrie) (fuel : Nat)
    (o : Option Value), v.depth ≤ n → Hyp s tr v → noLists v = true → LeafSub s tr v S → S'.wf = true →
    (∀ p, S.has p = S'.has p) →
    mergeNode s fuel (some (outToValue (removeV s false tr S v))) (some (outToValue (removeV s true tr S' v))) tr =
      .ok o → o = some v
  | 0, v, _, _, _, _, _, hd, _, _, _, _, _, _ => by have := depth_pos v; omega
  | n + 1, v, tr, S, S', fuel, o, hd, h, hnl, hS, hw', heq, hm => by
    have scalar : v.isScalar = true → o = some v := by
      intro hs
      obtain ⟨t, hk⟩ := h.scalar_view hs
      have e1 : outToValue (removeV s true tr S' v) = v := by
        cases v <;> simp [Value.isScalar] at hs <;> (simp only [removeV, hk]; rfl)
      rw [e1] at hm
      exact merge_scalar_right s fuel _ v tr o h.valid hs hm
    cases v with
    | null =>
      rw [removeV_null, extractV_null] at hm
      exact merge_null_null s fuel tr o hm
    | bool b => exact scalar rfl
    | int b => exact scalar rfl
    | float b z => exact scalar rfl
    | str b => exact scalar rfl
    | list l => simp [noLists] at hnl
    | map m =>
      obtain ⟨a, mt, hres, ha, hfields⟩ := validateV_map_inv h.valid
      have hk := resolveKind_map_of s tr a mt m hres ha
      obtain ⟨mt2, hk2, hne, hasc, hrest⟩ := h.map_view
      have hmt : mt2 = mt := by
        have := hk2.symm.trans hk
        simpa using this
      subst hmt
      have hl : m.isEmpty = false := by simpa using hne
      obtain ⟨n', a', hfuel, hres', hh⟩ := mergeNode_some_right s fuel _ _ tr o hm
      rw [hres] at hres'
      cases hres'
      by_cases hat : mt2.rel = "atomic"
      · have e1 : removeV s true tr S' (.map m) = some (.map m) := by
          rw [extractV_map_eq S' m hk]; simp [hl, hat]
        rw [e1] at hh
        simp only [outToValue] at hh
        rw [deduceAtom_map a m mt2 ha] at hh
        rcases MV.mergeHandle_map_cases s _ _ _ _ mt2 (atomKind_map mt2) o hh with ⟨_, ho⟩ | ⟨hc, _⟩
        · exact ho
        · simp [hat] at hc
      · have hat' : (mt2.rel == "atomic") = false := by simpa using hat
        have hall := hrest hat
        have hpw := keysAsc_pairwise m hasc
        -- what is left and what is taken
        have eR := removeV_map_eq' S m hk
        have eE := extractV_map_eq S' m hk
        simp only [hl, hat', Bool.false_eq_true, if_false] at eR eE
        rw [eR, eE] at hh
        obtain ⟨eRf, eRe⟩ := asMap_of_entries (removeFields s false mt2 S m)
        obtain ⟨eEf, eEe⟩ := asMap_of_entries (removeFields s true mt2 S' m)
        have hkE : atomKind (deduceAtom a (some (outToValue
            (match removeFields s true mt2 S' m with | [] => none | fs => some (Value.map fs))))) = .map mt2 := by
          cases removeFields s true mt2 S' m with
          | nil => simp only [outToValue]; rw [deduceAtom_null]; exact atomKind_of_map a mt2 ha
          | cons x xs => simp only [outToValue]; rw [deduceAtom_map a _ mt2 ha]; rfl
        -- the entry of a key on both sides
        have hlookR := lookupField_removeFields s mt2 S
        have hlookE := lookupField_extractFields s mt2 S'
        have key : ∀ k x, lookupField k m = some x →
            (lookupField k (removeFields s false mt2 S m) ≠ none ∨
              lookupField k (removeFields s true mt2 S' m) ≠ none) ∧
            ∀ w, mergeNode s n' (lookupField k (removeFields s false mt2 S m))
              (lookupField k (removeFields s true mt2 S' m)) (fieldType mt2 k) = .ok (some w) → w = x := by
          intro k x hlk
          have hmem := lookupField_mem k m x hlk
          have hx := hall (k, x) hmem
          have hch := childAt_map hk hat hlk
          have hxd : x.depth ≤ n := by
            have : x.depth ≤ Value.depthFields m := depthFields_mem m (k, x) hmem
            simp only [Value.depth] at hd; omega
          have hemp : (S'.withPrefix (PE.field k)).isEmpty = (S.withPrefix (PE.field k)).isEmpty :=
            (isEmpty_congr (wf_withPrefix _ S hS.1) (wf_withPrefix _ S' hw')
              (withPrefix_has_congr heq _)).symm
          rw [hlookR k m, hlookE k m, ← heq, hemp, hlk]
          by_cases h1 : S.has [PE.field k] = true
          · simp only [h1, if_true, Option.map_some]
            have hleaf := isLeaf_single hch (hS.2 _ h1)
            rw [extract_leaflike hx hleaf S']
            refine ⟨.inr (by simp), ?_⟩
            intro w hw
            have := merge_canon_right s n' x _ _ hx.canon hw
            cases this; rfl
          · simp only [h1, if_false]
            by_cases h2 : (S.withPrefix (PE.field k)).isEmpty = false
            · simp only [h2, if_true, Option.map_some]
              refine ⟨.inl (by simp), ?_⟩
              intro w hw
              have hnlx : noLists x = true := by
                simp only [noLists] at hnl
                exact noListsFields_mem m hnl (k, x) hmem
              have := partition_maps s n x _ _ _ n' _ hxd hx hnlx (hS.child hch) (wf_withPrefix _ S' hw')
                (withPrefix_has_congr heq _) hw
              cases this; rfl
            · simp only [h2, if_false]
              refine ⟨.inl (by simp), ?_⟩
              intro w hw
              have := merge_canon_left s n' x _ _ hx.canon hw
              cases this; rfl
        have keynone : ∀ k, lookupField k m = none →
            lookupField k (removeFields s false mt2 S m) = none ∧
              lookupField k (removeFields s true mt2 S' m) = none := by
          intro k hlk
          rw [hlookR k m, hlookE k m, hlk]
          constructor
          · split
            · rfl
            · split <;> rfl
          · split
            · rfl
            · split <;> rfl
        -- the merge descends
        have hnotempty : (emptyOrAbsent (asMap (some (outToValue
              (match removeFields s false mt2 S m with | [] => none | fs => some (Value.map fs))))) &&
            emptyOrAbsent (asMap (some (outToValue
              (match removeFields s true mt2 S' m with | [] => none | fs => some (Value.map fs)))))) = false := by
          rw [eRe, eEe]
          cases m with
          | nil => exact absurd rfl hne
          | cons e rest =>
            obtain ⟨k, x⟩ := e
            have hlk : lookupField k ((k, x) :: rest) = some x := by simp [lookupField]
            rcases (key k x hlk).1 with h' | h'
            · cases hR : removeFields s false mt2 S ((k, x) :: rest) with
              | nil => rw [hR] at h'; simp [lookupField] at h'
              | cons _ _ => rfl
            · cases hE : removeFields s true mt2 S' ((k, x) :: rest) with
              | nil => rw [hE] at h'; simp [lookupField] at h'
              | cons _ _ => simp
        obtain ⟨outm, hfold, hout⟩ := mergeHandle_map_desc s _ _ _ _ mt2 hkE o hh hat hnotempty
        rw [eRf, eEf] at hfold
        have hpR := removeFields_pairwise s false mt2 S m hpw
        have hpE := removeFields_pairwise s true mt2 S' m hpw
        have hrec : ∀ k w, mergeNode s n' (lookupField k (removeFields s false mt2 S m))
            (lookupField k (removeFields s true mt2 S' m)) (fieldType mt2 k) = .ok (some w) → canon w = true := by
          intro k w hw
          cases hlk : lookupField k m with
          | none =>
            obtain ⟨e1, e2⟩ := keynone k hlk
            rw [e1, e2] at hw
            exact absurd hw (mergeNode_none_none s n' _ _)
          | some x =>
            rw [(key k x hlk).2 w hw]
            exact (hall (k, x) (lookupField_mem k m x hlk)).canon
        have hpo := (CanonKeys.foldl_mergeMapStep_canon _ mt2 _ _ hrec _ [] outm
          (CanonKeys.zipKeys_nodup _ _ hpR hpE) (by simp) List.Pairwise.nil (by simp) hfold).1
        have hlookup : ∀ k, lookupField k outm = lookupField k m := by
          intro k
          obtain ⟨g1, g2⟩ := mergedMap_lookup _ mt2 _ _ outm hfold k
          cases hlo : lookupField k outm with
          | some w =>
            have hw := g1 w hlo
            cases hlk : lookupField k m with
            | none =>
              obtain ⟨e1, e2⟩ := keynone k hlk
              rw [e1, e2] at hw
              exact absurd hw (mergeNode_none_none s n' _ _)
            | some x => rw [(key k x hlk).2 w hw]
          | none =>
            cases hlk : lookupField k m with
            | none => rfl
            | some x =>
              rcases g2 hlo with ⟨e1, e2⟩ | hnone
              · rcases (key k x hlk).1 with h' | h'
                · exact absurd e1 h'
                · exact absurd e2 h'
              · have := mergeNode_isSome s n' _ _ _ _ hnone
                cases this
        have : outm = m := entries_ext outm m hpo hpw hlookup
        subst this
        rcases hout with ⟨h0, _⟩ | ⟨_, ho⟩
        · exact absurd h0 hne
        · exact ho

/-! ### the law for typed values -/

/-- the set `ExtractItems(S, WithAppendKeyFields)` extracts -/
def extractSet (fs S : SetTrie) : SetTrie :=
  S.union (SetTrie.ofPaths ((S.paths.filter (fun p => fs.has p)).flatMap keyFieldPaths))

theorem extractItemsTV_appendKeys (s : Schema) (tv : TV) (fs S : SetTrie) (hfs : toFieldSet s tv = .ok fs) :
    extractItemsTV s tv S true = ⟨outToValue (removeV s true tv.type (extractSet fs S) tv.value), tv.type⟩ := by
  unfold extractItemsTV extractSet
  simp only [if_true, hfs]

theorem leafSub_of_leaves (s : Schema) (tv : TV) (fs S : SetTrie)
    (hv : validateV s false tv.type tv.value = .ok ()) (hc : canon tv.value = true)
    (hla : listsAssociative s tv.type tv.value = true) (hfs : toFieldSet s tv = .ok fs) (hS : S.wf = true)
    (hleaves : ∀ p, S.has p = true → fs.leaves.has p = true) : LeafSub s tv.type tv.value S := by
  have hL := leafSet_of_toFieldSet s tv fs hv hc hla hfs
  exact ⟨hS, fun p hp => (hL.2 p (has_true_ne_nil hp)).1 (hleaves p hp)⟩

theorem partition_maps_tv (s : Schema) (tv back : TV) (fs S : SetTrie)
    (hv : validateV s false tv.type tv.value = .ok ()) (hc : canon tv.value = true)
    (hnl : noLists tv.value = true) (hp : plain tv.value = true)
    (hfs : toFieldSet s tv = .ok fs) (hS : S.wf = true)
    (hleaves : ∀ p, S.has p = true → fs.leaves.has p = true)
    (hm : mergeTV s (removeItemsTV s tv S) (extractItemsTV s tv S true) = .ok back) :
    back.value = tv.value := by
  have hla := listsAssociative_of_noLists s tv.value tv.type hnl
  have hfswf : fs.wf = true := by
    unfold toFieldSet at hfs
    split at hfs
    · cases hfs; exact wf_ofPaths _
    · cases hfs
    · cases hfs
  have hhas := toFieldSet_has s tv fs hv hc hla hfs
  have hK : (S.paths.filter (fun p => fs.has p)).flatMap keyFieldPaths = [] := by
    rw [List.flatMap_eq_nil_iff]
    intro p hp'
    have hin := (List.mem_filter.1 hp').2
    simp only [hhas p, Bool.and_eq_true] at hin
    exact keyFieldPaths_fields p (inFS_fields_of_noLists s p _ _ hnl hin.2)
  have hwE : (extractSet fs S).wf = true := wf_union _ _ hS (wf_ofPaths _)
  have heq : ∀ p, S.has p = (extractSet fs S).has p := by
    intro p
    unfold extractSet
    rw [has_union p _ _ hS (wf_ofPaths _), hK]
    have : (SetTrie.ofPaths ([] : List Path)).has p = false := has_empty p
    rw [this, Bool.or_false]
  rw [extractItemsTV_appendKeys s tv fs S hfs] at hm
  unfold mergeTV removeItemsTV at hm
  simp only [] at hm
  split at hm
  · cases hm
  · split at hm
    · next o ho =>
      cases hm
      have := partition_maps s _ tv.value tv.type S _ _ o (Nat.le_refl _) ⟨hv, hc, hla, hp⟩ hnl
        (leafSub_of_leaves s tv fs S hv hc hla hfs hS hleaves) hwE heq ho
      rw [this]; rfl
    · cases hm
    · cases hm

end Part
end SMD
