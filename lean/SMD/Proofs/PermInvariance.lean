import SMD.Model.Updater
import SMD.Proofs.SetAlgebra
import SMD.Properties.C15
namespace SMD

/-! ### `ConflictsFromManagers` -/

theorem conflictsOf_perm {cs cs' : List (String × VersionedSet)} (h : cs.Perm cs') :
    (conflictsOf cs).Perm (conflictsOf cs') := by
  unfold conflictsOf
  exact h.flatMap_right _

/-! ### validation never panics -/

theorem pi_keyDefault_ne_panic (s : Schema) (list : ListT) (k : String) : keyDefault s list k ≠ .panic := by
  unfold keyDefault
  split
  · simp
  · split <;> simp

theorem pi_keyFieldsOf_ne_panic (s : Schema) (list : ListT) (m : List (String × Value)) :
    ∀ ks, keyFieldsOf s list m ks ≠ .panic
  | [] => by simp [keyFieldsOf]
  | k :: ks => by
    have ih := pi_keyFieldsOf_ne_panic s list m ks
    unfold keyFieldsOf
    split
    · cases h : keyFieldsOf s list m ks with
      | ok r => simp [bind, Res.bind, pure]
      | err => simp [bind, Res.bind]
      | panic => exact absurd h ih
    · split
      · cases h : keyFieldsOf s list m ks with
        | ok r => simp [bind, Res.bind, pure]
        | err => simp [bind, Res.bind]
        | panic => exact absurd h ih
      · simp
      · simp
      · rename_i h
        exact absurd h (pi_keyDefault_ne_panic _ _ _)

theorem pi_listItemToPE_ne_panic (s : Schema) (list : ListT) (child : Value) :
    listItemToPE s list child ≠ .panic := by
  unfold listItemToPE
  split
  · simp
  · split
    · split
      · rename_i m
        cases h : keyFieldsOf s list m list.keys with
        | ok r => simp [bind, Res.bind, pure]
        | err => simp [bind, Res.bind]
        | panic => exact absurd h (pi_keyFieldsOf_ne_panic _ _ _ _)
      · simp
    · split <;> simp

mutual
theorem pi_validateV_ne_panic (s : Schema) (dup : Bool) (tr : TypeRef) :
    ∀ v : Value, validateV s dup tr v ≠ .panic
  | .list l => by
    unfold validateV
    split
    · simp
    · simp
    · split <;> simp
    · exact pi_validateItems_ne_panic s dup _ _ _ l
    · simp
  | .map m => by
    unfold validateV
    split
    · simp
    · simp
    · split <;> simp
    · simp
    · exact pi_validateFields_ne_panic s dup _ m
  | .null => by unfold validateV; split <;> (try split) <;> simp
  | .bool _ => by unfold validateV; split <;> (try split) <;> simp
  | .int _ => by unfold validateV; split <;> (try split) <;> simp
  | .float _ _ => by unfold validateV; split <;> (try split) <;> simp
  | .str _ => by unfold validateV; split <;> (try split) <;> simp
theorem pi_validateItems_ne_panic (s : Schema) (dup : Bool) (t : ListT) (seen : List PE) (i : Nat) :
    ∀ l : List Value, validateItems s dup t seen i l ≠ .panic
  | [] => by simp [validateItems]
  | child :: rest => by
    unfold validateItems
    split
    · split
      · exact pi_validateItems_ne_panic s dup t _ _ rest
      · rename_i e _ h
        intro he
        exact pi_validateV_ne_panic s dup _ child he
    · split
      · split
        · simp
        · split
          · exact pi_validateItems_ne_panic s dup t _ _ rest
          · intro he
            exact pi_validateV_ne_panic s dup _ child he
      · simp
      · rename_i h
        exact absurd h (pi_listItemToPE_ne_panic _ _ _)
theorem pi_validateFields_ne_panic (s : Schema) (dup : Bool) (t : MapT) :
    ∀ m : List (String × Value), validateFields s dup t m ≠ .panic
  | [] => by simp [validateFields]
  | (k, v) :: rest => by
    unfold validateFields
    split
    · split
      · exact pi_validateFields_ne_panic s dup t rest
      · intro he
        exact pi_validateV_ne_panic s dup _ v he
    · split
      · simp
      · split
        · exact pi_validateFields_ne_panic s dup t rest
        · intro he
          exact pi_validateV_ne_panic s dup _ v he
end

/-! ### `validateFields` is a conjunction over the entries -/

/-- validation of one map entry -/
def vfStep (s : Schema) (dup : Bool) (t : MapT) (x : String × Value) : Res Unit :=
  match t.findField x.1 with
  | some sf => validateV s dup sf.type x.2
  | none => if t.elementType.isZero then .err else validateV s dup t.elementType x.2

theorem vfStep_ne_panic (s : Schema) (dup : Bool) (t : MapT) (x : String × Value) :
    vfStep s dup t x ≠ .panic := by
  unfold vfStep
  split
  · exact pi_validateV_ne_panic _ _ _ _
  · split
    · simp
    · exact pi_validateV_ne_panic _ _ _ _

theorem validateFields_cons (s : Schema) (dup : Bool) (t : MapT) (x : String × Value)
    (rest : List (String × Value)) :
    validateFields s dup t (x :: rest) =
      match vfStep s dup t x with
      | .ok _ => validateFields s dup t rest
      | e => e := by
  obtain ⟨k, v⟩ := x
  rw [validateFields]
  unfold vfStep
  simp only
  cases t.findField k with
  | some sf => rfl
  | none =>
    simp only
    by_cases hz : t.elementType.isZero = true
    · simp only [hz, if_true]
    · simp only [hz]; rfl

theorem validateFields_eq (s : Schema) (dup : Bool) (t : MapT) (m : List (String × Value)) :
    validateFields s dup t m = if m.all (fun x => (vfStep s dup t x).isOk) then .ok () else .err := by
  induction m with
  | nil => simp [validateFields]
  | cons x rest ih =>
    rw [validateFields_cons, ih, List.all_cons]
    cases h : vfStep s dup t x with
    | ok a =>
      have : (Res.ok a : Res Unit).isOk = true := rfl
      simp only [this, Bool.true_and]
    | err =>
      have : (Res.err : Res Unit).isOk = false := rfl
      simp [this]
    | panic => exact absurd h (vfStep_ne_panic _ _ _ _)

theorem validateFields_perm' (s : Schema) (dup : Bool) (t : MapT) {m m' : List (String × Value)}
    (h : m.Perm m') : validateFields s dup t m = validateFields s dup t m' := by
  rw [validateFields_eq, validateFields_eq, h.all_eq]

/-! ### `fsFields` concatenates per-entry path lists -/

/-- the paths contributed by one map entry (when its value converts) -/
def fsEntry (s : Schema) (t : MapT) (x : String × Value) : List Path :=
  match fsV s (fieldType t x.1) x.2 with
  | .ok sub =>
    sub.map (fun p => PE.field x.1 :: p) ++
      (if x.2.isNull || (match x.2 with | .map [] => true | _ => false) then [[.field x.1]]
       else if (t.findField x.1).isNone then [[.field x.1]]
       else [])
  | _ => []

theorem fsFields_ok (s : Schema) (t : MapT) :
    ∀ (m : List (String × Value)) (ps : List Path), fsFields s t m = .ok ps → ps = m.flatMap (fsEntry s t)
  | [], ps, h => by
    simp only [fsFields, Res.ok.injEq] at h
    simp [← h]
  | (k, v) :: rest, ps, h => by
    unfold fsFields at h
    cases h1 : fsV s (fieldType t k) v with
    | ok sub =>
      cases h2 : fsFields s t rest with
      | ok tail =>
        rw [h1, h2] at h
        simp only [Res.ok.injEq] at h
        rw [← h, List.flatMap_cons, ← fsFields_ok s t rest tail h2]
        simp only [fsEntry, h1]
        rfl
      | err => rw [h1, h2] at h; simp at h
      | panic => rw [h1, h2] at h; simp at h
    | err =>
      rw [h1] at h
      cases h2 : fsFields s t rest <;> rw [h2] at h <;> simp at h
    | panic =>
      rw [h1] at h
      cases h2 : fsFields s t rest <;> rw [h2] at h <;> simp at h

theorem fsFields_perm_paths (s : Schema) (t : MapT) {m m' : List (String × Value)} (h : m.Perm m')
    {ps ps' : List Path} (h1 : fsFields s t m = .ok ps) (h2 : fsFields s t m' = .ok ps') : ps.Perm ps' := by
  rw [fsFields_ok s t m ps h1, fsFields_ok s t m' ps' h2]
  exact h.flatMap_right _

theorem has_ofPaths_perm {ps ps' : List Path} (h : ps.Perm ps') (q : Path) :
    (SetTrie.ofPaths ps).has q = (SetTrie.ofPaths ps').has q := by
  rw [C15.has_ofPaths, C15.has_ofPaths, h.any_eq]

/-! ### `managedAtVersion` -/

/-- strictly ascending version keys -/
abbrev SortedMAV (acc : List (String × SetTrie)) : Prop := acc.Pairwise (fun a b => a.1 < b.1)

/-- membership of `q` in the union recorded under version `v` (first entry of the key) -/
def mavHas (acc : List (String × SetTrie)) (v : String) (q : Path) : Bool :=
  match acc.find? (·.1 == v) with | some e => e.2.has q | none => false

/-- membership of `q` in some entry of version `v` -/
def mavAny (acc : List (String × SetTrie)) (v : String) (q : Path) : Bool :=
  acc.any (fun e => e.1 == v && e.2.has q)

theorem mem_mav_upd {m : String × VersionedSet} {v : String} {acc : List (String × SetTrie)}
    {e : String × SetTrie} (h : e ∈ managedAtVersion.upd m v acc) : e.1 = v ∨ e ∈ acc := by
  induction acc with
  | nil => simp [managedAtVersion.upd] at h; simp [h]
  | cons y acc ih =>
    obtain ⟨v', s⟩ := y
    simp only [managedAtVersion.upd] at h
    split at h
    · rcases List.mem_cons.1 h with h | h <;> simp [h]
    · split at h
      · rcases List.mem_cons.1 h with h | h
        · simp [h]
        · exact .inr h
      · rcases List.mem_cons.1 h with h | h
        · simp [h]
        · rcases ih h with h | h <;> simp [h]

theorem sorted_mav_upd (m : String × VersionedSet) (v : String) {acc : List (String × SetTrie)}
    (hs : SortedMAV acc) : SortedMAV (managedAtVersion.upd m v acc) := by
  induction acc with
  | nil => simp [managedAtVersion.upd]
  | cons y acc ih =>
    obtain ⟨v', s⟩ := y
    have hs' := List.pairwise_cons.1 hs
    simp only [managedAtVersion.upd]
    split
    · rename_i h
      simp only [beq_iff_eq] at h
      subst h
      exact List.pairwise_cons.2 ⟨hs'.1, hs'.2⟩
    · split
      · rename_i h1 h2
        refine List.pairwise_cons.2 ⟨?_, hs⟩
        intro a ha
        rcases List.mem_cons.1 ha with rfl | ha
        · exact h2
        · exact String.lt_trans h2 (hs'.1 a ha)
      · rename_i h1 h2
        refine List.pairwise_cons.2 ⟨?_, ih hs'.2⟩
        intro a ha
        rcases mem_mav_upd ha with h | h
        · simp only [beq_iff_eq] at h1
          show v' < a.1
          rw [h]
          grind
        · exact hs'.1 a h

theorem wf_mav_upd (m : String × VersionedSet) (v : String) {acc : List (String × SetTrie)}
    (hm : m.2.set.wf = true) (hw : ∀ e ∈ acc, e.2.wf = true) :
    ∀ e ∈ managedAtVersion.upd m v acc, e.2.wf = true := by
  induction acc with
  | nil =>
    intro e he
    simp only [managedAtVersion.upd, List.mem_singleton] at he
    subst he
    exact C15.wf_union _ _ C15.wf_empty hm
  | cons y acc ih =>
    obtain ⟨v', s⟩ := y
    have hy : s.wf = true := hw (v', s) (List.mem_cons_self ..)
    have hacc : ∀ e ∈ acc, e.2.wf = true := fun e he => hw e (List.mem_cons_of_mem _ he)
    intro e he
    simp only [managedAtVersion.upd] at he
    split at he
    · rcases List.mem_cons.1 he with rfl | he
      · exact C15.wf_union _ _ hy hm
      · exact hacc e he
    · split at he
      · rcases List.mem_cons.1 he with rfl | he
        · exact C15.wf_union _ _ C15.wf_empty hm
        · exact hw e he
      · rcases List.mem_cons.1 he with rfl | he
        · exact hy
        · exact ih hacc e he

theorem mavAny_upd (m : String × VersionedSet) (v : String) {acc : List (String × SetTrie)}
    (hm : m.2.set.wf = true) (hw : ∀ e ∈ acc, e.2.wf = true) (v' : String) (q : Path) :
    mavAny (managedAtVersion.upd m v acc) v' q = ((v == v' && m.2.set.has q) || mavAny acc v' q) := by
  have hnew : (SetTrie.empty.union m.2.set).has q = m.2.set.has q := by
    rw [C15.has_union _ _ _ C15.wf_empty hm, C15.has_empty, Bool.false_or]
  induction acc with
  | nil => simp [managedAtVersion.upd, mavAny, hnew]
  | cons y acc ih =>
    obtain ⟨k, s⟩ := y
    have hy : s.wf = true := hw (k, s) (List.mem_cons_self ..)
    have hacc : ∀ e ∈ acc, e.2.wf = true := fun e he => hw e (List.mem_cons_of_mem _ he)
    simp only [managedAtVersion.upd]
    split
    · rename_i h
      simp only [beq_iff_eq] at h
      subst h
      simp only [mavAny, List.any_cons, C15.has_union _ _ _ hy hm]
      cases (v == v')
      · simp
      · simp only [Bool.true_and]; ac_rfl
    · split
      · simp only [mavAny, List.any_cons, hnew]
      · have := ih hacc
        simp only [mavAny, List.any_cons] at this ⊢
        rw [this]
        ac_rfl

theorem mavHas_eq_mavAny {acc : List (String × SetTrie)} (hs : SortedMAV acc) (v : String) (q : Path) :
    mavHas acc v q = mavAny acc v q := by
  induction acc with
  | nil => simp [mavHas, mavAny]
  | cons y acc ih =>
    obtain ⟨k, s⟩ := y
    have hs' := List.pairwise_cons.1 hs
    by_cases hk : k = v
    · subst hk
      have : mavAny acc k q = false := by
        simp only [mavAny, List.any_eq_false, Bool.and_eq_true, beq_iff_eq, not_and]
        intro e he hek
        have := hs'.1 e he
        rw [hek] at this
        exact absurd this (String.lt_irrefl _)
      simp only [mavAny] at this
      simp [mavHas, mavAny, this]
    · have hk' : (k == v) = false := by simpa using hk
      have := ih hs'.2
      simp only [mavHas, mavAny] at this ⊢
      simp only [List.find?_cons, hk', List.any_cons, Bool.false_and, Bool.false_or]
      exact this

/-- the invariant and the characterisation of the fold -/
theorem mav_foldl (ms : Managed) (hwf : ∀ x ∈ ms, x.2.set.wf = true) :
    ∀ (acc : List (String × SetTrie)), SortedMAV acc → (∀ e ∈ acc, e.2.wf = true) →
      let r := ms.foldl (fun (acc : List (String × SetTrie)) (m : String × VersionedSet) =>
        managedAtVersion.upd m m.2.version acc) acc
      SortedMAV r ∧ ∀ v q, mavAny r v q =
        (mavAny acc v q || ms.any (fun x => x.2.version == v && x.2.set.has q)) := by
  induction ms with
  | nil => intro acc hs hw; simpa using hs
  | cons x ms ih =>
    intro acc hs hw
    have hx : x.2.set.wf = true := hwf x (List.mem_cons_self ..)
    have hms : ∀ y ∈ ms, y.2.set.wf = true := fun y hy => hwf y (List.mem_cons_of_mem _ hy)
    have := ih hms (managedAtVersion.upd x x.2.version acc) (sorted_mav_upd x _ hs) (wf_mav_upd x _ hx hw)
    simp only [List.foldl_cons]
    refine ⟨this.1, fun v q => ?_⟩
    rw [this.2 v q, mavAny_upd x _ hx hw, List.any_cons]
    ac_rfl

theorem mavHas_managedAtVersion (m : Managed) (hwf : ∀ x ∈ m, x.2.set.wf = true) (v : String) (q : Path) :
    mavHas (managedAtVersion m) v q = m.any (fun x => x.2.version == v && x.2.set.has q) := by
  have := mav_foldl m hwf [] List.Pairwise.nil (by simp)
  simp only at this
  show mavHas (m.foldl _ []) v q = _
  rw [mavHas_eq_mavAny this.1, this.2 v q]
  simp [mavAny]

theorem mavHas_perm {m m' : Managed} (h : m.Perm m') (hwf : ∀ x ∈ m, x.2.set.wf = true) (v : String) (q : Path) :
    mavHas (managedAtVersion m) v q = mavHas (managedAtVersion m') v q := by
  rw [mavHas_managedAtVersion m hwf, mavHas_managedAtVersion m' (fun x hx => hwf x (h.mem_iff.2 hx)), h.any_eq]

end SMD
